#!/usr/bin/env python3
"""tools/mkseedprompt.py <Cxx> <round> [hard]: create a scratch worktree of /repo under /var/tmp/seed/<tag>/repo and
the prompt for an independent mutation author (only the property text, nothing from /verif)."""
import json, os, subprocess, sys
pid, rnd = sys.argv[1], sys.argv[2]
hard = len(sys.argv) > 3
props = {json.loads(l)['id']: json.loads(l) for l in open('/verif/properties.jsonl')}
p = props[pid]
tag = f"{pid.lower()}r{rnd}"
d = f"/var/tmp/seed/{tag}"
os.makedirs(d + "/out", exist_ok=True)
os.makedirs("/var/tmp/seed/prompts", exist_ok=True)
subprocess.run(["git", "-C", "/repo", "worktree", "add", "-q", "--detach", d + "/repo", "HEAD"], check=True)
aim = ("Each change should look like a plausible mistake or a plausible \"simplification\"/\"optimisation\" a developer could make (an off-by-one, a dropped or weakened check, a swapped order, a wrong constant, a missing reset/unlock/decrement, a boundary handled wrongly, two cooperating sites that each look fine alone), NOT a gratuitous sabotage, and — important — it should need something SPECIFIC to manifest: a particular boundary value, an unusual but legal input, a multi-step sequence of operations, a particular interleaving of goroutines, or a fault/crash at a particular point. A change that ordinary use would expose at once (everything breaks) is not wanted. Make the three mutations as different from each other as you can (different functions / different clauses of the property / different triggering conditions); at least one should be subtle (manifests only for rare inputs, longer sequences or rare schedules)."
       if not hard else
       "Aim for changes that are HARD to hit: behaviour that differs only for a narrow combination of state and input (only when internal state is in a particular configuration reached after a specific kind of history, only for one value that is not a round boundary, only when two specific operations follow each other or two goroutines interleave at one specific point, only for a specific relation between several arguments, only in a rarely used method or rarely taken branch), or that involve two cooperating edits that each look harmless. Each change must still look like a plausible developer mistake, refactoring slip or \"optimisation\", not sabotage, and must genuinely violate the property statement as written (not just change an internal detail).")
prompt = f"""You are testing how good a verification suite is. You are given ONE behavioural property of the Go library safing/portbase and a scratch git worktree of its source at {d}/repo (a detached checkout; work only there and in {d}/out — never touch /repo, /verif or any other directory, never run git stash; there is no network; use `export GOFLAGS=-mod=mod GOPROXY=off GOSUMDB=off GOTOOLCHAIN=local` in every shell call that runs go; a harmless `WARNING conda…` line is printed by every shell call). The source contains files named verif_*.go and calls like verifEvent(...)/verifYield(...): these are no-op instrumentation hooks (build tag `verif`); leave them alone and do not rely on them.

The property (as a user of the library would rely on it):

TITLE: {p['title']}
STATEMENT: {p['statement']}
QUANTIFIED OVER: {p['quantifier']['text']}
RELEVANT FILES: {', '.join(p['anchors']['files'])}

Your task: produce THREE different, independent source changes ("mutations") to safing/portbase, each of which BREAKS this property while the code still compiles (`go build ./... && go build -tags verif ./... && go vet ./<pkg>`) and the package's existing tests still pass (`go test -vet=off -count=1 ./<affected pkg>/...`, plus packages that import it if quick; tests in package `modules` and `utils` named TestMicroTaskWaiting, TestMicroTaskOrdering, TestCallLimiter, TestOnceAgain are timing-flaky under load on the unchanged tree — re-run before concluding). {aim}

For each mutation k in 1,2,3 write into {d}/out/k/:
- patch.diff — `git diff` of the change against the worktree HEAD (only the mutation, no test files), applicable with `git apply`;
- demo_test.go — a small self-contained Go test whose test function name contains "Demo", that FAILS with the change applied and PASSES without it (reliably: at least 5 of 5 runs each way; use forced synchronisation rather than sleeps where an interleaving is needed), demonstrating the property violation through the public API where possible; say at the top of the file in which package directory it has to be placed and how to run it;
- README.md — which clause of the property breaks, what exactly is needed to trigger it, and the commands you ran with their results (build, existing tests passing with the mutation, demo failing with / passing without).
Verify all of that yourself before writing the README. When done, restore the worktree to a clean state (`git checkout -- . && git clean -fdq` inside {d}/repo only) and reply with a short summary of the three mutations (one paragraph each)."""
open(f"/var/tmp/seed/prompts/{tag}.txt", "w").write(prompt)
print(tag)
