#!/usr/bin/env python3
"""tools/update_design_tally.py: replace the per-property tally table of DESIGN.md §10.4 by the current output of
tools/seedsummary.py and refresh seeded/TABLE.md (development time)."""
import os, re, subprocess
V = os.path.dirname(os.path.dirname(os.path.abspath(__file__)))
tab = subprocess.run(["python3", os.path.join(V, "tools", "seedsummary.py")], capture_output=True, text=True).stdout.strip("\n")
d = open(os.path.join(V, "DESIGN.md")).read()
d2 = re.sub(r"\| property \| seeded changes \|.*?\n\| \*\*all\*\* \|[^\n]*", lambda m: tab, d, count=1, flags=re.S)
open(os.path.join(V, "DESIGN.md"), "w").write(d2)
open(os.path.join(V, "seeded", "TABLE.md"), "w").write(subprocess.run(["python3", os.path.join(V, "tools", "seedtable.py")], capture_output=True, text=True).stdout)
print(tab.splitlines()[-1])
