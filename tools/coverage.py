#!/usr/bin/env python3
"""tools/coverage.py <Cxx> [tier] : statement coverage of the property's anchored source files under the
correspondence run. Builds the harness with `go build -cover -coverpkg=<portbase packages>`, runs it once
(GOCOVERDIR), and lists, per anchored file, the functions with uncovered statement blocks (file:line ranges).
Purpose: find regions of the modelled code that no generated input reaches *before* a mutation hides there.
Writes notes/coverage/<Cxx>.txt. Development-time tool; not part of any registered check."""
import json, os, re, subprocess, sys, tempfile, shutil, collections
V = os.path.dirname(os.path.dirname(os.path.abspath(__file__)))
pid = sys.argv[1]; tier = sys.argv[2] if len(sys.argv) > 2 else "quick"
props = {json.loads(l)["id"]: json.loads(l) for l in open(os.path.join(V, "properties.jsonl"))}
anchors = props[pid]["anchors"]["files"]
env = dict(os.environ, GOFLAGS="-mod=mod", GOPROXY="off", GOSUMDB="off", GOTOOLCHAIN="local", CGO_ENABLED="0")
REPO = os.path.realpath(os.environ.get("VERIF_REPO", "/repo"))  # a scratch worktree of /repo may be given, as for ./check
W = tempfile.mkdtemp(prefix="cov.%s." % pid, dir="/var/tmp")
try:
    hx = os.path.join(W, "hx")
    cmd = "./cmd/hx-" + pid.lower()
    modargs = []
    if REPO != "/repo":
        open(os.path.join(W, "go.mod"), "w").write(open(os.path.join(V, "harness", "go.mod")).read().replace("=> /repo", "=> " + REPO))
        shutil.copy(os.path.join(REPO, "go.sum"), os.path.join(W, "go.sum"))
        modargs = ["-modfile", os.path.join(W, "go.mod")]
    subprocess.run(["go", "build"] + modargs + ["-tags", "verif", "-cover", "-coverpkg=%s,github.com/safing/portbase/..." % cmd, "-o", hx, cmd],
                   cwd=os.path.join(V, "harness"), env=env, check=True)
    cd = os.path.join(W, "covdata"); out = os.path.join(W, "out"); os.makedirs(cd); os.makedirs(out)
    pbdrv = os.path.join(V, "lean", ".lake", "build", "bin", "pbdrv-" + pid.lower())
    p = subprocess.run([hx, "-tier", tier, "-seed", "1", "-out", out, "-pbdrv", pbdrv], cwd=out,
                       env=dict(env, GOCOVERDIR=cd, VERIF_SCRATCH_DIR=out, VERIF_REPO=REPO, VERIF_DIR=V),
                       stdout=subprocess.PIPE, stderr=subprocess.STDOUT, text=True, timeout=3600)
    print(p.stdout.splitlines()[-1] if p.stdout else "")
    prof = os.path.join(W, "cover.txt")
    subprocess.run(["go", "tool", "covdata", "textfmt", "-i=" + cd, "-o", prof], env=env, check=True)
    # profile lines: file:startLine.startCol,endLine.endCol numStmts count
    blocks = collections.defaultdict(list)
    for l in open(prof):
        m = re.match(r"github.com/safing/portbase/(\S+?):(\d+)\.\d+,(\d+)\.\d+ (\d+) (\d+)", l)
        if m:
            blocks[m.group(1)].append((int(m.group(2)), int(m.group(3)), int(m.group(4)), int(m.group(5))))
    lines = []
    tot_s = tot_c = 0
    for f in anchors:
        bs = blocks.get(f)
        if not bs:
            lines.append("%s: NOT LINKED / no statements recorded" % f); continue
        st = sum(b[2] for b in bs); cv = sum(b[2] for b in bs if b[3] > 0)
        tot_s += st; tot_c += cv
        lines.append("%s: %d/%d statements covered (%.0f%%)" % (f, cv, st, 100.0 * cv / max(st, 1)))
        src = open(os.path.join(REPO, f)).read().splitlines()
        # map uncovered blocks to enclosing function (last `func` line at or before the block)
        funcs = [(i + 1, re.sub(r"\s*\{\s*$", "", s)) for i, s in enumerate(src) if s.startswith("func ")]
        unc = collections.defaultdict(list)
        for a, b, n, c in sorted(bs):
            if c == 0:
                fn = next((name for ln, name in reversed(funcs) if ln <= a), "?")
                unc[fn].append("%d-%d" % (a, b) if a != b else str(a))
        for fn, rs in unc.items():
            lines.append("    %s  — uncovered: %s" % (fn[:110], ", ".join(rs)))
    lines.insert(0, "# %s %s tier: %d/%d statements of the anchored files covered (%.0f%%)" % (pid, tier, tot_c, tot_s, 100.0 * tot_c / max(tot_s, 1)))
    os.makedirs(os.path.join(V, "notes", "coverage"), exist_ok=True)
    open(os.path.join(V, "notes", "coverage", pid + ".txt"), "w").write("\n".join(lines) + "\n")
    print("\n".join(lines))
finally:
    shutil.rmtree(W, ignore_errors=True)
