#!/usr/bin/env python3
"""tools/seedtable.py: markdown table of the stored seeded changes (seeded/*/meta.json) for DESIGN.md §10.3:
what each change needs in order to manifest, whether the registered check caught it when it was first confirmed
(`check_caught` / `check_concrete_input` written by tools/confirm_seed.py) and what the check reports now
(`recheck`, written by tools/recheck_seeds.py)."""
import json, os, re
V = os.path.dirname(os.path.dirname(os.path.abspath(__file__)))
rows = []
SUM = json.load(open(os.path.join(V, "seeded", "summaries.json")))
for name in sorted(os.listdir(os.path.join(V, "seeded"))):
    mp = os.path.join(V, "seeded", name, "meta.json")
    if not os.path.exists(mp):
        continue
    m = json.load(open(mp))
    patch = open(os.path.join(V, "seeded", name, "patch.diff")).read()
    files = sorted(set(re.findall(r"^\+\+\+ b/(\S+)", patch, re.M)))
    first = "caught" if m.get("check_concrete_input") else ("broken tie/proof only" if m.get("check_caught") else "MISSED")
    rc = m.get("recheck")
    if rc:
        now = ("caught: " + ", ".join(s.rstrip("—").strip() for s in rc.get("signatures", [])[:2])) if rc.get("concrete_input") else (
            "no-failing-input-found (" + "; ".join(rc.get("no_longer_checks", []))[:80] + ")" if rc.get("caught") else "MISSED")
    else:
        now = "(as at first run)"
    what = SUM.get(name) or " ".join(m.get("needs_to_manifest", "").split())[:160]
    rows.append("| `%s` | %s | %s | %s | %s |" % (name, ", ".join(files), what, first, now))
print("| seeded change | touches | needs, in order to manifest | first run | now |")
print("|---|---|---|---|---|")
print("\n".join(rows))
