#!/bin/sh
# tools/mutcheck.sh <Cxx> <patch.diff> [tier]: apply a patch to a scratch worktree of /repo and run the check
# against it (VERIF_REPO), leaving /repo untouched. Prints the check's verdict lines.
set -e
P=$1; PATCH=$(realpath "$2"); TIER=${3:-quick}
W=$(mktemp -d /var/tmp/mut.XXXXXX)
git -C /repo worktree add -q --detach "$W/repo" HEAD
( cd "$W/repo" && git apply "$PATCH" )
cd "$(dirname "$0")/.."
VERIF_REPO="$W/repo" ./check "$P" --tier "$TIER" 2>&1 | grep -E "VIOLATION|KNOWN-FINDING|$P $TIER:|own statement|no longer checks|model≠impl|found by search" | cut -c1-260 || true
git -C /repo worktree remove --force "$W/repo"; rm -rf "$W"
