#!/bin/sh
# tools/sweep.sh [seeds="1 2 3"] [tier=quick] [props...]: run the registered checks for several seeds on the
# unchanged tree; any line not ending in OK is a problem (a check that alarms on the unchanged tree is broken).
SEEDS=${1:-"1 2 3"}; TIER=${2:-quick}; shift 2 2>/dev/null || true
cd "$(dirname "$0")/.."
PROPS=${*:-$(python3 -c "import json;print(' '.join(c['property_id'] for c in json.load(open('MANIFEST.json'))['checks']))")}
for s in $SEEDS; do for p in $PROPS; do
  out=$(VERIF_SEED=$s ./check $p --tier $TIER 2>&1); rc=$?
  echo "seed=$s $p rc=$rc $(echo "$out" | grep -E "^$p $TIER:|VIOLATION|KNOWN-FINDING" | tr '\n' ' ' | cut -c1-300)"
  python3-vt -c "
import json,jsonschema,sys
jsonschema.validate(json.load(open('evidence/$p.json')), json.load(open('/root/.vp/EVIDENCE.schema.json')))" 2>&1 | tail -1 | grep -v '^$' | sed "s/^/  EVIDENCE INVALID $p: /"
done; done
