#!/usr/bin/env python3
"""Writes MANIFEST.json from props/Cxx.json (claimed checks) and props/not_applicable.json."""
import json, os, sys
V = os.path.dirname(os.path.dirname(os.path.abspath(__file__)))
sys.path.insert(0, V)
from props import PROPS
hooks = json.load(open(os.path.join(V, "props", "hooks.json")))
na = json.load(open(os.path.join(V, "props", "not_applicable.json")))
checks = []
for pid, cfg in sorted(PROPS.items()):
    if cfg.get("unclaimed"):
        continue
    m = cfg["manifest"]
    checks.append({
        "property_id": pid,
        "quick_cmd": "./check %s --tier quick" % pid,
        "thorough_cmd": "./check %s --tier thorough" % pid,
        "evidence_file": "evidence/%s.json" % pid,
        "replay_cmd_template": "./check %s --replay {path}" % pid,
        "engine": "lean-proof+correspondence",
        "level_claimed": {"category": "proof", "text": m["level_text"], "design_ref": m.get("design_ref", "DESIGN.md §5 " + pid)},
        "level_note": m["level_note"],
        "technique": m["technique"],
    })
claimed = {c["property_id"] for c in checks}
man = {
    "version": 1,
    "setup_cmd": "./setup.sh",
    "hooks": hooks,
    "engines": [{"name": "lean-proof+correspondence", "path": "check", "serves_properties": sorted(claimed),
                 "kind_free_text": "Lean 4 theorems about an executable model (lean/PB, lean/PBProofs), tied to /repo on every run by regenerated tables (go/ast extractor) and a differential correspondence / trace-validation run of the compiled model against the real code (harness/)"}],
    "checks": checks,
    "not_applicable": [e for e in na if e["property_id"] not in claimed],
    "notes": "See DESIGN.md. One check per property: ./check Cxx --tier quick|thorough; known findings in known_findings.json.",
}
json.dump(man, open(os.path.join(V, "MANIFEST.json"), "w"), indent=1, ensure_ascii=False)
import glob
kf = {"_comment": "Committed list of genuine defects of the pinned safing/portbase tree (generated from props/*.findings.json by tools/mkmanifest.py at development time; never written at run time). 'findings' are recorded and not repaired: a check prints KNOWN-FINDING for a monitor violation whose signature is listed here and still reports every other violation. 'fixed' entries document repairs (fix: commits in /repo); they suppress nothing.",
      "findings": [], "fixed": []}
# builders committed their fixes on their own branches; on /repo main they are cherry-picks (git cherry-pick -x)
# with new hashes: rewrite the hashes in the `fixed:` lines to the commits that are actually on /repo main
import re, subprocess
remap = {}
try:
    log = subprocess.run(["git", "-C", "/repo", "log", "--format=%h%x00%B%x01"], capture_output=True, text=True).stdout
    for ent in log.split("\x01"):
        if "\x00" not in ent:
            continue
        h, body = ent.strip().split("\x00", 1)
        for m in re.findall(r"cherry picked from commit ([0-9a-f]{40})", body):
            remap[m[:7]] = h
except Exception:
    pass
def fix_hash(line):
    return re.sub(r"\b([0-9a-f]{7})\b", lambda m: remap.get(m.group(1), m.group(1)), line)
for p in sorted(glob.glob(os.path.join(V, "props", "C*.findings.json"))):
    d = json.load(open(p))
    kf["findings"] += d.get("findings", [])
    kf["fixed"] += [fix_hash(l) for l in d.get("fixed", [])]
json.dump(kf, open(os.path.join(V, "known_findings.json"), "w"), indent=1, ensure_ascii=False)
print("MANIFEST.json: %d checks, %d not_applicable" % (len(checks), len(man["not_applicable"])))
