#!/usr/bin/env python3
"""tools/recheck_seeds.py [-j N] [name-prefix ...]: run the registered quick check of every stored seeded change
(/verif/seeded/<name>/patch.diff) against a scratch worktree of /repo with the patch applied (VERIF_REPO; /repo itself is
never touched) and record the outcome in seeded/<name>/meta.json under "recheck": caught / concrete input / signatures.
Prints one line per seed. Used after strengthening a check, and to fill the table in DESIGN.md §10.3
(tools/seedtable.py)."""
import json, os, re, subprocess, sys, tempfile, time
from concurrent.futures import ThreadPoolExecutor

V = os.path.dirname(os.path.dirname(os.path.abspath(__file__)))
args = sys.argv[1:]
jobs = 2
if args[:1] == ["-j"]:
    jobs = int(args[1]); args = args[2:]
names = sorted(d for d in os.listdir(os.path.join(V, "seeded")) if os.path.exists(os.path.join(V, "seeded", d, "patch.diff")))
if args:
    names = [n for n in names if any(n.startswith(a) for a in args)]


def one(name):
    d = os.path.join(V, "seeded", name)
    meta = json.load(open(os.path.join(d, "meta.json")))
    pid = meta["property"]
    W = tempfile.mkdtemp(prefix="reseed.", dir="/var/tmp")
    repo = os.path.join(W, "repo")
    try:
        # VERIF_SEED_BASE: commit/branch of /repo the patches are applied to (default HEAD; a builder whose check needs a
        # not yet integrated fix: commit names its own branch here)
        subprocess.run(["git", "-C", "/repo", "worktree", "add", "-q", "--detach", repo, os.environ.get("VERIF_SEED_BASE", "HEAD")], check=True)
        p = subprocess.run(["git", "apply", os.path.join(d, "patch.diff")], cwd=repo, capture_output=True, text=True)
        if p.returncode != 0:
            # /repo has moved on (hook lines, fixes): try a 3-way application and, if that works, store the refreshed
            # patch (the original is kept as patch.orig.diff)
            p3 = subprocess.run(["git", "apply", "--3way", os.path.join(d, "patch.diff")], cwd=repo, capture_output=True, text=True)
            if p3.returncode == 0 and b"<<<<<<<" not in subprocess.run(["git", "diff"], cwd=repo, capture_output=True).stdout:
                subprocess.run(["git", "reset", "-q"], cwd=repo)
                new = subprocess.run(["git", "diff"], cwd=repo, capture_output=True, text=True).stdout
                if not os.path.exists(os.path.join(d, "patch.orig.diff")):
                    os.rename(os.path.join(d, "patch.diff"), os.path.join(d, "patch.orig.diff"))
                open(os.path.join(d, "patch.diff"), "w").write(new)
                p = p3
        if p.returncode != 0:
            res = {"applies": False, "detail": p.stderr[-300:]}
        else:
            t0 = time.time()
            p = subprocess.run(["./check", pid], cwd=V, env=dict(os.environ, VERIF_REPO=repo), stdout=subprocess.PIPE,
                               stderr=subprocess.STDOUT, text=True, timeout=5400)
            out = p.stdout.splitlines()
            vio = [l for l in out if l.startswith("VIOLATION")]
            sigs = sorted(set(re.findall(r"fails on the implementation: (\S+)", p.stdout) + re.findall(r"found by search[^:]*: (\S+)", p.stdout)))
            broken = [l.strip()[:200] for l in out if "no longer checks" in l]
            res = {"applies": True, "check_exit": p.returncode, "caught": p.returncode == 1 and bool(vio),
                   "concrete_input": any("no-failing-input-found" not in l for l in vio), "signatures": sigs[:8],
                   "no_longer_checks": broken[:4], "wall_s": round(time.time() - t0),
                   "verif_head": subprocess.run(["git", "-C", V, "rev-parse", "--short", "HEAD"], capture_output=True, text=True).stdout.strip()}
        meta["recheck"] = res
        json.dump(meta, open(os.path.join(d, "meta.json"), "w"), indent=1, ensure_ascii=False)
        return name, res
    finally:
        subprocess.run(["git", "-C", "/repo", "worktree", "remove", "--force", repo], capture_output=True)
        subprocess.run(["rm", "-rf", W])


# two checks of the SAME property must not run at once in one /verif (they share lean/PB/Gen and the compiled driver):
# parallelism is across properties only
import collections
byprop = collections.OrderedDict()
for n in names:
    byprop.setdefault(n.split("-")[0], []).append(n)


def prop_queue(ns):
    out = []
    for n in ns:
        name, res = one(n)
        print(name, "CAUGHT" if res.get("caught") else "MISSED", "concrete" if res.get("concrete_input") else "no-concrete",
              ",".join(res.get("signatures", []))[:160], flush=True)
        out.append(name)
    return out


with ThreadPoolExecutor(jobs) as ex:
    list(ex.map(prop_queue, byprop.values()))
