#!/usr/bin/env python3
"""tools/seedsummary.py: per-property tally of the stored seeded changes (first confirmation vs. latest recheck) as a
markdown table for DESIGN.md §10.4; the full table (one row per change) is written by tools/seedtable.py."""
import json, os, collections
V = os.path.dirname(os.path.dirname(os.path.abspath(__file__)))
rows = collections.OrderedDict()
for name in sorted(os.listdir(V + '/seeded')):
    mp = V + '/seeded/%s/meta.json' % name
    if not os.path.exists(mp):
        continue
    m = json.load(open(mp)); pid = m['property']
    r = rows.setdefault(pid, {'n': 0, 'first_c': 0, 'first_b': 0, 'first_m': 0, 'now_c': 0, 'now_b': 0, 'now_m': 0, 'ret': 0, 'open': []})
    r['n'] += 1
    r['first_c' if m.get('check_concrete_input') else ('first_b' if m.get('check_caught') else 'first_m')] += 1
    rc = m.get('recheck')
    if m.get('retired'):
        r['ret'] += 1; continue
    caught, concrete = (m.get('check_caught'), m.get('check_concrete_input')) if rc is None else (rc.get('caught'), rc.get('concrete_input'))
    if concrete:
        r['now_c'] += 1
    else:
        r['now_b' if caught else 'now_m'] += 1; r['open'].append(name)
print("| property | seeded changes | first run: concrete input / broken tie or proof only / missed | now: concrete / tie-proof only / missed / retired | not yet caught with a concrete input |")
print("|---|---|---|---|---|")
T = collections.Counter()
for pid, r in rows.items():
    print("| %s | %d | %d / %d / %d | %d / %d / %d / %d | %s |" % (pid, r['n'], r['first_c'], r['first_b'], r['first_m'], r['now_c'], r['now_b'], r['now_m'], r['ret'], ", ".join(r['open']) or "—"))
    for k in r:
        if k != 'open':
            T[k] += r[k]
print("| **all** | %d | %d / %d / %d | %d / %d / %d / %d | |" % (T['n'], T['first_c'], T['first_b'], T['first_m'], T['now_c'], T['now_b'], T['now_m'], T['ret']))
