#!/bin/sh
# tools/integrate.sh <group> <Cxx> [<Cyy>]: merge a builder's verif branch into main and cherry-pick its repo
# commits onto /repo (manual conflict resolution may be needed; the script stops at the first problem).
set -e
G=$1; shift
cd /verif
echo "== merging verif branch $G"
git merge --no-edit -X theirs "$G" -m "merge builder branch $G ($*)" || { echo "MERGE CONFLICT: resolve, then re-run the rest by hand"; exit 1; }
# generated files must come from main's generator
python3 tools/mkmanifest.py >/dev/null || true
echo "== repo commits of verif-$G"
BASE=$(git -C /repo merge-base HEAD verif-$G)
git -C /repo log --reverse --format='%h %s' $BASE..verif-$G
for c in $(git -C /repo log --reverse --format='%h' $BASE..verif-$G); do
  git -C /repo cherry-pick -x $c >/dev/null 2>&1 || { echo "CHERRY-PICK CONFLICT at $c: resolve in /repo (git -C /repo status), then continue"; exit 2; }
done
echo "== repo now at $(git -C /repo log --oneline | head -1)"
