#!/usr/bin/env python3
"""tools/confirm_seed.py <Cxx> <seed out dir> <name> <pkgdir> [test pkgs...]
Confirms a seeded change independently in a scratch worktree of /repo and, if everything holds, stores it
as /verif/seeded/<name>/ (patch.diff, demonstration, meta.json):
  1. demonstration passes on the unchanged tree, 2. patch applies, `go build ./...` ok,
  3. existing tests of the given packages pass with the patch, 4. demonstration fails with the patch,
  5. the registered check reports a VIOLATION for the patched tree (VERIF_REPO) — recorded, not required."""
import json, os, re, shutil, subprocess, sys, tempfile, time
pid, src, name, pkgdir = sys.argv[1:5]
pkgs = sys.argv[5:] or ["./" + pkgdir + "/..."]
V = os.path.dirname(os.path.dirname(os.path.abspath(__file__)))
env = dict(os.environ, GOFLAGS="-mod=mod", GOPROXY="off", GOSUMDB="off", GOTOOLCHAIN="local")
def sh(cmd, cwd, timeout=1800):
    p = subprocess.run(cmd, cwd=cwd, env=env, shell=isinstance(cmd, str), stdout=subprocess.PIPE, stderr=subprocess.STDOUT, text=True, timeout=timeout)
    return p.returncode, "\n".join(l for l in p.stdout.splitlines() if not l.startswith("WARNING conda"))
W = tempfile.mkdtemp(prefix="seedconfirm.", dir="/var/tmp")
repo = os.path.join(W, "repo")
subprocess.run(["git", "-C", "/repo", "worktree", "add", "-q", "--detach", repo, "HEAD"], check=True)
meta = {"property": pid, "name": name, "confirmed_at": time.strftime("%Y-%m-%dT%H:%M:%SZ", time.gmtime()), "repo_head": subprocess.run(["git", "-C", "/repo", "rev-parse", "--short", "HEAD"], capture_output=True, text=True).stdout.strip()}
try:
    demo = next(f for f in os.listdir(src) if f.startswith("demo") and f.endswith(".go"))
    is_test = demo.endswith("_test.go")
    dst = os.path.join(repo, pkgdir, "zz_seed_demo_test.go" if is_test else demo)
    def run_demo():
        if is_test:
            return sh(["go", "test", "-vet=off", "-count=1", "-run", "Demo", "./" + pkgdir + "/"], repo)
        return sh(["go", "run", "./" + os.path.relpath(os.path.dirname(dst), repo)], repo)
    os.makedirs(os.path.dirname(dst), exist_ok=True)  # a demo may ask for a directory of its own
    shutil.copy(os.path.join(src, demo), dst)
    rc, out = run_demo()
    meta["demo_passes_unchanged"] = rc == 0 and "no tests to run" not in out
    os.remove(dst)
    rc, out = sh(["git", "apply", os.path.join(os.path.abspath(src), "patch.diff")], repo)
    meta["patch_applies"] = rc == 0
    rc, out = sh("go build ./... && go build -tags verif ./...", repo)
    meta["builds"] = rc == 0
    FLAKY = {"TestMicroTaskWaiting", "TestMicroTaskOrdering", "TestCallLimiter", "TestOnceAgain"}  # flaky / failing on the unchanged tree (BASELINE.json; TestMicroTaskOrdering under load)
    import re as _re
    for attempt in range(4):
        rc, out = sh(["go", "test", "-vet=off", "-count=1"] + pkgs, repo)
        failed = set(_re.findall(r"^--- FAIL: (\S+)", out, _re.M))
        if rc == 0 or (failed and failed <= FLAKY):
            break
    meta["existing_tests_pass_with_change"] = rc == 0 or (bool(failed) and failed <= FLAKY)
    if rc != 0:
        meta["existing_tests_only_baseline_flaky_failed"] = sorted(failed)
    meta["existing_tests_cmd"] = "go test -vet=off -count=1 " + " ".join(pkgs)
    if rc != 0:
        meta["existing_tests_output"] = out[-1500:]
    shutil.copy(os.path.join(src, demo), dst)
    rc, out = run_demo()
    meta["demo_fails_with_change"] = rc != 0
    meta["demo_output_with_change"] = out[-800:]
    os.remove(dst)
    rc, out = sh(["./check", pid], V, timeout=3600) if False else (None, None)
    e2 = dict(env, VERIF_REPO=repo)
    p = subprocess.run(["./check", pid], cwd=V, env=e2, stdout=subprocess.PIPE, stderr=subprocess.STDOUT, text=True, timeout=3600)
    lines = [l for l in p.stdout.splitlines() if l.startswith("VIOLATION") or "own statement" in l or "no longer checks" in l or "model≠impl" in l]
    meta["check_exit"] = p.returncode
    meta["check_caught"] = p.returncode == 1 and any(l.startswith("VIOLATION") for l in lines)
    meta["check_concrete_input"] = any(l.startswith("VIOLATION") and "no-failing-input-found" not in l for l in lines)
    meta["check_output"] = [l[:300] for l in lines[:6]]
    ok = all(meta.get(k) for k in ["demo_passes_unchanged", "patch_applies", "builds", "existing_tests_pass_with_change", "demo_fails_with_change"])
    meta["kept"] = ok
    if ok:
        d = os.path.join(V, "seeded", name)
        os.makedirs(d, exist_ok=True)
        shutil.copy(os.path.join(src, "patch.diff"), d)
        shutil.copy(os.path.join(src, demo), d)
        if os.path.exists(os.path.join(src, "README.md")):
            shutil.copy(os.path.join(src, "README.md"), os.path.join(d, "README.md"))
            txt = open(os.path.join(src, "README.md")).read()
            meta["needs_to_manifest"] = " ".join(txt.split())[:700]
        meta["demo_placement"] = pkgdir
        meta["what_i_ran"] = ["demo on unchanged worktree (pass)", "git apply patch.diff", "go build ./... (+ -tags verif)", meta["existing_tests_cmd"] + " (pass)", "demo with change (fail)", "VERIF_REPO=<worktree> ./check %s" % pid]
        json.dump(meta, open(os.path.join(d, "meta.json"), "w"), indent=1, ensure_ascii=False)
    print(json.dumps({k: meta[k] for k in meta if k not in ("needs_to_manifest", "demo_output_with_change", "existing_tests_output")}, indent=1))
finally:
    subprocess.run(["git", "-C", "/repo", "worktree", "remove", "--force", repo])
    shutil.rmtree(W, ignore_errors=True)
