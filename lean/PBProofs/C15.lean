import PBProofs.Lemmas.MicroTasks
/-!
# C15 — Microtasks respect the concurrency limit, run once, and are fully accounted

Property theorems over the model `PB.MicroTasks` (lean/PB/Model/MicroTasks.lean), for every limit, every
number of tasks of every priority and variant, every outcome of the task functions and every interleaving
(`run (init lim) as = some s` ranges over all finite action sequences the model admits).
Helper lemmas (the inductive invariants `Inv`, `DInv`) live in PBProofs/Lemmas/MicroTasks.lean.
-/
namespace PB.C15
open PB.MicroTasks PB.Gen.MicroTasks

/-! ## configuration -/

/-- `SetMaxConcurrentMicroTasks` never configures a limit below 2 and keeps every limit ≥ 2 as given
    (stated over the function regenerated from the source). -/
theorem configured_limit_at_least_two (n : Int) : 2 ≤ setMax n ∧ (2 ≤ n → setMax n = n) := by
  unfold setMax
  constructor
  · split <;> omega
  · intro h; split <;> omega

/-- The regenerated source facts are the ones the model's merged actions assume: the run and signal variants
    and the two priorities apply the same deltas, the finished channel holds one token, the token is offered
    after the decrement, only the enqueue-timeout path counts the task itself, and the Run (hence Start) variants
    replace a max delay of 0 by the default (only Signal* calls can expire at once, `DSt.zOk`); `concludeMicroTask`
    runs the stop check unconditionally between its two decrements, and no function of package `modules` other
    than the modelled ones of microtasks.go writes either counter (the extractor scans every file and fails
    closed otherwise — in particular nothing in the module stop/start protocol touches `microTaskCnt`). -/
theorem source_tables_as_modelled :
    dHighSignal = dHighRun ∧ dModSignal = dModRun ∧ dTimeoutLow = dTimeoutMedium ∧ dShutdownSched = dSched ∧
    dSched = 1 ∧ dHighRun = 1 ∧ dTimeoutMedium = 1 ∧ dConclude = -1 ∧ dModRun = 1 ∧ dModConclude = -1 ∧
    finishedCap = 1 ∧ tokenAfterDec = true ∧ timeoutEnqueueCounts = true ∧ timeoutWaitCounts = false ∧
    runMediumDefaultsZeroDelay = true ∧ runLowDefaultsZeroDelay = true ∧
    concludeChecksStop = true ∧ counterWritesOutsideModel = 0 ∧
    armEnqueueMedium = Arm.param ∧ armWaitMedium = Arm.param ∧ armEnqueueLow = Arm.param ∧ armWaitLow = Arm.param ∧
    clearanceCallsPassMaxDelay = true ∧ startVariantsPassThrough = true ∧
    runReturnsFnError = true ∧ runVariantsReturnDirect = true := by
  decide

/-- **Which duration every max-delay timer is armed with.** Each of the four timers of the clearance wait (enqueue
    phase and wait phase, medium and low priority) is armed with the `maxDelay` parameter of its function; that
    parameter is what the caller submitted — the Run\* variants replace an argument ≤ 0 by the documented default
    (1 s medium, 3 s low) and otherwise hand the argument on as it is, the Start\* variants pass theirs to the Run\*
    variants, the Signal\* variants hand theirs on unchanged (their 0 is the recorded finding). Stated over the
    regenerated table and functions: arming a timer with a constant, a changed default or a clamped argument breaks
    this theorem. -/
theorem timers_armed_with_submitted_max_delay :
    (∀ ph p, armed ph p = Arm.param) ∧
    runMediumDelay 0 = 1000000000 ∧ runLowDelay 0 = 3000000000 ∧
    (∀ d : Int, 0 < d → runMediumDelay d = d ∧ runLowDelay d = d) ∧
    (∀ d : Int, signalMediumDelay d = d ∧ signalLowDelay d = d) ∧
    clearanceCallsPassMaxDelay = true ∧ startVariantsPassThrough = true := by
  refine ⟨armed_param, rfl, rfl, ?_, fun _ => ⟨rfl, rfl⟩, rfl, rfl⟩
  intro d hd
  unfold runMediumDelay runLowDelay
  constructor <;> split <;> omega

/-- … hence, in the model, a timer can fire before the documented max delay of its call has expired only through
    a `Signal*MicroTask(0)` call: the early-expiry actions (`z = true`) are enabled by `zeroExp` alone. -/
theorem early_expiry_only_by_signal_zero (ph : Phase) (p : Prio) : earlyExp ph p = zeroExp p := by
  unfold earlyExp
  rw [armed_param]
  simp

/-- the configured limit never changes during a run of the model -/
theorem limit_constant (lim : Nat) (as : List Act) (s : St) (h : run (init lim) as = some s) : s.lim = lim := by
  suffices ∀ (as : List Act) (s0 s : St), run s0 as = some s → s.lim = s0.lim from this as _ _ h
  intro as
  induction as with
  | nil => intro s0 s h; simp [run] at h; subst h; rfl
  | cons a as ih =>
    intro s0 s h
    simp only [run] at h
    split at h
    · rename_i s1 hs1
      rw [ih s1 s h]
      cases a <;> simp only [step, addG, addM] at hs1 <;> (repeat' split at hs1) <;> cases hs1 <;> rfl
    · cases h

/-- A recorded trace may start with the finished token of an earlier conclusion still in the channel: that
    start state is reachable from the initial state, so every accepted trace extends to a run from `init`. -/
theorem start_with_token_reachable (lim : Nat) :
    run (init lim) [.hcall, .hinc, .begin true, .fnRet true 0, .modDec true, .dec true, .tokSend] = some (initTok lim) := by
  simp [run, step, init, initTok, addG_high, addG_conclude, addM_run, addM_conclude]

/-! ## the concurrency limit -/

/-- **Limit — the statement at full strength is false on the code as it is.** Read with the documented meaning
    of the max delay ("0 … use the default value"), `tmo = 0` says that no maximum delay has expired; yet
    `SignalMicroTask(0)` / `SignalLowPriorityMicroTask(0)` pass the 0 on to `time.After`, their timer fires at
    once (the `z = true` timer actions, enabled because the regenerated `signal*DefaultsZeroDelay` are `false`)
    and the callers start without clearance: three of them run at limit 2.
    Recorded finding `C15:limit-exceeded:signal-variants-with-maxdelay-0`; if the source starts to apply the
    default, the regenerated table disables these actions and this witness no longer checks. -/
theorem limit_respected_full_statement_REFUTED :
    ¬ (∀ (lim : Nat) (as : List Act) (s : St), run (init lim) as = some s → s.shut = 0 → s.tmo = 0 → s.r ≤ lim) := by
  intro h
  have := h 2 [.submit .med, .submit .med, .submit .low, .tmoWait .med true, .tmoWait .med true, .tmoWait .low true,
    .begin false, .begin false, .begin false] _ rfl (by decide) (by decide)
  exact absurd this (by decide)

/-- the finding's input class: a medium `SignalMicroTask(0)` call (zd = 1) whose timer fires at once — the
    caller starts uncounted while no documented delay has expired (`tmo = 0`, `tz = 1`) -/
example : (frun ⟨init 2, DSt.new 0 2 0 1⟩ [(.submit .med, true), (.tmoWait .med true, true), (.begin false, true)]).map
    (fun f => (f.d.pc, f.g.r, f.g.cnt, f.g.sM, f.g.tmo, f.g.tz)) = some (5, 1, 0, 1, 0, 1) := by decide

/-- … and such a timer is impossible for a task that was not called that way -/
example : frun ⟨init 2, DSt.new 0 2 0 0⟩ [(.submit .med, true), (.tmoWait .med true, true)] = none := by decide

/-- **Limit (partial: no Signal\* call with max delay 0 has fired its immediate timer, `tz = 0`).** Before
    shutdown begins and as long as no maximum delay has expired, at most `lim` medium- and low-priority
    microtasks execute at the same time — in every reachable state, for every limit, any number of tasks and
    every interleaving. (The bound on the medium/low tasks does not even need the proviso about high-priority
    tasks.) -/
theorem limit_respected_partial (lim : Nat) (as : List Act) (s : St) (h : run (init lim) as = some s)
    (hshut : s.shut = 0) (htmo : s.tmo = 0) (hz : s.tz = 0) : s.r ≤ lim := by
  have hl := limit_constant lim as s h
  have hi := inv_run as (inv_init lim) h
  unfold MicroTasks.Inv at hi
  grind

/-- The statement as given (same exclusion): with no high-priority microtask running, the microtasks executing
    at the same time — of all priorities — number at most `lim`. -/
theorem limit_respected_all_priorities_partial (lim : Nat) (as : List Act) (s : St) (h : run (init lim) as = some s)
    (hshut : s.shut = 0) (htmo : s.tmo = 0) (hz : s.tz = 0) (hhigh : s.hr = 0) : s.r + s.hr ≤ lim := by
  have := limit_respected_partial lim as s h hshut htmo hz
  omega

/-- Stronger form used by the proof: everything admitted and not yet decremented (cleared, running,
    concluding) is within the limit, and while the scheduler is about to grant there is a free slot. -/
theorem admitted_within_limit_partial (lim : Nat) (as : List Act) (s : St) (h : run (init lim) as = some s)
    (hshut : s.shut = 0) (htmo : s.tmo = 0) (hz : s.tz = 0) :
    s.admML ≤ lim ∧ (s.spc = 2 ∨ s.spc = 3 → s.admML + 1 ≤ lim) := by
  have hl := limit_constant lim as s h
  have hi := inv_run as (inv_init lim) h
  unfold MicroTasks.Inv at hi
  unfold St.admML
  grind

/-- The provisos are needed (1): after a maximum delay has expired the limit can be exceeded. -/
theorem limit_can_be_exceeded_after_expiry :
    ∃ as s, run (init 2) as = some s ∧ s.shut = 0 ∧ 0 < s.tmo ∧ s.lim < s.r :=
  ⟨[.submit .med, .submit .med, .submit .med, .tmoWait .med false, .tmoWait .med false, .tmoWait .med false,
    .begin false, .begin false, .begin false], _, rfl, by decide⟩

/-- The provisos are needed (2): after shutdown has begun every request is granted. -/
theorem limit_can_be_exceeded_after_shutdown :
    ∃ as s, run (init 2) as = some s ∧ s.shut = 1 ∧ s.tmo = 0 ∧ s.tz = 0 ∧ s.lim < s.r :=
  ⟨[.shutdown, .flag, .submit .med, .submit .low, .submit .med,
    .take .med false, .close, .count, .take .low false, .close, .count, .take .med false, .close, .count,
    .begin false, .begin false, .begin false], _, rfl, by decide⟩

/-- The provisos are needed (3): counted over all priorities the limit can be exceeded while high-priority
    microtasks run, because they never wait. -/
theorem all_priorities_bound_needs_no_high_running :
    ∃ as s, run (init 2) as = some s ∧ s.shut = 0 ∧ s.tmo = 0 ∧ s.tz = 0 ∧ s.lim < s.r + s.hr :=
  ⟨[.flag, .read, .submit .med, .take .med false, .close, .count, .begin false,
    .hcall, .hinc, .begin true, .hcall, .hinc, .begin true], _, rfl, by decide⟩

/-! ## accounting -/

/-- **Accounting.** In every reachable state (also after expiries and during shutdown) the global counter
    equals increments minus decrements, every admitted and not yet decremented task is either counted or has
    exactly one increment owed to it by the scheduler (a stale request still queued or held, or the step
    between `close` and `AddInt32`), and the per-module counters sum to the number of tasks between their
    module increment and module decrement. -/
theorem accounting_balanced (lim : Nat) (as : List Act) (s : St) (h : run (init lim) as = some s) :
    s.cnt + (s.sM + s.sL + s.pend : Nat) = (s.admML + s.admH : Nat) ∧
    s.mods = (s.r + s.d1 + s.hr + s.hd1 : Nat) := by
  have hi := inv_run as (inv_init lim) h
  unfold MicroTasks.Inv at hi
  unfold St.cnt St.mods St.admML St.admH
  omega

/-- **Counters return to zero.** Once all microtasks have finished and no clearance request is left over, the
    global count and the per-module counts are zero. -/
theorem counts_zero_after_quiescence (lim : Nat) (as : List Act) (s : St) (h : run (init lim) as = some s)
    (hq : s.quiescent) : s.cnt = 0 ∧ s.mods = 0 := by
  have hb := accounting_balanced lim as s h
  unfold St.quiescent at hq
  unfold St.admML St.admH at hb
  omega

/-- The counter can dip below zero only by the increments the scheduler still owes. -/
theorem count_lower_bound (lim : Nat) (as : List Act) (s : St) (h : run (init lim) as = some s) :
    -((s.sM + s.sL + s.pend : Nat) : Int) ≤ s.cnt := by
  have hb := accounting_balanced lim as s h
  omega

/-- **No lost wake-up.** A scheduler that found the house full and waits for the finished token is never left
    waiting once everything has finished: the token is in the channel (so it need not wait for the recheck
    ticker). -/
theorem no_lost_wakeup (lim : Nat) (as : List Act) (s : St) (h : run (init lim) as = some s)
    (hlim : 1 ≤ lim) (hq : s.quiescent) (hw : s.spc = 5) : s.fin = 1 := by
  have hl := limit_constant lim as s h
  have hi := inv_run as (inv_init lim) h
  unfold MicroTasks.Inv at hi
  unfold St.quiescent at hq
  grind

/-- timers: the recheck ticker and the max-delay expiries -/
def isTimer : Act → Bool
  | .wakeTick | .tmoEnq _ _ | .tmoInc | .tmoWait _ _ | .tmoHeld _ | .tmoLate _ => true
  | _ => false

/-- the scheduler steps that admit a request of priority `p` from a quiescent state -/
def admitPath (s : St) (p : Prio) : List Act :=
  if s.spc = 0 then (if s.shut = 1 then [.flag, .take p false, .close] else [.flag, .read, .take p false, .close])
  else if s.spc = 1 then [.read, .take p false, .close]
  else if s.spc = 5 then
    (if s.shut = 1 then [.wakeToken, .flag, .take p false, .close] else [.wakeToken, .flag, .read, .take p false, .close])
  else [.take p false, .close]

/-- **Later microtasks are admitted immediately.** From every reachable quiescent state a newly submitted
    medium- or low-priority microtask is cleared by scheduler steps alone — no decrement by anybody else, no
    recheck tick, no max-delay expiry is needed. -/
theorem admitted_immediately_after_quiescence (lim : Nat) (as : List Act) (s : St)
    (h : run (init lim) as = some s) (hlim : 1 ≤ lim) (hq : s.quiescent) (p : Prio) :
    (admitPath s p).all (fun a => !isTimer a) = true ∧
    ∃ s', run s (.submit p :: admitPath s p) = some s' ∧ s'.c = 1 ∧ s'.tmo = s.tmo ∧ s'.tz = s.tz := by
  have hl := limit_constant lim as s h
  have hz := counts_zero_after_quiescence lim as s h hq
  have hw := no_lost_wakeup lim as s h hlim hq
  have hi := inv_run as (inv_init lim) h
  unfold MicroTasks.Inv at hi
  unfold St.quiescent at hq
  have hsp' : ∀ t : St, t.cI = s.cI → t.cD = s.cD → t.lim = s.lim → space t = true := by
    intro t h1 h2 h3; rw [space_iff]; unfold St.cnt at hz; omega
  obtain ⟨hwM, hwL, _, _, _, hc, _, _, _, _, _, _, _, _, _, hhk, hpend⟩ := hq
  obtain ⟨_, _, _, h8, _, hk0, _, _, hp4, hs6, _⟩ := hi
  have hspc : s.spc = 0 ∨ s.spc = 1 ∨ s.spc = 2 ∨ s.spc = 5 ∨ s.spc = 6 := by
    have := hk0 hhk
    have : s.spc ≠ 4 ∧ s.spc ≠ 8 := by
      constructor <;> intro hc <;> have := hp4 (by simp [hc]) <;> omega
    omega
  have hshut : s.shut = 0 ∨ s.shut = 1 := by omega
  constructor
  · unfold admitPath
    cases p <;> (repeat' split) <;> rfl
  · rcases hspc with h0 | h0 | h0 | h0 | h0 <;> rcases hshut with h1 | h1 <;> cases p <;>
      (first | (have hf := hw h0; simp [admitPath, run, step, h0, h1, hsp', hwM, hwL, hc, hhk, hf]) | simp [admitPath, run, step, h0, h1, hsp', hwM, hwL, hc, hhk]) <;> omega

/-- the actions by which tasks and the scheduler move on their own: no timer, no new submission, no no-op -/
def progressActs : List Act :=
  [.flag, .read, .take .med false, .take .low false, .take .med true, .take .low true, .close, .count, .wakeToken,
   .tmoInc, .hinc, .begin false, .begin true, .fnRet false 0, .fnRet true 0, .modDec false, .modDec true,
   .dec false, .dec true, .tokSend, .tokDrop]

/-- **No deadlock.** As long as anything is in flight — a task anywhere between its call and the end of its
    conclusion, a clearance request queued or held, an increment owed — some task or the scheduler can move
    without any timer firing (no max-delay expiry, no recheck tick) and without anything new being submitted.
    So a submitted microtask never depends on a timer to get executed and concluded. -/
theorem no_deadlock (lim : Nat) (as : List Act) (s : St) (h : run (init lim) as = some s)
    (hlim : 1 ≤ lim) (hbusy : ¬ s.quiescent) :
    ∃ a ∈ progressActs, (step s a).isSome = true := by
  have hl := limit_constant lim as s h
  have hi := inv_run as (inv_init lim) h
  unfold MicroTasks.Inv at hi
  unfold St.quiescent at hbusy
  obtain ⟨_, hfin, hhk, hspc8, hpend, _, hk1, hp1, _, _, hbal, _, _, _, _, hwake⟩ := hi
  clear h
  by_cases h1 : 0 < s.te
  · exact ⟨.tmoInc, by simp [progressActs], by simp [step, h1, tmoEnq_counts]⟩
  by_cases h2 : 0 < s.hp
  · exact ⟨.hinc, by simp [progressActs], by simp [step, h2]⟩
  by_cases h3 : 0 < s.c
  · exact ⟨.begin false, by simp [progressActs], by simp [step, h3]⟩
  by_cases h4 : 0 < s.hc
  · exact ⟨.begin true, by simp [progressActs], by simp [step, h4]⟩
  by_cases h5 : 0 < s.r
  · exact ⟨.fnRet false 0, by simp [progressActs], by simp [step, h5]⟩
  by_cases h6 : 0 < s.hr
  · exact ⟨.fnRet true 0, by simp [progressActs], by simp [step, h6]⟩
  by_cases h7 : 0 < s.d1
  · exact ⟨.modDec false, by simp [progressActs], by simp [step, h7]⟩
  by_cases h8 : 0 < s.hd1
  · exact ⟨.modDec true, by simp [progressActs], by simp [step, h8]⟩
  by_cases h9 : 0 < s.d2
  · exact ⟨.dec false, by simp [progressActs], by simp [step, h9]⟩
  by_cases h10 : 0 < s.hd2
  · exact ⟨.dec true, by simp [progressActs], by simp [step, h10]⟩
  by_cases h11 : 0 < s.d3
  · by_cases hf : s.fin = 0
    · exact ⟨.tokSend, by simp [progressActs], by simp [step, h11, hf]⟩
    · have : s.fin = 1 := by omega
      exact ⟨.tokDrop, by simp [progressActs], by simp [step, h11, this]⟩
  -- only clearance requests and the scheduler are left
  have hreq : 0 < s.wM ∨ 0 < s.wL ∨ 0 < s.sM ∨ 0 < s.sL ∨ s.hk ≠ 0 ∨ s.pend ≠ 0 := by
    by_cases a1 : 0 < s.wM
    · exact Or.inl a1
    by_cases a2 : 0 < s.wL
    · exact Or.inr (Or.inl a2)
    by_cases a3 : 0 < s.sM
    · exact Or.inr (Or.inr (Or.inl a3))
    by_cases a4 : 0 < s.sL
    · exact Or.inr (Or.inr (Or.inr (Or.inl a4)))
    by_cases a5 : s.hk = 0
    · by_cases a6 : s.pend = 0
      · exact (hbusy ⟨Nat.eq_zero_of_not_pos a1, Nat.eq_zero_of_not_pos a2, Nat.eq_zero_of_not_pos a3,
          Nat.eq_zero_of_not_pos a4, Nat.eq_zero_of_not_pos h1, Nat.eq_zero_of_not_pos h3, Nat.eq_zero_of_not_pos h5,
          Nat.eq_zero_of_not_pos h7, Nat.eq_zero_of_not_pos h9, Nat.eq_zero_of_not_pos h2, Nat.eq_zero_of_not_pos h4,
          Nat.eq_zero_of_not_pos h6, Nat.eq_zero_of_not_pos h8, Nat.eq_zero_of_not_pos h10, Nat.eq_zero_of_not_pos h11,
          a5, a6⟩).elim
      · exact Or.inr (Or.inr (Or.inr (Or.inr (Or.inr a6))))
    · exact Or.inr (Or.inr (Or.inr (Or.inr (Or.inl a5))))
  clear hbusy
  have hspc : s.spc = 0 ∨ s.spc = 1 ∨ s.spc = 2 ∨ s.spc = 3 ∨ s.spc = 4 ∨ s.spc = 5 ∨ s.spc = 6 ∨ s.spc = 7 ∨ s.spc = 8 := by
    clear hreq hbal; omega
  rcases hspc with k | k | k | k | k | k | k | k | k
  · exact ⟨.flag, by simp [progressActs], by simp [step, k]; split <;> rfl⟩
  · exact ⟨.read, by simp [progressActs], by simp [step, k]; split <;> rfl⟩
  · -- selecting: nothing is held, no increment is owed, so some request is offered
    have hk0 : s.hk = 0 := by
      by_cases z : s.hk = 0
      · exact z
      · have := hk1 z; omega
    have hp0 : s.pend = 0 := by
      by_cases z : s.pend = 1
      · have := hp1 z; omega
      · omega
    have : 0 < s.wM ∨ 0 < s.wL ∨ 0 < s.sM ∨ 0 < s.sL := by
      rcases hreq with w | w | w | w | w | w
      · exact Or.inl w
      · exact Or.inr (Or.inl w)
      · exact Or.inr (Or.inr (Or.inl w))
      · exact Or.inr (Or.inr (Or.inr w))
      · exact (w hk0).elim
      · exact (w hp0).elim
    rcases this with w | w | w | w
    · exact ⟨.take .med false, by simp [progressActs], by simp [step, k, w]⟩
    · exact ⟨.take .low false, by simp [progressActs], by simp [step, k, w]⟩
    · exact ⟨.take .med true, by simp [progressActs], by simp [step, k, w]⟩
    · exact ⟨.take .low true, by simp [progressActs], by simp [step, k, w]⟩
  · exact ⟨.close, by simp [progressActs], by simp [step, k]; split <;> rfl⟩
  · exact ⟨.count, by simp [progressActs], by simp [step, k]⟩
  · -- waiting at "full": the token must be there
    have hf : s.fin = 1 := by
      by_cases f : s.fin = 0
      · have hk0 : s.hk = 0 := by
          by_cases z : s.hk = 0
          · exact z
          · have := hk1 z; omega
        have hp0 : s.pend = 0 := by
          by_cases z : s.pend = 1
          · have := hp1 z; omega
          · omega
        have := hwake k f
        clear hreq
        omega
      · omega
    exact ⟨.wakeToken, by simp [progressActs], by simp [step, k, hf]⟩
  · have hk0 : s.hk = 0 := by
      by_cases z : s.hk = 0
      · exact z
      · have := hk1 z; omega
    have hp0 : s.pend = 0 := by
      by_cases z : s.pend = 1
      · have := hp1 z; omega
      · omega
    have : 0 < s.wM ∨ 0 < s.wL ∨ 0 < s.sM ∨ 0 < s.sL := by
      rcases hreq with w | w | w | w | w | w
      · exact Or.inl w
      · exact Or.inr (Or.inl w)
      · exact Or.inr (Or.inr (Or.inl w))
      · exact Or.inr (Or.inr (Or.inr w))
      · exact (w hk0).elim
      · exact (w hp0).elim
    rcases this with w | w | w | w
    · exact ⟨.take .med false, by simp [progressActs], by simp [step, k, w]⟩
    · exact ⟨.take .low false, by simp [progressActs], by simp [step, k, w]⟩
    · exact ⟨.take .med true, by simp [progressActs], by simp [step, k, w]⟩
    · exact ⟨.take .low true, by simp [progressActs], by simp [step, k, w]⟩
  · exact ⟨.close, by simp [progressActs], by simp [step, k]; split <;> rfl⟩
  · exact ⟨.count, by simp [progressActs], by simp [step, k]⟩

/-! ## every single task

`frun ⟨init lim, DSt.new cls var nilm zd⟩ tr = some f` ranges over all runs of the model in which one task — of
priority class `cls` (0 medium, 1 low, 2 high) and variant `var` (0 `Run*`, 1 `Start*`, 2 `Signal*`) — is
followed individually next to arbitrarily many others; the task is arbitrary, so the statements hold for each. -/

/-- **Exactly once.** The submitted function is invoked when the task starts running and never again: not
    before, exactly once from then on — in particular exactly once when the call has returned — on every
    path (clearance, either max-delay expiry, shutdown), whatever the function does. On a nil module nothing
    is executed. -/
theorem runs_exactly_once (lim cls var nilm zd : Nat) (tr : List (Act × Bool)) (f : FSt)
    (h : frun ⟨init lim, DSt.new cls var nilm zd⟩ tr = some f) (hv : f.d.var ≠ 2) :
    f.d.execs ≤ 1 ∧ (f.d.pc < 5 → f.d.execs = 0) ∧ (5 ≤ f.d.pc ∧ f.d.pc ≤ 10 → f.d.execs = 1) ∧
    (f.d.pc = 11 → f.d.execs = 0) := by
  have hi := (finv_run tr (inv_init lim) (dinv_new cls var nilm zd) h).2
  unfold DInv at hi
  grind

/-- **The error reaches the caller.** When a blocking variant has returned, its result is the outcome of the
    function — nil, the panic turned into an error, or *that* error value, whichever it is (`out` ranges over all
    numbers: the harness draws plain errors, `context.Canceled`, errors wrapping it or the package's sentinels, a
    typed nil, a `*ModuleError`); on a nil module it is `errNoModule`; before the return nothing. (`res` = 0 nothing,
    1 `errNoModule`, `out + 2` the outcome `out`.) -/
theorem blocking_variants_return_fn_error (lim cls var nilm zd : Nat) (tr : List (Act × Bool)) (f : FSt)
    (h : frun ⟨init lim, DSt.new cls var nilm zd⟩ tr = some f) :
    (f.d.pc = 10 → f.d.var = 0 → f.d.res = f.d.out + 2) ∧ (f.d.pc = 11 → f.d.res = 1) ∧
    (f.d.pc < 10 → f.d.res = 0) := by
  have hi := (finv_run tr (inv_init lim) (dinv_new cls var nilm zd) h).2
  unfold DInv at hi
  grind

/-- **… in every state of the module.** The task followed together with its module (`tstep`: the module runs through
    any history meanwhile — it is stopped while the call is in flight, the stop times out, it goes offline, it is
    restarted; `rflag`/`rst` are its stop flag and status at the moment the function returned): the caller of a
    blocking variant gets the function's outcome unchanged whatever that state was, for every outcome. -/
theorem returned_error_unchanged_in_every_module_state (lim cls var zd : Nat) (tr : List TAct) (t : TSt)
    (h : trun (TSt.new lim cls var zd) tr = some t) (hv : t.f.d.var = 0) (hp : t.f.d.pc = 10) :
    t.f.d.res = t.f.d.out + 2 := by
  have hi := (tinv_run tr (inv_init lim) (dinv_new cls var 0 zd) h).2
  unfold DInv at hi
  grind

/-- the states are all reachable: for every outcome `out` the function of a blocking call can return while its module
    is online, while it is stopping (stop flag set, context cancelled), and after the stop has timed out and the
    module is offline with the flag still set — and the caller gets `out` each time -/
theorem blocking_return_reachable_in_every_module_state (lim out : Nat) :
    (∃ tr t, trun (TSt.new lim 2 0 0) tr = some t ∧ t.f.d.pc = 10 ∧ t.f.d.out = out ∧ t.rst = 1 ∧ t.rflag = 0 ∧
      t.f.d.res = out + 2) ∧
    (∃ tr t, trun (TSt.new lim 2 0 0) tr = some t ∧ t.f.d.pc = 10 ∧ t.f.d.out = out ∧ t.rst = 2 ∧ t.rflag = 1 ∧
      t.f.d.res = out + 2) ∧
    (∃ tr t, trun (TSt.new lim 2 0 0) tr = some t ∧ t.f.d.pc = 10 ∧ t.f.d.out = out ∧ t.rst = 0 ∧ t.rflag = 1 ∧
      t.f.d.res = out + 2) := by
  refine ⟨⟨[.task .hcall true, .task .hinc true, .task (.begin true) true, .task (.fnRet true out) true,
      .task (.modDec true) true, .task .stopCheck true, .task (.dec true) true, .task .tokSend true, .task .ret true],
      _, rfl, rfl, rfl, rfl, rfl, rfl⟩,
    ⟨[.task .hcall true, .task .hinc true, .task (.begin true) true, .mod .stopBegin, .mod .flagSet,
      .task (.fnRet true out) true, .task (.modDec true) true, .task .stopCheck true, .mod (.check true),
      .task (.dec true) true, .task .tokSend true, .task .ret true], _, rfl, rfl, rfl, rfl, rfl, rfl⟩,
    ⟨[.task .hcall true, .task .hinc true, .task (.begin true) true, .mod .stopBegin, .mod .flagSet, .mod .timeout,
      .mod .offline, .task (.fnRet true out) true, .task (.modDec true) true, .task .stopCheck true,
      .task (.dec true) true, .task .tokSend true, .task .ret true], _, rfl, rfl, rfl, rfl, rfl, rfl⟩⟩

/-- **No timer fires early.** For every task that is not a `Signal*MicroTask(0)` call — whatever its priority, its
    variant and the max delay it was submitted with — no timer of its clearance wait (enqueue phase, wait phase,
    while the scheduler holds its request, or late) fires before its documented max delay has expired: the early
    timer actions are never enabled for it. (They would be if one of the four timers were armed with anything but
    the caller's max delay: `DSt.early` is stated over the regenerated table `armed`.) -/
theorem no_early_expiry_unless_signal_zero (lim cls var nilm zd : Nat) (tr : List (Act × Bool)) (f : FSt)
    (h : frun ⟨init lim, DSt.new cls var nilm zd⟩ tr = some f) (hz : ¬(f.d.zd = 1 ∧ f.d.var = 2)) : f.d.ez = 0 := by
  have hi := (finv_run tr (inv_init lim) (dinv_new cls var nilm zd) h).2
  unfold DInv at hi
  grind

/-- **done is idempotent.** For a task of a signal variant, however many times `done` has been called
    (`dones` is unbounded), the global and the module counter have been decremented at most once on its
    behalf; the first call to perform its CAS is the one that concludes, and once that call has returned each
    counter has been decremented exactly once. -/
theorem done_idempotent (lim cls var nilm zd : Nat) (tr : List (Act × Bool)) (f : FSt)
    (h : frun ⟨init lim, DSt.new cls var nilm zd⟩ tr = some f) (hv : f.d.var = 2) :
    f.d.gD ≤ 1 ∧ f.d.mD ≤ 1 ∧ (1 ≤ f.d.dones → f.d.flag = 1 ∧ 6 ≤ f.d.pc) ∧
    (f.d.pc = 10 → f.d.gD = 1 ∧ f.d.mD = 1) := by
  have hi := (finv_run tr (inv_init lim) (dinv_new cls var nilm zd) h).2
  unfold DInv at hi
  grind

/-- **Counted exactly once.** On behalf of every task the global counter is incremented at most once and
    decremented at most once, likewise its module's counter; when the task has concluded, both decrements and
    the module increment have happened, and the global increment has either happened or is still owed by the
    scheduler through the task's left-over clearance request (queued, held, or closed and not yet counted). -/
theorem counted_exactly_once (lim cls var nilm zd : Nat) (tr : List (Act × Bool)) (f : FSt)
    (h : frun ⟨init lim, DSt.new cls var nilm zd⟩ tr = some f) :
    f.d.gI ≤ 1 ∧ f.d.gD ≤ 1 ∧ f.d.mI ≤ 1 ∧ f.d.mD ≤ 1 ∧
    (9 ≤ f.d.pc ∧ f.d.pc ≤ 10 → f.d.gD = 1 ∧ f.d.mI = 1 ∧ f.d.mD = 1 ∧
      (f.d.gI = 1 ∨ (f.d.gI = 0 ∧ (f.d.req = 1 ∨ f.d.req = 2 ∨ f.d.req = 3)))) ∧
    (f.d.pc = 11 → f.d.gI = 0 ∧ f.d.gD = 0 ∧ f.d.mI = 0 ∧ f.d.mD = 0) := by
  have hi := (finv_run tr (inv_init lim) (dinv_new cls var nilm zd) h).2
  unfold DInv at hi
  by_cases hc : f.d.cls = 2 <;> grind (splits := 60)

/-- **The conclusion runs the stop check.** Every microtask that has concluded (any priority, any variant, any
    outcome incl. panic) has called `checkIfStopComplete` exactly once, after its module decrement (never
    before it) and before its global decrement. -/
theorem conclusion_runs_stop_check (lim cls var nilm zd : Nat) (tr : List (Act × Bool)) (f : FSt)
    (h : frun ⟨init lim, DSt.new cls var nilm zd⟩ tr = some f) :
    f.d.chk ≤ 1 ∧ (f.d.chk = 1 → f.d.mD = 1) ∧ (8 ≤ f.d.pc ∧ f.d.pc ≤ 10 → f.d.chk = 1) ∧
    (f.d.pc = 11 → f.d.chk = 0) := by
  have hi := (finv_run tr (inv_init lim) (dinv_new cls var nilm zd) h).2
  unfold DInv at hi
  grind

/-! ## every single module: its counter and the stop protocol

`mrun MSt.init as = some m` ranges over all histories of one module: microtasks beginning and concluding in
every lifecycle state, stops that complete, stops that run into the stop timeout with microtasks still
running, restarts while microtasks of the previous run are in flight, checks by anybody at any time. -/

/-- the regenerated condition of `checkIfStopComplete` on the microtask counter is "equals zero" -/
theorem stop_check_reads_zero (c : Int) : stopCheckMicro c = true ↔ c = 0 := stopCheckMicro_iff c

/-- **Per-module accounting.** In every reachable state the module's counter equals the number of its
    microtasks between their module increment and their module decrement — whatever the module's lifecycle
    did meanwhile (stopped, stop timed out, offline, restarted). -/
theorem module_count_balanced (as : List MAct) (m : MSt) (h : mrun MSt.init as = some m) : m.cnt = (m.run : Nat) := by
  have hi := minv_run as minv_init h
  unfold MInv at hi
  unfold MSt.cnt
  omega

/-- **The module count returns to zero** once all microtasks of the module have finished — exactly zero, also
    after a stop of the module gave up waiting for them. -/
theorem module_count_zero_once_finished (as : List MAct) (m : MSt) (h : mrun MSt.init as = some m)
    (hq : m.run = 0) : m.cnt = 0 := by
  have := module_count_balanced as m h
  omega

/-- **Module stops are not held up.** Once all microtasks of a stopping (or stopped) module have finished, the
    microtask counter does not keep `checkIfStopComplete` from completing the stop: any check made then — with
    the stop function, workers and tasks done — completes it, and a `stopAllTasks` waiting for completion is
    woken (it does not need `moduleStopTimeout`). By `conclusion_runs_stop_check` the module's last concluding
    microtask makes such a check itself. -/
theorem module_stop_not_held_up (as : List MAct) (m : MSt) (h : mrun MSt.init as = some m)
    (hf : m.flag = 1) (hq : m.run = 0) :
    ∃ m', mstep m (.check true) = some m' ∧ m'.done = 1 ∧ (m.sp = 2 → (mstep m' .wake).isSome = true) := by
  have hz := module_count_zero_once_finished as m h hq
  have hc : stopCheckMicro m.cnt = true := (stop_check_reads_zero _).2 hz
  refine ⟨{ m with done := 1 }, ?_, rfl, ?_⟩
  · simp [mstep, hf, hc]
  · intro hsp
    simp [mstep, hsp]

/-- the stop check is not vacuous: while a microtask of the module runs, a check does not complete the stop -/
theorem running_microtask_holds_module_stop (as : List MAct) (m : MSt) (h : mrun MSt.init as = some m)
    (hr : 0 < m.run) (oth : Bool) : mstep m (.check oth) = some m := by
  have hb := module_count_balanced as m h
  have hc : stopCheckMicro m.cnt = false := by
    cases hx : stopCheckMicro m.cnt
    · rfl
    · have := (stop_check_reads_zero _).1 hx; omega
  simp [mstep, hc]

/-! ## non-vacuity -/

/-- a microtask outlives the stop timeout of its module: the stop takes the timeout branch with the counter at 1,
    the module is restarted, the microtask concludes (count exactly 0, its check does nothing on the running
    module); the next stop of the idle module is completed by the first check and woken without a timeout -/
example : (mrun MSt.init [.begin, .stopBegin, .flagSet, .check true, .timeout, .offline]).map
    (fun m => (m.cnt, m.run, m.done, m.st, m.tmo)) = some (1, 1, 0, 0, 1) := by decide
example : (mrun MSt.init [.begin, .stopBegin, .flagSet, .check true, .timeout, .offline, .start, .modDec, .check true,
      .stopBegin, .flagSet, .check true, .wake, .offline]).map
    (fun m => (m.cnt, m.run, m.done, m.st, m.tmo)) = some (0, 0, 1, 0, 1) := by decide

/-- a microtask submitted by the stop function of a stopping module: its conclusion's check completes the stop -/
example : (mrun MSt.init [.stopBegin, .flagSet, .begin, .check true, .modDec, .check true, .wake]).map
    (fun m => (m.cnt, m.done, m.sp)) = some (0, 1, 3) := by decide

/-- a task in program order: module decrement, stop check, global decrement -/
example : (frun ⟨init 2, DSt.new 2 0 0 0⟩ [(.hcall, true), (.hinc, true), (.begin true, true), (.fnRet true 0, true),
      (.modDec true, true), (.stopCheck, true), (.dec true, true)]).map (fun f => (f.d.pc, f.d.chk, f.d.mD, f.d.gD)) =
    some (8, 1, 1, 1) := by decide
/-- … the global decrement is not enabled before the check -/
example : frun ⟨init 2, DSt.new 2 0 0 0⟩ [(.hcall, true), (.hinc, true), (.begin true, true), (.fnRet true 0, true),
      (.modDec true, true), (.dec true, true)] = none := by decide

/-- the limit is reached (two running, a third waits, the scheduler found the house full) -/
example : (run (init 2) [.submit .med, .submit .low, .submit .med, .flag, .read, .take .med false, .close, .count,
      .flag, .read, .take .low false, .close, .count, .begin false, .begin false, .flag, .read]).map
    (fun s => (s.r, s.wM, s.spc, s.cnt, s.shut, s.tmo)) = some (2, 1, 5, 2, 0, 0) := by decide

/-- a task finishes before the scheduler has counted it: the counter dips to −1 and returns to 0; afterwards
    the state is quiescent -/
example : (run (init 2) [.submit .med, .flag, .read, .take .med false, .close, .begin false, .fnRet false 0,
      .modDec false, .dec false]).map (fun s => (s.cnt, s.pend)) = some (-1, 1) := by decide
example : (run (init 2) [.submit .med, .flag, .read, .take .med false, .close, .begin false, .fnRet false 0,
      .modDec false, .dec false, .tokSend, .count]).map (fun s => (s.cnt, s.mods, decide s.quiescent)) =
    some (0, 0, true) := by decide

/-- a quiescent state in which the scheduler waits at `full` is reachable (limit 1 for brevity), with the token -/
example : (run (init 1) [.hcall, .hinc, .flag, .read, .begin true, .fnRet true 0, .modDec true, .dec true, .tokSend]).map
    (fun s => (s.spc, s.fin, decide s.quiescent)) = some (5, 1, true) := by decide

/-- a stale request: the owner timed out, ran and finished; the scheduler counts later -/
example : (run (init 2) [.submit .low, .tmoWait .low false, .begin false, .fnRet false 1, .modDec false, .dec false, .tokSend,
      .flag, .read, .take .low true, .close, .count]).map (fun s => (s.cnt, s.tmo, decide s.quiescent)) =
    some (0, 1, true) := by decide

/-- a blocking medium task whose function fails: the error is what the caller gets, fn ran once -/
example : (frun ⟨init 2, DSt.new 0 0 0 0⟩ [(.submit .med, true), (.flag, false), (.read, false), (.take .med false, true),
      (.close, false), (.count, false), (.begin false, true), (.fnRet false 1, true), (.modDec false, true),
      (.stopCheck, true), (.dec false, true), (.tokSend, true), (.ret, true)]).map
    (fun f => (f.d.pc, f.d.execs, f.d.res, f.d.gI, f.d.gD, f.g.cnt)) = some (10, 1, 3, 1, 1, 0) := by decide

/-- a signalled low task whose `done` is called three times (twice while the first call is still concluding) -/
example : (frun ⟨init 2, DSt.new 1 2 0 0⟩ [(.submit .low, true), (.flag, false), (.read, false), (.take .low false, true),
      (.close, false), (.count, false), (.begin false, true), (.fnRet false 0, true), (.doneAgain, true),
      (.modDec false, true), (.doneAgain, true), (.stopCheck, true), (.dec false, true), (.tokSend, true), (.ret, true)]).map
    (fun f => (f.d.pc, f.d.dones, f.d.gD, f.d.mD, f.g.cnt, f.g.mods)) = some (10, 3, 1, 1, 0, 0) := by decide

/-- a blocking low-priority call in flight when its module is stopped: the function sees the cancelled context and
    returns error value 102 (say: wrapping `context.Canceled`) while the stop flag is set — the caller gets 102 -/
example : (trun (TSt.new 2 1 0 0) [.task (.submit .low) true, .task .flag false, .task .read false, .task (.take .low false) true,
      .task .close false, .task .count false, .task (.begin false) true, .mod .stopBegin, .mod .flagSet,
      .task (.fnRet false 102) true, .task (.modDec false) true, .task .stopCheck true, .mod (.check true), .mod .wake,
      .task (.dec false) true, .task .tokSend true, .task .ret true]).map
    (fun t => (t.f.d.pc, t.rflag, t.rst, t.f.d.out, t.f.d.res, t.m.done)) = some (10, 1, 2, 102, 104, 1) := by decide

/-- a low-priority task submitted with a long max delay cannot leave its wait through an early timer (it could if
    `armed .wait .low` were a constant); the documented expiry stays possible -/
example : frun ⟨init 2, DSt.new 1 0 0 0⟩ [(.submit .low, true), (.tmoWait .low true, true)] = none := by decide
example : (frun ⟨init 2, DSt.new 1 0 0 0⟩ [(.submit .low, true), (.tmoWait .low false, true)]).map
    (fun f => (f.d.pc, f.d.ez, f.g.tmo, f.g.tz)) = some (4, 0, 1, 0) := by decide

/-- a high-priority panicking task next to a medium task that counts itself after an enqueue timeout -/
example : (frun ⟨init 2, DSt.new 2 0 0 0⟩ [(.hcall, true), (.submit .med, false), (.hinc, true), (.tmoEnq .med false, false),
      (.tmoInc, false), (.begin true, true), (.begin false, false), (.fnRet true 2, true), (.modDec true, true),
      (.stopCheck, true), (.dec true, true), (.tokSend, true), (.ret, true)]).map
    (fun f => (f.d.res, f.d.execs, f.g.cnt, f.g.r, f.g.tmo)) = some (4, 1, 1, 1, 1) := by decide

end PB.C15
