import PBProofs.C08
import PB.Gen.RecordSrc
/-
C08, translator tie: `record.Meta.Duplicate` (and `IsDeleted`, which decides whether a record has a data
section), translated from the Go source on every run (`PB.Gen.RecordSrc`), equal the hand-written model.
-/
namespace PB.C08Src
open PB PB.Record

/-- How model metadata appear at the Go level. -/
def rep (m : PB.Record.Meta) : PB.Gen.RecordSrc.Meta :=
  { Created := m.created, Modified := m.modified, Expires := m.expires, Deleted := m.deleted,
    secret := m.secret, cronjewel := m.crownjewel }

/-- `Duplicate` returns a new struct with all six fields copied — none dropped, none swapped. -/
theorem Duplicate_eq (m : PB.Record.Meta) :
    PB.Gen.RecordSrc.Meta_Duplicate (rep m) = .ok (rep m.duplicate) ∧ m.duplicate = m := ⟨rfl, rfl⟩

/-- `IsDeleted` is the test the model uses for "no data section". -/
theorem IsDeleted_eq (m : PB.Record.Meta) :
    PB.Gen.RecordSrc.Meta_IsDeleted (rep m) = .ok (decide (m.deleted > 0)) := rfl

end PB.C08Src
