import PB.Model.Subs
import PB.Model.SubsConc
namespace PB.C14
open PB.Subs

theorem placeholder : (1 : Nat) = 1 := rfl

end PB.C14
