import PBProofs.Lemmas.Subs
import PBProofs.Lemmas.SubsConc
import PBProofs.Lemmas.HooksConc
/-
C14 — Subscriptions deliver every matching write in order; hooks fire as registered.
Property theorems only (helper lemmas live in PBProofs/Lemmas/Subs.lean and PBProofs/Lemmas/SubsConc.lean).

Part A: sequential histories of one database (model `PB.Subs`) — all queries (arbitrary key/record predicates),
all hook functions, all privilege / flag combinations, all storages of the model.
Part B: interleavings of any number of writers, `Subscribe` and `Cancel` calls (model `PB.SubsConc`).
-/
namespace PB.C14
open PB.Subs

/-! ## A.1 Subscriptions: what a feed is offered -/

/-- **Exact delivery.** After any history, every listed subscription has been offered exactly the successful
    writes / deletes / pushed updates since it was subscribed that match its query and that its subscriber may
    see — each once, in order, nothing else; a cancelled subscription exactly those up to its `Cancel`. -/
theorem delivery_exact (cfg : Cfg) (ops : List Op) :
    (∀ s ∈ (run (St.init cfg) ops).1.subs,
        s.attempts.map (·.1) = ((run (St.init cfg) ops).1.writes.drop s.since).filter s.visible) ∧
    (∀ p ∈ (run (St.init cfg) ops).1.closed,
        p.1.attempts.map (·.1) = (((run (St.init cfg) ops).1.writes.take p.2).drop p.1.since).filter p.1.visible) := by
  have h := Inv_run ops (St.init cfg) (Inv_init cfg)
  constructor
  · intro s hs
    have := (h.1 s hs).2.2.1
    rwa [List.take_length] at this
  · intro p hp
    exact (h.2 p hp).2.2.1

/-- What is in a feed buffer (and what the subscriber has already read from it) are exactly the accepted
    attempts, in order: nothing else is ever delivered. -/
theorem feed_holds_only_accepted_attempts (cfg : Cfg) (ops : List Op) :
    ∀ s ∈ (run (St.init cfg) ops).1.allSubs, ∃ consumed, consumed ++ s.buf = accepted s := by
  have h := Inv_run ops (St.init cfg) (Inv_init cfg)
  intro s hs
  simp only [St.allSubs, List.mem_append, List.mem_map] at hs
  rcases hs with hs | ⟨p, hp, rfl⟩
  · exact (h.1 s hs).2.2.2
  · exact (h.2 p hp).2.2.2

/-- One loop iteration of `notifySubscribers`: an attempt is made iff the record matches the query and the
    subscriber may see it; it is accepted iff the buffer (size regenerated from the source) has room. -/
theorem offer_exact (s : Sub) (r : Rec) :
    (s.offer r).attempts = (if s.visible r then s.attempts ++ [(r, decide (s.buf.length < PB.Gen.Subs.feedCap))] else s.attempts) ∧
    (s.offer r).buf = (if s.visible r ∧ s.buf.length < PB.Gen.Subs.feedCap then s.buf ++ [r] else s.buf) := by
  unfold Sub.offer
  by_cases hv : s.visible r = true
  · by_cases hroom : s.buf.length < PB.Gen.Subs.feedCap <;> simp [hv, hroom]
  · simp [hv]

/-- **The buffer proviso is per subscription.** `notifySubscribers` makes one independent loop iteration for every
    listed subscription, whatever happened at the subscriptions before it in the list — in particular a *full*
    feed of an earlier subscription (its `default:` branch) does not end the loop: the subscriptions after it are
    offered the record all the same, and each decides on its *own* buffer. (Stated over the loop as it is written,
    `notifyLoop`, with the `return`/`break` shape of its three paths regenerated from the source.) -/
theorem notify_offers_every_subscription_independently (r : Rec) (pre post : List Sub) (s : Sub) :
    notifyLoop r (pre ++ s :: post) = pre.map (·.offer r) ++ s.offer r :: post.map (·.offer r) := by
  simp [notifyLoop_eq_map]

/-- … hence: a record that is for `s` is buffered for `s` iff `s`'s own buffer has room, no matter how full the
    feeds of the subscriptions listed before or after it are. -/
theorem full_feed_of_another_subscription_does_not_matter (st : St) (r : Rec) (pre post : List Sub) (s : Sub)
    (hl : st.subs = pre ++ s :: post) (hv : s.visible r = true) (hroom : s.buf.length < PB.Gen.Subs.feedCap) :
    (notify st r).subs = pre.map (·.offer r) ++ { s with buf := s.buf ++ [r], attempts := s.attempts ++ [(r, true)] } ::
      post.map (·.offer r) := by
  rw [notify_subs, hl]
  simp [Sub.offer, hv, hroom]

/-- "May see" is `Meta.CheckPermission` as regenerated from the source: crown jewels need a local subscriber,
    secrets an internal one. -/
theorem visible_iff (s : Sub) (r : Rec) :
    s.visible r = true ↔ (s.loc = true ∨ r.md.cj = false) ∧ (s.int = true ∨ r.md.secret = false) ∧ s.q.matches r = true := by
  unfold Sub.visible permitted PB.Gen.Subs.checkPermission
  cases s.loc <;> cases s.int <;> cases r.md.cj <;> cases r.md.secret <;> simp

/-- `Subscription.Cancel` removes exactly its own list entry (the first with its identity) and closes it;
    every other subscription stays listed, in order. A second `Cancel` finds nothing and does nothing. -/
theorem cancel_moves_exactly_its_own_entry (st : St) (id : Nat) :
    (∀ s rest, removeSub id st.subs = some (s, rest) →
        s.id = id ∧ (step st (.cancel id)).1.subs = rest ∧ rest.length + 1 = st.subs.length ∧
        (step st (.cancel id)).1.closed = st.closed ++ [(s, st.writes.length)]) ∧
    (removeSub id st.subs = none → (step st (.cancel id)).1.subs = st.subs ∧ (step st (.cancel id)).1.closed = st.closed) := by
  constructor
  · intro s rest h
    obtain ⟨_, h2, _, h4⟩ := removeSub_spec id st.subs s rest h
    simp [step, h, h2, h4]
  · intro h
    simp [step, h]

/-- **After cancel returns nothing is delivered any more:** no operation ever changes the attempts of a cancelled
    subscription (or un-cancels it); the cancelled list only grows at its end. -/
theorem cancel_silences (st : St) (op : Op) :
    (st.closed.map (fun p => (p.1.id, p.1.attempts, p.2))) <+:
      ((step st op).1.closed.map (fun p => (p.1.id, p.1.attempts, p.2))) := by
  have same : ∀ st' : St, st'.closed = st.closed →
      (st.closed.map (fun p => (p.1.id, p.1.attempts, p.2))) <+: (st'.closed.map (fun p => (p.1.id, p.1.attempts, p.2))) := by
    intro st' h; rw [h]; exact List.prefix_refl _
  have hcp : ∀ (s : St) (r : Rec), (ctrlPut s r).1.closed = s.closed := by
    intro s r
    rcases ctrlPut_cases s r with ⟨cs, c, _, h2⟩ | ⟨cs, r', sm, e', _, _, h2⟩ | ⟨cs, r', sm, store', w, _, _, h2⟩ <;> rw [h2] <;> rfl
  cases op with
  | subscribe id o q => apply same; simp only [step]; split <;> rfl
  | cancel id =>
    simp only [step]
    split
    · exact List.prefix_refl _
    · simp
  | regHook hk => apply same; simp only [step]; split <;> rfl
  | cancelHook id => exact same _ rfl
  | put o r isNew =>
    apply same
    simp only [step, ifacePut]
    split
    · rfl
    · unfold putPrepared
      by_cases h2 : o.delayed = true
      · simp only [h2, if_true]
        split
        · rfl
        · split
          · simp only []; rw [hcp, hcp]
          · exact hcp _ _
      · simp only [h2]; exact hcp _ _
  | modify o key m =>
    apply same
    simp only [step, ifaceModify]
    split
    · rfl
    · split <;> exact hcp _ _
  | get o key => exact same _ rfl
  | exists_ o key => exact same _ rfl
  | push r => exact same _ rfl
  | flush => exact same _ rfl
  | putMany o rs => apply same; simp only [step]; split <;> rfl
  | drain =>
    simp only [step, List.map_map]
    exact List.prefix_refl _
  | drainOne id =>
    simp only [step, List.map_map]
    have : ((fun p : Sub × Nat => (p.1.id, p.1.attempts, p.2)) ∘
        fun x : Sub × Nat => (if (x.1.id == id) = true then { x.1 with buf := [] } else x.1, x.2)) =
        fun p : Sub × Nat => (p.1.id, p.1.attempts, p.2) := by
      funext x
      by_cases hx : (x.1.id == id) = true
      · simp only [Function.comp, hx, if_true]
      · simp only [Function.comp, hx]
        rfl
    rw [this]
    exact List.prefix_refl _

/-! ## A.2 Every successful write is delivered, failed ones are not -/

/-- `Delivered st st' w`: going from `st` to `st'`, exactly the record `w` was recorded as written and offered to
    every listed subscription (one loop iteration each, in list order); nothing else changed for subscribers. -/
def Delivered (st st' : St) (w : Rec) : Prop :=
  st'.writes = st.writes ++ [w] ∧ st'.subs = st.subs.map (·.offer w) ∧ st'.closed = st.closed

/-- `Controller.Put`: success ⇒ the record handed to the subscribers is the one now in the storage (or the key is
    gone after an immediate delete) and it is what the pre-put chain produced, in the form the storage returned;
    failure ⇒ nothing at all changed. -/
theorem controller_put_delivers_iff_successful (st : St) (r : Rec) :
    match (ctrlPut st r).2.res with
    | .ok _ => ∃ w, Delivered st (ctrlPut st r).1 w ∧
        (if (!st.cfg.shadow && w.md.deleted) = true then sGet (ctrlPut st r).1.store w.key = none
         else sGet (ctrlPut st r).1.store w.key = some w) ∧
        (w = thread r (ctrlPut st r).2.calls ∨ w = st.cfg.putForm (thread r (ctrlPut st r).2.calls))
    | .error _ => (ctrlPut st r).1 = st := by
  rcases ctrlPut_cases st r with ⟨cs, c, _, h2⟩ | ⟨cs, r', same, e', _, _, h2⟩ | ⟨cs, r', same, store', w, h1, hw, h2⟩
  · rw [h2]
  · rw [h2]
  · rw [h2]
    have hthr : r' = thread r cs := by
      have := runRec_result .prePut (·.usesPrePut) (·.prePut) st.hooks r true r' same (by
        show (runPrePut st.hooks r).2 = _; rw [h1])
      have e : (runRec .prePut (·.usesPrePut) (·.prePut) st.hooks r true).1 = cs := by
        show (runPrePut st.hooks r).1 = _; rw [h1]
      rw [e] at this; exact this
    have hs := storeWrite_ok hw
    refine ⟨w, ⟨rfl, notify_subs _ w, rfl⟩, ?_, ?_⟩
    · by_cases hd : (!st.cfg.shadow && r'.md.deleted) = true
      · simp only [hd, if_true] at hs
        obtain ⟨rfl, hg⟩ := hs
        simp only [hd, if_true]
        exact hg
      · simp only [hd] at hs
        obtain ⟨hwf, hg⟩ := hs
        have hd' : (!st.cfg.shadow && w.md.deleted) = false := by
          rw [hwf]
          have : (st.cfg.putForm r').md = r'.md := by unfold Cfg.putForm; split <;> rfl
          rw [this]; simpa using hd
        simp only [hd', Bool.false_eq_true, if_false]
        exact hg
    · by_cases hd : (!st.cfg.shadow && r'.md.deleted) = true
      · simp only [hd, if_true] at hs
        exact Or.inl (by rw [hs.1, hthr])
      · simp only [hd] at hs
        exact Or.inr (by rw [hs.1, hthr])

/-- Interface writes that go to the controller (`Put`, `PutNew` without delayed writes): delivered iff successful. -/
theorem put_delivers_iff_successful_partial (st : St) (o : Opts) (r : Rec) (isNew : Bool) (hnd : o.delayed = false) :
    match (step st (.put o r isNew)).2.res with
    | .ok _ => ∃ w, Delivered st (step st (.put o r isNew)).1 w
    | .error _ => (step st (.put o r isNew)).1 = st := by
  simp only [step, ifacePut]
  by_cases hden : putDenied st o r.key = true
  · simp [hden]
  · simp only [hden, Bool.false_eq_true, if_false]
    unfold putPrepared
    simp only [hnd, Bool.false_eq_true, if_false]
    have := controller_put_delivers_iff_successful st (applyOpts o (newForm r isNew))
    revert this
    cases (ctrlPut st (applyOpts o (newForm r isNew))).2.res with
    | ok v => intro ⟨w, hw, _⟩; exact ⟨w, hw⟩
    | error e => intro h; exact h

/-- The statement without the proviso is false on the code: a `Put` through an interface with `DelayCachedWrites`
    succeeds without the controller — no subscriber is notified (and no pre-put hook runs). -/
theorem put_delivers_full_statement_REFUTED :
    ¬ (∀ (st : St) (o : Opts) (r : Rec) (isNew : Bool),
        (step st (.put o r isNew)).2.res = .ok none → ∃ w, Delivered st (step st (.put o r isNew)).1 w) := by
  intro h
  obtain ⟨w, hw, _⟩ := h (St.init ⟨.hashmap, false⟩) { loc := true, int := true, delayed := true } ⟨"k", 0, "", {}⟩ false
    (by simp [step, ifacePut, putDenied, Opts.all, putPrepared, applyOpts, newForm])
  simp [step, ifacePut, putDenied, Opts.all, putPrepared, applyOpts, newForm, St.init] at hw

/-- `Interface.PutMany` is the other write that does not reach the subscribers (nor the pre-put hooks): the batch goes
    to the storage directly — documented on `PutMany` itself ("omits … Hooks, Subscriptions"). Recorded as a finding
    against the statement's "through any interface". -/
theorem putmany_delivers_full_statement_REFUTED :
    ¬ (∀ (st : St) (o : Opts) (r : Rec),
        (step st (.putMany o [r])).2.res = .ok none → sGet (step st (.putMany o [r])).1.store r.key = some (applyOpts o r) →
        ∃ w, Delivered st (step st (.putMany o [r])).1 w) := by
  intro h
  obtain ⟨w, hw, _⟩ := h (St.init ⟨.hashmap, false⟩) { loc := true, int := true } ⟨"k", 0, "", {}⟩
    (by simp [step, Opts.all]) (by simp [step, Opts.all, St.init, flushStore, applyOpts, sGet, sPut, sErase])
  simp [step, Opts.all, St.init] at hw

/-- … what it does do: nothing for an interface without all permissions; otherwise the storage is written and
    nothing else — no feed, no hook call. -/
theorem putmany_writes_storage_only (st : St) (o : Opts) (rs : List Rec) :
    (step st (.putMany o rs)).2.calls = [] ∧ (step st (.putMany o rs)).1.subs = st.subs ∧
    (step st (.putMany o rs)).1.writes = st.writes ∧ (step st (.putMany o rs)).1.closed = st.closed ∧
    (o.all = false → (step st (.putMany o rs)).1 = st ∧ (step st (.putMany o rs)).2.res = .error .denied) := by
  simp only [step]
  by_cases ha : o.all = true
  · simp [ha]
  · simp [ha]

/-- In-place modifications (`Delete`, `MakeSecret`, `MakeCrownJewel`, `SetAbsoluteExpiry`, `InsertValue`):
    delivered iff successful; a failed one delivers nothing. -/
theorem modify_delivers_iff_successful (st : St) (o : Opts) (key : String) (m : Mod) :
    match (step st (.modify o key m)).2.res with
    | .ok _ => ∃ w, Delivered st (step st (.modify o key m)).1 w
    | .error _ => (step st (.modify o key m)).1.subs = st.subs ∧ (step st (.modify o key m)).1.writes = st.writes ∧
        (step st (.modify o key m)).1.closed = st.closed := by
  simp only [step, ifaceModify]
  cases hg : ifaceGetRec st o key with
  | mk cs v =>
    cases v with
    | error e => simp
    | ok p =>
      obtain ⟨r, same⟩ := p
      simp only []
      by_cases ha : (st.cfg.aliasing && same) = true
      · simp only [ha, if_true]
        have := controller_put_delivers_iff_successful { st with store := sPut st.store r.key (m.run o r) } (m.run o r)
        revert this
        cases hres : (ctrlPut { st with store := sPut st.store r.key (m.run o r) } (m.run o r)).2.res with
        | ok v => intro ⟨w, hw, _⟩; exact ⟨w, hw⟩
        | error e => intro h; simp only []; rw [h]; exact ⟨rfl, rfl, rfl⟩
      · simp only [ha, Bool.false_eq_true, if_false]
        have := controller_put_delivers_iff_successful st (m.run o r)
        revert this
        cases hres : (ctrlPut st (m.run o r)).2.res with
        | ok v => intro ⟨w, hw, _⟩; exact ⟨w, hw⟩
        | error e => intro h; simp only []; rw [h]; exact ⟨rfl, rfl, rfl⟩

/-- `PushUpdate` of an injected database: delivered, unconditionally. -/
theorem push_delivers (st : St) (r : Rec) : Delivered st (step st (.push r)).1 r := ⟨rfl, notify_subs st r, rfl⟩

/-- Everything that is not a write delivers nothing: `Get`, `Exists`, hook (un)registration, flushing the delayed-write cache. -/
theorem non_writes_deliver_nothing (st : St) (op : Op)
    (h : (∃ o k, op = .get o k) ∨ (∃ o k, op = .exists_ o k) ∨ (∃ hk, op = .regHook hk) ∨ (∃ id, op = .cancelHook id) ∨ op = .flush) :
    (step st op).1.subs = st.subs ∧ (step st op).1.writes = st.writes ∧ (step st op).1.closed = st.closed := by
  rcases h with ⟨o, k, rfl⟩ | ⟨o, k, rfl⟩ | ⟨hk, rfl⟩ | ⟨id, rfl⟩ | rfl
  · exact ⟨rfl, rfl, rfl⟩
  · exact ⟨rfl, rfl, rfl⟩
  · simp only [step]; split <;> exact ⟨rfl, rfl, rfl⟩
  · exact ⟨rfl, rfl, rfl⟩
  · exact ⟨rfl, rfl, rfl⟩

/-- `Interface.Exists` is a get operation: it makes exactly the hook calls `Get` makes, changes nothing, and answers
    yes iff `Get` succeeds or is refused for lack of permission, no iff `Get` finds nothing; a veto is handed on. -/
theorem exists_is_a_get (st : St) (o : Opts) (key : String) :
    (step st (.exists_ o key)).2.calls = (step st (.get o key)).2.calls ∧ (step st (.exists_ o key)).1 = st ∧
    (step st (.exists_ o key)).2.flag =
      (match (step st (.get o key)).2.res with
       | .ok _ => some true
       | .error .notfound => some false
       | .error .denied => some true
       | .error _ => none) ∧
    (∀ c, (step st (.get o key)).2.res = .error (.veto c) → (step st (.exists_ o key)).2.res = .error (.veto c)) := by
  simp only [step, ifaceExists, ifaceGet]
  cases hg : ifaceGetRec st o key with
  | mk cs v =>
    cases v with
    | ok p => simp
    | error e => cases e <;> simp

/-! ## A.3 Hooks -/

/-- **Only registered hooks, only in declared phases, only on matching arguments.** Every hook call an operation
    makes is a call of a hook in the controller's list, in a phase that hook declares, with a key (pre-get) or
    record (post-get, pre-put) its query matches, and records what the hook's own method returned. -/
theorem hook_calls_sound (st : St) (op : Op) : ∀ c ∈ (step st op).2.calls, CallFrom st.hooks c :=
  step_calls_from st op

/-- **Exactly the matching ones, record phases.** When the hooks before `h` have run without veto and left the
    record `r1`, then `h` is called iff it declares the phase and its query matches `r1` — with `r1` as argument —
    and its result decides how the loop goes on: veto ends it with the hook's error, replace hands the new record on. -/
theorem hook_called_iff_matching (ph : Phase) (uses : Hook → Bool) (f : Hook → Rec → HookRes)
    (pre post : List Hook) (h : Hook) (r : Rec) (same : Bool) (cs1 : List Call) (r1 : Rec) (s1 : Bool)
    (hpre : runRec ph uses f pre r same = (cs1, .ok (r1, s1))) :
    runRec ph uses f (pre ++ h :: post) r same =
      if uses h && h.q.matches r1 then
        match f h r1 with
        | .veto c => (cs1 ++ [⟨h.id, ph, r1.key, some r1, .veto c⟩], .error c)
        | .pass => (cs1 ++ ⟨h.id, ph, r1.key, some r1, .pass⟩ :: (runRec ph uses f post r1 s1).1, (runRec ph uses f post r1 s1).2)
        | .replace r' =>
          (cs1 ++ ⟨h.id, ph, r1.key, some r1, .replace r'⟩ :: (runRec ph uses f post r' false).1,
           (runRec ph uses f post r' false).2)
      else (cs1 ++ (runRec ph uses f post r1 s1).1, (runRec ph uses f post r1 s1).2) := by
  rw [runRec_append, hpre]
  simp only []
  rw [runRec_cons]
  by_cases hu : (uses h && h.q.matches r1) = true
  · simp only [hu, if_true]
    cases f h r1 <;> simp
  · simp only [hu]
    simp

/-- After a veto nobody is called any more, and the veto is what the loop returns. -/
theorem hooks_after_veto_not_called (ph : Phase) (uses : Hook → Bool) (f : Hook → Rec → HookRes)
    (pre post : List Hook) (r : Rec) (same : Bool) (cs1 : List Call) (c : Nat)
    (hpre : runRec ph uses f pre r same = (cs1, .error c)) :
    runRec ph uses f (pre ++ post) r same = (cs1, .error c) := by
  rw [runRec_append, hpre]

/-- The same for the pre-get phase (matching by key). -/
theorem pre_get_hook_called_iff_matching (pre post : List Hook) (h : Hook) (key : String) (cs1 : List Call)
    (hpre : runPreGet pre key = (cs1, none)) :
    runPreGet (pre ++ h :: post) key =
      if h.usesPreGet && h.q.keyOk key then
        match h.preGet key with
        | some c => (cs1 ++ [⟨h.id, .preGet, key, none, .veto c⟩], some c)
        | none => (cs1 ++ ⟨h.id, .preGet, key, none, .pass⟩ :: (runPreGet post key).1, (runPreGet post key).2)
      else (cs1 ++ (runPreGet post key).1, (runPreGet post key).2) := by
  rw [runPreGet_append, hpre]
  simp only []
  rw [runPreGet_cons]
  by_cases hu : (h.usesPreGet && h.q.keyOk key) = true
  · simp only [hu, if_true]
    cases h.preGet key <;> simp
  · simp only [hu]
    simp

theorem pre_get_after_veto_not_called (pre post : List Hook) (key : String) (cs1 : List Call) (c : Nat)
    (hpre : runPreGet pre key = (cs1, some c)) : runPreGet (pre ++ post) key = (cs1, some c) := by
  rw [runPreGet_append, hpre]

/-- Hooks are called in registration order, each at most once per phase of an operation. -/
theorem hook_calls_in_registration_order (ph : Phase) (uses : Hook → Bool) (f : Hook → Rec → HookRes)
    (hs : List Hook) (r : Rec) (same : Bool) (key : String) :
    ((runRec ph uses f hs r same).1.map (·.hook)).Sublist (hs.map (·.id)) ∧
    ((runPreGet hs key).1.map (·.hook)).Sublist (hs.map (·.id)) :=
  ⟨runRec_order ph uses f hs r same, runPreGet_order hs key⟩

/-- **Replace.** Each hook gets what the previous call left (the operation's record for the first one), and
    without a veto the loop returns the record threaded through all calls. -/
theorem hook_replace_is_handed_on (ph : Phase) (uses : Hook → Bool) (f : Hook → Rec → HookRes) (hs : List Hook)
    (r : Rec) (same : Bool) :
    (∀ pre c post, (runRec ph uses f hs r same).1 = pre ++ c :: post → c.arg = some (thread r pre)) ∧
    (∀ r' s', (runRec ph uses f hs r same).2 = .ok (r', s') → r' = thread r (runRec ph uses f hs r same).1) :=
  ⟨runRec_chain ph uses f hs r same, runRec_result ph uses f hs r same⟩

/-- **Veto.** The loop fails iff its last call vetoed, with that hook's error code; no earlier call vetoed. -/
theorem hook_veto_is_last_and_returned (ph : Phase) (uses : Hook → Bool) (f : Hook → Rec → HookRes) (hs : List Hook)
    (r : Rec) (same : Bool) :
    match (runRec ph uses f hs r same).2 with
    | .error c => ∃ pre last, (runRec ph uses f hs r same).1 = pre ++ [last] ∧ last.res = .veto c ∧
        ∀ x ∈ pre, ∀ c', x.res ≠ .veto c'
    | .ok _ => ∀ x ∈ (runRec ph uses f hs r same).1, ∀ c', x.res ≠ .veto c' :=
  runRec_veto_last ph uses f hs r same

/-- **Veto leaves everything unchanged — `Put`/`PutNew`.** A vetoed put changes nothing: storage, feeds, lists. -/
theorem veto_leaves_state_put (st : St) (o : Opts) (r : Rec) (isNew : Bool) (c : Nat) (hnd : o.delayed = false)
    (h : (step st (.put o r isNew)).2.res = .error (.veto c)) : (step st (.put o r isNew)).1 = st := by
  have := put_delivers_iff_successful_partial st o r isNew hnd
  rw [h] at this
  exact this

/-- **Veto leaves the storage unchanged — in-place modifications, storages that do not hand out their own
    objects** (bbolt, injected, registry): the whole state is unchanged, whichever hook (pre-get, post-get,
    pre-put) vetoed. -/
theorem veto_leaves_storage_partial (st : St) (o : Opts) (key : String) (m : Mod) (e : Err)
    (hna : st.cfg.aliasing = false) (h : (step st (.modify o key m)).2.res = .error e) :
    (step st (.modify o key m)).1 = st := by
  simp only [step, ifaceModify] at h ⊢
  cases hg : ifaceGetRec st o key with
  | mk cs v =>
    rw [hg] at h
    cases v with
    | error e' => rfl
    | ok p =>
      obtain ⟨r, same⟩ := p
      simp only [hna, Bool.false_and, Bool.false_eq_true, if_false] at h ⊢
      exact ctrlPut_error h

/-- The unrestricted statement is false on the code: on the hashmap storage the interface modifies the record
    object the storage handed out *before* `Controller.Put` runs the pre-put hooks, so a vetoed `Delete` leaves the
    stored record marked deleted. -/
theorem veto_leaves_storage_full_statement_REFUTED :
    ¬ (∀ (st : St) (o : Opts) (key : String) (m : Mod) (c : Nat),
        (step st (.modify o key m)).2.res = .error (.veto c) →
        (step st (.modify o key m)).1.store = st.store) := by
  intro h
  let hk : Hook := { id := 0, q := ⟨false, fun _ => true, fun _ => true⟩, usesPreGet := false, usesPostGet := false,
                     usesPrePut := true, preGet := fun _ => none, postGet := fun _ => .pass, prePut := fun _ => .veto 3 }
  let st : St := { cfg := ⟨.hashmap, true⟩, store := [("k", ⟨"k", 1, "x", {}⟩)], hooks := [hk] }
  have := h st { loc := true, int := true } "k" .del 3
  simp [st, hk, step, ifaceModify, ifaceGetRec, ctrlGet, runPreGet, St.storeGet, sGet, runPostGet, runRec, Meta.valid,
    permitted, PB.Gen.Subs.checkPermission, Cfg.aliasing, Mod.run, applyOpts, ctrlPut, runPrePut, Query.matches, sPut, sErase] at this

/-- **Cancelled hooks are never called again.** With distinct hook identities, after `RegisteredHook.Cancel`
    no operation of any later history calls that hook (unless a hook with this identity is registered anew). -/
theorem hook_cancel_effective (id : Nat) : ∀ (ops : List Op) (st : St),
    id ∉ st.hooks.map (·.id) → (∀ hk, Op.regHook hk ∈ ops → hk.id ≠ id) →
    ∀ out ∈ (run st ops).2, ∀ c ∈ out.calls, c.hook ≠ id := by
  intro ops
  induction ops with
  | nil => intro st _ _ out ho; simp [run] at ho
  | cons op ops ih =>
    intro st hnot hreg out ho c hc
    simp only [run, List.mem_cons] at ho
    rcases ho with rfl | ho
    · obtain ⟨hk, hm, he, _⟩ := step_calls_from st op c hc
      intro hcid
      exact hnot (List.mem_map.mpr ⟨hk, hm, by rw [← he, hcid]⟩)
    · refine ih (step st op).1 ?_ (fun hk hm => hreg hk (List.mem_cons_of_mem _ hm)) out ho c hc
      rw [step_hooks]
      cases op with
      | regHook hk =>
        simp only []
        split
        · exact hnot
        · simp only [List.map_append, List.mem_append, not_or]
          exact ⟨hnot, by simpa using fun e => hreg hk (by simp) e.symm⟩
      | cancelHook id2 =>
        simp only []
        intro hm
        exact hnot ((removeHook_sublist id2 st.hooks).map (·.id) |>.subset hm)
      | _ => exact hnot

/-- `RegisteredHook.Cancel` removes exactly its own entry: afterwards its identity is gone from the list (so, by
    `hook_cancel_effective`, it is never called again), every other hook stays registered, in order. -/
theorem hook_cancel_removes_exactly_its_own_entry (st : St) (id : Nat) (hn : (st.hooks.map (·.id)).Nodup) :
    id ∉ (step st (.cancelHook id)).1.hooks.map (·.id) ∧
    (∀ h ∈ st.hooks, h.id ≠ id → h ∈ (step st (.cancelHook id)).1.hooks) ∧
    ((step st (.cancelHook id)).1.hooks).Sublist st.hooks :=
  ⟨removeHook_not_mem id st.hooks hn, removeHook_keeps id st.hooks, removeHook_sublist id st.hooks⟩


/-! ## A.4 One hook value, several registrations

A registration (`RegisteredHook`, `Hook` in the model) is a list entry with its own identity and its own query; the
hook value it was made with (`obj`, with its methods) may be shared by any number of them. All hook theorems above
quantify over list entries, i.e. over registrations. The ones here say it in so many words. -/

/-- **`RegisterHook` always makes a new entry.** With a well-formed query it appends the registration to the list and
    succeeds — whatever is registered already, in particular other registrations of the same hook value, with the
    same or with another query. (The statement shape of `RegisterHook` — lock, append, return the new registration,
    nothing else — is regenerated from the source; anything else fails the extraction.) -/
theorem register_hook_makes_its_own_entry (st : St) (h : Hook) (hq : h.q.bad = false) :
    PB.Gen.Subs.registerHookAlwaysAppends = true ∧
    (step st (.regHook h)).1.hooks = st.hooks ++ [h] ∧ (step st (.regHook h)).2.res = .ok none ∧
    (∀ g ∈ st.hooks, g ∈ (step st (.regHook h)).1.hooks) := by
  refine ⟨rfl, ?_, ?_, ?_⟩ <;> simp [step, hq]
  intro g hg; exact Or.inl hg

/-- **Each registration of a hook value is called by its own query.** `h1` and `h2` are two registrations of the same
    hook value (`h1.obj = h2.obj`; any queries), `h1` before `h2` in the list. Whether `h2` is called depends on `h2`'s
    own query and the record as the hooks before it left it (`r1`) — not on whether `h1`'s query matched, was called,
    or replaced the record: called iff `h2` declares the phase and `h2.q` matches `r1`, a veto of that call ends the
    operation with the hook's error. -/
theorem registrations_of_one_hook_value_are_called_independently (ph : Phase) (uses : Hook → Bool)
    (f : Hook → Rec → HookRes) (pre mid post : List Hook) (h1 h2 : Hook) (_hobj : h1.obj = h2.obj)
    (r : Rec) (same : Bool) (cs1 : List Call) (r1 : Rec) (s1 : Bool)
    (hpre : runRec ph uses f (pre ++ h1 :: mid) r same = (cs1, .ok (r1, s1))) :
    runRec ph uses f (pre ++ h1 :: mid ++ h2 :: post) r same =
      if uses h2 && h2.q.matches r1 then
        match f h2 r1 with
        | .veto c => (cs1 ++ [⟨h2.id, ph, r1.key, some r1, .veto c⟩], .error c)
        | .pass => (cs1 ++ ⟨h2.id, ph, r1.key, some r1, .pass⟩ :: (runRec ph uses f post r1 s1).1, (runRec ph uses f post r1 s1).2)
        | .replace r' =>
          (cs1 ++ ⟨h2.id, ph, r1.key, some r1, .replace r'⟩ :: (runRec ph uses f post r' false).1,
           (runRec ph uses f post r' false).2)
      else (cs1 ++ (runRec ph uses f post r1 s1).1, (runRec ph uses f post r1 s1).2) := by
  have := hook_called_iff_matching ph uses f (pre ++ h1 :: mid) post h2 r same cs1 r1 s1 hpre
  simpa [List.append_assoc] using this

/-- … the same for the pre-get phase (by key). -/
theorem registrations_of_one_hook_value_are_called_independently_pre_get (pre mid post : List Hook) (h1 h2 : Hook)
    (_hobj : h1.obj = h2.obj) (key : String) (cs1 : List Call)
    (hpre : runPreGet (pre ++ h1 :: mid) key = (cs1, none)) :
    runPreGet (pre ++ h1 :: mid ++ h2 :: post) key =
      if h2.usesPreGet && h2.q.keyOk key then
        match h2.preGet key with
        | some c => (cs1 ++ [⟨h2.id, .preGet, key, none, .veto c⟩], some c)
        | none => (cs1 ++ ⟨h2.id, .preGet, key, none, .pass⟩ :: (runPreGet post key).1, (runPreGet post key).2)
      else (cs1 ++ (runPreGet post key).1, (runPreGet post key).2) := by
  have := pre_get_hook_called_iff_matching (pre ++ h1 :: mid) post h2 key cs1 hpre
  simpa [List.append_assoc] using this

/-- **Cancelling one registration leaves the other registrations of that hook value alone.** With distinct
    registration identities: after `Cancel` of `h1`, `h1` is out of the list, every other registration — also one of
    the same hook value, with the same query object or another — is still registered, in the same order. -/
theorem cancel_of_one_registration_keeps_the_others_of_that_hook_value (st : St) (h1 h2 : Hook)
    (hn : (st.hooks.map (·.id)).Nodup) (_m1 : h1 ∈ st.hooks) (m2 : h2 ∈ st.hooks) (_hobj : h1.obj = h2.obj)
    (hne : h2.id ≠ h1.id) :
    h1.id ∉ (step st (.cancelHook h1.id)).1.hooks.map (·.id) ∧ h2 ∈ (step st (.cancelHook h1.id)).1.hooks ∧
    ((step st (.cancelHook h1.id)).1.hooks).Sublist st.hooks := by
  obtain ⟨a, b, c⟩ := hook_cancel_removes_exactly_its_own_entry st h1.id hn
  exact ⟨a, b h2 m2 hne, c⟩

/-- Non-vacuity: one guard hook value (vetoes every put it is asked about) registered for the prefix `a/` and again
    for `b/`. A put below `b/` is vetoed by the second registration and stores nothing; after the *second*
    registration is cancelled a put below `a/` is still vetoed (first registration) and one below `b/` goes through. -/
example :
    let guard (id : Nat) (pre : String) : Hook :=
      { id := id, obj := 7, q := ⟨false, fun k => k.startsWith pre, fun _ => true⟩, usesPreGet := false, usesPostGet := false,
        usesPrePut := true, preGet := fun _ => none, postGet := fun _ => .pass, prePut := fun _ => .veto 3 }
    let li : Opts := { loc := true, int := true }
    let ops : List Op := [.regHook (guard 0 "a/"), .regHook (guard 1 "b/"), .put li ⟨"b/x", 1, "foo", {}⟩ false,
      .cancelHook 1, .put li ⟨"a/x", 1, "foo", {}⟩ false, .put li ⟨"b/y", 2, "foo", {}⟩ false]
    (run (St.init ⟨.hashmap, false⟩) ops).2.map (·.res) =
      [.ok none, .ok none, .error (.veto 3), .ok none, .error (.veto 3), .ok none] ∧
    (run (St.init ⟨.hashmap, false⟩) ops).1.store.map (·.1) = ["b/y"] ∧
    (run (St.init ⟨.hashmap, false⟩) ops).1.hooks.map (·.id) = [0] := by
  simp [run, step, St.init, ifacePut, putDenied, Opts.all, newForm, applyOpts, putPrepared, ctrlPut, runPrePut, runRec,
    Query.matches, storeWrite, Cfg.putForm, notify, notifyLoop, removeHook, sPut, sErase]

/-! ## A.5 The runtime registry as injected database

`runtime.Registry`: providers are registered (`Register` hands out one push function per provider), the registry is
injected as a database (`InjectAsDatabase`), interfaces subscribe, providers push — in any order the callers like.
`rstep` / `rrun` are the registry in front of its database; `St.initReg` a fresh registry. -/

/-- Once injected, the database operations on a registry are the controller's: everything in part A holds for them. -/
theorem registry_db_operations_are_the_controllers (st : St) (op : Op) (hi : st.injected = true) :
    rstep st (.db op) = step st op := rstep_db_injected op hi

/-- **A push after injection is delivered, whatever the order of `Register` and `InjectAsDatabase` was.** For every
    registered provider — registered before or after the injection (`p.injAtReg` is arbitrary) — a call of its push
    function on an injected registry is a `PushUpdate` on the controller: the record is recorded as written and offered
    to every listed subscription (`Delivered`), whatever its key is (inside or outside the provider's own prefix). -/
theorem registry_push_delivers_once_injected (st : St) (id : Nat) (p : Prov) (r : Rec)
    (hp : st.provs.find? (·.id == id) = some p) (hi : st.injected = true) :
    Delivered st (rstep st (.push id r)).1 r ∧ (rstep st (.push id r)).1 = (step st (.push r)).1 := by
  have h : (rstep st (.push id r)).1 = notify st r := by
    simp [rstep, hp, pushTarget, PB.Gen.Subs.pushReadsControllerAtPush, hi]
  rw [h]
  exact ⟨⟨rfl, notify_subs st r, rfl⟩, rfl⟩

/-- … over histories: take any sequence of registry calls from a fresh registry in which `InjectAsDatabase` occurs
    somewhere — before or after the `Register` of the provider, before or after earlier pushes, with any database
    operations in between. Afterwards a push of any registered provider is delivered to every listed subscription. -/
theorem registry_push_delivered_whatever_the_order (ops : List ROp) (id : Nat) (p : Prov) (r : Rec)
    (hinj : ROp.inject ∈ ops) (hp : (rrun St.initReg ops).1.provs.find? (·.id == id) = some p) :
    Delivered (rrun St.initReg ops).1 (rstep (rrun St.initReg ops).1 (.push id r)).1 r :=
  (registry_push_delivers_once_injected _ id p r hp (rrun_inject_mem ops _ hinj)).1

/-- Injection is permanent and happens at most once: a second `InjectAsDatabase` answers `ErrInjected` and changes
    nothing; no later call of any kind takes the controller away again; providers stay registered. -/
theorem registry_injection_is_permanent (st : St) (ops : List ROp) (hi : st.injected = true) :
    (rrun st ops).1.injected = true ∧ rstep st .inject = (st, { res := .error .injected }) ∧
    (∀ op p, p ∈ st.provs → p ∈ (rstep st op).1.provs) :=
  ⟨rrun_injected_mono ops st hi, by simp [rstep, hi], fun op _ hp => rstep_provs_mono op hp⟩

/-- **Before the injection nothing can be lost:** there is no controller, so `Subscribe`, `RegisterHook` and every
    read or write through an interface fail and change nothing; hence in every state a fresh registry reaches while
    it is not injected there is no subscription (active or cancelled) and no hook — and a push then reaches nobody
    and changes nothing. -/
theorem registry_not_injected_has_no_subscribers (ops : List ROp) (hn : (rrun St.initReg ops).1.injected = false) :
    (rrun St.initReg ops).1.subs = [] ∧ (rrun St.initReg ops).1.closed = [] ∧ (rrun St.initReg ops).1.hooks = [] ∧
    (∀ id r, (rstep (rrun St.initReg ops).1 (.push id r)).1 = (rrun St.initReg ops).1) ∧
    (∀ op, (rstep (rrun St.initReg ops).1 (.db op)).1 = (rrun St.initReg ops).1) := by
  have hq := Quiet_rrun ops St.initReg (by intro _; simp [St.initReg]) hn
  refine ⟨hq.1, hq.2.1, hq.2.2.1, ?_, fun op => (rstep_db_not_injected op hn).1⟩
  intro id r
  simp only [rstep]
  split
  · rfl
  · simp [pushTarget, PB.Gen.Subs.pushReadsControllerAtPush, hn]

/-- **Exact delivery for the registry's database,** over all histories of registry calls and database operations from
    a fresh registry: every listed subscription has been offered exactly the successful writes and the pushes — of
    all providers — made since it was subscribed that match its query and that its subscriber may see, each once, in
    order; a cancelled one exactly those up to its `Cancel`. -/
theorem registry_delivery_exact (ops : List ROp) :
    (∀ s ∈ (rrun St.initReg ops).1.subs,
        s.attempts.map (·.1) = ((rrun St.initReg ops).1.writes.drop s.since).filter s.visible) ∧
    (∀ p ∈ (rrun St.initReg ops).1.closed,
        p.1.attempts.map (·.1) = (((rrun St.initReg ops).1.writes.take p.2).drop p.1.since).filter p.1.visible) := by
  have h := Inv_rrun ops St.initReg (by constructor <;> intro x hx <;> simp [St.initReg] at hx)
  constructor
  · intro s hs
    have := (h.1 s hs).2.2.1
    rwa [List.take_length] at this
  · intro p hp
    exact (h.2 p hp).2.2.1

/-- `Registry.Register` as written: refused (`ErrKeyTaken`, nothing changes) when a provider sits on a prefix of the
    new key or on the key itself, or — for a new prefix — anywhere below it; otherwise the provider is added, and
    nothing else changes: subscriptions, hooks, storage and the injection state are untouched. -/
theorem registry_register (st : St) (id : Nat) (key : String) :
    (provTaken st.provs key = true → rstep st (.register id key) = (st, { res := .error .taken })) ∧
    (provTaken st.provs key = false →
      (rstep st (.register id key)).1 = { st with provs := st.provs ++ [⟨id, key, st.injected⟩] } ∧
      (rstep st (.register id key)).2.res = .ok none) := by
  constructor <;> intro h <;> simp [rstep, h]

/-- Non-vacuity: the provider is registered first, the registry injected afterwards (the order `runtime`'s own module
    does not use); a subscriber on everything, one push through the early provider's function — also for a key
    outside the provider's prefix — : both are in the feed. And a subscription attempt before the injection fails. -/
example :
    let q : Query := ⟨false, fun _ => true, fun _ => true⟩
    let li : Opts := { loc := true, int := true }
    let ops : List ROp := [.register 0 "a/", .db (.subscribe 9 li q), .push 0 ⟨"a/x", 1, "foo", {}⟩, .inject,
      .db (.subscribe 0 li q), .push 0 ⟨"a/x", 2, "foo", {}⟩, .push 0 ⟨"zz", 3, "bar", {}⟩]
    (rrun St.initReg ops).1.subs.map (fun s => (s.id, s.buf)) = [(0, [⟨"a/x", 2, "foo", {}⟩, ⟨"zz", 3, "bar", {}⟩])] ∧
    (rrun St.initReg ops).2.map (·.res) = [.ok none, .error .notinjected, .ok none, .ok none, .ok none, .ok none, .ok none] := by
  simp [rrun, rstep, step, St.initReg, provTaken, longestPrefix, isPrefixKey, pushTarget, PB.Gen.Subs.pushReadsControllerAtPush,
    notify, notifyLoop, PB.Gen.Subs.notifySentExits, Sub.visible, permitted,
    PB.Gen.Subs.checkPermission, Query.matches, PB.Gen.Subs.feedCap]

/-! ## B. Interleavings of writers, `Subscribe` and `Cancel` (any number of each)

`Reach wants st`: `st` is reachable from the initial state by atomic steps of the lock protocol.
Ghost fields give the statement its words: `activeAtStart w i` — subscription `i` had been added when write `w`
began; `cancelReq i` — some `Cancel` of `i` has been called; `doneAtStart w2 w1` — write `w1` had returned when
`w2` began; `log` — all send attempts `(writer, subscription, accepted)` in temporal order. -/

open PB.SubsConc in
/-- **No panic, ever:** in every reachable state nothing has sent on a closed feed or closed a feed twice, and every
    subscription still in the controller's list has an open feed (so the next send cannot panic either). -/
theorem no_send_on_closed (wants : Nat → Nat → Bool) (st : CSt) (h : Reach wants st) :
    st.panicked = false ∧ ∀ i ∈ st.subs, st.closed i = false :=
  ⟨(inv_reach h).noPanic, fun i hi => ((inv_reach h).subsOpen i hi).2⟩

open PB.SubsConc in
/-- The lock protocol holds: a canceller in its locked section excludes every notifier and every other canceller;
    what a notifier still has to visit is still listed. -/
theorem lock_protocol (wants : Nat → Nat → Bool) (st : CSt) (h : Reach wants st) :
    (∀ c, (st.cpc c).inCS = true → st.rd = [] ∧ ∀ c', (st.cpc c').inCS = true → c' = c) ∧
    (∀ w i, i ∈ remOf (st.wpc w) → i ∈ st.subs ∧ st.closed i = false) := by
  have hi := inv_reach h
  exact ⟨fun c hc => ⟨hi.wlRd (hi.csWl c hc), fun c' hc' => hi.csUnique c' c hc' hc⟩,
    fun w i hr => ⟨hi.remSubs w i hr, (hi.subsOpen i (hi.remSubs w i hr)).2⟩⟩

open PB.SubsConc in
/-- **After cancel returns the feed is closed** — also for a `Cancel` that found the subscription already removed
    by a concurrent `Cancel`. -/
theorem cancel_returns_closed (wants : Nat → Nat → Bool) (st : CSt) (h : Reach wants st) (c : Nat)
    (hc : st.cpc c = .done) : st.closed (st.ctarget c) = true :=
  (inv_reach h).doneClosed c (Or.inr hc)

open PB.SubsConc in
/-- **… and concurrent writes no longer deliver to it:** once a feed is closed it stays closed and no step adds a
    send attempt for it (and, by `no_send_on_closed`, no step panics). -/
theorem closed_feed_silent (wants : Nat → Nat → Bool) (st st' : CSt) (a : Act) (h : Reach wants st)
    (hs : step wants st a = some st') (i : Nat) (hc : st.closed i = true) :
    st'.closed i = true ∧ st'.panicked = false ∧
    st'.log.filter (fun e => e.2.1 == i) = st.log.filter (fun e => e.2.1 == i) := by
  refine ⟨step_closed_mono hs i hc, (inv_reach (Reach.step a h hs)).noPanic, ?_⟩
  rcases step_log hs with e | ⟨w, j, rem, b, _, hw, e⟩
  · rw [e]
  · have hi := inv_reach h
    have hopen := (hi.subsOpen j (hi.remSubs w j (by rw [hw]; simp [remOf]))).2
    have hne : j ≠ i := fun e' => by rw [e', hc] at hopen; simp at hopen
    rw [e, List.filter_append]
    simp [hne]

open PB.SubsConc in
/-- **Exactly once.** A write that began after subscription `i` was added and returned before any `Cancel` of `i`
    was called has made exactly one send attempt to `i` if its record is for `i`, none otherwise — in every
    interleaving with other writers, subscribers and cancels. -/
theorem write_attempted_exactly_once (wants : Nat → Nat → Bool) (st : CSt) (h : Reach wants st) (w i : Nat)
    (hdone : st.wpc w = .done) (hact : st.activeAtStart w i = true) (hnc : st.cancelReq i = false) :
    (entries st.log w).count i = if wants w i then 1 else 0 := by
  have hd := dinv_reach h
  have hl := hd.logSnap w
  unfold LogOk at hl
  rw [hdone] at hl
  rw [hl]
  exact count_filter_nodup (wants w) (st.snap w) i (hd.snapNodup w) (hd.snapAct w i (Or.inr hdone) hact hnc)

open PB.SubsConc in
/-- **Other records are never delivered:** every send attempt is for a subscription the writer's record matches and
    whose subscriber may see it, and that was in the controller's list when the writer took the read lock; a writer
    attempts each subscription at most once. -/
theorem attempts_only_matching_and_listed (wants : Nat → Nat → Bool) (st : CSt) (h : Reach wants st) :
    (∀ e ∈ st.log, wants e.1 e.2.1 = true) ∧
    (∀ w i, i ∈ entries st.log w → i ∈ st.snap w) ∧
    (∀ w, (entries st.log w).Nodup) := by
  have hd := dinv_reach h
  refine ⟨hd.sound, ?_, ?_⟩
  · intro w i hi
    have hl := hd.logSnap w
    unfold LogOk at hl
    cases hw : st.wpc w with
    | idle => rw [hw] at hl; rw [hl] at hi; simp at hi
    | stored => rw [hw] at hl; rw [hl] at hi; simp at hi
    | notifying rem =>
      rw [hw] at hl
      obtain ⟨pre, h1, h2⟩ := hl
      rw [h2] at hi
      rw [h1]
      exact List.mem_append_left _ (List.mem_filter.mp hi).1
    | done => rw [hw] at hl; rw [hl] at hi; exact (List.mem_filter.mp hi).1
  · intro w
    have hl := hd.logSnap w
    have hn := hd.snapNodup w
    unfold LogOk at hl
    cases hw : st.wpc w with
    | idle => rw [hw] at hl; rw [hl]; simp
    | stored => rw [hw] at hl; rw [hl]; simp
    | notifying rem =>
      rw [hw] at hl
      obtain ⟨pre, h1, h2⟩ := hl
      rw [h2]
      rw [h1] at hn
      exact (List.nodup_append.mp hn).1.filter _
    | done => rw [hw] at hl; rw [hl]; exact hn.filter _

open PB.SubsConc in
/-- What is in a feed, after what the subscriber already read, is exactly the sequence of accepted attempts for it,
    in the order they were made (feeds are FIFO; an attempt is accepted iff the buffer had room — `step`). -/
theorem feed_is_accepted_attempts_in_order (wants : Nat → Nat → Bool) (st : CSt) (h : Reach wants st) (i : Nat) :
    st.consumed i ++ st.buf i = acceptedBy st.log i :=
  (dinv_reach h).feed i

open PB.SubsConc in
/-- **Writes that do not overlap in time are delivered in their order:** if write `w1` had returned when `w2`
    began, every attempt of `w1` precedes every attempt of `w2` in the log — hence in every feed. -/
theorem nonoverlapping_writes_in_order (wants : Nat → Nat → Bool) (st : CSt) (h : Reach wants st) (w1 w2 : Nat)
    (hstarted : st.wpc w2 ≠ .idle) (hbefore : st.doneAtStart w2 w1 = true) :
    (∃ l1 l2, st.log = l1 ++ l2 ∧ (∀ e ∈ l1, e.1 ≠ w2) ∧ (∀ e ∈ l2, e.1 ≠ w1)) ∧
    (∀ i, ∃ f1 f2, st.consumed i ++ st.buf i = f1 ++ f2 ∧ w2 ∉ f1 ∧ w1 ∉ f2) := by
  have hd := dinv_reach h
  have hb := hd.before w2 hstarted
  have ha := (hd.after w2 w1 hstarted hbefore).2
  refine ⟨⟨st.log.take (st.mark w2), st.log.drop (st.mark w2), (List.take_append_drop _ _).symm, hb, ha⟩, ?_⟩
  intro i
  refine ⟨acceptedBy (st.log.take (st.mark w2)) i, acceptedBy (st.log.drop (st.mark w2)) i, ?_, ?_, ?_⟩
  · rw [hd.feed i]
    unfold acceptedBy
    rw [← List.map_append, ← List.filter_append, List.take_append_drop]
  · unfold acceptedBy
    intro hm
    obtain ⟨e, he, he2⟩ := List.mem_map.mp hm
    exact hb e (List.mem_filter.mp he).1 he2
  · unfold acceptedBy
    intro hm
    obtain ⟨e, he, he2⟩ := List.mem_map.mp hm
    exact ha e (List.mem_filter.mp he).1 he2

open PB.SubsConc in
/-- The pinned tree's `Cancel` (entry found by comparing query pointers) for the record: two subscriptions from one
    query object, cancel the second — the first is removed, the second's feed is closed but stays listed, and the
    next matching writer sends on a closed channel. The protocol above is that of the fixed code. -/
theorem pinned_cancel_by_query_pointer_REFUTED :
    ((runActs (fun _ _ => true) [.add 0, .add 1] {}).map (fun s => buggyCancel (fun _ => 7) s 1)).bind
      (fun s => (runActs (fun _ _ => true) [.wStore 5, .wRLock 5, .wVisit 5] s).map (fun s' => (s.subs, s.closed 1, s'.panicked)))
      = some ([1], true, true) := by
  decide

/-! ## C. Interleavings of hook runners with `RegisterHook` and `RegisteredHook.Cancel` (any number of each)

Model `PB.HooksConc`: `runPreGetHooks` / `runPostGetHooks` / `runPrePutHooks` against `Cancel`, lock-granular. The
locking is the regenerated one (`LockCfg.code`: is `hooksLock` held while the hooks are called — per phase —, does
`Cancel` take it exclusively). Ghost fields: `calls` — every call begin `(runner, hook)` in temporal order;
`cancelReturned h` — a `Cancel` of `h` has returned; `late` — call begins made although `cancelReturned` was set. -/

open PB.HooksConc in
/-- **A hook is no longer called once its cancel returned** — in every interleaving of any number of gets / puts
    (in all three phases), registrations and cancels: no call of a hook *begins* after a `Cancel` of that hook has
    returned (`late` stays empty in every reachable state), and a step taken when `Cancel` of `h` has returned adds
    no call of `h`. A call that is in progress when `Cancel` is called is finished first: `Cancel` cannot enter its
    locked section before (`hook_lock_protocol`). -/
theorem hook_not_called_after_cancel_returned (phaseOf : Nat → Phase) (applies : Nat → Nat → Bool) (st : HSt)
    (h : Reach LockCfg.code phaseOf applies st) :
    st.late = [] ∧
    ∀ (a : Act) (st' : HSt) (k : Nat), step LockCfg.code phaseOf applies st a = some st' → st.cancelReturned k = true →
      st'.calls.filter (fun e => e.2 == k) = st.calls.filter (fun e => e.2 == k) := by
  have hi := inv_reach LockCfg.code_sound h
  refine ⟨hi.noLate, ?_⟩
  intro a st' k hs hk
  rcases step_calls hs with e | ⟨g, j, rem, _, hg, e⟩
  · rw [e]
  · have hj : j ∈ st.hooks := hi.pendHooks g j (by rw [hg]; simp [pendOf])
    have hne : j ≠ k := fun e' => (hi.retOut k hk).1 (e' ▸ hj)
    rw [e, List.filter_append]
    simp [hne]

open PB.HooksConc in
/-- The lock protocol of `hooksLock`: a `Cancel` in its locked section excludes every runner that is in its loop
    (between `RLock` and `RUnlock`, in particular inside a hook call) and every other `Cancel`; what a runner is
    calling or still has to call is registered. -/
theorem hook_lock_protocol (phaseOf : Nat → Phase) (applies : Nat → Nat → Bool) (st : HSt)
    (h : Reach LockCfg.code phaseOf applies st) :
    (∀ x, (st.xpc x).inCS = true → (∀ g, inLoop (st.rpc g) = false) ∧ ∀ y, (st.xpc y).inCS = true → y = x) ∧
    (∀ g k, k ∈ pendOf (st.rpc g) → k ∈ st.hooks ∧ st.cancelReturned k = false) := by
  have hi := inv_reach LockCfg.code_sound h
  refine ⟨fun x hx => ⟨fun g => ?_, fun y hy => hi.csUnique y x hy hx⟩, fun g k hk => ⟨hi.pendHooks g k hk, ?_⟩⟩
  · have hrd := hi.wlRd (hi.csWl x hx)
    have := hi.rdIff g
    rw [hrd] at this
    cases hl : inLoop (st.rpc g) with
    | false => rfl
    | true => rw [hl] at this; simp at this
  · cases hr : st.cancelReturned k with
    | false => rfl
    | true => exact absurd (hi.pendHooks g k hk) (hi.retOut k hr).1

open PB.HooksConc in
/-- When `RegisteredHook.Cancel` has returned the hook is out of the controller's list (also for a `Cancel` that found
    it already removed by a concurrent `Cancel`), and stays out: hook identities are not registered twice. -/
theorem hook_cancel_returns_removed (phaseOf : Nat → Phase) (applies : Nat → Nat → Bool) (st : HSt)
    (h : Reach LockCfg.code phaseOf applies st) :
    (∀ x, st.xpc x = .done → st.cancelReturned (st.xtarget x) = true) ∧
    (∀ k, st.cancelReturned k = true → k ∉ st.hooks) := by
  have hi := inv_reach LockCfg.code_sound h
  exact ⟨hi.doneRet, fun k hk => (hi.retOut k hk).1⟩

open PB.HooksConc in
/-- **Called exactly by the operations inside its registration.** An operation phase (runner `g`) that took the read
    lock after hook `k` was registered, that has returned, whose loop was not ended by a veto, and with no `Cancel`
    of `k` called so far, has called `k` exactly once if `k` applies to it (declares the phase, matches the key /
    record) and not at all otherwise — in every interleaving with other operations, registrations and cancels.
    And whatever a runner calls, at any time, are hooks that apply to it, from the list it read under the lock, each
    at most once, in list order. -/
theorem hook_called_exactly_once_inside_registration (phaseOf : Nat → Phase) (applies : Nat → Nat → Bool) (st : HSt)
    (h : Reach LockCfg.code phaseOf applies st) (g k : Nat)
    (hdone : st.rpc g = .done) (hnv : st.vetoed g = false) (hreg : st.madeAtLock g k = true) (hnc : st.cancelReq k = false) :
    (callsOf st.calls g).count k = (if applies g k then 1 else 0) ∧
    (callsOf st.calls g).Sublist ((st.snap g).filter (applies g)) := by
  have hd := dinv_reach LockCfg.code_sound h
  have hl := hd.logSnap g
  unfold LogOk at hl
  rw [hdone] at hl
  simp only [hnv, Bool.false_eq_true, if_false] at hl
  rw [hl]
  exact ⟨PB.SubsConc.count_filter_nodup (applies g) (st.snap g) k (hd.snapNodup g)
    (hd.snapLive g k (by rw [hdone]; simp) hreg hnc), List.Sublist.refl _⟩

open PB.HooksConc in
/-- In every reachable state, what a runner has called so far is a prefix of the applicable hooks of the list it read
    under the lock (so: only applicable hooks, in registration order, none twice). -/
theorem hook_calls_are_applicable_in_order (phaseOf : Nat → Phase) (applies : Nat → Nat → Bool) (st : HSt)
    (h : Reach LockCfg.code phaseOf applies st) (g : Nat) :
    callsOf st.calls g <+: (st.snap g).filter (applies g) ∧ (callsOf st.calls g).Nodup := by
  have hd := dinv_reach LockCfg.code_sound h
  have hl := hd.logSnap g
  have hn := hd.snapNodup g
  have key : callsOf st.calls g <+: (st.snap g).filter (applies g) := by
    unfold LogOk at hl
    cases hg : st.rpc g with
    | idle => rw [hg] at hl; rw [hl.1]; exact List.nil_prefix
    | running rem =>
      rw [hg] at hl
      by_cases hv : st.vetoed g = true
      · simp only [hv, if_true] at hl; exact hl.2
      · simp only [hv, Bool.false_eq_true, if_false] at hl
        obtain ⟨pre, h1, h2⟩ := hl
        rw [h2, h1, List.filter_append]
        exact List.prefix_append _ _
    | calling c rem =>
      rw [hg] at hl
      obtain ⟨_, _, pre, h1, h2⟩ := hl
      have : pre ++ c :: rem = (pre ++ [c]) ++ rem := by simp
      rw [h2, h1, this, List.filter_append (pre ++ [c]) rem]
      exact List.prefix_append _ _
    | done =>
      rw [hg] at hl
      by_cases hv : st.vetoed g = true
      · simp only [hv, if_true] at hl; exact hl
      · simp only [hv, Bool.false_eq_true, if_false] at hl
        rw [hl]; exact List.prefix_refl _
  exact ⟨key, (hn.filter _).sublist key.sublist⟩

open PB.HooksConc in
/-- Why the lock has to be held during the calls: if a runner gives up the read lock after it has looked at the list
    and calls the hooks afterwards (`callsUnderLock = false` for its phase), a hook is called after its `Cancel`
    returned — two hooks on one key, the get is inside the first hook's `PreGet` while the second is cancelled. -/
theorem hook_calls_without_the_lock_REFUTED :
    ((runActs ⟨fun _ => false, true⟩ (fun _ => .preGet) (fun _ _ => true)
        [.reg 1, .reg 2, .rLock 0, .rRelease 0, .rCallBegin 0, .xEnter 0 2, .xLock 0, .xRemove 0, .xUnlock 0,
         .rCallEnd 0 false, .rCallBegin 0] {}).map (fun s => (s.cancelReturned 2, s.calls, s.late)))
      = some (true, [(0, 1), (0, 2)], [(0, 2)]) := by
  decide

open PB.HooksConc in
/-- … and why `Cancel` needs the lock exclusively: with the read lock only, it returns while a runner is still in its
    loop over the list it read before. -/
theorem hook_cancel_with_shared_lock_REFUTED :
    ((runActs ⟨fun _ => true, false⟩ (fun _ => .prePut) (fun _ _ => true)
        [.reg 1, .reg 2, .rLock 0, .rCallBegin 0, .xEnter 0 2, .xLock 0, .xRemove 0, .xUnlock 0,
         .rCallEnd 0 false, .rCallBegin 0] {}).map (fun s => (s.cancelReturned 2, s.late)))
      = some (true, [(0, 2)]) := by
  decide

/-! ## Non-vacuity -/

open PB.HooksConc in
/-- A reachable run of the hook protocol: the get is inside hook 1's call when `Cancel` of hook 2 is called; `Cancel`
    can only lock after the runner has called hook 2 as well and unlocked; a second runner afterwards calls hook 1
    only. Nothing is late. -/
example : ∃ st, Reach LockCfg.code (fun _ => .preGet) (fun _ _ => true) st ∧ st.calls = [(0, 1), (0, 2), (1, 1)] ∧
    st.cancelReturned 2 = true ∧ st.hooks = [1] ∧ st.late = [] ∧ st.rpc 1 = .done := by
  let acts : List Act := [.reg 1, .reg 2, .rLock 0, .rCallBegin 0, .xEnter 0 2, .rCallEnd 0 false, .rCallBegin 0,
    .rCallEnd 0 false, .rUnlock 0, .xLock 0, .xRemove 0, .xUnlock 0, .rLock 1, .rCallBegin 1, .rCallEnd 1 false, .rUnlock 1]
  have key : (runActs LockCfg.code (fun _ => .preGet) (fun _ _ => true) acts {}).map
      (fun st => (st.calls, st.cancelReturned 2, st.hooks, st.late, st.rpc 1)) =
      some ([(0, 1), (0, 2), (1, 1)], true, [1], [], .done) := by rfl
  cases hr : runActs LockCfg.code (fun _ => .preGet) (fun _ _ => true) acts {} with
  | none => rw [hr] at key; simp at key
  | some st =>
    rw [hr] at key
    simp only [Option.map_some, Option.some.injEq, Prod.mk.injEq] at key
    exact ⟨st, reach_runActs acts {} st Reach.init hr, key⟩


open PB.SubsConc in
/-- A reachable run in which a write is delivered and the subscription is then cancelled while a second writer is
    between its storage write and its notification: the second write is not delivered, nothing panics. -/
example : ∃ st, Reach (fun _ _ => true) st ∧ st.buf 0 = [1] ∧ st.closed 0 = true ∧ st.wpc 2 = .done ∧ st.panicked = false ∧
    st.log = [(1, 0, true)] := by
  let acts : List Act := [.add 0, .wStore 1, .wRLock 1, .wVisit 1, .wRUnlock 1, .wStore 2, .cEnter 0 0, .cLock 0, .cRemove 0,
    .cClose 0, .cUnlock 0, .wRLock 2, .wRUnlock 2]
  have key : (runActs (fun _ _ => true) acts {}).map (fun st => (st.buf 0, st.closed 0, st.wpc 2, st.panicked, st.log)) =
      some ([1], true, .done, false, [(1, 0, true)]) := by rfl
  cases hr : runActs (fun _ _ => true) acts {} with
  | none => rw [hr] at key; simp at key
  | some st =>
    rw [hr] at key
    simp only [Option.map_some, Option.some.injEq, Prod.mk.injEq] at key
    exact ⟨st, reach_runActs acts {} st Reach.init hr, key⟩

/-- Sequential non-vacuity: a subscriber that may not see secrets, a replacing pre-put hook, one visible and one
    secret write: exactly the visible one (as replaced) is offered and buffered. -/
example :
    let q : Query := ⟨false, fun k => k.startsWith "a", fun r => r.n > 3⟩
    let hk : Hook := { id := 0, q := ⟨false, fun _ => true, fun _ => true⟩, usesPreGet := false, usesPostGet := false,
                       usesPrePut := true, preGet := fun _ => none, postGet := fun _ => .pass,
                       prePut := fun r => .replace { r with n := 7 } }
    let li : Opts := { loc := true, int := true }
    let ops : List Op := [.subscribe 0 { loc := true, int := false } q, .regHook hk,
      .put li ⟨"a/x", 1, "foo", {}⟩ false, .put li ⟨"a/y", 1, "foo", { secret := true }⟩ false, .cancel 0,
      .put li ⟨"a/z", 1, "foo", {}⟩ false]
    (run (St.init ⟨.hashmap, false⟩) ops).1.closed.map (fun p => (p.1.buf, p.2)) = [([⟨"a/x", 7, "foo", {}⟩], 2)] ∧
    (run (St.init ⟨.hashmap, false⟩) ops).1.writes.length = 3 := by
  simp [run, step, St.init, ifacePut, putDenied, Opts.all, newForm, applyOpts, putPrepared, ctrlPut, runPrePut, runRec,
    Query.matches, storeWrite, Cfg.putForm, notify, notifyLoop, PB.Gen.Subs.notifySentExits, PB.Gen.Subs.notifySkipExits, Sub.visible, permitted, PB.Gen.Subs.checkPermission,
    PB.Gen.Subs.feedCap, removeSub, sPut, sErase]

/-- Non-vacuity of the per-subscription proviso: the first listed subscription has a full feed, the one subscribed
    after it an empty one; one matching write: refused for the first, buffered for the second. -/
example :
    let q : Query := ⟨false, fun _ => true, fun _ => true⟩
    let r : Rec := ⟨"a/x", 1, "foo", {}⟩
    let full : Sub := ⟨0, true, true, q, List.replicate PB.Gen.Subs.feedCap r, 0, []⟩
    let fresh : Sub := ⟨1, true, true, q, [], 0, []⟩
    (notifyLoop r [full, fresh]).map (fun s => (s.id, s.buf.length, s.attempts)) =
      [(0, PB.Gen.Subs.feedCap, [(r, false)]), (1, 1, [(r, true)])] := by
  have hpos : 0 < PB.Gen.Subs.feedCap := by decide
  simp [notifyLoop_eq_map, Sub.offer, Sub.visible, permitted, PB.Gen.Subs.checkPermission, Query.matches, hpos]

/-! ## Databases whose storage is read-only (`dstep`): a pushed update does not ask the storage whether it accepts writes

`Controller.PushUpdate`'s guards are regenerated from the source (`PB.Gen.Subs.pushUpdateSkipsReadOnly`): with a guard
on `ReadOnly()` (the pair of guards `Put` has) theorems 58–60, 63 and the example do not go through. -/

/-- 58. A push is `notifySubscribers`, whatever the storage answers to `ReadOnly()`: on every database — writable
    or read-only, of every storage kind — `PushUpdate` is the same step, and it is delivered. -/
theorem push_delivered_whatever_the_storage_says_about_read_only (st : St) (r : Rec) :
    dstep st (.push r) = (notify st r, {}) ∧ Delivered st (dstep st (.push r)).1 r := by
  have h : dstep st (.push r) = (notify st r, {}) := by
    simp [dstep, pushDropped, PB.Gen.Subs.pushUpdateSkipsReadOnly, step]
  exact ⟨h, by rw [h]; exact ⟨rfl, notify_subs st r, rfl⟩⟩

/-- 59. Corollary: two databases in the same state that differ only in their storage (kind, shadow-delete, and with
    it the `ReadOnly()` answer): a push leaves the same subscriptions, feeds and write history in both. -/
theorem push_delivery_independent_of_read_only (st : St) (cfg cfg' : Cfg) (r : Rec) :
    (dstep { st with cfg := cfg } (.push r)).1.subs = (dstep { st with cfg := cfg' } (.push r)).1.subs ∧
    (dstep { st with cfg := cfg } (.push r)).1.writes = (dstep { st with cfg := cfg' } (.push r)).1.writes ∧
    (dstep { st with cfg := cfg } (.push r)).1.closed = (dstep { st with cfg := cfg' } (.push r)).1.closed := by
  rw [(push_delivered_whatever_the_storage_says_about_read_only { st with cfg := cfg } r).1,
    (push_delivered_whatever_the_storage_says_about_read_only { st with cfg := cfg' } r).1]
  exact ⟨rfl, rfl, rfl⟩

/-- 60. On a read-only database every listed subscription whose subscriber may see a pushed record matching its query
    gets a send attempt for it, accepted iff its buffer has room (theorem 35 applied to `dstep`). -/
theorem read_only_push_offers_to_every_subscription (st : St) (r : Rec) (_hro : st.cfg.readOnly = true) :
    (dstep st (.push r)).1.subs = st.subs.map (·.offer r) :=
  (push_delivered_whatever_the_storage_says_about_read_only st r).2.2.1

/-- 61. On a read-only database every write through an interface is refused with `ErrReadOnly` before a hook runs or
    anything changes (`PutMany`: after its permission check) — there is no successful write that would have to be
    delivered; subscriptions, hooks and reads are those of any database. -/
theorem read_only_refuses_writes (st : St) (hro : st.cfg.readOnly = true) :
    (∀ o r isNew, dstep st (.put o r isNew) = (st, { res := .error .readonly })) ∧
    (∀ o key m, dstep st (.modify o key m) = (st, { res := .error .readonly })) ∧
    (∀ o rs, (dstep st (.putMany o rs)).1 = st ∧ (dstep st (.putMany o rs)).2.calls = [] ∧
      (dstep st (.putMany o rs)).2.res = .error (if o.all then .readonly else .denied)) ∧
    (∀ id o q, dstep st (.subscribe id o q) = step st (.subscribe id o q)) ∧
    (∀ id, dstep st (.cancel id) = step st (.cancel id)) ∧
    (∀ h, dstep st (.regHook h) = step st (.regHook h)) ∧
    (∀ o key, dstep st (.get o key) = step st (.get o key)) := by
  refine ⟨?_, ?_, ?_, ?_, ?_, ?_, ?_⟩
  · intro o r isNew; simp [dstep, hro]
  · intro o key m; simp [dstep, hro]
  · intro o rs
    by_cases ha : o.all = true
    · simp [dstep, hro, ha]
    · have ha' : o.all = false := by simpa using ha
      simp [dstep, hro, ha', step]
  · intro id o q; rfl
  · intro id; rfl
  · intro h; rfl
  · intro o key; rfl

/-- 62. A writable database: `dstep` is `step` — everything proved about `step` / `run` holds for it. -/
theorem writable_dstep_is_step (st : St) (hw : st.cfg.readOnly = false) (op : Op) : dstep st op = step st op := by
  cases op <;> simp [dstep, hw, pushDropped]

/-- 63. Exact delivery over all histories of a database of any storage kind, read-only ones included: every
    subscription has been offered exactly the successful writes and the pushed updates since it was subscribed that
    match its query and that its subscriber may see, in order; and every push made is in that history. -/
theorem delivery_exact_read_only_included (cfg : Cfg) (ops : List Op) :
    (∀ s ∈ (drun (St.init cfg) ops).1.subs,
        s.attempts.map (·.1) = ((drun (St.init cfg) ops).1.writes.drop s.since).filter s.visible) ∧
    (∀ p ∈ (drun (St.init cfg) ops).1.closed,
        p.1.attempts.map (·.1) = (((drun (St.init cfg) ops).1.writes.take p.2).drop p.1.since).filter p.1.visible) ∧
    (∀ r, (dstep (drun (St.init cfg) ops).1 (.push r)).1.writes = (drun (St.init cfg) ops).1.writes ++ [r]) := by
  have hstep : ∀ (st : St) (op : Op), Inv st → Inv (dstep st op).1 := by
    intro st op h
    by_cases hro : st.cfg.readOnly = true
    · cases op with
      | push r => rw [(push_delivered_whatever_the_storage_says_about_read_only st r).1]; exact Inv_step (.push r) h
      | put o r isNew => rw [(read_only_refuses_writes st hro).1]; exact h
      | modify o key m => rw [(read_only_refuses_writes st hro).2.1]; exact h
      | putMany o rs => rw [((read_only_refuses_writes st hro).2.2.1 o rs).1]; exact h
      | subscribe id o q => exact Inv_step _ h
      | cancel id => exact Inv_step _ h
      | regHook hk => exact Inv_step _ h
      | cancelHook id => exact Inv_step _ h
      | get o key => exact Inv_step _ h
      | exists_ o key => exact Inv_step _ h
      | flush => exact Inv_step _ h
      | drain => exact Inv_step _ h
      | drainOne id => exact Inv_step _ h
    · rw [writable_dstep_is_step st (by simpa using hro)]; exact Inv_step op h
  have hrun : ∀ (ops : List Op) (st : St), Inv st → Inv (drun st ops).1 := by
    intro ops
    induction ops with
    | nil => intro st h; exact h
    | cons op ops ih => intro st h; simp only [drun]; exact ih _ (hstep st op h)
  have h := hrun ops (St.init cfg) (Inv_init cfg)
  refine ⟨?_, ?_, ?_⟩
  · intro s hs
    have := (h.1 s hs).2.2.1
    rwa [List.take_length] at this
  · intro p hp
    exact (h.2 p hp).2.2.1
  · intro r
    rw [(push_delivered_whatever_the_storage_says_about_read_only _ r).1]; rfl

/-- Non-vacuity: a push-only database (`storage.InjectBase` as it comes), two subscribers — one with all privileges, one
    with none —, a refused `Put`, then pushes of a live, a secret and a deleted-marked record and one outside the query:
    the privileged feed holds the three matching ones in order, the other the two it may see; the `Put` delivered nothing. -/
example :
    let q : Query := ⟨false, fun k => k.startsWith "a/", fun _ => true⟩
    let li : Opts := { loc := true, int := true }
    let no : Opts := { loc := false, int := false }
    let ops : List Op := [.subscribe 0 li q, .subscribe 1 no q, .put li ⟨"a/x", 9, "foo", {}⟩ false,
      .push ⟨"a/x", 1, "foo", {}⟩, .push ⟨"a/x", 2, "foo", { secret := true }⟩, .push ⟨"b/x", 3, "bar", {}⟩,
      .push ⟨"a/y", 4, "baz", { deleted := true }⟩]
    (St.init ⟨.pushonly, false⟩).cfg.readOnly = true ∧
    (drun (St.init ⟨.pushonly, false⟩) ops).1.subs.map (fun s => (s.id, s.buf.map (·.n))) = [(0, [1, 2, 4]), (1, [1, 4])] ∧
    ((drun (St.init ⟨.pushonly, false⟩) ops).2.map (·.res)).take 3 = [.ok none, .ok none, .error .readonly] := by
  simp [drun, dstep, step, St.init, Cfg.readOnly, pushDropped, PB.Gen.Subs.pushUpdateSkipsReadOnly, notify, notifyLoop,
    PB.Gen.Subs.notifySentExits, PB.Gen.Subs.notifySkipExits, Sub.visible, permitted, PB.Gen.Subs.checkPermission,
    PB.Gen.Subs.feedCap, Query.matches]

end PB.C14
