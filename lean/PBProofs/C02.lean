import PB.Model.Db
import PB.Model.Iter
import PB.Spec.KVStore
import PBProofs.Lemmas.Db
import PBProofs.Lemmas.DbSim
import PBProofs.Lemmas.DbDelay
import PBProofs.Lemmas.DbSrc
import PBProofs.Lemmas.DbKey
import PBProofs.Lemmas.DbNum
import PB.Gen.DbAcc
import PB.Gen.DbTime
import PB.Gen.MetaSrc
import PB.Gen.DbKey
import PB.Gen.DbIter
import PBProofs.Lemmas.IterHandOver
/-
C02 — Every database backend behaves like one reference key-to-record store.
Property theorems only (helper lemmas live in PBProofs/Lemmas/Db.lean and DbSim.lean).
-/
namespace PB.C02
open PB.Db PB.KV

/-! ### Refinement: interface + cache + controller + storage ⊑ plain key-to-record map -/

/-- For every backend, delete mode (shadow / immediate), interface options, with no cache or an exclusively used
    read cache under ANY replacement policy (`evict` steps may occur anywhere in the history, maintenance may
    skip any set of records), every finite history of get / exists / put / put-new / delete / expiry and flag
    setters / query / maintenance / clear (and batch-put, purge, attribute insert on an uncached interface)
    at non-decreasing times yields the results of the reference map. -/
theorem refines (cfg : Cfg) (o : Opts) (hd : o.cache ≠ .delay) (ops : List (Op × Int))
    (ht : wellTimed 0 ops) (hsafe : ∀ x ∈ ops, cacheSafe o x.1) :
    outsEq cfg.backend (Db.run cfg o {} ops) (KV.run cfg o [] ops) :=
  run_sim hd ops 0 {} [] (Sim.init cfg o 0) ht hsafe

/-- One step, from any related pair of states (the inductive core of `refines`). -/
theorem refines_step (cfg : Cfg) (o : Opts) (hd : o.cache ≠ .delay) (now : Int) (hpos : 0 < now)
    (st : ISt) (m : Store) (hs : Sim cfg o now st m) (op : Op) (hsafe : cacheSafe o op) :
    Sim cfg o now (Db.step cfg o st op now).1 (KV.step cfg o m op now).1 ∧
    outEq cfg.backend (Db.step cfg o st op now).2 (KV.step cfg o m op now).2 :=
  step_sim hs hpos hd op hsafe

/-- The full statement — batch-put and purge through a cached interface included — is false on the code:
    `PutMany` (and `Purge`) write behind the interface's own cache. Recorded finding
    C02:cache-not-invalidated-by-putmany / -by-purge. -/
theorem refines_with_batch_behind_cache_REFUTED :
    ¬ (∀ (cfg : Cfg) (o : Opts) (ops : List (Op × Int)), o.cache ≠ .delay → wellTimed 0 ops →
        outsEq cfg.backend (Db.run cfg o {} ops) (KV.run cfg o [] ops)) := by
  intro h
  have := h { backend := .bbolt, shadow := false } { cache := .read }
    [(.put { key := "k", fields := [("S", .prim (.str "old"))] }, 10), (.get "k", 10),
     (.putMany [{ key := "k", fields := [("S", .prim (.str "new"))] }], 10), (.get "k", 10)]
    (by decide) (by simp [wellTimed])
  revert this
  decide

/-! ### The clock comparisons of the source are the ones the theorems are about

`PB.Gen.MetaSrc` (record.Meta methods, translated by golean.go) and `PB.Gen.DbTime` (decision switch of
`MaintainRecordStates` per backend) are regenerated from /repo on every run. The model's `maintainRec` is
defined over `PB.Gen.DbTime`; the statements below are about those generated functions, so an operator that
changes in the source is re-checked here. -/

/-- `Meta.CheckValidity` as it stands in the source is the model's notion of "visible". -/
theorem source_checkValidity_is_model (m : Meta) (now : Int) :
    PB.Gen.MetaSrc.Meta_CheckValidity (srcMeta m) now = .ok (m.valid now) := by
  unfold PB.Gen.MetaSrc.Meta_CheckValidity Meta.valid srcMeta
  by_cases hd : m.deleted > 0
  · simp [hd]
  · by_cases he : m.expires > 0 ∧ m.expires < now
    · simp [hd, he]
    · simp only [hd, he, decide_false, if_false, Bool.false_eq_true]
      by_cases h1 : m.expires > 0 <;> by_cases h2 : m.expires < now <;> simp_all

/-- `Meta.IsDeleted`, `SetAbsoluteExpiry`, `Reset`, `Delete` of the source are the model's. -/
theorem source_meta_setters_are_model (m : Meta) (now s : Int) :
    PB.Gen.MetaSrc.Meta_IsDeleted (srcMeta m) now = .ok m.isDeleted ∧
    PB.Gen.MetaSrc.Meta_SetAbsoluteExpiry (srcMeta m) now s = .ok (srcMeta (m.setAbsoluteExpiry s)) ∧
    PB.Gen.MetaSrc.Meta_Reset (srcMeta m) now = .ok (srcMeta m.reset) ∧
    PB.Gen.MetaSrc.Meta_Delete (srcMeta m) now = .ok (srcMeta (m.delete now)) := by
  refine ⟨?_, ?_, ?_, ?_⟩ <;>
    simp [PB.Gen.MetaSrc.Meta_IsDeleted, PB.Gen.MetaSrc.Meta_SetAbsoluteExpiry, PB.Gen.MetaSrc.Meta_Reset,
      PB.Gen.MetaSrc.Meta_Delete, srcMeta, Meta.isDeleted, Meta.setAbsoluteExpiry, Meta.reset, Meta.delete]

/-- `Meta.Update` and `SetRelativateExpiry` of the source are the model's for every time and duration in `int64`
    range (Go wraps around outside it; the model's integers do not). -/
theorem source_meta_update_is_model (m : Meta) (now s : Int)
    (hnow : -(2 : Int) ^ 62 ≤ now ∧ now < (2 : Int) ^ 62) (hdel : -(2 : Int) ^ 62 ≤ m.deleted ∧ m.deleted < (2 : Int) ^ 62)
    (hs : -(2 : Int) ^ 62 ≤ s ∧ s < (2 : Int) ^ 62) :
    PB.Gen.MetaSrc.Meta_Update (srcMeta m) now = .ok (srcMeta (m.update now)) ∧
    PB.Gen.MetaSrc.Meta_SetRelativateExpiry (srcMeta m) now s = .ok (srcMeta (m.setRelativeExpiry s)) := by
  have w1 : PB.Go.wrapI64 (now - m.deleted) = now - m.deleted := wrapI64_inRange _ (by omega) (by omega)
  have w2 : PB.Go.wrapI64 (-s) = -s := wrapI64_inRange _ (by omega) (by omega)
  constructor
  · unfold PB.Gen.MetaSrc.Meta_Update Meta.update srcMeta
    by_cases hc : m.created = 0 <;> by_cases hd : m.deleted < 0 <;> simp [hc, hd, w1]
  · unfold PB.Gen.MetaSrc.Meta_SetRelativateExpiry Meta.setRelativeExpiry srcMeta
    by_cases h : s ≥ 0 <;> simp [h, w2]

/-- The decision switch of `MaintainRecordStates` in the source of every backend: what its first case marks
    (shadow delete) or hands to the removal was already rejected by `CheckValidity` at that very second, and is
    marked with a deletion stamp; what its second case removes is marked deleted. Holds for every `now`,
    including the second in which `now = Expires`. `maintenance_invisible` and the two theorems after it rest on
    exactly this. -/
theorem source_maintenance_switch_touches_only_dead (b : Backend) (m : Meta) (now thr : Int) (sh : Bool) :
    (b.expiredCase m now thr sh = true → m.valid now = false ∧ b.expiredMark m now thr > 0) ∧
    (b.removeCase m now thr sh = true → m.deleted > 0 ∧ m.valid now = false) :=
  ⟨Backend.expiredCase_dead b m now thr sh,
   fun h => ⟨Backend.removeCase_dead b m now thr sh h, Meta.deleted_invalid (Backend.removeCase_dead b m now thr sh h)⟩⟩

/-- Every read path that decides visibility on its own consults `CheckValidity` (controller get / get-meta, the
    four query executors, bbolt purge, the runtime registry's query): at least one guard per function in the
    source of this run. -/
theorem source_read_paths_check_validity : ∀ p ∈ PB.Gen.DbTime.validityGuards, p.2 ≥ 1 := by decide

/-! ### Keys are opaque strings

The model's operations take the database key as it is. In the code every interface operation
(`Interface.getRecord` / `getMeta`), `record.Base.SetKey`, `record.NewWrapper` and `query.New` first split
`"<database>:<key>"` with `record.ParseKey`. `PB.Gen.DbKey.ParseKey` is that function translated from the
source on every run (harness/cmd/extract/dbkey.go, semantics of `strings.SplitN / Split / Join` in
`PB.GoStr`); the statements below say that the split hands the model exactly the key the caller named —
whatever characters it contains, further colons included. -/

/-- `ParseKey("<db>:<key>") = (db, key)` for EVERY key (database names have no colon): the part behind the first
    colon is the database key, unchanged. -/
theorem source_parseKey_keeps_whole_key (db key : List Char) (h : ':' ∉ db) :
    PB.Gen.DbKey.ParseKey (db ++ ':' :: key) = .ok (db, key) := by
  open PB.GoStr in
  first
  | (simp [PB.Gen.DbKey.ParseKey, splitN, splitK, cut_colon_append db key h, len, inIdx, strAt, inSlice, slice, join]; done)
  | (have e : split (db ++ ':' :: key) [':'] = db :: splitK [':'] (db.length + key.length) key := by
       simp only [split, splitN]
       rw [if_neg (by decide), if_pos (by decide), length_colon_append, splitK_colon_append _ _ _ h]
     have hne := splitK_ne_nil [':'] (db.length + key.length) key
     have hj := join_splitK [':'] (db.length + key.length) key
     generalize splitK [':'] (db.length + key.length) key = L at *
     cases L with
     | nil => contradiction
     | cons x xs =>
       simp [PB.Gen.DbKey.ParseKey, e, len, inIdx, strAt, inSlice, slice]
       rw [hj]
       have h1 : ¬ ((xs.length : Int) + 1 + 1 < 2) := by omega
       have h2 : (0 : Int) < (xs.length : Int) + 1 + 1 := by omega
       have h3 : (1 : Int) ≤ (xs.length : Int) + 1 + 1 := by omega
       simp [h1, h2, h3])

/-- Records under different keys of one database stay different records: no two keys are split to the same pair. -/
theorem source_parseKey_injective (db k1 k2 : List Char) (h : ':' ∉ db)
    (he : PB.Gen.DbKey.ParseKey (db ++ ':' :: k1) = PB.Gen.DbKey.ParseKey (db ++ ':' :: k2)) : k1 = k2 := by
  rw [source_parseKey_keeps_whole_key db k1 h, source_parseKey_keeps_whole_key db k2 h] at he
  injection he with he
  exact (Prod.mk.inj he).2

/-- A name without colon is a database name with the empty key (the query prefix of a whole database). -/
theorem source_parseKey_without_colon (k : List Char) (h : ':' ∉ k) :
    PB.Gen.DbKey.ParseKey k = .ok (k, []) := by
  open PB.GoStr in
  simp [PB.Gen.DbKey.ParseKey, split, splitN, splitK_colon_none _ k h, len, inIdx, strAt]

/-! ### Maintenance -/

/-- Maintenance never changes what is visible — whichever records the pass skips. -/
theorem maintenance_invisible (cfg : Cfg) (s : Store) (hn : s.NodupKeys) (now thr : Int) (skip : List String) (k : String) :
    vis now ((maintainSkip cfg s now thr skip).get k) = vis now (s.get k) := by
  unfold maintainSkip
  split
  · have hkey : ∀ r r', (if skip.contains r.key = true then some r else maintainRec cfg now thr r) = some r' → r'.key = r.key := by
      intro r r' h
      split at h
      · cases h; rfl
      · exact maintainRec_key cfg thr r r' h
    rw [Store.get_filterMap hn _ hkey]
    cases s.get k with
    | none => rfl
    | some r =>
      simp only [Option.bind]
      split
      · rfl
      · by_cases hv : r.md.valid now = true
        · rw [maintainRec_valid cfg thr r hv]
        · have hv' : r.md.valid now = false := by simpa using hv
          rw [maintainRec_invalid cfg thr r hv', vis_of_invalid hv']
  · rfl

/-- Maintenance physically removes only records that are deleted or expired. -/
theorem maintenance_removes_only_dead (cfg : Cfg) (s : Store) (hn : s.NodupKeys) (now thr : Int) (skip : List String)
    (k : String) (r : Rec) (hr : s.get k = some r) (hgone : (maintainSkip cfg s now thr skip).get k = none) :
    r.md.deleted > 0 ∨ (r.md.expires > 0 ∧ r.md.expires < now) := by
  have hinv : r.md.valid now = false := by
    cases hv : r.md.valid now with
    | false => rfl
    | true =>
      have := maintenance_invisible cfg s hn now thr skip k
      rw [hgone, hr, vis_of_valid hv] at this
      cases this
  unfold Meta.valid at hinv
  by_cases hd : r.md.deleted > 0
  · exact Or.inl hd
  · simp only [hd, if_false] at hinv
    by_cases he : r.md.expires > 0 ∧ r.md.expires < now
    · exact Or.inr he
    · simp [he] at hinv

/-- What maintenance rewrites instead of removing (expired ⇒ shadow-deleted) was not visible and stays invisible;
    every other record it keeps is untouched. -/
theorem maintenance_rewrites_only_dead (cfg : Cfg) (s : Store) (hn : s.NodupKeys) (now thr : Int) (skip : List String)
    (k : String) (r r' : Rec) (hr : s.get k = some r) (hr' : (maintainSkip cfg s now thr skip).get k = some r') :
    r' = r ∨ (r.md.valid now = false ∧ r'.md.valid now = false) := by
  by_cases hv : r.md.valid now = true
  · left
    have := maintenance_invisible cfg s hn now thr skip k
    rw [hr', hr, vis_of_valid hv] at this
    have h2 := (vis_some this).1
    cases h2; rfl
  · right
    have hv' : r.md.valid now = false := by simpa using hv
    refine ⟨hv', ?_⟩
    have := maintenance_invisible cfg s hn now thr skip k
    rw [hr', hr, vis_of_invalid hv'] at this
    cases h : r'.md.valid now with
    | false => rfl
    | true => rw [vis_of_valid h] at this; cases this

/-! ### Queries and purge -/

/-- A query yields exactly the stored records whose key starts with the prefix, that are valid, permitted for the
    interface and comply with the condition — each once. -/
theorem query_exact (s : Store) (hn : s.NodupKeys) (q : Query) (loc int : Bool) (now : Int) (r : Rec) :
    (r ∈ storeQuery s q loc int now ↔
      s.get r.key = some r ∧ q.matchesKey r.key = true ∧ r.md.valid now = true ∧
      r.md.permitted loc int = true ∧ q.matchesRecord r = true) ∧
    (storeQuery s q loc int now).Nodup ∧ Store.NodupKeys (storeQuery s q loc int now) := by
  unfold storeQuery
  refine ⟨?_, List.Nodup.sublist List.filter_sublist (Store.nodup_list hn), Store.nodup_filter hn _⟩
  rw [List.mem_filter, Store.mem_iff_get hn]
  unfold Query.selects
  simp [Bool.and_eq_true, and_assoc]

/-- The interface's `Query` hands exactly that to the caller and rejects conditions that recorded a
    construction error. -/
theorem interface_query_exact (o : Opts) (st : ISt) (q : Query) (now : Int) :
    (q.check = false → (ifQuery o st q now).2 = .err .badQuery) ∧
    (q.check = true → (ifQuery o st q now).2 = .recs (storeQuery st.store q o.loc o.int now)) := by
  unfold ifQuery
  constructor <;> intro h <;> simp [h]

/-- `Purge` counts and removes from view exactly the records a query would yield; everything else stays as it is. -/
theorem purge_exact (cfg : Cfg) (s : Store) (hn : s.NodupKeys) (q : Query) (loc int : Bool) (now : Int) (hpos : 0 < now) :
    (purge cfg s q loc int now).2 = (storeQuery s q loc int now).length ∧
    ∀ k, vis now ((purge cfg s q loc int now).1.get k) =
      (vis now (s.get k)).bind (fun r => if q.selects loc int now r then none else some r) := by
  have hsel : ∀ r, q.purges loc int now r = q.selects loc int now r := by
    intro r; unfold Query.purges Query.selects
    cases q.matchesKey r.key <;> cases r.md.valid now <;> cases r.md.permitted loc int <;> simp
  unfold purge storeQuery
  refine ⟨by rw [show q.purges loc int now = q.selects loc int now from funext hsel], ?_⟩
  intro k
  simp only
  rw [Store.get_filterMap hn _ (purgeRec_key cfg q loc int)]
  cases s.get k with
  | none => rfl
  | some r =>
    simp only [Option.bind]
    by_cases hv : r.md.valid now = true
    · rw [vis_of_valid hv]
      simp only [Option.bind]
      unfold purgeRec
      by_cases hp : q.purges loc int now r = true
      · rw [← hsel r]
        simp only [hp, if_true]
        split
        · rw [vis_of_invalid]; rw [stored_md]; apply Meta.deleted_invalid; unfold Meta.delete; simp; exact hpos
        · rfl
      · rw [← hsel r]; simp [hp, vis_of_valid hv]
    · have hv' : r.md.valid now = false := by simpa using hv
      rw [vis_of_invalid hv']
      have : q.purges loc int now r = false := by
        cases h : q.purges loc int now r with
        | false => rfl
        | true => rw [purges_valid q _ _ r h] at hv'; cases hv'
      unfold purgeRec; simp [this, vis_of_invalid hv']

/-! ### Typed structs and serialised data answer conditions identically -/

/-- For conditions whose operators fit the kinds of the root-level fields they name (README "Req. Type"), the
    struct accessor and the JSON accessor give the same verdict on the same field values — for every nesting of
    and / or / not, every operand, and every value a Go field of that kind can hold (`goValues`): the whole `int64`
    range for integer fields (beyond ±2^53 the JSON accessor's `gjson.Result.Int` reads the raw text, see
    `gjsonInt_int64`), every float64 for float fields. The conversions the JSON accessor applies are the ones found in
    the source on this run (`PB.Gen.DbAcc`): with `int64(result.Num)` in `GetInt` this proof fails. -/
theorem struct_json_agree (fs : Fields) (c : Cond) (hg : goValues fs) (ht : c.typedFor fs) :
    c.complies (.struct fs) = c.complies (.json fs) := by
  induction c with
  | leaf sel l =>
    unfold Cond.typedFor Leaf.typedFor at ht
    unfold Cond.complies
    match sel, ht with
    | [name], ht =>
      simp only at ht
      cases hl : lookup name fs with
      | none =>
        rw [hl] at ht
        cases l <;> simp at ht
        simp [Leaf.eval, View.exists, structGet, jsonGet, hl]
      | some v =>
        rw [hl] at ht
        cases v with
        | prim p =>
          have hp := hg name p hl
          cases p with
          | int i =>
            have hi : jsonNumToInt (i * 1000) = i := by
              unfold jsonNumToInt
              simp only [show PB.Gen.DbAcc.jsonIntVia = 0 from rfl, if_true]
              exact gjsonInt_int64 i hp.1 hp.2
            cases l <;> simp at ht <;>
              simp [Leaf.eval, View.exists, View.getInt, structGet, jsonGet, hl, primJV, hi]
          | flt m =>
            have hm : jsonNumToFloat m = m := by
              unfold jsonNumToFloat
              simp only [show PB.Gen.DbAcc.jsonFloatVia ≤ 1 from by decide, if_true]
              exact hp
            cases l <;> simp at ht <;>
              simp [Leaf.eval, View.exists, View.getFloat, structGet, jsonGet, hl, primJV, hm]
          | str x =>
            cases l <;> simp at ht <;>
              simp [Leaf.eval, View.exists, View.getString, structGet, jsonGet, hl, primJV]
          | bool x =>
            cases l <;> simp at ht <;>
              simp [Leaf.eval, View.exists, View.getBool, structGet, jsonGet, hl, primJV]
        | obj ofs =>
          cases l <;> simp at ht
          simp [Leaf.eval, View.exists, structGet, jsonGet, hl]
        | arr xs =>
          cases l <;> simp at ht
          simp [Leaf.eval, View.exists, structGet, jsonGet, hl]
  | and a b iha ihb => unfold Cond.complies; rw [iha ht.1, ihb ht.2]
  | or a b iha ihb => unfold Cond.complies; rw [iha ht.1, ihb ht.2]
  | not c ih => unfold Cond.complies; rw [ih ht]
  | tt => rfl
  | ff => rfl
  | err => rfl

/-- The domain of `struct_json_agree` has no hidden 2^53 bound: the `int64` an integer field holds comes back from the
    serialised form exactly, for every `int64` (source conversion of this run). -/
theorem json_int_field_exact (i : Int) (h1 : -9223372036854775808 ≤ i) (h2 : i ≤ 9223372036854775807) (name : String) :
    View.getInt (.json [(name, .prim (.int i))]) [name] = some i ∧
    View.getInt (.struct [(name, .prim (.int i))]) [name] = some i := by
  have hi : jsonNumToInt (i * 1000) = i := by
    unfold jsonNumToInt
    simp only [show PB.Gen.DbAcc.jsonIntVia = 0 from rfl, if_true]
    exact gjsonInt_int64 i h1 h2
  simp [View.getInt, jsonGet, structGet, lookup, primJV, hi]

/-- Hence a query cannot tell a typed record from what a serialising backend stores for it. -/
theorem query_backend_independent (b : Backend) (q : Query) (r : Rec) (hform : r.form = .struct)
    (hlive : ¬ r.md.deleted > 0) (hne : r.fields ≠ []) (hg : goValues r.fields)
    (ht : ∀ c, q.cond = some c → c.typedFor r.fields) :
    q.matchesRecord (stored b r) = q.matchesRecord r := by
  unfold Query.matchesRecord
  cases hc : q.cond with
  | none => rfl
  | some c =>
    simp only
    unfold stored Rec.view
    by_cases hs : b.serializes = true
    · have hemp : r.fields.isEmpty = false := by
        cases hf : r.fields with
        | nil => exact absurd hf hne
        | cons _ _ => rfl
      simp [hs, hlive, hform, hemp]
      exact (struct_json_agree r.fields c hg (ht c hc)).symm
    · simp [hs]

/-- The statement without the typing proviso is false on the code: sub-level, array-length and array-index
    selectors (README: "supported by all feeders") are resolved by the JSON accessor only; and the JSON accessor
    coerces numbers where the struct accessor insists on the kind.
    Recorded finding C02:struct-accessor-sublevel-selector. -/
theorem struct_json_agree_untyped_REFUTED :
    ¬ (∀ (fs : Fields) (c : Cond), c.complies (.struct fs) = c.complies (.json fs)) := by
  intro h
  have := h [("N", .obj [("X", .int 7)])] (.leaf ["N", "X"] (.intCmp .eq 7))
  revert this; decide

/-! ### The result stream hands the storage error to the consumer -/

/-- Invariant of the hand-over protocol. -/
theorem iterator_invariant (s s' : Iter.St) (a : Iter.Act)
    (hinv : (s.nextClosed = true → s.errStored = true) ∧ (s.cpc ≥ 1 → s.nextClosed = true) ∧
            (s.cpc = 2 → s.observed = true) ∧ (s.ppc ≥ 2 → s.nextClosed = true) ∧ (s.ppc ≥ 1 → s.errStored = true) ∧ s.cpc ≤ 2)
    (hs : Iter.step s a = some s') :
    (s'.nextClosed = true → s'.errStored = true) ∧ (s'.cpc ≥ 1 → s'.nextClosed = true) ∧
    (s'.cpc = 2 → s'.observed = true) ∧ (s'.ppc ≥ 2 → s'.nextClosed = true) ∧ (s'.ppc ≥ 1 → s'.errStored = true) ∧ s'.cpc ≤ 2 := by
  cases a <;> simp only [Iter.step] at hs <;> split at hs <;> cases hs <;> simp_all <;> omega

/-- In every interleaving of the producer finishing a query with an error and the consumer draining it, a consumer
    that has seen the end of the stream and then asks `Err()` gets the producer's error — for every number of
    records, every channel capacity, every schedule. -/
theorem iterator_error_delivered (n cap : Nat) (sched : List Iter.Act) (s : Iter.St)
    (hrun : Iter.exec (Iter.init n cap) sched = some s) (hdone : s.cpc = 2) : s.observed = true := by
  have key : ∀ (sched : List Iter.Act) (s0 s : Iter.St),
      ((s0.nextClosed = true → s0.errStored = true) ∧ (s0.cpc ≥ 1 → s0.nextClosed = true) ∧
        (s0.cpc = 2 → s0.observed = true) ∧ (s0.ppc ≥ 2 → s0.nextClosed = true) ∧ (s0.ppc ≥ 1 → s0.errStored = true) ∧ s0.cpc ≤ 2) →
      Iter.exec s0 sched = some s → s.cpc = 2 → s.observed = true := by
    intro sched
    induction sched with
    | nil => intro s0 s hinv h hd; simp [Iter.exec] at h; subst h; exact hinv.2.2.1 hd
    | cons a rest ih =>
      intro s0 s hinv h hd
      unfold Iter.exec at h
      cases hst : Iter.step s0 a with
      | none => rw [hst] at h; cases h
      | some s1 => rw [hst] at h; exact ih s1 s (iterator_invariant s0 s1 a hinv hst) h hd
  exact key sched (Iter.init n cap) s (by simp [Iter.init]) hrun hdone

/-- Counting invariant of the hand-over: nothing is lost or duplicated on the way. -/
theorem iterator_count_invariant (n : Nat) (s s' : Iter.St) (a : Iter.Act)
    (hinv : s.toSend + s.buf + s.received = n ∧ (s.ppc ≥ 1 → s.toSend = 0) ∧ (s.nextClosed = true → s.ppc ≥ 2) ∧
            (s.cpc ≥ 1 → s.buf = 0 ∧ s.nextClosed = true))
    (hs : Iter.step s a = some s') :
    s'.toSend + s'.buf + s'.received = n ∧ (s'.ppc ≥ 1 → s'.toSend = 0) ∧ (s'.nextClosed = true → s'.ppc ≥ 2) ∧
            (s'.cpc ≥ 1 → s'.buf = 0 ∧ s'.nextClosed = true) := by
  cases a <;> simp only [Iter.step] at hs <;> split at hs <;> cases hs <;> (try dsimp only) <;> grind

/-- The consumer that saw the end of the stream has received every record the producer sent. -/
theorem iterator_all_records_delivered (n cap : Nat) (sched : List Iter.Act) (s : Iter.St)
    (hrun : Iter.exec (Iter.init n cap) sched = some s) (hdone : s.cpc ≥ 1) : s.received = n := by
  have key : ∀ (sched : List Iter.Act) (s0 s : Iter.St),
      (s0.toSend + s0.buf + s0.received = n ∧ (s0.ppc ≥ 1 → s0.toSend = 0) ∧ (s0.nextClosed = true → s0.ppc ≥ 2) ∧
        (s0.cpc ≥ 1 → s0.buf = 0 ∧ s0.nextClosed = true)) →
      Iter.exec s0 sched = some s → s.cpc ≥ 1 → s.received = n := by
    intro sched
    induction sched with
    | nil =>
      intro s0 s hinv h hd; simp [Iter.exec] at h; subst h
      have := hinv.2.2.2 hd; have h2 := hinv.2.2.1 this.2; have h3 := hinv.2.1 (by omega); omega
    | cons a rest ih =>
      intro s0 s hinv h hd
      unfold Iter.exec at h
      cases hst : Iter.step s0 a with
      | none => rw [hst] at h; cases h
      | some s1 => rw [hst] at h; exact ih s1 s (iterator_count_invariant n s0 s1 a hinv hst) h hd
  exact key sched (Iter.init n cap) s (by simp [Iter.init]) hrun hdone

/-- A query that is still running while records are deleted or expire (`PB.Iter.HandOver`: `check` = the visit of a
    record with its validity check, `protect x` = the delete / expiry of `x` has returned): a record that stops being
    visible before its hand-over check is never listed, and once that holds for every remaining candidate at most
    capacity + 1 further records — those that had already left the executor — arrive. All candidate lists, buffer
    capacities and schedules. -/
theorem invalid_before_check_never_listed (todo : List Nat) (hn : todo.Nodup) (cap : Nat)
    (sched post : List Iter.HandOver.Act) (s s' : Iter.HandOver.St)
    (hs : Iter.HandOver.exec (Iter.HandOver.init todo cap) sched = some s) :
    (∀ x ∈ s.due, x ∉ s.recvd ∧ x ∉ s.buf ∧ s.hand ≠ some x) ∧
    ((∀ x ∈ s.todo, x ∈ s.prot) → Iter.HandOver.exec s post = some s' →
      Iter.HandOver.inFlight s' ≤ Iter.HandOver.inFlight s) :=
  ⟨(Iter.HandOver.inv_exec sched _ s (Iter.HandOver.inv_init todo cap hn) hs).2.2.2,
   fun hc h2 => Iter.HandOver.closed_exec post s s' hc
     (Iter.HandOver.buf_le_cap_exec sched _ s (by simp [Iter.HandOver.init]) hs) h2⟩

/-- In every backend's `queryExecutor`, as the source stands, `CheckValidity` gates the send within the visit of the
    record (table regenerated by harness/cmd/extract/dbiter.go). -/
theorem source_handover_checks_validity :
    ∀ e ∈ PB.Gen.DbIter.handOverChecks, "CheckValidity" ∈ e.2 := by decide

/-- With the order of the pinned tree (close the stream, then store the error) a consumer can read `Err()` in
    between and see nothing: the schedule below is a run of the old protocol that ends with the error lost.
    Repaired by `fix: Iterator.Finish stores the error before closing the result stream`. -/
theorem iterator_old_order_loses_error :
    ∃ sched, (Iter.execOld (Iter.init 1 10) sched).map (fun s => (s.cpc, s.observed, s.errStored)) = some (2, false, true) :=
  ⟨[.send, .closeNext, .recv, .seeEnd, .readErr, .closeDone, .storeErr], by decide⟩

/-! ### Delayed write cache: a pending write is readable, survives eviction, and is flushed -/

/-- A record written through an interface with delayed writes is answered by the next `get`, although the
    storage has not seen it yet. -/
theorem delayed_put_then_get (cfg : Cfg) (o : Opts) (hc : o.cache = .delay) (ha : o.all = true) (st : ISt) (r : Rec) (now : Int)
    (hv : (o.apply r.md now).valid now = true) :
    (ifGet cfg o (ifPut cfg o st r now false).1 r.key now).2 = .one { r with md := o.apply r.md now } ∧
    (ifPut cfg o st r now false).1.store = st.store := by
  have hnd : (o.apply r.md now).isDeleted = false := by
    have := Meta.valid_not_deleted hv
    unfold Meta.isDeleted; simp; omega
  have hput : ifPut cfg o st r now false =
      ({ st with cache := st.cache.put { r with md := o.apply r.md now },
                 wcache := st.wcache.put { r with md := o.apply r.md now } }, .ok) := by
    unfold ifPut updateCache
    simp [ha, hc, hnd]
  rw [hput]
  refine ⟨?_, rfl⟩
  unfold ifGet getRecord checkCache
  have hg : (st.cache.put { r with md := o.apply r.md now }).get r.key = some { r with md := o.apply r.md now } :=
    Store.get_put_eq _ { r with md := o.apply r.md now }
  simp [hc, hg, hv, Opts.hasAccess, ha]

/-- When the ARC cache drops an entry that still waits to be written, the evict handler writes it to storage
    (and hands it to the subscribers) before it is forgotten. -/
theorem evict_writes_pending (cfg : Cfg) (st : ISt) (k : String) (r : Rec) (hp : st.wcache.get k = some r) :
    (evict cfg st k).store = storePut cfg st.store r ∧ (evict cfg st k).wcache.get k = none ∧
    (evict cfg st k).cache.get k = none := by
  unfold evict ctlPut
  simp [hp, Store.get_del_eq]

/-- `FlushCache` leaves no pending write behind. -/
theorem flush_empties_write_set (cfg : Cfg) (o : Opts) (hc : o.cache = .delay) (st : ISt) (now : Int) :
    (ifFlush cfg o st now).1.wcache = [] := by
  cases ha : o.all <;> simp [ifFlush, hc, ha]

/-- … and every pending record reaches the storage through the batch path (`Apply`, then put or immediate delete) —
    on an interface that is local and internal, as `Options.DelayCachedWrites` demands (`PutMany` refuses any other:
    `PB.C03.flush_without_all_permissions_stores_nothing`). -/
theorem flush_writes_one (cfg : Cfg) (o : Opts) (hc : o.cache = .delay) (ha : o.all = true) (st : ISt) (r : Rec) (now : Int)
    (hw : st.wcache = [r]) :
    (ifFlush cfg o st now).1.store = storePut cfg st.store { r with md := o.apply r.md now } := by
  unfold ifFlush flushOne; simp [hc, hw, ha]

/-- Invariant of every history through an interface with delayed writes (any backend, delete mode, eviction
    pattern; `ClearCache` excluded — it drops cache entries without the evict handler): a record that still
    waits in the write set is the record the read cache answers with, so no accepted write is ever unreadable
    before it reaches the storage. -/
theorem delayed_pending_always_readable (cfg : Cfg) (o : Opts) (hc : o.cache = .delay) :
    ∀ (ops : List (Op × Int)) (st : ISt), Pend st → (∀ x ∈ ops, x.1 ≠ .clear) →
      ∀ n, Pend ((ops.take n).foldl (fun s x => (Db.step cfg o s x.1 x.2).1) st) := by
  intro ops
  induction ops with
  | nil => intro st h _ n; simpa using h
  | cons x rest ih =>
    intro st h hcl n
    cases n with
    | zero => simpa using h
    | succ n =>
      simp only [List.take_succ_cons, List.foldl_cons]
      exact ih _ (step_pend hc h x.1 x.2 (hcl x (List.mem_cons_self ..))) (fun y hy => hcl y (List.mem_cons_of_mem _ hy)) n

/-! ### Non-vacuity -/

/-- A history on bbolt with shadow delete and a read cache that exercises cache hits, a delete seen through the
    cache, an expiry moved into the past, eviction, maintenance and a query — and satisfies all hypotheses of
    `refines`. -/
example :
    let ops : List (Op × Int) :=
      [(.put { key := "a/x", form := .struct, fields := [("S", .prim (.str "abc")), ("I", .prim (.int 5))] }, 10),
       (.get "a/x", 11), (.delete "a/x", 12), (.get "a/x", 12),
       (.put { key := "ab", fields := [("S", .prim (.str "q"))], md := { expires := 100 } }, 13),
       (.evict "ab", 13), (.get "ab", 14), (.setAbs "ab" 5, 15), (.exists_ "ab", 15),
       (.maintain 20 ["a/x"], 20), (.query { pfx := "a", cond := some (.leaf ["S"] (.strOp .startsWith "a")) }, 21)]
    wellTimed 0 ops ∧ (∀ x ∈ ops, cacheSafe { cache := .read } x.1) ∧
    Db.run { backend := .bbolt, shadow := true } { cache := .read } {} ops =
      [.ok, .one { key := "a/x", form := .struct, fields := [("S", .prim (.str "abc")), ("I", .prim (.int 5))],
                   md := { created := 10, modified := 10 } },
       .ok, .err .notFound, .ok, .ok,
       .one { key := "ab", fields := [("S", .prim (.str "q"))], md := { created := 13, modified := 13, expires := 100 } },
       .ok, .bool false, .ok, .recs []] := by
  refine ⟨by simp [wellTimed], by intro x hx; simp at hx; rcases hx with h | h | h | h | h | h | h | h | h | h | h <;> subst h <;> trivial, by decide⟩

/-- The boundary second: a record whose expiry time is `now` is still visible, and maintenance at that second —
    hashmap and bbolt, both delete modes, any purge threshold — leaves it where it is; one second later it is
    invisible, removed without shadow delete and marked deleted with it. -/
example :
    let r : Rec := { key := "k", md := { created := 5, modified := 5, expires := 100 } }
    r.md.valid 100 = true ∧ r.md.valid 101 = false ∧
    (∀ b ∈ [Backend.hashmap, .bbolt], ∀ sh ∈ [true, false], ∀ thr ∈ [(0 : Int), 100, 101, 200],
      maintainRec { backend := b, shadow := sh } 100 thr r = some r ∧
      maintainRec { backend := b, shadow := false } 101 thr r = none ∧
      (maintainRec { backend := b, shadow := true } 101 thr r).map (·.md.deleted) = some 100) := by decide

/-- A well-typed condition on a harness-schema record (hypotheses of `struct_json_agree`) that matches. -/
example :
    let fs : Fields := [("S", .prim (.str "abc")), ("I", .prim (.int 5)), ("F", .prim (.flt 1500)), ("B", .prim (.bool true))]
    let c : Cond := .and (.leaf ["I"] (.intCmp .ge 5)) (.or (.leaf ["F"] (.fltCmp .lt 2000)) (.not (.leaf ["B"] (.is false))))
    goValues fs ∧ c.typedFor fs ∧ c.complies (.struct fs) = true := by
  refine ⟨?_, by simp [Cond.typedFor, Leaf.typedFor, lookup], by decide⟩
  intro name p h
  simp only [lookup] at h
  repeat' split at h
  all_goals first | (cases h; simp [Prim.goValue]; try decide) | cases h

/-- Beyond 2^53: the integer 2^53 + 1 = 9007199254740993 (not a float64) in an `int64` field. Typed struct and
    serialised record agree on every integer operator, and the verdicts depend on the low bit a float64 would lose:
    `== 9007199254740993` matches, `> 9007199254740992` matches, `<= 9007199254740992` does not. -/
example :
    let fs : Fields := [("I", .prim (.int 9007199254740993))]
    goValues fs ∧
    (∀ v : View, v = .struct fs ∨ v = .json fs →
      (Cond.leaf ["I"] (.intCmp .eq 9007199254740993)).complies v = true ∧
      (Cond.leaf ["I"] (.intCmp .gt 9007199254740992)).complies v = true ∧
      (Cond.leaf ["I"] (.intCmp .le 9007199254740992)).complies v = false ∧
      (Cond.not (.leaf ["I"] (.intCmp .eq 9007199254740992))).complies v = true) := by
  refine ⟨?_, ?_⟩
  · intro name p h
    simp only [lookup] at h
    split at h
    · cases h; simp [Prim.goValue]
    · cases h
  · intro v hv
    rcases hv with rfl | rfl <;> decide

/-- The ends of the range and a float64 field that holds 2^62 (a float64) against an operand that is not one
    (2^62 + 1 is rounded to 2^62 by `newFloatCondition`, for both record forms alike). -/
example :
    let fs : Fields := [("I", .prim (.int (-9223372036854775808))), ("F", .prim (.flt 4611686018427387904000))]
    goValues fs ∧
    (∀ v : View, v = .struct fs ∨ v = .json fs →
      (Cond.leaf ["I"] (.intCmp .eq (-9223372036854775808))).complies v = true ∧
      (Cond.leaf ["I"] (.intCmp .lt (-9223372036854775807))).complies v = true ∧
      (Cond.leaf ["F"] (.fltCmp .eq 4611686018427387905000)).complies v = true ∧
      (Cond.leaf ["F"] (.fltCmp .lt 4611686018427388416000)).complies v = false ∧
      (Cond.leaf ["F"] (.fltCmp .lt 4611686018427388417000)).complies v = true) := by
  refine ⟨?_, ?_⟩
  · intro name p h
    simp only [lookup] at h
    repeat' split at h
    all_goals first | (cases h; simp [Prim.goValue]; try decide) | cases h
  · intro v hv
    rcases hv with rfl | rfl <;> decide

/-- A complete run of the hand-over protocol with three records through a channel of capacity two. -/
example : (Iter.exec (Iter.init 3 2) [.send, .send, .recv, .send, .storeErr, .recv, .closeNext, .recv, .seeEnd, .closeDone, .readErr]).map
    (fun s => (s.cpc, s.received, s.observed)) = some (2, 3, true) := by decide

/-- two keys that differ only behind a colon inside the key -/
example : PB.Gen.DbKey.ParseKey "db:conn/10.0.0.1:443".toList = .ok ("db".toList, "conn/10.0.0.1:443".toList) ∧
    PB.Gen.DbKey.ParseKey "db:conn/10.0.0.1:8080".toList = .ok ("db".toList, "conn/10.0.0.1:8080".toList) ∧
    PB.Gen.DbKey.ParseKey "db::a:".toList = .ok ("db".toList, ":a:".toList) := by
  refine ⟨?_, ?_, ?_⟩
  · exact source_parseKey_keeps_whole_key "db".toList "conn/10.0.0.1:443".toList (by decide)
  · exact source_parseKey_keeps_whole_key "db".toList "conn/10.0.0.1:8080".toList (by decide)
  · exact source_parseKey_keeps_whole_key "db".toList ":a:".toList (by decide)

end PB.C02
