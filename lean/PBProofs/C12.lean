import PBProofs.Lemmas.Api
/-
C12 — An API handler runs only for requests holding the permission it requires.

Property theorems only (helper lemmas: PBProofs/Lemmas/Api.lean; model: PB/Model/Api.lean; tables:
PB/Gen/Api.lean, regenerated from the Go source on every run).
All theorems hold for every state `st` (so in particular after every history of key-configuration
changes and session creation / expiry / reset); those whose statement is about histories quantify over
all event lists explicitly.
-/
namespace PB.C12
open PB PB.Api PB.Gen.Api

/-! ### The tables the statement talks about (regenerated from the source) -/

/-- The permission scale is NotFound < Dynamic < NotSupported < Anyone < User < Admin < Self. -/
theorem perm_constants_ordered :
    notFound < dynamic ∧ dynamic < notSupported ∧ notSupported < permitAnyone ∧ permitAnyone < permitUser ∧
    permitUser < permitAdmin ∧ permitAdmin < permitSelf := by decide

/-- The valid permissions are exactly Anyone, User, Admin, Self. -/
theorem valid_perms_enumerated (p : Int) :
    validPerm p ↔ p = permitAnyone ∨ p = permitUser ∨ p = permitAdmin ∨ p = permitSelf := by
  unfold validPerm permitAnyone permitUser permitAdmin permitSelf
  omega

/-- Read class = GET, HEAD; write class = POST, PUT, DELETE (as byte strings). -/
theorem method_classes_as_documented :
    readMethods = [[71, 69, 84], [72, 69, 65, 68]] ∧
    writeMethods = [[80, 79, 83, 84], [80, 85, 84], [68, 69, 76, 69, 84, 69]] ∧
    methodOptions = [79, 80, 84, 73, 79, 78, 83] := by decide

/-- The method class of a request: the method itself, or for OPTIONS the preflight header. -/
theorem method_class (method acrm : Bytes) (rm : Bool) :
    effectiveMethod method acrm = some rm ↔
      (method ≠ methodOptions ∧ ((rm = true ∧ method ∈ readMethods) ∨ (rm = false ∧ method ∉ readMethods ∧ method ∈ writeMethods))) ∨
      (method = methodOptions ∧ ((rm = true ∧ acrm ∈ readMethods) ∨ (rm = false ∧ acrm ∉ readMethods ∧ acrm ∈ writeMethods))) := by
  have hne : ([] : Bytes) ∉ readMethods ∧ ([] : Bytes) ∉ writeMethods := by decide
  unfold effectiveMethod
  by_cases ho : method = methodOptions
  · subst ho
    by_cases ha : acrm = []
    · subst ha
      simp [hne.1, hne.2]
    · simp only [ha, and_false, if_false, if_true]
      by_cases h1 : acrm ∈ readMethods
      · cases rm <;> simp [h1]
      · by_cases h2 : acrm ∈ writeMethods
        · cases rm <;> simp [h1, h2]
        · simp [h1, h2]
  · simp only [ho, false_and, if_false]
    by_cases h1 : method ∈ readMethods
    · cases rm <;> simp [h1, ho]
    · by_cases h2 : method ∈ writeMethods
      · cases rm <;> simp [h1, h2, ho]
      · simp [h1, h2, ho]

/-- The bridge is granted Admin, the session TTL is five minutes, the origin exceptions are the
    browser-extension scheme and (in dev mode) 127.0.0.1 / localhost. -/
theorem documented_constants :
    bridgePerm = permitAdmin ∧ sessionTTL = 300 ∧
    extensionSchemes = [[99, 104, 114, 111, 109, 101, 45, 101, 120, 116, 101, 110, 115, 105, 111, 110]] ∧
    devOrigins = [[49, 50, 55, 46, 48, 46, 48, 46, 49], [108, 111, 99, 97, 108, 104, 111, 115, 116]] := by decide

/-! ### A handler runs only with the permission it declares -/

/-- Main safety theorem. If the handler is invoked with token `t`, then the request was not refused by the
    origin check, its path was clean, it matched a route with a handler whose module is ready, its
    method has a class `rm` (read/write), the permission the handler declares for that class — with
    Dynamic read as Anyone — is a valid permission, and the token's permission for that class is valid
    and at least as high. -/
theorem handler_runs_only_with_permission (st : St) (r : Req) (t : Token)
    (h : (handle st r).2.out = .invoke t) :
    originRefused st r = false ∧ r.pathDirty = false ∧
    ∃ hd rm, r.route = .matched (some hd) ∧ hd.moduleReady = true ∧
      effectiveMethod r.method r.acrm = some rm ∧
      validPerm (effRequired (requiredPermission (some hd) rm)) ∧
      validPerm (t.perm rm) ∧
      effRequired (requiredPermission (some hd) rm) ≤ t.perm rm := by
  obtain ⟨ho, hd, hh, rm, hroute, hm, hserve⟩ := handle_invoke h
  rw [hserve] at h
  obtain ⟨hdl, rfl, hready, hok, _⟩ := serve_invoke h
  refine ⟨ho, hd, hdl, rm, hroute, hready, hm, ?_⟩
  rcases authenticateRequest_ok hok with ⟨hreq, rfl, _⟩ | ⟨_, _, _, hauth⟩
  · have : effRequired (requiredPermission (some hdl) rm) = permitAnyone := by
      rw [hreq]; decide
    rw [this]
    cases rm <;> decide
  · rw [hauth] at hok
    obtain ⟨hv, _, _, _, hv2, hle⟩ := authorize_ok hok
    exact ⟨hv, hv2, hle⟩

/-- Handlers that declare NotFound, NotSupported or a value outside the scale (other than Dynamic) for the
    method class are never invoked, whatever the credentials and the state. -/
theorem never_invoked_when_notFound_notSupported_or_invalid (st : St) (r : Req) (hd : Handler) (rm : Bool)
    (hroute : r.route = .matched (some hd)) (hm : effectiveMethod r.method r.acrm = some rm)
    (hreq : requiredPermission (some hd) rm = notFound ∨ requiredPermission (some hd) rm = notSupported ∨
      (requiredPermission (some hd) rm ≠ dynamic ∧ ¬ validPerm (requiredPermission (some hd) rm))) :
    ∀ t, (handle st r).2.out ≠ .invoke t := by
  intro t h
  obtain ⟨_, _, hd', rm', hroute', _, hm', hv, _, _⟩ := handler_runs_only_with_permission st r t h
  rw [hroute] at hroute'
  rw [hm] at hm'
  simp at hroute' hm'
  subst hroute' hm'
  unfold effRequired at hv
  rcases hreq with h1 | h1 | ⟨h1, h2⟩
  · rw [h1] at hv; revert hv; decide
  · rw [h1] at hv; revert hv; decide
  · rw [if_neg h1] at hv; exact h2 hv

/-- Requests without a route, with a route that has no handler, with a method outside both classes, or
    with OPTIONS lacking the preflight header never reach a handler. -/
theorem never_invoked_without_handler_or_class (st : St) (r : Req)
    (hbad : r.route = .noMatch ∨ r.route = .methodMismatch ∨ r.route = .matched none ∨
      effectiveMethod r.method r.acrm = none) :
    ∀ t, (handle st r).2.out ≠ .invoke t := by
  intro t h
  obtain ⟨_, _, hd, rm, hroute, _, hm, _⟩ := handler_runs_only_with_permission st r t h
  rcases hbad with hb | hb | hb | hb
  · rw [hb] at hroute; simp at hroute
  · rw [hb] at hroute; simp at hroute
  · rw [hb] at hroute; simp at hroute
  · rw [hb] at hm; simp at hm

/-- The token the handler sees is the anonymous token for public (Anyone) handlers, and otherwise exactly
    the token `checkAuth` produced for the request (the anonymous token if it produced none). -/
theorem token_seen_is_granted_token (st : St) (r : Req) (t : Token)
    (h : (handle st r).2.out = .invoke t) :
    ∃ hd rm, r.route = .matched (some hd) ∧ effectiveMethod r.method r.acrm = some rm ∧
      ((requiredPermission (some hd) rm = permitAnyone ∧ t = anon ∧ (handle st r).1 = st ∧
          (handle st r).2.authCalled = false ∧ (handle st r).2.newSession = none) ∨
       (requiredPermission (some hd) rm ≠ permitAnyone ∧
          ∃ t?, (checkAuth st r (decide (effRequired (requiredPermission (some hd) rm) > permitAnyone))).out = .token t? ∧
            t = t?.getD anon)) := by
  obtain ⟨_, _, hh, rm, hroute, hm, hserve⟩ := handle_invoke h
  rw [hserve] at h ⊢
  obtain ⟨hdl, rfl, _, hok, _, hst, hac, hns⟩ := serve_invoke h
  refine ⟨hdl, rm, hroute, hm, ?_⟩
  rcases authenticateRequest_ok hok with ⟨hreq, rfl, heq⟩ | ⟨hne, _, _, hauth⟩
  · left
    rw [hst, hac, hns, heq]
    exact ⟨hreq, rfl, rfl, rfl, rfl⟩
  · right
    rw [hauth] at hok
    obtain ⟨_, t?, hca, ht, _⟩ := authorize_ok hok
    exact ⟨hne, t?, hca, ht⟩

/-! ### Refusals -/

/-- Every answer that is not an invocation is one of 200, 301, 401, 403, 404, 405, 500, 503, and the
    non-refusal codes have exactly one cause each: 200 only for a CORS preflight to a route with a
    handler, 301 only for an unclean path, 503 only for a handler whose module is not ready (after the
    request passed authentication). -/
theorem status_classification (st : St) (r : Req) (n : Nat) (h : (handle st r).2.out = .status n) :
    n = 401 ∨ n = 403 ∨ n = 404 ∨ n = 405 ∨ n = 500 ∨
    (n = 200 ∧ isPreflight r = true ∧ ∃ hd, r.route = .matched (some hd)) ∨
    (n = 301 ∧ r.pathDirty = true) ∨
    (n = 503 ∧ ∃ hd, r.route = .matched (some hd) ∧ hd.moduleReady = false) := by
  unfold handle at h
  simp only [] at h
  by_cases ho : originRefused st r = true
  · rw [if_pos ho] at h; simp at h; omega
  rw [if_neg ho] at h
  by_cases hd : r.pathDirty = true
  · rw [if_pos hd] at h; simp at h
    right; right; right; right; right; right; left; exact ⟨h.symm, hd⟩
  rw [if_neg hd] at h
  cases hroute : r.route with
  | methodMismatch => rw [hroute] at h; simp at h; omega
  | noMatch => rw [hroute] at h; simp at h; omega
  | matched hh =>
    rw [hroute] at h
    simp only [] at h
    cases hm : effectiveMethod r.method r.acrm with
    | none => rw [hm] at h; simp at h; omega
    | some rm =>
      rw [hm] at h
      simp only [] at h
      rcases serve_status h with ⟨h1, h2, h3⟩ | he | ⟨h1, _⟩ | ⟨h1, hdl, _, h2, h3, _⟩
      · right; right; right; right; right; left
        cases hh with
        | none => simp at h3
        | some hdl => exact ⟨h1, h2, hdl, rfl⟩
      · rcases authenticateRequest_err he with e | e | e | e | e <;> omega
      · omega
      · right; right; right; right; right; right; right
        subst h2
        exact ⟨h1, hdl, rfl, h3⟩

/-- A request that reaches authentication and is refused there (for lack of permission, an unknown or
    unsupported operation, or a failing authenticator) is answered 401, 403, 404, 405 or 500 — and the
    handler is not invoked. -/
theorem refusal_statuses (st : St) (r : Req) (h : Option Handler) (rm : Bool) (n : Nat)
    (hroute : r.route = .matched h) (hm : effectiveMethod r.method r.acrm = some rm)
    (ho : originRefused st r = false) (hd : r.pathDirty = false) (hp : (isPreflight r && h.isSome) = false)
    (href : (authenticateRequest st r h rm).out = .error n) :
    (handle st r).2.out = .status n ∧ (n = 401 ∨ n = 403 ∨ n = 404 ∨ n = 405 ∨ n = 500) := by
  refine ⟨?_, authenticateRequest_err href⟩
  unfold handle
  simp only [ho, hd, hroute, hm]
  unfold serve
  simp [hp, href]

/-- 401 is reserved for strictly anonymous requests, 403 for identified but insufficient ones:
    what `authenticateRequest` answers once `checkAuth` produced a token (or none). -/
theorem insufficient_permission_is_401_or_403 (st : St) (r : Req) (req : Int) (rm : Bool) (t? : Option Token)
    (hreq : validPerm req)
    (hca : (checkAuth st r (decide (req > permitAnyone))).out = .token t?)
    (hvalid : validPerm ((t?.getD anon).perm rm)) (hlow : (t?.getD anon).perm rm < req) :
    (authorize st r req rm).out =
      .error (if (t?.getD anon).read = permitAnyone ∧ (t?.getD anon).write = permitAnyone then 401 else 403) := by
  unfold validPerm at hreq hvalid
  unfold authorize
  rw [if_neg (by omega)]
  simp only [hca]
  unfold judge
  simp only []
  rw [if_neg (by omega), if_pos hlow]
  split <;> rfl

/-- Completeness (so that the safety theorems are not vacuous): a request that passes the pre-checks,
    whose handler declares a valid requirement and whose credentials yield a valid, sufficient
    permission IS served by the handler with exactly that token. -/
theorem sufficient_permission_is_invoked (st : St) (r : Req) (hdl : Handler) (rm : Bool) (t? : Option Token)
    (hroute : r.route = .matched (some hdl)) (hm : effectiveMethod r.method r.acrm = some rm)
    (ho : originRefused st r = false) (hd : r.pathDirty = false) (hp : isPreflight r = false)
    (hready : hdl.moduleReady = true)
    (hne : requiredPermission (some hdl) rm ≠ permitAnyone)
    (hreq : validPerm (effRequired (requiredPermission (some hdl) rm)))
    (hca : (checkAuth st r (decide (effRequired (requiredPermission (some hdl) rm) > permitAnyone))).out = .token t?)
    (hvalid : validPerm ((t?.getD anon).perm rm))
    (hsuff : effRequired (requiredPermission (some hdl) rm) ≤ (t?.getD anon).perm rm) :
    (handle st r).2.out = .invoke (t?.getD anon) := by
  have hnf : requiredPermission (some hdl) rm ≠ notFound := by
    intro hc; rw [hc] at hreq; revert hreq; decide
  have hns : requiredPermission (some hdl) rm ≠ notSupported := by
    intro hc; rw [hc] at hreq; revert hreq; decide
  have hauth : (authenticateRequest st r (some hdl) rm).out = .ok (t?.getD anon) := by
    unfold authenticateRequest
    simp only [hnf, hns, hne, if_false]
    unfold authorize
    have hv := hreq
    unfold validPerm effRequired at hv
    unfold effRequired at hca hsuff
    rw [if_neg (by omega)]
    simp only [hca]
    exact judge_pass _ _ _ _ hvalid hsuff
  unfold handle
  simp only [ho, hd, hroute, hm]
  unfold serve
  simp [hp, hauth, hready]

/-- Public handlers (Anyone) are served for every request that passes the pre-checks, with the anonymous token. -/
theorem public_handler_is_invoked_anonymously (st : St) (r : Req) (hdl : Handler) (rm : Bool)
    (hroute : r.route = .matched (some hdl)) (hm : effectiveMethod r.method r.acrm = some rm)
    (ho : originRefused st r = false) (hd : r.pathDirty = false) (hp : isPreflight r = false)
    (hready : hdl.moduleReady = true) (hreq : requiredPermission (some hdl) rm = permitAnyone) :
    handle st r = (st, { out := .invoke anon, cors := r.origin != .absent }) := by
  have e1 : permitAnyone ≠ notFound := by decide
  have e2 : permitAnyone ≠ notSupported := by decide
  unfold handle
  simp only [ho, hd, hroute, hm]
  unfold serve authenticateRequest
  simp [hp, hreq, hready, e1, e2]

/-! ### What each credential source grants (`checkAuth`), in priority order -/

/-- Development mode grants Self for reading and writing, before anything else is looked at. -/
theorem devmode_grants_self (st : St) (r : Req) (ar : Bool) (hdev : st.dev = true) :
    checkAuth st r ar = ⟨st, .token (some ⟨permitSelf, permitSelf⟩), false, none⟩ := by
  simp [checkAuth, hdev]

/-- The internal database bridge is granted Admin. -/
theorem bridge_grants_admin (st : St) (r : Req) (ar : Bool) (hdev : st.dev = false) (hb : r.bridge = true) :
    checkAuth st r ar = ⟨st, .token (some ⟨permitAdmin, permitAdmin⟩), false, none⟩ := by
  have : bridgePerm = permitAdmin := by decide
  simp [checkAuth, hdev, hb, this]

/-- A configured, unexpired API key — presented as Bearer token or as user++password of Basic auth —
    grants exactly the token configured for it; neither the authenticator nor the sessions are touched. -/
theorem valid_api_key_grants_its_token (st : St) (r : Req) (ar : Bool) (k : Bytes) (kt : KeyToken)
    (hdev : st.dev = false) (hb : r.bridge = false)
    (hk : presentedKey r = some k) (hl : st.keys.lookup k = some kt)
    (hexp : ∀ u, kt.validUntil = some u → st.now ≤ u) :
    checkAuth st r ar = ⟨st, .token (some kt.tok), false, none⟩ := by
  have hc : checkAPIKey st r = some kt.tok := by
    unfold checkAPIKey
    simp only [hk, hl]
    cases hv : kt.validUntil with
    | none => rfl
    | some u =>
      have := hexp u hv
      simp only []
      rw [if_neg (by omega)]
  simp [checkAuth, hdev, hb, hc]

/-- How the key is taken from the Authorization header: `Bearer <key>`, or `Basic …` (then the key is
    user++password as decoded by net/http); every other header presents no key. -/
theorem presented_key_cases (r : Req) :
    (r.authorization = [] → presentedKey r = none) ∧
    (∀ key, r.authorization = bearerPrefix ++ key → presentedKey r = some key) ∧
    (r.authorization ≠ [] → bearerPrefix.isPrefixOf r.authorization = false →
      basicPrefix.isPrefixOf r.authorization = true → presentedKey r = some r.basic) ∧
    (bearerPrefix.isPrefixOf r.authorization = false → basicPrefix.isPrefixOf r.authorization = false →
      presentedKey r = none) := by
  refine ⟨?_, ?_, ?_, ?_⟩
  · intro h; simp [presentedKey, h]
  · intro key h
    have hne : bearerPrefix ++ key ≠ [] := by simp [bearerPrefix]
    simp [presentedKey, h, hne]
  · intro h1 h2 h3; simp [presentedKey, h1, h2, h3]
  · intro h2 h3
    unfold presentedKey
    split
    · rfl
    · simp [h2, h3]

/-- A live session cookie grants the token stored with the session and slides the expiry to now + TTL;
    the authenticator is not consulted. -/
theorem live_session_grants_its_token (st : St) (r : Req) (ar : Bool) (id : Nat) (s : Session)
    (hdev : st.dev = false) (hb : r.bridge = false) (hk : checkAPIKey st r = none)
    (hc : r.cookie = some id) (hf : findSession st.sessions id = some s) (hlive : st.now ≤ s.validUntil) :
    checkAuth st r ar =
      ⟨{ st with sessions := refreshSession st.sessions id (st.now + sessionTTL) }, .token (some s.tok), false, none⟩ := by
  have hcs : checkSessionCookie st r =
      ({ st with sessions := refreshSession st.sessions id (st.now + sessionTTL) }, some s.tok) := by
    rw [checkSessionCookie_eq]
    simp only [hc, hf]
    rw [if_neg (by omega)]
  simp [checkAuth, hdev, hb, hk, hcs]

/-- Unknown, expired, malformed (no supported scheme) or absent credentials: what `checkAPIKey` and
    `checkSessionCookie` make of them. Short keys are not special: any key that is not in the map is unknown. -/
theorem bad_key_or_cookie_is_ignored (st : St) (r : Req) :
    ((presentedKey r = none ∨ (∃ k, presentedKey r = some k ∧ st.keys.lookup k = none) ∨
      (∃ k kt u, presentedKey r = some k ∧ st.keys.lookup k = some kt ∧ kt.validUntil = some u ∧ st.now > u)) →
      checkAPIKey st r = none) ∧
    ((r.cookie = none ∨ (∃ id, r.cookie = some id ∧ findSession st.sessions id = none) ∨
      (∃ id s, r.cookie = some id ∧ findSession st.sessions id = some s ∧ st.now > s.validUntil)) →
      checkSessionCookie st r = (st, none)) := by
  constructor
  · rintro (h | ⟨k, h1, h2⟩ | ⟨k, kt, u, h1, h2, h3, h4⟩)
    · simp [checkAPIKey, h]
    · simp [checkAPIKey, h1, h2]
    · simp [checkAPIKey, h1, h2, h3, h4]
  · rintro (h | ⟨id, h1, h2⟩ | ⟨id, s, h1, h2, h3⟩)
    · simp [checkSessionCookie_eq, h]
    · simp [checkSessionCookie_eq, h1, h2]
    · simp [checkSessionCookie_eq, h1, h2, h3]

/-- With no usable key and no live session the registered authenticator decides: its token is used and a
    session is created for it; nil means anonymous; an internal failure aborts with 500; a denial aborts
    with 403 exactly when the handler requires more than Anyone. Without a registered authenticator the
    request is anonymous. -/
theorem authenticator_decides (st : St) (r : Req) (ar : Bool)
    (hdev : st.dev = false) (hb : r.bridge = false) (hk : checkAPIKey st r = none)
    (hc : checkSessionCookie st r = (st, none)) :
    (st.authSet = false → checkAuth st r ar = ⟨st, .token none, false, none⟩) ∧
    (st.authSet = true → ∀ t, r.auth = .token t →
      checkAuth st r ar = ⟨createSession st t, .token (some t), true, some st.nextId⟩) ∧
    (st.authSet = true → r.auth = .nilToken → checkAuth st r ar = ⟨st, .token none, true, none⟩) ∧
    (st.authSet = true → r.auth = .failed → checkAuth st r ar = ⟨st, .handled 500, true, none⟩) ∧
    (st.authSet = true → r.auth = .denied →
      checkAuth st r ar = if ar then ⟨st, .handled 403, true, none⟩ else ⟨st, .token none, true, none⟩) := by
  refine ⟨?_, ?_, ?_, ?_, ?_⟩
  · intro h; simp [checkAuth, hdev, hb, hk, hc, h]
  · intro h t ht; simp [checkAuth, hdev, hb, hk, hc, h, ht]
  · intro h ht; simp [checkAuth, hdev, hb, hk, hc, h, ht]
  · intro h ht; simp [checkAuth, hdev, hb, hk, hc, h, ht]
  · intro h ht; cases ar <;> simp [checkAuth, hdev, hb, hk, hc, h, ht]

/-- Bad credentials grant nothing beyond anonymous access: if no key is usable, no session is live and
    the authenticator yields no token, a handler is invoked only if it is public or Dynamic, it sees the
    anonymous token, no session is created and the state is unchanged. -/
theorem bad_credentials_are_anonymous (st : St) (r : Req) (t : Token)
    (hdev : st.dev = false) (hb : r.bridge = false) (hk : checkAPIKey st r = none)
    (hc : checkSessionCookie st r = (st, none))
    (hau : st.authSet = false ∨ r.auth = .nilToken ∨ r.auth = .denied)
    (h : (handle st r).2.out = .invoke t) :
    t = anon ∧ (handle st r).1 = st ∧ (handle st r).2.newSession = none ∧
    ∃ hd rm, r.route = .matched (some hd) ∧ effectiveMethod r.method r.acrm = some rm ∧
      (requiredPermission (some hd) rm = permitAnyone ∨ requiredPermission (some hd) rm = dynamic) := by
  have hca : ∀ ar, (checkAuth st r ar).st = st ∧ (checkAuth st r ar).newSession = none ∧
      ((checkAuth st r ar).out = .token none ∨ ∃ n, (checkAuth st r ar).out = .handled n) := by
    intro ar
    obtain ⟨a1, _, a3, _, a5⟩ := authenticator_decides st r ar hdev hb hk hc
    cases hs : st.authSet with
    | false => rw [a1 hs]; simp
    | true =>
      rcases hau with h1 | h1 | h1
      · rw [hs] at h1; simp at h1
      · rw [a3 hs h1]; simp
      · rw [a5 hs h1]; cases ar <;> simp
  obtain ⟨_, _, hd, rm, hroute, _, hm, hv1, _, hle⟩ := handler_runs_only_with_permission st r t h
  obtain ⟨hd', rm', hroute', hm', hcase⟩ := token_seen_is_granted_token st r t h
  rw [hroute] at hroute'; rw [hm] at hm'
  simp at hroute' hm'
  subst hroute' hm'
  rcases hcase with ⟨hreq, rfl, hst, _, hns⟩ | ⟨hne, t?, hout, ht⟩
  · exact ⟨rfl, hst, hns, hd, rm, hroute, hm, Or.inl hreq⟩
  · obtain ⟨c1, c2, c3⟩ := hca (decide (effRequired (requiredPermission (some hd) rm) > permitAnyone))
    have htn : t? = none := by
      rcases c3 with c3 | ⟨n, c3⟩
      · rw [c3] at hout; simpa using hout.symm
      · rw [c3] at hout; simp at hout
    subst htn
    simp at ht
    subst ht
    have hreqcase : requiredPermission (some hd) rm = permitAnyone ∨ requiredPermission (some hd) rm = dynamic := by
      have hp : anon.perm rm = permitAnyone := by cases rm <;> rfl
      rw [hp] at hle
      unfold effRequired at hle hv1
      unfold validPerm at hv1
      by_cases hdyn : requiredPermission (some hd) rm = dynamic
      · right; exact hdyn
      · left; rw [if_neg hdyn] at hle hv1; omega
    rcases handle_frame st r with hf | ⟨_, ar, hf1, _, hf3⟩
    · exact ⟨rfl, hf.1, hf.2.2, hd, rm, hroute, hm, hreqcase⟩
    · obtain ⟨d1, d2, _⟩ := hca ar
      exact ⟨rfl, hf1.trans d1, hf3.trans d2, hd, rm, hroute, hm, hreqcase⟩

/-! ### Cross-origin requests -/

/-- When the origin check refuses. -/
theorem origin_refused_iff (st : St) (r : Req) :
    originRefused st r = true ↔
      r.origin = .unparsable ∨
      ∃ o, r.origin = .parsed o ∧ o.host ≠ r.host ∧ o.hostname ≠ r.host ∧ o.scheme ∉ extensionSchemes ∧
        ¬ (st.dev = true ∧ o.hostname ∈ devOrigins) := by
  unfold originRefused
  cases ho : r.origin with
  | absent => simp
  | unparsable => simp
  | parsed o =>
    simp only [originAllowed]
    constructor
    · intro h
      right
      refine ⟨o, rfl, ?_⟩
      simp at h
      obtain ⟨⟨⟨h1, h2⟩, h3⟩, h4⟩ := h
      refine ⟨h1, h2, h3, ?_⟩
      intro ⟨hd, hm⟩
      rcases h4 with h4 | h4
      · rw [hd] at h4; simp at h4
      · exact h4 hm
    · rintro (h | ⟨o', ho', h1, h2, h3, h4⟩)
      · simp at h
      · simp at ho'
        subst ho'
        simp [h1, h2, h3]
        by_cases hd : st.dev = true
        · right; intro hm; exact h4 ⟨hd, hm⟩
        · left; simpa using hd

/-- A request whose Origin does not parse, or matches neither the Host (with or without port) nor an
    exception, is answered 403 before anything else happens: the state is untouched (no session is
    refreshed or created), the authenticator is not called, no handler runs, no CORS headers are sent. -/
theorem cross_origin_refused_first (st : St) (r : Req) (h : originRefused st r = true) :
    handle st r = (st, { out := .status 403, authCalled := false, newSession := none, cors := false, wwwAuth := false }) := by
  unfold handle
  simp [h]

/-! ### Histories of key configuration changes and session creation / expiry / reset -/

/-- In every state reachable by any history, every key in the map is the parse of an entry of the
    *current* value of the `core/apiKeys` option: same path, its read/write names, its expiry. -/
theorem api_keys_reflect_current_config (h : List Event) (k : Bytes) (kt : KeyToken)
    (hl : (run St.init h).keys.lookup k = some kt) :
    ∃ e ∈ (run St.init h).cfg, e.parseOk = true ∧ e.path = k ∧ k ≠ [] ∧
      parseAPIPermission e.read = some kt.tok.read ∧ parseAPIPermission e.write = some kt.tok.write ∧
      ((e.expires = .absent ∧ kt.validUntil = none) ∨ (∃ t, e.expires = .at t ∧ kt.validUntil = some t)) := by
  have hinv : KeysInv (run St.init h) := KeysInv_run h St.init (by intro k kt hl; simp [St.init] at hl)
  obtain ⟨e, he, n, hp⟩ := hinv k kt hl
  obtain ⟨p1, p2, p3, p4, p5, p6⟩ := parseKey_ok hp
  refine ⟨e, he, p1, p2, p3, p4, p5, ?_⟩
  rcases p6 with p6 | ⟨t, p6, p7, _⟩
  · exact Or.inl p6
  · exact Or.inr ⟨t, p6, p7⟩

/-- An API key never grants more than Admin (and never an invalid permission), after any history. -/
theorem api_key_grants_at_most_admin (h : List Event) (r : Req) (t : Token)
    (hc : checkAPIKey (run St.init h) r = some t) :
    (t.read = permitAnyone ∨ t.read = permitUser ∨ t.read = permitAdmin) ∧
    (t.write = permitAnyone ∨ t.write = permitUser ∨ t.write = permitAdmin) := by
  obtain ⟨k, kt, _, hl, rfl, _⟩ := checkAPIKey_some hc
  obtain ⟨e, _, _, _, _, hr, hw, _⟩ := api_keys_reflect_current_config h k kt hl
  exact ⟨parseAPIPermission_range hr, parseAPIPermission_range hw⟩

/-- Configuration reaches the key map: after the option is set, the last entry that imports a key `k`
    (parses, non-empty path, valid permission names, not expired at that instant) determines the token of
    `k` — together with `valid_api_key_grants_its_token`, presenting `k` then grants exactly that token. -/
theorem configured_key_is_imported (st : St) (pre post : List KeyEntry) (e : KeyEntry) (k : Bytes) (kt : KeyToken)
    (he : parseKey st.now e = .ok k kt)
    (hpost : ∀ e' ∈ post, ∀ kt', parseKey st.now e' ≠ .ok k kt') :
    (step st (.setKeys (pre ++ e :: post))).keys.lookup k = some kt :=
  updateAPIKeys_last_wins { st with cfg := pre ++ e :: post } pre post e k kt rfl he hpost

/-- What makes an entry importable, and with which token. -/
theorem key_entry_import (now : Nat) (e : KeyEntry) (rp wp : Int)
    (hp : e.parseOk = true) (hpath : e.path ≠ [])
    (hr : parseAPIPermission e.read = some rp) (hw : parseAPIPermission e.write = some wp) :
    (e.expires = .absent → parseKey now e = .ok e.path ⟨⟨rp, wp⟩, none⟩) ∧
    (e.expires = .bad → parseKey now e = .skip) ∧
    (∀ t, e.expires = .at t → parseKey now e = if now > t then .expired else .ok e.path ⟨⟨rp, wp⟩, some t⟩) := by
  refine ⟨?_, ?_, ?_⟩
  · intro hx; simp [parseKey, hp, hpath, hr, hw, hx]
  · intro hx; simp [parseKey, hp, hpath, hr, hw, hx]
  · intro t hx; simp [parseKey, hp, hpath, hr, hw, hx]

/-- Revocation: once the option is set to a value that has no entry for a key, that key grants nothing —
    from any prior state and through any later history that does not set the option again. -/
theorem revoked_key_grants_nothing (st : St) (cfg : List KeyEntry) (h' : List Event) (r : Req) (k : Bytes)
    (hh : ∀ e ∈ h', e.isSetKeys = false) (hk : presentedKey r = some k) (hrev : ∀ e ∈ cfg, e.path ≠ k) :
    checkAPIKey (run (step st (.setKeys cfg)) h') r = none := by
  cases hc : checkAPIKey (run (step st (.setKeys cfg)) h') r with
  | none => rfl
  | some t =>
    exfalso
    obtain ⟨k', kt, hk', hl, _, _⟩ := checkAPIKey_some hc
    rw [hk] at hk'; simp at hk'; subst hk'
    have hinv : KeysInv (run (step st (.setKeys cfg)) h') :=
      KeysInv_run h' _ (updateAPIKeys_inv { st with cfg := cfg })
    obtain ⟨e, he, n, hp⟩ := hinv k kt hl
    have hsub := cfg_run_subset h' (step st (.setKeys cfg)) hh e he
    have hsub2 := updateAPIKeys_cfg_subset { st with cfg := cfg } e hsub
    exact hrev e hsub2 (parseKey_ok hp).2.1

/-- Every session that exists after a history was created for a token the authenticator returned to some
    request of that history, its id has been handed out, and it expires at most one TTL after the
    current instant (so a session that is not used for one TTL is dead). -/
theorem sessions_come_from_authenticator_and_expire (h : List Event) (s : Session)
    (hs : s ∈ (run St.init h).sessions) :
    (∃ r, Event.request r ∈ h ∧ r.auth = .token s.tok) ∧ s.id < (run St.init h).nextId ∧
    s.validUntil ≤ (run St.init h).now + sessionTTL := by
  have := SessInv_run (P := fun t => ∃ r, Event.request r ∈ h ∧ r.auth = .token t) h St.init
    (by intro s hs; simp [St.init] at hs) (fun r hr t ht => ⟨r, hr, ht⟩)
  exact this s hs

/-- What a session cookie grants after any history is a token the authenticator returned earlier. -/
theorem session_cookie_grants_an_authenticator_token (h : List Event) (r : Req) (st' : St) (t : Token)
    (hc : checkSessionCookie (run St.init h) r = (st', some t)) :
    ∃ r0, Event.request r0 ∈ h ∧ r0.auth = .token t := by
  obtain ⟨id, s, _, hf, _, ht, _⟩ := checkSessionCookie_some hc
  have hmem : s ∈ (run St.init h).sessions := by
    unfold findSession at hf
    exact List.mem_of_find?_eq_some hf
  subst ht
  exact (sessions_come_from_authenticator_and_expire h s hmem).1

/-- Reset (auth/reset) and expiry are final, one step: a deleted session id is unknown afterwards, and an
    expired session grants nothing and is not refreshed (the state is returned untouched, so the next
    presentation finds it expired again). The form over whole histories with repeated presentations is
    `dead_session_stays_dead` / `expired_or_reset_session_never_grants_again` below. -/
theorem logout_and_expiry_are_final (st : St) (r : Req) (id : Nat) (hc : r.cookie = some id) :
    checkSessionCookie (deleteSession st id) r = (deleteSession st id, none) ∧
    (∀ s, findSession st.sessions id = some s → st.now > s.validUntil → checkSessionCookie st r = (st, none)) := by
  constructor
  · have : findSession (deleteSession st id).sessions id = none := by
      unfold findSession deleteSession
      simp [List.find?_eq_none]
    simp [checkSessionCookie_eq, hc, this]
  · intro s hf hexp
    simp [checkSessionCookie_eq, hc, hf, hexp]

/-- The session part of the model is the source as written (regenerated on every run by
    `harness/cmd/extract/api.go`, which fails closed on any other shape): `checkSessionCookie`, once the
    session is found, is `if sess.Expired() { return nil }; sess.Refresh(sessionCookieTTL); return sess.token`
    — the refresh is reached on the valid path only — and `Expired` is `time.Now().After(validUntil)`,
    so a session is still live at the expiry instant itself and dead strictly after it. -/
theorem session_steps_as_written :
    checkSessionCookieSteps = [.refuseIfExpired, .refresh, .grant] ∧ sessionExpiredStrict = true ∧
    (∀ now s, sessionExpired now s = true ↔ now > s.validUntil) := by
  refine ⟨by decide, by decide, sessionExpired_iff⟩

/-- The key import is one critical section of `apiKeysLock` (regenerated from the source on every run):
    `updateAPIKeys` takes the lock first and holds it to its end, and only then empties the map, reads
    the `core/apiKeys` option and stores the parsed keys; `checkAPIKey` looks keys up under the same lock
    (checked by the extractor). So overlapping imports — every config change event runs the hook in its
    own goroutine — are serialised in the order of their configuration reads, no request sees a half-built
    map, and the model's atomic `updateAPIKeys` step (`api_keys_reflect_current_config`,
    `revoked_key_grants_nothing`) is the code: the import that reads the option last also installs last. -/
theorem key_import_is_one_critical_section :
    updateAPIKeysOrder = [.lock, .clear, .readConfig, .install] := by decide

/-- Two configuration changes in a row (in particular two whose imports overlap, see above): what the
    key map holds afterwards is the import of the second value alone — nothing of the first value
    survives unless the second value configures it too. -/
theorem later_config_wins (st : St) (cfgA cfgB : List KeyEntry) (k : Bytes) (kt : KeyToken)
    (hl : (step (step st (.setKeys cfgA)) (.setKeys cfgB)).keys.lookup k = some kt) :
    ∃ e ∈ cfgB, ∃ n, parseKey n e = .ok k kt := by
  have hinv : KeysInv (step (step st (.setKeys cfgA)) (.setKeys cfgB)) := updateAPIKeys_inv _
  obtain ⟨e, he, n, hp⟩ := hinv k kt hl
  have hsub := updateAPIKeys_cfg_subset { step st (.setKeys cfgA) with cfg := cfgB } e he
  exact ⟨e, hsub, n, hp⟩

/-- How a session dies (`SessionDead st id`: the id has been handed out and the session map holds no live
    session under it): by auth/reset; by being unknown to the map although the id was handed out (reset or
    cleaned earlier); or — in every state reachable from the initial one, where ids are unique — by being
    found expired, whether or not the cleaner has run since. -/
theorem how_sessions_die :
    (∀ st id, id < st.nextId → SessionDead (deleteSession st id) id) ∧
    (∀ st id, id < st.nextId → findSession st.sessions id = none → SessionDead st id) ∧
    (∀ (h : List Event) id s, findSession (run St.init h).sessions id = some s →
      (run St.init h).now > s.validUntil → SessionDead (run St.init h) id) ∧
    (∀ st id, SessionDead st id → SessionDead (cleanSessions st) id) := by
  refine ⟨?_, ?_, ?_, ?_⟩
  · intro st id hid
    refine ⟨hid, ?_⟩
    intro s hs he
    simp [deleteSession] at hs
    exact absurd he hs.2
  · intro st id hid hf
    exact ⟨hid, fun s hs he => absurd he (findSession_none hf s hs)⟩
  · intro h id s hf hexp
    have hd := DistinctIds_run h St.init DistinctIds_init
    have hmem : s ∈ (run St.init h).sessions := by
      unfold findSession at hf
      exact List.mem_of_find?_eq_some hf
    have hsid := findSession_id hf
    refine ⟨by rw [← hsid]; exact hd.2 s hmem, ?_⟩
    intro s' hs' he
    have : s' = s := pairwise_ids_unique hd.1 s' hs' s hmem (by rw [he, hsid])
    rw [this]; exact hexp
  · intro st id hd
    exact SessionDead_step .clean hd

/-- Expiry and reset are final along every history: once a session is dead it stays dead through any
    sequence of later events — requests presenting its cookie (any number of times, with any other
    credentials, to any handler), other requests, session creations, the cleaner, resets, clock advances,
    configuration changes. In particular no request re-arms it. -/
theorem dead_session_stays_dead (st : St) (id : Nat) (hd : SessionDead st id) (h' : List Event) :
    SessionDead (run st h') id :=
  SessionDead_run h' st hd

/-- … and after any such history its cookie is treated like an unknown one: it grants nothing and the
    state is left untouched (nothing is refreshed). -/
theorem dead_session_cookie_is_ignored (st : St) (id : Nat) (hd : SessionDead st id) (h' : List Event)
    (r : Req) (hc : r.cookie = some id) :
    checkSessionCookie (run st h') r = (run st h', none) :=
  SessionDead_cookie (SessionDead_run h' st hd) r hc

/-- A session that was once observed expired, reset or cleaned never grants again. For every history `h`
    from the initial state after which the session `id` is found expired (`now > validUntil`), or is
    unknown although its id was handed out, every continuation `h'` (which may present the cookie again
    and again) and every later request `r` carrying that cookie: the cookie grants nothing and refreshes
    nothing; and if the request carries no other usable credential, a handler runs only if it is public
    or Dynamic, sees the anonymous token, and the state is unchanged. -/
theorem expired_or_reset_session_never_grants_again (h h' : List Event) (id : Nat) (r : Req) (t : Token)
    (hobs : (∃ s, findSession (run St.init h).sessions id = some s ∧ (run St.init h).now > s.validUntil) ∨
      (id < (run St.init h).nextId ∧ findSession (run St.init h).sessions id = none))
    (hc : r.cookie = some id) :
    checkSessionCookie (run St.init (h ++ h')) r = (run St.init (h ++ h'), none) ∧
    ((run St.init (h ++ h')).dev = false → r.bridge = false → checkAPIKey (run St.init (h ++ h')) r = none →
      ((run St.init (h ++ h')).authSet = false ∨ r.auth = .nilToken ∨ r.auth = .denied) →
      (handle (run St.init (h ++ h')) r).2.out = .invoke t →
      t = anon ∧ (handle (run St.init (h ++ h')) r).1 = run St.init (h ++ h') ∧
      ∃ hd rm, r.route = .matched (some hd) ∧ effectiveMethod r.method r.acrm = some rm ∧
        (requiredPermission (some hd) rm = permitAnyone ∨ requiredPermission (some hd) rm = dynamic)) := by
  have hdead : SessionDead (run St.init h) id := by
    rcases hobs with ⟨s, hf, hexp⟩ | ⟨hid, hf⟩
    · exact how_sessions_die.2.2.1 h id s hf hexp
    · exact how_sessions_die.2.1 _ id hid hf
  have hck := dead_session_cookie_is_ignored (run St.init h) id hdead h' r hc
  rw [← run_append] at hck
  refine ⟨hck, ?_⟩
  intro hdev hb hk hau hinv
  obtain ⟨a1, a2, _, a4⟩ := bad_credentials_are_anonymous _ r t hdev hb hk hck hau hinv
  exact ⟨a1, a2, a4⟩

/-! ### Non-vacuity: concrete requests through the whole decision procedure -/

section Examples

private def mGET : Bytes := [71, 69, 84]
private def mPOST : Bytes := [80, 79, 83, 84]
private def hUserAdmin : Handler := ⟨some (permitUser, permitAdmin), true⟩
private def base : Req :=
  ⟨mGET, [], .absent, [99], false, .matched (some hUserAdmin), false, [], [], none, .nilToken⟩
private def stAuth : St := { St.init with authSet := true }
private def keyEntry : KeyEntry := ⟨true, [107, 101, 121, 49], [117, 115, 101, 114], [], .at 100⟩
private def stKey : St := step stAuth (.setKeys [keyEntry])
private def bearer (k : Bytes) : Bytes := bearerPrefix ++ k

-- the authenticator grants User/User: reading is served, writing (Admin required) is refused with 403
example : (handle stAuth { base with auth := .token ⟨permitUser, permitUser⟩ }).2.out = .invoke ⟨permitUser, permitUser⟩ := by decide
example : (handle stAuth { base with method := mPOST, auth := .token ⟨permitUser, permitUser⟩ }).2.out = .status 403 := by decide
-- anonymous: 401
example : (handle stAuth base).2.out = .status 401 := by decide
-- a configured key "key1" (read=user) as Bearer token; unknown and too-short keys; the key after its expiry
example : stKey.keys.length = 1 := by decide
example : (handle stKey { base with authorization := bearer [107, 101, 121, 49] }).2.out = .invoke ⟨permitUser, permitAnyone⟩ := by decide
example : (handle stKey { base with authorization := bearer [107, 101, 121] }).2.out = .status 401 := by decide
example : (handle stKey { base with authorization := bearer [] }).2.out = .status 401 := by decide
example : (handle (step stKey (.advance 101)) { base with authorization := bearer [107, 101, 121, 49] }).2.out = .status 401 := by decide
-- a session: created by the authenticator, used, expired after 301 s without use
example : (handle (handle stAuth { base with auth := .token ⟨permitAdmin, permitAdmin⟩ }).1 { base with cookie := some 0 }).2.out
    = .invoke ⟨permitAdmin, permitAdmin⟩ := by decide
example : (handle (step (handle stAuth { base with auth := .token ⟨permitAdmin, permitAdmin⟩ }).1 (.advance 301)) { base with cookie := some 0 }).2.out
    = .status 401 := by decide
-- an expired session presented again and again (also through a write handler, with the cleaner or other
-- requests in between): refused every time, never re-armed; the hypotheses of the finality theorems hold
private def stSess : St := (handle stAuth { base with auth := .token ⟨permitAdmin, permitAdmin⟩ }).1
private def stExpired : St := step stSess (.advance 301)
private def pres : Req := { base with cookie := some 0 }
example : findSession stExpired.sessions 0 = some ⟨0, ⟨permitAdmin, permitAdmin⟩, 300⟩ ∧ stExpired.now = 301 := by decide
example : SessionDead stExpired 0 := by decide
example : (handle stExpired pres).2.out = .status 401 ∧ (handle stExpired pres).1.sessions = stExpired.sessions := by decide
example : (handle (handle stExpired pres).1 pres).2.out = .status 401 := by decide
example : (handle (run stExpired [.request pres, .advance 10, .request { pres with method := mPOST }, .request base]) pres).2.out
    = .status 401 := by decide
example : (handle (run stExpired [.request pres, .clean, .request pres]) pres).2.out = .status 401 := by decide
-- exactly at the expiry instant the session is still live (and is slid); a reset session is dead at once
example : (handle (step stSess (.advance 300)) pres).2.out = .invoke ⟨permitAdmin, permitAdmin⟩ := by decide
example : SessionDead (step stSess (.logout 0)) 0 ∧ (handle (step stSess (.logout 0)) pres).2.out = .status 401 := by decide
-- a live session is not dead: the finality theorems are not about it
example : ¬ SessionDead stSess 0 := by decide
-- dev mode and the bridge
example : (handle { stAuth with dev := true } { base with method := mPOST }).2.out = .invoke ⟨permitSelf, permitSelf⟩ := by decide
example : (handle stAuth { base with method := mPOST, bridge := true }).2.out = .invoke ⟨permitAdmin, permitAdmin⟩ := by decide
-- cross-origin: refused; same origin: served
example : (handle { stAuth with dev := true } { base with origin := .parsed ⟨[101], [101], [104]⟩ }).2.out = .status 403 := by decide
example : (handle { stAuth with dev := true } { base with origin := .parsed ⟨[99], [99], [104]⟩ }).2.out = .invoke ⟨permitSelf, permitSelf⟩ := by decide

end Examples

end PB.C12
