import PB.Model.Api
/-
C12 — An API handler runs only for requests holding the permission it requires.
(placeholder while the harness is brought up; the theorems follow)
-/
namespace PB.C12
open PB PB.Api PB.Gen.Api

theorem perm_constants_ordered :
    notFound < dynamic ∧ dynamic < notSupported ∧ notSupported < permitAnyone ∧ permitAnyone < permitUser ∧
    permitUser < permitAdmin ∧ permitAdmin < permitSelf := by decide

end PB.C12
