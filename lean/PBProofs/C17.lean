import PB.Model.FsAtomic
namespace PB.C17
open PB.FsAtomic

theorem placeholder : True := trivial

end PB.C17
