import PB.Model.FsAtomic
import PB.Spec.FsCrash
import PB.Model.FsSerial
import PBProofs.Lemmas.FsInterleave
import PBProofs.Lemmas.FsAtomic
import PBProofs.Lemmas.FsWriters
import PBProofs.Lemmas.FsDownload
/-
C17 — Files are published atomically: old content or new content, never a fragment.

The theorems are about the file-system model `PB.FsAtomic` (volatile view + crash semantics `Crash`) and the
checker `safePublish` that `./check C17` runs on the system-call sequence recorded from every real writer.
-/
namespace PB.C17
open PB.FsAtomic

/-- Soundness of the checker, single file / symlink destination. If `safePublish` accepts a call sequence `t`,
    then at EVERY crash point (after every prefix `p` of `t`):
    * a concurrent reader of `dest` (and a reader after a mere kill of the process) sees `old` or `new`;
    * after a power loss — name space rolled back to that of ANY earlier point of the run, data of every inode
      that was not fsynced after its last modification replaced by ARBITRARY data — a reader of `dest` still
      sees `old` or `new`. -/
theorem safePublish_sound (s0 : FS) (dest : Path) (old new : Obs) (t : List Call)
    (h : safePublish s0 dest old new t = true) (p q : List Call) (hp : t = p ++ q) :
    (vview (run s0 p) dest = old ∨ vview (run s0 p) dest = new) ∧
    ∀ c : Crash s0 p, c.view dest = old ∨ c.view dest = new := by
  subst hp
  have hk : (chkRun dest old new (chkInit s0 dest old new) p).ok = true := by
    apply chkRun_ok dest old new q
    rw [← chkRun_append]; exact h
  have hs := chkRun_sound dest old new p _ (chkInit_sound s0 dest old new) hk
  have hst : (chkRun dest old new (chkInit s0 dest old new) p).s = run s0 p := chkRun_s dest old new p _
  rw [hst] at hs
  obtain ⟨hgood, habs, hvol⟩ := hs
  refine ⟨(allowed_iff old new _).1 hvol, ?_⟩
  intro c
  apply (allowed_iff old new _).1
  have hsplit := c.split
  -- the checker state at the name-space point of the crash
  have hwf := chkRun_wf dest old new c.pre _ (chkInit_wf s0 dest old new)
  have hpre : (chkRun dest old new (chkInit s0 dest old new) c.pre).s = run s0 c.pre := chkRun_s dest old new c.pre _
  have hrun : chkRun dest old new (chkInit s0 dest old new) p =
      chkRun dest old new (chkRun dest old new (chkInit s0 dest old new) c.pre) c.post := by
    rw [← chkRun_append, ← hsplit]
  cases hl : lookup (run s0 c.pre).names dest with
  | none =>
    have ha : (chkRun dest old new (chkInit s0 dest old new) p).absent = true := by
      rw [hrun]; apply chkRun_absent; apply hwf.2; rw [hpre]; exact hl
    have : c.view dest = none := by simp [Crash.view, view, hl]
    rw [this]; exact habs ha
  | some i =>
    have hi : i ∈ (chkRun dest old new (chkInit s0 dest old new) p).hist := by
      rw [hrun]; apply chkRun_hist; apply hwf.1; rw [hpre]; exact hl
    have hg := hgood i hi
    unfold goodIno at hg
    cases hn : inodeAt (run s0 p) i with
    | none => simp [hn] at hg
    | some n =>
      simp only [hn, Bool.and_eq_true] at hg
      obtain ⟨⟨hkind, hclean⟩, hall⟩ := hg
      have hkind' : n.kind ≠ .dir := by simpa using hkind
      have hv : c.view dest = some (nodeOf n (c.data i), []) :=
        view_nondir _ _ _ _ i n hl hn hkind'
      rw [hv, c.legal i n hn hclean]; exact hall

/-- Soundness of the directory checker (archive unpacking): every intermediate state shows the previous state or
    the complete new tree to a reader (and to a reader after a kill of the process). -/
theorem safePublishDir_sound (dest : Path) (old new : Obs) (t : List Call) :
    ∀ s0, safePublishDir s0 dest old new t = true → ∀ p q, t = p ++ q →
      vview (run s0 p) dest = old ∨ vview (run s0 p) dest = new := by
  induction t with
  | nil =>
    intro s0 h p q hp
    have : p = [] := by
      cases p with
      | nil => rfl
      | cons a b => exact absurd hp (by simp)
    subst this
    have h' : allowed old new (vview s0 dest) = true := h
    exact (allowed_iff old new _).1 h'
  | cons c t ih =>
    intro s0 h p q hp
    simp only [safePublishDir, Bool.and_eq_true] at h
    cases p with
    | nil => exact (allowed_iff old new _).1 h.1
    | cons c' p' =>
      simp only [List.cons_append, List.cons.injEq] at hp
      obtain ⟨rfl, hp'⟩ := hp
      rw [run_cons]
      exact ih (step s0 c) h.2 p' q hp'

/-- The canonical sequence of renameio (`TempFile` → `Chmod` → any number of `Write`s → `Sync` → `Close` →
    `Rename`) is accepted by the checker for every chunking of every content, every mode, every descriptor
    number, whether the destination is absent or holds any (durable) previous content. Together with
    `safePublish_sound`: it publishes atomically at every crash point under every legal power-loss outcome. -/
theorem publish_sequence_safe (old : Option (Content × Nat)) (fd perm : Nat) (chunks : List Seg) :
    safePublish (baseFS old) destF (baseOld old) (some (.file (written chunks), []))
      (publishSeq tmpF destF fd perm chunks) = true := by
  have h1 := mid_start old fd perm (some (.file (written chunks), []))
  have h2 := mid_writes old fd perm (some (.file (written chunks), [])) chunks [] false (Or.inr rfl)
  have h3 := mid_finish old fd perm (written chunks)
  unfold safePublish publishSeq
  have := chkRun_append destF (baseOld old) (some (Node.file (written chunks), []))
    (chkInit (baseFS old) destF (baseOld old) (some (Node.file (written chunks), [])))
    ([Call.openC tmpF true true false 0o600 (some fd), Call.fchmod fd perm] ++ chunks.map (Call.write fd))
    [Call.fsync fd, Call.close fd, Call.rename tmpF destF]
  unfold chkRun at this h1 h2 h3
  rw [this, List.foldl_append, h1, h2]
  exact h3

/-- Why the `Sync()` cannot be skipped (the comment in CloseAtomicallyReplace, as a theorem): the same sequence
    without the fsync is rejected by the checker, and the model exhibits the legal power-loss outcome in which
    the destination is a ZERO-LENGTH file — which is not the new content. -/
theorem fsync_before_rename_needed (old : Option (Content × Nat)) (fd perm : Nat) (chunks : List Seg)
    (hne : written chunks ≠ []) :
    safePublish (baseFS old) destF (baseOld old) (some (.file (written chunks), []))
      (publishSeqNoSync tmpF destF fd perm chunks) = false ∧
    (∃ c : Crash (baseFS old) (publishSeqNoSync tmpF destF fd perm chunks), c.view destF = some (.file [], [])) ∧
    (some (Node.file [], []) : Obs) ≠ some (.file (written chunks), []) := by
  have h1 := mid_start old fd perm (some (.file (written chunks), []))
  have h2 := mid_writes old fd perm (some (.file (written chunks), [])) chunks [] false (Or.inr rfl)
  have happ := chkRun_append destF (baseOld old) (some (Node.file (written chunks), []))
    (chkInit (baseFS old) destF (baseOld old) (some (Node.file (written chunks), [])))
    ([Call.openC tmpF true true false 0o600 (some fd), Call.fchmod fd perm] ++ chunks.map (Call.write fd))
    [Call.close fd, Call.rename tmpF destF]
  have hmid : chkRun destF (baseOld old) (some (Node.file (written chunks), []))
      (chkInit (baseFS old) destF (baseOld old) (some (Node.file (written chunks), [])))
      ([Call.openC tmpF true true false 0o600 (some fd), Call.fchmod fd perm] ++ chunks.map (Call.write fd)) =
      midChk old fd perm (written chunks) false := by
    rw [chkRun_append, h1, h2]; rfl
  refine ⟨?_, ?_, ?_⟩
  · have h3 := mid_finish_nosync old fd perm (written chunks)
    unfold safePublish publishSeqNoSync
    unfold chkRun at happ hmid h3
    rw [happ, hmid]; exact h3
  · -- the final volatile state, explicitly
    have hrun : run (baseFS old) (publishSeqNoSync tmpF destF fd perm chunks) = endNoSyncFS old perm (written chunks) := by
      have hs := chkRun_s destF (baseOld old) (some (Node.file (written chunks), []))
        ([Call.openC tmpF true true false 0o600 (some fd), Call.fchmod fd perm] ++ chunks.map (Call.write fd))
        (chkInit (baseFS old) destF (baseOld old) (some (Node.file (written chunks), [])))
      rw [hmid] at hs
      have : publishSeqNoSync tmpF destF fd perm chunks =
          ([Call.openC tmpF true true false 0o600 (some fd), Call.fchmod fd perm] ++ chunks.map (Call.write fd)) ++
          [Call.close fd, Call.rename tmpF destF] := rfl
      rw [this, run_append]
      have hs' : run (baseFS old) ([Call.openC tmpF true true false 0o600 (some fd), Call.fchmod fd perm] ++
          chunks.map (Call.write fd)) = midFS old fd perm (written chunks) false := by
        exact hs.symm
      rw [hs']; exact run_mid_nosync old fd perm (written chunks)
    refine ⟨{ pre := publishSeqNoSync tmpF destF fd perm chunks, post := [], split := by simp,
              data := fun i => match inodeAt (run (baseFS old) (publishSeqNoSync tmpF destF fd perm chunks)) i with
                | some n => if n.clean then n.data else []
                | none => [],
              legal := by intro i n h hc; simp [h, hc] }, ?_⟩
    simp only [Crash.view, hrun]
    cases old with
    | none => simp [view, endNoSyncFS, lookup, List.lookup, destF, inodeAt, nodeOf, dirInode]
    | some cm =>
      obtain ⟨c, m⟩ := cm
      simp [view, endNoSyncFS, lookup, List.lookup, destF, inodeAt, nodeOf, dirInode]
  · intro h
    simp only [Option.some.injEq, Prod.mk.injEq, Node.file.injEq, and_true] at h
    exact hne h.symm

/-- Leftovers. If every name a call sequence creates is the destination (or below it), a directory on the way to
    the destination, or temporary (`onlyTemp`, with any notion `tmp` of "temporary" that is inherited by
    everything below a temporary path), then in every intermediate state — and in the name space found after a
    crash at any point — every existing path either existed before the operation or is the destination /
    below it / on the way to it / temporary. A failed or interrupted operation leaves nothing else behind. -/
theorem leftovers_only_temp (dest : Path) (tmp : Path → Bool)
    (hmono : ∀ p r, tmp p = true → tmp (p ++ r) = true) (s0 : FS) (t : List Call)
    (h : onlyTemp dest tmp t = true) (p q : List Call) (hp : t = p ++ q) :
    (∀ x i, (x, i) ∈ (run s0 p).names →
      (∃ j, (x, j) ∈ s0.names) ∨ dest.isPrefixOf x = true ∨ x.isPrefixOf dest = true ∨ tmp x = true) ∧
    (∀ c : Crash s0 p, ∀ x i, (x, i) ∈ c.names →
      (∃ j, (x, j) ∈ s0.names) ∨ dest.isPrefixOf x = true ∨ x.isPrefixOf dest = true ∨ tmp x = true) := by
  have key := run_ok dest tmp hmono s0.names t s0 h (fun x i hx => Or.inl ⟨i, hx⟩)
  constructor
  · intro x i hx; exact key p q hp x i hx
  · intro c x i hx
    have hsp := c.split
    have : t = c.pre ++ (c.post ++ q) := by rw [hp, ← List.append_assoc, ← hsp]
    exact key c.pre (c.post ++ q) this x i hx

/-- The harness' concrete notion of "temporary file in the temporary location" is inherited downwards, so
    `leftovers_only_temp` applies to it. -/
theorem isTemp_mono (tmpdirs : List Path) (destDir : Path) (prefixes : List String) (p r : Path)
    (h : isTemp tmpdirs destDir prefixes p = true) : isTemp tmpdirs destDir prefixes (p ++ r) = true := by
  simp only [isTemp, Bool.or_eq_true, List.any_eq_true, Bool.and_eq_true] at *
  rcases h with ⟨d, hd, hb⟩ | ⟨hb, hh⟩
  · left; exact ⟨d, hd, below_append r hb⟩
  · right
    refine ⟨below_append r hb, ?_⟩
    have hlen : destDir.length < p.length := by
      simp only [below, Bool.and_eq_true, decide_eq_true_eq] at hb; exact hb.2
    have hne : p.drop destDir.length ≠ [] := by
      intro hnil
      have := congrArg List.length hnil
      simp only [List.length_drop, List.length_nil] at this
      omega
    rw [List.drop_append_of_le_length (Nat.le_of_lt hlen)]
    cases hd : p.drop destDir.length with
    | nil => exact absurd hd hne
    | cons a b => rw [hd] at hh; exact hh

/-! ### The writers as programs (PB.Model.FsWriters), explored exhaustively -/

/-- If the exhaustive exploration `checkAll` of a writer program succeeds, then for EVERY pattern of failing
    system calls, at EVERY crash point of the resulting run, a reader sees old or new — concurrently, after a
    kill, and after every legal power-loss outcome — and only allowed names are ever created. -/
theorem explored_program_is_atomic (s0 : FS) (dest : Path) (old new : Obs) (tmp : Path → Bool) (prog : Prog)
    (h : checkAll dest old new tmp prog (chkInit s0 dest old new) 0 = true)
    (fails : List Bool) (p q : List Call) (hp : runProg prog s0 (oracleOf 0 fails) = p ++ q) :
    ((vview (run s0 p) dest = old ∨ vview (run s0 p) dest = new) ∧
      ∀ c : Crash s0 p, c.view dest = old ∨ c.view dest = new) ∧
    onlyTemp dest tmp (runProg prog s0 (oracleOf 0 fails)) = true := by
  have hs := checkAll_sound dest old new tmp prog (chkInit s0 dest old new) 0 h fails
  exact ⟨safePublish_sound s0 dest old new _ hs.1 p q hp, hs.2⟩

/-- (old state, os.TempDir(), chunks written): destination absent / present, TMPDIR on the same file system /
    on another one / missing, two chunks / empty content. -/
def writeFileConfigs : List (Option Inode × Path × List Seg) :=
  [(none, ["R", "tmp"], exChunks), (some exOldFile, ["R", "tmp"], exChunks),
   (none, ["X"], exChunks), (some exOldFile, ["X"], exChunks),
   (none, ["R", "missing"], exChunks), (some exOldFile, ["R", "missing"], exChunks),
   (some exOldFile, ["R", "tmp"], []), (some exOldLink, ["R", "tmp"], exChunks)]

/-- renameio.WriteFile / fstree.writeFile, modelled branch by branch (tempDir probing with its deferred
    removals, TempFile, Chmod, Write, CloseAtomicallyReplace, Cleanup): whichever system calls fail and wherever
    the run stops, the checker accepts what was executed. -/
theorem writeFile_explored : ∀ cfg ∈ writeFileConfigs,
    checkAll destF (worldOld cfg.1) (some (.file (written cfg.2.2), [])) exTmp
      (writeFileP cfg.2.1 destF 0o640 cfg.2.2)
      (chkInit (worldFS cfg.1) destF (worldOld cfg.1) (some (.file (written cfg.2.2), []))) 0 = true := by
  have h : writeFileConfigs.all (fun cfg =>
      checkAll destF (worldOld cfg.1) (some (.file (written cfg.2.2), [])) exTmp
        (writeFileP cfg.2.1 destF 0o640 cfg.2.2)
        (chkInit (worldFS cfg.1) destF (worldOld cfg.1) (some (.file (written cfg.2.2), []))) 0) = true := by
    decide +kernel
  exact fun cfg hc => List.all_eq_true.1 h cfg hc

/-- (old state, opts.TempDir, os.TempDir(), opts.Mode, chunks, reader fails) -/
def createAtomicConfigs : List (Option Inode × Option Path × Path × Nat × List Seg × Bool) :=
  [(none, none, ["R", "tmp"], 0, exChunks, false), (some exOldFile, none, ["R", "tmp"], 0o600, exChunks, false),
   (some exOldFile, some ["R", "tmp2"], ["R", "tmp"], 0o644, exChunks, false),
   (some exOldFile, none, ["X"], 0, exChunks, true), (none, some ["R", "tmp2"], ["R", "tmp"], 0o600, exChunks, true),
   (some exOldFile, none, ["R", "missing"], 0o600, [], false), (some exOldFile, none, ["R", "tmp"], 0o600, exChunks, true),
   (some exOldFile, some ["X"], ["R", "tmp"], 0o600, exChunks, false)]

def caNew (cfg : Option Inode × Option Path × Path × Nat × List Seg × Bool) : Obs :=
  some (.file (written cfg.2.2.2.2.1), [])

/-- utils.CreateAtomic (hence CopyFileAtomic, ReplaceFileAtomic, File.Unpack), including a reader that fails
    after all chunks were copied: nothing but old or new is ever visible, for every failure pattern. -/
theorem createAtomic_explored : ∀ cfg ∈ createAtomicConfigs,
    checkAll destF (worldOld cfg.1) (caNew cfg) exTmp
      (createAtomicP cfg.2.1 cfg.2.2.1 destF cfg.2.2.2.1 cfg.2.2.2.2.1 cfg.2.2.2.2.2)
      (chkInit (worldFS cfg.1) destF (worldOld cfg.1) (caNew cfg)) 0 = true := by
  have h : createAtomicConfigs.all (fun cfg =>
      checkAll destF (worldOld cfg.1) (caNew cfg) exTmp
        (createAtomicP cfg.2.1 cfg.2.2.1 destF cfg.2.2.2.1 cfg.2.2.2.2.1 cfg.2.2.2.2.2)
        (chkInit (worldFS cfg.1) destF (worldOld cfg.1) (caNew cfg)) 0) = true := by
    decide +kernel
  exact fun cfg hc => List.all_eq_true.1 h cfg hc

/-- fstree.Put on a nested key whose directory does not exist (writeFile fails with ENOENT from the model,
    MkdirAll, second writeFile), TMPDIR same fs / other fs / missing, no injected failure: the whole run is
    accepted (hence atomic at each of its crash points by `safePublish_sound`), only allowed names are created,
    and it ends with the new content in place. (The exploration of ALL failure patterns of the two-attempt
    program is the product of two `writeFile_explored` trees and is not evaluated in the kernel.) -/
theorem fstreePut_retry_path_safe : ∀ tmpdir ∈ [["R", "tmp"], ["X"], ["R", "missing"]],
    let t := runProg (fstreePutP tmpdir destF exChunks) worldNested (oracleOf 0 (List.replicate 40 false))
    safePublish worldNested destF none (some (.file (written exChunks), [])) t = true ∧
    onlyTemp destF exTmp t = true ∧
    vview (run worldNested t) destF = some (.file (written exChunks), []) := by
  decide +kernel

/-- (resource folder exists, old state, HTTP request fails, body fails) -/
def fetchConfigs : List (Bool × Option Inode × Bool × Bool) :=
  [(false, none, false, false), (true, none, false, false), (true, some exOldFile, false, false),
   (true, some exOldFile, true, false), (true, some exOldFile, false, true), (false, none, false, true)]

def fetchOld (cfg : Bool × Option Inode × Bool × Bool) : Obs := if cfg.1 then worldOld cfg.2.1 else none

/-- updater.fetchFile (unsigned) as run by DownloadUpdates: folder creation through EnsureAbsPath, temp file in
    the registry's tmp dir, failing request, truncated body, CloseAtomicallyReplace, chmod after the rename —
    for every failure pattern and stopping point only the old state or the complete download is visible. -/
theorem fetchFile_explored : ∀ cfg ∈ fetchConfigs,
    checkAll destF (fetchOld cfg) (some (.file (written exChunks), [])) exTmp
      (fetchFileP [(["R"], 0o755), (["R", "dst"], 0o755)] ["R", "tmp"] destF exChunks cfg.2.2.1 cfg.2.2.2)
      (chkInit (worldFetch cfg.1 cfg.2.1) destF (fetchOld cfg) (some (.file (written exChunks), []))) 0 = true := by
  have h : fetchConfigs.all (fun cfg =>
      checkAll destF (fetchOld cfg) (some (.file (written exChunks), [])) exTmp
        (fetchFileP [(["R"], 0o755), (["R", "dst"], 0o755)] ["R", "tmp"] destF exChunks cfg.2.2.1 cfg.2.2.2)
        (chkInit (worldFetch cfg.1 cfg.2.1) destF (fetchOld cfg) (some (.file (written exChunks), []))) 0) = true := by
    decide +kernel
  exact fun cfg hc => List.all_eq_true.1 h cfg hc

/-! ### The download writer: when does fetchFile publish? (PB.Model.FsDownload)

The two comparisons of the code — `resp.StatusCode != http.StatusOK` in makeRequest and `resp.ContentLength != n`
after io.Copy — are the definitions `PB.Gen.FsDownload.statusRefused` / `lengthRefused`, regenerated from
updater/fetch.go on every run. The theorems below are about whatever the source says today. -/

/-- fetchFile's decision, guard by guard: it reaches CloseAtomicallyReplace iff a required signature was
    verifiable, the request succeeded, neither the status guard nor the length guard refuses, io.Copy returned no
    error, and a required signature matches the bytes written. -/
theorem fetch_publish_iff (v : Option Verif) (r : Resp) :
    (fetchDecision v r).publishes = true ↔
      (∀ x, v = some x → x.policy = .require → x.sigOk = true ∧ r.digestOk = true) ∧
      r.reqErr = false ∧ PB.Gen.FsDownload.statusRefused (r.status : Int) = false ∧ r.copyErr = false ∧
      PB.Gen.FsDownload.lengthRefused r.contentLength r.got = false := by
  unfold fetchDecision
  cases v with
  | none => cases r.reqErr <;> cases PB.Gen.FsDownload.statusRefused (r.status : Int) <;> cases r.copyErr <;>
      cases PB.Gen.FsDownload.lengthRefused r.contentLength r.got <;> simp [Outcome.publishes]
  | some x =>
    obtain ⟨pol, sigOk⟩ := x
    cases pol <;> cases sigOk <;> cases r.digestOk <;> cases r.reqErr <;>
      cases PB.Gen.FsDownload.statusRefused (r.status : Int) <;> cases r.copyErr <;>
      cases PB.Gen.FsDownload.lengthRefused r.contentLength r.got <;> simp [Outcome.publishes]

/-- THE decision theorem. For every behaviour of server and connection (any status, any framing, any announced
    length, any number of body bytes arriving, any way the stream ends, with or without transparent gzip) and any
    verification setting: if fetchFile reaches CloseAtomicallyReplace then the status was 200, the length was
    announced (`Content-Length: l`, no transparent decompression), all `l` announced bytes arrived, exactly these
    `l` bytes were written to the pending file, and io.Copy returned no error. A response whose body is cut short
    — by an early close or a reset, in any framing — is never published. -/
theorem fetch_publishes_only_complete (v : Option Verif) (w : Wire)
    (h : (fetchDecision v (transport w)).publishes = true) :
    w.status = 200 ∧ ∃ l, w.complete l ∧ (transport w).got = l ∧ (transport w).copyErr = false := by
  have h' := (fetch_publish_iff v (transport w)).1 h
  obtain ⟨_, hreq, hst, hcp, hlen⟩ := h'
  unfold transport at hreq hst hcp hlen ⊢
  cases hc : w.connects with
  | false => simp [hc] at hreq
  | true =>
    cases hg : w.gzip with
    | true =>
      simp only [hc, hg, Bool.not_true, Bool.false_eq_true, if_false, if_true] at hlen
      simp [PB.Gen.FsDownload.lengthRefused] at hlen <;> omega
    | false =>
      simp only [hc, hg, Bool.not_true, Bool.false_eq_true, if_false] at hst hcp hlen ⊢
      have hs200 : w.status = 200 := by
        simp [PB.Gen.FsDownload.statusRefused] at hst
        omega
      refine ⟨hs200, ?_⟩
      cases hf : w.framing with
      | length l =>
        simp only [hf, framed, decide_eq_false_iff_not, Nat.not_lt] at hcp hlen ⊢
        refine ⟨l, ⟨hc, hg, hf, hcp⟩, Nat.min_eq_right hcp, ?_⟩
        simp [hcp]
      | chunked =>
        simp [hf, framed, PB.Gen.FsDownload.lengthRefused] at hlen <;> omega
      | close =>
        simp [hf, framed, PB.Gen.FsDownload.lengthRefused] at hlen <;> omega

/-- What the code does with a response that does not announce its length (chunked or close-delimited): it
    REFUSES it, complete or not (resp.ContentLength is -1 and never equals the number of bytes written). -/
theorem fetch_refuses_unannounced_length (v : Option Verif) (w : Wire) (h : ∀ l, w.framing ≠ .length l) :
    (fetchDecision v (transport w)).publishes = false := by
  cases hp : (fetchDecision v (transport w)).publishes with
  | false => rfl
  | true =>
    obtain ⟨_, l, ⟨_, _, hf, _⟩, _⟩ := fetch_publishes_only_complete v w hp
    exact absurd hf (h l)

/-- … and likewise a response the transport decompresses transparently (`Content-Encoding: gzip`). -/
theorem fetch_refuses_transparent_gzip (v : Option Verif) (w : Wire) (h : w.gzip = true) :
    (fetchDecision v (transport w)).publishes = false := by
  cases hp : (fetchDecision v (transport w)).publishes with
  | false => rfl
  | true =>
    obtain ⟨_, l, ⟨_, hg, _, _⟩, _⟩ := fetch_publishes_only_complete v w hp
    rw [h] at hg; cases hg

/-- With a required signature nothing is published unless the signature was verified and the bytes written have
    the signed hash (so a truncated or altered body is refused even if every other guard were to let it pass). -/
theorem fetch_required_signature (x : Verif) (hx : x.policy = .require) (r : Resp)
    (h : (fetchDecision (some x) r).publishes = true) : x.sigOk = true ∧ r.digestOk = true :=
  ((fetch_publish_iff (some x) r).1 h).1 x rfl hx

/-- Not vacuous: a complete, announced 200 response IS published (extra bytes after the announced ones and the
    way the connection ends afterwards do not matter). -/
theorem fetch_complete_is_published (w : Wire) (l : Nat) (hc : w.complete l) (hs : w.status = 200) :
    fetchDecision none (transport w) = .publish false := by
  obtain ⟨h1, h2, h3, h4⟩ := hc
  have hmin : min w.arrived l = l := Nat.min_eq_right h4
  have hnl : ¬ w.arrived < l := Nat.not_lt.2 h4
  simp [fetchDecision, transport, framed, h1, h2, h3, hs, hmin, hnl, PB.Gen.FsDownload.statusRefused,
    PB.Gen.FsDownload.lengthRefused]

def mkWire (status : Nat) (f : Framing) (arrived : Nat) (e : Ending) : Wire :=
  { connects := true, status := status, framing := f, gzip := false, arrived := arrived, ending := e, plain := 0, gzipOk := true,
    digestOk := true }

/-- The seeded case, concretely: 200, no Content-Length, no chunking, connection closed after 102400 of 1048576
    bytes — refused. -/
example : fetchDecision none (transport (mkWire 200 .close 102400 .fin)) = .abort := by decide
example : fetchDecision none (transport (mkWire 200 (.length 1048576) 102400 .fin)) = .abort := by decide
example : fetchDecision none (transport (mkWire 206 (.length 100) 100 .fin)) = .abort := by decide
example : fetchDecision (some ⟨.require, true⟩) (transport { mkWire 200 (.length 100) 100 .fin with digestOk := false }) = .abort := by decide
example : fetchDecision (some ⟨.warn, true⟩) (transport { mkWire 200 (.length 100) 100 .fin with digestOk := false }) = .publish false := by decide
example : fetchDecision (some ⟨.require, true⟩) (transport (mkWire 200 (.length 100) 100 .fin)) = .publish true := by decide
example : fetchDecision (some ⟨.require, false⟩) (transport (mkWire 200 (.length 100) 100 .fin)) = .refusedEarly := by decide

/-- System-call level, unbounded (every file system state, every pattern of failing calls and every stopping
    point, every chunking, every list of folders, any number of attempts, DownloadUpdates or GetFile, with or
    without verification): if none of the responses is a complete announced 200 response, the download issues NO
    rename at all — the only call by which these programs change what a path names. -/
theorem download_renames_only_complete (dirs : List (Path × Nat)) (regTmp dest : Path) (v : Option Verif)
    (sig : Option SigFile) (getFile : Bool) (attempts : List (Wire × List Seg))
    (h : ∀ wc ∈ attempts, ¬ (wc.1.status = 200 ∧ ∃ l, wc.1.complete l)) (s : FS) (o : List Choice) :
    ∀ c ∈ runProg (downloadP dirs regTmp dest v sig getFile attempts) s o, ∀ a b, c ≠ .rename a b := by
  apply NoRename.run
  unfold downloadP
  apply noRename_attemptsK
  · intro b; exact .ret _
  · intro wc hwc
    cases hp : (fetchDecision v (transport wc.1)).publishes with
    | false => rfl
    | true =>
      obtain ⟨h200, l, hc, _⟩ := fetch_publishes_only_complete v wc.1 hp
      exact absurd ⟨h200, l, hc⟩ (h wc hwc)

/-! Exploration of the download program over server behaviours on concrete worlds. -/

/-- The resource on the server: 5000 bytes (content 1). -/
def dlBody : Content := written exChunks

/-- The bytes io.Copy writes for a response, as the two chunks of the example cut to `got` bytes. -/
def dlChunks (w : Wire) : List Seg := takeBytes (transport w).got dlBody

/-- Statuses 200/206/301/404/500; announced length exact (5000) / shorter (4096) / longer (6000) / absent
    (chunked, close-delimited); 0 / 4096 / 5000 body bytes arriving; orderly close / reset / chunk terminator;
    no response at all; transparent gzip (complete and cut). -/
def dlWires : List Wire :=
  [{ mkWire 200 (.length 5000) 0 .fin with connects := false },
   mkWire 206 (.length 5000) 5000 .fin, mkWire 301 (.length 5000) 5000 .fin, mkWire 404 (.length 5000) 5000 .fin,
   mkWire 500 (.length 5000) 5000 .fin, mkWire 206 (.length 4096) 4096 .fin,
   { mkWire 200 (.length 300) 300 .fin with gzip := true, plain := 5000 },
   { mkWire 200 (.length 300) 100 .fin with gzip := true, plain := 4096, gzipOk := false }] ++
  ([Framing.length 5000, .length 4096, .length 6000, .chunked, .close].flatMap fun f =>
    [0, 4096, 5000].flatMap fun a => [Ending.fin, .reset].map fun e => mkWire 200 f a e) ++
  [mkWire 200 .chunked 5000 .terminated, mkWire 200 .chunked 4096 .terminated, mkWire 200 .chunked 0 .terminated]

/-- What the destination may show besides the old state: the COMPLETE announced body if the response is a
    complete announced 200 response — and nothing new otherwise. (This is the specification, not the decision
    function of the code.) -/
def dlNew (old : Obs) (w : Wire) : Obs :=
  match w.framing with
  | .length l => if w.connects && !w.gzip && w.status == 200 && decide (l ≤ w.arrived) then some (.file (takeBytes l dlBody), []) else old
  | _ => old

/-- fetchFile as run by DownloadUpdates, one attempt, for EVERY server behaviour of `dlWires`, resource folder
    present (old file present) or absent, every pattern of failing system calls and every stopping point: a reader
    sees the old state, or — only for a complete announced 200 response — the complete announced body; only
    temporary names are created; the destination is never absent unless it was. In particular every truncated
    body (announced or not, closed or reset) leaves the old state at every instant. -/
theorem download_explored : ∀ w ∈ dlWires, ∀ cfg ∈ [(true, some exOldFile), (false, none)],
    checkAll destF (fetchOld (cfg.1, cfg.2, false, false)) (dlNew (fetchOld (cfg.1, cfg.2, false, false)) w) exTmp
      (downloadP [(["R"], 0o755), (["R", "dst"], 0o755)] ["R", "tmp"] destF none none false [(w, dlChunks w)])
      (chkInit (worldFetch cfg.1 cfg.2) destF (fetchOld (cfg.1, cfg.2, false, false))
        (dlNew (fetchOld (cfg.1, cfg.2, false, false)) w)) 0 = true := by
  have h : dlWires.all (fun w => [(true, some exOldFile), (false, none)].all fun cfg =>
      checkAll destF (fetchOld (cfg.1, cfg.2, false, false)) (dlNew (fetchOld (cfg.1, cfg.2, false, false)) w) exTmp
        (downloadP [(["R"], 0o755), (["R", "dst"], 0o755)] ["R", "tmp"] destF none none false [(w, dlChunks w)])
        (chkInit (worldFetch cfg.1 cfg.2) destF (fetchOld (cfg.1, cfg.2, false, false))
          (dlNew (fetchOld (cfg.1, cfg.2, false, false)) w)) 0) = true := by
    decide +kernel
  intro w hw cfg hc
  exact List.all_eq_true.1 (List.all_eq_true.1 h w hw) cfg hc

/-- Retry: a first attempt whose close-delimited body is cut at 4096 bytes (refused, temporary file removed),
    then a complete announced answer — through GetFile and through DownloadUpdates, no injected failure: the whole
    run is accepted with new = the complete body (so the fragment of the first attempt is never visible, at no
    crash point), only temporary names are created, the complete body is in place at the end and no stray file
    is left in the temporary directory. -/
theorem download_retry_path_safe : ∀ getFile ∈ [true, false],
    let w1 := mkWire 200 .close 4096 .fin
    let w2 := mkWire 200 (.length 5000) 5000 .fin
    let t := runProg (downloadP [(["R"], 0o755), (["R", "dst"], 0o755)] ["R", "tmp"] destF none none getFile
      [(w1, dlChunks w1), (w2, dlChunks w2)]) (worldFetch true (some exOldFile)) (oracleOf 0 (List.replicate 40 false))
    safePublish (worldFetch true (some exOldFile)) destF (worldOld (some exOldFile)) (some (.file dlBody, [])) t = true ∧
    onlyTemp destF exTmp t = true ∧
    vview (run (worldFetch true (some exOldFile)) t) destF = some (.file dlBody, []) ∧
    (run (worldFetch true (some exOldFile)) t).names.all (fun e => !below ["R", "tmp"] e.1) = true := by
  decide +kernel

/-- Not vacuous: the same exploration FAILS for a writer that publishes a close-delimited body as it came
    (length guard skipped when the length is unknown). -/
example : checkAll destF (worldOld (some exOldFile)) (worldOld (some exOldFile)) exTmp
    (.sys (.createTemp ["R", "tmp"] ".f") fun r =>
      match r with
      | .created t fd => writeAllP fd (dlChunks (mkWire 200 .close 4096 .fin)) (cleanupP t fd false (.ret false))
          (closeAtomicallyReplaceK t fd destF fun _ => .ret false)
      | _ => .ret false)
    (chkInit (worldFetch true (some exOldFile)) destF (worldOld (some exOldFile)) (worldOld (some exOldFile))) 0 = false := by
  decide +kernel

/-! ### The unpack writers -/

/-- File.Unpack publishes only a stream that was read to its end without error, and only when the unpacked file
    does not exist yet. -/
theorem fileUnpack_publishes_only_complete (there : Bool) (g : GzFile) (h : fileUnpackPublishes there g = true) :
    there = false ∧ g.headerOk = true ∧ g.streamOk = true := by
  simp only [fileUnpackPublishes, Bool.and_eq_true, Bool.not_eq_true'] at h
  exact ⟨h.1.1, h.1.2, h.2⟩

/-- (unpacked file exists, header valid, stream valid) × old state -/
def unpackConfigs : List (GzFile × Option Inode) :=
  [(⟨true, true⟩, none), (⟨true, true⟩, some exOldFile), (⟨true, false⟩, none), (⟨true, false⟩, some exOldFile),
   (⟨false, true⟩, none), (⟨false, false⟩, none), (⟨false, false⟩, some exOldFile)]

/-- File.Unpack for every kind of gzip file (bad header: refused before any file exists; error while reading —
    corrupt data, bad trailer, truncated file, trailing garbage: Cleanup; valid), destination absent or present,
    every failure pattern and stopping point: old, or — only for a valid stream onto an absent destination — the
    complete unpacked content. -/
theorem fileUnpack_explored : ∀ cfg ∈ unpackConfigs,
    checkAll destF (worldOld cfg.2) (if fileUnpackPublishes cfg.2.isSome cfg.1 then some (.file dlBody, []) else worldOld cfg.2) exTmp
      (fileUnpackD ["R", "tmp2"] ["R", "tmp"] destF cfg.1 exChunks)
      (chkInit (worldFS cfg.2) destF (worldOld cfg.2)
        (if fileUnpackPublishes cfg.2.isSome cfg.1 then some (.file dlBody, []) else worldOld cfg.2)) 0 = true := by
  have h : unpackConfigs.all (fun cfg =>
      checkAll destF (worldOld cfg.2) (if fileUnpackPublishes cfg.2.isSome cfg.1 then some (.file dlBody, []) else worldOld cfg.2) exTmp
        (fileUnpackD ["R", "tmp2"] ["R", "tmp"] destF cfg.1 exChunks)
        (chkInit (worldFS cfg.2) destF (worldOld cfg.2)
          (if fileUnpackPublishes cfg.2.isSome cfg.1 then some (.file dlBody, []) else worldOld cfg.2)) 0) = true := by
    decide +kernel
  exact fun cfg hc => List.all_eq_true.1 h cfg hc

/-- unpackZipArchive (decision level, every archive, every member size): the directory is renamed into place only
    if the archive opened and EVERY member was delivered by its reader without error and written completely — a
    corrupt or short member (flate error, checksum error, unexpected EOF) and a member larger than MaxUnpackSize
    abort the unpacking. Proved over the regenerated `zipLimitChecked`: it fails for a copyFromZipArchive that
    returns nil right after io.CopyN. -/
theorem unpackZip_publishes_only_complete (opens : Bool) (members : List ZipMember)
    (h : unpackZipPublishes opens members = true) :
    opens = true ∧ ∀ m ∈ members, (zipCopy m).1 = m.size ∧ m.readErr = false := by
  simp only [unpackZipPublishes, Bool.and_eq_true, List.all_eq_true, Bool.not_eq_true'] at h
  refine ⟨h.1, fun m hm => ?_⟩
  have h2 := h.2 m hm
  have hc : PB.Gen.FsDownload.zipLimitChecked = true := by decide
  simp only [zipCopy, zipCopyWith, hc, if_true] at h2 ⊢
  by_cases h3 : m.size < PB.Gen.FsDownload.maxUnpackSize
  · simp only [h3, if_true] at h2 ⊢
    exact ⟨trivial, h2⟩
  · simp only [h3, if_false] at h2 ⊢
    by_cases h4 : m.size = PB.Gen.FsDownload.maxUnpackSize
    · simp only [h4, if_true] at h2 ⊢
      exact ⟨trivial, h2⟩
    · simp [h4] at h2

/-- Why the check after io.CopyN is needed (the defect found in round 3, as a theorem): for a copyFromZipArchive
    that returns nil as soon as MaxUnpackSize bytes were copied, the statement above is FALSE — a member of
    MaxUnpackSize+1 bytes is cut, accepted, and the directory is published. -/
theorem unpackZip_limit_check_needed :
    ¬ (∀ (members : List ZipMember), (members.all fun m => !(zipCopyWith false m).2) = true →
        ∀ m ∈ members, (zipCopyWith false m).1 = m.size) := by
  intro h
  have := h [⟨PB.Gen.FsDownload.maxUnpackSize + 1, false⟩] (by decide) _ (List.mem_singleton.2 rfl)
  revert this
  decide

/-- The limit itself is not a cut: a member of exactly MaxUnpackSize bytes is written completely, and its read
    error (checksum verdict at the end) is still seen. -/
example : zipCopy ⟨PB.Gen.FsDownload.maxUnpackSize, false⟩ = (PB.Gen.FsDownload.maxUnpackSize, false) := by decide
example : zipCopy ⟨PB.Gen.FsDownload.maxUnpackSize, true⟩ = (PB.Gen.FsDownload.maxUnpackSize, true) := by decide
example : (zipCopy ⟨PB.Gen.FsDownload.maxUnpackSize + 1, false⟩).2 = true := by decide
example : unpackZipPublishes true [⟨100, false⟩, ⟨0, false⟩] = true := by decide

/-- renameio.Symlink over an absent destination, an existing symlink and an existing regular file. -/
theorem symlink_explored : ∀ old ∈ [none, some exOldLink, some exOldFile],
    checkAll destF (worldOld old) (some (.symlink "new-target", [])) exTmp (symlinkP "new-target" destF)
      (chkInit (worldFS old) destF (worldOld old) (some (.symlink "new-target", []))) 0 = true := by
  have h : [none, some exOldLink, some exOldFile].all (fun old =>
      checkAll destF (worldOld old) (some (.symlink "new-target", [])) exTmp (symlinkP "new-target" destF)
        (chkInit (worldFS old) destF (worldOld old) (some (.symlink "new-target", []))) 0) = true := by
    decide +kernel
  exact fun old hc => List.all_eq_true.1 h old hc

/-- The exploration is not vacuous: with the `Sync()` removed from the program it fails. -/
example : checkAll destF (worldOld none) (some (.file (written exChunks), [])) exTmp
    (.sys (.createTemp ["R", "tmp"] ".f") fun r =>
      match r with
      | .created t fd => writeAllP fd exChunks (.ret true)
          (.sys (.call (.close fd)) fun _ => osRenameP t destF fun _ => .ret false)
      | _ => .ret true)
    (chkInit (worldFS none) destF (worldOld none) (some (.file (written exChunks), []))) 0 = false := by decide +kernel

/-! ### Non-vacuity: the hypotheses are met by the sequences recorded from the real writers -/

/-- fstree.Put of a new record, TMPDIR on another file system (recorded run, `tmp=cross`): the probe rename
    fails with EXDEV, the temp file is created next to the destination. -/
def exCross : List Call :=
  [.openC ["X", ".f#1"] true true false 0o600 (some 5), .close 5,
   .openC ["R", "dst", ".f#2"] true true false 0o600 (some 5), .close 5,
   .rename ["X", ".f#1"] ["R", "dst", ".f#2"], .unlink ["R", "dst", ".f#2"], .unlink ["X", ".f#1"],
   .openC ["R", "dst", ".f#3"] true true false 0o600 (some 5), .fchmod 5 0o644,
   .write 5 ⟨1, 0, 4096⟩, .write 5 ⟨1, 4096, 904⟩, .fsync 5, .close 5,
   .rename ["R", "dst", ".f#3"] ["R", "dst", "f"]]

def exWorld : FS :=
  { inodes := [dirInode, dirInode, dirInode, { kind := .file, mode := 0o644, data := [⟨0, 0, 100⟩], target := "", clean := true }],
    names := [(["R", "dst", "f"], 3), (["R", "dst"], 0), (["R"], 1), (["X"], 2)], fds := [] }

example : safePublish exWorld destF (some (.file [⟨0, 0, 100⟩], [])) (some (.file [⟨1, 0, 5000⟩], [])) exCross = true := by decide
example : (exec (run exWorld (exCross.take 4)) (.rename ["X", ".f#1"] ["R", "dst", ".f#2"])).2 = .err .EXDEV := by decide
example : onlyTemp destF (isTemp [["X"]] ["R", "dst"] [".f"]) exCross = true := by decide
example : vview (run exWorld exCross) destF = some (.file [⟨1, 0, 5000⟩], []) := by decide
/-- the same writer writing the destination in place is rejected (a reader sees the empty file) -/
example : safePublish exWorld destF (some (.file [⟨0, 0, 100⟩], [])) (some (.file [⟨1, 0, 5000⟩], []))
    [.openC destF true false true 0o644 (some 5), .write 5 ⟨1, 0, 5000⟩, .fsync 5, .close 5] = false := by decide
/-- renaming before the data is complete is rejected -/
example : safePublish exWorld destF (some (.file [⟨0, 0, 100⟩], [])) (some (.file [⟨1, 0, 5000⟩], []))
    [.openC ["R", "dst", ".f#1"] true true false 0o600 (some 5), .fsync 5, .rename ["R", "dst", ".f#1"] destF,
     .write 5 ⟨1, 0, 5000⟩, .fsync 5, .close 5] = false := by decide
/-- a crash outcome exists for every run (the lossless one), so the crash clause quantifies over a non-empty set -/
example : Nonempty (Crash exWorld exCross) := ⟨Crash.lossless exWorld exCross⟩

/-- archive unpacking (recorded shape): extract below the temp dir, rename the directory into place -/
def exUnpack : List Call :=
  [.mkdir ["R", "tmp", "pack"] 0o700, .openC ["R", "tmp", "pack", "a.txt"] true false true 0o644 (some 6),
   .write 6 ⟨1, 0, 10⟩, .close 6, .mkdir ["R", "tmp", "pack", "sub"] 0o755,
   .openC ["R", "tmp", "pack", "sub", "b"] true false true 0o600 (some 6), .write 6 ⟨2, 0, 7⟩, .close 6,
   .rename ["R", "tmp", "pack"] ["R", "dst", "pack"], .chmod ["R", "dst", "pack"] 0o755]

def exTree : Obs := some (.dir, [(["a.txt"], .file [⟨1, 0, 10⟩]), (["sub"], .dir), (["sub", "b"], .file [⟨2, 0, 7⟩])])

example : safePublishDir (baseFS none) ["R", "dst", "pack"] none exTree exUnpack = true := by decide
/-- extracting directly into the destination is rejected: readers see an incomplete directory -/
example : safePublishDir (baseFS none) ["R", "dst", "pack"] none exTree
    [.mkdir ["R", "dst", "pack"] 0o700, .openC ["R", "dst", "pack", "a.txt"] true false true 0o644 (some 6)] = false := by decide

/-! ### Several writers of one destination (strengthening round 4) -/

/-- Under serialisation the single-writer theorem applies to every writer in turn. Let `P` be the set of allowed
    states of the destination — the state before the first operation or any complete new content — and let every
    writer, whenever it is STARTED in an allowed state, be accepted by the single-writer checker for "what it found"
    → "some allowed state" (that is what `safePublishDir_sound`'s hypothesis asks of one writer). Then after EVERY
    prefix of the combined run of any number of such writers executed one after the other, a reader of the
    destination sees an allowed state. -/
theorem serialised_writers_atomic (dest : Path) (P : Obs → Prop) (ws : List Writer)
    (hw : ∀ w ∈ ws, ∀ s, P (vview s dest) → ∃ n, P n ∧ safePublishDir s dest (vview s dest) n (w s) = true) :
    ∀ s0, P (vview s0 dest) → ∀ p q, serialRuns s0 ws = p ++ q → P (vview (run s0 p) dest) := by
  induction ws with
  | nil =>
    intro s0 h0 p q hpq
    have : p = [] := by
      cases p with
      | nil => rfl
      | cons a b => exact absurd hpq (by simp [serialRuns])
    subst this; exact h0
  | cons w ws ih =>
    intro s0 h0 p q hpq
    obtain ⟨n, hn, hsafe⟩ := hw w (List.mem_cons_self ..) s0 h0
    have hone := safePublishDir_sound dest (vview s0 dest) n (w s0) s0 hsafe
    simp only [serialRuns] at hpq
    rcases List.append_eq_append_iff.1 hpq with ⟨m, hm, _⟩ | ⟨m, hm, hq⟩
    · -- p = w s0 ++ m : the first writer has finished, `m` is a prefix of the rest
      subst hm
      rw [run_append]
      have hend : P (vview (run s0 (w s0)) dest) := by
        rcases hone (w s0) [] (by simp) with h | h
        · rw [h]; exact h0
        · rw [h]; exact hn
      exact ih (fun w' hw' => hw w' (List.mem_cons_of_mem _ hw')) (run s0 (w s0)) hend m _ (by assumption)
    · -- w s0 = p ++ m : still inside the first writer
      rcases hone p m hm with h | h
      · rw [h]; exact h0
      · rw [h]; exact hn

/-- … and what has been published stays published: when the destination shows a complete new content (an element
    of `news`: some operation has succeeded), every later state under any number of further serialised writers —
    successful, failed or interrupted — shows a complete new content again (never the absent / older state, never a
    fragment). -/
theorem serialised_writers_keep_published (dest : Path) (news : List Obs) (ws : List Writer)
    (hw : ∀ w ∈ ws, ∀ s, vview s dest ∈ news → ∃ n ∈ news, safePublishDir s dest (vview s dest) n (w s) = true)
    (s0 : FS) (h0 : vview s0 dest ∈ news) (p q : List Call) (hpq : serialRuns s0 ws = p ++ q) :
    vview (run s0 p) dest ∈ news :=
  serialised_writers_atomic dest (· ∈ news) ws
    (fun w hwm s hs => by obtain ⟨n, hn, h⟩ := hw w hwm s hs; exact ⟨n, hn, h⟩) s0 h0 p q hpq

/-- The assumption "writers of one destination are serialised" is DISCHARGED for archive unpacking by the lock that
    `UnpackArchive` takes in the source (regenerated: `PB.Gen.FsDownload.unpackLock`, 2 = exclusive): every combined
    run of two unpackers the model admits shows, after every prefix, an allowed state. With `RLock` or no lock
    (`unpackLock` ≠ 2) this proof fails — and the statement is false, see `two_unpackers_need_the_lock`. -/
theorem unpack_two_writers_atomic (dest : Path) (P : Obs → Prop) (wa wb : Writer)
    (ha : ∀ s, P (vview s dest) → ∃ n, P n ∧ safePublishDir s dest (vview s dest) n (wa s) = true)
    (hb : ∀ s, P (vview s dest) → ∃ n, P n ∧ safePublishDir s dest (vview s dest) n (wb s) = true)
    (s0 : FS) (h0 : P (vview s0 dest)) (t : List Call) (ht : TwoUnpackRuns unpackLockKind s0 wa wb t)
    (p q : List Call) (hpq : t = p ++ q) : P (vview (run s0 p) dest) := by
  have hk : unpackLockKind = 2 := rfl
  unfold TwoUnpackRuns at ht
  rw [if_pos hk] at ht
  rcases ht with ht | ht
  · exact serialised_writers_atomic dest P [wa, wb]
      (by intro w hw; simp only [List.mem_cons, List.not_mem_nil, or_false] at hw; rcases hw with rfl | rfl <;> assumption)
      s0 h0 p q (ht ▸ hpq)
  · exact serialised_writers_atomic dest P [wb, wa]
      (by intro w hw; simp only [List.mem_cons, List.not_mem_nil, or_false] at hw; rcases hw with rfl | rfl <;> assumption)
      s0 h0 p q (ht ▸ hpq)

/-! Writers that need NO serialisation: renameio's private temp files. -/

/-- Two renameio writers of ONE destination that are not serialised at all (two downloads / two File.Unpack of the
    same file, each with its own O_EXCL temp file and descriptor): EVERY interleaving of their two call sequences
    (924) is accepted by the single-file checker — readers and crash outcomes see old or new throughout — whether
    the destination was absent or held a previous file. Bounded: the concrete one-chunk content `oneChunk`
    (kernel exploration in Lemmas/FsInterleave.lean; `Interleave` is the inductive definition, unbounded). -/
theorem two_renameio_writers_any_interleaving :
    ∀ old ∈ [none, some (([⟨0, 0, 100⟩] : Content), 0o644)], ∀ t,
      Interleave (publishSeq tmpF destF 6 0o644 oneChunk) (publishSeq tmpF2 destF 7 0o600 oneChunk) t →
      safePublish (baseFS old) destF (baseOld old) (some (.file (written oneChunk), [])) t = true := by
  intro old hold t ht
  simp only [List.mem_cons, List.not_mem_nil, or_false] at hold
  rcases hold with rfl | rfl
  · exact List.all_eq_true.1 renameio_pair_explored_absent t (interleave_mem ht)
  · exact List.all_eq_true.1 renameio_pair_explored_file t (interleave_mem ht)

/-- … and that rests on the temp file being PRIVATE: with one shared temp name (opened O_TRUNC instead of
    O_EXCL under a fresh name) some interleaving publishes a fragment — B truncates what A is about to rename. -/
def sharedTmpSeq (fd : Nat) : List Call :=
  [.openC tmpF true false true 0o600 (some fd), .fchmod fd 0o644] ++ oneChunk.map (.write fd) ++
  [.fsync fd, .close fd, .rename tmpF destF]

theorem shared_temp_name_needs_serialisation :
    ∃ t, Interleave (sharedTmpSeq 6) (sharedTmpSeq 7) t ∧
      safePublish (baseFS none) destF none (some (.file (written oneChunk), [])) t = false := by
  refine ⟨(sharedTmpSeq 6).take 3 ++ (sharedTmpSeq 7).take 1 ++ (sharedTmpSeq 6).drop 3 ++ (sharedTmpSeq 7).drop 1, ?_, by decide⟩
  simp only [sharedTmpSeq, oneChunk, List.map, List.cons_append, List.nil_append, List.take, List.drop]
  repeat (first | exact Interleave.nil | apply Interleave.left | apply Interleave.right)

/-- Two unpackers of one archive (members `a.txt`, `b`) that are NOT serialised, as recorded from the code with
    `RLock` in `UnpackArchive`: both find the destination absent and work in the same name-derived temp directory
    `R/tmp/pack`; B truncates `b` just before A renames the directory into place; B's next open below the temp
    directory fails, and its error clean-up `os.RemoveAll(destDir)` removes what A published. -/
def exTwoUnpackers : List Call :=
  [.mkdir ["R", "tmp", "pack"] 0o700,                                                   -- A: EnsureAbsPath(tmpDir)
   .openC ["R", "tmp", "pack", "a.txt"] true false true 0o644 (some 6), .write 6 ⟨1, 0, 10⟩, .close 6,   -- A: a.txt
   .mkdir ["R", "tmp", "pack"] 0o700,                                                   -- B: EnsureAbsPath (EEXIST is fine)
   .openC ["R", "tmp", "pack", "a.txt"] true false true 0o644 (some 7), .write 7 ⟨1, 0, 10⟩, .close 7,   -- B: a.txt again
   .openC ["R", "tmp", "pack", "b"] true false true 0o600 (some 6), .write 6 ⟨2, 0, 7⟩, .close 6,        -- A: b
   .openC ["R", "tmp", "pack", "b"] true false true 0o600 (some 7),                     -- B: b, O_TRUNC
   .rename ["R", "tmp", "pack"] ["R", "dst", "pack"],                                   -- A: publishes, returns nil
   .write 7 ⟨2, 0, 7⟩, .close 7,                                                        -- B: goes on writing below the destination
   .rename ["R", "tmp", "pack"] ["R", "dst", "pack"],                                   -- B: ENOENT → error
   .unlink ["R", "dst", "pack", "a.txt"], .unlink ["R", "dst", "pack", "b"], .rmdir ["R", "dst", "pack"]] -- B: RemoveAll(destDir)

def exTree2 : Obs := some (.dir, [(["a.txt"], .file [⟨1, 0, 10⟩]), (["b"], .file [⟨2, 0, 7⟩])])

/-- The lock is needed: the unserialised interleaving above is rejected by the checker; a reader sees the directory
    with an EMPTY member right after A's rename (a fragment), and at the end — A has returned nil — the destination
    is absent again. (The same two runs one after the other are accepted: B finds the destination and does nothing.) -/
theorem two_unpackers_need_the_lock :
    safePublishDir (baseFS none) ["R", "dst", "pack"] none exTree2 exTwoUnpackers = false ∧
    vview (run (baseFS none) (exTwoUnpackers.take 13)) ["R", "dst", "pack"]
      = some (.dir, [(["a.txt"], .file [⟨1, 0, 10⟩]), (["b"], .file [])]) ∧
    vview (run (baseFS none) exTwoUnpackers) ["R", "dst", "pack"] = none := by
  decide

/-- one unpacker alone, and a second one after it (finds the destination: no calls) — accepted, ends published -/
def exOneUnpacker : Writer := fun s =>
  if (lookup s.names ["R", "dst", "pack"]).isSome then [] else
  [.mkdir ["R", "tmp", "pack"] 0o700,
   .openC ["R", "tmp", "pack", "a.txt"] true false true 0o644 (some 6), .write 6 ⟨1, 0, 10⟩, .close 6,
   .openC ["R", "tmp", "pack", "b"] true false true 0o600 (some 6), .write 6 ⟨2, 0, 7⟩, .close 6,
   .rename ["R", "tmp", "pack"] ["R", "dst", "pack"], .chmod ["R", "dst", "pack"] 0o755]

example : safePublishDir (baseFS none) ["R", "dst", "pack"] none exTree2
    (serialRuns (baseFS none) [exOneUnpacker, exOneUnpacker]) = true := by decide
example : vview (run (baseFS none) (serialRuns (baseFS none) [exOneUnpacker, exOneUnpacker])) ["R", "dst", "pack"] = exTree2 := by decide
example : TwoUnpackRuns unpackLockKind (baseFS none) exOneUnpacker exOneUnpacker
    (serialRuns (baseFS none) [exOneUnpacker, exOneUnpacker]) := by
  unfold TwoUnpackRuns; rw [if_pos (show unpackLockKind = 2 from rfl)]; exact Or.inl rfl

end PB.C17
