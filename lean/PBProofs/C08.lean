import PBProofs.Lemmas.Record
import PBProofs.C10
import PB.Gen.Record
/-
C08 — Stored-record format round-trips and its decoder is total.
-/
namespace PB.C08
open PB PB.Varint PB.Record

/-! ### The regenerated source tables coincide with the layout the model (and the proofs) use -/

theorem layout_matches_source :
    PB.Gen.Record.size = 34 ∧
    PB.Gen.Record.marshalInts = layoutInts ∧ PB.Gen.Record.marshalFlags = layoutMarshalFlags ∧
    PB.Gen.Record.unmarshalInts = layoutInts ∧ PB.Gen.Record.unmarshalFlags = layoutUnmarshalFlags ∧
    PB.Gen.Record.dsdAUTO = fAUTO ∧ PB.Gen.Record.dsdRAW = fRAW ∧ PB.Gen.Record.dsdCBOR = fCBOR ∧
    PB.Gen.Record.dsdGenCode = fGenCode ∧ PB.Gen.Record.dsdJSON = fJSON ∧ PB.Gen.Record.dsdMsgPack = fMsgPack ∧
    PB.Gen.Record.dsdYAML = fYAML ∧ PB.Gen.Record.dsdGZIP = fGZIP := by decide

/-- Every DSD format identifier fits the single-byte varint the parser reads for the data format
    (the marshal side writes the identifier as one raw byte). -/
theorem all_dsd_formats_lt_128 :
    ∀ f ∈ [PB.Gen.Record.dsdAUTO, PB.Gen.Record.dsdRAW, PB.Gen.Record.dsdCBOR, PB.Gen.Record.dsdGenCode,
      PB.Gen.Record.dsdJSON, PB.Gen.Record.dsdMsgPack, PB.Gen.Record.dsdYAML, PB.Gen.Record.dsdGZIP], f < 128 := by
  decide

/-! ### Round trips -/

/-- Little-endian int64 encoding round-trips over the full range, both signs. -/
theorem int64_le_roundtrip (x : Int) (h : inInt64 x) :
    ∃ b0 b1 b2 b3 b4 b5 b6 b7, encodeLE x = [b0, b1, b2, b3, b4, b5, b6, b7] ∧ decodeLE b0 b1 b2 b3 b4 b5 b6 b7 = x :=
  ⟨_, _, _, _, _, _, _, _, rfl, decodeLE_encode x h⟩

/-- The six metadata fields survive the gencode form exactly; exactly 34 bytes are produced and trailing
    bytes are ignored. -/
theorem meta_gencode_roundtrip (m : Meta) (wf : m.InRange) (rest : Bytes) :
    genCodeUnmarshal (genCodeMarshal m ++ rest) = some m ∧ (genCodeMarshal m).length = 34 :=
  ⟨genCode_roundtrip m wf rest, genCodeMarshal_length m⟩

/-- Parsing a version byte followed by a block `pre` whose content `ms` loads as `m`, followed by `dsec`. -/
theorem newRawWrapper_of_block (pre ms dsec : Bytes) (m : Meta)
    (hb : getNextBlock (pre ++ dsec) = .ok (ms, pre.length)) (hl : loadMeta ms = .ok m) :
    newRawWrapper (1 :: (pre ++ dsec)) =
      if m.deleted > 0 then .ok ⟨m, fRAW, dsec⟩
      else match unpack8 dsec with
        | .error e => .err (.format e.str)
        | .ok (f, k) => .ok ⟨m, f, dsec.drop k⟩ := by
  have hd1 : List.drop (1 + pre.length) (1 :: (pre ++ dsec)) = dsec := by
    rw [Nat.add_comm, List.drop_succ_cons, List.drop_left]
  have hd2 : ∀ k, List.drop (1 + pre.length + k) (1 :: (pre ++ dsec)) = dsec.drop k := by
    intro k
    rw [show 1 + pre.length + k = (pre.length + k) + 1 by omega, List.drop_succ_cons, List.drop_append,
      List.drop_of_length_le (by omega)]
    simp
  unfold newRawWrapper
  simp only [unpack8, show ((1 : UInt8).toNat < 128) from by decide, if_true,
    show ¬ ((1 : UInt8).toNat ≠ 1) from by decide, if_false, List.drop_succ_cons, List.drop_zero, hb, hl, hd1, hd2]
  by_cases hd : m.deleted > 0
  · simp [hd]
  · simp only [hd, if_false]
    cases unpack8 dsec with
    | error e => rfl
    | ok p => rfl

/-- Wrapped raw data: same metadata, same format, byte-identical data; no data for deleted records. -/
theorem wrapper_roundtrip (m : Meta) (wf : m.InRange) (fmt : UInt8) (hfmt : fmt.toNat < 128) (data : Bytes) :
    newRawWrapper (marshalWrapper m fmt data) =
      .ok ⟨m, if m.deleted > 0 then fRAW else fmt.toNat, if m.deleted > 0 then [] else data⟩ := by
  unfold marshalWrapper
  rw [marshalRecord_flat]
  obtain ⟨r, hr, hm⟩ := loadMeta_metaSection m wf
  have hlen : (metaSection m).length < 2 ^ 64 := by
    rw [metaSection_eq]; simp [genCodeMarshal_length]
  have hblock := PB.C10.getNextBlock_prependLength (metaSection m) (wrapperDataSection m fmt data) hlen
  unfold prependLength at hblock
  cases r with
  | err e => exact hm.elim
  | delegated f => exact hm.elim
  | ok m' =>
    simp only at hm
    subst hm
    have key := newRawWrapper_of_block (pack64 (metaSection m').length ++ metaSection m') (metaSection m')
      (wrapperDataSection m' fmt data) m' hblock hr
    rw [show [1] ++ (pack64 (metaSection m').length ++ (metaSection m' ++ wrapperDataSection m' fmt data))
          = 1 :: ((pack64 (metaSection m').length ++ metaSection m') ++ wrapperDataSection m' fmt data) by simp]
    rw [key]
    by_cases hd : m'.deleted > 0
    · simp [hd, wrapperDataSection]
    · simp [hd, wrapperDataSection, unpack8, hfmt]

/-- A typed record (JSON codec as a parameter with its round-trip contract): the parsed wrapper carries the
    same metadata, reports JSON, and unwrapping its data yields the original value. -/
theorem base_roundtrip {α : Type} (enc : α → Bytes) (dec : Bytes → Option α) (hcodec : ∀ v, dec (enc v) = some v)
    (m : Meta) (wf : m.InRange) (hlive : ¬ m.deleted > 0) (v : α) :
    ∃ w, newRawWrapper (marshalBase m (enc v)) = .ok w ∧ w.md = m ∧ w.format = fJSON ∧ dec w.data = some v := by
  have h := wrapper_roundtrip m wf 74 (by decide) (enc v)
  simp only [hlive, if_false] at h
  refine ⟨⟨m, fJSON, enc v⟩, ?_, rfl, rfl, hcodec v⟩
  have : marshalBase m (enc v) = marshalWrapper m 74 (enc v) := by
    simp [marshalBase, marshalWrapper, wrapperDataSection, hlive, pack8, fJSON]
  rw [this, h]; rfl

/-- Deleted typed records carry no data section. -/
theorem base_deleted_no_data (m : Meta) (wf : m.InRange) (hdel : m.deleted > 0) (json : Bytes) :
    newRawWrapper (marshalBase m json) = .ok ⟨m, fRAW, []⟩ := by
  have h := wrapper_roundtrip m wf 74 (by decide) json
  simp only [hdel, if_true] at h
  have : marshalBase m json = marshalWrapper m 74 json := by
    simp [marshalBase, marshalWrapper, wrapperDataSection, hdel]
  rw [this, h]

/-! ### The parser validates every length against the input -/

/-- Success implies that the version byte, the meta block (whose declared length was checked against the
    input) and the format byte all lie inside the input, and the returned data is exactly the rest of the
    input: nothing is read beyond it, nothing is invented. -/
theorem parse_bounded (bs : Bytes) (w : Wrapper) (h : newRawWrapper bs = .ok w) :
    ∃ hdr metaLen k, 0 < hdr ∧ hdr + metaLen + k ≤ bs.length ∧ k ≤ 2 ∧
      (∃ ms, getNextBlock (bs.drop hdr) = .ok (ms, metaLen) ∧ loadMeta ms = .ok w.md) ∧
      w.data = bs.drop (hdr + metaLen + k) := by
  unfold newRawWrapper at h
  cases hv : unpack8 bs with
  | error e => simp [hv] at h
  | ok p =>
    obtain ⟨version, off⟩ := p
    obtain ⟨o1, o2, _, _⟩ := PB.C10.unpack8_sound bs version off hv
    simp only [hv] at h
    by_cases hver : version ≠ 1
    · simp [hver] at h
    · simp only [hver, if_false] at h
      cases hb : getNextBlock (bs.drop off) with
      | error e => simp [hb] at h
      | ok q =>
        obtain ⟨ms, n⟩ := q
        obtain ⟨b1, _⟩ := PB.C10.getNextBlock_sound (bs.drop off) ms n hb
        simp only [List.length_drop] at b1
        simp only [hb] at h
        cases hl : loadMeta ms with
        | err e => simp [hl] at h
        | delegated f => simp [hl] at h
        | ok m =>
          simp only [hl] at h
          by_cases hd : m.deleted > 0
          · simp only [hd, if_true, Parsed.ok.injEq] at h
            subst h
            exact ⟨off, n, 0, o1, by omega, by omega, ⟨ms, hb, hl⟩, rfl⟩
          · simp only [hd, if_false] at h
            cases hf : unpack8 (bs.drop (off + n)) with
            | error e => simp [hf] at h
            | ok r =>
              obtain ⟨fmt, k⟩ := r
              obtain ⟨f1, f2, _, f4⟩ := PB.C10.unpack8_sound _ fmt k hf
              simp only [List.length_drop] at f2
              simp only [hf, Parsed.ok.injEq] at h
              subst h
              have hk : k ≤ 2 := by
                have := congrArg List.length f4
                simp [pack8] at this
                split at this <;> simp at this <;> omega
              exact ⟨off, n, k, o1, by omega, hk, ⟨ms, hb, hl⟩, rfl⟩

/-- The parser is a total function (by construction) and every outcome is one of: a record, an error, or a
    meta section in a third-party codec (outside the model, exercised on the implementation only). -/
theorem parse_total (bs : Bytes) :
    (∃ w, newRawWrapper bs = .ok w) ∨ (∃ e, newRawWrapper bs = .err e) ∨ (∃ f, newRawWrapper bs = .delegated f) := by
  cases newRawWrapper bs with
  | ok w => exact Or.inl ⟨w, rfl⟩
  | err e => exact Or.inr (Or.inl ⟨e, rfl⟩)
  | delegated f => exact Or.inr (Or.inr ⟨f, rfl⟩)

/-- Keys: `db:key` splits at the first colon and re-joins to the same key. -/
theorem key_roundtrip (db key : List Char) (h : ':' ∉ db) :
    parseKey (db ++ ':' :: key) = (db, key) := by
  have : splitColon (db ++ ':' :: key) = (db, some key) := by
    induction db with
    | nil => simp [splitColon]
    | cons c db ih =>
      have hc : c ≠ ':' := fun hh => h (by simp [hh])
      have hdb : ':' ∉ db := fun hh => h (by simp [hh])
      simp [splitColon, hc, ih hdb]
  simp [parseKey, this]

/-! ### Key accessors of `Base` (SetKey / ResetKey / Key / KeyIsSet / DatabaseName / DatabaseKey) -/

/-- Splitting at the first colon and joining with a colon gives the key back, for every key with a colon. -/
theorem parseKey_join (s : List Char) (h : ':' ∈ s) : (parseKey s).1 ++ ':' :: (parseKey s).2 = s := by
  have aux : ∀ s : List Char, ':' ∈ s → ∃ rest, splitColon s = ((splitColon s).1, some rest) ∧ (splitColon s).1 ++ ':' :: rest = s := by
    intro s
    induction s with
    | nil => intro h; simp at h
    | cons c cs ih =>
      intro h
      by_cases hc : c = ':'
      · subst hc; exact ⟨cs, by simp [splitColon], by simp [splitColon]⟩
      · have hin : ':' ∈ cs := by
          rcases List.mem_cons.mp h with h1 | h1
          · exact absurd h1.symm hc
          · exact h1
        obtain ⟨rest, e1, e2⟩ := ih hin
        refine ⟨rest, ?_, ?_⟩
        · simp only [splitColon, hc, if_false]; rw [e1]
        · simp only [splitColon, hc, if_false, List.cons_append]; rw [e2]
  obtain ⟨rest, e1, e2⟩ := aux s h
  unfold parseKey
  rw [e1]
  exact e2

/-- Setting `db:key` on a record without key and reading it back: name, key and full key are the ones set. -/
theorem setKey_roundtrip (db key : List Char) (h : ':' ∉ db) :
    (Base.fresh.setKey (db ++ ':' :: key)).databaseName = db ∧
    (Base.fresh.setKey (db ++ ':' :: key)).databaseKey = key ∧
    (Base.fresh.setKey (db ++ ':' :: key)).key = db ++ ':' :: key ∧
    (Base.fresh.setKey (db ++ ':' :: key)).keyIsSet = decide (db ≠ []) := by
  have hp := key_roundtrip db key h
  simp [Base.setKey, Base.fresh, Base.keyIsSet, Base.databaseName, Base.databaseKey, Base.key, hp]

/-- "The key may only be set once and future calls to SetKey will be ignored." -/
theorem setKey_once (b : Base) (h : b.keyIsSet = true) (k : List Char) : b.setKey k = b := by
  simp [Base.setKey, h]

/-- `ResetKey` clears both parts; afterwards `SetKey` works as on a new record. -/
theorem resetKey_unsets (b : Base) :
    b.resetKey.keyIsSet = false ∧ b.resetKey.databaseName = [] ∧ b.resetKey.databaseKey = [] ∧
    ∀ k, b.resetKey.setKey k = Base.fresh.setKey k := by
  simp [Base.resetKey, Base.keyIsSet, Base.databaseName, Base.databaseKey, Base.fresh]

/-- What `Unwrap` does with the key (`r.SetKey(wrapped.Key())`): a record without key takes over the full
    key of any other record unchanged — also when the database name itself contains a colon or is empty
    (the two parts may then be split differently; `Key()` is the same). -/
theorem key_transfer (r b : Base) (hr : r.keyIsSet = false) : (r.setKey b.key).key = b.key := by
  have hin : ':' ∈ b.key := by simp [Base.key]
  have := parseKey_join b.key hin
  simp only [Base.setKey, hr]
  simpa [Base.key] using this

/-! ### `Marshal` and `MarshalRecord`: layout relation and error exits -/

/-- `Wrapper.Marshal(r, dsd.AUTO)`: nothing for a deleted record, else the format byte and the data. -/
theorem wrapperMarshal_auto (m : Meta) (f : UInt8) (d : Bytes) :
    wrapperMarshal (some m) f d 0 = .ok (if m.deleted > 0 then none else some (f :: d)) := by
  unfold wrapperMarshal
  by_cases hd : m.deleted > 0
  · simp [hd]
  · simp [hd, fAUTO]

/-- An explicit format must be the wrapper's own format; any other is refused (for live records). -/
theorem wrapperMarshal_format (m : Meta) (hlive : ¬ m.deleted > 0) (wf format : UInt8) (d : Bytes)
    (hf : format.toNat ≠ fAUTO) :
    wrapperMarshal (some m) wf d format = if format = wf then .ok (some (wf :: d)) else .error .formatMismatch := by
  unfold wrapperMarshal
  by_cases he : format = wf
  · simp [hlive, he]
  · simp [hlive, he, hf]

/-- `MarshalRecord = [version 1] ++ length-prefixed meta section ++ Marshal(AUTO)` for wrappers … -/
theorem wrapper_marshalRecord_layout (m : Meta) (f : UInt8) (d : Bytes) :
    ∃ ds, wrapperMarshal (some m) f d 0 = .ok ds ∧
      wrapperMarshalRecord (some m) f d = .ok ([1] ++ (prependLength (metaSection m) ++ ds.getD [])) ∧
      wrapperMarshalRecord (some m) f d = .ok (marshalWrapper m f d) := by
  refine ⟨_, wrapperMarshal_auto m f d, ?_, ?_⟩
  · simp only [wrapperMarshalRecord]
    have h0 : (UInt8.ofNat fAUTO) = 0 := rfl
    rw [h0, wrapperMarshal_auto]
    simp only [marshalRecord_flat]
    simp [prependLength]
  · simp only [wrapperMarshalRecord, marshalWrapper, wrapperDataSection]
    have h0 : (UInt8.ofNat fAUTO) = 0 := rfl
    rw [h0, wrapperMarshal_auto]
    by_cases hd : m.deleted > 0 <;> simp [hd]

/-- … and for typed records, `dump` being `dsd.Dump(self, ·)`: if the JSON dump is `[JSON] ++ json` the
    result is the layout `marshalBase` describes (which the round-trip theorems are about); a deleted record
    never reaches the codec. -/
theorem base_marshalRecord_layout (m : Meta) (dump : Nat → Option Bytes) (json : Bytes)
    (hdump : dump fJSON = some (pack8 fJSON ++ json)) :
    baseMarshalRecord (some m) dump = .ok (marshalBase m json) ∧
    baseMarshalRecord (some m) dump
      = .ok ([1] ++ (prependLength (metaSection m) ++ (if m.deleted > 0 then [] else pack8 fJSON ++ json))) := by
  have e : baseMarshalRecord (some m) dump = .ok (marshalBase m json) := by
    simp only [baseMarshalRecord, baseMarshal, marshalBase]
    by_cases hd : m.deleted > 0 <;> simp [hd, hdump]
  refine ⟨e, ?_⟩
  rw [e, marshalBase, marshalRecord_flat]
  simp [prependLength]

theorem base_marshalRecord_deleted (m : Meta) (hd : m.deleted > 0) (dump : Nat → Option Bytes) :
    baseMarshalRecord (some m) dump = .ok (marshalBase m []) := by
  simp [baseMarshalRecord, baseMarshal, marshalBase, hd]

/-- The error exits: a record without metadata cannot be serialised by any of the four functions; a failing
    codec fails `Marshal` and `MarshalRecord` of a live typed record (no partial output). -/
theorem marshal_error_exits (wf format : UInt8) (d : Bytes) (dump : Nat → Option Bytes) (fmt : Nat) :
    wrapperMarshal none wf d format = .error .missingMeta ∧ wrapperMarshalRecord none wf d = .error .missingMeta ∧
    baseMarshal none dump fmt = .error .missingMeta ∧ baseMarshalRecord none dump = .error .missingMeta ∧
    (∀ m : Meta, ¬ m.deleted > 0 → dump fJSON = none → baseMarshalRecord (some m) dump = .error .codec) ∧
    (∀ m : Meta, ¬ m.deleted > 0 → dump fmt = none → baseMarshal (some m) dump fmt = .error .codec) := by
  refine ⟨rfl, rfl, rfl, rfl, ?_, ?_⟩
  · intro m hl hd; simp [baseMarshalRecord, baseMarshal, hl, hd]
  · intro m hl hd; simp [baseMarshal, hl, hd]

/-! ### `Unwrap` on the real path -/

/-- A typed record serialised with `Base.MarshalRecord`, parsed with `NewRawWrapper(db, key, ·)` and unwrapped
    into a new record of its type gives the original back: same value (JSON codec as a parameter with its
    round-trip contract), the same metadata, the same key. -/
theorem unwrap_roundtrip {α : Type} (enc : α → Bytes) (dec : Bytes → Option α) (hcodec : ∀ v, dec (enc v) = some v)
    (m : Meta) (wf : m.InRange) (hlive : ¬ m.deleted > 0) (v : α) (db key : List Char)
    (r : Typed α) (hr : r.base.keyIsSet = false) :
    ∃ w r', newRawWrapper (marshalBase m (enc v)) = .ok w ∧
      unwrap (fun f d => if f = fJSON then dec d else none) (some (⟨db, key⟩, w)) r = .ok r' ∧
      r'.val = v ∧ r'.md = some m ∧ r'.base.key = db ++ ':' :: key := by
  obtain ⟨w, hw, hm, hf, hd⟩ := base_roundtrip enc dec hcodec m wf hlive v
  refine ⟨w, ⟨r.base.setKey (Base.key ⟨db, key⟩), some w.md, v⟩, hw, ?_, rfl, by simp [hm], ?_⟩
  · simp [unwrap, hf, hd]
  · exact key_transfer r.base ⟨db, key⟩ hr

/-- `Unwrap` fails (and returns no record) for a first argument that is not a wrapper and for data the codec
    rejects; a target that already has a key keeps it (`SetKey` is ignored), as the code is written. -/
theorem unwrap_exits {α : Type} (load : Nat → Bytes → Option α) (wb : Base) (w : Wrapper) (r : Typed α) :
    unwrap load none r = .error .notWrapper ∧
    (load w.format w.data = none → unwrap load (some (wb, w)) r = .error .load) ∧
    (∀ v, load w.format w.data = some v → r.base.keyIsSet = true →
      unwrap load (some (wb, w)) r = .ok ⟨r.base, some w.md, v⟩) := by
  refine ⟨rfl, ?_, ?_⟩
  · intro h; simp [unwrap, h]
  · intro v h hk; simp [unwrap, h, setKey_once r.base hk]

/-- `Meta.Duplicate` copies all six fields. -/
theorem meta_duplicate (m : Meta) : m.duplicate = m := rfl

/-! ### Non-vacuity -/

example : Meta.InRange ⟨-(2^63), 2^63 - 1, 1700000000, 0, true, false⟩ := by decide
example : newRawWrapper (marshalWrapper ⟨-1, 5, 0, 0, true, false⟩ 74 [0x7b, 0x7d])
    = .ok ⟨⟨-1, 5, 0, 0, true, false⟩, 74, [0x7b, 0x7d]⟩ := by
  have := wrapper_roundtrip ⟨-1, 5, 0, 0, true, false⟩ (by decide) 74 (by decide) [0x7b, 0x7d]
  simpa using this
example : newRawWrapper [1, 0xff, 0xff, 0xff, 0xff, 0xff, 0xff, 0xff, 0xff, 0xff, 0x01, 71] = .err (.metaBlock "nodata") := by
  simp [newRawWrapper, unpack8, getNextBlock, unpack64, uvarint, uvarintAux, Err.str]
example : (Base.fresh.setKey "core:config/x:y".toList).databaseKey = "config/x:y".toList := by decide
example : ((Base.fresh.setKey "a:b".toList).setKey "c:d".toList).key = "a:b".toList := by decide
example : ((Base.fresh.setKey "nocolon".toList)).key = "nocolon:".toList := by decide
example : (Base.fresh.setKey (Base.key ⟨"a:b".toList, "c".toList⟩)) = ⟨"a".toList, "b:c".toList⟩ := by decide
example : wrapperMarshal (some ⟨0, 0, 0, 0, false, false⟩) 74 [1] 67 = .error .formatMismatch := by decide
example : wrapperMarshalRecord (some ⟨1, 2, 3, 4, false, true⟩) 74 [1, 2] = .ok (marshalWrapper ⟨1, 2, 3, 4, false, true⟩ 74 [1, 2]) :=
  (wrapper_marshalRecord_layout _ _ _).choose_spec.2.2

end PB.C08
