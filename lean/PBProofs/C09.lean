import PBProofs.Lemmas.Dsd
/-
C09 — DSD dump/load round-trips in every format, compressed or over HTTP.
Property theorems only (helper lemmas live in PBProofs/Lemmas/Dsd.lean, the codec contract `Codec.Sound` and
the independent reading of Accept headers in PB/Spec/Dsd.lean). All theorems hold for every value type `V`,
every codec satisfying the contract, every value, every byte string / header string.
-/
namespace PB.C09
open PB PB.Varint PB.Dsd PB.Gen.Dsd

variable {V : Type}

/-! ### Dump: what is written (identifier = the format actually used, also for AUTO) -/

theorem dump_eq (c : Codec V) (v : V) (f : Nat) (hf : f ∈ dumpableFormats) :
    ∃ l, libOf (resolve f) = some l ∧
      dump c v f = (match c.enc l v with
                    | some p => .ok (pack8 (resolve f) ++ p)
                    | none => .error .codec) := by
  obtain ⟨h1, h2, h3, _, _, _⟩ := dumpable_table f hf
  obtain ⟨l, hl⟩ := Option.isSome_iff_exists.mp h3
  refine ⟨l, hl, ?_⟩
  have hd : lookup (resolve f) dumpDispatch = some (.lib l) := by
    unfold libOf at hl
    split at hl <;> simp_all
  simp only [dump, dumpIndent, h1, dumpWithoutIdentifier, h2, hd]
  cases c.enc l v <;> simp

/-! ### Load ∘ Dump, every format, AUTO included: equal value, and the format reported is the one dumped in -/

theorem load_dump (c : Codec V) (hc : c.Sound) (v : V) (f : Nat) (hf : f ∈ dumpableFormats) (blob : Bytes)
    (hd : dump c v f = .ok blob) : load c blob = (resolve f, .ok v) := by
  obtain ⟨l, hl, he⟩ := dump_eq c v f hf
  obtain ⟨_, h2, _, h4, h5, h6⟩ := dumpable_table f hf
  have hld : lookup (resolve f) loadDispatch = some (.lib l) := by
    rw [h4]; unfold libOf at hl; split at hl <;> simp_all
  rw [he] at hd
  cases hp : c.enc l v with
  | none => simp [hp] at hd
  | some p =>
    simp only [hp] at hd
    injection hd with hd
    subst hd
    have hne := hc.enc_ne l v p hp
    simp only [load, loadFormat_pack8 _ h5 p (Or.inl hne), h2, drop_pack8 _ h5, loadAsFormat, hld,
      hc.dec_enc l v p hp]

/-- The same through `DumpIndent` with any indent string the JSON encoder round-trips. -/
theorem load_dumpIndent (c : Codec V) (hc : c.Sound) (v : V) (f : Nat) (hf : f ∈ dumpableFormats) (indent : Str)
    (blob : Bytes) (hd : dumpIndent c v f indent = .ok blob) : load c blob = (resolve f, .ok v) := by
  obtain ⟨h1, h2, h3, h4, h5, h6⟩ := dumpable_table f hf
  obtain ⟨l, hl⟩ := Option.isSome_iff_exists.mp h3
  have hdd : lookup (resolve f) dumpDispatch = some (.lib l) := by
    unfold libOf at hl; split at hl <;> simp_all
  have hld : lookup (resolve f) loadDispatch = some (.lib l) := by rw [h4]; exact hdd
  simp only [dumpIndent, h1, dumpWithoutIdentifier, h2, hdd] at hd
  by_cases hi : l = .json ∧ indent ≠ []
  · rw [if_pos hi] at hd
    cases hp : c.encIndent indent v with
    | none => simp [hp] at hd
    | some p =>
      simp only [hp] at hd
      injection hd with hd
      subst hd
      have hne := hc.encIndent_ne indent v p hp
      have hdec := hc.dec_encIndent indent v p hp
      simp only [load, loadFormat_pack8 _ h5 p (Or.inl hne), h2, drop_pack8 _ h5, loadAsFormat, hld, hi.1, hdec]
  · rw [if_neg hi] at hd
    cases hp : c.enc l v with
    | none => simp [hp] at hd
    | some p =>
      simp only [hp] at hd
      injection hd with hd
      subst hd
      have hne := hc.enc_ne l v p hp
      simp only [load, loadFormat_pack8 _ h5 p (Or.inl hne), h2, drop_pack8 _ h5, loadAsFormat, hld,
        hc.dec_enc l v p hp]

/-! ### Compression -/

theorem dumpAndCompress_eq (c : Codec V) (v : V) (f cm : Nat) (hcm : cm ∈ compressionFormats) :
    dumpAndCompress c v f cm = (match dump c v f with
                                | .ok data => .ok (pack8 (resolveCompression cm) ++ c.gz data)
                                | .error e => .error e) := by
  obtain ⟨h1, _, h3, _⟩ := compression_table cm hcm
  simp only [dumpAndCompress, h1]
  cases dump c v f <;> simp [h3]

theorem load_dumpAndCompress (c : Codec V) (hc : c.Sound) (v : V) (f cm : Nat) (hf : f ∈ dumpableFormats)
    (hcm : cm ∈ compressionFormats) (blob : Bytes) (hd : dumpAndCompress c v f cm = .ok blob) :
    load c blob = (resolve f, .ok v) := by
  rw [dumpAndCompress_eq c v f cm hcm] at hd
  obtain ⟨_, h2, _, h4, h5, h6, h7⟩ := compression_table cm hcm
  cases hdump : dump c v f with
  | error e => simp [hdump] at hd
  | ok data =>
    simp only [hdump] at hd
    injection hd with hd
    subst hd
    have hl := load_dump c hc v f hf data hdump
    -- the inner blob, as `load` sees it
    obtain ⟨_, g2, _, _, _, _⟩ := dumpable_table f hf
    simp only [load, loadFormat_pack8 _ h5 _ (Or.inl (hc.gz_ne data)), h7, drop_pack8 _ h5,
      decompressAndLoad, h2, h4, ite_true, hc.gunz_gz]
    -- `load` on the inner blob took the serialization branch: read it off `hl`
    simp only [load] at hl
    cases hlf : loadFormat data with
    | error e => simp [hlf] at hl
    | ok fr =>
      obtain ⟨fmt, read⟩ := fr
      simp only [hlf] at hl
      cases hv : validateSerializationFormat fmt with
      | some x => simp only [hv] at hl; simpa using hl
      | none =>
        -- impossible: the inner identifier is a serialization format
        exfalso
        obtain ⟨l, _, he⟩ := dump_eq c v f hf
        obtain ⟨_, _, _, _, g5, _⟩ := dumpable_table f hf
        rw [he] at hdump
        cases hp : c.enc l v with
        | none => simp [hp] at hdump
        | some p =>
          simp only [hp] at hdump
          injection hdump with hdump
          subst hdump
          rw [loadFormat_pack8 _ g5 p (Or.inl (hc.enc_ne l v p hp))] at hlf
          injection hlf with hlf
          injection hlf with hf1 _
          subst hf1
          rw [g2] at hv
          cases hv

/-- `DecompressAndLoad` called directly on what follows the compression identifier. -/
theorem decompressAndLoad_gz (c : Codec V) (hc : c.Sound) (v : V) (f : Nat) (hf : f ∈ dumpableFormats)
    (data : Bytes) (hd : dump c v f = .ok data) :
    decompressAndLoad c (c.gz data) GZIP = (resolve f, .ok v) := by
  have hl := load_dumpAndCompress c hc v f GZIP hf (by decide) (pack8 GZIP ++ c.gz data)
    (by rw [dumpAndCompress_eq c v f GZIP (by decide), hd]; rfl)
  obtain ⟨_, _, _, _, h5, _, h7⟩ := compression_table GZIP (by decide)
  have hg : resolveCompression GZIP = GZIP := by decide
  rw [hg] at h5 h7
  simpa only [load, loadFormat_pack8 _ h5 _ (Or.inl (hc.gz_ne data)), h7, drop_pack8 _ h5] using hl

/-! ### RAW: the identifier is reported through ErrIsRaw, the payload is the dumped bytes (also when empty) -/

theorem dump_raw (c : Codec V) (v : V) :
    dump c v RAW = (match c.asBytes v with
                    | some b => .ok (pack8 RAW ++ b)
                    | none => .error .incompatible) := by
  obtain ⟨h1, h2, _, _⟩ := raw_table
  simp only [dump, dumpIndent, h1, dumpWithoutIdentifier, h2]
  cases c.asBytes v <;> simp

theorem load_dump_raw (c : Codec V) (b : Bytes) :
    load c (pack8 RAW ++ b) = (RAW, .error .israw) ∧ (pack8 RAW ++ b).drop 1 = b := by
  obtain ⟨h1, _, h3, h4⟩ := raw_table
  refine ⟨?_, drop_pack8 _ h4 b⟩
  simp only [load, loadFormat_pack8 _ h4 b (Or.inr rfl), h1, loadAsFormat, h3]

theorem load_dumpAndCompress_raw (c : Codec V) (hc : c.Sound) (b : Bytes) (cm : Nat) (hcm : cm ∈ compressionFormats) :
    load c (pack8 (resolveCompression cm) ++ c.gz (pack8 RAW ++ b)) = (RAW, .error .israw) := by
  obtain ⟨_, h2, _, h4, h5, _, h7⟩ := compression_table cm hcm
  obtain ⟨_, _, h3, g4⟩ := raw_table
  simp only [load, loadFormat_pack8 _ h5 _ (Or.inl (hc.gz_ne _)), h7, drop_pack8 _ h5, decompressAndLoad, h2, h4,
    ite_true, hc.gunz_gz, loadFormat_pack8 _ g4 b (Or.inr rfl), loadAsFormat, h3]

/-! ### Ids that are not serialization / compression formats are refused, nothing is written -/

theorem dump_rejects (c : Codec V) (v : V) (f : Nat) (h : validateSerializationFormat f = none) (indent : Str) :
    dumpIndent c v f indent = .error .incompatible ∧ dumpWithoutIdentifier c v f indent = .error .incompatible := by
  simp [dumpIndent, dumpWithoutIdentifier, h]

theorem dumpAndCompress_rejects (c : Codec V) (v : V) (f cm : Nat) (h : validateCompressionFormat cm = none) :
    dumpAndCompress c v f cm = .error .incompatible := by
  simp [dumpAndCompress, h]

/-! ### Soundness of Load on arbitrary bytes: a value only ever comes from the codec the identifier selects,
applied to exactly the bytes after the identifier (of the blob, or of the decompressed blob) -/

theorem load_sound (c : Codec V) (blob : Bytes) (f : Nat) (v : V) (h : load c blob = (f, .ok v)) :
    ∃ l, lookup f loadDispatch = some (.lib l) ∧
      ((∃ read, loadFormat blob = .ok (f, read) ∧ (validateSerializationFormat f).isSome = true ∧
          c.dec l (blob.drop read) = some v) ∨
       (∃ cm read plain read', loadFormat blob = .ok (cm, read) ∧ validateSerializationFormat cm = none ∧
          (validateCompressionFormat cm).isSome = true ∧ c.gunz (blob.drop read) = .ok plain ∧
          loadFormat plain = .ok (f, read') ∧ c.dec l (plain.drop read') = some v)) := by
  have laf : ∀ (d : Bytes) (g : Nat), loadAsFormat c d g = .ok v →
      ∃ l, lookup g loadDispatch = some (.lib l) ∧ c.dec l d = some v := by
    intro d g hg
    unfold loadAsFormat at hg
    split at hg
    · cases hg
    · rename_i l hl
      split at hg
      · rename_i v' hv
        injection hg with hg
        subst hg
        exact ⟨l, hl, hv⟩
      · cases hg
    · cases hg
  unfold load at h
  split at h
  · simp at h
  · rename_i fmt read hlf
    split at h
    · rename_i x hx
      simp only [Prod.mk.injEq] at h
      obtain ⟨h1, h2⟩ := h
      subst h1
      obtain ⟨l, hl, hd⟩ := laf _ _ h2
      exact ⟨l, hl, Or.inl ⟨read, hlf, by simp [hx], hd⟩⟩
    · rename_i hx
      unfold decompressAndLoad at h
      split at h
      · simp at h
      · rename_i y hy
        split at h
        · split at h
          · simp at h
          · rename_i plain hg
            split at h
            · simp at h
            · rename_i f' read' hlf'
              simp only [Prod.mk.injEq] at h
              obtain ⟨h1, h2⟩ := h
              subst h1
              obtain ⟨l, hl, hd⟩ := laf _ _ h2
              exact ⟨l, hl, Or.inr ⟨fmt, read, plain, read', hlf, hx, by simp [hy], hg, hlf', hd⟩⟩
        · simp at h

/-! ### FormatFromAccept: declarative characterisation, range, fix-point on the mime table -/

/-- The loop, said declaratively: the first element whose cleaned name is in `MimeTypeToFormat` decides; otherwise
    the default if some element cleans to `*`; otherwise AUTO; the empty header is the default. -/
theorem formatFromAccept_spec (a : Str) :
    formatFromAccept a =
      if a = [] then defaultSerializationFormat
      else match (splitOn 44 a).findSome? (fun e => lookup (cleanMime e) mimeTypeToFormat) with
        | some f => f
        | none => if (splitOn 44 a).any (fun e => cleanMime e == [42]) = true
                  then defaultSerializationFormat else AUTO := by
  unfold formatFromAccept
  by_cases ha : a = []
  · simp [ha]
  · simp only [ha, ite_false, ffaLoop_spec, Bool.false_or]
    rfl

theorem formatFromAccept_in_range (a : Str) :
    formatFromAccept a = AUTO ∨ formatFromAccept a ∈ defaultSerializationFormat :: mimeTypeToFormat.map Prod.snd :=
  formatFromAccept_range a

/-- The mime type written for a format is read back as that format (whole regenerated table). -/
theorem formatFromAccept_mime_fixpoint : ∀ p ∈ formatToMimeType, formatFromAccept p.2 = p.1 :=
  fun p hp => (mime_table p hp).1

/-- Every Accept header with an element that names a supported format or is a wildcard (independent reading of
    the grammar, PB/Spec/Dsd.lean) gets a format, and that format has a mime type. -/
theorem accept_named_or_wildcard (a : Str)
    (h : ∃ e ∈ splitOn 44 a, (∃ f, NamesFormat e f) ∨ IsWildcard e) :
    formatFromAccept a ≠ AUTO ∧ (lookup (formatFromAccept a) formatToMimeType).isSome = true := by
  have key : formatFromAccept a ∈ defaultSerializationFormat :: mimeTypeToFormat.map Prod.snd := by
    rw [formatFromAccept_spec]
    by_cases ha : a = []
    · simp [ha]
    · simp only [ha, ite_false]
      cases hf : (splitOn 44 a).findSome? (fun e => lookup (cleanMime e) mimeTypeToFormat) with
      | some f =>
        obtain ⟨e, _, he⟩ := findSome?_some_mem _ _ f hf
        exact List.mem_cons_of_mem _ (lookup_snd_mem _ _ _ he)
      | none =>
        have hnone := findSome?_none_all _ _ hf
        obtain ⟨e, hmem, hne⟩ := h
        have hw : cleanMime e = [42] := by
          rcases hne with ⟨f, sub, hsub, hl⟩ | hw
          · have := hnone e hmem
            rw [cleanMime_element e sub hsub, hl] at this
            cases this
          · have := cleanMime_element e [42] hw
            simpa [asciiLower] using this
        have : (splitOn 44 a).any (fun e => cleanMime e == [42]) = true :=
          List.any_eq_true.mpr ⟨e, hmem, by simp [hw]⟩
        simp [this]
  exact accept_range_table _ key

/-- The first element decides when it names a supported format. -/
theorem accept_first_named (e rest : Str) (f : Nat) (hc : 44 ∉ e) (h : NamesFormat e f) :
    formatFromAccept e = f ∧ formatFromAccept (e ++ 44 :: rest) = f := by
  obtain ⟨sub, hsub, hl⟩ := h
  have hclean := cleanMime_element e sub hsub
  have hne : e ≠ [] := by
    obtain ⟨ws, pre, tail, he, _, _, hs, _, _⟩ := hsub
    intro h0
    rw [h0] at he
    have : sub = [] := by
      have := congrArg List.length he
      simp at this
      exact List.eq_nil_of_length_eq_zero (by omega)
    exact hs this
  constructor
  · rw [formatFromAccept_spec]
    simp [hne, splitOn_single 44 e hc, hclean, hl]
  · rw [formatFromAccept_spec]
    have : e ++ 44 :: rest ≠ [] := by simp
    simp [this, splitOn_append 44 e rest hc, hclean, hl]

/-! ### HTTP: the content type names the encoding actually used; the other side recovers an equal value -/

theorem mimeDump_names_encoding (c : Codec V) (v : V) (a : Str) (data : Bytes) (mime : Str) (f : Nat)
    (h : mimeDump c v a = .ok (data, mime, f)) :
    f = formatFromAccept a ∧ lookup f formatToMimeType = some mime ∧ formatFromAccept mime = f ∧
      dumpWithoutIdentifier c v f [] = .ok data := by
  unfold mimeDump at h
  simp only at h
  split at h
  · cases h
  · split at h
    · cases h
    · rename_i m hm
      split at h
      · cases h
      · rename_i d hd
        injection h with h
        simp only [Prod.mk.injEq] at h
        obtain ⟨h1, h2, h3⟩ := h
        subst h1 h2 h3
        exact ⟨rfl, hm, (mime_table _ (lookup_mem _ _ _ hm)).1, hd⟩

theorem mimeLoad_mimeDump (c : Codec V) (hc : c.Sound) (v : V) (a : Str) (data : Bytes) (mime : Str) (f : Nat)
    (h : mimeDump c v a = .ok (data, mime, f)) : mimeLoad c data mime = (f, .ok v) := by
  obtain ⟨_, hm, hfix, hd⟩ := mimeDump_names_encoding c v a data mime f h
  have hne : f ≠ 0 := (mime_table _ (lookup_mem _ _ _ hm)).2.1
  simp only [mimeLoad, hfix, hne, ite_false, loadAsFormat_dumpWithoutIdentifier c hc v f mime hm data hd]

/-- Response side: whatever Accept header the request carries, if data is written then the Content-Type is the
    mime type of the format used, and `LoadFromHTTPResponse` returns that format and an equal value. -/
theorem http_response_roundtrip (c : Codec V) (hc : c.Sound) (v : V) (r : Req) (w : Resp)
    (h : dumpToHTTPResponse c {} r v = (w, none)) :
    ∃ mime, w.contentType = some mime ∧
      lookup (formatFromAccept (r.accept.getD [])) formatToMimeType = some mime ∧
      loadFromHTTPResponse c w = (formatFromAccept (r.accept.getD []), .ok v) := by
  unfold dumpToHTTPResponse at h
  split at h
  · simp at h
  · rename_i data mime f hmd
    simp only [Prod.mk.injEq, and_true] at h
    subst h
    obtain ⟨hf, hm, _, _⟩ := mimeDump_names_encoding c v _ data mime f hmd
    subst hf
    refine ⟨mime, rfl, hm, ?_⟩
    simpa [loadFromHTTPResponse] using mimeLoad_mimeDump c hc v _ data mime _ hmd

/-- ... and data *is* written for every Accept header that names a supported format or a wildcard (and every
    value the codecs can encode). -/
theorem http_response_succeeds (c : Codec V) (v : V) (r : Req) (henc : ∀ l, (c.enc l v).isSome = true)
    (h : ∃ e ∈ splitOn 44 (r.accept.getD []), (∃ f, NamesFormat e f) ∨ IsWildcard e) :
    ∃ w, dumpToHTTPResponse c {} r v = (w, none) := by
  obtain ⟨h1, h2⟩ := accept_named_or_wildcard _ h
  obtain ⟨mime, hm⟩ := Option.isSome_iff_exists.mp h2
  obtain ⟨data, hd⟩ := dumpWithoutIdentifier_succeeds c v _ mime hm henc
  refine ⟨{ contentType := some mime, body := [] ++ data }, ?_⟩
  simp [dumpToHTTPResponse, mimeDump, h1, hm, hd]

/-- Request side, every format that has a mime type. -/
theorem http_request_roundtrip (c : Codec V) (hc : c.Sound) (v : V) (r r' : Req) (f : Nat)
    (h : dumpToHTTPRequest c r v f = (r', none)) :
    ∃ mime, lookup f formatToMimeType = some mime ∧ r'.accept = some mime ∧ r'.contentType = some mime ∧
      formatFromAccept mime = f ∧ loadFromHTTPRequest c r' = (f, .ok v) := by
  unfold dumpToHTTPRequest at h
  split at h
  · simp at h
  · rename_i mime hm
    simp only at h
    split at h
    · simp at h
    · rename_i data hd
      simp only [Prod.mk.injEq, and_true] at h
      subst h
      have hfix := (mime_table _ (lookup_mem _ _ _ hm)).1
      have hne : f ≠ 0 := (mime_table _ (lookup_mem _ _ _ hm)).2.1
      simp only at hfix
      refine ⟨mime, hm, rfl, rfl, hfix, ?_⟩
      simp only [loadFromHTTPRequest, Option.getD_some, mimeLoad, hfix, hne, ite_false,
        loadAsFormat_dumpWithoutIdentifier c hc v f mime hm data hd]

/-- A format without mime type (AUTO, RAW, GenCode, anything else) is refused and the request is left untouched. -/
theorem http_request_rejects (c : Codec V) (v : V) (r : Req) (f : Nat) (h : lookup f formatToMimeType = none) :
    dumpToHTTPRequest c r v f = (r, some .incompatible) := by
  simp [dumpToHTTPRequest, h]

/-- The whole cycle: the client dumps a request in format `f`; the server answers with the format the request's
    Accept header asks for; the client loads the answer: format `f`, equal value. -/
theorem http_cycle (c : Codec V) (hc : c.Sound) (v v2 : V) (r r' : Req) (w : Resp) (f : Nat)
    (h1 : dumpToHTTPRequest c r v f = (r', none)) (h2 : dumpToHTTPResponse c {} r' v2 = (w, none)) :
    loadFromHTTPRequest c r' = (f, .ok v) ∧ loadFromHTTPResponse c w = (f, .ok v2) := by
  obtain ⟨mime, _, ha, _, hfix, hl⟩ := http_request_roundtrip c hc v r r' f h1
  obtain ⟨_, _, _, hl2⟩ := http_response_roundtrip c hc v2 r' w h2
  rw [ha] at hl2
  simp only [Option.getD_some, hfix] at hl2
  exact ⟨hl, hl2⟩

/-! ### Non-vacuity -/

example : dump toy [1, 2] AUTO = .ok (pack8 defaultSerializationFormat ++ [7, 1, 2]) ∧
    load toy (pack8 defaultSerializationFormat ++ [7, 1, 2]) = (defaultSerializationFormat, .ok [1, 2]) ∧
    load toy [74, 7, 1, 2] = (JSON, .ok [1, 2]) := by decide
example : dumpAndCompress toy [1, 2] CBOR AUTO = .ok [90, 31, 139, 67, 7, 1, 2] ∧
    load toy [90, 31, 139, 67, 7, 1, 2] = (CBOR, .ok [1, 2]) := by decide
example : dump toy [] RAW = .ok [1] ∧ load toy [1] = (RAW, .error .israw) := by decide
example : load toy [74] = (0, .error .eof) ∧ load toy [] = (0, .error .small) ∧
    load toy [200, 2, 0] = (0, .error .large) ∧ load toy [76, 1] = (0, .error .incompatible) ∧
    load toy [0, 7] = (0, .error .incompatible) ∧ load toy [90, 1] = (0, .error .gunzip) := by decide

example : formatFromAccept (str "application/json;q=0.9, image/webp") = JSON ∧
    formatFromAccept (str "image/webp, application/cbor") = CBOR ∧ formatFromAccept (str " * , yaml ") = YAML := by decide
example : formatFromAccept (str "text/xml, text/other") = AUTO ∧
    formatFromAccept (str "xml,*") = defaultSerializationFormat ∧
    formatFromAccept (str "text/*") = defaultSerializationFormat ∧
    formatFromAccept [] = defaultSerializationFormat := by decide
/-- whitespace before `;` is not accepted (pinned by the package's own test) -/
example : formatFromAccept (str "yaml ;charset") = AUTO := by decide
/-- Unicode: KELVIN SIGN lower-cases to `k`; NO-BREAK SPACE and IDEOGRAPHIC SPACE are trimmed -/
example : formatFromAccept (str "application/msgpac\u212a") = MsgPack ∧
    formatFromAccept (str "\u00a0json\u3000") = JSON := by decide
example : NamesFormat (str " text/yAMl;q=0.5") YAML :=
  ⟨str "yAMl", ⟨str " ", str "text/", str ";q=0.5", by decide, by decide, Or.inr ⟨str "text", by decide, by decide⟩,
    by decide, by decide, Or.inr ⟨str "q=0.5", by decide⟩⟩, by decide⟩
example : IsWildcard (str "*/*") :=
  ⟨[], str "*/", [], by decide, by decide, Or.inr ⟨str "*", by decide, by decide⟩, by decide, by decide, Or.inl (by decide)⟩
example : IsWildcard (str "\t* ") :=
  ⟨str "\t", [], str " ", by decide, by decide, Or.inl rfl, by decide, by decide, Or.inl (by decide)⟩
example : dumpToHTTPRequest toy {} [1, 2] CBOR =
    ({ accept := some (str "application/cbor"), contentType := some (str "application/cbor"), body := some [7, 1, 2] }, none) ∧
    dumpToHTTPRequest toy {} [1, 2] AUTO = ({}, some .incompatible) := by decide
example : dumpToHTTPResponse toy {} { accept := some (str "text/html, application/yaml;q=0.9, */*;q=0.8") } [1, 2] =
    ({ contentType := some (str "application/yaml"), body := [7, 1, 2] }, none) ∧
    loadFromHTTPResponse toy { contentType := some (str "application/yaml"), body := [7, 1, 2] } = (YAML, .ok [1, 2]) := by
  decide

end PB.C09
