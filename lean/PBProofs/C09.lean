import PBProofs.Lemmas.Dsd
/-
C09 — DSD dump/load round-trips in every format, compressed or over HTTP.
Property theorems only (helper lemmas live in PBProofs/Lemmas/Dsd.lean, the codec contract `Codec.Sound` and
the independent reading of Accept headers in PB/Spec/Dsd.lean). All theorems hold for every value type `V`,
every codec satisfying the contract, every value, every byte string / header string — and for every value of the
two assignable package variables `DefaultSerializationFormat` / `DefaultCompressionFormat` (`cfg`) on the dumping
side for which AUTO stands for a format of the property (`f = AUTO → cfg.SerOk`, `cm = AUTO → cfg.CompOk`,
`cfg.HttpOk` for wildcard Accept headers), and for EVERY value of them on the loading side (`cfg'`: the other side
of a connection, or the same process after the variables were assigned).
-/
namespace PB.C09
open PB PB.Varint PB.Dsd PB.Gen.Dsd

variable {V : Type}

/-! ### Dump: what is written (identifier = the format actually used, also for AUTO) -/

theorem dump_eq (cfg : Cfg) (c : Codec V) (v : V) (f : Nat) (hf : f ∈ dumpableFormats) (hcfg : f = AUTO → cfg.SerOk) :
    ∃ l, libOf (resolve cfg.defSer f) = some l ∧
      dump cfg c v f = (match c.enc l v with
                    | some p => .ok (pack8 (resolve cfg.defSer f) ++ p)
                    | none => .error .codec) := by
  obtain ⟨h1, h2, h3, _, _, _⟩ := dumpable_table cfg.defSer f hf hcfg
  obtain ⟨l, hl⟩ := Option.isSome_iff_exists.mp h3
  refine ⟨l, hl, ?_⟩
  have hd : lookup (resolve cfg.defSer f) dumpDispatch = some (.lib l) := by
    unfold libOf at hl
    split at hl <;> simp_all
  simp only [dump, dumpIndent, h1, dumpWithoutIdentifier, h2, hd]
  cases c.enc l v <;> simp

/-! ### Load ∘ Dump, every format, AUTO included: equal value, and the format reported is the one dumped in -/

theorem load_dump (cfg cfg' : Cfg) (c : Codec V) (hc : c.Sound) (v : V) (f : Nat) (hf : f ∈ dumpableFormats)
    (hcfg : f = AUTO → cfg.SerOk) (blob : Bytes)
    (hd : dump cfg c v f = .ok blob) : load cfg' c blob = (resolve cfg.defSer f, .ok v) := by
  obtain ⟨l, hl, he⟩ := dump_eq cfg c v f hf hcfg
  obtain ⟨_, h2, _, h4, h5, h6⟩ := dumpable_table cfg.defSer f hf hcfg
  have hld : lookup (resolve cfg.defSer f) loadDispatch = some (.lib l) := by
    rw [h4]; unfold libOf at hl; split at hl <;> simp_all
  rw [he] at hd
  cases hp : c.enc l v with
  | none => simp [hp] at hd
  | some p =>
    simp only [hp] at hd
    injection hd with hd
    subst hd
    have hne := hc.enc_ne l v p hp
    simp only [load, loadFormat_pack8 _ h5 p (Or.inl hne), h2, drop_pack8 _ h5, loadAsFormat, hld,
      hc.dec_enc l v p hp]

/-- The same through `DumpIndent` with any indent string the JSON encoder round-trips. -/
theorem load_dumpIndent (cfg cfg' : Cfg) (c : Codec V) (hc : c.Sound) (v : V) (f : Nat) (hf : f ∈ dumpableFormats)
    (hcfg : f = AUTO → cfg.SerOk) (indent : Str)
    (blob : Bytes) (hd : dumpIndent cfg c v f indent = .ok blob) : load cfg' c blob = (resolve cfg.defSer f, .ok v) := by
  obtain ⟨h1, h2, h3, h4, h5, h6⟩ := dumpable_table cfg.defSer f hf hcfg
  obtain ⟨l, hl⟩ := Option.isSome_iff_exists.mp h3
  have hdd : lookup (resolve cfg.defSer f) dumpDispatch = some (.lib l) := by
    unfold libOf at hl; split at hl <;> simp_all
  have hld : lookup (resolve cfg.defSer f) loadDispatch = some (.lib l) := by rw [h4]; exact hdd
  simp only [dumpIndent, h1, dumpWithoutIdentifier, h2, hdd] at hd
  by_cases hi : l = .json ∧ indent ≠ []
  · rw [if_pos hi] at hd
    cases hp : c.encIndent indent v with
    | none => simp [hp] at hd
    | some p =>
      simp only [hp] at hd
      injection hd with hd
      subst hd
      have hne := hc.encIndent_ne indent v p hp
      have hdec := hc.dec_encIndent indent v p hp
      simp only [load, loadFormat_pack8 _ h5 p (Or.inl hne), h2, drop_pack8 _ h5, loadAsFormat, hld, hi.1, hdec]
  · rw [if_neg hi] at hd
    cases hp : c.enc l v with
    | none => simp [hp] at hd
    | some p =>
      simp only [hp] at hd
      injection hd with hd
      subst hd
      have hne := hc.enc_ne l v p hp
      simp only [load, loadFormat_pack8 _ h5 p (Or.inl hne), h2, drop_pack8 _ h5, loadAsFormat, hld,
        hc.dec_enc l v p hp]

/-! ### Compression -/

theorem dumpAndCompress_eq (cfg : Cfg) (c : Codec V) (v : V) (f cm : Nat) (hcm : cm ∈ compressionFormats)
    (hcc : cm = AUTO → cfg.CompOk) :
    dumpAndCompress cfg c v f cm = (match dump cfg c v f with
                                | .ok data => .ok (pack8 (resolveCompression cfg.defComp cm) ++ c.gz data)
                                | .error e => .error e) := by
  obtain ⟨h1, _, h3, _⟩ := compression_table cfg.defComp cm hcm hcc
  simp only [dumpAndCompress, h1]
  cases dump cfg c v f <;> simp [h3]

theorem load_dumpAndCompress (cfg cfg' : Cfg) (c : Codec V) (hc : c.Sound) (v : V) (f cm : Nat) (hf : f ∈ dumpableFormats)
    (hcfg : f = AUTO → cfg.SerOk) (hcm : cm ∈ compressionFormats) (hcc : cm = AUTO → cfg.CompOk) (blob : Bytes)
    (hd : dumpAndCompress cfg c v f cm = .ok blob) :
    load cfg' c blob = (resolve cfg.defSer f, .ok v) := by
  rw [dumpAndCompress_eq cfg c v f cm hcm hcc] at hd
  obtain ⟨_, h2, _, h4, h5, h6, h7⟩ := compression_table cfg.defComp cm hcm hcc
  cases hdump : dump cfg c v f with
  | error e => simp [hdump] at hd
  | ok data =>
    simp only [hdump] at hd
    injection hd with hd
    subst hd
    have hl := load_dump cfg cfg' c hc v f hf hcfg data hdump
    -- the inner blob, as `load` sees it
    obtain ⟨_, g2, _, _, _, _⟩ := dumpable_table cfg.defSer f hf hcfg
    simp only [load, loadFormat_pack8 _ h5 _ (Or.inl (hc.gz_ne data)), h7, drop_pack8 _ h5,
      decompressAndLoad, h2, h4, ite_true, hc.gunz_gz]
    -- `load` on the inner blob took the serialization branch: read it off `hl`
    simp only [load] at hl
    cases hlf : loadFormat data with
    | error e => simp [hlf] at hl
    | ok fr =>
      obtain ⟨fmt, read⟩ := fr
      simp only [hlf] at hl
      cases hv : validateSerializationFormat cfg'.defSer fmt with
      | some x => simp only [hv] at hl; simpa using hl
      | none =>
        -- impossible: the inner identifier is a serialization format
        exfalso
        obtain ⟨l, _, he⟩ := dump_eq cfg c v f hf hcfg
        obtain ⟨_, _, _, _, g5, _⟩ := dumpable_table cfg.defSer f hf hcfg
        rw [he] at hdump
        cases hp : c.enc l v with
        | none => simp [hp] at hdump
        | some p =>
          simp only [hp] at hdump
          injection hdump with hdump
          subst hdump
          rw [loadFormat_pack8 _ g5 p (Or.inl (hc.enc_ne l v p hp))] at hlf
          injection hlf with hlf
          injection hlf with hf1 _
          subst hf1
          rw [g2] at hv
          cases hv

/-- `DecompressAndLoad` called directly on what follows the compression identifier. -/
theorem decompressAndLoad_gz (cfg cfg' : Cfg) (c : Codec V) (hc : c.Sound) (v : V) (f : Nat) (hf : f ∈ dumpableFormats)
    (hcfg : f = AUTO → cfg.SerOk) (data : Bytes) (hd : dump cfg c v f = .ok data) :
    decompressAndLoad cfg' c (c.gz data) GZIP = (resolve cfg.defSer f, .ok v) := by
  have hna : GZIP = AUTO → cfg.CompOk := fun h => absurd h (by decide)
  have hl := load_dumpAndCompress cfg cfg' c hc v f GZIP hf hcfg (by decide) hna (pack8 GZIP ++ c.gz data)
    (by rw [dumpAndCompress_eq cfg c v f GZIP (by decide) hna, hd]; rfl)
  obtain ⟨_, _, _, _, h5, _, h7⟩ := compression_table cfg.defComp GZIP (by decide) hna
  have hg : resolveCompression cfg.defComp GZIP = GZIP := by
    have : GZIP ≠ AUTO := by decide
    simp [resolveCompression, this]
  rw [hg] at h5 h7
  simpa only [load, loadFormat_pack8 _ h5 _ (Or.inl (hc.gz_ne data)), h7, drop_pack8 _ h5] using hl

/-! ### RAW: the identifier is reported through ErrIsRaw, the payload is the dumped bytes (also when empty) -/

theorem dump_raw (cfg : Cfg) (c : Codec V) (v : V) :
    dump cfg c v RAW = (match c.asBytes v with
                    | some b => .ok (pack8 RAW ++ b)
                    | none => .error .incompatible) := by
  obtain ⟨h1, h2, _, _⟩ := raw_table
  simp only [dump, dumpIndent, h1, dumpWithoutIdentifier, h2]
  cases c.asBytes v <;> simp

theorem load_dump_raw (cfg' : Cfg) (c : Codec V) (b : Bytes) :
    load cfg' c (pack8 RAW ++ b) = (RAW, .error .israw) ∧ (pack8 RAW ++ b).drop 1 = b := by
  obtain ⟨h1, _, h3, h4⟩ := raw_table
  refine ⟨?_, drop_pack8 _ h4 b⟩
  simp only [load, loadFormat_pack8 _ h4 b (Or.inr rfl), h1, loadAsFormat, h3]

theorem load_dumpAndCompress_raw (cfg cfg' : Cfg) (c : Codec V) (hc : c.Sound) (b : Bytes) (cm : Nat)
    (hcm : cm ∈ compressionFormats) (hcc : cm = AUTO → cfg.CompOk) :
    load cfg' c (pack8 (resolveCompression cfg.defComp cm) ++ c.gz (pack8 RAW ++ b)) = (RAW, .error .israw) := by
  obtain ⟨_, h2, _, h4, h5, _, h7⟩ := compression_table cfg.defComp cm hcm hcc
  obtain ⟨_, _, h3, g4⟩ := raw_table
  simp only [load, loadFormat_pack8 _ h5 _ (Or.inl (hc.gz_ne _)), h7, drop_pack8 _ h5, decompressAndLoad, h2, h4,
    ite_true, hc.gunz_gz, loadFormat_pack8 _ g4 b (Or.inr rfl), loadAsFormat, h3]

/-! ### Ids that are not serialization / compression formats are refused, nothing is written -/

theorem dump_rejects (cfg : Cfg) (c : Codec V) (v : V) (f : Nat) (h : validateSerializationFormat cfg.defSer f = none) (indent : Str) :
    dumpIndent cfg c v f indent = .error .incompatible ∧ dumpWithoutIdentifier cfg c v f indent = .error .incompatible := by
  simp [dumpIndent, dumpWithoutIdentifier, h]

theorem dumpAndCompress_rejects (cfg : Cfg) (c : Codec V) (v : V) (f cm : Nat) (h : validateCompressionFormat cfg.defComp cm = none) :
    dumpAndCompress cfg c v f cm = .error .incompatible := by
  simp [dumpAndCompress, h]

/-! ### Soundness of Load on arbitrary bytes: a value only ever comes from the codec the identifier selects,
applied to exactly the bytes after the identifier (of the blob, or of the decompressed blob) -/

theorem load_sound (cfg : Cfg) (c : Codec V) (blob : Bytes) (f : Nat) (v : V) (h : load cfg c blob = (f, .ok v)) :
    ∃ l, lookup f loadDispatch = some (.lib l) ∧
      ((∃ read, loadFormat blob = .ok (f, read) ∧ (validateSerializationFormat cfg.defSer f).isSome = true ∧
          c.dec l (blob.drop read) = some v) ∨
       (∃ cm read plain read', loadFormat blob = .ok (cm, read) ∧ validateSerializationFormat cfg.defSer cm = none ∧
          (validateCompressionFormat cfg.defComp cm).isSome = true ∧ c.gunz (blob.drop read) = .ok plain ∧
          loadFormat plain = .ok (f, read') ∧ c.dec l (plain.drop read') = some v)) := by
  have laf : ∀ (d : Bytes) (g : Nat), loadAsFormat c d g = .ok v →
      ∃ l, lookup g loadDispatch = some (.lib l) ∧ c.dec l d = some v := by
    intro d g hg
    unfold loadAsFormat at hg
    split at hg
    · cases hg
    · rename_i l hl
      split at hg
      · rename_i v' hv
        injection hg with hg
        subst hg
        exact ⟨l, hl, hv⟩
      · cases hg
    · cases hg
  unfold load at h
  split at h
  · simp at h
  · rename_i fmt read hlf
    split at h
    · rename_i x hx
      simp only [Prod.mk.injEq] at h
      obtain ⟨h1, h2⟩ := h
      subst h1
      obtain ⟨l, hl, hd⟩ := laf _ _ h2
      exact ⟨l, hl, Or.inl ⟨read, hlf, by simp [hx], hd⟩⟩
    · rename_i hx
      unfold decompressAndLoad at h
      split at h
      · simp at h
      · rename_i y hy
        split at h
        · split at h
          · simp at h
          · rename_i plain hg
            split at h
            · simp at h
            · rename_i f' read' hlf'
              simp only [Prod.mk.injEq] at h
              obtain ⟨h1, h2⟩ := h
              subst h1
              obtain ⟨l, hl, hd⟩ := laf _ _ h2
              exact ⟨l, hl, Or.inr ⟨fmt, read, plain, read', hlf, hx, by simp [hy], hg, hlf', hd⟩⟩
        · simp at h

/-! ### FormatFromAccept: declarative characterisation, range, fix-point on the mime table -/

/-- The loop, said declaratively: the first element whose cleaned name is in `MimeTypeToFormat` decides; otherwise
    the default (the value of the package variable at the time of the call) if some element cleans to `*`;
    otherwise AUTO; the empty header is the default. -/
theorem formatFromAccept_spec (d : Nat) (a : Str) :
    formatFromAccept d a =
      if a = [] then d
      else match (splitOn 44 a).findSome? (fun e => lookup (cleanMime e) mimeTypeToFormat) with
        | some f => f
        | none => if (splitOn 44 a).any (fun e => cleanMime e == [42]) = true
                  then d else AUTO := by
  unfold formatFromAccept
  by_cases ha : a = []
  · simp [ha]
  · simp only [ha, ite_false, ffaLoop_spec, Bool.false_or]
    rfl

theorem formatFromAccept_in_range (d : Nat) (a : Str) :
    formatFromAccept d a = AUTO ∨ formatFromAccept d a ∈ d :: mimeTypeToFormat.map Prod.snd :=
  formatFromAccept_range d a

/-- The mime type written for a format is read back as that format (whole regenerated table), whatever the
    default is on the reading side. -/
theorem formatFromAccept_mime_fixpoint : ∀ p ∈ formatToMimeType, ∀ d, formatFromAccept d p.2 = p.1 :=
  fun p hp => (mime_table p hp).1

/-- Every Accept header with an element that names a supported format or is a wildcard (independent reading of
    the grammar, PB/Spec/Dsd.lean) gets a format, and that format has a mime type — for every default that has one. -/
theorem accept_named_or_wildcard (cfg : Cfg) (hcfg : cfg.HttpOk) (a : Str)
    (h : ∃ e ∈ splitOn 44 a, (∃ f, NamesFormat e f) ∨ IsWildcard e) :
    formatFromAccept cfg.defSer a ≠ AUTO ∧ (lookup (formatFromAccept cfg.defSer a) formatToMimeType).isSome = true := by
  have key : formatFromAccept cfg.defSer a ∈ mimeFormats ++ mimeTypeToFormat.map Prod.snd := by
    rw [formatFromAccept_spec]
    by_cases ha : a = []
    · simp only [ha, ite_true]
      exact List.mem_append_left _ hcfg
    · simp only [ha, ite_false]
      cases hf : (splitOn 44 a).findSome? (fun e => lookup (cleanMime e) mimeTypeToFormat) with
      | some f =>
        obtain ⟨e, _, he⟩ := findSome?_some_mem _ _ f hf
        exact List.mem_append_right _ (lookup_snd_mem _ _ _ he)
      | none =>
        have hnone := findSome?_none_all _ _ hf
        obtain ⟨e, hmem, hne⟩ := h
        have hw : cleanMime e = [42] := by
          rcases hne with ⟨f, sub, hsub, hl⟩ | hw
          · have := hnone e hmem
            rw [cleanMime_element e sub hsub, hl] at this
            cases this
          · have := cleanMime_element e [42] hw
            simpa [asciiLower] using this
        have : (splitOn 44 a).any (fun e => cleanMime e == [42]) = true :=
          List.any_eq_true.mpr ⟨e, hmem, by simp [hw]⟩
        simp only [this, ite_true]
        exact List.mem_append_left _ hcfg
  exact accept_range_table _ key

/-- An element that names a supported format decides without the default being read: the answer is the same under
    every value of the variable (no hypothesis on `d`). -/
theorem accept_first_named (d : Nat) (e rest : Str) (f : Nat) (hc : 44 ∉ e) (h : NamesFormat e f) :
    formatFromAccept d e = f ∧ formatFromAccept d (e ++ 44 :: rest) = f := by
  obtain ⟨sub, hsub, hl⟩ := h
  have hclean := cleanMime_element e sub hsub
  have hne : e ≠ [] := by
    obtain ⟨ws, pre, tail, he, _, _, hs, _, _⟩ := hsub
    intro h0
    rw [h0] at he
    have : sub = [] := by
      have := congrArg List.length he
      simp at this
      exact List.eq_nil_of_length_eq_zero (by omega)
    exact hs this
  constructor
  · rw [formatFromAccept_spec]
    simp [hne, splitOn_single 44 e hc, hclean, hl]
  · rw [formatFromAccept_spec]
    have : e ++ 44 :: rest ≠ [] := by simp
    simp [this, splitOn_append 44 e rest hc, hclean, hl]

/-- Position independence, for lists of every length: in a header of any number of elements the first element that
    names a supported format decides — however many elements that name no supported format precede it (wildcards
    included), whatever follows it, and whatever the default is. (`accept_first_named` is the case `pre = []`.) -/
theorem accept_named_at_any_position (d : Nat) (pre post : List Str) (e : Str) (f : Nat)
    (hpre : ∀ x ∈ pre, 44 ∉ x ∧ lookup (cleanMime x) mimeTypeToFormat = none)
    (hc : 44 ∉ e) (hpost : ∀ x ∈ post, 44 ∉ x) (h : NamesFormat e f) :
    formatFromAccept d (joinComma (pre ++ e :: post)) = f := by
  obtain ⟨sub, hsub, hl⟩ := h
  have hclean := cleanMime_element e sub hsub
  have hne : e ≠ [] := by
    obtain ⟨ws, pre', tail, he, _, _, hs, _, _⟩ := hsub
    intro h0
    rw [h0] at he
    have : sub = [] := by
      have := congrArg List.length he
      simp at this
      exact List.eq_nil_of_length_eq_zero (by omega)
    exact hs this
  have hall : ∀ x ∈ pre ++ e :: post, 44 ∉ x := by
    intro x hx
    rcases List.mem_append.mp hx with hx | hx
    · exact (hpre x hx).1
    · rcases List.mem_cons.mp hx with rfl | hx
      · exact hc
      · exact hpost x hx
  have hfind : (pre ++ e :: post).findSome? (fun e => lookup (cleanMime e) mimeTypeToFormat) = some f := by
    have hnone : pre.findSome? (fun e => lookup (cleanMime e) mimeTypeToFormat) = none := by
      rw [List.findSome?_eq_none_iff]
      intro x hx
      exact (hpre x hx).2
    rw [List.findSome?_append, hnone]
    simp [hclean, hl]
  apply formatFromAccept_hit d _ f (joinComma_ne_nil pre post e hne)
  rw [splitOn_joinComma _ (by simp) hall]
  exact hfind

/-- The list of elements `FormatFromAccept` iterates over is `strings.Split(accept, ",")` in the source (regenerated
    on every run; the extractor fails closed on any other call, e.g. `SplitN` with a limit): every element, in order. -/
theorem accept_split_matches_source : PB.Gen.Dsd.acceptSplit = ("strings.Split", [44]) := by decide

/-! ### HTTP: the content type names the encoding actually used; the other side recovers an equal value -/

/-- `MimeDump` returns the format `FormatFromAccept` chose under the CURRENT default, that format's mime type
    (never one remembered from an earlier value of the variable), which every reader maps back to the format, and
    the data of exactly that format. -/
theorem mimeDump_names_encoding (cfg : Cfg) (c : Codec V) (v : V) (a : Str) (data : Bytes) (mime : Str) (f : Nat)
    (h : mimeDump cfg c v a = .ok (data, mime, f)) :
    f = formatFromAccept cfg.defSer a ∧ lookup f formatToMimeType = some mime ∧ (∀ d', formatFromAccept d' mime = f) ∧
      dumpWithoutIdentifier cfg c v f [] = .ok data := by
  unfold mimeDump at h
  simp only at h
  split at h
  · cases h
  · split at h
    · cases h
    · rename_i m hm
      split at h
      · cases h
      · rename_i d hd
        injection h with h
        simp only [Prod.mk.injEq] at h
        obtain ⟨h1, h2, h3⟩ := h
        subst h1 h2 h3
        exact ⟨rfl, hm, (mime_table _ (lookup_mem _ _ _ hm)).1, hd⟩

theorem mimeLoad_mimeDump (cfg cfg' : Cfg) (c : Codec V) (hc : c.Sound) (v : V) (a : Str) (data : Bytes) (mime : Str)
    (f : Nat) (h : mimeDump cfg c v a = .ok (data, mime, f)) : mimeLoad cfg' c data mime = (f, .ok v) := by
  obtain ⟨_, hm, hfix, hd⟩ := mimeDump_names_encoding cfg c v a data mime f h
  have hne : f ≠ 0 := (mime_table _ (lookup_mem _ _ _ hm)).2.1
  simp only [mimeLoad, hfix, hne, ite_false, loadAsFormat_dumpWithoutIdentifier cfg c hc v f mime hm data hd]

/-- Response side: whatever Accept header the request carries and whatever the server's default is, if data is
    written then the Content-Type is the mime type of the format used, and `LoadFromHTTPResponse` (under any
    default on the client) returns that format and an equal value. -/
theorem http_response_roundtrip (cfg cfg' : Cfg) (c : Codec V) (hc : c.Sound) (v : V) (r : Req) (w : Resp)
    (h : dumpToHTTPResponse cfg c {} r v = (w, none)) :
    ∃ mime, w.contentType = some mime ∧
      lookup (formatFromAccept cfg.defSer (r.accept.getD [])) formatToMimeType = some mime ∧
      loadFromHTTPResponse cfg' c w = (formatFromAccept cfg.defSer (r.accept.getD []), .ok v) := by
  unfold dumpToHTTPResponse at h
  split at h
  · simp at h
  · rename_i data mime f hmd
    simp only [Prod.mk.injEq, and_true] at h
    subst h
    obtain ⟨hf, hm, _, _⟩ := mimeDump_names_encoding cfg c v _ data mime f hmd
    subst hf
    refine ⟨mime, rfl, hm, ?_⟩
    simpa [loadFromHTTPResponse] using mimeLoad_mimeDump cfg cfg' c hc v _ data mime _ hmd

/-- ... and data *is* written for every Accept header that names a supported format or a wildcard (and every
    value the codecs can encode), for every default that has a mime type. -/
theorem http_response_succeeds (cfg : Cfg) (hcfg : cfg.HttpOk) (c : Codec V) (v : V) (r : Req)
    (henc : ∀ l, (c.enc l v).isSome = true)
    (h : ∃ e ∈ splitOn 44 (r.accept.getD []), (∃ f, NamesFormat e f) ∨ IsWildcard e) :
    ∃ w, dumpToHTTPResponse cfg c {} r v = (w, none) := by
  obtain ⟨h1, h2⟩ := accept_named_or_wildcard cfg hcfg _ h
  obtain ⟨mime, hm⟩ := Option.isSome_iff_exists.mp h2
  obtain ⟨data, hd⟩ := dumpWithoutIdentifier_succeeds cfg c v _ mime hm henc
  refine ⟨{ contentType := some mime, body := [] ++ data }, ?_⟩
  simp [dumpToHTTPResponse, mimeDump, h1, hm, hd]

/-- ... and for a request WITHOUT Accept header (`Header.Get` gives ""), which the code answers in the default. -/
theorem http_response_succeeds_no_accept (cfg : Cfg) (hcfg : cfg.HttpOk) (c : Codec V) (v : V) (r : Req)
    (henc : ∀ l, (c.enc l v).isSome = true) (h : r.accept.getD [] = []) :
    ∃ w, dumpToHTTPResponse cfg c {} r v = (w, none) ∧ formatFromAccept cfg.defSer (r.accept.getD []) = cfg.defSer := by
  have hd0 : formatFromAccept cfg.defSer [] = cfg.defSer := by simp [formatFromAccept]
  obtain ⟨h1, h2⟩ := accept_range_table cfg.defSer (List.mem_append_left _ hcfg)
  obtain ⟨mime, hm⟩ := Option.isSome_iff_exists.mp h2
  obtain ⟨data, hd⟩ := dumpWithoutIdentifier_succeeds cfg c v _ mime hm henc
  refine ⟨{ contentType := some mime, body := [] ++ data }, ?_, by rw [h, hd0]⟩
  simp [dumpToHTTPResponse, mimeDump, h, hd0, h1, hm, hd]

/-- Request side, every format that has a mime type, every value of the defaults on both sides. -/
theorem http_request_roundtrip (cfg cfg' : Cfg) (c : Codec V) (hc : c.Sound) (v : V) (r r' : Req) (f : Nat)
    (h : dumpToHTTPRequest cfg c r v f = (r', none)) :
    ∃ mime, lookup f formatToMimeType = some mime ∧ r'.accept = some mime ∧ r'.contentType = some mime ∧
      (∀ d', formatFromAccept d' mime = f) ∧ loadFromHTTPRequest cfg' c r' = (f, .ok v) := by
  unfold dumpToHTTPRequest at h
  split at h
  · simp at h
  · rename_i mime hm
    simp only at h
    split at h
    · simp at h
    · rename_i data hd
      simp only [Prod.mk.injEq, and_true] at h
      subst h
      have hfix := (mime_table _ (lookup_mem _ _ _ hm)).1
      have hne : f ≠ 0 := (mime_table _ (lookup_mem _ _ _ hm)).2.1
      simp only at hfix
      refine ⟨mime, hm, rfl, rfl, hfix, ?_⟩
      simp only [loadFromHTTPRequest, Option.getD_some, mimeLoad, hfix, hne, ite_false,
        loadAsFormat_dumpWithoutIdentifier cfg c hc v f mime hm data hd]

/-- A format without mime type (AUTO, RAW, GenCode, anything else) is refused and the request is left untouched. -/
theorem http_request_rejects (cfg : Cfg) (c : Codec V) (v : V) (r : Req) (f : Nat) (h : lookup f formatToMimeType = none) :
    dumpToHTTPRequest cfg c r v f = (r, some .incompatible) := by
  simp [dumpToHTTPRequest, h]

/-- The whole cycle: the client (defaults `cfg`) dumps a request in format `f`; the server (defaults `cfg'`) answers
    with the format the request's Accept header asks for; the client loads the answer: format `f`, equal value —
    whatever the two sides' defaults are. -/
theorem http_cycle (cfg cfg' : Cfg) (c : Codec V) (hc : c.Sound) (v v2 : V) (r r' : Req) (w : Resp) (f : Nat)
    (h1 : dumpToHTTPRequest cfg c r v f = (r', none)) (h2 : dumpToHTTPResponse cfg' c {} r' v2 = (w, none)) :
    loadFromHTTPRequest cfg' c r' = (f, .ok v) ∧ loadFromHTTPResponse cfg c w = (f, .ok v2) := by
  obtain ⟨mime, _, ha, _, hfix, hl⟩ := http_request_roundtrip cfg cfg' c hc v r r' f h1
  obtain ⟨_, _, _, hl2⟩ := http_response_roundtrip cfg' cfg c hc v2 r' w h2
  rw [ha] at hl2
  simp only [Option.getD_some, hfix] at hl2
  exact ⟨hl, hl2⟩

/-! ### The package variables and the package's state surface -/

/-- The initialisers of the two variables satisfy every hypothesis used above. -/
theorem init_cfg_ok : Cfg.init.SerOk ∧ Cfg.init.HttpOk ∧ Cfg.init.CompOk := by decide

/-- AUTO with `DefaultSerializationFormat = RAW`: the dump is a RAW dump (identifier RAW, the bytes themselves) and
    loads as `(RAW, ErrIsRaw)` — the RAW clause of the property, reached through AUTO. -/
theorem load_dump_auto_rawDefault (cfg cfg' : Cfg) (hraw : cfg.defSer = RAW) (c : Codec V) (v : V) (b : Bytes)
    (hb : c.asBytes v = some b) :
    dump cfg c v AUTO = .ok (pack8 RAW ++ b) ∧ load cfg' c (pack8 RAW ++ b) = (RAW, .error .israw) := by
  obtain ⟨h1, h2, _, _⟩ := raw_table
  refine ⟨?_, (load_dump_raw cfg' c b).1⟩
  simp only [dump, dumpIndent, validateSer_auto, hraw, dumpWithoutIdentifier, h1, h2, hb]

/-- History: results are values. Whatever sequence of dumps produced the blobs (any values, formats, values of the
    package variables at each dump), every one of them loads, at any later time (any value of the variables, any
    number of other calls in between — there is no state for them to change), to the value it was dumped from and
    reports the format it was dumped in. The "held results" stream of the harness ties exactly this: on the code,
    "a result is a value" means that no two results share storage and nothing is remembered between calls. -/
theorem held_blobs_roundtrip (c : Codec V) (hc : c.Sound) (hist : List (Cfg × V × Nat × Bytes))
    (h : ∀ e ∈ hist, e.2.2.1 ∈ dumpableFormats ∧ (e.2.2.1 = AUTO → e.1.SerOk) ∧ dump e.1 c e.2.1 e.2.2.1 = .ok e.2.2.2)
    (cfg' : Cfg) :
    ∀ e ∈ hist, load cfg' c e.2.2.2 = (resolve e.1.defSer e.2.2.1, .ok e.2.1) := by
  intro e he
  obtain ⟨h1, h2, h3⟩ := h e he
  exact load_dump e.1 cfg' c hc e.2.1 e.2.2.1 h1 h2 e.2.2.2 h3

/-- The package has no package-level variables besides the two defaults and the two mime maps (error values
    excepted) and no `init` function: nothing a result could depend on besides the arguments and `Cfg`, nothing two
    results could share. This is what the model's being a set of pure functions claims about the code; a cache, a
    pool or a value computed at package initialisation changes the regenerated list and breaks this theorem. -/
theorem package_state_surface :
    packageState = ["DefaultCompressionFormat", "DefaultSerializationFormat", "FormatToMimeType", "MimeTypeToFormat"] := by
  decide

/-! ### Non-vacuity -/

example : dump Cfg.init toy [1, 2] AUTO = .ok (pack8 defaultSerializationFormat ++ [7, 1, 2]) ∧
    load Cfg.init toy (pack8 defaultSerializationFormat ++ [7, 1, 2]) = (defaultSerializationFormat, .ok [1, 2]) ∧
    load Cfg.init toy [74, 7, 1, 2] = (JSON, .ok [1, 2]) := by decide
/-- the variables assigned: AUTO is CBOR now, and the blob loads under any other value of them -/
example : dump ⟨CBOR, GZIP⟩ toy [1, 2] AUTO = .ok [67, 7, 1, 2] ∧ load ⟨YAML, 0⟩ toy [67, 7, 1, 2] = (CBOR, .ok [1, 2]) ∧
    dump ⟨RAW, GZIP⟩ toy [1, 2] AUTO = .ok [1, 1, 2] ∧ load ⟨JSON, GZIP⟩ toy [1, 1, 2] = (RAW, .error .israw) := by decide
example : dumpAndCompress Cfg.init toy [1, 2] CBOR AUTO = .ok [90, 31, 139, 67, 7, 1, 2] ∧
    load Cfg.init toy [90, 31, 139, 67, 7, 1, 2] = (CBOR, .ok [1, 2]) := by decide
/-- a default compression that is no compression: AUTO compression is refused, nothing is written -/
example : dumpAndCompress ⟨JSON, JSON⟩ toy [1, 2] CBOR AUTO = .error .incompatible ∧
    dumpAndCompress ⟨JSON, JSON⟩ toy [1, 2] CBOR GZIP = .ok [90, 31, 139, 67, 7, 1, 2] := by decide
example : dump Cfg.init toy [] RAW = .ok [1] ∧ load Cfg.init toy [1] = (RAW, .error .israw) := by decide
example : load Cfg.init toy [74] = (0, .error .eof) ∧ load Cfg.init toy [] = (0, .error .small) ∧
    load Cfg.init toy [200, 2, 0] = (0, .error .large) ∧ load Cfg.init toy [76, 1] = (0, .error .incompatible) ∧
    load Cfg.init toy [0, 7] = (0, .error .incompatible) ∧ load Cfg.init toy [90, 1] = (0, .error .gunzip) := by decide

example : formatFromAccept JSON (str "application/json;q=0.9, image/webp") = JSON ∧
    formatFromAccept JSON (str "image/webp, application/cbor") = CBOR ∧ formatFromAccept JSON (str " * , yaml ") = YAML := by decide
example : formatFromAccept JSON (str "text/xml, text/other") = AUTO ∧
    formatFromAccept JSON (str "xml,*") = JSON ∧
    formatFromAccept CBOR (str "text/*") = CBOR ∧
    formatFromAccept YAML [] = YAML ∧ formatFromAccept MsgPack (str "*/*") = MsgPack := by decide
/-- whitespace before `;` is not accepted (pinned by the package's own test) -/
example : formatFromAccept JSON (str "yaml ;charset") = AUTO := by decide
-- nine and more elements: the decisive element is the 8th / 9th / 12th, what precedes it names nothing
set_option maxRecDepth 16000 in
example : formatFromAccept JSON (str "text/html,application/xhtml+xml,application/xml;q=0.9,image/avif,image/webp,image/apng,image/svg+xml,application/cbor,*/*;q=0.1") = CBOR := by decide
set_option maxRecDepth 16000 in
example : formatFromAccept YAML (str "text/html, application/xhtml+xml, application/xml;q=0.9, image/avif, image/webp, image/apng, image/svg+xml, text/plain, */*") = YAML := by decide
set_option maxRecDepth 16000 in
example : formatFromAccept JSON (str "a/b,c/d,e/f,g/h,i/j,k/l,m/n,o/p,q/r,s/t,u/v,application/msgpack;q=0.5,w/x") = MsgPack ∧
    formatFromAccept JSON (str "a/b,c/d,e/f,g/h,i/j,k/l,m/n,o/p,q/r,s/t,u/v,w/x") = AUTO := by decide
-- the hypotheses of `accept_named_at_any_position` are satisfiable for every number of preceding elements
example (n : Nat) (d : Nat) :
    formatFromAccept d (joinComma (List.replicate n (str "image/webp;q=0.8") ++ str "application/cbor" :: [str "*/*"])) = CBOR :=
  accept_named_at_any_position d _ _ _ _
    (by intro x hx; rw [List.eq_of_mem_replicate hx]; decide) (by decide) (by decide)
    ⟨str "cbor", ⟨[], str "application/", [], by decide, by decide, Or.inr ⟨str "application", by decide, by decide⟩,
      by decide, by decide, Or.inl (by decide)⟩, by decide⟩
/-- Unicode: KELVIN SIGN lower-cases to `k`; NO-BREAK SPACE and IDEOGRAPHIC SPACE are trimmed -/
example : formatFromAccept JSON (str "application/msgpac\u212a") = MsgPack ∧
    formatFromAccept JSON (str "\u00a0json\u3000") = JSON := by decide
example : NamesFormat (str " text/yAMl;q=0.5") YAML :=
  ⟨str "yAMl", ⟨str " ", str "text/", str ";q=0.5", by decide, by decide, Or.inr ⟨str "text", by decide, by decide⟩,
    by decide, by decide, Or.inr ⟨str "q=0.5", by decide⟩⟩, by decide⟩
example : IsWildcard (str "*/*") :=
  ⟨[], str "*/", [], by decide, by decide, Or.inr ⟨str "*", by decide, by decide⟩, by decide, by decide, Or.inl (by decide)⟩
example : IsWildcard (str "\t* ") :=
  ⟨str "\t", [], str " ", by decide, by decide, Or.inl rfl, by decide, by decide, Or.inl (by decide)⟩
example : dumpToHTTPRequest Cfg.init toy {} [1, 2] CBOR =
    ({ accept := some (str "application/cbor"), contentType := some (str "application/cbor"), body := some [7, 1, 2] }, none) ∧
    dumpToHTTPRequest Cfg.init toy {} [1, 2] AUTO = ({}, some .incompatible) := by decide
example : dumpToHTTPResponse Cfg.init toy {} { accept := some (str "text/html, application/yaml;q=0.9, */*;q=0.8") } [1, 2] =
    ({ contentType := some (str "application/yaml"), body := [7, 1, 2] }, none) ∧
    loadFromHTTPResponse Cfg.init toy { contentType := some (str "application/yaml"), body := [7, 1, 2] } = (YAML, .ok [1, 2]) := by
  decide
/-- the default assigned to MsgPack: a wildcard / missing Accept header is answered in MsgPack and labelled so -/
example : dumpToHTTPResponse ⟨MsgPack, GZIP⟩ toy {} { accept := some (str "*/*") } [1, 2] =
    ({ contentType := some (str "application/msgpack"), body := [7, 1, 2] }, none) ∧
    dumpToHTTPResponse ⟨MsgPack, GZIP⟩ toy {} {} [1, 2] =
    ({ contentType := some (str "application/msgpack"), body := [7, 1, 2] }, none) := by decide
/-- `HttpOk` is needed: with a default that has no mime type (GenCode) a wildcard cannot be answered; nothing is
    written (no wrong label either) -/
example : dumpToHTTPResponse ⟨GenCode, GZIP⟩ toy {} { accept := some (str "*/*") } [1, 2] = ({}, some .incompatible) ∧
    ¬ (⟨GenCode, GZIP⟩ : Cfg).HttpOk := by decide

end PB.C09
