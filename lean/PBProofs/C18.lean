import PB.Model.Paths
import PB.Gen.Paths
namespace PB.C18
open PB PB.Paths

theorem placeholder : clean [] = dot := by simp [clean]

end PB.C18
