import PBProofs.Lemmas.Paths
import PB.Gen.Paths
/-
C18 — Externally supplied names never reach files outside the component's root.
Property theorems only (helper lemmas live in PBProofs/Lemmas/Paths.lean).

`Inside root p` (PB/Spec/Paths.lean): `p` is absolute and its lexical resolution (skip "" and ".", ".." goes up,
"/.." = "/") passes through the directory `root` resolves to.  All theorems hold for every name — every byte
string — and every absolute root.
-/
namespace PB.C18
open PB PB.Paths

/-! ### fstree: database keys and query prefixes -/

/-- Whatever `buildFilePath` accepts lies inside the base path, and it is the file the key denotes
    when resolved from the base directory. -/
theorem fstree_contained (base key : Path) (chk : Bool) (dst : Path) (hb : isAbs base = true)
    (h : buildFilePath base key chk = .ok dst) :
    Inside base dst ∧ resolve dst = resolveFrom (resolve base) key := by
  unfold buildFilePath at h
  split at h
  · cases h
  · dsimp only at h
    split at h
    · cases h
    · rename_i hc
      split at h
      · cases h
      · cases h
        refine ⟨?_, resolve_join2 hb key⟩
        by_cases hp : hasPrefix (join2 base key) (base ++ [47]) = true
        · exact inside_join2_of_hasPrefix hb key hp
        · simp [hp] at hc
          rw [hc.2]; exact inside_refl hb

/-- A key that would leave the base directory is rejected with an error (no path is produced, so nothing is accessed). -/
theorem fstree_rejects_before_access (base key : Path) (chk : Bool) (hb : isAbs base = true)
    (hesc : ¬ resolve base <+: resolveFrom (resolve base) key) :
    ∃ e, buildFilePath base key chk = .error e := by
  cases h : buildFilePath base key chk with
  | error e => exact ⟨e, rfl⟩
  | ok dst =>
    have := fstree_contained base key chk dst hb h
    exact absurd (this.2 ▸ this.1.2) hesc

/-- The check does not over-reject: every clean relative key (proper names joined by `/`) is accepted below a
    clean base path, and the file is literally `base/key`. -/
theorem fstree_accepts_inside (base : Path) (chk : Bool) (hb : isAbs base = true) (hc : clean base = base)
    (hroot : base ≠ [47]) (x : Path) (xs : List Path) (hn : ∀ s ∈ x :: xs, Normal s) :
    buildFilePath base (joinSep (x :: xs)) chk = .ok (base ++ 47 :: joinSep (x :: xs)) := by
  have hin : resolveFrom (resolve base) (joinSep (x :: xs)) = resolve base ++ x :: xs := by
    unfold resolveFrom
    rw [splitSep_joinSep (by simp) (fun s hs => normal_not_mem (hn s hs)),
      foldl_stepSeg_benign (fun s hs => Or.inr (hn s hs))]
    congr 1
    exact List.filter_eq_self.mpr (fun s hs => nonE_of_ne (hn s hs).1)
  have hbase : base = 47 :: joinSep (resolve base) := by rw [← clean_abs hb, hc]
  have hne : resolve base ≠ [] := by
    intro e; rw [e] at hbase; exact hroot (by simpa [joinSep] using hbase)
  have hj : join2 base (joinSep (x :: xs)) = base ++ 47 :: joinSep (x :: xs) := by
    rw [join2_abs hb, clean_abs (isAbs_append hb _), resolve_append_sep, hin, joinSep_append hne]
    conv => rhs; rw [hbase]
    simp
  have hk : (joinSep (x :: xs)) ≠ [] := joinSep_ne_nil (by simp) hn
  have hlen : ¬ (joinSep (x :: xs)).length < 1 := by
    cases hj' : joinSep (x :: xs) with
    | nil => exact absurd hj' hk
    | cons _ _ => simp
  have hpre := hasPrefix_join2_of_strict hb hc hroot hin
  rw [hj] at hpre
  simp [buildFilePath, hlen, hpre, hj]

/-- An accepted record key names exactly the file `base/key`: different keys, different files. -/
theorem fstree_key_is_literal_path (base key dst : Path) (h : buildFilePath base key true = .ok dst) :
    dst = base ++ 47 :: key := by
  unfold buildFilePath at h
  split at h
  · cases h
  · dsimp only at h
    split at h
    · cases h
    · split at h
      · cases h
      · rename_i hcl
        cases h
        simpa using hcl

/-- Record keys (Get / Put / Delete) never address the base directory itself: the file is strictly below it. -/
theorem fstree_key_strictly_inside (base key dst : Path) (hb : isAbs base = true)
    (h : buildFilePath base key true = .ok dst) : StrictlyInside base dst := by
  unfold buildFilePath at h
  split at h
  · cases h
  · dsimp only at h
    split at h
    · cases h
    · rename_i hc
      split at h
      · cases h
      · cases h
        simp at hc
        rw [join2_abs hb] at hc ⊢
        exact strictlyInside_of_clean_hasPrefix (isAbs_append hb _) (ne_nil_of_isAbs hb) hc

/-- The directory `Query` walks is inside the base path — for every query prefix and **every** answer of
    `os.Stat` (whatever exists or does not exist below, at, or around the base path). -/
theorem fstree_query_walk_contained (base pre wr : Path) (stat : Path → StatKind) (hb : isAbs base = true)
    (h : queryWalkRoot base pre stat = .ok (some wr)) : Inside base wr := by
  unfold queryWalkRoot at h
  cases hbf : buildFilePath base pre false with
  | error e => rw [hbf] at h; cases h
  | ok wp =>
    rw [hbf] at h
    dsimp only at h
    have hin := (fstree_contained base pre false wp hb hbf).1
    -- the parent of an accepted walk prefix other than the base path is still inside the base path
    have hparent : wp ≠ base → Inside base (dirOf wp) := by
      intro hne
      unfold buildFilePath at hbf
      simp only [Bool.false_eq_true, false_and, if_false, Bool.false_or] at hbf
      split at hbf
      · cases hbf
      · rename_i hc
        cases hbf
        simp [hne] at hc
        rw [join2_abs hb] at hc hne ⊢
        have habs := isAbs_append hb (47 :: pre)
        obtain ⟨x, xs, hx⟩ := resolve_strict_of_hasPrefix (resolve_allNormal _) (ne_nil_of_isAbs hb)
          (by rw [← clean_abs habs]; exact hc)
        rw [clean_abs habs]
        obtain ⟨h1, h2⟩ := dirOf_cleanAbs (resolve_allNormal (base ++ 47 :: pre))
        refine ⟨h1, ?_⟩
        rw [h2, hx, List.dropLast_append_of_ne_nil (by simp)]
        exact List.prefix_append _ _
    split at h
    · cases h
    · rename_i hguard
      cases hst : stat wp with
      | dir =>
        rw [hst] at h
        dsimp only at h
        split at h
        · cases h; exact hin
        · rename_i hc
          cases h
          exact hparent (fun e => hc (Or.inr (Or.inr e)))
      | file =>
        rw [hst] at h
        cases h
        exact hparent (fun e => hguard ⟨e, Or.inr hst⟩)
      | absent =>
        rw [hst] at h
        cases h
        exact hparent (fun e => hguard ⟨e, Or.inl hst⟩)
      | other => rw [hst] at h; cases h

/-- **Everything a query touches is inside the base path — for every state of the file system.**
    Whatever exists below, at, next to or above the database directory when `Query` runs (the directory removed or
    replaced by a file behind the back of the open storage, intermediate directories missing, siblings whose names
    extend the directory's name, ...): every `stat`, every directory listing and every file read of `Query` and its
    walk lies inside the base path; and every record delivered carries as key the name, relative to the base
    path, of a file that was read there (resolving the key from the base directory leads to that file). -/
theorem fstree_query_reads_contained (fs : Ents) (hfs : fs.NamesNormal) (base pre : Path) (hb : isAbs base = true)
    (r : WalkRes) (h : queryRun fs base pre = .ok r) :
    (∀ a ∈ r.acc, Inside base a.path) ∧
    (∀ k ∈ r.keys, ∃ p, Access.read p ∈ r.acc ∧ Inside base p ∧ relOf base p = some k ∧
      resolveFrom (resolve base) k = resolve p) := by
  suffices H : WalkGood base r by
    refine ⟨H.1, fun k hk => ?_⟩
    obtain ⟨p, h1, h2, h3⟩ := H.2 k hk
    exact ⟨p, h1, H.1 _ h1, h2, h3⟩
  unfold queryRun at h
  cases hbf : buildFilePath base pre false with
  | error e => rw [hbf] at h; cases h
  | ok wp =>
    rw [hbf] at h
    dsimp only at h
    have hwp := (fstree_contained base pre false wp hb hbf).1
    have hstat : WalkGood base { acc := [Access.stat wp] } :=
      walkGood_accOnly (by intro a ha; simp at ha; subst ha; exact hwp)
    cases hq : queryWalkRoot base pre (statKindOf fs) with
    | error e => rw [hq] at h; cases h
    | ok o =>
      rw [hq] at h
      cases o with
      | none => cases h; exact hstat
      | some wr =>
        dsimp only at h
        cases h
        have hin := fstree_query_walk_contained base pre wr (statKindOf fs) hb hq
        -- the walk root is a cleaned path: the walk prefix itself or its `Dir`
        have hcl : clean wr = wr := by
          have hwpc : clean wp = wp := by
            unfold buildFilePath at hbf
            simp only [Bool.false_eq_true, false_and, if_false] at hbf
            split at hbf
            · cases hbf
            · cases hbf; exact clean_join2 hb pre
          unfold queryWalkRoot at hq
          rw [hbf] at hq
          dsimp only at hq
          have hdir : clean (dirOf wp) = dirOf wp := clean_dirOf hwp.1
          split at hq
          · cases hq
          · cases hst : statKindOf fs wp with
            | dir =>
              rw [hst] at hq
              dsimp only at hq
              split at hq <;> (cases hq; first | exact hwpc | exact hdir)
            | file => rw [hst] at hq; cases hq; exact hdir
            | absent => rw [hst] at hq; cases hq; exact hdir
            | other => rw [hst] at hq; cases hq
        exact walkGood_andThen hstat (walkTop_good hb pre hfs hin hcl)

/-! ### Directory-structure helper: requested paths -/

/-- Every directory `EnsureAbsPath` creates / chmods for an accepted path lies inside the structure's root. -/
theorem dirstructure_contained (root dirPath : Path) (dirs : List Path) (hr : isAbs root = true)
    (h : ensureAbsPath root dirPath = .ok dirs) : ∀ d ∈ dirs, Inside root d := by
  -- the separator-terminated root: `r' ++ "/"` with `r'` resolving to the root directory
  obtain ⟨r', hsl, hres, h47⟩ := slashed_root hr
  unfold ensureAbsPath at h
  dsimp only at h
  rw [hsl] at h
  split at h
  · cases h
    intro d hd
    simp at hd
    subst hd; exact inside_refl hr
  · split at h
    · cases h
    · rename_i hpre
      simp at hpre
      have habs : isAbs (clean dirPath) = true := by
        have : (r' ++ [47]) <+: clean dirPath := by simpa [hasPrefix] using hpre
        obtain ⟨rest, hrest⟩ := this
        rw [← hrest]; exact isAbs_append h47 _
      have hdp := isAbs_of_clean habs
      have hcl := clean_abs hdp
      rw [hcl] at hpre
      have hpfx := resolve_prefix_of_hasPrefix (resolve_allNormal dirPath) hpre
      rw [hres] at hpfx
      obtain ⟨t, ht⟩ := hpfx
      obtain ⟨rel, hrel, hharm⟩ := relOf_below hr ht.symm (resolve_allNormal dirPath)
      rw [hcl, hrel] at h
      cases h
      intro d hd
      simp only [List.mem_cons] at hd
      rcases hd with hd | hd
      · subst hd; exact inside_refl hr
      · exact ensureChain_inside root _ hharm root hr (List.prefix_refl _) d hd

/-- A requested path that leaves the root is rejected with an error before anything is created. -/
theorem dirstructure_rejects_before_access (root dirPath : Path) (hr : isAbs root = true) (hd : isAbs dirPath = true)
    (hesc : ¬ resolve root <+: resolve dirPath) : ∃ e, ensureAbsPath root dirPath = .error e := by
  cases h : ensureAbsPath root dirPath with
  | error e => exact ⟨e, rfl⟩
  | ok dirs =>
    exfalso
    apply hesc
    obtain ⟨r', hsl, hres, _⟩ := slashed_root hr
    unfold ensureAbsPath at h
    dsimp only at h
    rw [hsl] at h
    split at h
    · rename_i heq
      rw [← resolve_clean hd, heq]; exact List.prefix_refl _
    · split at h
      · cases h
      · rename_i hpre
        simp at hpre
        rw [clean_abs hd] at hpre
        have := resolve_prefix_of_hasPrefix (resolve_allNormal dirPath) hpre
        rwa [hres] at this

/-- `EnsureRelPath` and `EnsureRelDir` join the supplied name(s) below the root and go through the same check. -/
theorem dirstructure_rel_contained (root : Path) (hr : isAbs root = true) :
    (∀ rel dirs, ensureRelPath root rel = .ok dirs → ∀ d ∈ dirs, Inside root d) ∧
    (∀ names dirs, ensureRelDir root names = .ok dirs → ∀ d ∈ dirs, Inside root d) :=
  ⟨fun _ dirs h => dirstructure_contained root _ dirs hr h, fun _ dirs h => dirstructure_contained root _ dirs hr h⟩

/-! ### Directory-structure helper as a stateful object: histories of calls on one tree

`dhistory (newDirStructure root perm) calls` is everything handed to `EnsureDirectory` (created / chmod-ed /
a file of that name replaced) while the calls `ChildDir`, `Ensure`, `EnsureAbsPath`, `EnsureRelPath`, `EnsureRelDir`
are made in any order on any node of the tree, with arbitrary names. -/

/-- **Containment for every history.**  Whatever sequence of `ChildDir` / `Ensure*` calls is made on the nodes of
    one `DirStructure` tree, with whatever names, every directory that is created, chmod-ed or put in place of a
    file lies inside the root of the tree. -/
theorem dirstructure_history_contained (root : Path) (perm : Nat) (hr : isAbs root = true) (calls : List DCall) :
    ∀ d ∈ dhistory (newDirStructure root perm) calls, Inside root d.1 := by
  suffices H : ∀ t, DWF t root → ∀ d ∈ dhistory t calls, Inside root d.1 from H _ (dwf_new root perm)
  induction calls with
  | nil => intro t _ d hd; simp [dhistory] at hd
  | cons c cs ih =>
    intro t hw d hd
    unfold dhistory at hd
    dsimp only at hd
    rw [List.mem_append] at hd
    rcases hd with hd | hd
    · cases hr' : (dcall t c).2 with
      | error e => rw [hr'] at hd; simp at hd
      | ok ds =>
        rw [hr'] at hd
        dsimp only at hd
        cases c with
        | childDir h name p =>
          simp only [dcall] at hr'
          split at hr' <;> (cases hr'; simp at hd)
        | ensure h =>
          simp only [dcall] at hr'
          split at hr'
          · rename_i hh; exact ensureAbsPathT_contained hw hr hh _ ds hr' d hd
          · cases hr'; simp at hd
        | ensureAbs h p =>
          simp only [dcall] at hr'
          split at hr'
          · rename_i hh; exact ensureAbsPathT_contained hw hr hh _ ds hr' d hd
          · cases hr'; simp at hd
        | ensureRel h rel =>
          simp only [dcall] at hr'
          split at hr'
          · rename_i hh; exact ensureAbsPathT_contained hw hr hh _ ds hr' d hd
          · cases hr'; simp at hd
        | ensureRelDir h names =>
          simp only [dcall] at hr'
          split at hr'
          · rename_i hh; exact ensureAbsPathT_contained hw hr hh _ ds hr' d hd
          · cases hr'; simp at hd
    · exact ih _ (dwf_dcall hw c) d hd

/-- What the code guarantees about the registered children, in every reachable tree: a child's path is the
    parent's path joined with the very name it is registered (and looked up) under. -/
theorem dirstructure_children_registered_as_named (root : Path) (perm : Nat) (calls : List DCall) (i p : Nat) (n : DNode)
    (hn : (treeAfter (newDirStructure root perm) calls)[i]? = some n) (hp : n.parent = some p) :
    p < i ∧ n.path = join2 ((treeAfter (newDirStructure root perm) calls).pathOf p) n.key :=
  (dwf_treeAfter (dwf_new root perm) calls).2.2.2 i n hn p hp

/-- The source still has the shape the invariant above is read from (facts regenerated from `utils/structure.go`
    on every run): `ChildDir` registers and builds the path from the same, unmodified name parameter, and `ensure`
    finds children only by `Children[pathDirs[0]]`. -/
theorem dirstructure_source_registers_children_as_named :
    PB.Gen.Paths.childDirKeyIsGivenName = true ∧ PB.Gen.Paths.childDirPathJoinsGivenName = true ∧
      PB.Gen.Paths.ensureLooksUpByElement = true := by decide

/-- In every reachable tree, on every node: a requested absolute path that leaves the root is refused
    (so a child registered under an escaping name, e.g. `ChildDir("../evil")`, can never be ensured itself). -/
theorem dirstructure_history_rejects (root : Path) (perm : Nat) (hr : isAbs root = true) (calls : List DCall) (h : Nat)
    (hh : h < (treeAfter (newDirStructure root perm) calls).length) (dirPath : Path) (hd : isAbs dirPath = true)
    (hesc : ¬ resolve root <+: resolve dirPath) :
    ensureAbsPathT (treeAfter (newDirStructure root perm) calls) h dirPath = .error .outside := by
  have hw := dwf_treeAfter (dwf_new root perm) calls
  obtain ⟨r', hsl, hres, _⟩ := slashed_root hr
  unfold ensureAbsPathT
  rw [topOf_eq_zero hw _ h hh hh]
  dsimp only
  rw [hw.2.1, hsl]
  have hne : clean dirPath ≠ root := by
    intro heq
    apply hesc
    rw [← resolve_clean hd, heq]; exact List.prefix_refl _
  have hnp : hasPrefix (clean dirPath) (r' ++ [47]) = false := by
    cases hp : hasPrefix (clean dirPath) (r' ++ [47]) with
    | false => rfl
    | true =>
      exfalso
      apply hesc
      rw [clean_abs hd] at hp
      have := resolve_prefix_of_hasPrefix (resolve_allNormal dirPath) hp
      rwa [hres] at this
  simp [hne, hnp]

/-! ### Archive unpacking: zip entry names -/

/-- The destination of an accepted entry lies inside the unpack directory and is what the entry name denotes there. -/
theorem unpack_contained (tmp name dst : Path) (ht : isAbs tmp = true) (h : unpackDst tmp name = .ok dst) :
    Inside tmp dst ∧ resolve dst = resolveFrom (resolve tmp) name := by
  unfold unpackDst at h
  dsimp only at h
  split at h
  · cases h
  · rename_i hc
    cases h
    simp at hc
    exact ⟨inside_join2_of_hasPrefix ht name hc, resolve_join2 ht name⟩

theorem unpack_rejects_before_access (tmp name : Path) (ht : isAbs tmp = true)
    (hesc : ¬ resolve tmp <+: resolveFrom (resolve tmp) name) : unpackDst tmp name = .error .insecure := by
  cases h : unpackDst tmp name with
  | error e =>
    unfold unpackDst at h
    dsimp only at h
    split at h
    · cases h; rfl
    · cases h
  | ok dst =>
    have := unpack_contained tmp name dst ht h
    exact absurd (this.2 ▸ this.1.2) hesc

theorem unpack_accepts_inside (tmp name : Path) (ht : isAbs tmp = true) (hc : clean tmp = tmp) (hroot : tmp ≠ [47])
    (x : Path) (xs : List Path) (hin : resolveFrom (resolve tmp) name = resolve tmp ++ x :: xs) :
    unpackDst tmp name = .ok (join2 tmp name) := by
  simp [unpackDst, hasPrefix_join2_of_strict ht hc hroot hin]

/-- The whole loop over an archive: every destination written is inside the unpack directory. -/
theorem unpackAll_contained (tmp : Path) (names : List Path) (ht : isAbs tmp = true) :
    ∀ d ∈ (unpackAll tmp names).1, Inside tmp d := by
  induction names with
  | nil => simp [unpackAll]
  | cons n ns ih =>
    unfold unpackAll
    cases h : unpackDst tmp n with
    | error e => simp
    | ok d =>
      simp only
      intro x hx
      simp at hx
      rcases hx with hx | hx
      · exact hx ▸ (unpack_contained tmp n d ht h).1
      · exact ih x hx

/-- An archive with an escaping entry is rejected, and neither that entry nor any later one is written:
    the destinations written are those of a proper initial part of the archive. -/
theorem unpackAll_rejects (tmp : Path) (names : List Path) (ht : isAbs tmp = true) (n : Path) (hn : n ∈ names)
    (hesc : ¬ resolve tmp <+: resolveFrom (resolve tmp) n) :
    (unpackAll tmp names).2 = some .insecure ∧ (unpackAll tmp names).1.length < names.length := by
  induction names with
  | nil => simp at hn
  | cons m ms ih =>
    unfold unpackAll
    cases h : unpackDst tmp m with
    | error e =>
      have : e = .insecure := by
        unfold unpackDst at h
        dsimp only at h
        split at h
        · cases h; rfl
        · cases h
      simp [this]
    | ok d =>
      have hm : n ∈ ms := by
        rcases List.mem_cons.mp hn with hn | hn
        · subst hn
          rw [unpack_rejects_before_access tmp n ht hesc] at h
          cases h
        · exact hn
      have := ih hm
      simp only
      exact ⟨this.1, by simpa using this.2⟩

/-! ### Archive unpacking: the archive as a sequence of entries, and the calls `copyFromZipArchive` makes -/

theorem unpackDst_error {tmp name : Path} {e : Err} (h : unpackDst tmp name = .error e) : e = .insecure := by
  unfold unpackDst at h
  dsimp only at h
  split at h
  · cases h; rfl
  · cases h

theorem copyFromZip_path (e : ZEntry) (dst : Path) : (copyFromZip e dst).path = dst := by
  unfold copyFromZip; split <;> rfl

/-- Every file-system call the loop makes — granted or refused, whatever entries came before (directory entries,
    duplicates, names that extend earlier names) and however the operating system answers — is the `Mkdir` /
    `OpenFile` of one entry of the archive on exactly the destination the scope check accepted **for that entry's own
    name**: the verdict on an entry never depends on the entries before it, and the operating system is handed the
    validated path and nothing else. -/
theorem unpackLoop_ops_validated (os : List FsOp → FsOp → Bool) (tmp : Path) (es : List ZEntry) :
    ∀ (done : List FsOp), ∀ op ∈ (unpackLoop os tmp done es).1,
      op ∈ done ∨ ∃ e ∈ es, ∃ dst, unpackDst tmp e.name = .ok dst ∧ op = copyFromZip e dst := by
  induction es with
  | nil => intro done op h; exact Or.inl (by simpa [unpackLoop] using h)
  | cons e es ih =>
    intro done op h
    unfold unpackLoop at h
    cases hd : unpackDst tmp e.name with
    | error err => rw [hd] at h; exact Or.inl (by simpa using h)
    | ok dst =>
      rw [hd] at h
      dsimp only at h
      have key : op ∈ done ++ [copyFromZip e dst] →
          op ∈ done ∨ ∃ e' ∈ e :: es, ∃ dst', unpackDst tmp e'.name = .ok dst' ∧ op = copyFromZip e' dst' := by
        intro hm
        rcases List.mem_append.mp hm with hm | hm
        · exact Or.inl hm
        · exact Or.inr ⟨e, by simp, dst, hd, by simpa using hm⟩
      split at h
      · rcases ih _ op h with h' | ⟨e', he', dst', hd', hop⟩
        · exact key h'
        · exact Or.inr ⟨e', by simp [he'], dst', hd', hop⟩
      · exact key h

/-- Sequences of entries: for every archive (any entries in any order, with any directory flags), every unpack
    directory and every behaviour of the operating system, each path handed to `os.Mkdir` / `os.OpenFile` lies
    strictly below the unpack directory and is what the name of the entry it belongs to denotes there. -/
theorem unpackLoop_contained (os : List FsOp → FsOp → Bool) (tmp : Path) (ht : isAbs tmp = true) (es : List ZEntry) :
    ∀ op ∈ (unpackLoop os tmp [] es).1,
      StrictlyInside tmp op.path ∧ ∃ e ∈ es, resolve op.path = resolveFrom (resolve tmp) e.name := by
  intro op h
  rcases unpackLoop_ops_validated os tmp es [] op h with h' | ⟨e, he, dst, hd, hop⟩
  · simp at h'
  · subst hop
    rw [copyFromZip_path]
    refine ⟨?_, e, he, (unpack_contained tmp e.name dst ht hd).2⟩
    unfold unpackDst at hd
    dsimp only at hd
    split at hd
    · cases hd
    · rename_i hc
      cases hd
      simp at hc
      rw [join2_abs ht] at hc ⊢
      exact strictlyInside_of_clean_hasPrefix (isAbs_append ht _) (ne_nil_of_isAbs ht) hc

/-- An archive with an escaping entry anywhere in it never unpacks successfully, and no file-system call is made for
    that entry or for any entry after it — whatever precedes it (in particular an in-scope directory entry whose name
    the escaping name extends textually) and however the operating system answers; if the operating system grants
    every call, the error is the scope error. -/
theorem unpackLoop_rejects (os : List FsOp → FsOp → Bool) (tmp : Path) (ht : isAbs tmp = true)
    (pre post : List ZEntry) (e : ZEntry) (hesc : ¬ resolve tmp <+: resolveFrom (resolve tmp) e.name) :
    ∀ (done : List FsOp),
      (unpackLoop os tmp done (pre ++ e :: post)).2 ≠ none ∧
      (unpackLoop os tmp done (pre ++ e :: post)).1.length ≤ done.length + pre.length ∧
      ((∀ d op, os d op = true) → (unpackLoop os tmp done (pre ++ e :: post)).2 = some .insecure) := by
  induction pre with
  | nil =>
    intro done
    simp only [List.nil_append]
    unfold unpackLoop
    rw [unpack_rejects_before_access tmp e.name ht hesc]
    simp
  | cons p ps ih =>
    intro done
    simp only [List.cons_append]
    unfold unpackLoop
    cases hd : unpackDst tmp p.name with
    | error err => simp [unpackDst_error hd]
    | ok dst =>
      dsimp only
      by_cases hos : os done (copyFromZip p dst) = true
      · simp only [hos, if_true]
        have := ih (done ++ [copyFromZip p dst])
        refine ⟨this.1, ?_, this.2.2⟩
        have h2 := this.2.1
        simp only [List.length_append, List.length_cons, List.length_nil] at h2 ⊢
        omega
      · simp only [hos]
        refine ⟨by simp, by simp, ?_⟩
        intro hall
        exact absurd (hall _ _) hos

/-- No over-rejection, for whole archives: if every entry name stays strictly below a clean unpack directory and the
    operating system grants the calls, the archive is unpacked completely, entry by entry, each at `Join(tmpDir, name)`. -/
theorem unpackLoop_accepts_inside (os : List FsOp → FsOp → Bool) (hos : ∀ d op, os d op = true) (tmp : Path)
    (ht : isAbs tmp = true) (hc : clean tmp = tmp) (hroot : tmp ≠ [47]) (es : List ZEntry)
    (hin : ∀ e ∈ es, ∃ x xs, resolveFrom (resolve tmp) e.name = resolve tmp ++ x :: xs) :
    ∀ (done : List FsOp),
      unpackLoop os tmp done es = (done ++ es.map (fun e => copyFromZip e (join2 tmp e.name)), none) := by
  induction es with
  | nil => intro done; simp [unpackLoop]
  | cons e es ih =>
    intro done
    obtain ⟨x, xs, hx⟩ := hin e (by simp)
    unfold unpackLoop
    rw [unpack_accepts_inside tmp e.name ht hc hroot x xs hx]
    simp only [hos, if_true]
    rw [ih (fun e' he' => hin e' (by simp [he'])) (done ++ [copyFromZip e (join2 tmp e.name)])]
    simp

/-- The name alphabet: a name without the separator byte `/` (and other than "", ".", "..") is ONE file name, whatever
    else it is made of — backslashes, colons, NUL, CR/LF, a full-width solidus, `%2e%2e`, trailing dots and spaces are
    ordinary bytes on POSIX.  Such an entry is accepted and its destination is literally `tmpDir/<name>`, the one
    path `copyFromZipArchive` gets: nothing later may read the name's bytes as separators. -/
theorem unpack_name_without_separator_is_literal (tmp name : Path) (ht : isAbs tmp = true) (hc : clean tmp = tmp)
    (hroot : tmp ≠ [47]) (hn : Normal name) (isDir : Bool) :
    unpackDst tmp name = .ok (tmp ++ 47 :: name) ∧
    (unpackLoop (fun _ _ => true) tmp [] [⟨name, isDir⟩]).1 = [copyFromZip ⟨name, isDir⟩ (tmp ++ 47 :: name)] := by
  have hin : resolveFrom (resolve tmp) name = resolve tmp ++ name :: [] := by
    simp [resolveFrom, splitSep_of_not_mem hn.2.2.2, stepSeg_normal hn]
  have hbase : tmp = 47 :: joinSep (resolve tmp) := by rw [← clean_abs ht, hc]
  have hne : resolve tmp ≠ [] := by
    intro e; rw [e] at hbase; exact hroot (by simpa [joinSep] using hbase)
  have hj : join2 tmp name = tmp ++ 47 :: name := by
    rw [join2_abs ht, clean_abs (isAbs_append ht _), resolve_append_sep, hin, joinSep_append hne]
    conv => rhs; rw [hbase]
    simp [joinSep]
  have h1 := unpack_accepts_inside tmp name ht hc hroot name [] hin
  rw [hj] at h1
  refine ⟨h1, ?_⟩
  simp [unpackLoop, h1]

/-- The same for the file-tree backend: a key without `/` names the one file `base/<key>`, whatever its bytes. -/
theorem fstree_key_without_separator_is_literal (base key : Path) (chk : Bool) (hb : isAbs base = true)
    (hc : clean base = base) (hroot : base ≠ [47]) (hn : Normal key) :
    buildFilePath base key chk = .ok (base ++ 47 :: key) := by
  have := fstree_accepts_inside base chk hb hc hroot key [] (by simpa using hn)
  simpa [joinSep] using this

/-- The regenerated shape of the source (go/ast, `harness/cmd/extract/paths.go`): the loop over the archive entries
    checks every entry unconditionally on the path computed from that entry's own name and passes that path on;
    `copyFromZipArchive` hands its path parameter unchanged to `os.Mkdir` / `os.OpenFile`; and the scope checks of the
    components are the prefix comparisons (with separator) the model states. -/
theorem unpack_source_checks_every_entry_and_uses_the_checked_path :
    PB.Gen.Paths.unpackLoopChecksEveryEntry = true ∧ PB.Gen.Paths.copyUsesGivenPath = true ∧
    PB.Gen.Paths.unpackScopeCond = "!strings.HasPrefix(dstPath, tmpDir+string(filepath.Separator))" := by decide

theorem scope_checks_as_modelled :
    PB.Gen.Paths.fstreeScopeCond =
      "!strings.HasPrefix(dstPath, fst.basePath+string(filepath.Separator)) && (checkKeyLength || dstPath != fst.basePath)" ∧
    PB.Gen.Paths.fstreeCleanCond =
      "checkKeyLength && dstPath != fst.basePath+string(filepath.Separator)+filepath.FromSlash(key)" ∧
    PB.Gen.Paths.scanScopeCond =
      "root != reg.storageDir.Path && !strings.HasPrefix(root, reg.storageDir.Path+string(filepath.Separator))" ∧
    PB.Gen.Paths.dirStructureScopeCond = "!strings.HasPrefix(dirPath, slashedPath)" ∧
    PB.Gen.Paths.bridgeScopeCond = "!strings.HasPrefix(requestURL, apiV1Path)" := by decide

/-! ### Storage scan: the scan root -/

/-- The directory handed to `filepath.Walk` is inside the storage directory, and it is the directory the
    supplied root denotes (relative roots are taken from the working directory). -/
theorem scan_contained (storage cwd root r : Path) (hs : isAbs storage = true) (hc : isAbs cwd = true)
    (h : scanRoot storage cwd root = .ok r) :
    Inside storage r ∧
      (root ≠ [] → resolve r = if isAbs root = true then resolve root else resolveFrom (resolve cwd) root) := by
  unfold scanRoot at h
  split at h
  · rename_i h0
    cases h
    exact ⟨inside_refl hs, fun hne => absurd h0 hne⟩
  · dsimp only at h
    split at h
    · cases h
    · rename_i hchk
      cases h
      have hres : resolve (absOf cwd root) = if isAbs root = true then resolve root else resolveFrom (resolve cwd) root := by
        unfold absOf
        by_cases ha : isAbs root = true
        · simp [ha, resolve_clean ha]
        · simp [ha, resolve_join2 hc]
      refine ⟨?_, fun _ => hres⟩
      by_cases hp : hasPrefix (absOf cwd root) (storage ++ [47]) = true
      · unfold absOf at hp ⊢
        by_cases ha : isAbs root = true
        · simp only [ha, if_true] at hp ⊢
          exact inside_of_clean_hasPrefix ha hp
        · simp only [ha] at hp ⊢
          exact inside_join2_of_hasPrefix hc root hp
      · simp [hp] at hchk
        rw [hchk]; exact inside_refl hs

theorem scan_rejects_before_access (storage cwd root : Path) (hs : isAbs storage = true) (hc : isAbs cwd = true)
    (hne : root ≠ [])
    (hesc : ¬ resolve storage <+: (if isAbs root = true then resolve root else resolveFrom (resolve cwd) root)) :
    scanRoot storage cwd root = .error .outside := by
  cases h : scanRoot storage cwd root with
  | error e =>
    unfold scanRoot at h
    simp only [hne, if_false] at h
    split at h
    · cases h; rfl
    · cases h
  | ok r =>
    have := scan_contained storage cwd root r hs hc h
    exact absurd (this.2 hne ▸ this.1.2) hesc

/-! ### API bridge: URL path of a bridged request (same pattern; constant regenerated from the source) -/

/-- For every API prefix that ends in a separator, an accepted URL path lies below the prefix directory. -/
theorem bridge_contained (api r p u : Path) (hr : api = r ++ [47]) (ha : isAbs api = true)
    (h : bridgeURL api p = .ok u) : Inside r u ∧ resolve u = resolveFrom (resolve r) p := by
  unfold bridgeURL at h
  dsimp only at h
  split at h
  · cases h
  · rename_i hc
    cases h
    simp at hc
    refine ⟨inside_join2_of_hasPrefix ha p (hr ▸ hc), ?_⟩
    rw [resolve_join2 ha, hr, resolve_append_slash]

/-- The same for the prefix the source actually uses (`apiV1Path`, regenerated on every run). -/
theorem bridge_contained_apiV1 (p u : Path) (h : bridgeURL PB.Gen.Paths.apiV1Path p = .ok u) :
    Inside PB.Gen.Paths.apiV1Path.dropLast u :=
  (bridge_contained PB.Gen.Paths.apiV1Path PB.Gen.Paths.apiV1Path.dropLast p u (by decide) (by decide) h).1

/-! ### The regression the string-prefix checks are prone to -/

/-- A sibling directory whose name merely extends the root's name is not inside the root. -/
theorem sibling_prefix_not_inside (parent name ext : Path) (hn : Normal name) (hx : Normal (name ++ ext))
    (he : ext ≠ []) : ¬ Inside (parent ++ 47 :: name) (parent ++ 47 :: (name ++ ext)) := by
  intro h
  have h2 := h.2
  rw [resolve_append_sep, resolve_append_sep] at h2
  simp only [resolveFrom, splitSep_of_not_mem hn.2.2.2, splitSep_of_not_mem hx.2.2.2, List.foldl_cons,
    List.foldl_nil, stepSeg_normal hn, stepSeg_normal hx] at h2
  have hlen := List.IsPrefix.eq_of_length h2 (by simp)
  have := List.append_cancel_left hlen
  simp at this
  exact he this

/-- The concrete regression (DESIGN §7 #21): `/a/root-other/x` is not inside `/a/root`. -/
theorem sibling_prefix_not_inside_example : ¬ Inside (B "/a/root") (B "/a/root-other/x") := by decide

/-! ### Non-vacuity: the observed attack inputs are rejected, ordinary names are accepted with the expected path -/

-- fstree (#21): sibling sharing the name prefix, parent references, the base directory itself
example : buildFilePath (B "/a/root") (B "../root-other/evil") true = .error .integrity := by decide
example : buildFilePath (B "/a/root") (B "d/../../rootx") true = .error .integrity := by decide
example : buildFilePath (B "/a/root") (B ".") true = .error .integrity := by decide
example : buildFilePath (B "/a/root") (B "") true = .error .tooShort := by decide
example : buildFilePath (B "/a/root") (B "d/../x//y/.") true = .error .unclean := by decide
example : buildFilePath (B "/a/root") (B "../root/k") true = .error .unclean := by decide
example : buildFilePath (B "/a/root") (B "x/y") true = .ok (B "/a/root/x/y") := by decide
example : buildFilePath (B "/a/root") (B "d/../x//y/.") false = .ok (B "/a/root/x/y") := by decide
example : buildFilePath (B "/a/root") (B "a/") true = .error .unclean := by decide
example : buildFilePath (B "/a/root") (B "") false = .ok (B "/a/root") := by decide
example : queryWalkRoot (B "/a/root") (B "d/b") (fun p => if p = B "/a/root/d/b" then .file else .dir) = .ok (some (B "/a/root/d")) := by decide
example : queryWalkRoot (B "/a/root") (B "../root-other") (fun _ => .dir) = .error .integrity := by decide
example : queryWalkRoot (B "/a/root") (B "d") (fun _ => .dir) = .ok (some (B "/a/root")) := by decide
example : queryWalkRoot (B "/a/root") (B "d/") (fun _ => .dir) = .ok (some (B "/a/root/d")) := by decide
example : queryWalkRoot (B "/a/root") (B "d/..") (fun _ => .dir) = .ok (some (B "/a/root")) := by decide
example : queryWalkRoot (B "/a/root") (B "") (fun _ => .dir) = .ok (some (B "/a/root")) := by decide
-- the database directory removed / replaced by a file behind the back of the open storage: no walk at all
example : queryWalkRoot (B "/a/root") (B "") (fun _ => .absent) = .ok none := by decide
example : queryWalkRoot (B "/a/root") (B "../root") (fun _ => .file) = .ok none := by decide
example : queryWalkRoot (B "/a/root") (B "x") (fun _ => .absent) = .ok (some (B "/a/root")) := by decide
example : queryWalkRoot (B "/a/root") (B "a/x") (fun _ => .other) = .error .statErr := by decide
example : buildFilePath (B "/a/root") (joinSep [B "x", B "y"]) true = .ok (B "/a/root" ++ 47 :: joinSep [B "x", B "y"]) :=
  fstree_accepts_inside (B "/a/root") true (by decide) (by decide) (by decide) (B "x") [B "y"]
    (by intro s hs; simp at hs; rcases hs with rfl | rfl <;> (unfold Normal; decide))
-- fstree on a file-system state: `/x` holds the database directory `db` (or not) and a sibling `db-old` with a record
private def fsWith (db : Ents → Ents) : Ents :=
  Ents.dir (B "x") (db (Ents.dir (B "db-old") (Ents.file (B "secret") true Ents.nil) (Ents.file (B "note.txt") false Ents.nil))) Ents.nil
private def fsDb : Ents := fsWith (Ents.dir (B "db") (Ents.file (B "a") true (Ents.dir (B "d") (Ents.file (B "b") true Ents.nil) Ents.nil)))
example : queryRun fsDb (B "/x/db") (B "") = .ok ⟨[.stat (B "/x/db"), .stat (B "/x/db"), .list (B "/x/db"),
    .stat (B "/x/db/a"), .read (B "/x/db/a"), .stat (B "/x/db/d"), .list (B "/x/db/d"), .stat (B "/x/db/d/b"), .read (B "/x/db/d/b")],
    [B "a", B "d/b"], false⟩ := by decide
example : queryRun fsDb (B "/x/db") (B "d") = .ok ⟨[.stat (B "/x/db/d"), .stat (B "/x/db"), .list (B "/x/db"),
    .stat (B "/x/db/a"), .read (B "/x/db/a"), .stat (B "/x/db/d"), .list (B "/x/db/d"), .stat (B "/x/db/d/b"), .read (B "/x/db/d/b")],
    [B "d/b"], false⟩ := by decide
-- the database directory removed behind the back of the open storage: prefixes that resolve to it are answered without a walk
example : queryRun (fsWith id) (B "/x/db") (B "") = .ok { acc := [.stat (B "/x/db")] } := by decide
example : queryRun (fsWith id) (B "/x/db") (B "../db") = .ok { acc := [.stat (B "/x/db")] } := by decide
example : queryRun (fsWith (Ents.file (B "db") true)) (B "/x/db") (B ".") = .ok { acc := [.stat (B "/x/db")] } := by decide
example : queryRun (fsWith id) (B "/x/db") (B "k") = .ok { acc := [.stat (B "/x/db/k"), .stat (B "/x/db")] } := by decide
example : queryRun (fsWith id) (B "/x/db") (B "../db-old") = .error .integrity := by decide
-- what the defect was (fixed in the repo): a walk that starts at the parent lists it before the callback can say SkipDir
example : walkTop (fsWith id) (B "/x/db") (B "") (B "/x") = { acc := [.stat (B "/x"), .list (B "/x")] } := by decide
-- DirStructure (#22): parent references behind a matching prefix
example : ensureAbsPath (B "/a/root") (B "/a/root/../outside/x") = .error .outside := by decide
example : ensureAbsPath (B "/a/root") (B "/a/root-other/x") = .error .outside := by decide
example : ensureAbsPath (B "/a/root/") (B "/a/root/tmp/../k//m") = .ok [B "/a/root/", B "/a/root/k", B "/a/root/k/m"] := by decide
example : ensureAbsPath (B "/a/root") (B "/a/root/") = .ok [B "/a/root"] := by decide
example : ensureRelPath (B "/a/root") (B "../other/k") = .error .outside := by decide
example : ensureRelDir (B "/a/root") [B "..", B "root", B "k"] = .ok [B "/a/root", B "/a/root/k"] := by decide
-- DirStructure histories (seeded C18-r2-2 class): a child registered under an escaping name is inert
example : (childDir (newDirStructure (B "/a/root") 0o755) 0 (B "../evil") 0o700) =
    ([⟨none, [], B "/a/root", 0o755⟩, ⟨some 0, B "../evil", B "/a/evil", 0o700⟩], 1) := by decide
example : dhistory (newDirStructure (B "/a/root") 0o755)
    [.childDir 0 (B "../evil") 0o700, .ensure 1, .ensureRel 0 (B "evil/sub")] =
    [(B "/a/root", 0o755), (B "/a/root/evil", 0o755), (B "/a/root/evil/sub", 0o755)] := by decide
example : dhistory (newDirStructure (B "/a/root") 0o755)
    [.childDir 0 (B "tmp") 0o700, .childDir 1 (B "sub") 0o750, .childDir 0 (B "tmp") 0o710, .ensureAbs 2 (B "/a/root/tmp/sub/k/m")] =
    [(B "/a/root", 0o755), (B "/a/root/tmp", 0o710), (B "/a/root/tmp/sub", 0o750), (B "/a/root/tmp/sub/k", 0o750), (B "/a/root/tmp/sub/k/m", 0o750)] := by decide
example : ensureT (childDir (newDirStructure (B "/a/root") 0o755) 0 (B "../root-old") 0o700).1 1 = .error .outside := by decide
example : ensureRelPathT (childDir (newDirStructure (B "/a/root") 0o755) 0 (B "x/../../evil") 0o700).1 1 (B "k") = .error .outside := by decide
-- unpacking (#24): zip slip
example : unpackDst (B "/s/tmp/thing_v1-0-0") (B "../../../root-other/evil") = .error .insecure := by decide
example : unpackDst (B "/s/tmp/thing_v1-0-0") (B "/abs") = .ok (B "/s/tmp/thing_v1-0-0/abs") := by decide
example : unpackAll (B "/s/tmp/t") [B "ok.txt", B "d/", B "../x", B "later"] = ([B "/s/tmp/t/ok.txt", B "/s/tmp/t/d"], some .insecure) := by decide
-- sequences of entries (seeded C18-r3-1: an in-scope directory entry, then a name that extends it textually and climbs out)
example : unpackLoop (osFresh (B "/s/tmp/t")) (B "/s/tmp/t") [] [⟨B "sub/", true⟩, ⟨B "sub/../../../../x", false⟩, ⟨B "later", false⟩] =
    ([.mkdir (B "/s/tmp/t/sub")], some .insecure) := by decide
example : unpackLoop (osFresh (B "/s/tmp/t")) (B "/s/tmp/t") [] [⟨B "a/", true⟩, ⟨B "a/b/", true⟩, ⟨B "a/b/../../../../../dir/", true⟩] =
    ([.mkdir (B "/s/tmp/t/a"), .mkdir (B "/s/tmp/t/a/b")], some .insecure) := by decide
example : unpackLoop (osFresh (B "/s/tmp/t")) (B "/s/tmp/t") [] [⟨B "sub", true⟩, ⟨B "sub/f", false⟩, ⟨B "sub/f", false⟩, ⟨B "sub/../g", false⟩] =
    ([.mkdir (B "/s/tmp/t/sub"), .create (B "/s/tmp/t/sub/f"), .create (B "/s/tmp/t/sub/f"), .create (B "/s/tmp/t/g")], none) := by decide
example : unpackLoop (osFresh (B "/s/tmp/t")) (B "/s/tmp/t") [] [⟨B "f", false⟩, ⟨B "f/x", false⟩, ⟨B "../../x", false⟩] =
    ([.create (B "/s/tmp/t/f"), .create (B "/s/tmp/t/f/x")], some .copyFailed) := by decide
example : unpackLoop (osFresh (B "/s/tmp/t")) (B "/s/tmp/t") [] [⟨B "d/", true⟩, ⟨B "d", true⟩] =
    ([.mkdir (B "/s/tmp/t/d"), .mkdir (B "/s/tmp/t/d")], some .copyFailed) := by decide
-- the name alphabet (seeded C18-r3-3): backslashes, colons, look-alikes are bytes of one file name
example : unpackDst (B "/s/tmp/t") (B "..\\..\\..\\x") = .ok (B "/s/tmp/t/..\\..\\..\\x") := by decide
example : unpackDst (B "/s/tmp/t") (B "sub/..\\..\\..\\..\\x") = .ok (B "/s/tmp/t/sub/..\\..\\..\\..\\x") := by decide
example : unpackDst (B "/s/tmp/t") (B "..:..:x") = .ok (B "/s/tmp/t/..:..:x") := by decide
example : unpackDst (B "/s/tmp/t") (B "%2e%2e/%2e%2e/x") = .ok (B "/s/tmp/t/%2e%2e/%2e%2e/x") := by decide
example : unpackDst (B "/s/tmp/t") (B ".. /.. /x") = .ok (B "/s/tmp/t/.. /.. /x") := by decide
example : unpackDst (B "/s/tmp/t") (B "..\\../../../x") = .error .insecure := by decide
example : buildFilePath (B "/a/root") (B "..\\..\\x") true = .ok (B "/a/root/..\\..\\x") := by decide
-- names built from the root's own absolute path (seeded C18-r3-2): a foreign tree that embeds the root's path
example : buildFilePath (B "/T/inside/db") (B "../../backup-inside-db/T/inside/db/victim") true = .error .integrity := by decide
example : buildFilePath (B "/T/inside/db") (B "../../mirror/T/inside/db/") false = .error .integrity := by decide
example : unpackDst (B "/s/tmp/t") (B "../../../mirror/s/tmp/t/x") = .error .insecure := by decide
example : scanRoot (B "/s/storage") (B "/s") (B "/s/mirror/s/storage/x") = .error .outside := by decide
example : scanRoot (B "/s/storage") (B "/s") (B "mirror/s/storage") = .error .outside := by decide
example : ensureAbsPath (B "/a/root") (B "/a/mirror/a/root/x") = .error .outside := by decide
example : ensureRelPath (B "/a/root") (B "../mirror/a/root/x") = .error .outside := by decide
-- a sibling that differs from the root in letter case only (seeded C18-r5-1: scope comparison that folds case): a different directory
example : buildFilePath (B "/T/data/cache") (B "../Cache/sec") false = .error .integrity := by decide
example : buildFilePath (B "/T/data/cache") (B "../Cache/sub/") false = .error .integrity := by decide
example : buildFilePath (B "/T/data/cache") (B "../Cache") false = .error .integrity := by decide
example : buildFilePath (B "/T/data/cache") (B "../Cache/secret") true = .error .integrity := by decide
example : buildFilePath (B "/T/data/cache") (B "../cache/sec") false = .ok (B "/T/data/cache/sec") := by decide
example : unpackDst (B "/s/tmp/t") (B "../../../S/evil") = .error .insecure := by decide
example : scanRoot (B "/s/storage") (B "/s") (B "/s/Storage/sub") = .error .outside := by decide
example : ensureAbsPath (B "/a/root") (B "/a/Root/sub/new") = .error .outside := by decide
example : ensureRelPath (B "/a/root") (B "../Root/k") = .error .outside := by decide
-- ScanStorage (#23): sibling sharing the name prefix, relative roots
example : scanRoot (B "/s/storage") (B "/s") (B "/s/storage-other") = .error .outside := by decide
example : scanRoot (B "/s/storage") (B "/s") (B "storage-other/x") = .error .outside := by decide
example : scanRoot (B "/s/storage") (B "/s") (B "storage/all/../pkg") = .ok (B "/s/storage/pkg") := by decide
example : scanRoot (B "/s/storage") (B "/s") (B "") = .ok (B "/s/storage") := by decide
-- api bridge
example : bridgeURL PB.Gen.Paths.apiV1Path (B "../v1x/ping") = .error .scope := by decide
example : bridgeURL PB.Gen.Paths.apiV1Path (B "") = .error .scope := by decide
example : bridgeURL PB.Gen.Paths.apiV1Path (B "core/../ping") = .ok (B "/api/v1/ping") := by decide

end PB.C18
