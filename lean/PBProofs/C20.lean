import PBProofs.Lemmas.Log
import PB.Gen.Log
/-
C20 — No enabled log line is lost, duplicated or reordered.
Property theorems only (helper lemmas live in PBProofs/Lemmas/Log.lean). The model is PB/Model/Log.lean:
`Reachable` quantifies over every buffer capacity, paced or free-running writer, every number of
producer goroutines, every history of calls/submissions/level changes and every interleaving, with
Shutdown at any moment.
-/
namespace PB.C20
open PB PB.Log

/-! ### Duplicate merging: an adapter write stands for `duplicates + 1` copies, nothing else -/

/-- One writeLoop round over any batch: the writes, expanded, are exactly the batch, in order. -/
theorem merge_expand (ls : List Line) : expand (mergeRuns ls) = ls := by
  have h := drainBatch_expand ls none 0 (by simp)
  obtain ⟨a, b, c⟩ := h
  unfold mergeRuns
  simp only [wstep, b, if_true]
  generalize drainBatch { pc := .drain, cur := none, dups := 0 } ls = r at *
  cases hc : r.1.cur with
  | none => simp [Writer.pending, hc] at a ⊢; exact a
  | some x => simp [Writer.pending, hc, expand_append, expand] at a ⊢; exact a

/-- The merge decision, over the `Equal` regenerated from log/logging.go (`PB.Gen.Log.lineEqual`): two lines
    are identified exactly when NEITHER was submitted by a context tracer and message, file, line and level
    agree (the timestamp is deliberately not compared). `||` → `&&` in the tracer case, a dropped field
    comparison or an added case in the source changes the generated function and breaks this proof. -/
theorem merge_decision (a b : Line) :
    a.equal b = true ↔
      (a.trace = none ∧ b.trace = none ∧ a.msg = b.msg ∧ a.file = b.file ∧ a.line = b.line ∧ a.lvl = b.lvl) :=
  equal_iff a b

/-- The regenerated switch has the five cases the model was written against, in this order. -/
theorem merge_decision_source :
    PB.Gen.Log.equalCases = ["ll.msg != ol.msg", "ll.tracer != nil || ol.tracer != nil", "ll.file != ol.file",
      "ll.line != ol.line", "ll.level != ol.level"] := by decide

/-- Only lines that `logLine.Equal` identifies are merged, and those are equal in every observable field and
    are not tracer submissions (neither of them). -/
theorem merged_lines_identical (a b : Line) (h : a.equal b = true) :
    a = b ∧ a.trace = none ∧ b.trace = none := by
  have hq := (equal_iff a b).mp h
  exact ⟨equal_eq h, hq.1, hq.2.1⟩

/-- A tracer submission is identified with nothing: not with a plain line of the same text, call site and
    level (in either order), not with another submission, not with itself. -/
theorem tracer_never_equal (a b : Line) (h : a.trace.isSome = true ∨ b.trace.isSome = true) :
    a.equal b = false := by
  cases he : a.equal b with
  | false => rfl
  | true =>
    have hq := (equal_iff a b).mp he
    rcases h with h | h <;> simp_all

/-- One writeLoop round over any batch: no write of a tracer line carries a repetition count … -/
theorem tracer_lines_never_merged (ls : List Line) :
    ∀ w ∈ mergeRuns ls, w.1.trace.isSome = true → w.2 = 0 := mergeRuns_tracer ls

/-- … and the tracer submissions of the batch are written one by one, each exactly once, in order, with
    everything they carry (a `Line` includes its collected entries), wherever they stand in the batch. -/
theorem batch_keeps_every_tracer_submission (ls : List Line) :
    ((mergeRuns ls).filter (·.1.trace.isSome)).map (·.1) = ls.filter (·.trace.isSome) := by
  rw [← expand_filter_tracer _ (mergeRuns_tracer ls), merge_expand]

/-! ### Exactly once, in order -/

/-- In every reachable state the adapter output, expanded, followed by what the writer still holds and
    what is still buffered, is exactly the sequence of enqueued lines: nothing lost, nothing duplicated,
    nothing reordered between enqueue and adapter. -/
theorem output_is_enqueued_prefix {s : St} (h : Reachable s) :
    expand s.out ++ s.w.pending ++ s.buf.map (·.2) = s.enq.map (·.2) := by
  have hi := inv_reachable h
  rw [hi.d2, ← hi.d1]; simp

/-- Per goroutine: what it has logged at or above the level in force (in program order) is what it has
    enqueued (in channel order) plus the one line it may be holding while blocked. -/
theorem fifo_per_producer {s : St} (h : Reachable s) (p : Nat) :
    s.logged p = proj p s.deq ++ proj p s.buf ++ (s.prods p).pending := by
  have hi := inv_reachable h
  rw [← hi.p1 p, ← hi.d1, proj_append]

/-- When nothing is in flight (buffer empty, writer holds nothing, no goroutine inside a call holding a
    line) the expanded adapter output is an interleaving of the goroutines' accepted lines: there is a
    labelling of the output by goroutines whose projection on every goroutine is exactly what that
    goroutine logged, in its order — every enabled line exactly once. -/
theorem exactly_once_when_drained {s : St} (h : Reachable s) (hb : s.buf = []) (hw : s.w.cur = none)
    (hp : ∀ p, (s.prods p).pending = []) :
    ∃ xs : List Owned, xs.map (·.2) = expand s.out ∧ ∀ p, proj p xs = s.logged p := by
  have hi := inv_reachable h
  refine ⟨s.enq, ?_, ?_⟩
  · have := output_is_enqueued_prefix h
    simp [hb, Writer.pending, hw] at this
    exact this.symm
  · intro p
    have := hi.p1 p
    rw [hp p] at this
    simpa using this

/-- In every reachable state no adapter write of a tracer submission carries a repetition count: a
    submission is never counted as a repetition of another line, nor another line as a repetition of it. -/
theorem tracer_writes_unmerged {s : St} (h : Reachable s) :
    ∀ w ∈ s.out, w.1.trace.isSome = true → w.2 = 0 := (trinv_reachable h).t2

/-- While the writer counts repetitions, the line it holds is a plain line. -/
theorem writer_counts_only_plain_lines {s : St} (h : Reachable s) (c : Line) (hc : s.w.cur = some c)
    (hd : 0 < s.w.dups) : c.trace = none := (trinv_reachable h).t1 c hc hd

/-- Every tracer submission is accounted for on its own: the tracer writes the adapter received (one call
    each), followed by the submissions the writer holds or that are still buffered, are exactly the
    submissions that were enqueued, in order — each once, with its collected entries. -/
theorem tracer_submissions_exactly_once {s : St} (h : Reachable s) :
    (s.out.filter (·.1.trace.isSome)).map (·.1) ++
        (s.w.pending ++ s.buf.map (·.2)).filter (·.trace.isSome) =
      (s.enq.map (·.2)).filter (·.trace.isSome) := by
  rw [← output_is_enqueued_prefix h, ← expand_filter_tracer _ (tracer_writes_unmerged h)]
  simp [List.filter_append]

/-- A goroutine blocked on a full buffer holds exactly its next line; the buffer never exceeds its capacity. -/
theorem full_buffer_blocks_but_preserves_order {s : St} (h : Reachable s) (p : Nat) (l : Line)
    (hf : s.prods p = .forcing l) :
    s.logged p = proj p s.enq ++ [l] ∧ s.buf.length ≤ s.cap := by
  have hi := inv_reachable h
  refine ⟨?_, hi.cp⟩
  rw [← hi.p1 p, hf]; rfl

/-! ### Level filter -/

/-- The filter of `log()` is the comparison with the level in force for the origin. -/
theorem enabled_iff_threshold (c : Levels) (p lvl : Nat) :
    enabled c (some p) lvl = true ↔ threshold c p ≤ lvl := by
  unfold enabled threshold
  cases c.active <;> simp
  cases lookupPkg c.pkgs p <;> simp

/-- `fastcheck` never rejects what the filter would accept. -/
theorem enabled_implies_fastcheck (c : Levels) (pkg : Option Nat) (lvl : Nat)
    (h : enabled c pkg lvl = true) : fastcheck c lvl = true := by
  rw [fastcheck_iff]
  unfold enabled at h
  cases ha : c.active <;> simp_all

/-- A goroutine's log of accepted lines grows only by a filter step that found the line enabled under
    the levels in force at that step, or by a tracer submission. -/
theorem filtered_never_accepted {s s' : St} {a : Act} (hs : step s a = some s') (p : Nat) :
    s'.logged p = s.logged p ∨
    ∃ l, s'.logged p = s.logged p ++ [l] ∧
      ((∃ pkg, a = .p p (.filter true) ∧ s.prods p = .inLog l pkg ∧ enabled s.lv pkg l.lvl = true) ∨
       (a = .p p (.submit l) ∧ l.trace.isSome ∧
          ∃ t, s.tr p = some t ∧ submitLine (t.logs.map (·.e)) = some l)) := by
  cases a with
  | p pid e =>
    by_cases hp : p = pid
    · subst hp
      cases e <;> simp only [step, St.accept, St.push] at hs <;> (repeat' split at hs) <;>
        (try cases hs) <;> first | (left; rfl) | (right; simp_all [upd])
    · left
      cases e <;> simp only [step, St.accept, St.push] at hs <;> (repeat' split at hs) <;>
        (try cases hs) <;> simp [upd, hp]
  | w e =>
    left
    cases e <;> simp only [step] at hs <;> (repeat' split at hs) <;> (try cases hs) <;> rfl
  | wforce pid => left; simp only [step] at hs; (repeat' split at hs) <;> (try cases hs) <;> rfl
  | addTracer pid pkg live => left; simp only [step] at hs; (repeat' split at hs) <;> (try cases hs) <;> rfl
  | collect pid e pkg => left; simp only [step] at hs; (repeat' split at hs) <;> (try cases hs) <;> rfl
  | trigger => left; simp only [step] at hs; (repeat' split at hs) <;> (try cases hs) <;> rfl
  | setLevel g => left; simp only [step] at hs; cases hs; rfl
  | setPkgs m => left; simp only [step] at hs; cases hs; rfl
  | unsetPkgs => left; simp only [step] at hs; cases hs; rfl
  | shutdown => left; simp only [step] at hs; (repeat' split at hs) <;> (try cases hs) <;> rfl

/-- Whatever reaches the adapter was accepted by some goroutine's filter (or submitted by a tracer). -/
theorem written_lines_were_accepted {s : St} (h : Reachable s) (l : Line) (hl : l ∈ expand s.out) :
    ∃ p, l ∈ s.logged p := by
  have hi := inv_reachable h
  have h1 : l ∈ s.deq.map (·.2) := by rw [← hi.d2]; exact List.mem_append_left _ hl
  obtain ⟨x, hx, rfl⟩ := List.mem_map.mp h1
  refine ⟨x.1, ?_⟩
  rw [← hi.p1 x.1, ← hi.d1]
  apply List.mem_append_left
  simp only [proj, List.mem_map, List.mem_filter]
  exact ⟨x, ⟨List.mem_append_left _ hx, by simp⟩, rfl⟩

/-! ### The levels in force at Start: flags, `ParseLevel`, `Severity.Name` -/

/-- `ParseLevel` knows exactly the six severities: its result is 0 (unknown name) or one of them … -/
theorem parseLevel_range (s : String) :
    parseLevel s = 0 ∨ ∃ c ∈ PB.Gen.Log.severities, c.2 = parseLevel s := by
  unfold parseLevel lookupLevel
  generalize s.toLower = t
  simp only [PB.Gen.Log.levelNames, List.lookup]
  repeat' split
  all_goals first | (left; rfl) | (right; decide)

/-- … and it reads back what `Severity.Name` prints, for every severity (both tables regenerated). -/
theorem parseLevel_reads_names : ∀ c ∈ PB.Gen.Log.severities, lookupLevel (severityName c.2) = c.2 := by decide

/-- Without flags Start leaves the levels as they were set before. -/
theorem start_without_flags (f : String → Nat) (pre : Levels) : startLevels f pre "" "" = pre := by
  simp [startLevels]

/-- `-log`: a known name sets the global level to that severity, an unknown one to info. -/
theorem start_log_flag (f : String → Nat) (pre : Levels) (lf pf : String) (h : lf ≠ "") :
    (startLevels f pre lf pf).glob = if parseLevel lf = 0 then PB.Gen.Log.infoLevel else parseLevel lf := by
  unfold startLevels
  by_cases hp : pf = "" <;> simp [h, hp]

/-- A non-empty `-plog` activates the package levels (whatever could be read of it) and replaces the
    package levels set before Start; an empty one leaves them alone. -/
theorem start_plog_flag (f : String → Nat) (pre : Levels) (lf pf : String) :
    (pf ≠ "" → (startLevels f pre lf pf).active = true) ∧
    (pf = "" → (startLevels f pre lf pf).active = pre.active ∧ (startLevels f pre lf pf).pkgs = pre.pkgs) := by
  unfold startLevels
  by_cases hp : pf = "" <;> simp [hp]

/-- The `-plog` loop stops at the first pair that is not `name=<known level>`: what follows is not read. -/
theorem parsePairs_stops (good : List (List String)) (bad : List String) (rest : List (List String))
    (acc : List (String × Nat)) (hb : ∀ k v, bad = [k, v] → parseLevel v = 0) :
    parsePairs (good ++ bad :: rest) acc = parsePairs (good ++ [bad]) acc := by
  induction good generalizing acc with
  | nil =>
    match bad, hb with
    | [], _ => simp [parsePairs]
    | [_], _ => simp [parsePairs]
    | [k, v], hb => simp [parsePairs, hb k v rfl]
    | _ :: _ :: _ :: _, _ => simp [parsePairs]
  | cons g gs ih =>
    match g with
    | [] => simp [parsePairs]
    | [_] => simp [parsePairs]
    | [k, v] =>
      simp only [List.cons_append, parsePairs]
      split
      · rfl
      · exact ih _
    | _ :: _ :: _ :: _ => simp [parsePairs]

/-- A well-formed pair sets its package's level (replacing an earlier entry for the same package). -/
theorem parsePairs_pair (k v : String) (rest : List (List String)) (acc : List (String × Nat))
    (hv : parseLevel v ≠ 0) :
    parsePairs ([k, v] :: rest) acc = parsePairs rest (setPkg acc k (parseLevel v)) ∧
      (setPkg acc k (parseLevel v)).lookup k = some (parseLevel v) := by
  simp [parsePairs, hv, setPkg, List.lookup]

/-! ### Wake-up handshake -/

/-- No lost wake-up: whenever the writer sleeps in its first select while lines are buffered, a wake-up
    is in flight — the token is in `logsWaiting`, or a producer is about to set the flag or to send it. -/
theorem no_lost_wakeup {s : St} (h : Reachable s) (hw : s.w.pc = .waitLogs) (hb : s.buf ≠ []) :
    s.token = true ∨ ∃ p, s.prods p = .sent ∨ s.prods p = .won := by
  have hi := inv_reachable h
  rcases hi.nl (Or.inl hw) hb with hf | ⟨p, hp⟩
  · rcases hi.f5 hf with ht | hg | ⟨p, hp⟩
    · exact Or.inl ht
    · rw [hw] at hg; cases hg
    · exact Or.inr ⟨p, Or.inr hp⟩
  · exact Or.inr ⟨p, Or.inl hp⟩

/-- The `default:` branch of the wake-up select in `log()` (token dropped because `logsWaiting` is full)
    is never taken, and the blocking send in `Submit()` never blocks. -/
theorem token_never_dropped {s : St} (h : Reachable s) (p : Nat) : step s (.p p .tokFull) = none := by
  have hi := inv_reachable h
  simp only [step]
  split
  · rename_i hw
    by_cases ht : s.token = true
    · exact absurd hw ((hi.f2 ht).2 p)
    · simp [ht]
  · rfl

/-- The flag is set exactly while one wake-up is in flight. -/
theorem flag_iff_wakeup_in_flight {s : St} (h : Reachable s) :
    s.flag = true ↔ (s.token = true ∨ s.w.pc = .gotToken ∨ ∃ p, s.prods p = .won) := by
  have hi := inv_reachable h
  constructor
  · exact hi.f5
  · intro hx
    cases hf : s.flag with
    | true => rfl
    | false =>
      obtain ⟨a, b, c⟩ := hi.f1 hf
      rcases hx with ht | hg | ⟨p, hp⟩
      · rw [a] at ht; cases ht
      · exact absurd hg b
      · exact absurd hp (c p)

/-! ### Shutdown -/

/-- `Shutdown` returns (the writer is done) only after everything enqueued before the shutdown request
    has been handed to the adapter: those lines are a prefix of the expanded output. -/
theorem shutdown_drains {s : St} (h : Reachable s) (hd : s.w.pc = .done) :
    s.shut = true ∧ ∃ rest, expand s.out = (s.enq.take s.enqAtShut).map (·.2) ++ rest := by
  have hi := inv_reachable h
  refine ⟨hi.sh (Or.inr hd), ?_⟩
  have hc : s.w.cur = none := hi.wc (by rw [hd]; simp)
  have h2 := hi.d2
  simp [Writer.pending, hc] at h2
  have hle := hi.sd hd
  refine ⟨(s.deq.drop s.enqAtShut).map (·.2), ?_⟩
  rw [h2, ← hi.d1, List.take_append_of_le_length hle, ← List.map_append, List.take_append_drop]

/-- The shutdown request records how much had been enqueued at that moment. -/
theorem shutdown_request_marks_enqueued {s s' : St} (hs : step s .shutdown = some s') (hn : s.shut = false) :
    s'.shut = true ∧ s'.enqAtShut = s.enq.length := by
  simp [step, hn] at hs
  subst hs
  simp

/-! ### Delivery does not depend on Shutdown -/

/-- In every reachable state of a free-running logger in which no goroutine is inside a log call and the
    writer has not exited, the writer's own steps (no help from producers, no Shutdown) lead to a state in
    which the buffer is empty and everything ever enqueued has been handed to the adapter, in order. -/
theorem delivery_without_shutdown {s : St} (h : Reachable s) (hp : s.paced = false)
    (hq : ∀ p, s.prods p = .idle) (hd : s.w.pc ≠ .done) :
    ∃ as s', (∀ a ∈ as, ∃ e, a = Act.w e) ∧ run s as = some s' ∧ s'.buf = [] ∧
      expand s'.out = s.enq.map (·.2) := by
  obtain ⟨as, s', hw, hr, hb, hc, he⟩ := canDrain_of_reachable h hp hq hd
  refine ⟨as, s', hw, hr, hb, ?_⟩
  have := output_is_enqueued_prefix (reachable_run h hr)
  simp [hb, Writer.pending, hc] at this
  rw [this, he]

/-! ### The automata the trace acceptor replays are the local moves of the global step -/

/-- Every producer move of the interleaving semantics is a move of the per-goroutine automaton `pstep`
    through which the driver replays the recorded path of every log call. -/
theorem step_p_pstep {s s' : St} {pid : Nat} {e : PEv} (hs : step s (.p pid e) = some s') :
    pstep (s.prods pid) e = some (s'.prods pid) := by
  cases e <;> simp only [step, St.accept, St.push] at hs <;> (repeat' split at hs) <;>
    (try cases hs) <;> simp_all [pstep, upd]

/-- Every writer move is a move of the writer automaton `wstep` through which the driver replays the
    recorded writer trace, and the adapter output grows by exactly the writes `wstep` prescribes. -/
theorem step_w_wstep {s s' : St} {e : WEv} (hs : step s (.w e) = some s') :
    ∃ o, wstep s.w e = some (s'.w, o) ∧ s'.out = s.out ++ o := by
  cases e <;> simp only [step] at hs <;> (repeat' split at hs) <;>
    (try cases hs) <;> simp_all [wstep]

/-- The forced-emptying rendezvous moves both automata. -/
theorem step_wforce_local {s s' : St} {pid : Nat} (hs : step s (.wforce pid) = some s') :
    wstep s.w .force = some (s'.w, []) ∧ s'.out = s.out ∧
      pstep (s.prods pid) .forced = some (s'.prods pid) := by
  simp only [step] at hs; (repeat' split at hs) <;> (try cases hs) <;> simp_all [wstep, pstep]

/-! ### The run checker decides its specification -/

/-- If `checkRun` passes, every adapter line belongs to a known goroutine and every goroutine's part of the
    expanded output conforms to its items: in program order, every must-line present, no line more often
    than logged, nothing that was disabled, tracer lines with exactly their entries and never merged; and
    the tracer submissions that had to arrive are, one by one and in order, among the tracer lines received. -/
theorem checkRun_sound (np : Nat) (exps : Nat → List Item) (outs : List OutW)
    (h : checkRun np exps outs = .pass) :
    (∀ o ∈ outs, o.gid < np) ∧ (∀ o ∈ outs, o.entries.isSome → o.dups = 0) ∧
      (∀ g, g < np → (tracerMust (exps g)).Sublist (tracerGot g outs)) ∧
      ∀ g, g < np → Conforms (exps g) (expandOut g outs) :=
  PB.Log.checkRun_sound np exps outs h

/-- Conversely the per-goroutine check accepts every conforming output — whatever the items are (the same
    line may be logged again after other lines, optional and disabled items may stand in between): the
    checker never demands more than its specification. -/
theorem checkProd_complete (gid : Nat) {es : List Item} {got : List Got} (h : Conforms es got) :
    checkProd gid es got = .pass :=
  PB.Log.checkProd_complete gid h

/-- The line-by-line reading of "messages below the level in force are never emitted" that `checkRun` applies
    first (it names the offending line instead of the place where the walk along the items gets stuck) rejects
    nothing the specification allows. -/
theorem filtered_precheck_complete {es : List Item} {got : List Got} (h : Conforms es got) :
    ∀ g ∈ got, neverAllowed es g = false := conforms_line_allowed h

/-- The exact decision procedure behind it. -/
theorem conformsB_iff (es : List Item) (got : List Got) : conformsB es got = true ↔ Conforms es got :=
  PB.Log.conformsB_iff es got

/-- The subsequence test for the required tracer submissions is exact. -/
theorem firstMissing_iff (must got : List Got) : firstMissing must got = none ↔ must.Sublist got :=
  ⟨firstMissing_sound must got, firstMissing_complete must got⟩

/-! ### Context tracers -/

/-- A submission carries all collected entries, in order; the last one is the main line. -/
theorem submit_carries_all (logs : List Entry) (l : Line) (h : submitLine logs = some l) :
    l.entries = logs ∧ l.trace.isSome := by
  unfold submitLine at h
  cases hg : logs.getLast? with
  | none => simp [hg] at h
  | some m =>
    simp [hg] at h
    subst h
    obtain ⟨ys, rfl⟩ := List.getLast?_eq_some_iff.mp hg
    simp [Line.entries]

/-- Only an empty tracer submits nothing. -/
theorem submit_none_iff (logs : List Entry) : submitLine logs = none ↔ logs = [] := by
  unfold submitLine
  cases hg : logs.getLast? with
  | none => simp [List.getLast?_eq_none_iff.mp hg]
  | some m =>
    simp
    intro h; subst h; simp at hg

/-- `AddTracer` at trace level, `SetLogLevel(error)`, then a Debug line through the tracer, `Submit`. -/
def demoRaise : List Act :=
  [.addTracer 0 (some 0) true, .setLevel 5, .collect 0 ⟨7, 2, 1, 30⟩ (some 0), .p 0 (.submit ⟨7, 2, 1, 30, some []⟩)]

/-- Package 0 has level trace, package 1 no entry (global level info): package 0 creates the tracer, package 1
    logs a Debug line through it. -/
def demoOther : List Act :=
  [.addTracer 0 (some 0) true, .collect 0 ⟨7, 2, 1, 30⟩ (some 1), .p 0 (.submit ⟨7, 2, 1, 30, some []⟩)]

/-! ### The level decisions taken outside `log()`: `fastcheck`, which severity a function asks about, `AddTracer`

A live context tracer collects every call unconditionally (`tracer.log`) and `Submit` enqueues the collection
without a level check: for lines that go through a tracer the ONLY level decision is the one `AddTracer` takes.
`PB.Gen.Log.fastcheck`, `PB.Gen.Log.addTracer` and `PB.Gen.Log.levelCalls` are regenerated from log/input.go and
log/trace.go on every run; the theorems below say what they must be. -/

/-- `fastcheck` lets a call through iff package levels are active (then `log()` decides) or the severity is at
    or above the global level. -/
theorem fastcheck_decision (c : Levels) (lvl : Nat) :
    fastcheck c lvl = true ↔ (c.active = true ∨ c.glob ≤ lvl) := fastcheck_iff c lvl

/-- Every exported logging function (`Trace` … `Criticalf`) and every logging method of `*ContextTracer` asks
    `fastcheck` about ITS OWN severity — the one it is named after —, passes that severity to `log()` and, on a
    live tracer, collects at that severity; and that severity is one of the `Severity` constants. (A function
    that pre-checks another severity than it logs at drops enabled lines or lets `log()` do all the filtering.) -/
theorem every_function_asks_about_its_own_severity :
    ∀ r ∈ PB.Gen.Log.levelCalls,
      r.2.2.1 = ownSeverity r.2.1 ∧ r.2.2.2.1 = ownSeverity r.2.1 ∧
      ((r.1 = "" ∧ r.2.2.2.2 = "") ∨ (r.1 = "ContextTracer" ∧ r.2.2.2.2 = ownSeverity r.2.1)) ∧
      ownSeverity r.2.1 ∈ PB.Gen.Log.severities.map (·.1) := by decide

/-- The table is complete: for every severity there are the plain and the formatting function, as package
    functions and as tracer methods (and nothing else takes such a decision: the extractor refuses any other
    function of input.go / trace.go that calls `fastcheck`, `log` or `tracer.log`). -/
theorem every_severity_has_its_functions :
    ∀ c ∈ PB.Gen.Log.severities, ∀ recv ∈ ["", "ContextTracer"],
      ((PB.Gen.Log.levelCalls.filter (fun r => r.1 == recv && r.2.2.1 == c.1)).map (·.2.1)).length = 2 ∧
      PB.Gen.Log.levelCalls.length = 4 * PB.Gen.Log.severities.length := by decide

/-- The lowest severity is Trace: whatever a tracer collects is at or above it. -/
theorem trace_is_lowest_severity (lvl : Nat) (h : isSeverity lvl = true) : PB.Gen.Log.traceLevel ≤ lvl :=
  isSeverity_ge h

/-- `AddTracer` (non-nil context without a tracer, caller known) hands out a live tracer iff Trace is enabled
    for the caller's origin under the levels in force — by exactly the filter `log()` applies to a Trace line. -/
theorem tracer_iff_trace_enabled (c : Levels) (pkg : Option Nat) :
    addTracer c false true pkg false = true ↔ enabled c pkg PB.Gen.Log.traceLevel = true :=
  addTracer_iff c pkg

/-- The same with the level in force stated declaratively: a tracer is handed out iff the level in force for
    the caller's origin (its package level if package levels are active and it has one, the global level
    otherwise) is at or below Trace. -/
theorem tracer_iff_trace_in_force (c : Levels) (p : Nat) :
    addTracer c false true (some p) false = true ↔ threshold c p ≤ PB.Gen.Log.traceLevel := by
  rw [addTracer_iff, enabled_iff_threshold]

/-- Case by case — the three states of the package levels: inactive → the global level decides; active and the
    caller's package listed → its own level decides, whatever the global level is; active and the caller's
    package NOT listed → the global level decides again (`fastcheck` has not looked at it: it returns true as
    soon as package levels are active). -/
theorem tracer_decision_by_package_state (c : Levels) (p : Nat) :
    (c.active = false → (addTracer c false true (some p) false = true ↔ c.glob ≤ PB.Gen.Log.traceLevel)) ∧
    (∀ v, c.active = true → lookupPkg c.pkgs p = some v →
      (addTracer c false true (some p) false = true ↔ v ≤ PB.Gen.Log.traceLevel)) ∧
    (c.active = true → lookupPkg c.pkgs p = none →
      (addTracer c false true (some p) false = true ↔ c.glob ≤ PB.Gen.Log.traceLevel)) := by
  refine ⟨?_, ?_, ?_⟩
  · intro h; rw [tracer_iff_trace_in_force]; simp [threshold, h]
  · intro v h hl; rw [tracer_iff_trace_in_force]; simp [threshold, h, hl]
  · intro h hl; rw [tracer_iff_trace_in_force]; simp [threshold, h, hl]

/-- No tracer for a nil context, for a context that already carries one, and — package levels active — when
    the caller cannot be determined (`runtime.Caller` fails, file path without a directory). -/
theorem tracer_refused (c : Levels) (ok : Bool) (pkg : Option Nat) (ex : Bool) :
    addTracer c true ok pkg ex = false ∧ addTracer c false ok pkg true = false ∧
      (c.active = true → addTracer c false false pkg ex = false) ∧
      (c.active = true → addTracer c false ok none ex = false) :=
  addTracer_refuses c ok pkg ex

/-- In every reachable state a live tracer was created while Trace was enabled for the origin that called
    `AddTracer`, under the levels in force at that moment. -/
theorem live_tracer_was_created_at_trace_level {s : St} (h : Reachable s) (p : Nat) (t : Tracer)
    (ht : s.tr p = some t) : enabled t.lv t.pkg PB.Gen.Log.traceLevel = true :=
  ((tcinv_reachable h).c1 p t ht).1

/-- Hence a submission never carries a line below the level that was in force, for the origin of its
    `AddTracer` call, WHEN THE TRACER WAS CREATED: every line it carries (collected entries and main line)
    passes the filter of `log()` under those levels. -/
theorem submission_lines_at_or_above_creation_level {s : St} (h : Reachable s) (p : Nat) (sb : Sub)
    (hsb : sb ∈ s.subs p) : ∀ e ∈ sb.line.entries, enabled sb.tr.lv sb.tr.pkg e.lvl = true := by
  obtain ⟨⟨hen, hsev⟩, hsub⟩ := (tcinv_reachable h).c2 p sb hsb
  intro e he
  rw [(submit_carries_all _ _ hsub).1] at he
  obtain ⟨x, hx, rfl⟩ := List.mem_map.mp he
  exact enabled_mono hen (isSeverity_ge (hsev x hx))

/-- The tracer lines a goroutine got accepted are exactly its submissions, in order (plain calls never carry
    a tracer: every logging function passes `nil` to `log()`). -/
theorem tracer_lines_are_submissions {s : St} (h : Reachable s) (p : Nat) :
    (s.logged p).filter (·.trace.isSome) = (s.subs p).map (·.line) := (tcinv_reachable h).c3 p

/-- Whatever tracer line reaches the adapter is such a submission: all the lines it carries were at or above
    the level in force at the creation of its tracer. -/
theorem written_tracer_lines_respect_creation_level {s : St} (h : Reachable s) (l : Line)
    (hl : l ∈ expand s.out) (ht : l.trace.isSome = true) :
    ∃ p sb, sb ∈ s.subs p ∧ sb.line = l ∧ ∀ e ∈ l.entries, enabled sb.tr.lv sb.tr.pkg e.lvl = true := by
  obtain ⟨p, hp⟩ := written_lines_were_accepted h l hl
  have hm : l ∈ (s.subs p).map (·.line) := by
    rw [← tracer_lines_are_submissions h p]; exact List.mem_filter.mpr ⟨hp, ht⟩
  obtain ⟨sb, hsb, rfl⟩ := List.mem_map.mp hm
  exact ⟨p, sb, hsb, rfl, submission_lines_at_or_above_creation_level h p sb hsb⟩

/-- What this means for each collected line AT ITS OWN CALL (the property's reading: "below the level in force
    … never emitted"): if the line was collected from the origin that created the tracer while the levels were
    still those of the creation, it was at or above the level in force for its origin when it was logged. -/
theorem collected_line_enabled_at_its_call_partial {s : St} (h : Reachable s) (p : Nat) (sb : Sub)
    (hsb : sb ∈ s.subs p) (x : Collected) (hx : x ∈ sb.tr.logs)
    (horg : x.pkg = sb.tr.pkg) (hlv : x.lv = sb.tr.lv) : enabled x.lv x.pkg x.e.lvl = true := by
  obtain ⟨⟨hen, hsev⟩, _⟩ := (tcinv_reachable h).c2 p sb hsb
  rw [horg, hlv]
  exact enabled_mono hen (isSeverity_ge (hsev x hx))

/-- Without the second hypothesis the statement is FALSE on the code: `SetLogLevel(error)` between `AddTracer`
    and a `tracer.Debug(…)` — the Debug line is collected and submitted (the decision was taken once, at
    `AddTracer`) although error was in force for its origin when it was logged. -/
theorem not_collected_line_enabled_after_level_change :
    ¬ ∀ s, Reachable s → ∀ p sb, sb ∈ s.subs p → ∀ x ∈ sb.tr.logs, x.pkg = sb.tr.pkg →
        enabled x.lv x.pkg x.e.lvl = true := by
  intro hall
  have := hall ((run (St.init 4 false ⟨1, false, []⟩) demoRaise).get (by decide))
    (reachable_run (Reachable.init _ _ _) (Option.some_get _).symm) 0
    ⟨⟨7, 2, 1, 30, some []⟩, ⟨[⟨⟨7, 2, 1, 30⟩, some 0, ⟨5, false, []⟩⟩], ⟨1, false, []⟩, some 0⟩⟩ (by decide)
    ⟨⟨7, 2, 1, 30⟩, some 0, ⟨5, false, []⟩⟩ (by decide) rfl
  revert this; decide

/-- Without the first hypothesis it is false as well: a tracer created by a package whose level is trace and
    used from a package that has no entry (global level info) carries that package's Debug line. -/
theorem not_collected_line_enabled_from_other_origin :
    ¬ ∀ s, Reachable s → ∀ p sb, sb ∈ s.subs p → ∀ x ∈ sb.tr.logs, x.lv = sb.tr.lv →
        enabled x.lv x.pkg x.e.lvl = true := by
  intro hall
  have := hall ((run (St.init 4 false ⟨3, true, [(0, 1)]⟩) demoOther).get (by decide))
    (reachable_run (Reachable.init _ _ _) (Option.some_get _).symm) 0
    ⟨⟨7, 2, 1, 30, some []⟩, ⟨[⟨⟨7, 2, 1, 30⟩, some 1, ⟨3, true, [(0, 1)]⟩⟩], ⟨3, true, [(0, 1)]⟩, some 0⟩⟩ (by decide)
    ⟨⟨7, 2, 1, 30⟩, some 1, ⟨3, true, [(0, 1)]⟩⟩ (by decide) rfl
  revert this; decide

/-! ### Constants regenerated from the source -/

/-- The severities are ordered as the property reads them ("at or above"). -/
theorem severities_ascending :
    PB.Gen.Log.severities.map (·.1) =
      ["TraceLevel", "DebugLevel", "InfoLevel", "WarningLevel", "ErrorLevel", "CriticalLevel"] ∧
    (PB.Gen.Log.severities.map (·.2)).Pairwise (· < ·) := by decide

/-- The channel shapes the model assumes: a buffered `logBuffer`, a one-token `logsWaiting`, a rendezvous
    `forceEmptyingOfBuffer`. -/
theorem channel_shapes :
    1 ≤ PB.Gen.Log.bufferCap ∧ PB.Gen.Log.logsWaitingCap = 1 ∧ PB.Gen.Log.forceEmptyingCap = 0 := by decide

/-- The theorems above hold in particular for the logger as configured in the source. -/
theorem reachable_from_source_config (paced : Bool) (lv : Levels) :
    Reachable (St.init PB.Gen.Log.bufferCap paced lv) := Reachable.init _ _ _

/-! ### Non-vacuity: concrete runs of the model that meet the hypotheses above -/

def l1 : Line := ⟨1, 3, 1, 10, none⟩
def l2 : Line := ⟨2, 5, 1, 20, none⟩
def lt : Line := ⟨9, 4, 1, 30, some [⟨7, 1, 1, 30⟩, ⟨8, 2, 1, 30⟩]⟩

/-- Two identical lines from one goroutine, merged into one write with one repetition; second call finds
    the flag already set; a second goroutine, from a package whose own level is trace (the global level is
    info), gets a tracer, collects three lines and submits them; then Shutdown drains and the writer exits. -/
def demoMerge : List Act :=
  [.setPkgs [(5, 1)],
   .p 0 (.call l1 (some 0) true), .p 0 (.filter true), .p 0 .enq, .p 0 (.flag true), .p 0 .tok,
   .p 0 (.call l1 (some 0) true), .p 0 (.filter true), .p 0 .enq, .p 0 (.flag false),
   .w .token, .w .unset, .w .slot, .w (.deq l1), .w (.deq l1), .w .empty, .w .timer,
   .addTracer 1 (some 5) true, .collect 1 ⟨7, 1, 1, 30⟩ (some 5), .collect 1 ⟨8, 2, 1, 30⟩ (some 5),
   .collect 1 ⟨9, 4, 1, 30⟩ (some 5),
   .p 1 (.submit lt), .p 1 .enq, .p 1 (.flag true), .p 1 .tok,
   .shutdown, .w .shut, .w (.fdeq lt), .w .ftimeout]

example : (run (St.init 2 false ⟨3, false, []⟩) demoMerge).map (fun s => (s.out, s.w.pc)) =
    some ([(l1, 1), (lt, 0)], .done) := by decide
example : (run (St.init 2 false ⟨3, false, []⟩) demoMerge).map (fun s => (s.buf.length, s.enqAtShut)) =
    some (0, 3) := by decide
example : (run (St.init 2 false ⟨3, false, []⟩) demoMerge).map (fun s => (s.logged 0, s.logged 1)) =
    some ([l1, l1], [lt]) := by decide

/-- The hypotheses of `shutdown_drains`, `exactly_once_when_drained` are met by a reachable state with
    non-empty output. -/
example : ∃ s, Reachable s ∧ s.w.pc = .done ∧ s.buf = [] ∧ expand s.out = [l1, l1, lt] := by
  refine ⟨(run (St.init 2 false ⟨3, false, []⟩) demoMerge).get (by decide),
    reachable_run (Reachable.init _ _ _) (Option.some_get _).symm, ?_, ?_, ?_⟩ <;> decide

/-- Capacity 1, paced writer: the second goroutine finds the buffer full, forces the writer through both
    selects, enqueues afterwards; per-goroutine order and exactly-once hold. -/
def demoFull : List Act :=
  [.p 0 (.call l1 none true), .p 0 (.filter true), .p 0 .enq, .p 0 (.flag true), .p 0 .tok,
   .p 1 (.call l2 none true), .p 1 (.filter true), .p 1 .full,
   .wforce 1, .wforce 1, .w (.deq l1), .w .empty,
   .p 1 .enqB, .p 1 (.flag false),
   .w .timer, .w .token, .w .unset, .trigger, .w (.deq l2), .w .empty]

example : (run (St.init 1 true ⟨1, false, []⟩) demoFull).map (fun s => (s.out, s.w.pc)) =
    some ([(l1, 0), (l2, 0)], .backoff) := by decide
example : (run (St.init 1 true ⟨1, false, []⟩) demoFull).map (fun s => (s.buf.length, s.flag, s.token)) =
    some (0, false, false) := by decide

/-- The filter: below the global level nothing passes `fastcheck`; with package levels the package's own
    level decides, other packages fall back to the global level. -/
example : (step (St.init 4 false ⟨4, false, []⟩) (.p 0 (.call l1 (some 0) true))).isNone = true := by decide
example : (run (St.init 4 false ⟨4, false, []⟩)
    [.setPkgs [(7, 2)], .p 0 (.call l1 (some 7) true), .p 0 (.filter true),
     .p 1 (.call l1 (some 8) true), .p 1 (.filter false)]).map (fun s => (s.logged 0, s.logged 1)) =
    some ([l1], []) := by decide
example : enabled ⟨4, true, [(7, 2)]⟩ (some 7) 3 = true ∧ enabled ⟨4, true, [(7, 2)]⟩ (some 8) 3 = false ∧
    threshold ⟨4, true, [(7, 2)]⟩ 7 = 2 ∧ threshold ⟨4, true, [(7, 2)]⟩ 8 = 4 := by decide

/-- Merging and expansion on a batch with runs, a tracer line (never merged) and a twin at another site. -/
example : mergeRuns [l1, l1, l1, l2, lt, lt, ⟨1, 3, 1, 11, none⟩] =
    [(l1, 2), (l2, 0), (lt, 0), (lt, 0), (⟨1, 3, 1, 11, none⟩, 0)] := by decide
example : submitLine [⟨7, 1, 1, 30⟩, ⟨8, 2, 1, 30⟩, ⟨9, 4, 1, 30⟩] = some lt := by decide

/-- The same text, file, line and level once as a plain line and once as the main line of a submission
    (one call site reached through a possibly-nil tracer): never merged, in either order, nor between two
    plain lines; two submissions are never merged either, whether they collected the same lines or not. -/
def l1t : Line := { l1 with trace := some [] }
def l1u : Line := { l1 with trace := some [⟨7, 1, 1, 30⟩] }
example : mergeRuns [l1, l1t] = [(l1, 0), (l1t, 0)] := by decide
example : mergeRuns [l1t, l1] = [(l1t, 0), (l1, 0)] := by decide
example : mergeRuns [l1, l1, l1t, l1, l1] = [(l1, 1), (l1t, 0), (l1, 1)] := by decide
example : mergeRuns [l1t, l1t, l1u, l1u] = [(l1t, 0), (l1t, 0), (l1u, 0), (l1u, 0)] := by decide
/-- Identical text from another file, another line, at another level: not merged. -/
example : mergeRuns [l1, { l1 with file := 2 }, { l1 with line := 11 }, { l1 with lvl := 4 }, l1] =
    [(l1, 0), ({ l1 with file := 2 }, 0), ({ l1 with line := 11 }, 0), ({ l1 with lvl := 4 }, 0), (l1, 0)] := by
  decide
/-- The hypotheses of `writer_counts_only_plain_lines` / `tracer_submissions_exactly_once` are met with a
    submission directly behind an identical plain line in one batch. -/
def demoMixed : List Act :=
  [.setPkgs [(5, 1)],
   .p 0 (.call l1 (some 0) true), .p 0 (.filter true), .p 0 .enq, .p 0 (.flag true), .p 0 .tok,
   .p 0 (.call l1 (some 0) true), .p 0 (.filter true), .p 0 .enq, .p 0 (.flag false),
   .addTracer 0 (some 5) true, .collect 0 ⟨1, 3, 1, 10⟩ (some 5),
   .p 0 (.submit l1t), .p 0 .enq, .p 0 (.flag false),
   .w .token, .w .unset, .trigger, .w (.deq l1), .w (.deq l1), .w (.deq l1t), .w .empty]
example : (run (St.init 8 true ⟨3, false, []⟩) (demoMixed.take 20)).map (fun s => (s.w.cur, s.w.dups)) =
    some (some l1, 1) := by decide
example : (run (St.init 8 true ⟨3, false, []⟩) demoMixed).map (fun s => s.out) =
    some [(l1, 1), (l1t, 0)] := by decide

/-- The level decision of `AddTracer` in the three states of the package levels, at several global levels:
    inactive (global level decides); active with the caller listed (its own level decides, whatever the global
    level is); active with the caller NOT listed (the global level decides — `fastcheck` has let everything
    through). -/
example :
    addTracer ⟨3, false, []⟩ false true (some 8) false = false ∧ addTracer ⟨1, false, []⟩ false true (some 8) false = true ∧
    addTracer ⟨0, false, [(8, 6)]⟩ false true (some 8) false = true ∧
    addTracer ⟨3, true, [(7, 1)]⟩ false true (some 7) false = true ∧ addTracer ⟨6, true, [(7, 0)]⟩ false true (some 7) false = true ∧
    addTracer ⟨1, true, [(7, 2)]⟩ false true (some 7) false = false ∧ addTracer ⟨0, true, [(7, 7)]⟩ false true (some 7) false = false ∧
    addTracer ⟨3, true, [(7, 1)]⟩ false true (some 8) false = false ∧ addTracer ⟨2, true, []⟩ false true (some 8) false = false ∧
    addTracer ⟨6, true, [(7, 1), (9, 1)]⟩ false true (some 8) false = false ∧
    addTracer ⟨1, true, [(7, 5)]⟩ false true (some 8) false = true ∧ addTracer ⟨0, true, [(7, 5)]⟩ false true (some 8) false = true := by
  decide
/-- In the interleaving model: package levels active, caller not listed, global level info — no tracer can be
    handed out (the step is not enabled), the call returns nil; the listed package gets one. -/
example : (step (St.init 4 false ⟨3, true, [(7, 1)]⟩) (.addTracer 0 (some 8) true)).isNone = true ∧
    (step (St.init 4 false ⟨3, true, [(7, 1)]⟩) (.addTracer 0 (some 8) false)).isSome = true ∧
    (step (St.init 4 false ⟨3, true, [(7, 1)]⟩) (.addTracer 0 (some 7) true)).isSome = true := by decide
/-- The hypotheses of `live_tracer_was_created_at_trace_level` / `submission_lines_at_or_above_creation_level`
    are met: in `demoMerge` goroutine 1 holds a live tracer with two collected lines (step 20), and its
    submission is recorded with the levels of the creation. -/
example : ((run (St.init 2 false ⟨3, false, []⟩) (demoMerge.take 20)).bind (·.tr 1)).map (fun t => (t.logs.map (·.e.lvl), t.lv, t.pkg)) =
    some ([1, 2], ⟨3, true, [(5, 1)]⟩, some 5) := by decide
example : (run (St.init 2 false ⟨3, false, []⟩) demoMerge).map (fun s => (s.subs 1).map (fun sb => (sb.line, sb.tr.lv, sb.tr.pkg))) =
    some [(lt, ⟨3, true, [(5, 1)]⟩, some 5)] := by decide
/-- A second `AddTracer` on a context that carries a tracer returns nil; Submit needs a live tracer. -/
example : (run (St.init 2 false ⟨1, false, []⟩) [.addTracer 0 (some 0) true, .addTracer 0 (some 0) true]).isNone = true ∧
    (run (St.init 2 false ⟨1, false, []⟩) [.addTracer 0 (some 0) true, .addTracer 0 (some 0) false]).isSome = true ∧
    (run (St.init 2 false ⟨1, false, []⟩) [.p 0 (.submit lt)]).isNone = true := by decide
example : ownSeverity "Criticalf" = "CriticalLevel" ∧ ownSeverity "Info" = "InfoLevel" ∧ ownSeverity "Infof" = "InfoLevel" := by
  decide
example : fastcheck ⟨4, false, []⟩ 3 = false ∧ fastcheck ⟨4, false, []⟩ 4 = true ∧ fastcheck ⟨4, true, []⟩ 1 = true := by decide

/-- Start with flags: the pairs of `-plog orga=debug,zz=trace,orga=ERROR,bad,orgb=info`: orga error (the later
    entry wins), zz trace, the malformed pair ends the reading (orgb is not read). An unknown `-log` name
    falls back to info and leaves the package levels set before Start alone. -/
example : parsePairs [["orga", "debug"], ["zz", "trace"], ["orga", "ERROR"], ["bad"], ["orgb", "info"]] [] =
    [("orga", 5), ("zz", 1)] := by
  with_unfolding_all decide
example : startLevels (fun _ => 9) ⟨2, true, [(1, 6)]⟩ "verbose" "" = ⟨3, true, [(1, 6)]⟩ := by
  with_unfolding_all decide
example : parseLevel "WARNing" = 4 ∧ parseLevel "Trace" = 1 ∧ parseLevel " info" = 0 := by
  with_unfolding_all decide
example : lookupLevel "warning" = 4 ∧ lookupLevel "warn" = 0 ∧ lookupLevel "" = 0 ∧ severityName 5 = "error" ∧
    severityName 0 = "none" ∧ severityName 7 = "none" := by decide

/-- The run checker: a conforming output passes, a lost / duplicated / filtered / reordered one fails. -/
def exps0 : Nat → List Item := fun g =>
  if g = 0 then [⟨1, 3, 0, .plain, [⟨some ⟨3, false, []⟩, true, 2⟩], [], 3⟩,
                 ⟨2, 2, 0, .plain, [⟨some ⟨3, false, []⟩, true, 1⟩], [], 2⟩,
                 ⟨3, 4, 0, .tracer, [⟨some ⟨3, false, []⟩, true, 1⟩], [7, 8], 4⟩] else []
example : checkRun 1 exps0 [⟨0, 1, 1, none⟩, ⟨0, 3, 0, some [7, 8]⟩] = .pass := by decide
example : checkRun 1 exps0 [⟨0, 1, 0, none⟩, ⟨0, 3, 0, some [7, 8]⟩] = .fail "lost" 0 1 := by decide
example : checkRun 1 exps0 [⟨0, 1, 2, none⟩, ⟨0, 3, 0, some [7, 8]⟩] = .fail "duplicated" 0 1 := by decide
example : checkRun 1 exps0 [⟨0, 1, 1, none⟩, ⟨0, 2, 0, none⟩, ⟨0, 3, 0, some [7, 8]⟩] = .fail "filtered" 0 2 := by decide
example : checkRun 1 exps0 [⟨0, 3, 0, some [7, 8]⟩, ⟨0, 1, 1, none⟩] = .fail "lost" 0 1 := by decide
example : checkRun 1 exps0 [⟨0, 1, 1, none⟩, ⟨0, 3, 0, some [7]⟩] = .fail "tracer-lost" 0 3 := by decide
/-- A plain line, then a submission and a second plain call of the same text (item ids 1 / 5 differ in the
    tracer bit only in the harness; here: distinct ids), submissions with different collected lines. -/
def exps1 : Nat → List Item := fun g =>
  if g = 0 then [⟨1, 3, 0, .plain, [⟨some ⟨3, false, []⟩, true, 1⟩], [], 3⟩,
                 ⟨5, 3, 0, .tracer, [⟨some ⟨3, false, []⟩, true, 1⟩], [], 3⟩,
                 ⟨5, 3, 0, .tracer, [⟨some ⟨3, false, []⟩, true, 2⟩], [7], 3⟩,
                 ⟨1, 3, 0, .plain, [⟨some ⟨3, false, []⟩, true, 1⟩], [], 3⟩] else []
example : checkRun 1 exps1 [⟨0, 1, 0, none⟩, ⟨0, 5, 0, some []⟩, ⟨0, 5, 0, some [7]⟩, ⟨0, 5, 0, some [7]⟩, ⟨0, 1, 0, none⟩] = .pass := by decide
/-- the submission swallowed by the preceding plain line (`duplicates = 1`) -/
example : checkRun 1 exps1 [⟨0, 1, 1, none⟩, ⟨0, 5, 0, some [7]⟩, ⟨0, 5, 0, some [7]⟩, ⟨0, 1, 0, none⟩] = .fail "tracer-lost" 0 5 := by decide
/-- a submission counted as a repetition of another one -/
example : checkRun 1 exps1 [⟨0, 1, 0, none⟩, ⟨0, 5, 0, some []⟩, ⟨0, 5, 1, some [7]⟩, ⟨0, 1, 0, none⟩] = .fail "trace" 0 5 := by decide
/-- a submission that arrives with other entries than it collected, while nothing has to arrive (Shutdown
    requested during the call): still not accepted -/
example : checkRun 1 (fun _ => [⟨5, 3, 0, .tracer, [⟨some ⟨3, false, []⟩, false, 1⟩], [7], 3⟩]) [⟨0, 5, 0, some [8]⟩] =
    .fail "unexpected" 0 5 := by decide
example : checkRun 1 (fun _ => [⟨5, 3, 0, .tracer, [⟨some ⟨3, false, []⟩, false, 1⟩], [7], 3⟩]) [] = .pass := by decide
/-- A submission whose tracer lived (from `AddTracer` to `Submit`) under ONE configuration in which a line it
    carries is below the level in force for its origin — package levels active, origin 0 not listed, global
    level info, a Debug line among the collected ones — must not reach the adapter; with the origin listed at
    trace it must; when the configuration changed during the tracer's life nothing is demanded either way. -/
def exps3 (c : Option Levels) : Nat → List Item := fun _ => [⟨5, 4, 0, .tracer, [⟨c, true, 1⟩], [58], 2⟩]
example : checkRun 1 (exps3 (some ⟨3, true, [(1, 1)]⟩)) [⟨0, 5, 0, some [58]⟩] = .fail "filtered" 0 5 := by decide
example : checkRun 1 (exps3 (some ⟨3, true, [(1, 1)]⟩)) [] = .pass := by decide
example : checkRun 1 (exps3 (some ⟨3, true, [(0, 1)]⟩)) [⟨0, 5, 0, some [58]⟩] = .pass := by decide
example : checkRun 1 (exps3 (some ⟨3, true, [(0, 1)]⟩)) [] = .fail "tracer-lost" 0 5 := by decide
example : checkRun 1 (exps3 (some ⟨2, true, [(1, 1)]⟩)) [⟨0, 5, 0, some [58]⟩] = .pass := by decide
example : checkRun 1 (exps3 none) [⟨0, 5, 0, some [58]⟩] = .pass ∧ checkRun 1 (exps3 none) [] = .pass := by decide
/-- `A B A` with `B` below the level in force: the two `A` lines arrive next to each other (and may have
    been merged); the greedy walk alone would call the second one a duplicate. -/
def exps2 : Nat → List Item := fun _ =>
  [⟨1, 3, 0, .plain, [⟨some ⟨3, false, []⟩, true, 1⟩], [], 3⟩, ⟨2, 2, 0, .plain, [⟨some ⟨3, false, []⟩, true, 1⟩], [], 2⟩,
   ⟨1, 3, 0, .plain, [⟨some ⟨3, false, []⟩, true, 1⟩], [], 3⟩]
example : greedyProd 0 (exps2 0) [⟨1, none⟩, ⟨1, none⟩] = .fail "duplicated" 0 1 := by decide
example : checkRun 1 exps2 [⟨0, 1, 1, none⟩] = .pass := by decide
example : checkRun 1 exps2 [⟨0, 1, 2, none⟩] = .fail "duplicated" 0 1 := by decide
example : checkRun 1 exps2 [⟨0, 1, 0, none⟩] = .fail "lost" 0 1 := by decide
/-- `A B A` with `B` LOST also arrives as `A A`: not a duplicate of `A` (it is not emitted more often than the two
    `A` items allow) — `B` is named as lost; a line that IS emitted too often stays a duplicate. -/
def exps4 : Nat → List Item := fun _ =>
  [⟨1, 3, 0, .plain, [⟨some ⟨3, false, []⟩, true, 1⟩], [], 3⟩, ⟨2, 3, 0, .plain, [⟨some ⟨3, false, []⟩, true, 1⟩], [], 3⟩,
   ⟨1, 3, 0, .plain, [⟨some ⟨3, false, []⟩, true, 1⟩], [], 3⟩]
example : greedyProd 0 (exps4 0) [⟨1, none⟩, ⟨1, none⟩] = .fail "duplicated" 0 1 := by decide
example : checkRun 1 exps4 [⟨0, 1, 1, none⟩] = .fail "lost" 0 2 := by decide
example : checkRun 1 exps4 [⟨0, 1, 0, none⟩, ⟨0, 2, 0, none⟩, ⟨0, 1, 0, none⟩] = .pass := by decide
example : checkRun 1 exps4 [⟨0, 1, 1, none⟩, ⟨0, 2, 0, none⟩, ⟨0, 1, 0, none⟩] = .fail "duplicated" 0 1 := by decide
/-- A submission that must not be emitted is named as such also when the walk along the items would get stuck earlier, at a legitimate `A A`
    (`A B A` with `B` disabled). -/
example : checkRun 1 (fun g => exps2 g ++ exps3 (some ⟨3, true, [(1, 1)]⟩) g) [⟨0, 1, 1, none⟩, ⟨0, 5, 0, some [58]⟩] =
    .fail "filtered" 0 5 := by decide

end PB.C20
