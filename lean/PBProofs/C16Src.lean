import PBProofs.C16
import PBProofs.C10Src
import PB.Gen.ContainerSrc
/-
C16, translator tie: the constructors and the loop-free methods of container.Container, translated from the
Go source on every run (`PB.Gen.ContainerSrc`, harness/cmd/extract/golean.go + goleantype.go), never panic and
compute exactly what the hand-written model `PB.Model.Container` computes. The calls to `varint.Pack64` go to
its translation (`PB.Gen.VarintSrc`), bridged by `PBProofs/C10Src.lean`.
-/
namespace PB.C16Src
open PB PB.Varint PB.Container
open PB.Gen.ContainerSrc

/-- How a model container appears at the Go level (the `err` field is never written by the translated part). -/
def rep (c : C) : Container := { compartments := c.comps, offset := (c.offset : Int), err := none }

theorem New_eq (ds : List Bytes) : New ds = .ok (rep (new ds)) := rfl

theorem NewContainer_eq (ds : List Bytes) : NewContainer ds = .ok (rep (newContainer ds)) ∧ NewContainer ds = New ds :=
  ⟨rfl, rfl⟩

theorem Append_eq (c : C) (d : Bytes) : Container_Append (rep c) d = .ok (rep (append c d)) := rfl

theorem AppendNumber_eq (c : C) (n : Nat) (h : n < 2 ^ 64) :
    Container_AppendNumber (rep c) (n : Int) = .ok (rep (appendNumber c n)) := by
  simp [Container_AppendNumber, PB.C10Src.Pack64_eq n h, rep, appendNumber, append]

/-- `AppendInt(n)`: `uint64(n)` of a Go int is the two's-complement reading the model uses. -/
theorem AppendInt_eq (c : C) (i : Int) (h : -(2 ^ 63 : Int) ≤ i ∧ i < (2 ^ 63 : Int)) :
    Container_AppendInt (rep c) i = .ok (rep (appendInt c i)) := by
  have hw : PB.Go.wrapU 64 i = ((ofInt64 i : Nat) : Int) := by
    unfold PB.Go.wrapU ofInt64
    have : 0 ≤ i % (2 : Int) ^ 64 := Int.emod_nonneg _ (by decide)
    omega
  have hlt : ofInt64 i < 2 ^ 64 := by unfold ofInt64; omega
  simp [Container_AppendInt, hw, PB.C10Src.Pack64_eq _ hlt, rep, appendInt, append]

theorem AppendAsBlock_eq (c : C) (d : Bytes) (h : d.length < 2 ^ 64) :
    Container_AppendAsBlock (rep c) d = .ok (rep (appendAsBlock c d)) := by
  have hw : PB.Go.wrapU 64 (PB.Go.len d) = ((d.length : Nat) : Int) := by
    unfold PB.Go.wrapU PB.Go.len; omega
  unfold Container_AppendAsBlock
  rw [hw, AppendNumber_eq c d.length h]
  simp only [Append_eq]
  rfl

theorem Replace_eq (c : C) (d : Bytes) : Container_Replace (rep c) d = .ok (rep (replace c d)) := rfl

theorem checkOffset_eq (c : C) (h : c.comps.length < 2 ^ 63) :
    Container_checkOffset (rep c) = .ok (rep (checkOffset c)) := by
  unfold Container_checkOffset checkOffset rep PB.Go.lenL
  by_cases hc : c.offset ≥ c.comps.length
  · have h1 : ((c.offset : Int) ≥ (c.comps.length : Int)) := by omega
    have h3 : Int.tdiv (c.comps.length : Int) 2 = ((c.comps.length / 2 : Nat) : Int) := by
      rw [Int.tdiv_eq_ediv_of_nonneg (by omega)]; omega
    have h2 : PB.Go.wrapI64 ((c.comps.length / 2 : Nat) : Int) = ((c.comps.length / 2 : Nat) : Int) :=
      PB.C10Src.wrapI64_natCast _ (by omega)
    simp only [hc, h1, decide_true, if_true, h3, h2, ge_iff_le]
  · have h1 : ¬ ((c.offset : Int) ≥ (c.comps.length : Int)) := by omega
    simp [hc, h1]

/-- None of the translated functions can panic (for containers and arguments below Go's size limits). -/
theorem translated_part_never_panics (c : C) (d : Bytes) (n : Nat) (i : Int) (ds : List Bytes)
    (hd : d.length < 2 ^ 64) (hn : n < 2 ^ 64) (hi : -(2 ^ 63 : Int) ≤ i ∧ i < (2 ^ 63 : Int)) (hc : c.comps.length < 2 ^ 63) :
    New ds ≠ .panic ∧ NewContainer ds ≠ .panic ∧ Container_Append (rep c) d ≠ .panic ∧
    Container_AppendNumber (rep c) n ≠ .panic ∧ Container_AppendInt (rep c) i ≠ .panic ∧
    Container_AppendAsBlock (rep c) d ≠ .panic ∧ Container_Replace (rep c) d ≠ .panic ∧
    Container_checkOffset (rep c) ≠ .panic := by
  rw [New_eq, (NewContainer_eq ds).1, Append_eq, AppendNumber_eq c n hn, AppendInt_eq c i hi, AppendAsBlock_eq c d hd,
    Replace_eq, checkOffset_eq c hc]
  simp

example : Container_AppendAsBlock (rep (new [[1]])) [7, 7] = .ok (rep ⟨[[1], [2], [7, 7]], 0⟩) := by
  rw [AppendAsBlock_eq _ _ (by decide)]
  simp [appendAsBlock, appendNumber, append, new, pack64, putUvarint]

end PB.C16Src
