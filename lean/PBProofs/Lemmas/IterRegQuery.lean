import PB.Model.Iter
/-
Invariant of the `Registry.Query` interleaving model (`PB.Iter.RegQuery`) when every provider goroutine decides
from a variable of its own (C03).
-/
namespace PB.Iter.RegQuery

/-- A pending decision reads the verdict of the very record it is about; everything sent passed the filter. -/
def Inv (s : St) : Prop :=
  (∀ (i : Nat) (g : G), s.gs[i]? = some g → ∀ x : Nat × Bool, g.cur = some x → g.allowed = x.2) ∧ (∀ x ∈ s.out, x.2 = true)

theorem inv_init (providers : List (List (Nat × Bool))) : Inv (init providers) := by
  refine ⟨?_, by simp [init]⟩
  intro i g hg x hx
  simp only [init, List.getElem?_map] at hg
  cases h : providers[i]? with
  | none => simp [h] at hg
  | some l => simp [h] at hg; subst hg; simp at hx

theorem inv_step (s s' : St) (a : Act) (hinv : Inv s) (hs : step false s a = some s') : Inv s' := by
  obtain ⟨h1, h2⟩ := hinv
  cases a with
  | eval i =>
    simp only [step] at hs
    cases hg : s.gs[i]? with
    | none => simp [hg] at hs
    | some g =>
      simp only [hg] at hs
      cases hc : g.cur with
      | some y => simp [hc] at hs
      | none =>
        cases ht : g.todo with
        | nil => simp [hc, ht] at hs
        | cons x rest =>
          simp only [hc, ht] at hs
          cases hs
          refine ⟨?_, h2⟩
          intro j g' hj y hy
          simp only [List.getElem?_set] at hj
          by_cases hij : i = j
          · subst hij
            have hlt : i < s.gs.length := by
              rcases Nat.lt_or_ge i s.gs.length with h | h
              · exact h
              · simp [List.getElem?_eq_none h] at hg
            simp [hlt] at hj
            subst hj
            simp at hy
            subst hy
            rfl
          · simp [hij] at hj
            exact h1 j g' hj y hy
  | decide i =>
    simp only [step] at hs
    cases hg : s.gs[i]? with
    | none => simp [hg] at hs
    | some g =>
      simp only [hg] at hs
      cases hc : g.cur with
      | none => simp [hc] at hs
      | some x =>
        simp only [hc] at hs
        cases hs
        have hax := h1 i g hg x hc
        refine ⟨?_, ?_⟩
        · intro j g' hj y hy
          simp only [List.getElem?_set] at hj
          by_cases hij : i = j
          · subst hij
            have hlt : i < s.gs.length := by
              rcases Nat.lt_or_ge i s.gs.length with h | h
              · exact h
              · simp [List.getElem?_eq_none h] at hg
            simp [hlt] at hj
            subst hj
            simp at hy
          · simp [hij] at hj
            exact h1 j g' hj y hy
        · intro y hy
          simp only [Bool.false_eq_true, if_false] at hy
          by_cases ha : g.allowed = true
          · simp [ha] at hy
            rcases hy with hy | hy
            · exact h2 y hy
            · subst hy; rw [← hax]; exact ha
          · simp [ha] at hy
            exact h2 y hy

theorem inv_exec (sched : List Act) (s s' : St) (hinv : Inv s) (h : exec false s sched = some s') : Inv s' := by
  induction sched generalizing s with
  | nil => simp [exec] at h; subst h; exact hinv
  | cons a rest ih =>
    unfold exec at h
    cases hst : step false s a with
    | none => rw [hst] at h; cases h
    | some s1 => rw [hst] at h; exact ih s1 (inv_step s s1 a hinv hst) h

end PB.Iter.RegQuery
