import PBProofs.Lemmas.Tasks
/-
Slot accounting for every execution, whoever started it: an execution started through `runWithLocking` (by the queue
handler or directly by the schedule handler) that has not returned, whose task was not cancelled and whose watcher
did not give up after the execution-wait limit still has its slot watcher, i.e. it is still counted in `queueCnt`.
-/
set_option linter.unusedSimpArgs false
set_option linter.unusedVariables false
namespace PB.Tasks
attribute [local simp] setNow setQh setSh setTask

def InvSlot (s : St) : Prop :=
  ∀ u : Nat, 0 < (s.tasks u).sp + (s.tasks u).fn → (s.tasks u).ctxDone = false → (s.tasks u).tmo = false →
    ∃ w, w ∈ s.watchers ∧ w.t = u ∧ w.gen = (s.tasks u).gen

syntax "fin_slot " ident ident : tactic
macro_rules
  | `(tactic| fin_slot $x $t) => `(tactic|
      (by_cases e : $x = $t
       · subst e; (try simp [Task.active, qhPast, preQ, preS] at *) <;> grind
       · have e' : ¬ $t = $x := fun h => e h.symm
         (try simp only [Task.active, qhPast, preQ, preS] at *)
         (try simp [e, e'])
         (try grind)))

set_option maxHeartbeats 2000000 in
theorem invSlot_stepAt {s s' : St} {a : Act} (hR : InvRun s) (hW : InvWatch s) (hi : InvSlot s) (h : stepAt s a = some s') : InvSlot s' := by
  cases a with
  | newInert t => simp only [stepAt] at h; cases h; intro x; have hx := hi x; have ht := hi t; (have hRx := hR x; have hRt := hR t; fin_slot x t)
  | queue t => simp only [stepAt] at h; cases h; intro x; have hx := hi x; have ht := hi t; simp only [doQueue]; (repeat' split) <;> (have hRx := hR x; have hRt := hR t; fin_slot x t)
  | queueP t => simp only [stepAt] at h; cases h; intro x; have hx := hi x; have ht := hi t; simp only [doQueueP]; (repeat' split) <;> (have hRx := hR x; have hRt := hR t; fin_slot x t)
  | asap t b =>
    simp only [stepAt] at h; split at h
    · cases h
    · cases h; intro x; have hx := hi x; have ht := hi t; simp only [doAsap]; (repeat' split) <;> (have hRx := hR x; have hRt := hR t; fin_slot x t)
  | maxDelay t d => simp only [stepAt] at h; cases h; intro x; have hx := hi x; have ht := hi t; (have hRx := hR x; have hRt := hR t; fin_slot x t)
  | schedule t tm => simp only [stepAt] at h; cases h; intro x; have hx := hi x; have ht := hi t; simp only [doSchedule]; (repeat' split) <;> (have hRx := hR x; have hRt := hR t; fin_slot x t)
  | cancel t => simp only [stepAt] at h; cases h; intro x; have hx := hi x; have ht := hi t; simp only [doCancel]; (have hRx := hR x; have hRt := hR t; fin_slot x t)
  | qhWait =>
    simp only [stepAt] at h; split at h
    · cases h
    · cases h; intro x; have hx := hi x; ((try simp [qhPast] at *) <;> grind)
  | qhPop =>
    simp only [stepAt] at h; (repeat' split at h) <;> cases h <;> intro x <;> have hx := hi x <;> ((try simp [qhPast] at *) <;> grind)
  | runQ =>
    simp only [stepAt] at h; split at h
    · rename_i t hq
      cases h; intro x; have hx := hi x; have ht := hi t
      simp only [runSection, runResOf]; (repeat' split) <;> (have hRx := hR x; have hRt := hR t; fin_slot x t)
    · cases h
  | runS =>
    simp only [stepAt] at h; split at h
    · rename_i t hq
      cases h; intro x; have hx := hi x; have ht := hi t
      simp only [runSection, runResOf]; (repeat' split) <;> (have hRx := hR x; have hRt := hR t; fin_slot x t)
    · cases h
  | spawnQ =>
    simp only [stepAt] at h; split at h
    · rename_i t hq
      cases h; intro x; have hx := hi x; have ht := hi t; (have hRx := hR x; have hRt := hR t; fin_slot x t)
    · cases h
  | spawnS =>
    simp only [stepAt] at h; split at h
    · rename_i t hq
      cases h; intro x; have hx := hi x; have ht := hi t; (have hRx := hR x; have hRt := hR t; fin_slot x t)
    · cases h
  | fnBegin t =>
    simp only [stepAt] at h; split at h
    · cases h
    · cases h; intro x; have hx := hi x; have ht := hi t; (have hRx := hR x; have hRt := hR t; fin_slot x t)
  | fnEnd t =>
    simp only [stepAt] at h; split at h
    · cases h
    · cases h; intro x; have hx := hi x; have ht := hi t; (have hRx := hR x; have hRt := hR t; fin_slot x t)
  | finish t =>
    simp only [stepAt] at h; split at h
    · cases h
    · cases h; intro x; have hx := hi x; have ht := hi t; (have hRx := hR x; have hRt := hR t; fin_slot x t)
  | slotFree t b =>
    simp only [stepAt] at h
    split at h
    · cases h
    · rename_i w hw
      split at h
      · cases h
      · rename_i hwg; cases h
        have hmem : w ∈ s.watchers := List.mem_of_find?_eq_some hw
        have hp := List.find?_some hw
        intro u; have hu := hi u; have hRu := hR u
        have hwt : w.t = t := by simp at hp; exact hp.1
        by_cases e : u = t
        · subst e
          simp only [setTask, if_pos]
          intro hsp hctx htmo
          by_cases hc : (b && !released s w && w.gen == (s.tasks u).gen) = true
          · simp [hc] at htmo
          · simp [hc] at hsp hctx htmo ⊢
            obtain ⟨w0, hw0, h1, h2⟩ := hu hsp hctx htmo
            refine ⟨w0, ?_, h1, h2⟩
            apply (List.mem_erase_of_ne ?_).2 hw0
            intro hww; subst hww
            simp [released, h1, h2, hctx] at hp hc
            simp [hp] at hc
        · simp only [setTask, if_neg e]
          intro hsp hctx htmo
          obtain ⟨w0, hw0, h1, h2⟩ := hu hsp hctx htmo
          refine ⟨w0, ?_, h1, h2⟩
          apply (List.mem_erase_of_ne ?_).2 hw0
          intro hww; subst hww; exact e (h1.symm.trans hwt)

  | shFetch =>
    simp only [stepAt] at h; (repeat' split at h) <;> (try cases h)
    · intro x; have hx := hi x; ((try simp [qhPast] at *) <;> grind)
    · intro x; have hx := hi x; ((try simp [qhPast] at *) <;> grind)
    · rename_i t hf; have hf2 := fetchRes_run hf; intro x; have hx := hi x; have ht := hi t; (have hRx := hR x; have hRt := hR t; fin_slot x t)
    · rename_i t hf; have hf2 := fetchRes_asap hf; intro x; have hx := hi x; have ht := hi t; (have hRx := hR x; have hRt := hR t; fin_slot x t)

theorem invSlot_setNow {s : St} {n : Nat} (hi : InvSlot s) : InvSlot (setNow s n) := by
  intro t; simpa [setNow] using hi t

theorem reachable_invSlot {s : St} (h : Reachable s) : InvSlot s := by
  induction h with
  | init => intro t; simp [init]
  | step now a hr hs ih =>
    have hI := inv_setNow (step_eq hs).1 (reachable_inv hr)
    exact invSlot_stepAt hI.run hI.watch (invSlot_setNow ih) (step_eq hs).2

/-- `s'` follows `s` by a step that ends the queue handler's wait. -/
def WaitEnd (s s' : St) : Prop := ∀ _u : Nat, s.qh = .waiting → s'.qh = .ready → s'.wg = 0

syntax "fin_wend " ident ident : tactic
macro_rules
  | `(tactic| fin_wend $x $t) => `(tactic| ((try simp at *) <;> (try grind)))

/-- The queue handler's wait ends only by a step after which the slot count is zero. -/
theorem waitEnd_stepAt {s s' : St} {a : Act} (h : stepAt s a = some s') : WaitEnd s s' := by
  cases a with
  | newInert t => simp only [stepAt] at h; cases h; intro x; fin_wend x t
  | queue t => simp only [stepAt] at h; cases h; intro x; simp only [doQueue]; (repeat' split) <;> fin_wend x t
  | queueP t => simp only [stepAt] at h; cases h; intro x; simp only [doQueueP]; (repeat' split) <;> fin_wend x t
  | asap t b =>
    simp only [stepAt] at h; split at h
    · cases h
    · cases h; intro x; simp only [doAsap]; (repeat' split) <;> fin_wend x t
  | maxDelay t d => simp only [stepAt] at h; cases h; intro x; fin_wend x t
  | schedule t tm => simp only [stepAt] at h; cases h; intro x; simp only [doSchedule]; (repeat' split) <;> fin_wend x t
  | cancel t => simp only [stepAt] at h; cases h; intro x; simp only [doCancel]; fin_wend x t
  | qhWait =>
    simp only [stepAt] at h; split at h
    · cases h
    · cases h; intro x; ((try simp at *) <;> (try grind))
  | qhPop =>
    simp only [stepAt] at h; (repeat' split at h) <;> cases h <;> intro x <;> ((try simp at *) <;> (try grind))
  | runQ =>
    simp only [stepAt] at h; split at h
    · rename_i t hq
      cases h; intro x
      simp only [runSection, runResOf]; (repeat' split) <;> fin_wend x t
    · cases h
  | runS =>
    simp only [stepAt] at h; split at h
    · rename_i t hq
      cases h; intro x
      simp only [runSection, runResOf]; (repeat' split) <;> fin_wend x t
    · cases h
  | spawnQ =>
    simp only [stepAt] at h; split at h
    · rename_i t hq
      cases h; intro x; fin_wend x t
    · cases h
  | spawnS =>
    simp only [stepAt] at h; split at h
    · rename_i t hq
      cases h; intro x; fin_wend x t
    · cases h
  | fnBegin t =>
    simp only [stepAt] at h; split at h
    · cases h
    · cases h; intro x; fin_wend x t
  | fnEnd t =>
    simp only [stepAt] at h; split at h
    · cases h
    · cases h; intro x; fin_wend x t
  | finish t =>
    simp only [stepAt] at h; split at h
    · cases h
    · cases h; intro x; fin_wend x t
  | slotFree t b =>
    simp only [stepAt] at h; (repeat' split at h) <;> (try cases h)
    all_goals (intro x; (repeat' split) <;> fin_wend x t)
  | shFetch =>
    simp only [stepAt] at h; (repeat' split at h) <;> (try cases h)
    · intro x; ((try simp at *) <;> (try grind))
    · intro x; ((try simp at *) <;> (try grind))
    · rename_i t hf; have hf2 := fetchRes_run hf; intro x; fin_wend x t
    · rename_i t hf; have hf2 := fetchRes_asap hf; intro x; fin_wend x t

theorem waitEnd_step {s s' : St} {now : Nat} {a : Act} (h : step s now a = some s') (hq : s.qh = .waiting)
    (hr : s'.qh = .ready) : s'.wg = 0 :=
  waitEnd_stepAt (step_eq h).2 0 (by simpa [setNow] using hq) hr

end PB.Tasks
