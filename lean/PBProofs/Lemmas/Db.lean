import PB.Model.Db
/-
Helper lemmas for C02 / C03: association-list storage, validity, `stored`.
-/
namespace PB.Db

/-! ### Store = association list -/

theorem Store.get_nil (k : String) : Store.get [] k = none := rfl

theorem Store.get_cons (r : Rec) (s : Store) (k : String) :
    Store.get (r :: s) k = if r.key = k then some r else Store.get s k := by
  unfold Store.get
  by_cases h : r.key = k
  · simp [List.find?_cons, h]
  · have hb : (r.key == k) = false := by simp [h]
    simp [List.find?_cons, hb, h]

theorem Store.get_key {s : Store} {k : String} {r : Rec} (h : Store.get s k = some r) : r.key = k := by
  unfold Store.get at h
  have := List.find?_some h
  simpa using this

theorem Store.get_mem {s : Store} {k : String} {r : Rec} (h : Store.get s k = some r) : r ∈ s := by
  unfold Store.get at h
  exact List.mem_of_find?_eq_some h

theorem Store.get_del_eq (s : Store) (k : String) : Store.get (Store.del s k) k = none := by
  induction s with
  | nil => rfl
  | cons r s ih =>
    unfold Store.del at *
    by_cases h : r.key = k
    · simp [List.filter, h]; exact ih
    · have : (r.key != k) = true := by simp [h]
      simp only [List.filter, this]
      rw [Store.get_cons]; simp [h]; exact ih

theorem Store.get_del_ne (s : Store) (k k' : String) (h : k' ≠ k) :
    Store.get (Store.del s k) k' = Store.get s k' := by
  induction s with
  | nil => rfl
  | cons r s ih =>
    unfold Store.del at *
    by_cases hk : r.key = k
    · simp only [List.filter, hk, bne_self_eq_false]
      rw [Store.get_cons, ih]
      have : ¬ r.key = k' := by rw [hk]; exact fun e => h e.symm
      simp [this]
    · have : (r.key != k) = true := by simp [hk]
      simp only [List.filter, this]
      rw [Store.get_cons, Store.get_cons, ih]

theorem Store.get_put_eq (s : Store) (r : Rec) : Store.get (Store.put s r) r.key = some r := by
  unfold Store.put; rw [Store.get_cons]; simp

theorem Store.get_put_ne (s : Store) (r : Rec) (k : String) (h : k ≠ r.key) :
    Store.get (Store.put s r) k = Store.get s k := by
  unfold Store.put; rw [Store.get_cons]
  have : ¬ r.key = k := fun e => h e.symm
  simp [this]; exact Store.get_del_ne s r.key k h

theorem Store.get_put (s : Store) (r : Rec) (k : String) :
    Store.get (Store.put s r) k = if k = r.key then some r else Store.get s k := by
  by_cases h : k = r.key
  · subst h; simp [Store.get_put_eq]
  · simp [h, Store.get_put_ne s r k h]

theorem Store.get_del (s : Store) (k k' : String) :
    Store.get (Store.del s k) k' = if k' = k then none else Store.get s k' := by
  by_cases h : k' = k
  · subst h; simp [Store.get_del_eq]
  · simp [h, Store.get_del_ne s k k' h]

/-- One entry per key. -/
def Store.NodupKeys (s : Store) : Prop := (s.map (·.key)).Nodup

theorem Store.nodup_nil : Store.NodupKeys [] := by simp [Store.NodupKeys]

theorem Store.mem_del {s : Store} {k : String} {r : Rec} : r ∈ Store.del s k ↔ r ∈ s ∧ r.key ≠ k := by
  unfold Store.del; simp

theorem Store.nodup_del {s : Store} (h : s.NodupKeys) (k : String) : (Store.del s k).NodupKeys := by
  unfold Store.NodupKeys Store.del at *
  induction s with
  | nil => simp
  | cons r s ih =>
    simp only [List.map_cons, List.nodup_cons] at h
    by_cases hk : r.key = k
    · simp only [List.filter, hk, bne_self_eq_false]; exact ih h.2
    · have : (r.key != k) = true := by simp [hk]
      simp only [List.filter, this, List.map_cons, List.nodup_cons]
      refine ⟨?_, ih h.2⟩
      intro hm
      apply h.1
      simp only [List.mem_map] at hm ⊢
      obtain ⟨a, ha, hak⟩ := hm
      exact ⟨a, (List.mem_filter.mp ha).1, hak⟩

theorem Store.nodup_put {s : Store} (h : s.NodupKeys) (r : Rec) : (Store.put s r).NodupKeys := by
  unfold Store.put
  have hd := Store.nodup_del h r.key
  unfold Store.NodupKeys at *
  simp only [List.map_cons, List.nodup_cons]
  refine ⟨?_, hd⟩
  intro hm
  simp only [List.mem_map] at hm
  obtain ⟨a, ha, hak⟩ := hm
  exact (Store.mem_del.mp ha).2 hak

theorem Store.get_of_mem {s : Store} (h : s.NodupKeys) {r : Rec} (hm : r ∈ s) : Store.get s r.key = some r := by
  induction s with
  | nil => cases hm
  | cons x s ih =>
    unfold Store.NodupKeys at h
    simp only [List.map_cons, List.nodup_cons] at h
    rw [Store.get_cons]
    rcases List.mem_cons.mp hm with e | hm'
    · subst e; simp
    · have : ¬ x.key = r.key := by
        intro e; apply h.1; rw [e]; exact List.mem_map.mpr ⟨r, hm', rfl⟩
      simp [this]; exact ih h.2 hm'

theorem Store.mem_iff_get {s : Store} (h : s.NodupKeys) (r : Rec) : r ∈ s ↔ Store.get s r.key = some r :=
  ⟨Store.get_of_mem h, Store.get_mem⟩

theorem Store.nodup_list {s : Store} (h : s.NodupKeys) : s.Nodup := by
  induction s with
  | nil => simp
  | cons x s ih =>
    unfold Store.NodupKeys at h
    simp only [List.map_cons, List.nodup_cons] at h
    refine List.nodup_cons.mpr ⟨?_, ih h.2⟩
    intro hm; exact h.1 (List.mem_map.mpr ⟨x, hm, rfl⟩)

/-- `filterMap` with a key-preserving function acts pointwise on `get`. -/
theorem Store.get_filterMap {s : Store} (h : s.NodupKeys) (g : Rec → Option Rec)
    (hg : ∀ r r', g r = some r' → r'.key = r.key) (k : String) :
    Store.get (s.filterMap g) k = (Store.get s k).bind g := by
  induction s with
  | nil => rfl
  | cons x s ih =>
    unfold Store.NodupKeys at h
    simp only [List.map_cons, List.nodup_cons] at h
    rw [Store.get_cons]
    by_cases hk : x.key = k
    · simp only [hk, if_true, Option.bind]
      cases hx : g x with
      | none =>
        simp only [List.filterMap_cons, hx]
        rw [ih h.2]
        have : Store.get s k = none := by
          cases hs : Store.get s k with
          | none => rfl
          | some y =>
            exfalso; apply h.1
            have := Store.get_key hs
            rw [hk, ← this]; exact List.mem_map.mpr ⟨y, Store.get_mem hs, rfl⟩
        simp [this]
      | some x' =>
        simp only [List.filterMap_cons, hx]
        rw [Store.get_cons]; simp [hg x x' hx, hk]
    · simp only [hk, if_false]
      cases hx : g x with
      | none => simp only [List.filterMap_cons, hx]; exact ih h.2
      | some x' =>
        simp only [List.filterMap_cons, hx]
        rw [Store.get_cons]
        have : ¬ x'.key = k := by rw [hg x x' hx]; exact hk
        simp [this]; exact ih h.2

theorem Store.nodup_filterMap {s : Store} (h : s.NodupKeys) (g : Rec → Option Rec)
    (hg : ∀ r r', g r = some r' → r'.key = r.key) : Store.NodupKeys (s.filterMap g) := by
  induction s with
  | nil => exact Store.nodup_nil
  | cons x s ih =>
    unfold Store.NodupKeys at h ⊢
    simp only [List.map_cons, List.nodup_cons] at h
    cases hx : g x with
    | none => simp only [List.filterMap_cons, hx]; exact ih h.2
    | some x' =>
      simp only [List.filterMap_cons, hx, List.map_cons, List.nodup_cons]
      refine ⟨?_, ih h.2⟩
      intro hm
      apply h.1
      simp only [List.mem_map, List.mem_filterMap] at hm ⊢
      obtain ⟨a, ⟨b, hb, hba⟩, hak⟩ := hm
      exact ⟨b, hb, by rw [← hg b a hba, hak, hg x x' hx]⟩

end PB.Db
