import PB.Model.Db
import PB.Spec.KVStore
import PB.Spec.PermissionLattice
import PBProofs.Lemmas.Db
import PBProofs.Lemmas.DbSim
/-
Helper lemmas for C03 (permissions).
-/
namespace PB.Db
open PB.KV PB.Perm

theorem not_permitted_not_all (o : Opts) (r : Rec) (h : r.md.permitted o.loc o.int = false) : o.all = false := by
  cases ha : o.all with
  | false => rfl
  | true =>
    unfold Opts.all at ha
    simp at ha
    rw [ha.1, ha.2, permitted_all] at h; cases h

theorem mem_filter_vis {now : Int} {t : Store} (ht : t.NodupKeys) (p : Rec → Bool)
    (hp : ∀ a, p a = true → a.md.valid now = true) (a : Rec) :
    a ∈ t.filter p ↔ vis now (t.get a.key) = some a ∧ p a = true := by
  rw [List.mem_filter, Store.mem_iff_get ht]
  constructor
  · rintro ⟨h1, h2⟩; rw [h1, vis_of_valid (hp a h2)]; exact ⟨rfl, h2⟩
  · rintro ⟨h1, h2⟩; exact ⟨(vis_some h1).1, h2⟩

theorem kvget_key {o : Opts} {m : Store} {k : String} {now : Int} {r : Rec} (h : KV.get o m k now = .ok r) : r.key = k := by
  unfold KV.get at h
  cases hv : vis now (m.get k) with
  | none => rw [hv] at h; cases h
  | some x =>
    rw [hv] at h; simp only at h
    split at h
    · cases h; exact Store.get_key (vis_some hv).1
    · cases h

theorem kvstore_get_ne (b : Backend) (m : Store) (r : Rec) (k : String) (h : k ≠ r.key) :
    (KV.store b m r).get k = m.get k := by
  unfold KV.store; split
  · exact Store.get_del_ne _ _ _ h
  · exact Store.get_put_ne _ _ _ (by rw [stored_key]; exact h)

/-- `getRecord` only hands out records the interface may see — whatever the cache holds. -/
theorem getRecord_permitted (cfg : Cfg) (o : Opts) (st : ISt) (k : String) (now : Int) (r : Rec)
    (h : (getRecord cfg o st k now).1 = .ok r) : r.md.permitted o.loc o.int = true := by
  unfold getRecord at h
  generalize checkCache cfg o st k now = cc at h
  obtain ⟨c1, st1⟩ := cc
  cases c1 with
  | some rc =>
    simp only at h
    split at h
    · cases h; rename_i ha; rw [← hasAccess_eq_permitted]; exact ha
    · cases h
  | none =>
    simp only at h
    cases hg : ctlGet st1.store k now with
    | error e => rw [hg] at h; cases h
    | ok x =>
      rw [hg] at h; simp only at h
      split at h
      · cases h
      · cases h; rename_i ha; rw [← hasAccess_eq_permitted]; simpa using ha

/-- Equal answers of the reference `get` on indistinguishable stores. -/
theorem kvget_lowEq {o : Opts} {now : Int} {m m' : Store} (h : lowEq o.loc o.int now m m') (k : String) :
    KV.get o m k now = KV.get o m' k now := by
  have hk := h k
  unfold KV.get
  cases hv : vis now (m.get k) with
  | none =>
    cases hv' : vis now (m'.get k) with
    | none => rfl
    | some r' => rw [hv, hv'] at hk; cases hk
  | some r =>
    cases hv' : vis now (m'.get k) with
    | none => rw [hv, hv'] at hk; cases hk
    | some r' =>
      rw [hv, hv'] at hk
      simp only at hk ⊢
      rw [hasAccess_eq_permitted, hasAccess_eq_permitted]
      by_cases hp : r.md.permitted o.loc o.int = true
      · have := hk (Or.inl hp); subst this; rfl
      · by_cases hp' : r'.md.permitted o.loc o.int = true
        · have := hk (Or.inr hp'); subst this; exact absurd hp' hp
        · simp [hp, hp']

theorem kvput_cases (b : Backend) (o : Opts) (m : Store) (x : Rec) (now : Int) (isNew : Bool) :
    KV.put b o m x now isNew = (m, .err .denied) ∨
    KV.put b o m x now isNew =
      (KV.store b m { x with md := o.apply (if isNew then x.md.reset else x.md) now }, .ok) := by
  unfold KV.put
  cases KV.blocked o m x.key now
  · exact Or.inr rfl
  · exact Or.inl rfl

theorem kvput_blocked (b : Backend) (o : Opts) (m : Store) (x : Rec) (now : Int) (isNew : Bool) (r : Rec)
    (hv : vis now (m.get x.key) = some r) (hp : r.md.permitted o.loc o.int = false) :
    KV.put b o m x now isNew = (m, .err .denied) := by
  unfold KV.put KV.blocked; simp [hv, hp, not_permitted_not_all o r hp]

/-! Operations other than `get` and `query` never hand out records. -/

theorem ifPut_noRecs (cfg : Cfg) (o : Opts) (st : ISt) (x : Rec) (now : Int) (isNew : Bool) :
    outRecs (ifPut cfg o st x now isNew).2 = [] := by
  unfold ifPut
  by_cases ha : o.all = true
  · simp only [ha, Bool.not_true, Bool.false_eq_true, if_false]
    generalize updateCache cfg o st _ true _ = uc
    obtain ⟨s1, b⟩ := uc; cases b <;> rfl
  · have ha' : o.all = false := by simpa using ha
    simp only [ha', Bool.not_false, if_true]
    generalize getMeta cfg o st x.key now = gm
    obtain ⟨res, st1⟩ := gm
    cases res with
    | ok _ =>
      simp only
      generalize updateCache cfg o st1 _ true _ = uc
      obtain ⟨s1, b⟩ := uc; cases b <;> rfl
    | error e =>
      cases e <;> simp only <;> (try rfl)
      generalize updateCache cfg o st1 _ true _ = uc
      obtain ⟨s1, b⟩ := uc; cases b <;> rfl

theorem ifModify_noRecs (cfg : Cfg) (o : Opts) (st : ISt) (k : String) (now : Int) (f : Meta → Meta) :
    outRecs (ifModify cfg o st k now f).2 = [] := by
  unfold ifModify
  generalize getRecord cfg o st k now = gr
  obtain ⟨res, st1⟩ := gr
  cases res <;> rfl

theorem ifInsert_noRecs (cfg : Cfg) (o : Opts) (st : ISt) (k a : String) (p : Prim) (now : Int) :
    outRecs (ifInsert cfg o st k a p now).2 = [] := by
  unfold ifInsert
  generalize getRecord cfg o st k now = gr
  obtain ⟨res, st1⟩ := gr
  cases res with
  | error e => rfl
  | ok r => simp only; cases setField r.form r.fields a p <;> rfl

theorem ifExists_noRecs (cfg : Cfg) (o : Opts) (st : ISt) (k : String) (now : Int) :
    outRecs (ifExists cfg o st k now).2 = [] := by
  unfold ifExists
  generalize getRecord cfg o st k now = gr
  obtain ⟨res, st1⟩ := gr
  cases res with
  | error e => cases e <;> rfl
  | ok r => rfl

theorem ifPutMany_noRecs (cfg : Cfg) (o : Opts) (st : ISt) (rs : List Rec) (now : Int) :
    outRecs (ifPutMany cfg o st rs now).2 = [] := by
  unfold ifPutMany; (repeat' split) <;> rfl

theorem ifPurge_noRecs (cfg : Cfg) (o : Opts) (st : ISt) (q : Query) (now : Int) :
    outRecs (ifPurge cfg o st q now).2 = [] := by
  unfold ifPurge; (repeat' split) <;> rfl

theorem ifFlush_noRecs (cfg : Cfg) (o : Opts) (st : ISt) (now : Int) :
    outRecs (ifFlush cfg o st now).2 = [] := by
  unfold ifFlush; (repeat' split) <;> rfl

theorem blocked_lowEq {o : Opts} {now : Int} {m m' : Store} (h : lowEq o.loc o.int now m m') (k : String) :
    KV.blocked o m k now = KV.blocked o m' k now := by
  unfold KV.blocked
  congr 1
  have hk := h k
  cases hv : vis now (m.get k) with
  | none =>
    cases hv' : vis now (m'.get k) with
    | none => rfl
    | some r' => rw [hv, hv'] at hk; cases hk
  | some r =>
    cases hv' : vis now (m'.get k) with
    | none => rw [hv, hv'] at hk; cases hk
    | some r' =>
      rw [hv, hv'] at hk; simp only at hk ⊢
      by_cases hp : r.md.permitted o.loc o.int = true
      · rw [← hk (Or.inl hp)]
      · by_cases hp' : r'.md.permitted o.loc o.int = true
        · rw [hk (Or.inr hp')]
        · simp [hp, hp']

/-! ### indistinguishable stores stay indistinguishable -/

theorem kvstore_get (b : Backend) (m : Store) (r : Rec) (k : String) :
    (KV.store b m r).get k =
      if k = r.key then (if r.md.isDeleted then none else some (stored b r)) else m.get k := by
  unfold KV.store
  split
  · rw [Store.get_del]
  · rw [Store.get_put, stored_key]

/-- Writing the same thing under one key in both stores. -/
theorem lowEq_same_write {loc int : Bool} {t : Int} {m m' m1 m1' : Store} (k0 : String) (x : Option Rec)
    (h : lowEq loc int t m m')
    (h1 : m1.get k0 = x) (h1' : m1'.get k0 = x)
    (h2 : ∀ k, k ≠ k0 → m1.get k = m.get k) (h2' : ∀ k, k ≠ k0 → m1'.get k = m'.get k) :
    lowEq loc int t m1 m1' := by
  intro k
  by_cases hk : k = k0
  · subst hk; rw [h1, h1']
    cases vis t x with
    | none => trivial
    | some r => intro _; rfl
  · rw [h2 k hk, h2' k hk]; exact h k

theorem lowEq_store {loc int : Bool} {t : Int} {m m' : Store} (b : Backend) (r : Rec) (h : lowEq loc int t m m') :
    lowEq loc int t (KV.store b m r) (KV.store b m' r) := by
  apply lowEq_same_write r.key (if r.md.isDeleted then none else some (stored b r)) h
  · rw [kvstore_get]; simp
  · rw [kvstore_get]; simp
  · intro k hk; rw [kvstore_get]; simp [hk]
  · intro k hk; rw [kvstore_get]; simp [hk]

theorem lowEq_storeAll {loc int : Bool} {t : Int} (b : Backend) (o : Opts) (now : Int) (rs : List Rec) :
    ∀ (m m' : Store), lowEq loc int t m m' → lowEq loc int t (KV.storeAll b o now m rs) (KV.storeAll b o now m' rs) := by
  induction rs with
  | nil => intro m m' h; exact h
  | cons r rest ih => intro m m' h; unfold KV.storeAll; exact ih _ _ (lowEq_store b _ h)

theorem storeAll_nodup (b : Backend) (o : Opts) (now : Int) (rs : List Rec) :
    ∀ (m : Store), m.NodupKeys → (KV.storeAll b o now m rs).NodupKeys := by
  induction rs with
  | nil => intro m h; exact h
  | cons r rest ih => intro m h; unfold KV.storeAll; exact ih _ (kvstore_nodup h _)

/-- One reference step keeps two indistinguishable stores indistinguishable (from the time of the step on). -/
theorem lowEq_step (cfg : Cfg) (o : Opts) (now t0 : Int) (m m' : Store) (hn : m.NodupKeys) (hn' : m'.NodupKeys)
    (h : lowEqFrom o.loc o.int t0 m m') (ht : t0 ≤ now) (op : Op) :
    lowEqFrom o.loc o.int now (KV.step cfg o m op now).1 (KV.step cfg o m' op now).1 ∧
    (KV.step cfg o m op now).1.NodupKeys ∧ (KV.step cfg o m' op now).1.NodupKeys := by
  have hfrom : lowEqFrom o.loc o.int now m m' := fun t htt => h t (by omega)
  have hnow : lowEq o.loc o.int now m m' := h now ht
  have hg := kvget_lowEq hnow
  have hmod : ∀ k f,
      lowEqFrom o.loc o.int now (KV.modify cfg.backend o m k now f).1 (KV.modify cfg.backend o m' k now f).1 ∧
      (KV.modify cfg.backend o m k now f).1.NodupKeys ∧ (KV.modify cfg.backend o m' k now f).1.NodupKeys := by
    intro k f
    unfold KV.modify
    rw [hg k]
    cases KV.get o m' k now with
    | error e => exact ⟨hfrom, hn, hn'⟩
    | ok r => exact ⟨fun t htt => lowEq_store _ _ (hfrom t htt), kvstore_nodup hn _, kvstore_nodup hn' _⟩
  have hput : ∀ x isNew,
      lowEqFrom o.loc o.int now (KV.put cfg.backend o m x now isNew).1 (KV.put cfg.backend o m' x now isNew).1 ∧
      (KV.put cfg.backend o m x now isNew).1.NodupKeys ∧ (KV.put cfg.backend o m' x now isNew).1.NodupKeys := by
    intro x isNew
    unfold KV.put
    rw [blocked_lowEq hnow x.key]
    cases KV.blocked o m' x.key now with
    | true => exact ⟨hfrom, hn, hn'⟩
    | false => exact ⟨fun t htt => lowEq_store _ _ (hfrom t htt), kvstore_nodup hn _, kvstore_nodup hn' _⟩
  cases op with
  | get k => exact ⟨hfrom, hn, hn'⟩
  | exists_ k => exact ⟨hfrom, hn, hn'⟩
  | put x => exact hput x false
  | putNew x => exact hput x true
  | delete k => exact hmod k _
  | setAbs k t => exact hmod k _
  | setRel k d => exact hmod k _
  | mkSecret k => exact hmod k _
  | mkCrown k => exact hmod k _
  | insert k a p =>
    simp only [KV.step, KV.insert]
    rw [hg k]
    cases KV.get o m' k now with
    | error e => exact ⟨hfrom, hn, hn'⟩
    | ok r =>
      simp only
      cases setField r.form r.fields a p with
      | none => exact ⟨hfrom, hn, hn'⟩
      | some fs => exact ⟨fun t htt => lowEq_store _ _ (hfrom t htt), kvstore_nodup hn _, kvstore_nodup hn' _⟩
  | putMany rs =>
    simp only [KV.step]
    by_cases ha : o.all = true
    · by_cases hb : cfg.backend.hasBatch = true
      · simp only [ha, hb, Bool.not_true, Bool.false_eq_true, if_false]
        exact ⟨fun t htt => lowEq_storeAll _ _ _ _ _ _ (hfrom t htt), storeAll_nodup _ _ _ _ _ hn, storeAll_nodup _ _ _ _ _ hn'⟩
      · simp only [ha, hb, Bool.not_true, Bool.false_eq_true, if_false, Bool.not_false, if_true]
        exact ⟨hfrom, hn, hn'⟩
    · simp only [ha, Bool.not_false, if_true]; exact ⟨hfrom, hn, hn'⟩
  | query q => simp only [KV.step]; split <;> exact ⟨hfrom, hn, hn'⟩
  | purge q =>
    simp only [KV.step]
    by_cases hc : q.check = true
    · by_cases hp : cfg.backend.hasPurge = true
      · simp only [hc, hp, Bool.not_true, Bool.false_eq_true, if_false]
        refine ⟨?_, Store.nodup_filter hn _, Store.nodup_filter hn' _⟩
        intro t htt k
        rw [Store.get_filter hn, Store.get_filter hn']
        have hk := hnow k
        have hkt := hfrom t htt k
        -- a record purged from one store is the same record in the other
        have purged_same : ∀ (a a' : Store) (r : Rec), lowEq o.loc o.int now a a' → a.get k = some r →
            q.purges o.loc o.int now r = true → a'.get k = some r := by
          intro a a' r hl ha hpr
          have hv := purges_valid q _ _ r hpr
          have hperm : r.md.permitted o.loc o.int = true := by
            unfold Query.purges at hpr; simp at hpr; exact hpr.1.1.2
          have := hl k
          rw [ha, vis_of_valid hv] at this
          cases hv' : vis now (a'.get k) with
          | none => rw [hv'] at this; cases this
          | some r' =>
            rw [hv'] at this; simp only at this
            have e := this (Or.inl hperm); subst e
            exact (vis_some hv').1
        have sym : lowEq o.loc o.int now m' m := by
          intro k2
          have := hnow k2
          cases h1 : vis now (m.get k2) <;> cases h2 : vis now (m'.get k2) <;> rw [h1, h2] at this <;> simp_all
          intro hh; exact (this (Or.symm hh)).symm
        cases ha : m.get k with
        | none =>
          cases ha' : m'.get k with
          | none => simp only [Option.bind]; trivial
          | some r' =>
            by_cases hpr : q.purges o.loc o.int now r' = true
            · have := purged_same m' m r' sym ha' hpr; rw [ha] at this; cases this
            · rw [ha, ha'] at hkt
              simp only [Option.bind, hpr]
              simpa using hkt
        | some r =>
          by_cases hpr : q.purges o.loc o.int now r = true
          · have ha' := purged_same m m' r hnow ha hpr
            rw [ha']; simp only [Option.bind, hpr]
            simp [vis]
          · cases ha' : m'.get k with
            | none =>
              rw [ha, ha'] at hkt
              simp only [Option.bind, hpr]
              simpa using hkt
            | some r' =>
              by_cases hpr' : q.purges o.loc o.int now r' = true
              · have := purged_same m' m r' sym ha' hpr'; rw [ha] at this; cases this; exact absurd hpr' hpr
              · rw [ha, ha'] at hkt
                simp only [Option.bind, hpr, hpr']
                simpa using hkt
      · simp only [hc, hp, Bool.not_true, Bool.false_eq_true, if_false, Bool.not_false, if_true]
        exact ⟨hfrom, hn, hn'⟩
    · simp only [hc, Bool.not_false, if_true]; exact ⟨hfrom, hn, hn'⟩
  | maintain t sk => exact ⟨hfrom, hn, hn'⟩
  | flush => exact ⟨hfrom, hn, hn'⟩
  | clear => exact ⟨hfrom, hn, hn'⟩
  | evict k => exact ⟨hfrom, hn, hn'⟩

end PB.Db
