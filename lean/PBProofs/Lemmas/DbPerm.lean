import PB.Model.Db
import PB.Spec.KVStore
import PB.Spec.PermissionLattice
import PBProofs.Lemmas.Db
import PBProofs.Lemmas.DbSim
/-
Helper lemmas for C03 (permissions).
-/
namespace PB.Db
open PB.KV PB.Perm

theorem not_permitted_not_all (o : Opts) (r : Rec) (h : r.md.permitted o.loc o.int = false) : o.all = false := by
  cases ha : o.all with
  | false => rfl
  | true =>
    unfold Opts.all at ha
    simp at ha
    rw [ha.1, ha.2, permitted_all] at h; cases h

theorem mem_filter_vis {now : Int} {t : Store} (ht : t.NodupKeys) (p : Rec → Bool)
    (hp : ∀ a, p a = true → a.md.valid now = true) (a : Rec) :
    a ∈ t.filter p ↔ vis now (t.get a.key) = some a ∧ p a = true := by
  rw [List.mem_filter, Store.mem_iff_get ht]
  constructor
  · rintro ⟨h1, h2⟩; rw [h1, vis_of_valid (hp a h2)]; exact ⟨rfl, h2⟩
  · rintro ⟨h1, h2⟩; exact ⟨(vis_some h1).1, h2⟩

theorem kvget_key {o : Opts} {m : Store} {k : String} {now : Int} {r : Rec} (h : KV.get o m k now = .ok r) : r.key = k := by
  unfold KV.get at h
  cases hv : vis now (m.get k) with
  | none => rw [hv] at h; cases h
  | some x =>
    rw [hv] at h; simp only at h
    split at h
    · cases h; exact Store.get_key (vis_some hv).1
    · cases h

theorem kvstore_get_ne (b : Backend) (m : Store) (r : Rec) (k : String) (h : k ≠ r.key) :
    (KV.store b m r).get k = m.get k := by
  unfold KV.store; split
  · exact Store.get_del_ne _ _ _ h
  · exact Store.get_put_ne _ _ _ (by rw [stored_key]; exact h)

/-- `getRecord` only hands out records the interface may see — whatever the cache holds. -/
theorem getRecord_permitted (cfg : Cfg) (o : Opts) (st : ISt) (k : String) (now : Int) (r : Rec)
    (h : (getRecord cfg o st k now).1 = .ok r) : r.md.permitted o.loc o.int = true := by
  unfold getRecord at h
  generalize checkCache cfg o st k now = cc at h
  obtain ⟨c1, st1⟩ := cc
  cases c1 with
  | some rc =>
    simp only at h
    split at h
    · cases h; rename_i ha; rw [← hasAccess_eq_permitted]; exact ha
    · cases h
  | none =>
    simp only at h
    cases hg : ctlGet st1.store k now with
    | error e => rw [hg] at h; cases h
    | ok x =>
      rw [hg] at h; simp only at h
      split at h
      · cases h
      · cases h; rename_i ha; rw [← hasAccess_eq_permitted]; simpa using ha

/-- Equal answers of the reference `get` on indistinguishable stores. -/
theorem kvget_lowEq {o : Opts} {now : Int} {m m' : Store} (h : lowEq o.loc o.int now m m') (k : String) :
    KV.get o m k now = KV.get o m' k now := by
  have hk := h k
  unfold KV.get
  cases hv : vis now (m.get k) with
  | none =>
    cases hv' : vis now (m'.get k) with
    | none => rfl
    | some r' => rw [hv, hv'] at hk; cases hk
  | some r =>
    cases hv' : vis now (m'.get k) with
    | none => rw [hv, hv'] at hk; cases hk
    | some r' =>
      rw [hv, hv'] at hk
      simp only at hk ⊢
      rw [hasAccess_eq_permitted, hasAccess_eq_permitted]
      by_cases hp : r.md.permitted o.loc o.int = true
      · have := hk (Or.inl hp); subst this; rfl
      · by_cases hp' : r'.md.permitted o.loc o.int = true
        · have := hk (Or.inr hp'); subst this; exact absurd hp' hp
        · simp [hp, hp']

theorem kvput_cases (b : Backend) (o : Opts) (m : Store) (x : Rec) (now : Int) (isNew : Bool) :
    KV.put b o m x now isNew = (m, .err .denied) ∨
    KV.put b o m x now isNew =
      (KV.store b m { x with md := o.apply (if isNew then x.md.reset else x.md) now }, .ok) := by
  unfold KV.put
  cases KV.blocked o m x.key now
  · exact Or.inr rfl
  · exact Or.inl rfl

theorem kvput_blocked (b : Backend) (o : Opts) (m : Store) (x : Rec) (now : Int) (isNew : Bool) (r : Rec)
    (hv : vis now (m.get x.key) = some r) (hp : r.md.permitted o.loc o.int = false) :
    KV.put b o m x now isNew = (m, .err .denied) := by
  unfold KV.put KV.blocked; simp [hv, hp, not_permitted_not_all o r hp]

/-! Operations other than `get` and `query` never hand out records. -/

theorem ifPut_noRecs (cfg : Cfg) (o : Opts) (st : ISt) (x : Rec) (now : Int) (isNew : Bool) :
    outRecs (ifPut cfg o st x now isNew).2 = [] := by
  unfold ifPut
  by_cases ha : o.all = true
  · simp only [ha, Bool.not_true, Bool.false_eq_true, if_false]
    generalize updateCache cfg o st _ true _ = uc
    obtain ⟨s1, b⟩ := uc; cases b <;> rfl
  · have ha' : o.all = false := by simpa using ha
    simp only [ha', Bool.not_false, if_true]
    generalize getMeta cfg o st x.key now = gm
    obtain ⟨res, st1⟩ := gm
    cases res with
    | ok _ =>
      simp only
      generalize updateCache cfg o st1 _ true _ = uc
      obtain ⟨s1, b⟩ := uc; cases b <;> rfl
    | error e =>
      cases e <;> simp only <;> (try rfl)
      generalize updateCache cfg o st1 _ true _ = uc
      obtain ⟨s1, b⟩ := uc; cases b <;> rfl

theorem ifModify_noRecs (cfg : Cfg) (o : Opts) (st : ISt) (k : String) (now : Int) (f : Meta → Meta) :
    outRecs (ifModify cfg o st k now f).2 = [] := by
  unfold ifModify
  generalize getRecord cfg o st k now = gr
  obtain ⟨res, st1⟩ := gr
  cases res <;> rfl

theorem ifInsert_noRecs (cfg : Cfg) (o : Opts) (st : ISt) (k a : String) (p : Prim) (now : Int) :
    outRecs (ifInsert cfg o st k a p now).2 = [] := by
  unfold ifInsert
  generalize getRecord cfg o st k now = gr
  obtain ⟨res, st1⟩ := gr
  cases res with
  | error e => rfl
  | ok r => simp only; cases setField r.form r.fields a p <;> rfl

theorem ifExists_noRecs (cfg : Cfg) (o : Opts) (st : ISt) (k : String) (now : Int) :
    outRecs (ifExists cfg o st k now).2 = [] := by
  unfold ifExists
  generalize getRecord cfg o st k now = gr
  obtain ⟨res, st1⟩ := gr
  cases res with
  | error e => cases e <;> rfl
  | ok r => rfl

theorem ifPutMany_noRecs (cfg : Cfg) (o : Opts) (st : ISt) (rs : List Rec) (now : Int) :
    outRecs (ifPutMany cfg o st rs now).2 = [] := by
  unfold ifPutMany; (repeat' split) <;> rfl

theorem ifPurge_noRecs (cfg : Cfg) (o : Opts) (st : ISt) (q : Query) (now : Int) :
    outRecs (ifPurge cfg o st q now).2 = [] := by
  unfold ifPurge; (repeat' split) <;> rfl

theorem ifFlush_noRecs (cfg : Cfg) (o : Opts) (st : ISt) (now : Int) :
    outRecs (ifFlush cfg o st now).2 = [] := by
  unfold ifFlush; (repeat' split) <;> rfl

end PB.Db
