import PBProofs.Lemmas.Managed
/-
C06: the invariant of the interleaving semantics of managed execution and its preservation by every action.
-/
namespace PB.Managed

/-! ### fields of the state after a step -/

theorem apply_w (s : St) (i : Nat) (it' : Item) (e : Eff) : (s.apply i it' e).w = s.w + e.dw := by
  cases hr : e.rep <;> cases hc : e.check <;> simp [St.apply, hr, hc]
theorem apply_t (s : St) (i : Nat) (it' : Item) (e : Eff) : (s.apply i it' e).t = s.t + e.dt := by
  cases hr : e.rep <;> cases hc : e.check <;> simp [St.apply, hr, hc]
theorem apply_m (s : St) (i : Nat) (it' : Item) (e : Eff) : (s.apply i it' e).m = s.m + e.dm := by
  cases hr : e.rep <;> cases hc : e.check <;> simp [St.apply, hr, hc]
theorem apply_g (s : St) (i : Nat) (it' : Item) (e : Eff) : (s.apply i it' e).g = s.g + e.dg := by
  cases hr : e.rep <;> cases hc : e.check <;> simp [St.apply, hr, hc]
theorem apply_c (s : St) (i : Nat) (it' : Item) (e : Eff) :
    (s.apply i it' e).c = (match e.setC with | some b => b | none => s.c) := by
  cases hr : e.rep <;> cases hc : e.check <;> simp [St.apply, hr, hc] <;> rfl
theorem apply_items (s : St) (i : Nat) (it' : Item) (e : Eff) : (s.apply i it' e).items = s.items.set i it' := by
  cases hr : e.rep <;> cases hc : e.check <;> simp [St.apply, hr, hc]
theorem apply_stopFlag (s : St) (i : Nat) (it' : Item) (e : Eff) :
    (s.apply i it' e).stopFlag = (s.stopFlag || e.setStop) := by
  cases hr : e.rep <;> cases hc : e.check <;> simp [St.apply, hr, hc]
theorem apply_ctxDone (s : St) (i : Nat) (it' : Item) (e : Eff) :
    (s.apply i it' e).ctxDone = (s.ctxDone || e.setCtx) := by
  cases hr : e.rep <;> cases hc : e.check <;> simp [St.apply, hr, hc]
theorem apply_cap (s : St) (i : Nat) (it' : Item) (e : Eff) : (s.apply i it' e).cap = s.cap := by
  cases hr : e.rep <;> cases hc : e.check <;> simp [St.apply, hr, hc]
theorem apply_chanSet (s : St) (i : Nat) (it' : Item) (e : Eff) : (s.apply i it' e).chanSet = s.chanSet := by
  cases hr : e.rep <;> cases hc : e.check <;> simp [St.apply, hr, hc]

theorem apply_count (s : St) (i : Nat) (it' : Item) (e : Eff) :
    (s.apply i it' e).feed.length + (s.apply i it' e).dropped =
      s.feed.length + s.dropped + (if e.rep.isSome then 1 else 0) := by
  cases hr : e.rep <;> cases hc : e.check <;> simp [St.apply, hr, hc, report_count]

theorem check_chanInv (s : St) (h : s.ChanInv) : s.check.ChanInv := by
  unfold St.check; split <;> (try split) <;> exact h

theorem apply_cap_inv (s : St) (i : Nat) (it' : Item) (e : Eff) (h : s.ChanInv) : (s.apply i it' e).ChanInv := by
  have h0 : St.ChanInv { s with
      w := s.w + e.dw, t := s.t + e.dt, m := s.m + e.dm, g := s.g + e.dg,
      c := (match e.setC with | some b => b | none => s.c),
      stopFlag := s.stopFlag || e.setStop, ctxDone := s.ctxDone || e.setCtx,
      stopCompleted := (if e.clrCompleted then false else s.stopCompleted),
      items := s.items.set i it' } := h
  cases hr : e.rep <;> cases hc : e.check <;> simp only [St.apply, hr, hc, if_true, if_false, Bool.false_eq_true]
  · exact h0
  · exact check_chanInv _ h0
  · exact report_cap_inv _ _ h0
  · exact check_chanInv _ (report_cap_inv _ _ h0)

theorem apply_feed_mem (s : St) (i : Nat) (it' : Item) (e : Eff) (x : Report)
    (h : x ∈ (s.apply i it' e).feed) : x ∈ s.feed ∨ e.rep = some x := by
  cases hr : e.rep <;> cases hc : e.check <;> simp [St.apply, hr, hc] at h ⊢
  · exact h
  · exact h
  · rcases report_feed_mem _ _ _ h with h | h <;> simp_all
  · rcases report_feed_mem _ _ _ h with h | h <;> simp_all

/-- `stopCompleted` after a step: cleared by Module.stop, set by a successful checkIfStopComplete. -/
theorem apply_stopCompleted (s : St) (i : Nat) (it' : Item) (e : Eff) :
    (s.apply i it' e).stopCompleted =
      ((if e.clrCompleted then false else s.stopCompleted) ||
        (e.check && ((s.stopFlag || e.setStop) && !(match e.setC with | some b => b | none => s.c) &&
          (s.w + e.dw == 0) && (s.t + e.dt == 0) && (s.m + e.dm == 0)))) := by
  cases hr : e.rep <;> cases hc : e.check <;> simp [St.apply, hr, hc, check_stopCompleted] <;> rfl

/-! ### the invariant -/

/-- What holds in every reachable state of the interleaving semantics. -/
structure Inv (s : St) : Prop where
  /-- every work counter is the number of items between their increment and their decrement -/
  w : s.w = sumBy Item.cw s.items
  t : s.t = sumBy Item.ct s.items
  m : s.m = sumBy Item.cm s.items
  g : s.g = sumBy Item.cg s.items
  /-- ctrlFuncRunning is set exactly while one control function is in flight -/
  c : sumBy Item.cc s.items = (if s.c then 1 else 0)
  /-- every report was delivered or found the channel full -/
  reps : s.feed.length + s.dropped = sumNat Item.reps s.items
  cap : s.ChanInv
  feedPanic : ∀ r ∈ s.feed, r.sev = .panic ∧ r.stack = true ∧ r.val ≠ .nil
  loc : ∀ (i : Nat) (it : Item), s.items[i]? = some it → it.Local
  /-- while a stop is not yet complete, some item will still call checkIfStopComplete -/
  stop : s.stopFlag = true → s.stopCompleted = false → 0 < sumBy Item.pendingCheck s.items
  /-- a service worker has left its loop only if told to stop or its function finished -/
  svc : ∀ (i : Nat) (it : Item), s.items[i]? = some it → it.kind = .svc → 5 ≤ it.pc →
    s.stopFlag = true ∨ s.ctxDone = true ∨ it.cur.restarts = false

theorem fresh_contrib (it : Item) (h : it.fresh = true) :
    it.cw = 0 ∧ it.ct = 0 ∧ it.cm = 0 ∧ it.cg = 0 ∧ it.cc = 0 ∧ it.reps = 0 ∧ it.pc = 0 := by
  simp [Item.fresh] at h
  obtain ⟨⟨⟨⟨⟨⟨h1, h2⟩, h3⟩, h4⟩, h5⟩, h6⟩, h7⟩ := h
  unfold Item.cw Item.ct Item.cm Item.cg Item.cc
  cases it.kind <;> simp [h1, h2]

theorem getElem?_append_singleton {l : List Item} {a it : Item} {i : Nat}
    (h : (l ++ [a])[i]? = some it) : l[i]? = some it ∨ it = a := by
  by_cases hi : i < l.length
  · left; rw [List.getElem?_append_left hi] at h; exact h
  · right
    rw [List.getElem?_append_right (by omega)] at h
    cases hj : i - l.length with
    | zero => simp [hj] at h; exact h.symm
    | succ j => simp [hj] at h

theorem inv_spawn {s : St} {it : Item} (hi : Inv s) (hf : it.fresh = true) :
    Inv { s with items := s.items ++ [it] } := by
  obtain ⟨h1, h2, h3, h4, h5, h6, h7⟩ := fresh_contrib it hf
  constructor
  · simp [sumBy_append, sumBy, h1, hi.w]
  · simp [sumBy_append, sumBy, h2, hi.t]
  · simp [sumBy_append, sumBy, h3, hi.m]
  · simp [sumBy_append, sumBy, h4, hi.g]
  · simp [sumBy_append, sumBy, h5, hi.c]
  · simp [sumNat_append, sumNat, h6, hi.reps]
  · exact hi.cap
  · exact hi.feedPanic
  · intro i x hx
    rcases getElem?_append_singleton hx with h | h
    · exact hi.loc i x h
    · subst h; exact fresh_local _ hf
  · intro a b
    have := hi.stop a b
    have hp := pendingCheck_nonneg it
    simp [sumBy_append, sumBy]; omega
  · intro i x hx hk hp
    rcases getElem?_append_singleton hx with h | h
    · exact hi.svc i x h hk hp
    · subst h; omega

theorem getElem?_set_cases {l : List Item} {b x : Item} {i j : Nat} (h : (l.set i b)[j]? = some x) :
    (j = i ∧ x = b) ∨ (j ≠ i ∧ l[j]? = some x) := by
  by_cases hji : j = i
  · subst hji
    left
    rw [List.getElem?_set] at h
    simp at h
    exact ⟨rfl, h.2.symm⟩
  · right
    rw [List.getElem?_set] at h
    simp [Ne.symm hji] at h
    exact ⟨hji, h⟩

theorem inv_queue {s : St} {i : Nat} {it : Item} {outs : List Outcome} (hi : Inv s)
    (hit : s.items[i]? = some it) (hk : it.kind = .task) (hp : it.pc = 7 ∨ it.pc = 8) :
    Inv { s with items := s.items.set i { it with pc := 0, outs := it.outs ++ outs } } := by
  have hloc := hi.loc i it hit
  have e1 : Item.cw { it with pc := 0, outs := it.outs ++ outs } = it.cw := by simp [Item.cw, hk]
  have e2 : Item.ct { it with pc := 0, outs := it.outs ++ outs } = it.ct := by
    rcases hp with hp | hp <;> simp [Item.ct, hk, hp]
  have e3 : Item.cm { it with pc := 0, outs := it.outs ++ outs } = it.cm := by simp [Item.cm, hk]
  have e4 : Item.cg { it with pc := 0, outs := it.outs ++ outs } = it.cg := by simp [Item.cg, hk]
  have e5 : Item.cc { it with pc := 0, outs := it.outs ++ outs } = it.cc := by simp [Item.cc, hk]
  have e6 : Item.pendingCheck { it with pc := 0, outs := it.outs ++ outs } = it.pendingCheck := by
    rcases hp with hp | hp <;> simp [Item.pendingCheck, hk, hp]
  constructor
  · simp only [sumBy_set _ _ _ _ _ hit, e1]; have := hi.w; omega
  · simp only [sumBy_set _ _ _ _ _ hit, e2]; have := hi.t; omega
  · simp only [sumBy_set _ _ _ _ _ hit, e3]; have := hi.m; omega
  · simp only [sumBy_set _ _ _ _ _ hit, e4]; have := hi.g; omega
  · simp only [sumBy_set _ _ _ _ _ hit, e5]; have := hi.c; omega
  · have := sumNat_set Item.reps _ _ _ { it with pc := 0, outs := it.outs ++ outs } hit
    have := hi.reps
    simp at *; omega
  · exact hi.cap
  · exact hi.feedPanic
  · intro j x hx
    rcases getElem?_set_cases hx with ⟨_, rfl⟩ | ⟨_, h⟩
    · obtain ⟨bal, _, _, _, exec, _, _, _⟩ := hloc
      have hex := exec hk
      constructor <;> simp_all [Item.pendingReport, Item.pcMax]
      · rcases hp with hp | hp <;> simp_all
      · rcases hp with hp | hp <;> simp_all
    · exact hi.loc j x h
  · intro a b
    have := hi.stop a b
    simp only [sumBy_set _ _ _ _ _ hit, e6]; omega
  · intro j x hx hkx hpx
    rcases getElem?_set_cases hx with ⟨_, rfl⟩ | ⟨_, h⟩
    · simp at hpx
    · exact hi.svc j x h hkx hpx

/-- The end of the wait of `stopAllTasks` records how it ended and what was fetched; nothing that the accounting
    invariant speaks about changes. -/
theorem inv_stopper {s : St} {i : Nat} {it : Item} {w : Option Bool} {ss : Bool} {pe : CtrlRet} (hi : Inv s)
    (hit : s.items[i]? = some it) :
    Inv { s with items := s.items.set i { it with waited := w, sawSent := ss, passErr := pe } } := by
  have hloc := hi.loc i it hit
  have e1 : Item.cw { it with waited := w, sawSent := ss, passErr := pe } = it.cw := rfl
  have e2 : Item.ct { it with waited := w, sawSent := ss, passErr := pe } = it.ct := rfl
  have e3 : Item.cm { it with waited := w, sawSent := ss, passErr := pe } = it.cm := rfl
  have e4 : Item.cg { it with waited := w, sawSent := ss, passErr := pe } = it.cg := rfl
  have e5 : Item.cc { it with waited := w, sawSent := ss, passErr := pe } = it.cc := rfl
  have e6 : Item.pendingCheck { it with waited := w, sawSent := ss, passErr := pe } = it.pendingCheck := rfl
  constructor
  · simp only [sumBy_set _ _ _ _ _ hit, e1]; have := hi.w; omega
  · simp only [sumBy_set _ _ _ _ _ hit, e2]; have := hi.t; omega
  · simp only [sumBy_set _ _ _ _ _ hit, e3]; have := hi.m; omega
  · simp only [sumBy_set _ _ _ _ _ hit, e4]; have := hi.g; omega
  · simp only [sumBy_set _ _ _ _ _ hit, e5]; have := hi.c; omega
  · have := sumNat_set Item.reps _ _ _ { it with waited := w, sawSent := ss, passErr := pe } hit
    have := hi.reps
    simp at *; omega
  · exact hi.cap
  · exact hi.feedPanic
  · intro j x hx
    rcases getElem?_set_cases hx with ⟨_, rfl⟩ | ⟨_, h⟩
    · exact ⟨hloc.bal, hloc.retW, hloc.retM, hloc.api, hloc.exec, hloc.cretC, hloc.cretS, hloc.bound⟩
    · exact hi.loc j x h
  · intro a b
    have := hi.stop a b
    simp only [sumBy_set _ _ _ _ _ hit, e6]; omega
  · intro j x hx hkx hpx
    rcases getElem?_set_cases hx with ⟨_, rfl⟩ | ⟨_, h⟩
    · exact hi.svc i it hit hkx hpx
    · exact hi.svc j x h hkx hpx

theorem set_getElem?_self {l : List Item} {a b : Item} {i : Nat} (h : l[i]? = some a) :
    (l.set i b)[i]? = some b := by
  have hlt : i < l.length := by
    rcases Nat.lt_or_ge i l.length with h' | h'
    · exact h'
    · rw [List.getElem?_eq_none h'] at h; simp at h
  rw [List.getElem?_set]; simp [hlt]

theorem inv_item {s : St} {i : Nat} {ch : Bool} {it it' : Item} {e : Eff} (hi : Inv s)
    (hit : s.items[i]? = some it) (hs : itemStep s.env it ch = some (it', e)) :
    Inv (s.apply i it' e) := by
  have hw : (s.apply i it' e).w = sumBy Item.cw (s.apply i it' e).items := by
    rw [apply_w, apply_items, sumBy_set _ _ _ _ _ hit, itemStep_cw hs]; have := hi.w; omega
  have ht : (s.apply i it' e).t = sumBy Item.ct (s.apply i it' e).items := by
    rw [apply_t, apply_items, sumBy_set _ _ _ _ _ hit, itemStep_ct hs]; have := hi.t; omega
  have hm : (s.apply i it' e).m = sumBy Item.cm (s.apply i it' e).items := by
    rw [apply_m, apply_items, sumBy_set _ _ _ _ _ hit, itemStep_cm hs]; have := hi.m; omega
  have hg : (s.apply i it' e).g = sumBy Item.cg (s.apply i it' e).items := by
    rw [apply_g, apply_items, sumBy_set _ _ _ _ _ hit, itemStep_cg hs]; have := hi.g; omega
  have hc : sumBy Item.cc (s.apply i it' e).items = (if (s.apply i it' e).c then 1 else 0) := by
    rw [apply_c, apply_items, sumBy_set _ _ _ _ _ hit]
    obtain ⟨c0, c1, c2⟩ := itemStep_cc hs
    have hle := le_sumBy Item.cc cc_nonneg _ _ _ hit
    have h0 := cc_nonneg it
    have hinv := hi.c
    have hfree : s.env.ctrlFree = true → sumBy Item.cc s.items = 0 := by
      intro h; simpa [St.env] using h
    cases hsc : e.setC with
    | none => have := c0 hsc; simp only []; rw [this]; split at hinv <;> simp_all <;> omega
    | some b =>
      cases b with
      | true =>
        obtain ⟨h1, h2⟩ := c1 hsc
        simp only [if_true]
        rcases h2 with h2 | h2
        · split at hinv <;> omega
        · have := hfree h2; omega
      | false =>
        obtain ⟨h1, h2⟩ := c2 hsc
        simp only [Bool.false_eq_true, if_false]
        rcases h2 with h2 | h2
        · split at hinv <;> omega
        · have := hfree h2; omega
  have hpend := itemStep_pending hs
  have hsetp : sumBy Item.pendingCheck (s.apply i it' e).items =
      sumBy Item.pendingCheck s.items - it.pendingCheck + it'.pendingCheck := by
    rw [apply_items, sumBy_set _ _ _ _ _ hit]
  constructor
  · exact hw
  · exact ht
  · exact hm
  · exact hg
  · exact hc
  · rw [apply_count, apply_items]
    have := sumNat_set Item.reps _ _ _ it' hit
    have := itemStep_reps hs
    have := hi.reps
    omega
  · exact apply_cap_inv _ _ _ _ hi.cap
  · intro r hr
    rcases apply_feed_mem _ _ _ _ _ hr with h | h
    · exact hi.feedPanic r h
    · exact itemStep_rep_panic hs r h
  · intro j x hx
    rw [apply_items] at hx
    rcases getElem?_set_cases hx with ⟨_, rfl⟩ | ⟨_, h⟩
    · exact itemStep_local hs (hi.loc i it hit)
    · exact hi.loc j x h
  · -- stop protocol
    intro hsf hsc
    rw [apply_stopFlag] at hsf
    rw [apply_stopCompleted] at hsc
    rw [hsetp]
    obtain ⟨p1, p2, p3⟩ := hpend
    cases hck : e.check with
    | true =>
      obtain ⟨q1, q2, q3, q4, q5, q6⟩ := p1 hck
      obtain ⟨r1, r2, r3, r4, r5, r6, r7, r8, r9⟩ := itemStep_check_only hs hck
      simp [hck, r1, r2, r4, r6, r7, r8] at hsc hsf
      -- the check found something still accounted: that item has its own check to come
      have hw' := hw; have ht' := ht; have hm' := hm; have hc' := hc
      rw [apply_w, apply_items, r6] at hw'
      rw [apply_t, apply_items, r7] at ht'
      rw [apply_m, apply_items, r8] at hm'
      rw [apply_c, apply_items, r4] at hc'
      simp only [] at hc'
      have lw := sumBy_le Item.cw Item.pendingCheck cw_le_pending (s.items.set i it')
      have lt := sumBy_le Item.ct Item.pendingCheck ct_le_pending (s.items.set i it')
      have lm := sumBy_le Item.cm Item.pendingCheck cm_le_pending (s.items.set i it')
      have lc := sumBy_le Item.cc Item.pendingCheck cc_le_pending (s.items.set i it')
      have nw := sumBy_nonneg Item.cw cw_nonneg (s.items.set i it')
      have nt := sumBy_nonneg Item.ct ct_nonneg (s.items.set i it')
      have nm := sumBy_nonneg Item.cm cm_nonneg (s.items.set i it')
      have hset : sumBy Item.pendingCheck (s.items.set i it') =
          sumBy Item.pendingCheck s.items - it.pendingCheck + it'.pendingCheck := by
        rw [sumBy_set _ _ _ _ _ hit]
      obtain ⟨hsc1, hsc2⟩ := hsc
      have hcond := hsc2 hsf
      by_cases hcc : s.c = true
      · simp [hcc] at hc'; omega
      · simp [hcc] at hcond hc'
        by_cases hw0 : s.w = 0
        · by_cases ht0 : s.t = 0
          · have := hcond hw0 ht0; omega
          · omega
        · omega
    | false =>
      have hge := p2 hck
      simp [hck] at hsc
      by_cases hfl : e.setStop = true ∨ e.clrCompleted = true
      · have h1 := p3 hfl
        have hle := le_sumBy Item.pendingCheck pendingCheck_nonneg _ _ _ (set_getElem?_self (b := it') hit)
        rw [sumBy_set _ _ _ _ _ hit] at hle
        omega
      · simp at hfl
        simp [hfl.1, hfl.2] at hsf hsc
        have := hi.stop hsf hsc
        omega
  · intro j x hx hk hp
    rw [apply_items] at hx
    rw [apply_stopFlag, apply_ctxDone]
    rcases getElem?_set_cases hx with ⟨_, rfl⟩ | ⟨_, h⟩
    · have hk' : it.kind = .svc := by rw [← itemStep_kind hs]; exact hk
      have := itemStep_svc hs hk' (by
        intro h5
        have := hi.svc i it hit hk' h5
        simpa [St.env] using this) hp
      simp [St.env] at this
      rcases this with h | h | h
      · simp [h]
      · simp [h]
      · simp [h]
    · rcases hi.svc j x h hk hp with h | h | h
      · simp [h]
      · simp [h]
      · simp [h]

theorem inv_recv_take {s : St} (hi : Inv s) (h : s.taken < s.feed.length) : Inv { s with taken := s.taken + 1 } := by
  obtain ⟨h1, h2, h3, h4⟩ := hi.cap
  exact ⟨hi.w, hi.t, hi.m, hi.g, hi.c, hi.reps,
    ⟨by simp only []; omega, by simp only []; omega, by simp only []; intro hw; have := h3 hw; omega, h4⟩,
    hi.feedPanic, hi.loc, hi.stop, hi.svc⟩

theorem inv_recv_park {s : St} (hi : Inv s) (h : ¬ s.taken < s.feed.length) : Inv { s with waiting := s.waiting + 1 } := by
  obtain ⟨h1, h2, h3, h4⟩ := hi.cap
  exact ⟨hi.w, hi.t, hi.m, hi.g, hi.c, hi.reps,
    ⟨h1, h2, by simp only []; intro _; omega, h4⟩,
    hi.feedPanic, hi.loc, hi.stop, hi.svc⟩

theorem step_inv {s s' : St} {a : Act} (hi : Inv s) (h : step s a = some s') : Inv s' := by
  cases a with
  | item i ch =>
    simp only [step] at h
    split at h
    · cases h
    · rename_i it hit
      split at h
      · cases h
      · rename_i it' e hs
        split at h
        · cases h
        · cases h
          exact inv_item hi hit hs
  | recv =>
    simp only [step] at h
    split at h
    · cases h
    · split at h
      · cases h; exact inv_recv_take hi (by assumption)
      · cases h; exact inv_recv_park hi (by assumption)
  | spawn it =>
    simp only [step] at h
    split at h
    · rename_i hf; cases h; exact inv_spawn hi hf
    · cases h
  | queue i outs =>
    simp only [step] at h
    split at h
    · cases h
    · rename_i it hit
      split at h
      · rename_i hc; cases h; exact inv_queue hi hit hc.1 hc.2
      · cases h
  | stopper i timeout =>
    simp only [step] at h
    split at h
    · cases h
    · rename_i it hit
      split at h
      · cases h; exact inv_stopper hi hit
      · cases h

theorem run_inv {as : List Act} : ∀ {s s' : St}, Inv s → run s as = some s' → Inv s' := by
  induction as with
  | nil => intro s s' hi h; simp [run] at h; subst h; exact hi
  | cons a as ih =>
    intro s s' hi h
    simp only [run] at h
    split at h
    · cases h
    · rename_i s1 hs1; exact ih (step_inv hi hs1) h

/-- A module with nothing running; `set`: an error reporting channel has been set, `cap`: its capacity. -/
def St.init' (set : Bool) (cap : Nat) : St := { chanSet := set, cap := cap }

/-- … with an error channel of capacity `cap`. -/
def St.init (cap : Nat) : St := St.init' true cap

theorem init_inv (set : Bool) (cap : Nat) : Inv (St.init' set cap) := by
  constructor <;> simp [St.init', sumBy, sumNat, St.ChanInv]

/-- States reachable from an idle module — with no error channel, or one of any capacity — by any interleaving
    of any managed executions and any behaviour of the channel's consumer. -/
def Reachable (s : St) : Prop := ∃ set cap as, run (St.init' set cap) as = some s

theorem reachable_inv {s : St} (h : Reachable s) : Inv s := by
  obtain ⟨set, cap, as, h⟩ := h
  exact run_inv (init_inv set cap) h

theorem run_chanSet {as : List Act} : ∀ {s s' : St}, run s as = some s' → s'.chanSet = s.chanSet ∧ s'.cap = s.cap := by
  induction as with
  | nil => intro s s' h; simp [run] at h; subst h; exact ⟨rfl, rfl⟩
  | cons a as ih =>
    intro s s' h
    simp only [run] at h
    split at h
    · cases h
    · rename_i s1 hs1
      have h1 := ih h
      suffices s1.chanSet = s.chanSet ∧ s1.cap = s.cap by rw [h1.1, h1.2]; exact this
      cases a with
      | item i ch =>
        simp only [step] at hs1
        (repeat' split at hs1) <;> cases hs1
        exact ⟨apply_chanSet _ _ _ _, apply_cap _ _ _ _⟩
      | recv => simp only [step] at hs1; (repeat' split at hs1) <;> cases hs1 <;> exact ⟨rfl, rfl⟩
      | spawn it => simp only [step] at hs1; (repeat' split at hs1) <;> cases hs1; exact ⟨rfl, rfl⟩
      | queue i outs => simp only [step] at hs1; (repeat' split at hs1) <;> cases hs1; exact ⟨rfl, rfl⟩
      | stopper i timeout => simp only [step] at hs1; (repeat' split at hs1) <;> cases hs1; exact ⟨rfl, rfl⟩

theorem allDone_iff (s : St) : s.allDone = true ↔ ∀ it ∈ s.items, it.done = true := by
  simp [St.allDone]

theorem mem_of_getElem? {l : List Item} {i : Nat} {a : Item} (h : l[i]? = some a) : a ∈ l :=
  List.mem_of_getElem? h

theorem sumNat_congr (f g : Item → Nat) (l : List Item) (h : ∀ a ∈ l, f a = g a) : sumNat f l = sumNat g l := by
  induction l with
  | nil => simp [sumNat]
  | cons a l ih =>
    have h1 := h a (by simp)
    have h2 := ih (fun b hb => h b (by simp [hb]))
    simp [sumNat, h1, h2]

theorem done_pendingReport (it : Item) (h : it.done = true) : it.pendingReport = 0 := by
  unfold Item.done at h
  unfold Item.pendingReport
  cases hk : it.kind <;> simp [hk] at h ⊢ <;> omega

theorem inv_loc_mem {s : St} (hi : Inv s) {it : Item} (h : it ∈ s.items) : it.Local := by
  obtain ⟨i, hi'⟩ := List.getElem?_of_mem h
  exact hi.loc i it hi'

/-! ### the service-worker loop, seen from the item (timer choice only) -/

/-- `n` steps of an item on its own, ignoring their effects on the shared state (timer choice). -/
def itemIter (env : Env) : Nat → Item → Option Item
  | 0, it => some it
  | n + 1, it => match itemStep env it false with
    | some (it', _) => itemIter env n it'
    | none => none

theorem svc_restart_path (env : Env) (it : Item) (hk : it.kind = .svc) (hp : it.pc = 3)
    (hr : it.cur.restarts = true) (hs : env.stopFlag = false) :
    ∃ n it', n ≤ 3 ∧ itemIter env n it = some it' ∧ it'.kind = .svc ∧ it'.pc = 2 ∧ it'.cw = 1 ∧
      it'.outs = it.outs ∧ it'.runs = it.runs := by
  cases hc : it.cur with
  | ok => simp [hc, Outcome.restarts, recoverRet, recovered_ne_nil, svcDecide_nil, svcDecide_err, svcDecide_canceled, svcDecide_restart, svcDecide_panicErr] at hr
  | canceled => simp [hc, Outcome.restarts, recoverRet, recovered_ne_nil, svcDecide_nil, svcDecide_err, svcDecide_canceled, svcDecide_restart, svcDecide_panicErr] at hr
  | restart =>
    refine ⟨2, { it with pc := 2, ret := some .restart }, by omega, ?_, ?_⟩
    · simp [itemIter, itemStep, svcStep, hk, hp, hc, recoverRet, svcDecide_nil, svcDecide_err, svcDecide_canceled, svcDecide_restart, svcDecide_panicErr, hs]
    · simp [hk, Item.cw]
  | err =>
    refine ⟨3, { it with pc := 2, ret := some .err, failCnt := it.failCnt + 1 }, by omega, ?_, ?_⟩
    · simp [itemIter, itemStep, svcStep, hk, hp, hc, recoverRet, svcDecide_nil, svcDecide_err, svcDecide_canceled, svcDecide_restart, svcDecide_panicErr, hs]
    · simp [hk, Item.cw]
  | panic v =>
    refine ⟨3, { it with pc := 2, ret := some (.panicErr (panicReport .worker v)), reps := it.reps + 1, failCnt := it.failCnt + 1 }, by omega, ?_, ?_⟩
    · simp [itemIter, itemStep, svcStep, hk, hp, hc, recoverRet, svcDecide_nil, svcDecide_err, svcDecide_canceled, svcDecide_restart, svcDecide_panicErr, recovered_ne_nil, hs]
    · simp [hk, Item.cw]

/-- Number of runs of a service worker whose function produces the outcomes `os` (then nil), module not stopping. -/
def svcRuns : List Outcome → Nat
  | [] => 1
  | o :: r => if o.restarts then 1 + svcRuns r else 1

theorem itemIter_succ (env : Env) (n : Nat) (it it1 : Item) (e : Eff)
    (h : itemStep env it false = some (it1, e)) : itemIter env (n + 1) it = itemIter env n it1 := by
  simp [itemIter, h]

/-- From the loop head, a service worker that is never told to stop runs its function once per outcome up to
    and including the first nil / context.Canceled, then leaves. -/
theorem svc_loop_runs (env : Env) (hs : env.stopFlag = false) : ∀ (os : List Outcome) (it : Item),
    it.kind = .svc → it.pc = 1 → it.outs = os →
    ∃ n it', itemIter env n it = some it' ∧ it'.kind = .svc ∧ it'.pc = 7 ∧ it'.runs = it.runs + svcRuns os := by
  intro os
  induction os with
  | nil =>
    intro it hk hp ho
    refine ⟨5, { it with pc := 7, cur := .ok, runs := it.runs + 1, ret := some .nil }, ?_, by simp [hk], rfl, by simp [svcRuns]⟩
    simp [itemIter, itemStep, svcStep, hk, hp, hs, Item.take, ho, recoverRet, svcDecide_nil, svcDecide_err, svcDecide_canceled, svcDecide_restart, svcDecide_panicErr]
  | cons o r ih =>
    intro it hk hp ho
    -- the state after the run with outcome o, at the recover block
    have base : ∀ n, itemIter env (n + 2) it =
        itemIter env n { it with pc := 3, cur := o, outs := r, runs := it.runs + 1, pans := it.pans + (if o.isPanic then 1 else 0) } := by
      intro n
      simp [itemIter, itemStep, svcStep, hk, hp, hs, Item.take, ho]
    cases o with
    | ok =>
      refine ⟨5, { it with pc := 7, cur := .ok, outs := r, runs := it.runs + 1, pans := it.pans + 0, ret := some .nil }, ?_, by simp [hk], rfl, by simp [svcRuns, Outcome.restarts, recoverRet, recovered_ne_nil, svcDecide_nil, svcDecide_err, svcDecide_canceled, svcDecide_restart, svcDecide_panicErr]⟩
      rw [base 3]
      simp [itemIter, itemStep, svcStep, hk, recoverRet, svcDecide_nil, svcDecide_err, svcDecide_canceled, svcDecide_restart, svcDecide_panicErr, Outcome.isPanic]
    | canceled =>
      refine ⟨5, { it with pc := 7, cur := .canceled, outs := r, runs := it.runs + 1, pans := it.pans + 0, ret := some .canceled }, ?_, by simp [hk], rfl, by simp [svcRuns, Outcome.restarts, recoverRet, recovered_ne_nil, svcDecide_nil, svcDecide_err, svcDecide_canceled, svcDecide_restart, svcDecide_panicErr]⟩
      rw [base 3]
      simp [itemIter, itemStep, svcStep, hk, recoverRet, svcDecide_nil, svcDecide_err, svcDecide_canceled, svcDecide_restart, svcDecide_panicErr, Outcome.isPanic]
    | restart =>
      let it1 : Item := { it with pc := 1, cur := .restart, outs := r, runs := it.runs + 1, pans := it.pans + 0, ret := some .restart }
      obtain ⟨n, it', h1, h2, h3, h4⟩ := ih it1 (by simp [it1, hk]) rfl rfl
      refine ⟨n + 1 + 2, it', ?_, h2, h3, by simp [h4, it1, svcRuns, Outcome.restarts, recoverRet, recovered_ne_nil, svcDecide_nil, svcDecide_err, svcDecide_canceled, svcDecide_restart, svcDecide_panicErr]; omega⟩
      rw [base (n + 1)]
      rw [itemIter_succ env n _ it1 {} (by simp [itemStep, svcStep, hk, recoverRet, svcDecide_nil, svcDecide_err, svcDecide_canceled, svcDecide_restart, svcDecide_panicErr, Outcome.isPanic, it1])]
      exact h1
    | err =>
      let it1 : Item := { it with pc := 1, cur := .err, outs := r, runs := it.runs + 1, pans := it.pans + 0, ret := some .err, failCnt := it.failCnt + 1 }
      obtain ⟨n, it', h1, h2, h3, h4⟩ := ih it1 (by simp [it1, hk]) rfl rfl
      refine ⟨n + 2 + 2, it', ?_, h2, h3, by simp [h4, it1, svcRuns, Outcome.restarts, recoverRet, recovered_ne_nil, svcDecide_nil, svcDecide_err, svcDecide_canceled, svcDecide_restart, svcDecide_panicErr]; omega⟩
      rw [base (n + 2)]
      rw [itemIter_succ env (n + 1) _ { it1 with pc := 4 } {} (by simp [itemStep, svcStep, hk, recoverRet, svcDecide_nil, svcDecide_err, svcDecide_canceled, svcDecide_restart, svcDecide_panicErr, Outcome.isPanic, it1])]
      rw [itemIter_succ env n _ it1 {} (by simp [itemStep, svcStep, hk, it1])]
      exact h1
    | panic v =>
      let it1 : Item := { it with pc := 1, cur := .panic v, outs := r, runs := it.runs + 1, pans := it.pans + 1, ret := some (.panicErr (panicReport .worker v)), reps := it.reps + 1, failCnt := it.failCnt + 1 }
      obtain ⟨n, it', h1, h2, h3, h4⟩ := ih it1 (by simp [it1, hk]) rfl rfl
      refine ⟨n + 2 + 2, it', ?_, h2, h3, by simp [h4, it1, svcRuns, Outcome.restarts, recoverRet, recovered_ne_nil, svcDecide_nil, svcDecide_err, svcDecide_canceled, svcDecide_restart, svcDecide_panicErr]; omega⟩
      rw [base (n + 2)]
      rw [itemIter_succ env (n + 1) _ { it1 with pc := 4 } { rep := some (panicReport .worker v) } (by simp [itemStep, svcStep, hk, recoverRet, svcDecide_nil, svcDecide_err, svcDecide_canceled, svcDecide_restart, svcDecide_panicErr, recovered_ne_nil, Outcome.isPanic, it1])]
      rw [itemIter_succ env n _ it1 {} (by simp [itemStep, svcStep, hk, it1])]
      exact h1

/-! ### lifecycle passes -/

theorem passFirstErr_of_mem {rs : List CtrlRet} {r : CtrlRet} (hm : r ∈ rs) (he : r.isErr = true) :
    (passFirstErr rs).isSome = true := by
  induction rs with
  | nil => simp at hm
  | cons x xs ih =>
    simp only [passFirstErr]
    split
    · rfl
    · rcases List.mem_cons.mp hm with h | h
      · subst h; simp_all
      · exact ih h

theorem passLastErr_of_mem {rs : List CtrlRet} {r : CtrlRet} (hm : r ∈ rs) (he : r.isErr = true) :
    (passLastErr rs).isSome = true := by
  induction rs with
  | nil => simp at hm
  | cons x xs ih =>
    simp only [passLastErr]
    rcases List.mem_cons.mp hm with h | h
    · subst h
      split
      · rfl
      · simp [he]
    · have := ih h
      split
      · rfl
      · rename_i hn; simp [hn] at this

theorem runCtrl_panic (k : Kind) (hk : k = .ctrl ∨ k = .stop) (v : PCls) :
    runCtrl k (some (.panic v)) = (.panicMsg, [panicReport .ctrl v]) := by
  rcases hk with rfl | rfl <;> cases v <;> rfl

end PB.Managed
