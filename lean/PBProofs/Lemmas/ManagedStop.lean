import PBProofs.Lemmas.ManagedInv
/-! The wait of `stopAllTasks` and the fetch of the stop routine's result: invariant of the stop items. -/
namespace PB.Managed

/-- both receives of the stop routine's result in `stopAllTasks` assign to the function's own `err`
    (regenerated from the source; with `:=` at a site this is false and the lemmas below do not build) -/
theorem fetchAssigns_completed : fetchAssigns "completed" = true := by decide
theorem fetchAssigns_timeout : fetchAssigns "timeout" = true := by decide

theorem stopErr_sent (timeout : Bool) (r : CtrlRet) : stopErr timeout true (some r) = r := by
  cases timeout <;> simp [stopErr, fetchAssigns_completed, fetchAssigns_timeout]

theorem stopErr_timeout_unsent (c : Option CtrlRet) : stopErr true false c = .nil := by
  simp [stopErr]

@[simp] theorem take_sent (it : Item) : it.take.sent = it.sent := by unfold Item.take; split <;> rfl
@[simp] theorem take_waited (it : Item) : it.take.waited = it.waited := by unfold Item.take; split <;> rfl
@[simp] theorem take_sawSent (it : Item) : it.take.sawSent = it.sawSent := by unfold Item.take; split <;> rfl
@[simp] theorem take_passErr (it : Item) : it.take.passErr = it.passErr := by unfold Item.take; split <;> rfl

/-- What a stop item has recorded about its stopper. -/
structure Item.StopLocal (it : Item) : Prop where
  /-- the stop routine's result is on the channel only when the routine's goroutine has run to its end -/
  sentS : it.kind = .stop → it.sent = true → it.pc = 9
  /-- a stopper that has left its wait: what it fetched is what the two selects make of the state of the channel at
      that moment; after completion the result had been sent -/
  pass : ∀ w, it.waited = some w → it.passErr = stopErr w it.sawSent it.cret ∧ (it.sawSent = true → it.sent = true) ∧
    (w = false → it.sawSent = true)

theorem fresh_stopLocal (it : Item) (h : it.fresh = true) : it.StopLocal := by
  simp [Item.fresh] at h
  constructor
  · intro _ hs; simp_all
  · intro w hw; simp_all

theorem itemStep_sentS {env : Env} {it it' : Item} {ch : Bool} {e : Eff}
    (h : itemStep env it ch = some (it', e)) (hl : it.kind = .stop → it.sent = true → it.pc = 9) :
    it'.kind = .stop → it'.sent = true → it'.pc = 9 := by
  item_cases h
  all_goals (cases h)
  all_goals (simp_all)

theorem itemStep_waited {env : Env} {it it' : Item} {ch : Bool} {e : Eff}
    (h : itemStep env it ch = some (it', e)) :
    it'.waited = it.waited ∧ it'.sawSent = it.sawSent ∧ it'.passErr = it.passErr ∧ (it.sent = true → it'.sent = true) := by
  item_cases h
  all_goals (cases h)
  all_goals (simp_all)

/-- an item whose result has been sent takes no further step that changes the result -/
theorem itemStep_cret_after_sent {env : Env} {it it' : Item} {ch : Bool} {e : Eff}
    (h : itemStep env it ch = some (it', e)) (hk : it.kind = .stop) (hp : it.pc = 9) : False := by
  unfold itemStep stopStep at h
  simp [hk, hp] at h

theorem itemStep_stopLocal {env : Env} {it it' : Item} {ch : Bool} {e : Eff}
    (h : itemStep env it ch = some (it', e)) (hl : it.StopLocal) (hw : ∀ w, it.waited = some w → it.kind = .stop) :
    it'.StopLocal := by
  obtain ⟨h1, h2, h3, h4⟩ := itemStep_waited h
  refine ⟨itemStep_sentS h hl.sentS, ?_⟩
  intro w hw'
  rw [h1] at hw'
  obtain ⟨p1, p2, p3⟩ := hl.pass w hw'
  have hk := hw w hw'
  by_cases hs : it.sawSent = true
  · -- the result had been sent: the item is at the end of its program
    exact (itemStep_cret_after_sent h hk (hl.sentS hk (p2 hs))).elim
  · have hs' : it.sawSent = false := by simpa using hs
    have hwt : w = true := by
      cases w
      · exact absurd (p3 rfl) hs
      · rfl
    subst hwt
    refine ⟨?_, ?_, ?_⟩
    · rw [h3, h2, hs', stopErr_timeout_unsent, p1, hs', stopErr_timeout_unsent]
    · intro hh; rw [h2, hs'] at hh; cases hh
    · intro hh; cases hh

/-- invariant: every item satisfies `StopLocal`, and only stop items have a stopper -/
structure StopInv (s : St) : Prop where
  loc : ∀ (i : Nat) (it : Item), s.items[i]? = some it → it.StopLocal
  kind : ∀ (i : Nat) (it : Item), s.items[i]? = some it → ∀ w, it.waited = some w → it.kind = .stop

theorem apply_items' (s : St) (i : Nat) (it' : Item) (e : Eff) : (s.apply i it' e).items = s.items.set i it' :=
  apply_items s i it' e

theorem stopInv_step {s s' : St} {a : Act} (hi : StopInv s) (h : step s a = some s') : StopInv s' := by
  cases a with
  | item i ch =>
    simp only [step] at h
    split at h
    · cases h
    · rename_i it hit
      split at h
      · cases h
      · rename_i it' e hs
        split at h
        · cases h
        · cases h
          have hk' := itemStep_kind hs
          have hw' := itemStep_waited hs
          constructor
          · intro j x hx
            rw [apply_items'] at hx
            rcases getElem?_set_cases hx with ⟨_, rfl⟩ | ⟨_, hx'⟩
            · exact itemStep_stopLocal hs (hi.loc i it hit) (hi.kind i it hit)
            · exact hi.loc j x hx'
          · intro j x hx w hw
            rw [apply_items'] at hx
            rcases getElem?_set_cases hx with ⟨_, rfl⟩ | ⟨_, hx'⟩
            · rw [hk']; exact hi.kind i it hit w (by rw [← hw'.1]; exact hw)
            · exact hi.kind j x hx' w hw
  | recv =>
    simp only [step] at h
    (repeat' split at h) <;> cases h <;> exact ⟨hi.loc, hi.kind⟩
  | spawn it =>
    simp only [step] at h
    split at h
    · rename_i hf
      cases h
      constructor
      · intro j x hx
        rcases getElem?_append_singleton hx with hx' | rfl
        · exact hi.loc j x hx'
        · exact fresh_stopLocal _ hf
      · intro j x hx w hw
        rcases getElem?_append_singleton hx with hx' | rfl
        · exact hi.kind j x hx' w hw
        · simp [Item.fresh] at hf; simp_all
    · cases h
  | queue i outs =>
    simp only [step] at h
    split at h
    · cases h
    · rename_i it hit
      split at h
      · rename_i hc
        cases h
        have hl := hi.loc i it hit
        constructor
        · intro j x hx
          rcases getElem?_set_cases hx with ⟨_, rfl⟩ | ⟨_, hx'⟩
          · exact ⟨by intro hk; simp [hc.1] at hk, hl.pass⟩
          · exact hi.loc j x hx'
        · intro j x hx w hw
          rcases getElem?_set_cases hx with ⟨_, rfl⟩ | ⟨_, hx'⟩
          · exact hi.kind i it hit w hw
          · exact hi.kind j x hx' w hw
      · cases h
  | stopper i timeout =>
    simp only [step] at h
    split at h
    · cases h
    · rename_i it hit
      split at h
      · rename_i hg
        cases h
        have hl := hi.loc i it hit
        have hkind : it.kind = .stop := by
          have := hg.1
          simp [Item.stopperWaiting] at this
          exact this.1.1
        constructor
        · intro j x hx
          rcases getElem?_set_cases hx with ⟨_, rfl⟩ | ⟨_, hx'⟩
          · refine ⟨hl.sentS, ?_⟩
            intro w hw
            simp only [Option.some.injEq] at hw
            subst hw
            refine ⟨rfl, fun hh => hh, ?_⟩
            intro hf
            rcases hg.2 with ht | ht
            · rw [hf] at ht; cases ht
            · exact ht.2
          · exact hi.loc j x hx'
        · intro j x hx w hw
          rcases getElem?_set_cases hx with ⟨_, rfl⟩ | ⟨_, hx'⟩
          · exact hkind
          · exact hi.kind j x hx' w hw
      · cases h

theorem stopInv_run {as : List Act} : ∀ {s s' : St}, StopInv s → run s as = some s' → StopInv s' := by
  induction as with
  | nil => intro s s' hi h; simp [run] at h; subst h; exact hi
  | cons a as ih =>
    intro s s' hi h
    simp only [run] at h
    split at h
    · cases h
    · rename_i s1 hs1; exact ih (stopInv_step hi hs1) h

theorem reachable_stopInv {s : St} (h : Reachable s) : StopInv s := by
  obtain ⟨set, cap, as, h⟩ := h
  exact stopInv_run ⟨by intro i it hit; simp [St.init'] at hit, by intro i it hit; simp [St.init'] at hit⟩ h

/-- `runStop` for a panicking stop routine, by completion and by timeout alike -/
theorem runStop_panic (v : PCls) (linger : Bool) :
    runStop (some (.panic v)) linger = (.panicMsg, [panicReport .ctrl v]) := by
  cases linger <;> cases v <;> rfl

theorem runStop_err (linger : Bool) : runStop (some .err) linger = (.err, []) := by
  cases linger <;> rfl

end PB.Managed
