import PB.Model.StopProto
/-! Inductive invariant of the stop protocol model and its preservation, one lemma per action. -/
namespace PB.StopProto
open PB.Gen.StopProto

/-- The invariant (all conjuncts hold in every reachable state, for any number of cycles). -/
def Inv (s : St) : Prop :=
  -- ranges
  s.spc ≤ 8 ∧ s.fnpc ≤ 3 ∧ s.flag ≤ 1 ∧ s.ctrl ≤ 1 ∧ s.ctx ≤ 1 ∧ s.completed ≤ 1 ∧ s.closed ≤ 1 ∧ s.tmo ≤ 1 ∧
  -- the module lock as used by the check: held by exactly the goroutine inside the locked section
  s.lk = s.k1 + s.k2 + s.k3 + s.k4 + s.k5 + s.k6 + s.k7 + s.kd ∧ s.lk ≤ 1 ∧
  -- status vs. stopper pc
  (1 ≤ s.spc → s.spc ≤ 6 → s.status = statusStopping) ∧
  (7 ≤ s.spc → s.status = statusOffline) ∧
  (s.spc = 0 → s.status = statusDead ∨ s.status = statusPreparing ∨ s.status = statusOffline ∨
      s.status = statusStarting ∨ s.status = statusOnline) ∧
  -- the stop flag is set exactly from the stopper's flag.Set until the restart
  (3 ≤ s.spc → s.flag = 1) ∧ (s.spc ≤ 2 → s.flag = 0) ∧
  -- the context is cancelled from the stopper's cancel until the restart
  (4 ≤ s.spc → s.ctx = 1) ∧
  -- … and live otherwise: nothing but the stopper's cancel (and the `start()` that replaces it) cancels `m.Ctx`
  (s.spc ≤ 3 → s.ctx = 0) ∧
  -- single close
  s.k7 + s.closed ≤ 1 ∧ (s.completed = 0 → s.k7 = 0 ∧ s.closed = 0) ∧ s.dbl = 0 ∧
  -- a control function goroutine is alive only while starting or after the stopper started the stop routine
  (s.fnpc = 1 ∨ s.fnpc = 2 → s.status = statusStarting ∨ s.status = statusPreparing ∨ 5 ≤ s.spc) ∧
  -- the control flag during the stopper's prefix
  (1 ≤ s.spc → s.spc ≤ 4 → s.fnpc = 0 ∨ s.fnpc = 3) ∧
  (2 ≤ s.spc → s.spc ≤ 4 → s.ctrl = 1) ∧
  (5 ≤ s.spc → 1 ≤ s.fnpc ∧ (s.fnpc ≤ 2 → s.ctrl = 1) ∧ (s.fnpc = 3 → s.ctrl = 0)) ∧
  -- what each read of the check in progress established stays true
  (0 < s.k2 + s.k3 + s.k4 + s.k5 + s.k6 + s.k7 → 3 ≤ s.spc) ∧
  (0 < s.k3 + s.k4 + s.k5 + s.k6 + s.k7 → 5 ≤ s.spc ∧ s.fnpc = 3) ∧
  (0 < s.k4 + s.k5 + s.k6 + s.k7 → s.aW = 0) ∧
  (0 < s.k5 + s.k6 + s.k7 → s.aT = 0) ∧
  (0 < s.k6 + s.k7 → s.aM = 0) ∧
  (1 ≤ s.spc → s.completed = 1 → 5 ≤ s.spc ∧ s.fnpc = 3 ∧ s.aW = 0 ∧ s.aT = 0 ∧ s.aM = 0) ∧
  -- without timeout the stopper got past its wait only through the closed channel
  (s.tmo = 0 → 6 ≤ s.spc → s.closed = 1) ∧
  -- no lost completion
  (5 ≤ s.spc → s.fnpc = 3 → s.aW + s.bW = 0 → s.aT + s.bT = 0 → s.aM + s.bM = 0 → s.completed = 0 →
      1 ≤ s.k0 + s.kf + s.k1 + s.k2 + s.k3 + s.k4 + s.k5 + s.k6) ∧
  (1 ≤ s.spc → s.completed = 1 → s.k7 = 1 ∨ s.closed = 1)

theorem inv_init : Inv init := by
  unfold Inv init; simp

macro "inv_step" hs:ident : tactic =>
  `(tactic| (unfold Inv at *
             simp only [step] at $hs:ident
             try simp only [startCtx, startOps, List.foldl, applyStartOp, Nat.succ_ne_zero, if_false] at $hs:ident
             (repeat' split at $hs:ident) <;> cases $hs:ident <;>
               (try dsimp only) <;> and_intros <;> grind (splits := 14)))

theorem inv_prepBegin {s s'} (h : Inv s) (hs : step s .prepBegin = some s') : Inv s' := by inv_step hs
theorem inv_prepDone {s s'} (h : Inv s) (hs : step s .prepDone = some s') : Inv s' := by inv_step hs
theorem inv_startFail {s s'} (h : Inv s) (hs : step s .startFail = some s') : Inv s' := by inv_step hs
theorem inv_startBegin {s s'} (h : Inv s) (hs : step s .startBegin = some s') : Inv s' := by inv_step hs
theorem inv_ctrlSet {s s'} (h : Inv s) (hs : step s .ctrlSet = some s') : Inv s' := by inv_step hs
theorem inv_ctrlUnsetNil {s s'} (h : Inv s) (hs : step s .ctrlUnsetNil = some s') : Inv s' := by inv_step hs
theorem inv_fnEnter {s s' c} (h : Inv s) (hs : step s (.fnEnter c) = some s') : Inv s' := by inv_step hs
theorem inv_fnExit {s s'} (h : Inv s) (hs : step s .fnExit = some s') : Inv s' := by inv_step hs
theorem inv_ctrlUnset {s s'} (h : Inv s) (hs : step s .ctrlUnset = some s') : Inv s' := by inv_step hs
theorem inv_online {s s'} (h : Inv s) (hs : step s .online = some s') : Inv s' := by inv_step hs
theorem inv_stopBegin {s s'} (h : Inv s) (hs : step s .stopBegin = some s') : Inv s' := by inv_step hs
theorem inv_sCtrl {s s'} (h : Inv s) (hs : step s .sCtrl = some s') : Inv s' := by inv_step hs
theorem inv_sFlag {s s'} (h : Inv s) (hs : step s .sFlag = some s') : Inv s' := by inv_step hs
theorem inv_sCancel {s s'} (h : Inv s) (hs : step s .sCancel = some s') : Inv s' := by inv_step hs
theorem inv_sWake {s s'} (h : Inv s) (hs : step s .sWake = some s') : Inv s' := by inv_step hs
theorem inv_sTimeout {s s'} (h : Inv s) (hs : step s .sTimeout = some s') : Inv s' := by inv_step hs
theorem inv_sOffline {s s'} (h : Inv s) (hs : step s .sOffline = some s') : Inv s' := by inv_step hs
theorem inv_sReport {s s'} (h : Inv s) (hs : step s .sReport = some s') : Inv s' := by inv_step hs
theorem inv_inc {s s' k} (h : Inv s) (hs : step s (.inc k) = some s') : Inv s' := by
  cases k <;> inv_step hs
theorem inv_workEnter {s s' g c} (h : Inv s) (hs : step s (.workEnter g c) = some s') : Inv s' := by inv_step hs
theorem inv_ctxObs {s s' g c} (h : Inv s) (hs : step s (.ctxObs g c) = some s') : Inv s' := by inv_step hs
theorem inv_gate {s s' c} (h : Inv s) (hs : step s (.gate c) = some s') : Inv s' := by inv_step hs
theorem inv_dec {s s' k o} (h : Inv s) (hs : step s (.dec k o) = some s') : Inv s' := by
  cases k <;> cases o <;> inv_step hs
theorem inv_cFast {s s' o} (h : Inv s) (hs : step s (.cFast o) = some s') : Inv s' := by
  cases o <;> inv_step hs
theorem inv_cLock {s s'} (h : Inv s) (hs : step s .cLock = some s') : Inv s' := by inv_step hs
theorem inv_cFlag {s s' o} (h : Inv s) (hs : step s (.cFlag o) = some s') : Inv s' := by
  cases o <;> inv_step hs
theorem inv_cCtrl {s s' o} (h : Inv s) (hs : step s (.cCtrl o) = some s') : Inv s' := by
  cases o <;> inv_step hs
theorem inv_cW {s s' o} (h : Inv s) (hs : step s (.cW o) = some s') : Inv s' := by
  cases o <;> inv_step hs
theorem inv_cT {s s' o} (h : Inv s) (hs : step s (.cT o) = some s') : Inv s' := by
  cases o <;> inv_step hs
theorem inv_cM {s s' o} (h : Inv s) (hs : step s (.cM o) = some s') : Inv s' := by
  cases o <;> inv_step hs
theorem inv_cCas {s s' o} (h : Inv s) (hs : step s (.cCas o) = some s') : Inv s' := by
  cases o <;> inv_step hs
theorem inv_cClose {s s'} (h : Inv s) (hs : step s .cClose = some s') : Inv s' := by inv_step hs
theorem inv_cUnlock {s s'} (h : Inv s) (hs : step s .cUnlock = some s') : Inv s' := by inv_step hs
theorem inv_swReturn {s s'} (h : Inv s) (hs : step s .swReturn = some s') : Inv s' := by inv_step hs
theorem inv_swRerun {s s'} (h : Inv s) (hs : step s .swRerun = some s') : Inv s' := by inv_step hs
theorem inv_swExit {s s' o} (h : Inv s) (hs : step s (.swExit o) = some s') : Inv s' := by
  cases o <;> inv_step hs
theorem inv_swBackoff {s s' o} (h : Inv s) (hs : step s (.swBackoff o) = some s') : Inv s' := by
  cases o <;> inv_step hs
theorem inv_swTimer {s s' g} (h : Inv s) (hs : step s (.swTimer g) = some s') : Inv s' := by inv_step hs
theorem inv_swCtxDone {s s' g} (h : Inv s) (hs : step s (.swCtxDone g) = some s') : Inv s' := by inv_step hs

theorem inv_step {s s' a} (h : Inv s) (hs : step s a = some s') : Inv s' := by
  cases a with
  | prepBegin => exact inv_prepBegin h hs
  | prepDone => exact inv_prepDone h hs
  | startFail => exact inv_startFail h hs
  | startBegin => exact inv_startBegin h hs
  | ctrlSet => exact inv_ctrlSet h hs
  | ctrlUnsetNil => exact inv_ctrlUnsetNil h hs
  | fnEnter c => exact inv_fnEnter h hs
  | fnExit => exact inv_fnExit h hs
  | ctrlUnset => exact inv_ctrlUnset h hs
  | online => exact inv_online h hs
  | stopBegin => exact inv_stopBegin h hs
  | sCtrl => exact inv_sCtrl h hs
  | sFlag => exact inv_sFlag h hs
  | sCancel => exact inv_sCancel h hs
  | sWake => exact inv_sWake h hs
  | sTimeout => exact inv_sTimeout h hs
  | sOffline => exact inv_sOffline h hs
  | sReport => exact inv_sReport h hs
  | inc k => exact inv_inc h hs
  | workEnter g c => exact inv_workEnter h hs
  | ctxObs g c => exact inv_ctxObs h hs
  | gate c => exact inv_gate h hs
  | dec k o => exact inv_dec h hs
  | cFast o => exact inv_cFast h hs
  | cLock => exact inv_cLock h hs
  | cFlag o => exact inv_cFlag h hs
  | cCtrl o => exact inv_cCtrl h hs
  | cW o => exact inv_cW h hs
  | cT o => exact inv_cT h hs
  | cM o => exact inv_cM h hs
  | cCas o => exact inv_cCas h hs
  | cClose => exact inv_cClose h hs
  | cUnlock => exact inv_cUnlock h hs
  | swReturn => exact inv_swReturn h hs
  | swRerun => exact inv_swRerun h hs
  | swExit o => exact inv_swExit h hs
  | swBackoff o => exact inv_swBackoff h hs
  | swTimer g => exact inv_swTimer h hs
  | swCtxDone g => exact inv_swCtxDone h hs

theorem inv_reach {s} (h : Reach s) : Inv s := by
  induction h with
  | init => exact inv_init
  | step _ hs ih => exact inv_step ih hs

/-! ## contexts: no context is ever replaced while it is live -/

/-- `start()` cancels the current context before it installs a fresh one, and nothing else replaces `m.Ctx`:
    the list of contexts that were replaced while live stays empty. -/
theorem oldLive_step {s s' : St} {a : Act} (h : s.oldLive = []) (hs : step s a = some s') : s'.oldLive = [] := by
  cases a with
  | startBegin =>
    simp only [step] at hs
    simp only [startCtx, startOps, List.foldl, applyStartOp, Nat.succ_ne_zero, if_false] at hs
    (repeat' split at hs) <;> cases hs <;> exact h
  | inc k => cases k <;> simp only [step] at hs <;> (repeat' split at hs) <;> cases hs <;> exact h
  | dec k o => cases k <;> cases o <;> simp only [step] at hs <;> (repeat' split at hs) <;> cases hs <;> exact h
  | cFast o => cases o <;> simp only [step] at hs <;> (repeat' split at hs) <;> cases hs <;> exact h
  | cFlag o => cases o <;> simp only [step] at hs <;> (repeat' split at hs) <;> cases hs <;> exact h
  | cCtrl o => cases o <;> simp only [step] at hs <;> (repeat' split at hs) <;> cases hs <;> exact h
  | cW o => cases o <;> simp only [step] at hs <;> (repeat' split at hs) <;> cases hs <;> exact h
  | cT o => cases o <;> simp only [step] at hs <;> (repeat' split at hs) <;> cases hs <;> exact h
  | cM o => cases o <;> simp only [step] at hs <;> (repeat' split at hs) <;> cases hs <;> exact h
  | cCas o => cases o <;> simp only [step] at hs <;> (repeat' split at hs) <;> cases hs <;> exact h
  | swExit o => cases o <;> simp only [step] at hs <;> (repeat' split at hs) <;> cases hs <;> exact h
  | swBackoff o => cases o <;> simp only [step] at hs <;> (repeat' split at hs) <;> cases hs <;> exact h
  | _ => simp only [step] at hs; (repeat' split at hs) <;> cases hs <;> exact h

theorem oldLive_reach {s} (h : Reach s) : s.oldLive = [] := by
  induction h with
  | init => rfl
  | step _ hs ih => exact oldLive_step ih hs

/-- … hence every context other than the current one is cancelled -/
theorem genCancelled_of_oldLive_nil {s : St} (h : s.oldLive = []) (g : Nat) (hg : g ≠ s.gen) :
    s.genCancelled g = true := by
  simp [St.genCancelled, hg, h]

/-! ## measure for the check steps -/

def mu (s : St) : Nat :=
  10 * s.k0 + 9 * s.kf + 8 * s.k1 + 7 * s.k2 + 6 * s.k3 + 5 * s.k4 + 4 * s.k5 + 3 * s.k6 + 2 * s.k7 + s.kd

theorem mu_decreases {s s' : St} {a : Act} (ha : a.isCheck = true) (hs : step s a = some s') : mu s' < mu s := by
  cases a with
  | cFast o => cases o <;> simp only [step] at hs <;> (repeat' split at hs) <;> cases hs <;> simp only [mu] <;> omega
  | cFlag o => cases o <;> simp only [step] at hs <;> (repeat' split at hs) <;> cases hs <;> simp only [mu] <;> omega
  | cCtrl o => cases o <;> simp only [step] at hs <;> (repeat' split at hs) <;> cases hs <;> simp only [mu] <;> omega
  | cW o => cases o <;> simp only [step] at hs <;> (repeat' split at hs) <;> cases hs <;> simp only [mu] <;> omega
  | cT o => cases o <;> simp only [step] at hs <;> (repeat' split at hs) <;> cases hs <;> simp only [mu] <;> omega
  | cM o => cases o <;> simp only [step] at hs <;> (repeat' split at hs) <;> cases hs <;> simp only [mu] <;> omega
  | cCas o => cases o <;> simp only [step] at hs <;> (repeat' split at hs) <;> cases hs <;> simp only [mu] <;> omega
  | cClose => simp only [step] at hs; (repeat' split at hs) <;> cases hs <;> simp only [mu] <;> omega
  | cLock => simp only [step] at hs; (repeat' split at hs) <;> cases hs <;> simp only [mu] <;> omega
  | cUnlock => simp only [step] at hs; (repeat' split at hs) <;> cases hs <;> simp only [mu] <;> omega
  | _ => simp [Act.isCheck] at ha

/-! ## service worker restart loop -/

def Act.rerun : Act → Nat
  | .swRerun => 1
  | _ => 0

/-- while the stop flag is set (no restart of the module), a step keeps it set and does not add service workers that
    may still re-run their function; a re-run consumes one of them. -/
theorem rerun_step {s s' : St} {a : Act} (hs : step s a = some s') (hf : s.flag = 1) (ha : a ≠ .startBegin) :
    s'.flag = 1 ∧ s'.swTop0 + a.rerun ≤ s.swTop0 := by
  cases a with
  | startBegin => exact absurd rfl ha
  | inc k => cases k <;> simp only [step] at hs <;> (repeat' split at hs) <;> cases hs <;> simp [Act.rerun, hf]
  | dec k o => cases k <;> cases o <;> simp only [step] at hs <;> (repeat' split at hs) <;> cases hs <;> simp [Act.rerun, hf]
  | cFast o => cases o <;> simp only [step] at hs <;> (repeat' split at hs) <;> cases hs <;> simp [Act.rerun, hf]
  | cFlag o => cases o <;> simp only [step] at hs <;> (repeat' split at hs) <;> cases hs <;> simp [Act.rerun, hf]
  | cCtrl o => cases o <;> simp only [step] at hs <;> (repeat' split at hs) <;> cases hs <;> simp [Act.rerun, hf]
  | cW o => cases o <;> simp only [step] at hs <;> (repeat' split at hs) <;> cases hs <;> simp [Act.rerun, hf]
  | cT o => cases o <;> simp only [step] at hs <;> (repeat' split at hs) <;> cases hs <;> simp [Act.rerun, hf]
  | cM o => cases o <;> simp only [step] at hs <;> (repeat' split at hs) <;> cases hs <;> simp [Act.rerun, hf]
  | cCas o => cases o <;> simp only [step] at hs <;> (repeat' split at hs) <;> cases hs <;> simp [Act.rerun, hf]
  | swExit o => cases o <;> simp only [step] at hs <;> (repeat' split at hs) <;> cases hs <;> simp [Act.rerun, hf]
  | swBackoff o => cases o <;> simp only [step] at hs <;> (repeat' split at hs) <;> cases hs <;> simp [Act.rerun, hf]
  | swTimer g =>
    simp only [step, hf] at hs
    (repeat' split at hs) <;> (try cases hs) <;> (try simp [Act.rerun]) <;> (try contradiction)
  | swCtxDone g => simp only [step] at hs; (repeat' split at hs) <;> cases hs <;> simp [Act.rerun, hf]
  | _ =>
    simp only [step] at hs
    (repeat' split at hs) <;> cases hs <;> simp only [Act.rerun] <;> (try dsimp only) <;> grind

/-! ## several modules -/

theorem active_other {s s' : St} {a : Act} (hs : step s a = some s') (h1 : a ≠ .stopBegin) (h2 : a ≠ .sReport) :
    s'.active = s.active := by
  cases a with
  | stopBegin => exact absurd rfl h1
  | sReport => exact absurd rfl h2
  | inc k => cases k <;> simp only [step] at hs <;> (repeat' split at hs) <;> cases hs <;> simp [St.active]
  | dec k o => cases k <;> cases o <;> simp only [step] at hs <;> (repeat' split at hs) <;> cases hs <;> simp [St.active]
  | cFlag o => cases o <;> simp only [step] at hs <;> (repeat' split at hs) <;> cases hs <;> simp [St.active]
  | cCtrl o => cases o <;> simp only [step] at hs <;> (repeat' split at hs) <;> cases hs <;> simp [St.active]
  | cW o => cases o <;> simp only [step] at hs <;> (repeat' split at hs) <;> cases hs <;> simp [St.active]
  | cT o => cases o <;> simp only [step] at hs <;> (repeat' split at hs) <;> cases hs <;> simp [St.active]
  | cM o => cases o <;> simp only [step] at hs <;> (repeat' split at hs) <;> cases hs <;> simp [St.active]
  | cCas o => cases o <;> simp only [step] at hs <;> (repeat' split at hs) <;> cases hs <;> simp [St.active]
  | cFast o => cases o <;> simp only [step] at hs <;> (repeat' split at hs) <;> cases hs <;> simp [St.active]
  | swExit o => cases o <;> simp only [step] at hs <;> (repeat' split at hs) <;> cases hs <;> simp [St.active]
  | swBackoff o => cases o <;> simp only [step] at hs <;> (repeat' split at hs) <;> cases hs <;> simp [St.active]
  | startBegin =>
    simp only [step] at hs
    simp only [startCtx, startOps, List.foldl, applyStartOp] at hs
    (repeat' split at hs) <;> cases hs <;> simp only [St.active] <;> grind
  | _ =>
    simp only [step] at hs
    (repeat' split at hs) <;> cases hs <;> simp only [St.active] <;> grind

theorem active_stopBegin {s s' : St} (hs : step s .stopBegin = some s') : s.active = 0 ∧ s'.active = 1 := by
  simp only [step] at hs
  (repeat' split at hs) <;> cases hs <;> simp only [St.active] <;> grind

theorem active_sReport {s s' : St} (hs : step s .sReport = some s') : s.active = 1 ∧ s'.active = 0 := by
  simp only [step] at hs
  (repeat' split at hs) <;> cases hs <;> simp only [St.active] <;> grind

theorem nActive_set : ∀ (ms : List St) (i : Nat) (s s' : St), ms[i]? = some s →
    nActive (ms.set i s') + s.active = nActive ms + s'.active := by
  intro ms
  induction ms with
  | nil => intro i s s' h; simp at h
  | cons m ms ih =>
    intro i s s' h
    cases i with
    | zero =>
      simp at h; subst h
      simp [nActive]; omega
    | succ j =>
      simp at h
      have := ih j s s' h
      simp [nActive] at this ⊢; omega

theorem nActive_zero_of : ∀ (ms : List St) (i : Nat) (s : St), ms[i]? = some s → nActive ms = 0 → s.active = 0 := by
  intro ms
  induction ms with
  | nil => intro i s h; simp at h
  | cons m ms ih =>
    intro i s h h0
    simp [nActive] at h0
    cases i with
    | zero => simp at h; subst h; exact h0.1
    | succ j => simp at h; exact ih j s h (by simpa [nActive] using h0.2)

theorem nActive_replicate_init (n : Nat) : nActive (List.replicate n PB.StopProto.init) = 0 := by
  induction n with
  | zero => simp [nActive]
  | succ n ih => simp [nActive, List.replicate_succ, St.active, PB.StopProto.init] at ih ⊢

/-- invariant of the composed system -/
def SInv (deps : List (List Nat)) (S : Sys) : Prop :=
  S.deps = deps ∧
  (∀ (i : Nat) (s : St), S.mods[i]? = some s → Reach s) ∧
  (S.mode = 1 → S.execCnt = S.reportCnt + nActive S.mods) ∧
  (S.mode ≠ 1 → nActive S.mods = 0)

theorem sinv_init (n : Nat) (deps : List (List Nat)) : SInv deps (Sys.init n deps) := by
  refine ⟨rfl, ?_, ?_, ?_⟩
  · intro i s h
    simp [Sys.init, List.getElem?_replicate] at h
    rw [← h.2]; exact Reach.init
  · intro h; simp [Sys.init] at h
  · intro _; simp [Sys.init, nActive_replicate_init]

theorem reach_set {ms : List St} {i : Nat} {s s' : St} {a : Act}
    (hall : ∀ (j : Nat) (t : St), ms[j]? = some t → Reach t) (hi : ms[i]? = some s) (hs : step s a = some s') :
    ∀ (j : Nat) (t : St), (ms.set i s')[j]? = some t → Reach t := by
  intro j t h
  rw [List.getElem?_set] at h
  split at h
  · split at h
    · cases h; exact Reach.step (hall i s hi) hs
    · cases h
  · exact hall j t h

theorem sinv_step {deps : List (List Nat)} {S S' : Sys} {a : SAct} (h : SInv deps S) (hs : sstep S a = some S') :
    SInv deps S' := by
  obtain ⟨hd, hall, h1, h2⟩ := h
  cases a with
  | passBegin st =>
    simp only [sstep] at hs
    split at hs
    · cases hs
      rename_i hm
      have h0 := h2 (by omega)
      refine ⟨hd, hall, ?_, ?_⟩
      · intro _; simp [h0]
      · intro _; exact h0
    · cases hs
  | passEnd =>
    simp only [sstep] at hs
    split at hs
    · cases hs
      rename_i hm
      refine ⟨hd, hall, ?_, ?_⟩
      · intro h; simp at h
      · intro _; have := h1 hm.1; dsimp only; omega
    · split at hs
      · cases hs
        rename_i hm
        refine ⟨hd, hall, ?_, ?_⟩
        · intro h; simp at h
        · intro _; exact h2 (by omega)
      · cases hs
  | mod i a =>
    simp only [sstep] at hs
    split at hs
    · cases hs
    · rename_i s hi
      by_cases hsb : a = .stopBegin
      · subst hsb
        simp only at hs
        split at hs
        · rename_i hg
          cases hst : step s .stopBegin with
          | none => simp [hst] at hs
          | some s' =>
            simp [hst] at hs; subst hs
            have ha := active_stopBegin hst
            have hn := nActive_set S.mods i s s' hi
            refine ⟨hd, reach_set hall hi hst, ?_, ?_⟩
            · intro _; have := h1 hg.1; dsimp only; omega
            · intro hm; exact absurd hg.1 hm
        · cases hs
      · by_cases hsr : a = .sReport
        · subst hsr
          simp only at hs
          split at hs
          · rename_i hg
            cases hst : step s .sReport with
            | none => simp [hst] at hs
            | some s' =>
              simp [hst] at hs; subst hs
              have ha := active_sReport hst
              have hn := nActive_set S.mods i s s' hi
              refine ⟨hd, reach_set hall hi hst, ?_, ?_⟩
              · intro _; have := h1 hg; dsimp only; omega
              · intro hm; exact absurd hg hm
          · cases hs
        · -- every other module action (startBegin has an extra guard)
          have key : ∀ s', step s a = some s' → S' = { S with mods := S.mods.set i s' } → SInv deps S' := by
            intro s' hst hS
            subst hS
            have ha := active_other hst hsb hsr
            have hn := nActive_set S.mods i s s' hi
            refine ⟨hd, reach_set hall hi hst, ?_, ?_⟩
            · intro hm; have := h1 hm; dsimp only at *; omega
            · intro hm; have := h2 hm; dsimp only at *; omega
          cases a with
          | stopBegin => exact absurd rfl hsb
          | sReport => exact absurd rfl hsr
          | startBegin =>
            simp only at hs
            split at hs
            · cases hst : step s .startBegin with
              | none => simp [hst] at hs
              | some s' => simp [hst] at hs; exact key s' hst hs.symm
            · cases hs
          | _ =>
            simp only [Option.map_eq_some_iff] at hs
            obtain ⟨s', hst, hS⟩ := hs
            exact key s' hst hS.symm

theorem sinv_reach {n : Nat} {deps : List (List Nat)} {S : Sys} (h : SReach n deps S) : SInv deps S := by
  induction h with
  | init => exact sinv_init n deps
  | step _ hs ih => exact sinv_step ih hs

end PB.StopProto
