import PB.Model.Db
import PB.Spec.KVStore
import PBProofs.Lemmas.Db
/-
Simulation between the interface model (cache + controller + storage) and the reference map.
-/
namespace PB.Db
open PB.KV

/-! ### validity -/

theorem Meta.valid_antitone {m : Meta} {now now' : Int} (h : now ≤ now') (hv : m.valid now' = true) :
    m.valid now = true := by
  unfold Meta.valid at *
  by_cases hd : m.deleted > 0
  · simp [hd] at hv
  · simp only [hd, if_false] at hv ⊢
    by_cases he : m.expires > 0 ∧ m.expires < now
    · have : m.expires > 0 ∧ m.expires < now' := ⟨he.1, by omega⟩
      simp [this] at hv
    · simp [he]

theorem Meta.valid_not_deleted {m : Meta} {now : Int} (hv : m.valid now = true) : ¬ m.deleted > 0 := by
  unfold Meta.valid at hv
  intro hd; simp [hd] at hv

theorem Meta.deleted_invalid {m : Meta} {now : Int} (hd : m.deleted > 0) : m.valid now = false := by
  unfold Meta.valid; simp [hd]

theorem Meta.isDeleted_iff (m : Meta) : m.isDeleted = true ↔ m.deleted > 0 := by
  unfold Meta.isDeleted; simp

/-! ### `stored` -/

theorem stored_md (b : Backend) (r : Rec) : (stored b r).md = r.md := by
  unfold stored; split <;> (try split) <;> (try split) <;> rfl

theorem stored_key (b : Backend) (r : Rec) : (stored b r).key = r.key := by
  unfold stored; split <;> (try split) <;> (try split) <;> rfl

theorem stored_idem (b : Backend) (r : Rec) : stored b (stored b r) = stored b r := by
  unfold stored
  by_cases hs : b.serializes = true
  · by_cases hd : r.md.deleted > 0
    · simp [hs, hd]
    · by_cases hf : r.form = .struct
      · simp [hs, hd, hf]
      · simp [hs, hd, hf]
  · simp [hs]

/-- Changing the metadata commutes with the change of representation (for a record that is not deleted). -/
theorem stored_setmd (b : Backend) (r : Rec) (x : Meta) (hd : ¬ r.md.deleted > 0) :
    stored b { stored b r with md := x } = stored b { r with md := x } := by
  unfold stored
  by_cases hs : b.serializes = true
  · by_cases hx : x.deleted > 0
    · by_cases hf : r.form = .struct <;> simp [hs, hd, hx, hf]
    · by_cases hf : r.form = .struct <;> simp [hs, hd, hx, hf]
  · simp [hs]

theorem stored_setmd_fields (b : Backend) (r : Rec) (x : Meta) (fs : Fields) (hd : ¬ r.md.deleted > 0) :
    stored b { stored b r with md := x, fields := fs } = stored b { r with md := x, fields := fs } := by
  unfold stored
  by_cases hs : b.serializes = true
  · by_cases hx : x.deleted > 0
    · by_cases hf : r.form = .struct <;> simp [hs, hd, hx, hf]
    · by_cases hf : r.form = .struct <;> simp [hs, hd, hx, hf]
  · simp [hs]

theorem hasAccess_stored (o : Opts) (b : Backend) (r : Rec) : o.hasAccess (stored b r) = o.hasAccess r := by
  unfold Opts.hasAccess; rw [stored_md]

/-! ### what a reader sees -/

theorem vis_some {now : Int} {o : Option Rec} {r : Rec} (h : vis now o = some r) :
    o = some r ∧ r.md.valid now = true := by
  unfold vis at h
  cases o with
  | none => simp at h
  | some x =>
    by_cases hv : x.md.valid now = true
    · simp [hv] at h; subst h; exact ⟨rfl, hv⟩
    · simp [hv] at h

theorem vis_of_valid {now : Int} {r : Rec} (hv : r.md.valid now = true) : vis now (some r) = some r := by
  unfold vis; simp [hv]

theorem vis_of_invalid {now : Int} {r : Rec} (hv : r.md.valid now = false) : vis now (some r) = none := by
  unfold vis; simp [hv]

theorem vis_none (now : Int) : vis now none = none := rfl

/-- Later views are a function of earlier views: validity only decays. -/
theorem vis_mono {now now' : Int} (h : now ≤ now') {a b : Option Rec} (hab : vis now a = vis now b) :
    vis now' a = vis now' b := by
  have key : ∀ x : Option Rec, vis now' x = (vis now x).bind (fun r => if r.md.valid now' then some r else none) := by
    intro x
    cases x with
    | none => rfl
    | some r =>
      by_cases hv' : r.md.valid now' = true
      · have hv := Meta.valid_antitone h hv'
        simp [vis, hv, hv']
      · by_cases hv : r.md.valid now = true <;> simp [vis, hv, hv']
  rw [key a, key b, hab]

/-! ### simulation relation -/

/-- The reference map `m` describes what interface state `st` shows at time `now`. -/
structure Sim (cfg : Cfg) (o : Opts) (now : Int) (st : ISt) (m : Store) : Prop where
  /-- storage and reference agree on what is visible -/
  view : ∀ k, vis now (st.store.get k) = vis now (m.get k)
  /-- a cached record that is still valid is the record the storage holds -/
  coh : ∀ k rc, st.cache.get k = some rc → rc.md.valid now = true → st.store.get k = some (stored cfg.backend rc)
  /-- storage holds records in the representation the backend hands out -/
  fixed : ∀ k r, st.store.get k = some r → stored cfg.backend r = r
  nds : st.store.NodupKeys
  ndm : m.NodupKeys
  /-- no delayed write set -/
  wc : st.wcache = []
  /-- an interface without cache has none -/
  nc : o.cache = .none → st.cache = []

theorem Sim.mono {cfg : Cfg} {o : Opts} {now now' : Int} {st : ISt} {m : Store} (h : now ≤ now') (hs : Sim cfg o now st m) :
    Sim cfg o now' st m :=
  { view := fun k => vis_mono h (hs.view k)
    coh := fun k rc hc hv => hs.coh k rc hc (Meta.valid_antitone h hv)
    fixed := hs.fixed, nds := hs.nds, ndm := hs.ndm, wc := hs.wc, nc := hs.nc }

theorem Sim.init (cfg : Cfg) (o : Opts) (now : Int) : Sim cfg o now {} [] :=
  { view := fun _ => rfl
    coh := fun k rc hc _ => by simp [Store.get] at hc
    fixed := fun k r h => by simp [Store.get] at h
    nds := Store.nodup_nil, ndm := Store.nodup_nil, wc := rfl, nc := fun _ => rfl }

/-- Without a write set the evict handler only drops the cache entry. -/
theorem evict_nowc (cfg : Cfg) (st : ISt) (k : String) (hw : st.wcache = []) :
    evict cfg st k = { st with cache := st.cache.del k } := by
  unfold evict; rw [hw]; simp [Store.get]

theorem Sim.dropCache {cfg : Cfg} {o : Opts} {now : Int} {st : ISt} {m : Store} (hs : Sim cfg o now st m) (k : String) :
    Sim cfg o now { st with cache := st.cache.del k } m :=
  { view := hs.view
    coh := fun k' rc hc hv => by
      simp only at hc
      rw [Store.get_del] at hc
      by_cases hk : k' = k
      · simp [hk] at hc
      · simp [hk] at hc; exact hs.coh k' rc hc hv
    fixed := hs.fixed, nds := hs.nds, ndm := hs.ndm, wc := hs.wc
    nc := fun h => by simp only; rw [hs.nc h]; rfl }

/-- `checkCache`: a hit is a valid record the storage holds too; the state stays in the relation. -/
theorem checkCache_sim {cfg : Cfg} {o : Opts} {now : Int} {st : ISt} {m : Store} (hs : Sim cfg o now st m) (k : String) :
    Sim cfg o now (checkCache cfg o st k now).2 m ∧
    (checkCache cfg o st k now).2.store = st.store ∧
    (∀ rc, (checkCache cfg o st k now).1 = some rc →
        rc.md.valid now = true ∧ (checkCache cfg o st k now).2.cache.get k = some rc ∧
        st.store.get k = some (stored cfg.backend rc) ∧ o.cache ≠ .none) := by
  unfold checkCache
  by_cases hc : o.cache = .none
  · simp [hc]; exact hs
  · simp only [hc, if_false]
    cases hg : st.cache.get k with
    | none => simp; exact hs
    | some r =>
      by_cases hv : r.md.valid now = true
      · simp only [hv, if_true]
        refine ⟨hs, by first | rfl | trivial, ?_⟩
        intro rc hrc
        simp at hrc; subst hrc
        exact ⟨hv, hg, hs.coh k r hg hv, hc⟩
      · simp only [hv]
        rw [evict_nowc cfg st k hs.wc]
        refine ⟨hs.dropCache k, ?_, ?_⟩ <;> simp


theorem Sim.cachePut {cfg : Cfg} {o : Opts} {now : Int} {st : ISt} {m : Store} (hs : Sim cfg o now st m) (r : Rec)
    (hcn : o.cache ≠ .none)
    (hr : r.md.valid now = true → st.store.get r.key = some (stored cfg.backend r)) :
    Sim cfg o now { st with cache := st.cache.put r } m :=
  { view := hs.view
    coh := fun k' rc hc hv => by
      simp only at hc
      rw [Store.get_put] at hc
      by_cases hk : k' = r.key
      · simp [hk] at hc; subst hc; rw [hk]; exact hr hv
      · simp [hk] at hc; exact hs.coh k' rc hc hv
    fixed := hs.fixed, nds := hs.nds, ndm := hs.ndm, wc := hs.wc
    nc := fun h => absurd h hcn }

/-- `updateCache` of a record that was read (not written). -/
theorem updateCache_read (cfg : Cfg) (o : Opts) (st : ISt) (r : Rec) (hd : o.cache ≠ .delay) :
    (updateCache cfg o st r false false).1 = if o.cache = .none then st else { st with cache := st.cache.put r } := by
  unfold updateCache
  by_cases hc : o.cache = .none <;> simp [hc]

theorem kvget_of_view {cfg : Cfg} {o' : Opts} {now : Int} {st : ISt} {m : Store} (hs : Sim cfg o' now st m) (o : Opts) (k : String) :
    KV.get o m k now =
      match vis now (st.store.get k) with
      | none => .error .notFound
      | some r => if o.hasAccess r then .ok r else .error .denied := by
  unfold KV.get; rw [← hs.view k]
  cases vis now (st.store.get k) <;> rfl

/-- `getRecord` answers what the reference `get` answers (a cache hit up to representation) and keeps the relation. -/
theorem getRecord_sim {cfg : Cfg} {o : Opts} {now : Int} {st : ISt} {m : Store} (hs : Sim cfg o now st m)
    (hd : o.cache ≠ .delay) (k : String) :
    Sim cfg o now (getRecord cfg o st k now).2 m ∧
    (getRecord cfg o st k now).2.store = st.store ∧
    (∀ e, (getRecord cfg o st k now).1 = .error e → KV.get o m k now = .error e) ∧
    (∀ r, (getRecord cfg o st k now).1 = .ok r →
        KV.get o m k now = .ok (stored cfg.backend r) ∧ r.md.valid now = true ∧
        st.store.get k = some (stored cfg.backend r) ∧ r.key = k ∧
        (o.cache ≠ .none → (getRecord cfg o st k now).2.cache.get k = some r) ∧
        (o.cache = .none → stored cfg.backend r = r)) := by
  obtain ⟨h1, h2, h3⟩ := checkCache_sim (o := o) hs k
  unfold getRecord
  generalize checkCache cfg o st k now = cc at *
  obtain ⟨c1, st1⟩ := cc
  simp only at h1 h2 h3
  cases c1 with
  | some rc =>
    obtain ⟨hv, hcg, hsg, hcn⟩ := h3 rc rfl
    have hkv : KV.get o m k now = if o.hasAccess rc then .ok (stored cfg.backend rc) else .error .denied := by
      rw [kvget_of_view hs, hsg, vis_of_valid (by rw [stored_md]; exact hv)]
      simp [hasAccess_stored]
    have hkey : rc.key = k := by
      have := Store.get_key hsg; rw [stored_key] at this; exact this
    by_cases ha : o.hasAccess rc = true
    · simp only [ha, if_true]
      refine ⟨h1, h2, ?_, ?_⟩
      · intro e he; cases he
      · intro r hr
        cases hr
        exact ⟨by rw [hkv]; simp [ha], hv, hsg, hkey, fun _ => hcg, fun hn => absurd hn hcn⟩
    · simp only [ha]
      refine ⟨h1, h2, ?_, by intro r hr; cases hr⟩
      intro e he; cases he; rw [hkv]; simp [ha]
  | none =>
    simp only
    rw [h2]
    unfold ctlGet
    cases hg : st.store.get k with
    | none =>
      simp only
      refine ⟨h1, h2, ?_, by intro r hr; cases hr⟩
      intro e he; cases he
      rw [kvget_of_view hs, hg]; rfl
    | some r =>
      simp only
      by_cases hv : r.md.valid now = true
      · simp only [hv, if_true]
        have hfix := hs.fixed k r hg
        have hkey := Store.get_key hg
        by_cases ha : o.hasAccess r = true
        · simp only [ha, Bool.not_true, Bool.false_eq_true, if_false]
          rw [updateCache_read cfg o st1 r hd]
          have hkv : KV.get o m k now = .ok (stored cfg.backend r) := by
            rw [kvget_of_view hs, hg, vis_of_valid hv, hfix]; simp [ha]
          by_cases hc : o.cache = .none
          · simp only [hc, if_true]
            refine ⟨h1, h2, ?_, ?_⟩
            · intro e he; cases he
            · intro r' hr'; cases hr'
              exact ⟨hkv, hv, by rw [hfix], hkey, fun hn => absurd rfl hn, fun _ => hfix⟩
          · simp only [hc, if_false]
            refine ⟨?_, h2, ?_, ?_⟩
            · apply h1.cachePut r hc
              intro _; rw [h2, hkey, hfix]; exact hg
            · intro e he; cases he
            · intro r' hr'; cases hr'
              refine ⟨hkv, hv, by rw [hfix], hkey, fun _ => ?_, by intro hn; simp_all⟩
              rw [← hkey]; exact Store.get_put_eq _ _
        · simp only [ha, Bool.not_false, if_true]
          refine ⟨h1, h2, ?_, by intro r hr; cases hr⟩
          intro e he; cases he
          rw [kvget_of_view hs, hg, vis_of_valid hv]; simp [ha]
      · simp only [hv]
        refine ⟨h1, h2, ?_, by intro r hr; cases hr⟩
        intro e he; cases he
        have hv' : r.md.valid now = false := by simpa using hv
        rw [kvget_of_view hs, hg, vis_of_invalid hv']

/-! ### writes -/

/-- Storage write vs. reference store of two representations of the same record. -/
theorem storePut_view {cfg : Cfg} {now : Int} {s m : Store} (r r2 : Rec)
    (hv : ∀ k, vis now (s.get k) = vis now (m.get k))
    (hkey : r2.key = r.key) (hmd : r2.md = r.md) (hst : stored cfg.backend r2 = stored cfg.backend r) (k : String) :
    vis now ((storePut cfg s r).get k) = vis now ((KV.store cfg.backend m r2).get k) := by
  unfold storePut KV.store
  rw [hmd, hkey, hst]
  by_cases hd : r.md.isDeleted = true
  · have hdel : r.md.deleted > 0 := (Meta.isDeleted_iff _).mp hd
    simp only [hd, if_true]
    by_cases hsh : cfg.shadow = true
    · simp only [hsh, Bool.not_true, Bool.false_and, Bool.false_eq_true, if_false]
      rw [Store.get_put, Store.get_del, stored_key]
      by_cases hk : k = r.key
      · simp only [hk, if_true]
        rw [vis_of_invalid (by rw [stored_md]; exact Meta.deleted_invalid hdel)]; rfl
      · simp only [hk, if_false]; exact hv k
    · simp only [hsh, Bool.not_false, Bool.true_and, if_true]
      rw [Store.get_del, Store.get_del]
      by_cases hk : k = r.key
      · simp [hk]
      · simp only [hk, if_false]; exact hv k
  · simp only [hd, Bool.and_false, Bool.false_eq_true, if_false]
    rw [Store.get_put, Store.get_put]
    by_cases hk : k = (stored cfg.backend r).key
    · simp [hk]
    · simp only [hk, if_false]; exact hv k

theorem storePut_get {cfg : Cfg} (s : Store) (r : Rec) (k : String) :
    (storePut cfg s r).get k =
      if k = r.key then (if !cfg.shadow && r.md.isDeleted then none else some (stored cfg.backend r)) else s.get k := by
  unfold storePut
  by_cases hc : (!cfg.shadow && r.md.isDeleted) = true
  · simp only [hc, if_true]; exact Store.get_del s r.key k
  · have hc' : (!cfg.shadow && r.md.isDeleted) = false := by simpa using hc
    simp only [hc', Bool.false_eq_true, if_false]; rw [Store.get_put, stored_key]

theorem storePut_nodup {cfg : Cfg} {s : Store} (h : s.NodupKeys) (r : Rec) : (storePut cfg s r).NodupKeys := by
  unfold storePut; split
  · exact Store.nodup_del h _
  · exact Store.nodup_put h _

theorem kvstore_nodup {b : Backend} {m : Store} (h : m.NodupKeys) (r : Rec) : (KV.store b m r).NodupKeys := by
  unfold KV.store; split
  · exact Store.nodup_del h _
  · exact Store.nodup_put h _

theorem storePut_fixed {cfg : Cfg} {s : Store} (hf : ∀ k r, s.get k = some r → stored cfg.backend r = r) (x : Rec) :
    ∀ k r, (storePut cfg s x).get k = some r → stored cfg.backend r = r := by
  intro k r h
  rw [storePut_get] at h
  by_cases hk : k = x.key
  · simp only [hk, if_true] at h
    split at h
    · cases h
    · cases h; exact stored_idem _ _
  · simp only [hk, if_false] at h; exact hf k r h

/-- The interface writes `r` (cache already updated to `c`), the reference stores `r2`. -/
theorem write_sim {cfg : Cfg} {o : Opts} {now : Int} {st : ISt} {m : Store} (hs : Sim cfg o now st m)
    (r r2 : Rec) (c : Store)
    (hkey : r2.key = r.key) (hmd : r2.md = r.md) (hst : stored cfg.backend r2 = stored cfg.backend r)
    (hother : ∀ k, k ≠ r.key → c.get k = st.cache.get k)
    (hthis : ∀ rc, c.get r.key = some rc → rc = r)
    (hnc : o.cache = .none → c = []) :
    Sim cfg o now (ctlPut cfg { st with cache := c } r) (KV.store cfg.backend m r2) := by
  unfold ctlPut
  refine { view := ?_, coh := ?_, fixed := ?_, nds := ?_, ndm := ?_, wc := hs.wc, nc := hnc }
  · intro k; exact storePut_view r r2 hs.view hkey hmd hst k
  · intro k rc hc hv
    simp only at hc ⊢
    rw [storePut_get]
    by_cases hk : k = r.key
    · subst hk
      have := hthis rc hc; subst this
      have hnd : rc.md.isDeleted = false := by
        have := Meta.valid_not_deleted hv
        unfold Meta.isDeleted; simp; omega
      simp [hnd]
    · simp only [hk, if_false]
      rw [hother k hk] at hc
      exact hs.coh k rc hc hv
  · exact storePut_fixed hs.fixed r
  · exact storePut_nodup hs.nds r
  · exact kvstore_nodup hs.ndm r2

theorem permitted_hasAccess (o : Opts) (r : Rec) (h : o.all = false) : r.md.permitted o.loc o.int = o.hasAccess r := by
  unfold Opts.hasAccess; simp [h]

theorem permitted_all (m : Meta) : m.permitted true true = true := by
  unfold Meta.permitted; simp

theorem hasAccess_eq_permitted (o : Opts) (r : Rec) : o.hasAccess r = r.md.permitted o.loc o.int := by
  unfold Opts.hasAccess Opts.all
  by_cases hl : o.loc = true <;> by_cases hi : o.int = true <;> simp [hl, hi, permitted_all]
  all_goals simp_all [Meta.permitted]

/-- `getMeta` (permission pre-check of Put / PutNew) decides like the reference. -/
theorem getMeta_sim {cfg : Cfg} {o : Opts} {now : Int} {st : ISt} {m : Store} (hs : Sim cfg o now st m) (k : String) :
    Sim cfg o now (getMeta cfg o st k now).2 m ∧
    ((getMeta cfg o st k now).1 =
      match vis now (m.get k) with
      | none => .error .notFound
      | some old => if old.md.permitted o.loc o.int then .ok old.md else .error .denied) := by
  obtain ⟨h1, h2, h3⟩ := checkCache_sim (o := o) hs k
  unfold getMeta
  generalize checkCache cfg o st k now = cc at *
  obtain ⟨c1, st1⟩ := cc
  simp only at h1 h2 h3
  rw [← hs.view k]
  cases c1 with
  | some rc =>
    obtain ⟨hv, _, hsg, _⟩ := h3 rc rfl
    rw [hsg, vis_of_valid (by rw [stored_md]; exact hv)]
    simp only [stored_md]
    rw [hasAccess_eq_permitted]
    by_cases ha : rc.md.permitted o.loc o.int = true <;> simp [ha, h1]
  | none =>
    simp only
    rw [h2]
    unfold ctlGet
    cases hg : st.store.get k with
    | none => simp [vis, h1]
    | some r =>
      by_cases hv : r.md.valid now = true
      · simp only [hv, if_true, vis_of_valid hv]
        by_cases ha : r.md.permitted o.loc o.int = true <;> simp [ha, h1]
      · have hv' : r.md.valid now = false := by simpa using hv
        simp [hv', vis_of_invalid hv', h1]

/-! ### one lemma per operation -/

section ops
variable {cfg : Cfg} {o : Opts} {now : Int} {st : ISt} {m : Store}

theorem ifGet_sim (hs : Sim cfg o now st m) (hd : o.cache ≠ .delay) (k : String) :
    Sim cfg o now (ifGet cfg o st k now).1 (KV.step cfg o m (.get k) now).1 ∧
    KV.outEq cfg.backend (ifGet cfg o st k now).2 (KV.step cfg o m (.get k) now).2 := by
  obtain ⟨h1, _, h3, h4⟩ := getRecord_sim hs hd k
  unfold ifGet KV.step
  generalize getRecord cfg o st k now = gr at *
  obtain ⟨res, st1⟩ := gr
  cases res with
  | error e => simp only at h3 ⊢; rw [h3 e rfl]; exact ⟨h1, rfl⟩
  | ok r => simp only at h4 ⊢; rw [(h4 r rfl).1]; exact ⟨h1, rfl⟩

theorem ifExists_sim (hs : Sim cfg o now st m) (hd : o.cache ≠ .delay) (k : String) :
    Sim cfg o now (ifExists cfg o st k now).1 (KV.step cfg o m (.exists_ k) now).1 ∧
    KV.outEq cfg.backend (ifExists cfg o st k now).2 (KV.step cfg o m (.exists_ k) now).2 := by
  obtain ⟨h1, _, h3, h4⟩ := getRecord_sim hs hd k
  unfold ifExists KV.step
  generalize getRecord cfg o st k now = gr at *
  obtain ⟨res, st1⟩ := gr
  cases res with
  | error e =>
    simp only at h3 ⊢; rw [h3 e rfl]
    cases e <;> exact ⟨h1, rfl⟩
  | ok r => simp only at h4 ⊢; rw [(h4 r rfl).1]; exact ⟨h1, rfl⟩

theorem aliasUpdate_nowc (st : ISt) (r : Rec) (hw : st.wcache = []) :
    aliasUpdate st r = { st with cache := if st.cache.has r.key then st.cache.put r else st.cache } := by
  unfold aliasUpdate; rw [hw]; simp [Store.has, Store.get]

theorem ifModify_sim (hs : Sim cfg o now st m) (hd : o.cache ≠ .delay) (k : String) (f : Meta → Meta) :
    Sim cfg o now (ifModify cfg o st k now f).1 (KV.modify cfg.backend o m k now f).1 ∧
    KV.outEq cfg.backend (ifModify cfg o st k now f).2 (KV.modify cfg.backend o m k now f).2 := by
  obtain ⟨h1, h2, h3, h4⟩ := getRecord_sim hs hd k
  unfold ifModify KV.modify
  generalize getRecord cfg o st k now = gr at *
  obtain ⟨res, st1⟩ := gr
  cases res with
  | error e => simp only at h3 ⊢; rw [h3 e rfl]; exact ⟨h1, rfl⟩
  | ok r =>
    simp only at h1 h2 h4 ⊢
    obtain ⟨hkv, hv, _, hkey, hcache, _⟩ := h4 r rfl
    rw [hkv]
    simp only
    rw [aliasUpdate_nowc _ _ h1.wc]
    refine ⟨?_, trivial⟩
    rw [stored_md]
    apply write_sim h1
    · simp [stored_key]
    · rfl
    · exact stored_setmd _ _ _ (Meta.valid_not_deleted hv)
    · intro k' hk'
      simp only at hk' ⊢
      split
      · exact Store.get_put_ne _ _ _ hk'
      · rfl
    · intro rc hrc
      simp only at hrc
      split at hrc
      · rw [show ({ r with md := f (o.apply r.md now) } : Rec).key = ({ r with md := f (o.apply r.md now) } : Rec).key from rfl,
          Store.get_put_eq] at hrc
        cases hrc; rfl
      · rename_i hh
        exfalso; apply hh
        by_cases hcn : o.cache = .none
        · have := h1.nc hcn
          have hg := hcache
          simp only [Store.has]
          exfalso
          revert hrc; rw [this]; simp [Store.get]
        · have := hcache hcn
          simp only [Store.has]
          rw [show ({ r with md := f (o.apply r.md now) } : Rec).key = k from hkey, this]; rfl
    · intro hcn
      have := h1.nc hcn
      simp only
      rw [this]; simp [Store.has, Store.get]

end ops

end PB.Db
