import PB.Model.Db
import PB.Spec.KVStore
import PBProofs.Lemmas.Db
/-
Simulation between the interface model (cache + controller + storage) and the reference map.
-/
namespace PB.Db
open PB.KV

/-! ### validity -/

theorem Meta.valid_antitone {m : Meta} {now now' : Int} (h : now ≤ now') (hv : m.valid now' = true) :
    m.valid now = true := by
  unfold Meta.valid at *
  by_cases hd : m.deleted > 0
  · simp [hd] at hv
  · simp only [hd, if_false] at hv ⊢
    by_cases he : m.expires > 0 ∧ m.expires < now
    · have : m.expires > 0 ∧ m.expires < now' := ⟨he.1, by omega⟩
      simp [this] at hv
    · simp [he]

theorem Meta.valid_not_deleted {m : Meta} {now : Int} (hv : m.valid now = true) : ¬ m.deleted > 0 := by
  unfold Meta.valid at hv
  intro hd; simp [hd] at hv

theorem Meta.deleted_invalid {m : Meta} {now : Int} (hd : m.deleted > 0) : m.valid now = false := by
  unfold Meta.valid; simp [hd]

theorem Meta.isDeleted_iff (m : Meta) : m.isDeleted = true ↔ m.deleted > 0 := by
  unfold Meta.isDeleted; simp

/-! ### `stored` -/

theorem stored_md (b : Backend) (r : Rec) : (stored b r).md = r.md := by
  unfold stored; split <;> (try split) <;> (try split) <;> rfl

theorem stored_key (b : Backend) (r : Rec) : (stored b r).key = r.key := by
  unfold stored; split <;> (try split) <;> (try split) <;> rfl

theorem stored_idem (b : Backend) (r : Rec) : stored b (stored b r) = stored b r := by
  unfold stored
  by_cases hs : b.serializes = true
  · by_cases hd : r.md.deleted > 0
    · simp [hs, hd]
    · by_cases hf : r.form = .struct
      · simp [hs, hd, hf]
      · simp [hs, hd, hf]
  · simp [hs]

/-- Changing the metadata commutes with the change of representation (for a record that is not deleted). -/
theorem stored_setmd (b : Backend) (r : Rec) (x : Meta) (hd : ¬ r.md.deleted > 0) :
    stored b { stored b r with md := x } = stored b { r with md := x } := by
  unfold stored
  by_cases hs : b.serializes = true
  · by_cases hx : x.deleted > 0
    · by_cases hf : r.form = .struct <;> simp [hs, hd, hx, hf]
    · by_cases hf : r.form = .struct <;> simp [hs, hd, hx, hf]
  · simp [hs]

theorem stored_setmd_fields (b : Backend) (r : Rec) (x : Meta) (fs : Fields) (hd : ¬ r.md.deleted > 0) :
    stored b { stored b r with md := x, fields := fs } = stored b { r with md := x, fields := fs } := by
  unfold stored
  by_cases hs : b.serializes = true
  · by_cases hx : x.deleted > 0
    · by_cases hf : r.form = .struct <;> simp [hs, hd, hx, hf]
    · by_cases hf : r.form = .struct <;> simp [hs, hd, hx, hf]
  · simp [hs]

theorem hasAccess_stored (o : Opts) (b : Backend) (r : Rec) : o.hasAccess (stored b r) = o.hasAccess r := by
  unfold Opts.hasAccess; rw [stored_md]

/-! ### what a reader sees -/

theorem vis_some {now : Int} {o : Option Rec} {r : Rec} (h : vis now o = some r) :
    o = some r ∧ r.md.valid now = true := by
  unfold vis at h
  cases o with
  | none => simp at h
  | some x =>
    by_cases hv : x.md.valid now = true
    · simp [hv] at h; subst h; exact ⟨rfl, hv⟩
    · simp [hv] at h

theorem vis_of_valid {now : Int} {r : Rec} (hv : r.md.valid now = true) : vis now (some r) = some r := by
  unfold vis; simp [hv]

theorem vis_of_invalid {now : Int} {r : Rec} (hv : r.md.valid now = false) : vis now (some r) = none := by
  unfold vis; simp [hv]

theorem vis_none (now : Int) : vis now none = none := rfl

/-- Later views are a function of earlier views: validity only decays. -/
theorem vis_mono {now now' : Int} (h : now ≤ now') {a b : Option Rec} (hab : vis now a = vis now b) :
    vis now' a = vis now' b := by
  have key : ∀ x : Option Rec, vis now' x = (vis now x).bind (fun r => if r.md.valid now' then some r else none) := by
    intro x
    cases x with
    | none => rfl
    | some r =>
      by_cases hv' : r.md.valid now' = true
      · have hv := Meta.valid_antitone h hv'
        simp [vis, hv, hv']
      · by_cases hv : r.md.valid now = true <;> simp [vis, hv, hv']
  rw [key a, key b, hab]

/-! ### simulation relation -/

/-- The reference map `m` describes what interface state `st` shows at time `now`. -/
structure Sim (cfg : Cfg) (o : Opts) (now : Int) (st : ISt) (m : Store) : Prop where
  /-- storage and reference agree on what is visible -/
  view : ∀ k, vis now (st.store.get k) = vis now (m.get k)
  /-- a cached record that is still valid is the record the storage holds -/
  coh : ∀ k rc, st.cache.get k = some rc → rc.md.valid now = true → st.store.get k = some (stored cfg.backend rc)
  /-- storage holds records in the representation the backend hands out -/
  fixed : ∀ k r, st.store.get k = some r → stored cfg.backend r = r
  nds : st.store.NodupKeys
  ndm : m.NodupKeys
  /-- no delayed write set -/
  wc : st.wcache = []
  /-- an interface without cache has none -/
  nc : o.cache = .none → st.cache = []

theorem Sim.mono {cfg : Cfg} {o : Opts} {now now' : Int} {st : ISt} {m : Store} (h : now ≤ now') (hs : Sim cfg o now st m) :
    Sim cfg o now' st m :=
  { view := fun k => vis_mono h (hs.view k)
    coh := fun k rc hc hv => hs.coh k rc hc (Meta.valid_antitone h hv)
    fixed := hs.fixed, nds := hs.nds, ndm := hs.ndm, wc := hs.wc, nc := hs.nc }

theorem Sim.init (cfg : Cfg) (o : Opts) (now : Int) : Sim cfg o now {} [] :=
  { view := fun _ => rfl
    coh := fun k rc hc _ => by simp [Store.get] at hc
    fixed := fun k r h => by simp [Store.get] at h
    nds := Store.nodup_nil, ndm := Store.nodup_nil, wc := rfl, nc := fun _ => rfl }

/-- Without a write set the evict handler only drops the cache entry. -/
theorem evict_nowc (cfg : Cfg) (st : ISt) (k : String) (hw : st.wcache = []) :
    evict cfg st k = { st with cache := st.cache.del k } := by
  unfold evict; rw [hw]; simp [Store.get]

theorem Sim.dropCache {cfg : Cfg} {o : Opts} {now : Int} {st : ISt} {m : Store} (hs : Sim cfg o now st m) (k : String) :
    Sim cfg o now { st with cache := st.cache.del k } m :=
  { view := hs.view
    coh := fun k' rc hc hv => by
      simp only at hc
      rw [Store.get_del] at hc
      by_cases hk : k' = k
      · simp [hk] at hc
      · simp [hk] at hc; exact hs.coh k' rc hc hv
    fixed := hs.fixed, nds := hs.nds, ndm := hs.ndm, wc := hs.wc
    nc := fun h => by simp only; rw [hs.nc h]; rfl }

/-- `checkCache`: a hit is a valid record the storage holds too; the state stays in the relation. -/
theorem checkCache_sim {cfg : Cfg} {o : Opts} {now : Int} {st : ISt} {m : Store} (hs : Sim cfg o now st m) (k : String) :
    Sim cfg o now (checkCache cfg o st k now).2 m ∧
    (checkCache cfg o st k now).2.store = st.store ∧
    (∀ rc, (checkCache cfg o st k now).1 = some rc →
        rc.md.valid now = true ∧ (checkCache cfg o st k now).2.cache.get k = some rc ∧
        st.store.get k = some (stored cfg.backend rc) ∧ o.cache ≠ .none) := by
  unfold checkCache
  by_cases hc : o.cache = .none
  · simp [hc]; exact hs
  · simp only [hc, if_false]
    cases hg : st.cache.get k with
    | none => simp; exact hs
    | some r =>
      by_cases hv : r.md.valid now = true
      · simp only [hv, if_true]
        refine ⟨hs, by first | rfl | trivial, ?_⟩
        intro rc hrc
        simp at hrc; subst hrc
        exact ⟨hv, hg, hs.coh k r hg hv, hc⟩
      · simp only [hv]
        rw [evict_nowc cfg st k hs.wc]
        refine ⟨hs.dropCache k, ?_, ?_⟩ <;> simp


theorem Sim.cachePut {cfg : Cfg} {o : Opts} {now : Int} {st : ISt} {m : Store} (hs : Sim cfg o now st m) (r : Rec)
    (hcn : o.cache ≠ .none)
    (hr : r.md.valid now = true → st.store.get r.key = some (stored cfg.backend r)) :
    Sim cfg o now { st with cache := st.cache.put r } m :=
  { view := hs.view
    coh := fun k' rc hc hv => by
      simp only at hc
      rw [Store.get_put] at hc
      by_cases hk : k' = r.key
      · simp [hk] at hc; subst hc; rw [hk]; exact hr hv
      · simp [hk] at hc; exact hs.coh k' rc hc hv
    fixed := hs.fixed, nds := hs.nds, ndm := hs.ndm, wc := hs.wc
    nc := fun h => absurd h hcn }

/-- `updateCache` of a record that was read (not written). -/
theorem updateCache_read (cfg : Cfg) (o : Opts) (st : ISt) (r : Rec) (hd : o.cache ≠ .delay) :
    (updateCache cfg o st r false false).1 = if o.cache = .none then st else { st with cache := st.cache.put r } := by
  unfold updateCache
  by_cases hc : o.cache = .none <;> simp [hc]

theorem kvget_of_view {cfg : Cfg} {o' : Opts} {now : Int} {st : ISt} {m : Store} (hs : Sim cfg o' now st m) (o : Opts) (k : String) :
    KV.get o m k now =
      match vis now (st.store.get k) with
      | none => .error .notFound
      | some r => if o.hasAccess r then .ok r else .error .denied := by
  unfold KV.get; rw [← hs.view k]
  cases vis now (st.store.get k) <;> rfl

/-- `getRecord` answers what the reference `get` answers (a cache hit up to representation) and keeps the relation. -/
theorem getRecord_sim {cfg : Cfg} {o : Opts} {now : Int} {st : ISt} {m : Store} (hs : Sim cfg o now st m)
    (hd : o.cache ≠ .delay) (k : String) :
    Sim cfg o now (getRecord cfg o st k now).2 m ∧
    (getRecord cfg o st k now).2.store = st.store ∧
    (∀ e, (getRecord cfg o st k now).1 = .error e → KV.get o m k now = .error e) ∧
    (∀ r, (getRecord cfg o st k now).1 = .ok r →
        KV.get o m k now = .ok (stored cfg.backend r) ∧ r.md.valid now = true ∧
        st.store.get k = some (stored cfg.backend r) ∧ r.key = k ∧
        (o.cache ≠ .none → (getRecord cfg o st k now).2.cache.get k = some r) ∧
        (o.cache = .none → stored cfg.backend r = r)) := by
  obtain ⟨h1, h2, h3⟩ := checkCache_sim (o := o) hs k
  unfold getRecord
  generalize checkCache cfg o st k now = cc at *
  obtain ⟨c1, st1⟩ := cc
  simp only at h1 h2 h3
  cases c1 with
  | some rc =>
    obtain ⟨hv, hcg, hsg, hcn⟩ := h3 rc rfl
    have hkv : KV.get o m k now = if o.hasAccess rc then .ok (stored cfg.backend rc) else .error .denied := by
      rw [kvget_of_view hs, hsg, vis_of_valid (by rw [stored_md]; exact hv)]
      simp [hasAccess_stored]
    have hkey : rc.key = k := by
      have := Store.get_key hsg; rw [stored_key] at this; exact this
    by_cases ha : o.hasAccess rc = true
    · simp only [ha, if_true]
      refine ⟨h1, h2, ?_, ?_⟩
      · intro e he; cases he
      · intro r hr
        cases hr
        exact ⟨by rw [hkv]; simp [ha], hv, hsg, hkey, fun _ => hcg, fun hn => absurd hn hcn⟩
    · simp only [ha]
      refine ⟨h1, h2, ?_, by intro r hr; cases hr⟩
      intro e he; cases he; rw [hkv]; simp [ha]
  | none =>
    simp only
    rw [h2]
    unfold ctlGet
    cases hg : st.store.get k with
    | none =>
      simp only
      refine ⟨h1, h2, ?_, by intro r hr; cases hr⟩
      intro e he; cases he
      rw [kvget_of_view hs, hg]; rfl
    | some r =>
      simp only
      by_cases hv : r.md.valid now = true
      · simp only [hv, if_true]
        have hfix := hs.fixed k r hg
        have hkey := Store.get_key hg
        by_cases ha : o.hasAccess r = true
        · simp only [ha, Bool.not_true, Bool.false_eq_true, if_false]
          rw [updateCache_read cfg o st1 r hd]
          have hkv : KV.get o m k now = .ok (stored cfg.backend r) := by
            rw [kvget_of_view hs, hg, vis_of_valid hv, hfix]; simp [ha]
          by_cases hc : o.cache = .none
          · simp only [hc, if_true]
            refine ⟨h1, h2, ?_, ?_⟩
            · intro e he; cases he
            · intro r' hr'; cases hr'
              exact ⟨hkv, hv, by rw [hfix], hkey, fun hn => absurd rfl hn, fun _ => hfix⟩
          · simp only [hc, if_false]
            refine ⟨?_, h2, ?_, ?_⟩
            · apply h1.cachePut r hc
              intro _; rw [h2, hkey, hfix]; exact hg
            · intro e he; cases he
            · intro r' hr'; cases hr'
              refine ⟨hkv, hv, by rw [hfix], hkey, fun _ => ?_, by intro hn; simp_all⟩
              rw [← hkey]; exact Store.get_put_eq _ _
        · simp only [ha, Bool.not_false, if_true]
          refine ⟨h1, h2, ?_, by intro r hr; cases hr⟩
          intro e he; cases he
          rw [kvget_of_view hs, hg, vis_of_valid hv]; simp [ha]
      · simp only [hv]
        refine ⟨h1, h2, ?_, by intro r hr; cases hr⟩
        intro e he; cases he
        have hv' : r.md.valid now = false := by simpa using hv
        rw [kvget_of_view hs, hg, vis_of_invalid hv']

/-! ### writes -/

/-- Storage write vs. reference store of two representations of the same record. -/
theorem storePut_view {cfg : Cfg} {now : Int} {s m : Store} (r r2 : Rec)
    (hv : ∀ k, vis now (s.get k) = vis now (m.get k))
    (hkey : r2.key = r.key) (hmd : r2.md = r.md) (hst : stored cfg.backend r2 = stored cfg.backend r) (k : String) :
    vis now ((storePut cfg s r).get k) = vis now ((KV.store cfg.backend m r2).get k) := by
  unfold storePut KV.store
  rw [hmd, hkey, hst]
  by_cases hd : r.md.isDeleted = true
  · have hdel : r.md.deleted > 0 := (Meta.isDeleted_iff _).mp hd
    simp only [hd, if_true]
    by_cases hsh : cfg.shadow = true
    · simp only [hsh, Bool.not_true, Bool.false_and, Bool.false_eq_true, if_false]
      rw [Store.get_put, Store.get_del, stored_key]
      by_cases hk : k = r.key
      · simp only [hk, if_true]
        rw [vis_of_invalid (by rw [stored_md]; exact Meta.deleted_invalid hdel)]; rfl
      · simp only [hk, if_false]; exact hv k
    · simp only [hsh, Bool.not_false, Bool.true_and, if_true]
      rw [Store.get_del, Store.get_del]
      by_cases hk : k = r.key
      · simp [hk]
      · simp only [hk, if_false]; exact hv k
  · simp only [hd, Bool.and_false, Bool.false_eq_true, if_false]
    rw [Store.get_put, Store.get_put]
    by_cases hk : k = (stored cfg.backend r).key
    · simp [hk]
    · simp only [hk, if_false]; exact hv k

theorem storePut_get {cfg : Cfg} (s : Store) (r : Rec) (k : String) :
    (storePut cfg s r).get k =
      if k = r.key then (if !cfg.shadow && r.md.isDeleted then none else some (stored cfg.backend r)) else s.get k := by
  unfold storePut
  by_cases hc : (!cfg.shadow && r.md.isDeleted) = true
  · simp only [hc, if_true]; exact Store.get_del s r.key k
  · have hc' : (!cfg.shadow && r.md.isDeleted) = false := by simpa using hc
    simp only [hc', Bool.false_eq_true, if_false]; rw [Store.get_put, stored_key]

theorem storePut_nodup {cfg : Cfg} {s : Store} (h : s.NodupKeys) (r : Rec) : (storePut cfg s r).NodupKeys := by
  unfold storePut; split
  · exact Store.nodup_del h _
  · exact Store.nodup_put h _

theorem kvstore_nodup {b : Backend} {m : Store} (h : m.NodupKeys) (r : Rec) : (KV.store b m r).NodupKeys := by
  unfold KV.store; split
  · exact Store.nodup_del h _
  · exact Store.nodup_put h _

theorem storePut_fixed {cfg : Cfg} {s : Store} (hf : ∀ k r, s.get k = some r → stored cfg.backend r = r) (x : Rec) :
    ∀ k r, (storePut cfg s x).get k = some r → stored cfg.backend r = r := by
  intro k r h
  rw [storePut_get] at h
  by_cases hk : k = x.key
  · simp only [hk, if_true] at h
    split at h
    · cases h
    · cases h; exact stored_idem _ _
  · simp only [hk, if_false] at h; exact hf k r h

/-- The interface writes `r` (cache already updated to `c`), the reference stores `r2`. -/
theorem write_sim {cfg : Cfg} {o : Opts} {now : Int} {st : ISt} {m : Store} (hs : Sim cfg o now st m)
    (r r2 : Rec) (c : Store)
    (hkey : r2.key = r.key) (hmd : r2.md = r.md) (hst : stored cfg.backend r2 = stored cfg.backend r)
    (hother : ∀ k, k ≠ r.key → c.get k = st.cache.get k)
    (hthis : ∀ rc, c.get r.key = some rc → rc = r)
    (hnc : o.cache = .none → c = []) :
    Sim cfg o now (ctlPut cfg { st with cache := c } r) (KV.store cfg.backend m r2) := by
  unfold ctlPut
  refine { view := ?_, coh := ?_, fixed := ?_, nds := ?_, ndm := ?_, wc := hs.wc, nc := hnc }
  · intro k; exact storePut_view r r2 hs.view hkey hmd hst k
  · intro k rc hc hv
    simp only at hc ⊢
    rw [storePut_get]
    by_cases hk : k = r.key
    · subst hk
      have := hthis rc hc; subst this
      have hnd : rc.md.isDeleted = false := by
        have := Meta.valid_not_deleted hv
        unfold Meta.isDeleted; simp; omega
      simp [hnd]
    · simp only [hk, if_false]
      rw [hother k hk] at hc
      exact hs.coh k rc hc hv
  · exact storePut_fixed hs.fixed r
  · exact storePut_nodup hs.nds r
  · exact kvstore_nodup hs.ndm r2

theorem permitted_hasAccess (o : Opts) (r : Rec) (h : o.all = false) : r.md.permitted o.loc o.int = o.hasAccess r := by
  unfold Opts.hasAccess; simp [h]

theorem permitted_all (m : Meta) : m.permitted true true = true := by
  unfold Meta.permitted; simp

theorem hasAccess_eq_permitted (o : Opts) (r : Rec) : o.hasAccess r = r.md.permitted o.loc o.int := by
  unfold Opts.hasAccess Opts.all
  by_cases hl : o.loc = true <;> by_cases hi : o.int = true <;> simp [hl, hi, permitted_all]
  all_goals simp_all [Meta.permitted]

/-- `getMeta` (permission pre-check of Put / PutNew) decides like the reference. -/
theorem getMeta_sim {cfg : Cfg} {o : Opts} {now : Int} {st : ISt} {m : Store} (hs : Sim cfg o now st m) (k : String) :
    Sim cfg o now (getMeta cfg o st k now).2 m ∧
    ((getMeta cfg o st k now).1 =
      match vis now (m.get k) with
      | none => .error .notFound
      | some old => if old.md.permitted o.loc o.int then .ok old.md else .error .denied) := by
  obtain ⟨h1, h2, h3⟩ := checkCache_sim (o := o) hs k
  unfold getMeta
  generalize checkCache cfg o st k now = cc at *
  obtain ⟨c1, st1⟩ := cc
  simp only at h1 h2 h3
  rw [← hs.view k]
  cases c1 with
  | some rc =>
    obtain ⟨hv, _, hsg, _⟩ := h3 rc rfl
    rw [hsg, vis_of_valid (by rw [stored_md]; exact hv)]
    simp only [stored_md]
    rw [hasAccess_eq_permitted]
    by_cases ha : rc.md.permitted o.loc o.int = true <;> simp [ha, h1]
  | none =>
    simp only
    rw [h2]
    unfold ctlGet
    cases hg : st.store.get k with
    | none => simp [vis, h1]
    | some r =>
      by_cases hv : r.md.valid now = true
      · simp only [hv, if_true, vis_of_valid hv]
        by_cases ha : r.md.permitted o.loc o.int = true <;> simp [ha, h1]
      · have hv' : r.md.valid now = false := by simpa using hv
        simp [hv', vis_of_invalid hv', h1]

/-! ### one lemma per operation -/

section ops
variable {cfg : Cfg} {o : Opts} {now : Int} {st : ISt} {m : Store}

theorem ifGet_sim (hs : Sim cfg o now st m) (hd : o.cache ≠ .delay) (k : String) :
    Sim cfg o now (ifGet cfg o st k now).1 (KV.step cfg o m (.get k) now).1 ∧
    KV.outEq cfg.backend (ifGet cfg o st k now).2 (KV.step cfg o m (.get k) now).2 := by
  obtain ⟨h1, _, h3, h4⟩ := getRecord_sim hs hd k
  unfold ifGet KV.step
  generalize getRecord cfg o st k now = gr at *
  obtain ⟨res, st1⟩ := gr
  cases res with
  | error e => simp only at h3 ⊢; rw [h3 e rfl]; exact ⟨h1, rfl⟩
  | ok r => simp only at h4 ⊢; rw [(h4 r rfl).1]; exact ⟨h1, rfl⟩

theorem ifExists_sim (hs : Sim cfg o now st m) (hd : o.cache ≠ .delay) (k : String) :
    Sim cfg o now (ifExists cfg o st k now).1 (KV.step cfg o m (.exists_ k) now).1 ∧
    KV.outEq cfg.backend (ifExists cfg o st k now).2 (KV.step cfg o m (.exists_ k) now).2 := by
  obtain ⟨h1, _, h3, h4⟩ := getRecord_sim hs hd k
  unfold ifExists KV.step
  generalize getRecord cfg o st k now = gr at *
  obtain ⟨res, st1⟩ := gr
  cases res with
  | error e =>
    simp only at h3 ⊢; rw [h3 e rfl]
    cases e <;> exact ⟨h1, rfl⟩
  | ok r => simp only at h4 ⊢; rw [(h4 r rfl).1]; exact ⟨h1, rfl⟩

theorem aliasUpdate_nowc (st : ISt) (r : Rec) (hw : st.wcache = []) :
    aliasUpdate st r = { st with cache := if st.cache.has r.key then st.cache.put r else st.cache } := by
  unfold aliasUpdate; rw [hw]; simp [Store.has, Store.get]

theorem ifModify_sim (hs : Sim cfg o now st m) (hd : o.cache ≠ .delay) (k : String) (f : Meta → Meta) :
    Sim cfg o now (ifModify cfg o st k now f).1 (KV.modify cfg.backend o m k now f).1 ∧
    KV.outEq cfg.backend (ifModify cfg o st k now f).2 (KV.modify cfg.backend o m k now f).2 := by
  obtain ⟨h1, h2, h3, h4⟩ := getRecord_sim hs hd k
  unfold ifModify KV.modify
  generalize getRecord cfg o st k now = gr at *
  obtain ⟨res, st1⟩ := gr
  cases res with
  | error e => simp only at h3 ⊢; rw [h3 e rfl]; exact ⟨h1, rfl⟩
  | ok r =>
    simp only at h1 h2 h4 ⊢
    obtain ⟨hkv, hv, _, hkey, hcache, _⟩ := h4 r rfl
    rw [hkv]
    simp only
    rw [aliasUpdate_nowc _ _ h1.wc]
    refine ⟨?_, trivial⟩
    rw [stored_md]
    apply write_sim h1
    · simp [stored_key]
    · rfl
    · exact stored_setmd _ _ _ (Meta.valid_not_deleted hv)
    · intro k' hk'
      simp only at hk' ⊢
      split
      · exact Store.get_put_ne _ _ _ hk'
      · rfl
    · intro rc hrc
      simp only at hrc
      split at hrc
      · rw [show ({ r with md := f (o.apply r.md now) } : Rec).key = ({ r with md := f (o.apply r.md now) } : Rec).key from rfl,
          Store.get_put_eq] at hrc
        cases hrc; rfl
      · rename_i hh
        exfalso; apply hh
        by_cases hcn : o.cache = .none
        · have := h1.nc hcn
          have hg := hcache
          simp only [Store.has]
          exfalso
          revert hrc; rw [this]; simp [Store.get]
        · have := hcache hcn
          simp only [Store.has]
          rw [show ({ r with md := f (o.apply r.md now) } : Rec).key = k from hkey, this]; rfl
    · intro hcn
      have := h1.nc hcn
      simp only
      rw [this]; simp [Store.has, Store.get]

theorem updateCache_write (hs : Sim cfg o now st m) (hd : o.cache ≠ .delay) (r : Rec) (rem : Bool) :
    ∃ c, updateCache cfg o st r true rem = ({ st with cache := c }, false) ∧
      (∀ k, k ≠ r.key → c.get k = st.cache.get k) ∧ (∀ rc, c.get r.key = some rc → rc = r) ∧
      (o.cache = .none → c = []) := by
  unfold updateCache
  by_cases hc : o.cache = .none
  · refine ⟨st.cache, by simp [hc], fun _ _ => rfl, ?_, fun _ => hs.nc hc⟩
    intro rc h; rw [hs.nc hc] at h; simp [Store.get] at h
  · simp only [hc, if_false]
    by_cases hr : rem = true
    · simp only [hr, if_true]
      by_cases hh : st.cache.has r.key = true
      · simp only [hh, if_true]
        rw [evict_nowc cfg st r.key hs.wc]
        refine ⟨st.cache.del r.key, rfl, fun k hk => Store.get_del_ne _ _ _ hk, ?_, by intro h; simp_all⟩
        intro rc h; rw [Store.get_del_eq] at h; cases h
      · refine ⟨st.cache, by simp [hh], fun _ _ => rfl, ?_, by intro h; simp_all⟩
        intro rc h
        exfalso; apply hh; simp [Store.has, h]
    · have hr' : rem = false := by simpa using hr
      have hdl : (o.cache = CacheMode.delay) = False := by simp [hd]
      refine ⟨st.cache.put r, by simp [hr', hd], fun k hk => Store.get_put_ne _ _ _ hk, ?_, by intro h; simp_all⟩
      intro rc h; rw [Store.get_put_eq] at h; cases h; rfl

theorem putTail_sim (hs : Sim cfg o now st m) (hd : o.cache ≠ .delay) (r : Rec) :
    Sim cfg o now
      (match updateCache cfg o st r true r.md.isDeleted with
        | (st, true) => (st, Out.ok)
        | (st, false) => (ctlPut cfg st r, Out.ok)).1
      (KV.store cfg.backend m r) ∧
    KV.outEq cfg.backend (match updateCache cfg o st r true r.md.isDeleted with
        | (st, true) => (st, Out.ok)
        | (st, false) => (ctlPut cfg st r, Out.ok)).2 Out.ok := by
  obtain ⟨c, hc, h1, h2, h3⟩ := updateCache_write hs hd r r.md.isDeleted
  rw [hc]
  exact ⟨write_sim hs r r c rfl rfl rfl h1 h2 h3, trivial⟩

theorem ifPut_sim (hs : Sim cfg o now st m) (hd : o.cache ≠ .delay) (r : Rec) (isNew : Bool) :
    Sim cfg o now (ifPut cfg o st r now isNew).1 (KV.put cfg.backend o m r now isNew).1 ∧
    KV.outEq cfg.backend (ifPut cfg o st r now isNew).2 (KV.put cfg.backend o m r now isNew).2 := by
  unfold ifPut KV.put KV.blocked
  by_cases ha : o.all = true
  · simp only [ha, Bool.not_true, Bool.false_eq_true, if_false, Bool.false_and]
    obtain ⟨h1, h2⟩ := putTail_sim hs hd { r with md := o.apply (if isNew then r.md.reset else r.md) now }
    exact ⟨h1, h2⟩
  · have ha' : o.all = false := by simpa using ha
    obtain ⟨g1, g2⟩ := getMeta_sim hs r.key
    simp only [ha', Bool.not_false, if_true, Bool.true_and]
    generalize getMeta cfg o st r.key now = gm at *
    obtain ⟨res, st1⟩ := gm
    simp only at g1 g2
    cases hvv : vis now (m.get r.key) with
    | none =>
      rw [hvv] at g2; simp only at g2; subst g2
      simp only [Bool.false_eq_true, if_false]
      obtain ⟨h1, h2⟩ := putTail_sim g1 hd { r with md := o.apply (if isNew then r.md.reset else r.md) now }
      exact ⟨h1, h2⟩
    | some old =>
      rw [hvv] at g2; simp only at g2
      by_cases hp : old.md.permitted o.loc o.int = true
      · simp only [hp, if_true] at g2; subst g2
        simp only [hp, Bool.not_true, Bool.false_eq_true, if_false]
        obtain ⟨h1, h2⟩ := putTail_sim g1 hd { r with md := o.apply (if isNew then r.md.reset else r.md) now }
        exact ⟨h1, h2⟩
      · have hp' : old.md.permitted o.loc o.int = false := by simpa using hp
        simp only [hp', Bool.false_eq_true, if_false] at g2; subst g2
        simp only [hp', Bool.not_false, if_true]
        exact ⟨g1, rfl⟩

/-! #### queries, purge, maintenance, batches -/

theorem Store.nodup_filter {s : Store} (h : s.NodupKeys) (p : Rec → Bool) : Store.NodupKeys (s.filter p) := by
  unfold Store.NodupKeys at *
  exact List.Nodup.sublist (List.Sublist.map _ List.filter_sublist) h

theorem Store.get_filter {s : Store} (h : s.NodupKeys) (p : Rec → Bool) (k : String) :
    Store.get (s.filter p) k = (Store.get s k).bind (fun r => if p r then some r else none) := by
  have : s.filter p = s.filterMap (fun r => if p r then some r else none) := by
    induction s with
    | nil => rfl
    | cons x s ih =>
      have hs : Store.NodupKeys s := by
        unfold Store.NodupKeys at *; simp only [List.map_cons, List.nodup_cons] at h; exact h.2
      by_cases hp : p x = true <;> simp [List.filter, List.filterMap_cons, hp, ih hs]
  rw [this]
  apply Store.get_filterMap h
  intro r r' hr
  by_cases hp : p r = true <;> simp [hp] at hr
  subst hr; rfl

/-- Filters that only accept valid records see the same records in storage and reference. -/
theorem filter_perm_of_view {s m : Store} (p : Rec → Bool)
    (hp : ∀ a, p a = true → a.md.valid now = true)
    (hv : ∀ k, vis now (s.get k) = vis now (m.get k)) (hs : s.NodupKeys) (hm : m.NodupKeys) :
    (s.filter p).Perm (m.filter p) := by
  apply (List.perm_ext_iff_of_nodup
    (List.Nodup.sublist List.filter_sublist (Store.nodup_list hs))
    (List.Nodup.sublist List.filter_sublist (Store.nodup_list hm))).mpr
  intro a
  have key : ∀ (t : Store), t.NodupKeys → (a ∈ t.filter p ↔ vis now (t.get a.key) = some a ∧ p a = true) := by
    intro t ht
    rw [List.mem_filter, Store.mem_iff_get ht]
    constructor
    · rintro ⟨h1, h2⟩; rw [h1, vis_of_valid (hp a h2)]; exact ⟨rfl, h2⟩
    · rintro ⟨h1, h2⟩; exact ⟨(vis_some h1).1, h2⟩
  rw [key s hs, key m hm, hv a.key]

/-- Pointwise rewriting of storage and reference by functions that agree on valid records and keep invalid
    records invalid preserves the common view. -/
theorem view_bind {a b : Option Rec} (g g' : Rec → Option Rec)
    (hval : ∀ r, r.md.valid now = true → vis now (g r) = vis now (g' r))
    (hinv : ∀ r, r.md.valid now = false → vis now (g r) = none)
    (hinv' : ∀ r, r.md.valid now = false → vis now (g' r) = none)
    (hab : vis now a = vis now b) : vis now (a.bind g) = vis now (b.bind g') := by
  have one : ∀ (x : Option Rec) (f : Rec → Option Rec), (∀ r, r.md.valid now = false → vis now (f r) = none) →
      vis now (x.bind f) = (vis now x).elim none (fun r => vis now (f r)) := by
    intro x f hf
    cases x with
    | none => rfl
    | some r =>
      by_cases hv : r.md.valid now = true
      · simp [vis_of_valid hv, Option.elim]
      · have hv' : r.md.valid now = false := by simpa using hv
        simp [vis_of_invalid hv', Option.elim, hf r hv']
  rw [one a g hinv, one b g' hinv', hab]
  cases hb : vis now b with
  | none => rfl
  | some r => simp only [Option.elim]; exact hval r (vis_some hb).2

theorem selects_valid (q : Query) (l i : Bool) (a : Rec) (h : q.selects l i now a = true) : a.md.valid now = true := by
  unfold Query.selects at h; simp at h; exact h.1.1.2

theorem purges_valid (q : Query) (l i : Bool) (a : Rec) (h : q.purges l i now a = true) : a.md.valid now = true := by
  unfold Query.purges at h; simp at h; exact h.1.2

theorem ifQuery_sim (hs : Sim cfg o now st m) (q : Query) :
    Sim cfg o now (ifQuery o st q now).1 (KV.step cfg o m (.query q) now).1 ∧
    KV.outEq cfg.backend (ifQuery o st q now).2 (KV.step cfg o m (.query q) now).2 := by
  unfold ifQuery KV.step
  by_cases hc : q.check = true
  · simp only [hc, Bool.not_true, Bool.false_eq_true, if_false]
    exact ⟨hs, filter_perm_of_view _ (selects_valid q o.loc o.int) hs.view hs.nds hs.ndm⟩
  · simp only [hc, Bool.not_false, if_true]
    exact ⟨hs, rfl⟩

theorem purgeRec_key (cfg : Cfg) (q : Query) (l i : Bool) (r r' : Rec) (h : purgeRec cfg q l i now r = some r') :
    r'.key = r.key := by
  unfold purgeRec at h
  split at h
  · split at h
    · cases h; exact stored_key _ _
    · cases h
  · cases h; rfl

theorem ifPurge_sim (hs : Sim cfg o now st m) (hpos : 0 < now) (hcn : o.cache = .none) (q : Query) :
    Sim cfg o now (ifPurge cfg o st q now).1 (KV.step cfg o m (.purge q) now).1 ∧
    KV.outEq cfg.backend (ifPurge cfg o st q now).2 (KV.step cfg o m (.purge q) now).2 := by
  unfold ifPurge KV.step
  by_cases hc : q.check = true
  · simp only [hc, Bool.not_true, Bool.false_eq_true, if_false]
    by_cases hp : cfg.backend.hasPurge = true
    · simp only [hp, Bool.not_true, Bool.false_eq_true, if_false]
      unfold purge
      simp only
      refine ⟨?_, ?_⟩
      · refine { view := ?_, coh := ?_, fixed := ?_, nds := ?_, ndm := ?_, wc := hs.wc, nc := hs.nc }
        · intro k
          rw [Store.get_filterMap hs.nds _ (purgeRec_key cfg q o.loc o.int), Store.get_filter hs.ndm]
          apply view_bind _ _ _ _ _ (hs.view k)
          · intro r hv
            unfold purgeRec
            by_cases hpu : q.purges o.loc o.int now r = true
            · simp only [hpu, if_true, Bool.not_true, Bool.false_eq_true, if_false]
              split
              · rw [vis_of_invalid]; · rfl
                rw [stored_md]; apply Meta.deleted_invalid; unfold Meta.delete; simp; exact hpos
              · rfl
            · simp [hpu]
          · intro r hv
            have : q.purges o.loc o.int now r = false := by
              cases h : q.purges o.loc o.int now r with
              | false => rfl
              | true => rw [purges_valid q _ _ r h] at hv; cases hv
            unfold purgeRec; simp [this, vis_of_invalid hv]
          · intro r hv
            by_cases h : (!q.purges o.loc o.int now r) = true <;> simp [h, vis_of_invalid hv, vis_none]
        · intro k rc hcc; simp only at hcc; rw [hs.nc hcn] at hcc; simp [Store.get] at hcc
        · intro k r hr
          simp only at hr
          rw [Store.get_filterMap hs.nds _ (purgeRec_key cfg q o.loc o.int)] at hr
          cases hg : st.store.get k with
          | none => rw [hg] at hr; cases hr
          | some x =>
            rw [hg] at hr; simp only [Option.bind] at hr
            unfold purgeRec at hr
            split at hr
            · split at hr
              · cases hr; exact stored_idem _ _
              · cases hr
            · cases hr; exact hs.fixed k _ hg
        · exact Store.nodup_filterMap hs.nds _ (purgeRec_key cfg q o.loc o.int)
        · exact Store.nodup_filter hs.ndm _
      · exact List.Perm.length_eq (filter_perm_of_view _ (purges_valid q o.loc o.int) hs.view hs.nds hs.ndm)
    · simp only [hp, Bool.not_false, if_true]
      exact ⟨hs, rfl⟩
  · simp only [hc, Bool.not_false, if_true]
    exact ⟨hs, rfl⟩

/-! ### The decision switch of `MaintainRecordStates`, with the comparisons of the source (`PB.Gen.DbTime`) -/

set_option linter.unusedSimpArgs false in
/-- The source's first case ("expired, not yet marked deleted") only fires on a record `CheckValidity` already
    rejects, and the stamp it is marked with is a deletion stamp (positive). -/
theorem Backend.expiredCase_dead (b : Backend) (m : Meta) (now thr : Int) (sh : Bool)
    (h : b.expiredCase m now thr sh = true) : m.valid now = false ∧ b.expiredMark m now thr > 0 := by
  cases b <;>
    simp only [Backend.expiredCase, Backend.expiredMark, PB.Gen.DbTime.hashmapExpired, PB.Gen.DbTime.bboltExpired,
      PB.Gen.DbTime.hashmapMark, PB.Gen.DbTime.bboltMark, Meta.valid, Bool.and_eq_true, Bool.or_eq_true,
      Bool.not_eq_true', decide_eq_true_eq, decide_eq_false_iff_not] at h ⊢ <;>
    (try cases h) <;> (constructor <;> (try split) <;> (try split) <;> (first | rfl | omega | grind))

set_option linter.unusedSimpArgs false in
/-- The source's second case (physical removal) only fires on a record that is marked deleted. -/
theorem Backend.removeCase_dead (b : Backend) (m : Meta) (now thr : Int) (sh : Bool)
    (h : b.removeCase m now thr sh = true) : m.deleted > 0 := by
  cases b <;>
    simp only [Backend.removeCase, PB.Gen.DbTime.hashmapRemove, PB.Gen.DbTime.bboltRemove, Bool.and_eq_true, Bool.or_eq_true,
      Bool.not_eq_true', decide_eq_true_eq, decide_eq_false_iff_not] at h <;>
    (first | (cases h; done) | omega | grind)

theorem maintainRec_key (cfg : Cfg) (thr : Int) (r r' : Rec) (h : maintainRec cfg now thr r = some r') : r'.key = r.key := by
  unfold maintainRec at h
  split at h
  · split at h
    · cases h; exact stored_key _ _
    · cases h
  · split at h
    · cases h
    · cases h; rfl

/-- Maintenance leaves a valid record alone. -/
theorem maintainRec_valid (cfg : Cfg) (thr : Int) (r : Rec) (hv : r.md.valid now = true) :
    maintainRec cfg now thr r = some r := by
  unfold maintainRec
  have h1 : cfg.backend.expiredCase r.md now thr cfg.shadow = false := by
    cases h : cfg.backend.expiredCase r.md now thr cfg.shadow with
    | false => rfl
    | true => have := (Backend.expiredCase_dead _ _ _ _ _ h).1; rw [hv] at this; cases this
  have h2 : cfg.backend.removeCase r.md now thr cfg.shadow = false := by
    cases h : cfg.backend.removeCase r.md now thr cfg.shadow with
    | false => rfl
    | true => exact absurd (Backend.removeCase_dead _ _ _ _ _ h) (Meta.valid_not_deleted hv)
  simp [h1, h2]

/-- Whatever maintenance does to a record that is not valid, the result is not valid. -/
theorem maintainRec_invalid (cfg : Cfg) (thr : Int) (r : Rec) (hv : r.md.valid now = false) :
    vis now (maintainRec cfg now thr r) = none := by
  unfold maintainRec
  split
  · rename_i h
    split
    · rw [vis_of_invalid]; rw [stored_md]; apply Meta.deleted_invalid; simp only
      exact (Backend.expiredCase_dead _ _ _ _ _ h).2
    · rfl
  · split
    · rfl
    · exact vis_of_invalid hv

theorem maintain_sim (hs : Sim cfg o now st m) (thr : Int) (skip : List String) :
    Sim cfg o now { st with store := maintainSkip cfg st.store now thr skip } m := by
  unfold maintainSkip
  by_cases hm : cfg.backend.maintains = true
  · simp only [hm, if_true]
    have hkey : ∀ r r', (if skip.contains r.key = true then some r else maintainRec cfg now thr r) = some r' → r'.key = r.key := by
      intro r r' h
      split at h
      · cases h; rfl
      · exact maintainRec_key cfg thr r r' h
    have hvalid : ∀ r, r.md.valid now = true →
        (if skip.contains r.key = true then some r else maintainRec cfg now thr r) = some r := by
      intro r hv; split
      · rfl
      · exact maintainRec_valid cfg thr r hv
    refine { view := ?_, coh := ?_, fixed := ?_, nds := ?_, ndm := hs.ndm, wc := hs.wc, nc := hs.nc }
    · intro k
      simp only
      rw [Store.get_filterMap hs.nds _ hkey]
      have : m.get k = (m.get k).bind some := by cases m.get k <;> rfl
      rw [this]
      apply view_bind _ _ _ _ _ (hs.view k)
      · intro r hv; rw [hvalid r hv]
      · intro r hv; split
        · exact vis_of_invalid hv
        · exact maintainRec_invalid cfg thr r hv
      · intro r hv; exact vis_of_invalid hv
    · intro k rc hc hv
      simp only at hc ⊢
      rw [Store.get_filterMap hs.nds _ hkey, hs.coh k rc hc hv]
      simp only [Option.bind]
      exact hvalid _ (by rw [stored_md]; exact hv)
    · intro k r hr
      simp only at hr
      rw [Store.get_filterMap hs.nds _ hkey] at hr
      cases hg : st.store.get k with
      | none => rw [hg] at hr; cases hr
      | some x =>
        rw [hg] at hr; simp only [Option.bind] at hr
        split at hr
        · cases hr; exact hs.fixed k _ hg
        · unfold maintainRec at hr
          split at hr
          · split at hr
            · cases hr; exact stored_idem _ _
            · cases hr
          · split at hr
            · cases hr
            · cases hr; exact hs.fixed k _ hg
    · exact Store.nodup_filterMap hs.nds _ hkey
  · simp only [hm]
    exact { view := hs.view, coh := hs.coh, fixed := hs.fixed, nds := hs.nds, ndm := hs.ndm, wc := hs.wc, nc := hs.nc }

theorem batch_sim (b : Backend) (sh : Bool) (rs : List Rec) :
    ∀ (s m : Store), (∀ k, vis now (s.get k) = vis now (m.get k)) →
      (∀ k r, s.get k = some r → stored b r = r) → s.NodupKeys → m.NodupKeys →
      (∀ k, vis now ((batchApply { backend := b, shadow := sh } o now s rs).get k) = vis now ((KV.storeAll b o now m rs).get k)) ∧
      (∀ k r, (batchApply { backend := b, shadow := sh } o now s rs).get k = some r → stored b r = r) ∧
      (batchApply { backend := b, shadow := sh } o now s rs).NodupKeys ∧ (KV.storeAll b o now m rs).NodupKeys := by
  induction rs with
  | nil => intro s m hv hf hs hm; exact ⟨hv, hf, hs, hm⟩
  | cons r rest ih =>
    intro s m hv hf hs hm
    unfold batchApply KV.storeAll
    apply ih
    · intro k
      exact storePut_view (cfg := { backend := b, shadow := sh }) _ _ hv rfl rfl rfl k
    · exact storePut_fixed (cfg := { backend := b, shadow := sh }) hf _
    · exact storePut_nodup hs _
    · exact kvstore_nodup hm _

theorem ifPutMany_sim (hs : Sim cfg o now st m) (hcn : o.cache = .none) (rs : List Rec) :
    Sim cfg o now (ifPutMany cfg o st rs now).1 (KV.step cfg o m (.putMany rs) now).1 ∧
    KV.outEq cfg.backend (ifPutMany cfg o st rs now).2 (KV.step cfg o m (.putMany rs) now).2 := by
  unfold ifPutMany KV.step
  by_cases ha : o.all = true
  · simp only [ha, Bool.not_true, Bool.false_eq_true, if_false]
    by_cases hb : cfg.backend.hasBatch = true
    · simp only [hb, Bool.not_true, Bool.false_eq_true, if_false]
      obtain ⟨b, sh⟩ := cfg
      obtain ⟨h1, h2, h3, h4⟩ := batch_sim (o := o) (now := now) b sh rs st.store m hs.view hs.fixed hs.nds hs.ndm
      refine ⟨{ view := h1, coh := ?_, fixed := h2, nds := h3, ndm := h4, wc := hs.wc, nc := hs.nc }, trivial⟩
      intro k rc hc; simp only at hc; rw [hs.nc hcn] at hc; simp [Store.get] at hc
    · simp only [hb, Bool.not_false, if_true]; exact ⟨hs, rfl⟩
  · simp only [ha, Bool.not_false, if_true]; exact ⟨hs, rfl⟩

theorem ifInsert_sim (hs : Sim cfg o now st m) (hcn : o.cache = .none) (k attr : String) (p : Prim) :
    Sim cfg o now (ifInsert cfg o st k attr p now).1 (KV.insert cfg.backend o m k attr p now).1 ∧
    KV.outEq cfg.backend (ifInsert cfg o st k attr p now).2 (KV.insert cfg.backend o m k attr p now).2 := by
  have hd : o.cache ≠ .delay := by rw [hcn]; decide
  obtain ⟨h1, h2, h3, h4⟩ := getRecord_sim hs hd k
  unfold ifInsert KV.insert
  generalize getRecord cfg o st k now = gr at *
  obtain ⟨res, st1⟩ := gr
  cases res with
  | error e => simp only at h3 ⊢; rw [h3 e rfl]; exact ⟨h1, rfl⟩
  | ok r =>
    simp only at h1 h2 h4 ⊢
    obtain ⟨hkv, hv, _, hkey, _, hfix⟩ := h4 r rfl
    rw [hkv, hfix hcn]
    simp only
    cases hsf : setField r.form r.fields attr p with
    | none => exact ⟨h1, rfl⟩
    | some fs =>
      simp only
      rw [aliasUpdate_nowc _ _ h1.wc]
      refine ⟨?_, trivial⟩
      have hc0 : st1.cache = [] := h1.nc hcn
      apply write_sim h1 _ _ _ rfl rfl rfl
      · intro k' _; simp only; rw [hc0]; simp [Store.has, Store.get]
      · intro rc hrc; simp only at hrc; rw [hc0] at hrc; simp [Store.has, Store.get] at hrc
      · intro _; simp only; rw [hc0]; simp [Store.has, Store.get]

theorem step_sim (hs : Sim cfg o now st m) (hpos : 0 < now) (hd : o.cache ≠ .delay) (op : Op) (hsafe : KV.cacheSafe o op) :
    Sim cfg o now (step cfg o st op now).1 (KV.step cfg o m op now).1 ∧
    KV.outEq cfg.backend (step cfg o st op now).2 (KV.step cfg o m op now).2 := by
  cases op with
  | get k => exact ifGet_sim hs hd k
  | exists_ k => exact ifExists_sim hs hd k
  | put r => exact ifPut_sim hs hd r false
  | putNew r => exact ifPut_sim hs hd r true
  | delete k => exact ifModify_sim hs hd k _
  | setAbs k t => exact ifModify_sim hs hd k _
  | setRel k d => exact ifModify_sim hs hd k _
  | mkSecret k => exact ifModify_sim hs hd k _
  | mkCrown k => exact ifModify_sim hs hd k _
  | insert k a p => exact ifInsert_sim hs hsafe k a p
  | putMany rs => exact ifPutMany_sim hs hsafe rs
  | query q => exact ifQuery_sim hs q
  | purge q => exact ifPurge_sim hs hpos hsafe q
  | maintain thr skip => exact ⟨maintain_sim hs thr skip, trivial⟩
  | flush =>
    unfold step ifFlush KV.step
    simp only [hd, ne_eq, not_false_eq_true, if_true]
    exact ⟨hs, trivial⟩
  | clear =>
    unfold step ifClear KV.step
    refine ⟨{ view := hs.view, coh := ?_, fixed := hs.fixed, nds := hs.nds, ndm := hs.ndm, wc := hs.wc, nc := fun _ => rfl }, trivial⟩
    intro k rc hc; simp [Store.get] at hc
  | evict k =>
    unfold step KV.step
    simp only
    split
    · rw [evict_nowc cfg st k hs.wc]; exact ⟨hs.dropCache k, trivial⟩
    · exact ⟨hs, trivial⟩

end ops

/-- Refinement of whole histories from related states. -/
theorem run_sim {cfg : Cfg} {o : Opts} (hd : o.cache ≠ .delay) :
    ∀ (ops : List (Op × Int)) (t : Int) (st : ISt) (m : Store), Sim cfg o t st m → KV.wellTimed t ops →
      (∀ x ∈ ops, KV.cacheSafe o x.1) →
      KV.outsEq cfg.backend (run cfg o st ops) (KV.run cfg o m ops) := by
  intro ops
  induction ops with
  | nil => intro t st m _ _ _; trivial
  | cons x rest ih =>
    intro t st m hs ht hsafe
    obtain ⟨op, now⟩ := x
    obtain ⟨hle, hpos, hrest⟩ := ht
    have h := step_sim (hs.mono hle) hpos hd op (hsafe (op, now) (List.mem_cons_self ..))
    unfold run KV.run
    simp only
    refine ⟨h.2, ?_⟩
    exact ih now _ _ h.1 hrest (fun y hy => hsafe y (List.mem_cons_of_mem _ hy))

end PB.Db
