import PB.Model.Db
/-
Lemmas about the number model of `PB.Db` (C02): float64 rounding of integers (`f64Nat`), `int64` wrap-around,
`gjson.Result.Int` (`gjsonInt`). Used by `PB.C02.struct_json_agree` and its companions.
-/
namespace PB.Db

theorem f64Exp_lt (fuel n : Nat) (h : n < two53) : f64Exp fuel n = 0 := by
  cases fuel <;> simp [f64Exp, h]

/-- Below 2^53 every integer is a float64. -/
theorem f64Nat_lt (n : Nat) (h : n < two53) : f64Nat n = n := by
  simp [f64Nat, f64Exp_lt n n h, Nat.mod_one]

/-- Dropping the low bits of `n ≥ 2^53` leaves at least 2^53. -/
theorem f64Exp_floor_ge : ∀ (fuel n : Nat), n ≤ fuel → two53 ≤ n →
    two53 ≤ n / 2 ^ f64Exp fuel n * 2 ^ f64Exp fuel n := by
  intro fuel
  induction fuel with
  | zero => intro n h1 h2; simp [two53] at h2; omega
  | succ fuel ih =>
    intro n h1 h2
    have hn : ¬ n < two53 := by omega
    simp only [f64Exp, hn, if_false]
    rw [Nat.pow_succ, Nat.mul_comm (2 ^ f64Exp fuel (n / 2)) 2, ← Nat.div_div_eq_div_mul]
    by_cases hh : n / 2 < two53
    · rw [f64Exp_lt fuel (n / 2) hh]
      simp [two53] at h2 ⊢
      omega
    · have h3 : n / 2 ≤ fuel := by simp [two53] at h2; omega
      have := ih (n / 2) h3 (by omega)
      generalize n / 2 / 2 ^ f64Exp fuel (n / 2) = a at this ⊢
      generalize 2 ^ f64Exp fuel (n / 2) = b at this ⊢
      calc two53 ≤ a * b := this
        _ ≤ a * (2 * b) := Nat.mul_le_mul_left a (by omega)

/-- From 2^53 on, rounding stays at or above 2^53. -/
theorem f64Nat_ge (n : Nat) (h : two53 ≤ n) : two53 ≤ f64Nat n := by
  have := f64Exp_floor_ge n n (Nat.le_refl n) h
  unfold f64Nat
  simp only
  split
  · exact Nat.le_trans this (Nat.mul_le_mul_right _ (Nat.le_succ _))
  · exact this

theorem f64Int_small (i : Int) (h1 : -9007199254740992 < i) (h2 : i < 9007199254740992) : f64Int i = i := by
  have hn : i.natAbs < two53 := by simp [two53]; omega
  unfold f64Int
  rw [f64Nat_lt _ hn]
  split <;> omega

theorem f64Int_big_pos (i : Int) (h : 9007199254740992 ≤ i) : 9007199254740992 ≤ f64Int i := by
  have hn : two53 ≤ i.natAbs := by simp [two53]; omega
  have := f64Nat_ge _ hn
  unfold f64Int
  simp [two53] at this
  split <;> omega

theorem f64Int_big_neg (i : Int) (h : i ≤ -9007199254740992) : f64Int i ≤ -9007199254740992 := by
  have hn : two53 ≤ i.natAbs := by simp [two53]; omega
  have := f64Nat_ge _ hn
  unfold f64Int
  simp [two53] at this
  split <;> omega

theorem wrap64_id (i : Int) (h1 : -9223372036854775808 ≤ i) (h2 : i ≤ 9223372036854775807) : wrap64 i = i := by
  unfold wrap64; omega

/-- `gjson.Result.Int()` on the integer literal encoding/json writes for an `int64` is that `int64` — over the whole
    range: up to ±(2^53-1) through the float64 (`safeInt`), beyond through the raw text (`parseInt`). -/
theorem gjsonInt_int64 (i : Int) (h1 : -9223372036854775808 ≤ i) (h2 : i ≤ 9223372036854775807) :
    gjsonInt (i * 1000) = i := by
  have hm : i * 1000 % 1000 = 0 := Int.mul_emod_left i 1000
  have hd : i * 1000 / 1000 = i := Int.mul_ediv_cancel i (by decide)
  unfold gjsonInt f64m
  simp only [hm, hd, if_true]
  by_cases hs : -9007199254740992 < i ∧ i < 9007199254740992
  · rw [f64Int_small i hs.1 hs.2]
    have : ¬ (i * 1000 < -9007199254740991000 ∨ i * 1000 > 9007199254740991000) := by omega
    simp only [this, if_false]
    exact Int.mul_tdiv_cancel i (by decide)
  · by_cases hp : 9007199254740992 ≤ i
    · have := f64Int_big_pos i hp
      have : f64Int i * 1000 < -9007199254740991000 ∨ f64Int i * 1000 > 9007199254740991000 := by omega
      simp only [this, if_true]
      exact wrap64_id i h1 h2
    · have hneg : i ≤ -9007199254740992 := by omega
      have := f64Int_big_neg i hneg
      have : f64Int i * 1000 < -9007199254740991000 ∨ f64Int i * 1000 > 9007199254740991000 := by omega
      simp only [this, if_true]
      exact wrap64_id i h1 h2

/-- The same number through the float64 alone (`int64(result.Num)`) is NOT the `int64` from 2^53 + 1 on. -/
theorem truncOfFloat_loses_int64 : truncToInt64 (f64m (9007199254740993 * 1000)) = 9007199254740992 := by decide

end PB.Db
