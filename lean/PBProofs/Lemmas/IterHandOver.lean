import PB.Model.Iter
/- Invariants of the hand-over model `PB.Iter.HandOver` (C03: a running query against concurrent re-flagging). -/
namespace PB.Iter.HandOver

/-- Nothing that still waits for its check, and nothing that was marked while it waited, is on its way to the consumer. -/
def Inv (s : St) : Prop :=
  s.todo.Nodup ∧ (∀ x ∈ s.due, x ∈ s.prot) ∧
  (∀ x ∈ s.todo, x ∉ s.recvd ∧ x ∉ s.buf ∧ s.hand ≠ some x) ∧
  (∀ x ∈ s.due, x ∉ s.recvd ∧ x ∉ s.buf ∧ s.hand ≠ some x)

theorem inv_init (todo : List Nat) (cap : Nat) (h : todo.Nodup) : Inv (init todo cap) := by
  refine ⟨h, ?_, ?_, ?_⟩ <;> simp [init]

theorem inv_step (s s' : St) (a : Act) (hi : Inv s) (hs : step s a = some s') : Inv s' := by
  obtain ⟨hnd, hdp, htd, hdu⟩ := hi
  cases a with
  | check =>
    simp only [step] at hs
    split at hs
    · rename_i x rest hh ht
      have hnd' : (x :: rest).Nodup := ht ▸ hnd
      have hx : x ∉ rest := (List.nodup_cons.mp hnd').1
      split at hs
      · cases hs
        refine ⟨(List.nodup_cons.mp hnd').2, hdp, ?_, hdu⟩
        intro y hy
        exact htd y (by rw [ht]; exact List.mem_cons_of_mem _ hy)
      · rename_i hnp
        cases hs
        refine ⟨(List.nodup_cons.mp hnd').2, hdp, ?_, ?_⟩
        · intro y hy
          have := htd y (by rw [ht]; exact List.mem_cons_of_mem _ hy)
          refine ⟨this.1, this.2.1, ?_⟩
          intro he
          have : x = y := Option.some.inj he
          exact hx (this ▸ hy)
        · intro y hy
          have := hdu y hy
          refine ⟨this.1, this.2.1, ?_⟩
          intro he
          have : x = y := Option.some.inj he
          exact hnp (this ▸ hdp y hy)
    · cases hs
  | send =>
    simp only [step] at hs
    split at hs
    · rename_i x hh
      split at hs
      · cases hs
        refine ⟨hnd, hdp, ?_, ?_⟩
        · intro y hy
          have hq := htd y hy
          refine ⟨hq.1, ?_, by simp⟩
          intro hm
          rcases List.mem_append.mp hm with h1 | h1
          · exact hq.2.1 h1
          · have hyx : y = x := by simpa using h1
            exact hq.2.2 (by rw [hh, hyx])
        · intro y hy
          have hq := hdu y hy
          refine ⟨hq.1, ?_, by simp⟩
          intro hm
          rcases List.mem_append.mp hm with h1 | h1
          · exact hq.2.1 h1
          · have hyx : y = x := by simpa using h1
            exact hq.2.2 (by rw [hh, hyx])
      · cases hs
    · cases hs
  | recv =>
    simp only [step] at hs
    split at hs
    · rename_i x rest hb
      cases hs
      refine ⟨hnd, hdp, ?_, ?_⟩
      · intro y hy
        have := htd y hy
        rw [hb] at this
        refine ⟨?_, fun hm => this.2.1 (List.mem_cons_of_mem _ hm), this.2.2⟩
        intro hm
        rcases List.mem_cons.mp hm with h1 | h1
        · exact this.2.1 (by rw [h1]; exact List.mem_cons_self)
        · exact this.1 h1
      · intro y hy
        have := hdu y hy
        rw [hb] at this
        refine ⟨?_, fun hm => this.2.1 (List.mem_cons_of_mem _ hm), this.2.2⟩
        intro hm
        rcases List.mem_cons.mp hm with h1 | h1
        · exact this.2.1 (by rw [h1]; exact List.mem_cons_self)
        · exact this.1 h1
    · cases hs
  | protect x =>
    simp only [step] at hs
    cases hs
    refine ⟨hnd, ?_, htd, ?_⟩
    · intro y hy
      by_cases hx : x ∈ s.todo
      · simp [hx] at hy
        rcases hy with h1 | h1
        · simp [h1]
        · exact List.mem_cons_of_mem _ (hdp y h1)
      · simp [hx] at hy
        exact List.mem_cons_of_mem _ (hdp y hy)
    · intro y hy
      by_cases hx : x ∈ s.todo
      · simp [hx] at hy
        rcases hy with h1 | h1
        · exact h1 ▸ htd x hx
        · exact hdu y h1
      · simp [hx] at hy
        exact hdu y hy

theorem inv_exec (sched : List Act) (s s' : St) (hi : Inv s) (hs : exec s sched = some s') : Inv s' := by
  induction sched generalizing s with
  | nil => simp [exec] at hs; exact hs ▸ hi
  | cons a rest ih =>
    simp only [exec] at hs
    split at hs
    · rename_i s1 h1
      exact ih s1 (inv_step s s1 a hi h1) hs
    · cases hs

/-- Every candidate still to be visited is marked (the re-flag of all of them has returned). -/
def Closed (s : St) : Prop := ∀ x ∈ s.todo, x ∈ s.prot

theorem closed_step (s s' : St) (a : Act) (hc : Closed s) (hb : s.buf.length ≤ s.cap) (hs : step s a = some s') :
    Closed s' ∧ s'.buf.length ≤ s'.cap ∧ s'.cap = s.cap ∧ inFlight s' ≤ inFlight s := by
  cases a with
  | check =>
    simp only [step] at hs
    split at hs
    · rename_i x rest hh ht
      have hx : x ∈ s.prot := hc x (by rw [ht]; exact List.mem_cons_self)
      simp [hx] at hs
      cases hs
      refine ⟨?_, hb, rfl, by simp [inFlight]⟩
      intro y hy
      exact hc y (by rw [ht]; exact List.mem_cons_of_mem _ hy)
    · cases hs
  | send =>
    simp only [step] at hs
    split at hs
    · rename_i x hh
      split at hs
      · rename_i hlt
        cases hs
        refine ⟨hc, by simp; omega, rfl, ?_⟩
        simp [inFlight, hh]
        omega
      · cases hs
    · cases hs
  | recv =>
    simp only [step] at hs
    split at hs
    · rename_i x rest hbuf
      cases hs
      refine ⟨hc, by simp [hbuf] at hb ⊢; omega, rfl, ?_⟩
      simp [inFlight, hbuf]
      omega
    · cases hs
  | protect x =>
    simp only [step] at hs
    cases hs
    refine ⟨fun y hy => List.mem_cons_of_mem _ (hc y hy), hb, rfl, by simp [inFlight]⟩

theorem closed_exec (sched : List Act) (s s' : St) (hc : Closed s) (hb : s.buf.length ≤ s.cap) (hs : exec s sched = some s') :
    inFlight s' ≤ inFlight s := by
  induction sched generalizing s with
  | nil => simp [exec] at hs; rw [hs]; exact Nat.le_refl _
  | cons a rest ih =>
    simp only [exec] at hs
    split at hs
    · rename_i s1 h1
      obtain ⟨c1, b1, _, f1⟩ := closed_step s s1 a hc hb h1
      exact Nat.le_trans (ih s1 c1 b1 hs) f1
    · cases hs

theorem buf_le_cap_step (s s' : St) (a : Act) (hb : s.buf.length ≤ s.cap) (hs : step s a = some s') :
    s'.buf.length ≤ s'.cap := by
  cases a with
  | check =>
    simp only [step] at hs
    split at hs
    · split at hs <;> cases hs <;> exact hb
    · cases hs
  | send =>
    simp only [step] at hs
    split at hs
    · split at hs
      · cases hs; simp; omega
      · cases hs
    · cases hs
  | recv =>
    simp only [step] at hs
    split at hs
    · rename_i x rest hbuf
      cases hs
      simp [hbuf] at hb ⊢; omega
    · cases hs
  | protect x => simp only [step] at hs; cases hs; exact hb

theorem buf_le_cap_exec (sched : List Act) (s s' : St) (hb : s.buf.length ≤ s.cap) (hs : exec s sched = some s') :
    s'.buf.length ≤ s'.cap := by
  induction sched generalizing s with
  | nil => simp [exec] at hs; exact hs ▸ hb
  | cons a rest ih =>
    simp only [exec] at hs
    split at hs
    · rename_i s1 h1
      exact ih s1 (buf_le_cap_step s s1 a hb h1) hs
    · cases hs

end PB.Iter.HandOver
