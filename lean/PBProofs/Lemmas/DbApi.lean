import PB.Model.DbApi
/-
Helper lemmas for C13 (database API protocol).
-/
set_option linter.unusedSimpArgs false
set_option linter.unusedVariables false

namespace PB.DbApi
open PB PB.DbApiProto

/-! ### `cut` -/

theorem cut_append (sep : UInt8) (h t : Bytes) (hn : sep ∉ h) :
    cut sep (h ++ sep :: t) = some (h, t) := by
  induction h with
  | nil => simp [cut]
  | cons b bs ih =>
    have hb : b ≠ sep := fun e => hn (by simp [e])
    have hbs : sep ∉ bs := fun e => hn (by simp [e])
    simp [cut, hb, ih hbs]

theorem cut_none (sep : UInt8) (l : Bytes) (hn : sep ∉ l) : cut sep l = none := by
  induction l with
  | nil => simp [cut]
  | cons b bs ih =>
    have hb : b ≠ sep := fun e => hn (by simp [e])
    have hbs : sep ∉ bs := fun e => hn (by simp [e])
    simp [cut, hb, ih hbs]

theorem cut_some (sep : UInt8) (l h t : Bytes) (hc : cut sep l = some (h, t)) :
    l = h ++ sep :: t ∧ sep ∉ h := by
  induction l generalizing h t with
  | nil => simp [cut] at hc
  | cons b bs ih =>
    unfold cut at hc
    by_cases hb : b = sep
    · simp [hb] at hc
      obtain ⟨rfl, rfl⟩ := hc
      simp [hb]
    · simp [hb] at hc
      cases hcb : cut sep bs with
      | none => simp [hcb] at hc
      | some p =>
        obtain ⟨h', t'⟩ := p
        simp [hcb] at hc
        obtain ⟨rfl, rfl⟩ := hc
        obtain ⟨e, hn⟩ := ih h' t' hcb
        refine ⟨by simp [e], ?_⟩
        intro hm
        cases hm with
        | head => exact hb rfl
        | tail _ hm' => exact hn hm'

theorem cut_eq_none (sep : UInt8) (l : Bytes) (hc : cut sep l = none) : sep ∉ l := by
  induction l with
  | nil => simp
  | cons b bs ih =>
    unfold cut at hc
    by_cases hb : b = sep
    · simp [hb] at hc
    · simp [hb] at hc
      cases hcb : cut sep bs with
      | none =>
        intro hm
        cases hm with
        | head => exact hb rfl
        | tail _ hm' => exact ih hcb hm'
      | some p => simp [hcb] at hc

/-! ### command words -/

theorem rcmd_bytes_nobar (c : RCmd) : bar ∉ c.bytes := by cases c <;> decide
theorem wcmd_bytes_nobar (c : WCmd) : bar ∉ c.bytes := by cases c <;> decide
theorem rcmdOf_bytes (c : RCmd) : rcmdOf c.bytes = some c := by cases c <;> decide
theorem wcmdOf_bytes (c : WCmd) : wcmdOf c.bytes = some c := by cases c <;> decide
theorem rcmdOf_wbytes (c : WCmd) : rcmdOf c.bytes = none := by cases c <;> decide

theorem rcmdOf_some (b : Bytes) (c : RCmd) (h : rcmdOf b = some c) : b = c.bytes := by
  unfold rcmdOf at h
  repeat' split at h
  all_goals first
    | (cases h; simp_all [RCmd.bytes])
    | simp at h

theorem wcmdOf_some (b : Bytes) (c : WCmd) (h : wcmdOf b = some c) : b = c.bytes := by
  unfold wcmdOf at h
  repeat' split at h
  all_goals first
    | (cases h; simp_all [WCmd.bytes])
    | simp at h

/-! ### the protocol automaton -/

def tys (out : List Reply) : List RType := out.map (·.ty)

theorem run_append (p : Ph) (a b : List RType) :
    run p (a ++ b) = (run p a).bind (fun p' => run p' b) := by
  induction a generalizing p with
  | nil => simp [run]
  | cons t ts ih =>
    simp only [List.cons_append, run]
    cases delta p t with
    | none => simp
    | some p' => simpa using ih p'

/-- `Open` as a Boolean function. -/
def openB : Ph → Bool
  | .get1 | .write1 | .bad1 => false
  | _ => true

theorem openB_iff (p : Ph) : openB p = true ↔ Open p := by cases p <;> simp [openB, Open]

/-- `Complete` as a Boolean function. -/
def completeB : Ph → Bool
  | .fin | .c => true
  | _ => false

theorem completeB_iff (p : Ph) : completeB p = true ↔ Complete p := by cases p <;> simp [completeB, Complete]

/-- Where a handler is (program location) versus where its conversation is (protocol phase). -/
def sim : Pc → Ph → Bool
  | .start m, p => m.spawns && p == init m.kind
  | .qsOpen _, p => p == .qs0
  | .qloop _ false, p => p == .q
  | .qloop _ true, p => p == .qs0 || p == .qs
  | .sloop _, p => p == .s0 || p == .s
  | .fin, p => completeB p
  | .down, p => openB p

theorem queryItem_ty (op : Bytes) (r : RecView) :
    (queryItem op r).ty = .ok ∨ (queryItem op r).ty = .warning := by
  unfold queryItem; cases r.marshal <;> simp

theorem subItem_ty (op : Bytes) (r : RecView) :
    (subItem op r).ty = .warning ∨ (subItem op r).ty = .del ∨ (subItem op r).ty = .new ∨ (subItem op r).ty = .upd := by
  unfold subItem
  cases r.marshal with
  | error e => simp
  | ok d =>
    by_cases h1 : r.deleted = true
    · simp [h1]
    · by_cases h2 : r.isNew = true
      · simp [h1, h2]
      · simp [h1, h2]

theorem queryItem_op (op : Bytes) (r : RecView) : (queryItem op r).op = op := by
  unfold queryItem; cases r.marshal <;> simp

theorem subItem_op (op : Bytes) (r : RecView) : (subItem op r).op = op := by
  unfold subItem
  cases r.marshal with
  | error e => simp
  | ok d =>
    by_cases h1 : r.deleted = true
    · simp [h1]
    · by_cases h2 : r.isNew = true
      · simp [h1, h2]
      · simp [h1, h2]

/-! ### every handler step keeps its conversation inside the protocol -/

theorem stepOpen_sim (stay next : Pc) (op : Bytes) (o : Obs) (p : Ph)
    (hstay : sim stay p = true) (herr : delta p .error = some .fin) (hnext : sim next p = true) :
    ∃ p', run p (tys (stepOpen stay next op o).2) = some p' ∧ sim (stepOpen stay next op o).1 p' = true := by
  cases o with
  | res r =>
    cases r with
    | error e => exact ⟨.fin, by simp [stepOpen, tys, run, errReply, herr], by simp [stepOpen, sim, completeB, openB]⟩
    | ok u => exact ⟨p, by simp [stepOpen, tys, run], by simpa [stepOpen] using hnext⟩
  | _ => exact ⟨p, by simp [stepOpen, tys, run], by simpa [stepOpen] using hstay⟩

theorem stepWrite_sim (m : Msg) (op : Bytes) (o : Obs) (hm : sim (.start m) .write1 = true) :
    ∃ p', run .write1 (tys (stepWrite m op o).2) = some p' ∧ sim (stepWrite m op o).1 p' = true := by
  cases o with
  | res r =>
    cases r with
    | error e => exact ⟨.fin, by simp [stepWrite, tys, run, errReply, delta], by simp [stepWrite, sim, completeB, openB]⟩
    | ok u => exact ⟨.fin, by simp [stepWrite, tys, run, delta], by simp [stepWrite, sim, completeB, openB]⟩
  | _ => exact ⟨.write1, by simp [stepWrite, tys, run], by simpa [stepWrite] using hm⟩

theorem stepGet_sim (m : Msg) (op : Bytes) (o : Obs) (hm : sim (.start m) .get1 = true) :
    ∃ p', run .get1 (tys (stepGet m op o).2) = some p' ∧ sim (stepGet m op o).1 p' = true := by
  cases o with
  | got r =>
    cases r with
    | error e => exact ⟨.fin, by simp [stepGet, tys, run, errReply, delta], by simp [stepGet, sim, completeB, openB]⟩
    | ok v =>
      cases hv : v.marshal with
      | error e => exact ⟨.fin, by simp [stepGet, hv, tys, run, errReply, delta], by simp [stepGet, hv, sim, completeB, openB]⟩
      | ok d => exact ⟨.fin, by simp [stepGet, hv, tys, run, delta], by simp [stepGet, hv, sim, completeB, openB]⟩
  | _ => exact ⟨.get1, by simp [stepGet, tys, run], by simpa [stepGet] using hm⟩

theorem stepQuery_sim (op : Bytes) (ts : Bool) (o : Obs) (p : Ph) (h : sim (.qloop op ts) p = true) :
    ∃ p', run p (tys (stepQuery op ts o).2) = some p' ∧ sim (stepQuery op ts o).1 p' = true := by
  cases ts with
  | false =>
    have hp : p = .q := by simpa [sim, completeB, openB] using h
    subst hp
    cases o with
    | item r =>
      rcases queryItem_ty op r with ht | ht
      · exact ⟨.q, by simp [stepQuery, tys, run, ht, delta], by simp [stepQuery, sim, completeB, openB]⟩
      · exact ⟨.q, by simp [stepQuery, tys, run, ht, delta], by simp [stepQuery, sim, completeB, openB]⟩
    | closed e =>
      cases e with
      | none => exact ⟨.fin, by simp [stepQuery, tys, run, delta], by simp [stepQuery, sim, completeB, openB]⟩
      | some e => exact ⟨.fin, by simp [stepQuery, tys, run, errReply, delta], by simp [stepQuery, sim, completeB, openB]⟩
    | shutdown => exact ⟨.q, by simp [stepQuery, tys, run], by simp [stepQuery, sim, completeB, openB]⟩
    | _ => exact ⟨.q, by simp [stepQuery, tys, run], by simp [stepQuery, sim, completeB, openB]⟩
  | true =>
    have hp : p = .qs0 ∨ p = .qs := by simpa [sim, completeB, openB] using h
    cases o with
    | item r =>
      rcases hp with rfl | rfl <;> rcases queryItem_ty op r with ht | ht <;>
        exact ⟨.qs, by simp [stepQuery, tys, run, ht, delta], by simp [stepQuery, sim, completeB, openB]⟩
    | closed e =>
      cases e with
      | none => rcases hp with rfl | rfl <;> exact ⟨.s, by simp [stepQuery, tys, run, delta], by simp [stepQuery, sim, completeB, openB]⟩
      | some e => rcases hp with rfl | rfl <;> exact ⟨.fin, by simp [stepQuery, tys, run, errReply, delta], by simp [stepQuery, sim, completeB, openB]⟩
    | shutdown =>
      rcases hp with rfl | rfl
      · exact ⟨.qs0, by simp [stepQuery, tys, run], by simp [stepQuery, sim, completeB, openB]⟩
      · exact ⟨.qs, by simp [stepQuery, tys, run], by simp [stepQuery, sim, completeB, openB]⟩
    | _ =>
      rcases hp with rfl | rfl
      · exact ⟨.qs0, by simp [stepQuery, tys, run], by simp [stepQuery, sim, completeB, openB]⟩
      · exact ⟨.qs, by simp [stepQuery, tys, run], by simp [stepQuery, sim, completeB, openB]⟩

theorem stepSub_sim (op : Bytes) (o : Obs) (p : Ph) (h : sim (.sloop op) p = true) :
    ∃ p', run p (tys (stepSub op o).2) = some p' ∧ sim (stepSub op o).1 p' = true := by
  have hp : p = .s0 ∨ p = .s := by simpa [sim, completeB, openB] using h
  cases o with
  | item r =>
    rcases hp with rfl | rfl <;> rcases subItem_ty op r with ht | ht | ht | ht <;>
      exact ⟨.s, by simp [stepSub, tys, run, ht, delta], by simp [stepSub, sim, completeB, openB]⟩
  | closed e => rcases hp with rfl | rfl <;> exact ⟨.fin, by simp [stepSub, tys, run, delta], by simp [stepSub, sim, completeB, openB]⟩
  | shutdown =>
    rcases hp with rfl | rfl
    · exact ⟨.s0, by simp [stepSub, tys, run], by simp [stepSub, sim, completeB, openB]⟩
    · exact ⟨.s, by simp [stepSub, tys, run], by simp [stepSub, sim, completeB, openB]⟩
  | _ =>
    rcases hp with rfl | rfl
    · exact ⟨.s0, by simp [stepSub, tys, run], by simp [stepSub, sim, completeB, openB]⟩
    · exact ⟨.s, by simp [stepSub, tys, run], by simp [stepSub, sim, completeB, openB]⟩

theorem step_sim (pc : Pc) (o : Obs) (p : Ph) (h : sim pc p = true) :
    ∃ p', run p (tys (step pc o).2) = some p' ∧ sim (step pc o).1 p' = true := by
  cases pc with
  | start m =>
    cases m with
    | malformed => simp [sim, Msg.spawns] at h
    | unknown op => simp [sim, Msg.spawns] at h
    | cancel op =>
      have hp : p = .c := by simpa [sim, Msg.spawns, Msg.kind, init] using h
      subst hp
      cases o with
      | cancelRes r =>
        cases r with
        | none => exact ⟨.c, by simp [step, stepStart, stepCancel, tys, run], by simp [step, stepStart, stepCancel, sim, completeB, openB]⟩
        | some e => exact ⟨.fin, by simp [step, stepStart, stepCancel, tys, run, errReply, delta], by simp [step, stepStart, stepCancel, sim, completeB, openB]⟩
      | _ => exact ⟨.c, by simp [step, stepStart, stepCancel, tys, run], by simp [step, stepStart, stepCancel, sim, Msg.spawns, Msg.kind, init]⟩
    | read c op arg =>
      cases c with
      | get =>
        have hp : p = .get1 := by simpa [sim, Msg.spawns, Msg.kind, init] using h
        subst hp
        simpa [step, stepStart] using stepGet_sim _ op o h
      | query =>
        have hp : p = .q := by simpa [sim, Msg.spawns, Msg.kind, init] using h
        subst hp
        simpa [step, stepStart] using stepOpen_sim _ (.qloop op false) op o .q h (by simp [delta]) (by simp [sim, completeB, openB])
      | sub =>
        have hp : p = .s0 := by simpa [sim, Msg.spawns, Msg.kind, init] using h
        subst hp
        simpa [step, stepStart] using stepOpen_sim _ (.sloop op) op o .s0 h (by simp [delta]) (by simp [sim, completeB, openB])
      | qsub =>
        have hp : p = .qs0 := by simpa [sim, Msg.spawns, Msg.kind, init] using h
        subst hp
        simpa [step, stepStart] using stepOpen_sim _ (.qsOpen op) op o .qs0 h (by simp [delta]) (by simp [sim, completeB, openB])
      | delete =>
        have hp : p = .write1 := by simpa [sim, Msg.spawns, Msg.kind, init] using h
        subst hp
        simpa [step, stepStart] using stepWrite_sim _ op o h
    | write c op key payload =>
      have hp : p = .write1 := by simpa [sim, Msg.spawns, Msg.kind, init] using h
      subst hp
      simpa [step, stepStart] using stepWrite_sim _ op o h
  | qsOpen op =>
    have hp : p = .qs0 := by simpa [sim, completeB, openB] using h
    subst hp
    simpa [step] using stepOpen_sim (.qsOpen op) (.qloop op true) op o .qs0 h (by simp [delta]) (by simp [sim, completeB, openB])
  | qloop op ts => simpa [step] using stepQuery_sim op ts o p h
  | sloop op => simpa [step] using stepSub_sim op o p h
  | fin => exact ⟨p, by simp [step, tys, run], by simpa [step] using h⟩
  | down => exact ⟨p, by simp [step, tys, run], by simpa [step] using h⟩


/-- Running a handler over any observations keeps the conversation inside the protocol. -/
theorem runPc_sim (pc : Pc) (obs : List Obs) (p : Ph) (h : sim pc p = true) :
    ∃ p', run p (tys (runPc pc obs).2) = some p' ∧ sim (runPc pc obs).1 p' = true := by
  induction obs generalizing pc p with
  | nil => exact ⟨p, by simp [runPc, tys, run], by simpa [runPc] using h⟩
  | cons o os ih =>
    obtain ⟨p1, hr1, hs1⟩ := step_sim pc o p h
    obtain ⟨p2, hr2, hs2⟩ := ih (step pc o).1 p1 hs1
    refine ⟨p2, ?_, ?_⟩
    · simp only [runPc, tys, List.map_append]
      rw [run_append]
      simp only [tys] at hr1 hr2
      simp [hr1, hr2]
    · simpa [runPc] using hs2

/-! ### operation IDs -/

/-- The operation ID a handler at this location answers under (none once it has returned). -/
def pcOp : Pc → Option Bytes
  | .start m => some m.op
  | .qsOpen op => some op
  | .qloop op _ => some op
  | .sloop op => some op
  | .fin => none
  | .down => none

def opOk (op : Bytes) (pc : Pc) : Prop := pcOp pc = some op ∨ pcOp pc = none

theorem step_op (pc : Pc) (o : Obs) (op : Bytes) (h : opOk op pc) :
    (∀ r ∈ (step pc o).2, r.op = op) ∧ opOk op (step pc o).1 := by
  cases pc with
  | start m =>
    have hm : m.op = op := by
      rcases h with h | h <;> simp [pcOp] at h
      exact h
    cases m with
    | malformed => simp [step, stepStart, opOk, pcOp, Msg.op] at *; exact hm
    | unknown op' => simp [step, stepStart, opOk, pcOp, Msg.op] at *; exact hm
    | cancel op' =>
      simp only [Msg.op] at hm; subst hm
      cases o with
      | cancelRes r => cases r <;> simp [step, stepStart, stepCancel, errReply, opOk, pcOp]
      | _ => simp [step, stepStart, stepCancel, opOk, pcOp, Msg.op]
    | read c op' arg =>
      simp only [Msg.op] at hm; subst hm
      cases c with
      | get =>
        cases o with
        | got r =>
          cases r with
          | error e => simp [step, stepStart, stepGet, errReply, opOk, pcOp]
          | ok v => cases hv : v.marshal <;> simp [step, stepStart, stepGet, hv, errReply, opOk, pcOp]
        | _ => simp [step, stepStart, stepGet, opOk, pcOp, Msg.op]
      | query =>
        cases o with
        | res r => cases r <;> simp [step, stepStart, stepOpen, errReply, opOk, pcOp]
        | _ => simp [step, stepStart, stepOpen, opOk, pcOp, Msg.op]
      | sub =>
        cases o with
        | res r => cases r <;> simp [step, stepStart, stepOpen, errReply, opOk, pcOp]
        | _ => simp [step, stepStart, stepOpen, opOk, pcOp, Msg.op]
      | qsub =>
        cases o with
        | res r => cases r <;> simp [step, stepStart, stepOpen, errReply, opOk, pcOp]
        | _ => simp [step, stepStart, stepOpen, opOk, pcOp, Msg.op]
      | delete =>
        cases o with
        | res r => cases r <;> simp [step, stepStart, stepWrite, errReply, opOk, pcOp]
        | _ => simp [step, stepStart, stepWrite, opOk, pcOp, Msg.op]
    | write c op' key payload =>
      simp only [Msg.op] at hm; subst hm
      cases o with
      | res r => cases r <;> simp [step, stepStart, stepWrite, errReply, opOk, pcOp]
      | _ => simp [step, stepStart, stepWrite, opOk, pcOp, Msg.op]
  | qsOpen op' =>
    have hm : op' = op := by
      rcases h with h | h <;> simp [pcOp] at h
      exact h
    subst hm
    cases o with
    | res r => cases r <;> simp [step, stepOpen, errReply, opOk, pcOp]
    | _ => simp [step, stepOpen, opOk, pcOp]
  | qloop op' ts =>
    have hm : op' = op := by
      rcases h with h | h <;> simp [pcOp] at h
      exact h
    subst hm
    cases o with
    | item r => simp [step, stepQuery, queryItem_op, opOk, pcOp]
    | closed e =>
      cases e with
      | none => cases ts <;> simp [step, stepQuery, opOk, pcOp]
      | some e => simp [step, stepQuery, errReply, opOk, pcOp]
    | _ => simp [step, stepQuery, opOk, pcOp]
  | sloop op' =>
    have hm : op' = op := by
      rcases h with h | h <;> simp [pcOp] at h
      exact h
    subst hm
    cases o with
    | item r => simp [step, stepSub, subItem_op, opOk, pcOp]
    | _ => simp [step, stepSub, opOk, pcOp]
  | fin => simp [step, opOk, pcOp]
  | down => simp [step, opOk, pcOp]

theorem runPc_op (pc : Pc) (obs : List Obs) (op : Bytes) (h : opOk op pc) :
    ∀ r ∈ (runPc pc obs).2, r.op = op := by
  induction obs generalizing pc with
  | nil => simp [runPc]
  | cons o os ih =>
    obtain ⟨h1, h2⟩ := step_op pc o op h
    intro r hr
    simp only [runPc, List.mem_append] at hr
    rcases hr with hr | hr
    · exact h1 r hr
    · exact ih _ h2 r hr

/-- A handler step sends at most one reply. -/
theorem step_le_one (pc : Pc) (o : Obs) : (step pc o).2.length ≤ 1 := by
  cases pc with
  | start m =>
    cases m with
    | malformed => simp [step, stepStart]
    | unknown op => simp [step, stepStart]
    | cancel op => cases o <;> simp [step, stepStart, stepCancel] <;> (rename_i r; cases r <;> simp)
    | read c op arg =>
      cases c <;> cases o <;> simp [step, stepStart, stepGet, stepOpen, stepWrite] <;>
        (rename_i r; cases r <;> simp) <;> (rename_i v; cases v.marshal <;> simp)
    | write c op key payload =>
      cases o <;> simp [step, stepStart, stepWrite] <;> (rename_i r; cases r <;> simp)
  | qsOpen op => cases o <;> simp [step, stepOpen] <;> (rename_i r; cases r <;> simp)
  | qloop op ts => cases o <;> simp [step, stepQuery] <;> (rename_i e; cases e <;> simp)
  | sloop op => cases o <;> simp [step, stepSub]
  | fin => simp [step]
  | down => simp [step]

/-! ### every interleaving of a connection is accepted by the trace acceptor -/

theorem accRun_append (cs : AccSt) (a b : List Ev) : accRun cs (a ++ b) = accRun (accRun cs a) b := by
  induction a generalizing cs with
  | nil => simp [accRun]
  | cons e es ih => simp [accRun, ih]

theorem mem_dedup (x : Config) (l : List Config) (h : x ∈ l) : x ∈ dedup l := by
  induction l with
  | nil => simp at h
  | cons c cs ih =>
    unfold dedup
    by_cases hc : c ∈ cs
    · simp only [hc, if_true]
      rcases List.mem_cons.mp h with rfl | h'
      · exact ih hc
      · exact ih h'
    · simp only [hc, if_false]
      rcases List.mem_cons.mp h with rfl | h'
      · simp
      · exact List.mem_cons_of_mem _ (ih h')

theorem advance_mem (op : Bytes) (t : RType) (cfg : Config) (i : Nat) (r : Req) (p' : Ph)
    (hi : cfg[i]? = some r) (hop : r.op = op) (hd : delta r.ph t = some p') :
    cfg.set i { r with ph := p' } ∈ advance op t cfg := by
  induction cfg generalizing i with
  | nil => simp at hi
  | cons c cs ih =>
    cases i with
    | zero =>
      simp at hi
      subst hi
      simp [advance, hop, hd]
    | succ j =>
      simp at hi
      have := ih j hi
      simp only [advance, List.set_cons_succ, List.mem_append, List.mem_map]
      exact Or.inr ⟨_, this, rfl⟩

/-- Thread `t` and tracked request `r` agree. -/
def Rel (t : Thread) (r : Req) : Prop :=
  r.op = t.msg.op ∧ r.kind = t.msg.kind ∧ sim t.pc r.ph = true ∧ opOk t.msg.op t.pc

def Match (ts : List Thread) (cfg : Config) : Prop :=
  cfg.length = ts.length ∧ ∀ (i : Nat) (t : Thread) (r : Req), ts[i]? = some t → cfg[i]? = some r → Rel t r

def Good (c : Conn) : Prop := ∃ cfg ∈ accRun accInit c.trace, Match c.threads cfg

theorem match_append (ts : List Thread) (cfg : Config) (t : Thread) (r : Req)
    (hm : Match ts cfg) (hr : Rel t r) : Match (ts ++ [t]) (cfg ++ [r]) := by
  obtain ⟨hl, hall⟩ := hm
  refine ⟨by simp [hl], ?_⟩
  intro i t' r' ht hr'
  by_cases hi : i < ts.length
  · have hi' : i < cfg.length := by omega
    rw [List.getElem?_append_left hi] at ht
    rw [List.getElem?_append_left hi'] at hr'
    exact hall i t' r' ht hr'
  · have hi' : cfg.length ≤ i := by omega
    rw [List.getElem?_append_right (by omega)] at ht
    rw [List.getElem?_append_right hi'] at hr'
    have : i - ts.length = 0 ∨ i - ts.length ≥ 1 := by omega
    rcases this with h0 | h1
    · rw [h0] at ht
      rw [show i - cfg.length = 0 by omega] at hr'
      simp at ht hr'
      subst ht; subst hr'
      exact hr
    · have : ([t] : List Thread)[i - ts.length]? = none := by
        apply List.getElem?_eq_none; simp; omega
      rw [this] at ht
      simp at ht

theorem match_set (ts : List Thread) (cfg : Config) (i : Nat) (t : Thread) (r : Req)
    (hm : Match ts cfg) (hr : Rel t r) : Match (ts.set i t) (cfg.set i r) := by
  obtain ⟨hl, hall⟩ := hm
  refine ⟨by simp [hl], ?_⟩
  intro j t' r' ht hr'
  by_cases hij : i = j
  · subst hij
    by_cases hi : i < ts.length
    · have hi' : i < cfg.length := by omega
      simp [List.getElem?_set, hi, hi'] at ht hr'
      subst ht; subst hr'
      exact hr
    · have hi' : ¬ i < cfg.length := by omega
      simp [List.getElem?_set, hi, hi'] at ht hr'
  · simp [List.getElem?_set, hij] at ht hr'
    exact hall j t' r' ht hr'


theorem accStep_rep_mem (cs : AccSt) (cfg : Config) (hc : cfg ∈ cs) (op : Bytes) (t : RType) (i : Nat) (r : Req) (p' : Ph)
    (hi : cfg[i]? = some r) (hop : r.op = op) (hd : delta r.ph t = some p') :
    cfg.set i { r with ph := p' } ∈ accStep cs (.rep op t) := by
  simp only [accStep]
  apply mem_dedup
  exact List.mem_flatMap.mpr ⟨cfg, hc, advance_mem op t cfg i r p' hi hop hd⟩

theorem good_init : Good {} := ⟨[], by simp [accRun, accInit], by simp [Match]⟩

theorem good_step (c : Conn) (a : Act) (h : Good c) : Good (connStep c a) := by
  obtain ⟨cfg, hcfg, hm⟩ := h
  cases a with
  | deliver msg =>
    simp only [connStep]
    generalize classify msg = m
    -- the request event
    let r0 : Req := { op := m.op, kind := m.kind, ph := init m.kind }
    have h1 : cfg ++ [r0] ∈ accRun accInit (c.trace ++ [Ev.req m.op m.kind]) := by
      rw [accRun_append]
      simp only [accRun, accStep]
      exact List.mem_map.mpr ⟨cfg, hcfg, rfl⟩
    by_cases hs : m.spawns = true
    · refine ⟨cfg ++ [r0], by simpa [hs] using h1, ?_⟩
      simp only [hs, if_true]
      apply match_append _ _ _ _ hm
      exact ⟨rfl, rfl, by simp [sim, hs, r0], Or.inl (by simp [pcOp])⟩
    · have hs' : m.spawns = false := by simpa using hs
      simp only [hs', Bool.false_eq_true, if_false]
      -- a malformed message / unknown method: answered by Handle itself with one error
      have hk : m.kind = .bad ∧ syncReplies m = [errReply m.op (match m with | .malformed => .malformed | _ => .unknown)] := by
        cases m <;> simp [Msg.spawns] at hs' <;> simp [Msg.kind, syncReplies, Msg.op]
      obtain ⟨hk1, hk2⟩ := hk
      have hlen : (cfg ++ [r0])[cfg.length]? = some r0 := by simp
      have h2 := accStep_rep_mem _ _ h1 m.op .error cfg.length r0 .fin hlen rfl (by simp [r0, hk1, init, delta])
      refine ⟨(cfg ++ [r0]).set cfg.length { r0 with ph := .fin }, ?_, ?_⟩
      · rw [hk2]
        simp only [List.map, evOfReply, errReply]
        rw [accRun_append]
        simpa [accRun] using h2
      · have : (cfg ++ [r0]).set cfg.length { r0 with ph := .fin } = cfg ++ [{ r0 with ph := .fin }] := by
          simp
        rw [this]
        apply match_append _ _ _ _ hm
        exact ⟨rfl, rfl, by simp [sim, completeB], Or.inr (by simp [pcOp])⟩
  | tstep i o =>
    simp only [connStep]
    cases ht : c.threads[i]? with
    | none => exact ⟨cfg, hcfg, hm⟩
    | some t =>
      simp only
      have hi : i < c.threads.length := by
        rcases Nat.lt_or_ge i c.threads.length with h | h
        · exact h
        · rw [List.getElem?_eq_none h] at ht; cases ht
      have hi' : i < cfg.length := by rw [hm.1]; exact hi
      obtain ⟨r, hr⟩ : ∃ r, cfg[i]? = some r := ⟨cfg[i], by simp [hi']⟩
      obtain ⟨hop, hkind, hsim, hok⟩ := hm.2 i t r ht hr
      obtain ⟨p', hrun, hsim'⟩ := step_sim t.pc o r.ph hsim
      obtain ⟨hops, hok'⟩ := step_op t.pc o t.msg.op hok
      have hle := step_le_one t.pc o
      cases hout : (step t.pc o).2 with
      | nil =>
        -- silent step
        rw [hout] at hrun
        simp [tys, run] at hrun
        subst hrun
        refine ⟨cfg, by simpa [hout] using hcfg, ?_⟩
        have := match_set c.threads cfg i { t with pc := (step t.pc o).1 } r hm ⟨hop, hkind, hsim', hok'⟩
        have hself : cfg.set i r = cfg := by
          apply List.ext_getElem? ; intro j
          by_cases hij : i = j
          · subst hij
            have hr2 := hr
            rw [List.getElem?_eq_getElem hi'] at hr2
            simp [List.getElem?_set, hi']
            exact (Option.some.inj hr2).symm
          · simp [List.getElem?_set, hij]
        rw [hself] at this
        exact this
      | cons rep rest =>
        have hrest : rest = [] := by
          rw [hout] at hle
          cases rest with
          | nil => rfl
          | cons _ _ => simp at hle
        subst hrest
        rw [hout] at hrun hops
        have hrop : rep.op = t.msg.op := hops rep (by simp)
        have hd : delta r.ph rep.ty = some p' := by
          simp only [tys, List.map, run] at hrun
          cases hdel : delta r.ph rep.ty with
          | none => simp [hdel] at hrun
          | some q1 => simp [hdel] at hrun; rw [hrun]
        have h2 := accStep_rep_mem _ cfg hcfg rep.op rep.ty i r p' hr (by rw [hop, hrop]) hd
        refine ⟨cfg.set i { r with ph := p' }, ?_, ?_⟩
        · simp only [List.map, evOfReply]
          rw [accRun_append]
          simpa [accRun] using h2
        · exact match_set c.threads cfg i { t with pc := (step t.pc o).1 } { r with ph := p' } hm ⟨hop, hkind, hsim', hok'⟩

theorem good_run (c : Conn) (acts : List Act) (h : Good c) : Good (connRun c acts) := by
  induction acts generalizing c with
  | nil => simpa [connRun] using h
  | cons a as ih => exact ih _ (good_step c a h)

/-! ### the abstract database -/

theorem lookup_insert_same (k : Bytes) (r : Rec) (l : List (Bytes × Rec)) :
    lookupRec k (insertRec k r l) = some r := by
  induction l with
  | nil => simp [insertRec, lookupRec]
  | cons p ps ih =>
    obtain ⟨k', r'⟩ := p
    unfold insertRec
    by_cases h1 : k = k'
    · simp [h1, lookupRec]
    · by_cases h2 : bytesLt k k' = true
      · simp [h1, h2, lookupRec]
      · simp [h1, h2, lookupRec, ih]

theorem lookup_insert_other (k k2 : Bytes) (r : Rec) (l : List (Bytes × Rec)) (hne : k ≠ k2) :
    lookupRec k (insertRec k2 r l) = lookupRec k l := by
  induction l with
  | nil => simp [insertRec, lookupRec, hne]
  | cons p ps ih =>
    obtain ⟨k', r'⟩ := p
    unfold insertRec
    by_cases h1 : k2 = k'
    · subst h1; simp [lookupRec, hne]
    · by_cases h2 : bytesLt k2 k' = true
      · simp [h1, h2, lookupRec, hne]
      · by_cases h3 : k = k'
        · simp [h1, h2, lookupRec, h3]
        · simp [h1, h2, lookupRec, h3, ih]

theorem lookup_erase_other (k k2 : Bytes) (l : List (Bytes × Rec)) (hne : k ≠ k2) :
    lookupRec k (eraseRec k2 l) = lookupRec k l := by
  induction l with
  | nil => simp [eraseRec, lookupRec]
  | cons p ps ih =>
    obtain ⟨k', r'⟩ := p
    unfold eraseRec
    by_cases h1 : k2 = k'
    · subst h1; simp [lookupRec, hne]
    · by_cases h3 : k = k'
      · simp [h1, lookupRec, h3]
      · simp [h1, lookupRec, h3, ih]

theorem findDb_name (n : Bytes) (dbs : List Db) (d : Db) (h : findDb n dbs = some d) : d.name = n := by
  induction dbs with
  | nil => simp [findDb] at h
  | cons d' ds ih =>
    unfold findDb at h
    by_cases hn : d'.name = n
    · simp [hn] at h; subst h; exact hn
    · simp [hn] at h; exact ih h

theorem findDb_setDb_same (d d' : Db) (dbs : List Db) (h : findDb d.name dbs = some d') :
    findDb d.name (setDb d dbs) = some d := by
  induction dbs with
  | nil => simp [findDb] at h
  | cons x xs ih =>
    unfold findDb at h
    unfold setDb
    by_cases hn : x.name = d.name
    · simp [hn, findDb]
    · simp [hn] at h
      simp [hn, findDb, ih h]

theorem findDb_setDb_other (n : Bytes) (d : Db) (dbs : List Db) (hne : n ≠ d.name) :
    findDb n (setDb d dbs) = findDb n dbs := by
  induction dbs with
  | nil => simp [setDb, findDb]
  | cons x xs ih =>
    unfold setDb
    by_cases hn : x.name = d.name
    · have : x.name ≠ n := fun e => hne (by rw [← e, hn])
      have hd : d.name ≠ n := fun e => hne e.symm
      simp [hn, findDb, this, hd]
    · by_cases hx : x.name = n
      · subst hx; simp [hn, findDb]
      · simp [hn, findDb, hx, ih]

/-- What the database holds under a parsed key: the database's kind and the stored record. -/
def slot (dbs : List Db) (dn k : Bytes) : Option (DbKind × Option Rec) :=
  (findDb dn dbs).map (fun d => (d.kind, lookupRec k d.recs))

/-- `getRec` is a function of the slot. -/
theorem getRec_eq_of_slot (st st' : St) (key : Bytes)
    (h : slot st'.dbs (parseKey key).1 (parseKey key).2 = slot st.dbs (parseKey key).1 (parseKey key).2) :
    getRec st' key = getRec st key := by
  unfold getRec
  simp only [slot] at h
  cases h1 : findDb (parseKey key).1 st.dbs <;> cases h2 : findDb (parseKey key).1 st'.dbs <;>
    simp [h1, h2] at h ⊢
  rename_i d d'
  obtain ⟨hk, hl⟩ := h
  rw [hk, hl]

/-- Storing a record under `(dn2, k2)` in database `d` (found under that name). -/
theorem slot_store (dbs : List Db) (d : Db) (dn2 k2 : Bytes) (r : Rec) (hd : findDb dn2 dbs = some d) (dn k : Bytes) :
    slot (setDb { d with recs := insertRec k2 r d.recs } dbs) dn k =
      if dn = dn2 ∧ k = k2 then some (d.kind, some r) else slot dbs dn k := by
  have hname := findDb_name dn2 dbs d hd
  subst hname
  by_cases hdn : dn = d.name
  · subst hdn
    have := findDb_setDb_same { d with recs := insertRec k2 r d.recs } d dbs hd
    by_cases hk : k = k2
    · subst hk; simp [slot, this, lookup_insert_same]
    · simp [slot, this, hd, hk, lookup_insert_other k k2 r d.recs hk]
  · have := findDb_setDb_other dn { d with recs := insertRec k2 r d.recs } dbs hdn
    simp [slot, this, hdn]

theorem slot_erase (dbs : List Db) (d : Db) (dn2 k2 : Bytes) (hd : findDb dn2 dbs = some d) (dn k : Bytes)
    (hne : ¬ (dn = dn2 ∧ k = k2)) :
    slot (setDb { d with recs := eraseRec k2 d.recs } dbs) dn k = slot dbs dn k := by
  have hname := findDb_name dn2 dbs d hd
  subst hname
  by_cases hdn : dn = d.name
  · subst hdn
    have hk : k ≠ k2 := fun e => hne ⟨rfl, e⟩
    have := findDb_setDb_same { d with recs := eraseRec k2 d.recs } d dbs hd
    simp [slot, this, hd, lookup_erase_other k k2 d.recs hk]
  · have := findDb_setDb_other dn { d with recs := eraseRec k2 d.recs } dbs hdn
    simp [slot, this]


theorem slot_setDb_self (dbs : List Db) (d : Db) (n : Bytes) (hd : findDb n dbs = some d) (dn k : Bytes) :
    slot (setDb d dbs) dn k = slot dbs dn k := by
  have hname := findDb_name n dbs d hd
  subst hname
  by_cases hdn : dn = d.name
  · subst hdn
    simp [slot, findDb_setDb_same d d dbs hd, hd]
  · simp [slot, findDb_setDb_other dn d dbs hdn]

theorem getRec_ok_key (st : St) (key a b : Bytes) (r : Rec) (h : getRec st key = .ok (a, b, r)) :
    (a, b) = parseKey key ∧ ∃ d, findDb a st.dbs = some d ∧ d.kind = .plain ∧ lookupRec b d.recs = some r := by
  unfold getRec at h
  generalize parseKey key = pk at h ⊢
  obtain ⟨dn, k⟩ := pk
  simp only at h
  cases hf : findDb dn st.dbs with
  | none => simp [hf] at h
  | some d =>
    simp only [hf] at h
    cases hk : d.kind with
    | sink => simp [hk] at h
    | plain =>
      simp only [hk] at h
      cases hl : lookupRec k d.recs with
      | none => simp [hl] at h
      | some r' =>
        simp only [hl] at h
        by_cases he : r'.expired = true
        · simp [he] at h
        · by_cases hp : permitted r' = true
          · simp [he, hp] at h
            obtain ⟨rfl, rfl, rfl⟩ := h
            exact ⟨rfl, d, hf, hk, hl⟩
          · simp [he, hp] at h

/-- `putRec`: the addressed slot of a key/record store afterwards holds exactly the new record; every
    other slot is unchanged. -/
theorem putRec_slot (st st' : St) (key : Bytes) (r : Rec) (out : List Reply)
    (h : putRec st key r = .ok (st', out)) (dn k : Bytes) :
    slot st'.dbs dn k =
      if (dn, k) = parseKey key ∧ (slot st.dbs dn k).map (·.1) = some .plain then some (.plain, some r)
      else slot st.dbs dn k := by
  unfold putRec at h
  generalize parseKey key = pk at h ⊢
  obtain ⟨dn2, k2⟩ := pk
  simp only at h
  cases hf : findDb dn2 st.dbs with
  | none => simp [hf] at h
  | some d =>
    simp only [hf] at h
    cases hden : putDenied d k2 with
    | true => simp [hden] at h
    | false =>
      simp only [hden, Bool.false_eq_true, if_false, Except.ok.injEq, Prod.mk.injEq] at h
      obtain ⟨hst, _⟩ := h
      subst hst
      simp only
      cases hk : d.kind with
      | sink =>
        simp only [storeIn, hk]
        rw [slot_setDb_self st.dbs d dn2 hf]
        by_cases hq : (dn, k) = (dn2, k2)
        · obtain ⟨rfl, rfl⟩ := Prod.mk.inj hq
          simp [slot, hf, hk]
        · simp [hq]
      | plain =>
        simp only [storeIn, hk]
        have hs := slot_store st.dbs d dn2 k2 r hf dn k
        simp only [hk] at hs
        rw [hs]
        by_cases hq : dn = dn2 ∧ k = k2
        · obtain ⟨rfl, rfl⟩ := hq
          simp [slot, hf, hk]
        · have : ¬ (dn, k) = (dn2, k2) := fun e => hq (by obtain ⟨a, b⟩ := Prod.mk.inj e; exact ⟨a, b⟩)
          simp [hq, this]

/-- Does this message write or delete the record under the parsed key `(dn, k)`? -/
def touches (msg : Bytes) (dn k : Bytes) : Prop :=
  match classify msg with
  | .write _ _ key _ => parseKey key = (dn, k)
  | .read .delete _ key => parseKey key = (dn, k)
  | _ => False

theorem handle_frame (st : St) (msg : Bytes) (an : Annot) (dn k : Bytes) (hnt : ¬ touches msg dn k) :
    slot (handle st msg an).1.dbs dn k = slot st.dbs dn k := by
  unfold touches at hnt
  unfold handle
  generalize classify msg = m at hnt ⊢
  cases m with
  | malformed => rfl
  | unknown op => rfl
  | cancel op =>
    simp only
    cases lookupMap op st.subMap <;> simp [reap]
  | read c op arg =>
    cases c with
    | get => rfl
    | query =>
      simp only
      cases an.q with
      | none => rfl
      | some q => simp only; cases openQuery st q <;> rfl
    | sub =>
      simp only
      cases an.q with
      | none => rfl
      | some q => simp only; cases findDb q.db st.dbs <;> simp [addSub]
    | qsub =>
      simp only
      cases an.q with
      | none => rfl
      | some q =>
        simp only
        cases findDb q.db st.dbs with
        | none => rfl
        | some d => simp only; cases openQuery st q <;> simp [addSub]
    | delete =>
      simp only at hnt ⊢
      cases hg : getRec st arg with
      | error e => rfl
      | ok v =>
        obtain ⟨a, b, r⟩ := v
        obtain ⟨hkey, d, hf, hk, hl⟩ := getRec_ok_key st arg a b r hg
        simp only [hf]
        have hne : ¬ (dn = a ∧ k = b) := by
          intro ⟨e1, e2⟩
          apply hnt
          rw [← hkey, e1, e2]
        exact slot_erase st.dbs d a b hf dn k hne
  | write c op key payload =>
    have hne : ¬ (dn, k) = parseKey key := fun e => hnt (by cases c <;> exact e.symm)
    cases c with
    | insert =>
      simp only
      cases hg : getRec st key with
      | error e => rfl
      | ok v =>
        obtain ⟨a, b, r⟩ := v
        simp only
        split
        · rfl
        · split
          · rfl
          · cases hp : putRec st key { r with untracked := true, obj := an.obj } with
            | error e => rfl
            | ok w =>
              obtain ⟨st', out⟩ := w
              simp only
              rw [putRec_slot st st' key _ out hp dn k]
              simp [hne]
    | create =>
      simp only
      cases payload with
      | nil => rfl
      | cons f t =>
        cases t with
        | nil => rfl
        | cons b rest =>
          simp only
          cases hp : putRec st key { fmt := f, data := b :: rest, obj := an.obj } with
          | error e => rfl
          | ok w =>
            obtain ⟨st', out⟩ := w
            simp only
            rw [putRec_slot st st' key _ out hp dn k]
            simp [hne]
    | update =>
      simp only
      cases payload with
      | nil => rfl
      | cons f t =>
        cases t with
        | nil => rfl
        | cons b rest =>
          simp only
          cases hp : putRec st key { fmt := f, data := b :: rest, obj := an.obj } with
          | error e => rfl
          | ok w =>
            obtain ⟨st', out⟩ := w
            simp only
            rw [putRec_slot st st' key _ out hp dn k]
            simp [hne]


/-- What `get` answers is determined by `getRec` (and the marshalling of the record found). -/
def getAnswer (st : St) (op key : Bytes) : List Reply :=
  match getRec st key with
  | .error e => [errReply op e]
  | .ok (dn, k, r) =>
    match marshal r with
    | .error e => [errReply op e]
    | .ok d => [{ op := op, ty := .ok, key := fullKey dn k, data := some d }]

theorem handle_get (st : St) (msg : Bytes) (an : Annot) (op key : Bytes)
    (hc : classify msg = .read .get op key) : handle st msg an = (st, getAnswer st op key) := by
  unfold handle getAnswer
  rw [hc]
  simp only
  cases hg : getRec st key with
  | error e => simp [runPc, step, stepStart, stepGet]
  | ok v =>
    obtain ⟨dn, k, r⟩ := v
    simp only [runPc, step, stepStart, stepGet, view, Bool.false_eq_true, if_false]
    cases marshal r <;> simp

theorem getRec_of_slot (st : St) (key : Bytes) (r : Rec)
    (h : slot st.dbs (parseKey key).1 (parseKey key).2 = some (.plain, some r)) :
    getRec st key = if r.expired then .error .notfound else if !permitted r then .error .denied
      else .ok ((parseKey key).1, (parseKey key).2, r) := by
  unfold getRec
  simp only [slot] at h
  cases hf : findDb (parseKey key).1 st.dbs with
  | none => simp [hf] at h
  | some d =>
    simp only [hf, Option.map_some, Option.some.injEq, Prod.mk.injEq] at h
    obtain ⟨hk, hl⟩ := h
    simp only [hf, hk, hl]

def runMsgs (st : St) : List (Bytes × Annot) → St
  | [] => st
  | (m, an) :: rest => runMsgs (handle st m an).1 rest

theorem runMsgs_frame (st : St) (hist : List (Bytes × Annot)) (dn k : Bytes)
    (hnt : ∀ x ∈ hist, ¬ touches x.1 dn k) : slot (runMsgs st hist).dbs dn k = slot st.dbs dn k := by
  induction hist generalizing st with
  | nil => rfl
  | cons x xs ih =>
    obtain ⟨m, an⟩ := x
    simp only [runMsgs]
    rw [ih _ (fun y hy => hnt y (List.mem_cons_of_mem _ hy))]
    exact handle_frame st m an dn k (hnt (m, an) (by simp))

/-- An acknowledged create/update leaves exactly the written record in the addressed slot. -/
theorem put_ack_slot (st : St) (msg : Bytes) (an : Annot) (c : WCmd) (op key : Bytes) (f b : UInt8) (rest : Bytes)
    (hc : classify msg = .write c op key (f :: b :: rest)) (hci : c ≠ .insert)
    (hack : ({ op := op, ty := .success } : Reply) ∈ (handle st msg an).2)
    (hplain : (slot st.dbs (parseKey key).1 (parseKey key).2).map (·.1) = some .plain) :
    slot (handle st msg an).1.dbs (parseKey key).1 (parseKey key).2 =
      some (.plain, some { fmt := f, data := b :: rest, obj := an.obj }) := by
  unfold handle at hack ⊢
  rw [hc] at hack ⊢
  cases c with
  | insert => exact absurd rfl hci
  | create =>
    simp only at hack ⊢
    cases hp : putRec st key { fmt := f, data := b :: rest, obj := an.obj } with
    | error e => simp [hp, runPc, step, stepStart, stepWrite, errReply] at hack
    | ok w =>
      obtain ⟨st', out⟩ := w
      simp only
      rw [putRec_slot st st' key _ out hp]
      simp [hplain]
  | update =>
    simp only at hack ⊢
    cases hp : putRec st key { fmt := f, data := b :: rest, obj := an.obj } with
    | error e => simp [hp, runPc, step, stepStart, stepWrite, errReply] at hack
    | ok w =>
      obtain ⟨st', out⟩ := w
      simp only
      rw [putRec_slot st st' key _ out hp]
      simp [hplain]


/-! ### shapes of complete conversations -/

theorem run_fin (ts : List RType) (p : Ph) (h : run .fin ts = some p) : ts = [] := by
  cases ts with
  | nil => rfl
  | cons t ts => simp [run, delta] at h

theorem run_get1 (ts : List RType) (p : Ph) (h : run .get1 ts = some p) (hc : completeB p = true) :
    ts = [.ok] ∨ ts = [.error] := by
  cases ts with
  | nil => simp [run] at h; subst h; simp [completeB] at hc
  | cons t ts =>
    cases t <;> simp [run, delta] at h
    · have := run_fin ts p h; subst this; simp
    · have := run_fin ts p h; subst this; simp

theorem run_write1 (ts : List RType) (p : Ph) (h : run .write1 ts = some p) (hc : completeB p = true) :
    ts = [.success] ∨ ts = [.error] := by
  cases ts with
  | nil => simp [run] at h; subst h; simp [completeB] at hc
  | cons t ts =>
    cases t <;> simp [run, delta] at h
    · have := run_fin ts p h; subst this; simp
    · have := run_fin ts p h; subst this; simp

theorem run_q (ts : List RType) (p : Ph) (h : run .q ts = some p) (hc : completeB p = true) :
    ∃ recs t, ts = recs ++ [t] ∧ (∀ x ∈ recs, x = .ok ∨ x = .warning) ∧ (t = .done ∨ t = .error) := by
  induction ts with
  | nil => simp [run] at h; subst h; simp [completeB] at hc
  | cons t ts ih =>
    cases t <;> simp [run, delta] at h
    · obtain ⟨recs, t', e, hr, ht⟩ := ih h
      exact ⟨.ok :: recs, t', by simp [e], by intro x hx; rcases List.mem_cons.mp hx with rfl | hx; exact Or.inl rfl; exact hr x hx, ht⟩
    · have := run_fin ts p h; subst this; exact ⟨[], .error, by simp, by simp, Or.inr rfl⟩
    · have := run_fin ts p h; subst this; exact ⟨[], .done, by simp, by simp, Or.inl rfl⟩
    · obtain ⟨recs, t', e, hr, ht⟩ := ih h
      exact ⟨.warning :: recs, t', by simp [e], by intro x hx; rcases List.mem_cons.mp hx with rfl | hx; exact Or.inr rfl; exact hr x hx, ht⟩

/-- Well-formed requests: the operation ID (and the key of a write) contain no separator. -/
def WF : Msg → Prop
  | .cancel op => bar ∉ op
  | .read _ op _ => bar ∉ op
  | .write _ op key _ => bar ∉ op ∧ bar ∉ key
  | _ => False

/-! ### the executable acceptor versus the declarative meaning of a trace -/

/-- Declarative meaning of a trace: the events can be consumed one by one, every request opening a
    new conversation, every reply advancing ONE conversation of its operation ID by a legal step. -/
inductive Explained : Config → List Ev → Config → Prop where
  | nil (c : Config) : Explained c [] c
  | req (c c' : Config) (op : Bytes) (k : Kind) (es : List Ev) :
      Explained (c ++ [{ op := op, kind := k, ph := init k }]) es c' → Explained c (.req op k :: es) c'
  | rep (c c' : Config) (op : Bytes) (t : RType) (es : List Ev) (i : Nat) (r : Req) (p' : Ph) :
      c[i]? = some r → r.op = op → delta r.ph t = some p' →
      Explained (c.set i { r with ph := p' }) es c' → Explained c (.rep op t :: es) c'

theorem dedup_mem (x : Config) (l : List Config) (h : x ∈ dedup l) : x ∈ l := by
  induction l with
  | nil => simp [dedup] at h
  | cons c cs ih =>
    unfold dedup at h
    by_cases hc : c ∈ cs
    · simp only [hc, if_true] at h
      exact List.mem_cons_of_mem _ (ih h)
    · simp only [hc, if_false] at h
      rcases List.mem_cons.mp h with rfl | h'
      · simp
      · exact List.mem_cons_of_mem _ (ih h')

theorem advance_inv (op : Bytes) (t : RType) (cfg x : Config) (h : x ∈ advance op t cfg) :
    ∃ i r p', cfg[i]? = some r ∧ r.op = op ∧ delta r.ph t = some p' ∧ x = cfg.set i { r with ph := p' } := by
  induction cfg generalizing x with
  | nil => simp [advance] at h
  | cons c cs ih =>
    simp only [advance, List.mem_append, List.mem_map] at h
    rcases h with h | ⟨y, hy, rfl⟩
    · by_cases hop : c.op = op
      · simp only [hop, if_true] at h
        cases hd : delta c.ph t with
        | none => simp [hd] at h
        | some p' =>
          simp only [hd, List.mem_singleton] at h
          exact ⟨0, c, p', by simp, hop, hd, by simp [h, hop]⟩
      · simp [hop] at h
    · obtain ⟨i, r, p', hi, hop, hd, rfl⟩ := ih y hy
      exact ⟨i + 1, r, p', by simpa using hi, hop, hd, by simp⟩

/-- The executable acceptor computes exactly the declarative meaning: a configuration survives iff the
    trace can be explained from one of the starting configurations to it. -/
theorem accRun_iff (cs : AccSt) (es : List Ev) (c' : Config) :
    c' ∈ accRun cs es ↔ ∃ c ∈ cs, Explained c es c' := by
  induction es generalizing cs with
  | nil =>
    simp only [accRun]
    constructor
    · intro h; exact ⟨c', h, .nil c'⟩
    · rintro ⟨c, hc, he⟩; cases he; exact hc
  | cons e es ih =>
    simp only [accRun]
    rw [ih]
    cases e with
    | req op k =>
      simp only [accStep]
      constructor
      · rintro ⟨c1, hc1, he⟩
        obtain ⟨c, hc, rfl⟩ := List.mem_map.mp hc1
        exact ⟨c, hc, .req c c' op k es he⟩
      · rintro ⟨c, hc, he⟩
        cases he with
        | req _ _ _ _ _ he' => exact ⟨_, List.mem_map.mpr ⟨c, hc, rfl⟩, he'⟩
    | rep op t =>
      simp only [accStep]
      constructor
      · rintro ⟨c1, hc1, he⟩
        obtain ⟨c, hc, hadv⟩ := List.mem_flatMap.mp (dedup_mem _ _ hc1)
        obtain ⟨i, r, p', hi, hop, hd, rfl⟩ := advance_inv op t c c1 hadv
        exact ⟨c, hc, .rep c c' op t es i r p' hi hop hd he⟩
      · rintro ⟨c, hc, he⟩
        cases he with
        | rep _ _ _ _ _ i r p' hi hop hd he' =>
          exact ⟨_, accStep_rep_mem cs c hc op t i r p' hi hop hd, he'⟩


/-- Every conversation state in an explained trace is reached by the automaton from the request's
    initial phase over the replies attributed to it. -/
def Reach (r : Req) : Prop := ∃ ts, run (init r.kind) ts = some r.ph

theorem explained_reach (c c' : Config) (es : List Ev) (h : Explained c es c')
    (hc : ∀ r ∈ c, Reach r) : ∀ r ∈ c', Reach r := by
  induction h with
  | nil c => exact hc
  | req c c' op k es _ ih =>
    apply ih
    intro r hr
    rcases List.mem_append.mp hr with hr | hr
    · exact hc r hr
    · simp at hr; subst hr; exact ⟨[], by simp [run]⟩
  | rep c c' op t es i r p' hi hop hd _ ih =>
    apply ih
    intro x hx
    obtain ⟨j, hj, hjx⟩ := List.getElem_of_mem hx
    have hj' : j < c.length := by simpa using hj
    by_cases hij : i = j
    · subst hij
      simp [List.getElem_set] at hjx
      subst hjx
      have hr : r ∈ c := List.mem_of_getElem? hi
      obtain ⟨ts, hts⟩ := hc r hr
      exact ⟨ts ++ [t], by rw [run_append, hts]; simp [run, hd]⟩
    · simp [List.getElem_set, hij] at hjx
      subst hjx
      exact hc _ (List.getElem_mem hj')

/-! ### refused writes -/

theorem append_success_ne_err (out : List Reply) (op op' : Bytes) (e : Err) :
    out ++ [({ op := op, ty := .success } : Reply)] ≠ [errReply op' e] := by
  intro h
  cases out with
  | nil => simp [errReply] at h
  | cons x xs =>
    cases xs with
    | nil => simp at h
    | cons y ys => simp at h

theorem refused_write_dbs (st : St) (msg : Bytes) (an : Annot) (op : Bytes) (e : Err)
    (hk : (classify msg).kind = .write)
    (herr : (handle st msg an).2 = [errReply op e]) : (handle st msg an).1.dbs = st.dbs := by
  unfold handle at herr ⊢
  generalize classify msg = m at hk herr ⊢
  cases m with
  | malformed => simp [Msg.kind] at hk
  | unknown op => simp [Msg.kind] at hk
  | cancel op => simp [Msg.kind] at hk
  | read c op' arg =>
    cases c <;> simp [Msg.kind] at hk
    simp only at herr ⊢
    cases hg : getRec st arg with
    | error e' => rfl
    | ok v =>
      obtain ⟨a, b, r⟩ := v
      simp only [hg] at herr
      simp only [runPc, step, stepStart, stepWrite, List.append_nil] at herr
      exact absurd herr (append_success_ne_err _ _ _ _)
  | write c op' key payload =>
    cases c with
    | insert =>
      simp only at herr ⊢
      cases hg : getRec st key with
      | error e' => rfl
      | ok v =>
        obtain ⟨a, b, r⟩ := v
        simp only [hg] at herr ⊢
        split
        · rfl
        · split
          · rfl
          · rename_i h1 h2
            simp only [h1, h2, if_false] at herr
            cases hp : putRec st key { r with untracked := true, obj := an.obj } with
            | error e' => rfl
            | ok w =>
              obtain ⟨st', out⟩ := w
              simp only [hp, runPc, step, stepStart, stepWrite, List.append_nil] at herr
              exact absurd herr (append_success_ne_err _ _ _ _)
    | create =>
      simp only at herr ⊢
      cases payload with
      | nil => rfl
      | cons f t =>
        cases t with
        | nil => rfl
        | cons b rest =>
          simp only at herr ⊢
          cases hp : putRec st key { fmt := f, data := b :: rest, obj := an.obj } with
          | error e' => rfl
          | ok w =>
            obtain ⟨st', out⟩ := w
            simp only [hp, runPc, step, stepStart, stepWrite, List.append_nil] at herr
            exact absurd herr (append_success_ne_err _ _ _ _)
    | update =>
      simp only at herr ⊢
      cases payload with
      | nil => rfl
      | cons f t =>
        cases t with
        | nil => rfl
        | cons b rest =>
          simp only at herr ⊢
          cases hp : putRec st key { fmt := f, data := b :: rest, obj := an.obj } with
          | error e' => rfl
          | ok w =>
            obtain ⟨st', out⟩ := w
            simp only [hp, runPc, step, stepStart, stepWrite, List.append_nil] at herr
            exact absurd herr (append_success_ne_err _ _ _ _)

end PB.DbApi
