import PB.Model.FsDownload
/- C17 — lemmas about the download writer program: a program none of whose requests is a rename never issues
   one, whatever the file system answers and whichever calls fail. -/
namespace PB.FsAtomic

/-- No request on any path through the program is a rename. -/
inductive NoRename : Prog → Prop where
  | ret (f : Bool) : NoRename (.ret f)
  | sys (r : Req) (k : Rsp → Prog) : (∀ a b, r ≠ .call (.rename a b)) → (∀ rsp, NoRename (k rsp)) → NoRename (.sys r k)
  | probeDir (p : Path) (k : Bool → Prog) : (∀ b, NoRename (k b)) → NoRename (.probeDir p k)
  | probeExists (p : Path) (k : Bool → Prog) : (∀ b, NoRename (k b)) → NoRename (.probeExists p k)
  | probeMode (p : Path) (m : Nat) (k : Bool → Prog) : (∀ b, NoRename (k b)) → NoRename (.probeMode p m k)

theorem concretize_not_rename (r : Req) (ch : Choice) (h : ∀ a b, r ≠ .call (.rename a b)) :
    ∀ a b, (concretize r ch).1 ≠ .rename a b := by
  intro a b
  cases r with
  | createTemp d p => simp [concretize]
  | mkdirTemp d p => simp [concretize]
  | call c =>
    simp only [concretize]
    intro hc
    exact h a b (by rw [hc])

theorem NoRename.run {p : Prog} (h : NoRename p) :
    ∀ (s : FS) (o : List Choice), ∀ c ∈ runProg p s o, ∀ a b, c ≠ .rename a b := by
  induction h with
  | ret f => intro s o c hc; simp [runProg] at hc
  | probeDir p k _ ih => intro s o c hc; simp only [runProg] at hc; exact ih _ s o c hc
  | probeExists p k _ ih => intro s o c hc; simp only [runProg] at hc; exact ih _ s o c hc
  | probeMode p m k _ ih => intro s o c hc; simp only [runProg] at hc; exact ih _ s o c hc
  | sys r k hr _ ih =>
    intro s o c hc
    cases o with
    | nil => simp [runProg] at hc
    | cons ch cs =>
      simp only [runProg] at hc
      cases hf : ch.fail with
      | some e => simp only [hf] at hc; exact ih _ s cs c hc
      | none =>
        simp only [hf] at hc
        cases hex : exec s (concretize r ch).1 with
        | mk s' res =>
          cases res with
          | ok =>
            simp only [hex, List.mem_cons] at hc
            rcases hc with rfl | hc
            · exact concretize_not_rename r ch hr
            · exact ih _ s' cs c hc
          | err e =>
            simp only [hex] at hc
            exact ih _ s cs c hc

theorem noRename_removeP (p : Path) {k : Prog} (hk : NoRename k) : NoRename (removeP p k) := by
  unfold removeP
  refine .sys _ _ (by intro a b h; cases h) ?_
  intro rsp
  cases rsp with
  | err e => exact .sys _ _ (by intro a b h; cases h) (fun _ => hk)
  | ok => exact hk
  | created p fd => exact hk

theorem noRename_cleanupP (t : Path) (fd : Nat) (closed : Bool) {k : Prog} (hk : NoRename k) :
    NoRename (cleanupP t fd closed k) := by
  unfold cleanupP
  cases closed with
  | true => simpa using noRename_removeP t hk
  | false =>
    simp only [Bool.false_eq_true, if_false]
    exact .sys _ _ (by intro a b h; cases h) (fun _ => noRename_removeP t hk)

theorem noRename_writeAllP (fd : Nat) (chunks : List Seg) {onErr k : Prog} (he : NoRename onErr) (hk : NoRename k) :
    NoRename (writeAllP fd chunks onErr k) := by
  induction chunks with
  | nil => simpa [writeAllP] using hk
  | cons g gs ih =>
    simp only [writeAllP]
    refine .sys _ _ (by intro a b h; cases h) ?_
    intro rsp
    cases rsp <;> first | exact he | exact ih

theorem noRename_ensureDirectoryK (p : Path) (perm : Nat) {k : Bool → Prog} (hk : ∀ b, NoRename (k b)) :
    NoRename (ensureDirectoryK p perm k) := by
  unfold ensureDirectoryK
  repeat' first
    | exact hk true
    | exact hk false
    | (refine NoRename.sys _ _ (by intro a b h; cases h) ?_; intro rsp; cases rsp)
    | (refine NoRename.probeDir _ _ ?_; intro b; cases b)
    | (refine NoRename.probeExists _ _ ?_; intro b; cases b)
    | (refine NoRename.probeMode _ _ _ ?_; intro b; cases b)

theorem noRename_ensureDirsK (dirs : List (Path × Nat)) {k : Bool → Prog} (hk : ∀ b, NoRename (k b)) :
    NoRename (ensureDirsK dirs k) := by
  induction dirs with
  | nil => simpa [ensureDirsK] using hk false
  | cons d rest ih =>
    obtain ⟨p, perm⟩ := d
    simp only [ensureDirsK]
    apply noRename_ensureDirectoryK
    intro failed
    cases failed with
    | true => simpa using hk true
    | false => simpa using ih

/-- An attempt whose decision is not "publish" contains no rename, provided the caller's continuation has none. -/
theorem noRename_fetchAttemptK (dirs : List (Path × Nat)) (regTmp dest : Path) (v : Option Verif) (w : Wire)
    (chunks : List Seg) (sig : Option SigFile) {k : Bool → Prog} (hk : ∀ b, NoRename (k b))
    (hd : (fetchDecision v (transport w)).publishes = false) :
    NoRename (fetchAttemptK dirs regTmp dest v w chunks sig k) := by
  unfold fetchAttemptK
  apply noRename_ensureDirsK
  intro failed
  cases failed with
  | true => simpa using hk true
  | false =>
    simp only [Bool.false_eq_true, if_false]
    split
    · exact hk true
    · refine .sys _ _ (by intro a b h; cases h) ?_
      intro rsp
      cases rsp with
      | ok => exact hk true
      | err e => exact hk true
      | created t fd =>
        simp only
        split
        · exact noRename_cleanupP t fd false (hk true)
        · apply noRename_writeAllP
          · exact noRename_cleanupP t fd false (hk true)
          · cases hout : fetchDecision v (transport w) with
            | refusedEarly => exact noRename_cleanupP t fd false (hk true)
            | abort => exact noRename_cleanupP t fd false (hk true)
            | publish b => rw [hout] at hd; simp [Outcome.publishes] at hd

theorem noRename_attemptsK (dirs : List (Path × Nat)) (regTmp dest : Path) (v : Option Verif) (sig : Option SigFile)
    (attempts : List (Wire × List Seg)) {k : Bool → Prog} (hk : ∀ b, NoRename (k b))
    (hd : ∀ wc ∈ attempts, (fetchDecision v (transport wc.1)).publishes = false) :
    NoRename (attemptsK dirs regTmp dest v sig attempts k) := by
  induction attempts with
  | nil => simpa [attemptsK] using hk true
  | cons a rest ih =>
    obtain ⟨w, chunks⟩ := a
    simp only [attemptsK]
    apply noRename_fetchAttemptK
    · intro failed
      cases failed with
      | false => simpa using hk false
      | true =>
        simp only [if_true]
        split
        · exact hk true
        · exact ih (fun wc hwc => hd wc (List.mem_cons_of_mem _ hwc))
    · exact hd (w, chunks) (List.mem_cons_self ..)

end PB.FsAtomic
