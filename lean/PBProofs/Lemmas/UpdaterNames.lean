import PB.Model.Updater
/- Helper lemmas for the file-name part of C19 (updater/filename.go). -/
namespace PB.Updater

/-! ### takeWhile / dropWhile in front of a separator -/

theorem takeWhile_append_sep {p : Nat → Bool} {c : Nat} (hc : p c = false) (r : Str) :
    ∀ a : Str, (a ++ c :: r).takeWhile p = a.takeWhile p
  | [] => by simp [List.takeWhile, hc]
  | x :: xs => by
    simp only [List.cons_append, List.takeWhile_cons]
    split
    · rw [takeWhile_append_sep hc r xs]
    · rfl

theorem dropWhile_append_sep {p : Nat → Bool} {c : Nat} (hc : p c = false) (r : Str) :
    ∀ a : Str, (a ++ c :: r).dropWhile p = a.dropWhile p ++ c :: r
  | [] => by simp [List.dropWhile, hc]
  | x :: xs => by
    simp only [List.cons_append, List.dropWhile_cons]
    split
    · rw [dropWhile_append_sep hc r xs]
    · rfl

theorem takeWhile_all {p : Nat → Bool} : ∀ {a : Str}, a.all p = true → a.takeWhile p = a ∧ a.dropWhile p = []
  | [], _ => by simp
  | x :: xs, h => by
    simp only [List.all_cons, Bool.and_eq_true] at h
    have := takeWhile_all h.2
    simp [List.takeWhile_cons, List.dropWhile_cons, h.1, this]

/-- a run of `p`-characters followed by nothing or by a non-`p` character -/
theorem span_run {p : Nat → Bool} {d rest : Str} (hd : d.all p = true)
    (hr : rest = [] ∨ ∃ c r, rest = c :: r ∧ p c = false) :
    (d ++ rest).takeWhile p = d ∧ (d ++ rest).dropWhile p = rest := by
  rcases hr with rfl | ⟨c, r, rfl, hc⟩
  · simpa using takeWhile_all hd
  · rw [takeWhile_append_sep hc, dropWhile_append_sep hc]
    simp [takeWhile_all hd]

theorem all_takeWhile (p : Nat → Bool) : ∀ s : Str, (s.takeWhile p).all p = true
  | [] => by simp
  | x :: xs => by
    simp only [List.takeWhile_cons]
    split
    · rename_i h; simp [h, all_takeWhile p xs]
    · simp

theorem dropWhile_head (p : Nat → Bool) : ∀ s : Str, s.dropWhile p = [] ∨ ∃ c r, s.dropWhile p = c :: r ∧ p c = false
  | [] => by simp
  | x :: xs => by
    simp only [List.dropWhile_cons]
    split
    · exact dropWhile_head p xs
    · rename_i h; exact Or.inr ⟨x, xs, rfl, by simpa using h⟩

/-! ### path.Split -/

/-- empty, or ending in a slash -/
def IsDir (d : Str) : Prop := d = [] ∨ ∃ d0, d = d0 ++ [47]

theorem pathSplit_noslash : ∀ f : Str, 47 ∉ f → pathSplit f = ([], f)
  | [], _ => rfl
  | c :: cs, h => by
    have hc : c ≠ 47 := fun e => h (by simp [e])
    have := pathSplit_noslash cs (fun e => h (by simp [e]))
    simp [pathSplit, this, hc]

theorem pathSplit_append : ∀ d : Str, IsDir d → ∀ f : Str, 47 ∉ f → pathSplit (d ++ f) = (d, f)
  | [], _, f, hf => pathSplit_noslash f hf
  | c :: d', hd, f, hf => by
    rcases hd with hd | ⟨d0, hd0⟩
    · cases hd
    · cases d0 with
      | nil =>
        simp only [List.nil_append, List.cons.injEq] at hd0
        obtain ⟨rfl, rfl⟩ := hd0
        simp [pathSplit, pathSplit_noslash f hf]
      | cons x d0' =>
        simp only [List.cons_append, List.cons.injEq] at hd0
        obtain ⟨rfl, rfl⟩ := hd0
        have ih := pathSplit_append (d0' ++ [47]) (Or.inr ⟨d0', rfl⟩) f hf
        simp only [List.cons_append, pathSplit, ih]
        cases d0' <;> simp

theorem pathSplit_spec : ∀ p : Str, IsDir (pathSplit p).1 ∧ 47 ∉ (pathSplit p).2 ∧ (pathSplit p).1 ++ (pathSplit p).2 = p
  | [] => ⟨Or.inl rfl, by simp [pathSplit], rfl⟩
  | c :: cs => by
    obtain ⟨h1, h2, h3⟩ := pathSplit_spec cs
    unfold pathSplit
    generalize hps : pathSplit cs = ps at *
    obtain ⟨d, f⟩ := ps
    simp only at h1 h2 h3
    cases d with
    | nil =>
      simp only []
      split
      · rename_i hc
        subst hc
        refine ⟨Or.inr ⟨[], rfl⟩, h2, ?_⟩
        simpa using h3
      · rename_i hc
        refine ⟨Or.inl rfl, ?_, ?_⟩
        · simp only [List.mem_cons, not_or]; exact ⟨fun e => hc e.symm, h2⟩
        · simpa using h3
    | cons x xs =>
      simp only []
      refine ⟨?_, h2, ?_⟩
      · rcases h1 with h1 | ⟨d0, hd0⟩
        · cases h1
        · exact Or.inr ⟨c :: d0, by simp [hd0]⟩
      · simp only [List.cons_append, List.cons.injEq, true_and]
        simpa using h3

/-! ### strings.SplitN(s, ".", 2) and strings.Replace -/

def extTail : Option Str → Str
  | some e => 46 :: e
  | none => []

theorem splitDot_spec : ∀ s : Str, 46 ∉ (splitDot s).1 ∧ (splitDot s).1 ++ extTail (splitDot s).2 = s
  | [] => by simp [splitDot, extTail]
  | c :: cs => by
    obtain ⟨h1, h2⟩ := splitDot_spec cs
    unfold splitDot
    split
    · rename_i hc; subst hc; simp [extTail]
    · rename_i hc
      refine ⟨?_, ?_⟩
      · simp only [List.mem_cons, not_or]; exact ⟨fun e => hc e.symm, h1⟩
      · simp only [List.cons_append, List.cons.injEq, true_and]; exact h2

theorem splitDot_append : ∀ stem : Str, 46 ∉ stem → ∀ ext : Option Str, splitDot (stem ++ extTail ext) = (stem, ext)
  | [], _, none => by simp [splitDot, extTail]
  | [], _, some e => by simp [splitDot, extTail]
  | c :: cs, h, ext => by
    have hc : c ≠ 46 := fun e => h (by simp [e])
    have ih := splitDot_append cs (fun e => h (by simp [e])) ext
    simp [splitDot, hc, ih]

theorem replaceN_zero (old new : Nat) : ∀ s : Str, replaceN old new s 0 = s
  | [] => rfl
  | _ :: _ => rfl

theorem replaceN_skip (old new : Nat) (r : Str) (n : Nat) :
    ∀ a : Str, old ∉ a → replaceN old new (a ++ old :: r) (n + 1) = a ++ new :: replaceN old new r n
  | [], _ => by simp [replaceN]
  | c :: cs, h => by
    have hc : c ≠ old := fun e => h (by simp [e])
    have ih := replaceN_skip old new r n cs (fun e => h (by simp [e]))
    simp [replaceN, hc, ih]

theorem digits_no {c : Nat} (hc : isDigit c = false) {d : Str} (hd : d.all isDigit = true) : c ∉ d := by
  intro h
  have := List.all_eq_true.mp hd c h
  simp [hc] at this

/-! ### The shape of a version text -/

/-- `-alpha` or nothing -/
def IsSuffix (suf : Str) : Prop := suf = [] ∨ ∃ a, suf = 45 :: a ∧ a ≠ [] ∧ a.all isLower = true

/-- `D<sep>D<sep>D(-alpha)?` -/
def verText (sep : Nat) (d1 d2 d3 suf : Str) : Str := d1 ++ sep :: d2 ++ sep :: d3 ++ suf

structure VerParts (d1 d2 d3 suf : Str) : Prop where
  h1 : d1 ≠ [] ∧ d1.all isDigit = true
  h2 : d2 ≠ [] ∧ d2.all isDigit = true
  h3 : d3 ≠ [] ∧ d3.all isDigit = true
  hs : IsSuffix suf

theorem replace_dots {d1 d2 d3 suf : Str} (h : VerParts d1 d2 d3 suf) :
    replaceN 46 45 (verText 46 d1 d2 d3 suf) 2 = verText 45 d1 d2 d3 suf := by
  unfold verText
  have e : d1 ++ 46 :: d2 ++ 46 :: d3 ++ suf = d1 ++ 46 :: (d2 ++ 46 :: (d3 ++ suf)) := by simp
  rw [e, replaceN_skip _ _ _ _ _ (digits_no (by decide) h.h1.2), replaceN_skip _ _ _ _ _ (digits_no (by decide) h.h2.2),
    replaceN_zero]
  simp

theorem replace_dashes {d1 d2 d3 suf : Str} (h : VerParts d1 d2 d3 suf) :
    replaceN 45 46 (verText 45 d1 d2 d3 suf) 2 = verText 46 d1 d2 d3 suf := by
  unfold verText
  have e : d1 ++ 45 :: d2 ++ 45 :: d3 ++ suf = d1 ++ 45 :: (d2 ++ 45 :: (d3 ++ suf)) := by simp
  rw [e, replaceN_skip _ _ _ _ _ (digits_no (by decide) h.h1.2), replaceN_skip _ _ _ _ _ (digits_no (by decide) h.h2.2),
    replaceN_zero]
  simp

/-! ### The matcher for `_v[0-9]+-[0-9]+-[0-9]+(-[a-z]+)?` -/

theorem digitsThen_run {d rest : Str} (hd : d ≠ [] ∧ d.all isDigit = true)
    (hr : rest = [] ∨ ∃ c r, rest = c :: r ∧ isDigit c = false) (k : Str → Str → Option Str) :
    digitsThen (d ++ rest) k = k d rest := by
  obtain ⟨h1, h2⟩ := span_run hd.2 hr
  unfold digitsThen
  simp only [h1, h2]
  have : d.isEmpty = false := by cases d <;> simp_all
  simp [this]

theorem digitsThen_some {s m : Str} {k : Str → Str → Option Str} (h : digitsThen s k = some m) :
    ∃ d rest, s = d ++ rest ∧ (d ≠ [] ∧ d.all isDigit = true) ∧
      (rest = [] ∨ ∃ c r, rest = c :: r ∧ isDigit c = false) ∧ k d rest = some m := by
  unfold digitsThen at h
  simp only [] at h
  split at h
  · cases h
  · rename_i hne
    refine ⟨s.takeWhile isDigit, s.dropWhile isDigit, List.takeWhile_append_dropWhile.symm, ⟨?_, all_takeWhile _ _⟩, dropWhile_head _ _, h⟩
    intro e; simp [e] at hne

theorem digitsThen_append {r : Str} {k k' : Str → Str → Option Str} (hk : ∀ d x, k d (x ++ 95 :: r) = k' d x) (a : Str) :
    digitsThen (a ++ 95 :: r) k = digitsThen a k' := by
  unfold digitsThen
  simp only [takeWhile_append_sep (p := isDigit) (c := 95) (by decide), dropWhile_append_sep (p := isDigit) (c := 95) (by decide), hk]

theorem dashThen_append {r : Str} {k k' : Str → Option Str} (hk : ∀ x, k (x ++ 95 :: r) = k' x) :
    ∀ a : Str, dashThen (a ++ 95 :: r) k = dashThen a k'
  | [] => by simp [dashThen]
  | c :: cs => by
    by_cases hc : c = 45
    · subst hc; simp [dashThen, hk]
    · simp only [List.cons_append, dashThen]
      split
      · rename_i heq; cases heq; exact absurd rfl hc
      · split
        · rename_i heq; cases heq; exact absurd rfl hc
        · rfl

theorem dashThen_some {s m : Str} {k : Str → Option Str} (h : dashThen s k = some m) : ∃ r, s = 45 :: r ∧ k r = some m := by
  unfold dashThen at h
  split at h
  · exact ⟨_, rfl, h⟩
  · cases h

theorem optPre_append (base r : Str) : ∀ a : Str, optPre base (a ++ 95 :: r) = optPre base a
  | [] => by simp [optPre]
  | c :: cs => by
    by_cases hc : c = 45
    · subst hc
      simp only [List.cons_append, optPre, takeWhile_append_sep (p := isLower) (c := 95) (by decide)]
    · simp only [List.cons_append, optPre]
      split
      · rename_i heq; cases heq; exact absurd rfl hc
      · split
        · rename_i heq; cases heq; exact absurd rfl hc
        · rfl

theorem optPre_run (base : Str) {suf tail : Str} (hs : IsSuffix suf) (ht : tail = [] ∨ ∃ e, tail = 46 :: e) :
    optPre base (suf ++ tail) = base ++ suf := by
  rcases hs with rfl | ⟨a, rfl, hne, hal⟩
  · rcases ht with rfl | ⟨e, rfl⟩ <;> simp [optPre]
  · have hr : tail = [] ∨ ∃ c r, tail = c :: r ∧ isLower c = false := by
      rcases ht with h | ⟨e, h⟩
      · exact Or.inl h
      · exact Or.inr ⟨46, e, h, by decide⟩
    have := (span_run hal hr).1
    simp only [List.cons_append, optPre, this]
    have : a.isEmpty = false := by cases a <;> simp_all
    simp [this]

theorem optPre_shape (base s : Str) : ∃ suf rest, IsSuffix suf ∧ optPre base s = base ++ suf ∧ s = suf ++ rest := by
  unfold optPre
  split
  · rename_i r
    simp only []
    split
    · exact ⟨[], 45 :: r, Or.inl rfl, by simp, rfl⟩
    · rename_i hne
      refine ⟨45 :: r.takeWhile isLower, r.dropWhile isLower, Or.inr ⟨_, rfl, ?_, all_takeWhile _ _⟩, rfl, ?_⟩
      · intro e; simp [e] at hne
      · simp [List.takeWhile_append_dropWhile]
  · exact ⟨[], s, Or.inl rfl, by simp, rfl⟩

/-- a match attempt that starts inside text followed by `_` behaves as if the text ended there -/
theorem matchFileVer_append (r : Str) : ∀ a : Str, a ≠ [] → matchFileVer (a ++ 95 :: r) = matchFileVer a
  | [], h => absurd rfl h
  | [x], _ => by
    by_cases hx : x = 95
    · subst hx; simp [matchFileVer]
    · simp only [List.cons_append, List.nil_append, matchFileVer]
  | x :: y :: a, _ => by
    by_cases hx : x = 95 ∧ y = 118
    · obtain ⟨rfl, rfl⟩ := hx
      simp only [List.cons_append, matchFileVer]
      apply digitsThen_append; intro d1 s1
      apply dashThen_append; intro r1
      apply digitsThen_append; intro d2 s2
      apply dashThen_append; intro r2
      apply digitsThen_append; intro d3 s3
      rw [optPre_append]
    · simp only [List.cons_append, matchFileVer]
      split
      · rename_i heq; cases heq; exact absurd ⟨rfl, rfl⟩ hx
      · split
        · rename_i heq; cases heq; exact absurd ⟨rfl, rfl⟩ hx
        · rfl

theorem nondigit_head {suf tail : Str} (hs : IsSuffix suf) (ht : tail = [] ∨ ∃ e, tail = 46 :: e) :
    suf ++ tail = [] ∨ ∃ c r, suf ++ tail = c :: r ∧ isDigit c = false := by
  rcases hs with rfl | ⟨a, rfl, _, _⟩
  · rcases ht with rfl | ⟨e, rfl⟩
    · exact Or.inl rfl
    · exact Or.inr ⟨46, e, rfl, by decide⟩
  · exact Or.inr ⟨45, a ++ tail, rfl, by decide⟩

theorem matchFileVer_run {d1 d2 d3 suf tail : Str} (h : VerParts d1 d2 d3 suf) (ht : tail = [] ∨ ∃ e, tail = 46 :: e) :
    matchFileVer (95 :: 118 :: verText 45 d1 d2 d3 suf ++ tail) = some (95 :: 118 :: verText 45 d1 d2 d3 suf) := by
  have dash : ∀ x : Str, (45 :: x = [] ∨ ∃ c r, 45 :: x = c :: r ∧ isDigit c = false) := fun x => Or.inr ⟨45, x, rfl, by decide⟩
  have e : verText 45 d1 d2 d3 suf ++ tail = d1 ++ 45 :: (d2 ++ 45 :: (d3 ++ (suf ++ tail))) := by simp [verText]
  simp only [List.cons_append, matchFileVer, e]
  rw [digitsThen_run h.h1 (dash _)]
  simp only [dashThen]
  rw [digitsThen_run h.h2 (dash _)]
  simp only [dashThen]
  rw [digitsThen_run h.h3 (nondigit_head h.hs ht), optPre_run _ h.hs ht]
  simp [verText]

theorem matchFileVer_shape {s m : Str} (h : matchFileVer s = some m) :
    ∃ d1 d2 d3 suf rest, VerParts d1 d2 d3 suf ∧ m = 95 :: 118 :: verText 45 d1 d2 d3 suf ∧ s = m ++ rest := by
  unfold matchFileVer at h
  split at h
  · rename_i r0
    obtain ⟨d1, s1, e0, hd1, _, h⟩ := digitsThen_some h
    obtain ⟨r1, e1, h⟩ := dashThen_some h
    obtain ⟨d2, s2, e2, hd2, _, h⟩ := digitsThen_some h
    obtain ⟨r2, e3, h⟩ := dashThen_some h
    obtain ⟨d3, s3, e4, hd3, _, h⟩ := digitsThen_some h
    obtain ⟨suf, rest, hsuf, hopt, e5⟩ := optPre_shape (95 :: 118 :: d1 ++ 45 :: d2 ++ 45 :: d3) s3
    cases h
    refine ⟨d1, d2, d3, suf, rest, ⟨hd1, hd2, hd3, hsuf⟩, ?_, ?_⟩
    · rw [hopt]; simp [verText]
    · rw [hopt, e0, e1, e2, e3, e4, e5]; simp
  · cases h

/-! ### FindString -/

theorem findFileVer_spec : ∀ {s b m a : Str}, findFileVer s = some (b, m, a) → s = b ++ m ++ a ∧ matchFileVer (m ++ a) = some m
  | [], _, _, _, h => by simp [findFileVer] at h
  | c :: cs, b, m, a, h => by
    unfold findFileVer at h
    split at h
    · rename_i m' hm
      cases h
      obtain ⟨d1, d2, d3, suf, rest, _, _, hs⟩ := matchFileVer_shape hm
      have : (c :: cs).drop m.length = rest := by rw [hs]; simp
      rw [this]
      exact ⟨by simpa using hs, by rw [← hs]; exact hm⟩
    · rename_i hm
      cases hf : findFileVer cs with
      | none => simp [hf] at h
      | some t =>
        obtain ⟨b', m', a'⟩ := t
        simp only [hf, Option.map_some, Option.some.injEq, Prod.mk.injEq] at h
        obtain ⟨rfl, rfl, rfl⟩ := h
        obtain ⟨h1, h2⟩ := findFileVer_spec hf
        exact ⟨by simp [h1], h2⟩

theorem findFileVer_skip (r : Str) : ∀ pre : Str, findFileVer pre = none →
    findFileVer (pre ++ 95 :: r) = (findFileVer (95 :: r)).map (fun t => (pre ++ t.1, t.2.1, t.2.2))
  | [], _ => by simp
  | c :: cs, h => by
    unfold findFileVer at h
    split at h
    · cases h
    · rename_i hm
      have hcs : findFileVer cs = none := by
        cases hf : findFileVer cs with
        | none => rfl
        | some t => simp [hf] at h
      have ih := findFileVer_skip r cs hcs
      have hm' : matchFileVer (c :: cs ++ 95 :: r) = none := by
        rw [matchFileVer_append r (c :: cs) (by simp)]; exact hm
      simp only [List.cons_append] at hm' ⊢
      conv => lhs; unfold findFileVer
      simp only [hm', ih, Option.map_map]
      cases findFileVer (95 :: r) <;> simp

/-! ### The raw version format `^[0-9]+\.[0-9]+\.[0-9]+(-[a-z]+)?$` -/

theorem matchRawVersion_run {d1 d2 d3 suf : Str} (h : VerParts d1 d2 d3 suf) :
    matchRawVersion (verText 46 d1 d2 d3 suf) = true := by
  have dot : ∀ x : Str, (46 :: x = [] ∨ ∃ c r, 46 :: x = c :: r ∧ isDigit c = false) := fun x => Or.inr ⟨46, x, rfl, by decide⟩
  have e : verText 46 d1 d2 d3 suf = d1 ++ 46 :: (d2 ++ 46 :: (d3 ++ suf)) := by simp [verText]
  have ne : ∀ {d : Str}, d ≠ [] → d.isEmpty = false := fun {d} h => by cases d <;> simp_all
  obtain ⟨a1, b1⟩ := span_run h.h1.2 (dot (d2 ++ 46 :: (d3 ++ suf)))
  obtain ⟨a2, b2⟩ := span_run h.h2.2 (dot (d3 ++ suf))
  have hsuf : suf = [] ∨ ∃ c r, suf = c :: r ∧ isDigit c = false := by
    rcases h.hs with h | ⟨a, h, _, _⟩
    · exact Or.inl h
    · exact Or.inr ⟨45, a, h, by decide⟩
  obtain ⟨a3, b3⟩ := span_run h.h3.2 hsuf
  unfold matchRawVersion
  simp only [e, a1, b1, ne h.h1.1, a2, b2, ne h.h2.1, a3, b3, ne h.h3.1]
  rcases h.hs with rfl | ⟨a, rfl, hne, hal⟩
  · simp
  · simp [ne hne, hal]

theorem matchRawVersion_shape {v : Str} (h : matchRawVersion v = true) :
    ∃ d1 d2 d3 suf, VerParts d1 d2 d3 suf ∧ v = verText 46 d1 d2 d3 suf := by
  unfold matchRawVersion at h
  simp only [] at h
  have ne : ∀ {s : Str}, ¬(s.takeWhile isDigit).isEmpty = true → s.takeWhile isDigit ≠ [] := by
    intro s hs e; simp [e] at hs
  split at h
  · cases h
  · rename_i n1
    split at h
    · rename_i r1 e1
      split at h
      · cases h
      · rename_i n2
        split at h
        · rename_i r2 e2
          split at h
          · cases h
          · rename_i n3
            have ev : v = v.takeWhile isDigit ++ 46 :: (r1.takeWhile isDigit ++ 46 :: (r2.takeWhile isDigit ++ r2.dropWhile isDigit)) := by
              conv => lhs; rw [← List.takeWhile_append_dropWhile (p := isDigit) (l := v), e1,
                ← List.takeWhile_append_dropWhile (p := isDigit) (l := r1), e2]
              simp
            split at h
            · rename_i e3
              refine ⟨_, _, _, [], ⟨⟨ne n1, all_takeWhile _ _⟩, ⟨ne n2, all_takeWhile _ _⟩, ⟨ne n3, all_takeWhile _ _⟩, Or.inl rfl⟩, ?_⟩
              rw [e3] at ev
              simpa [verText] using ev
            · rename_i r3 e3
              simp only [Bool.and_eq_true, Bool.not_eq_true'] at h
              refine ⟨_, _, _, 45 :: r3, ⟨⟨ne n1, all_takeWhile _ _⟩, ⟨ne n2, all_takeWhile _ _⟩, ⟨ne n3, all_takeWhile _ _⟩,
                Or.inr ⟨r3, rfl, ?_, h.2⟩⟩, ?_⟩
              · intro e; simp [e] at h
              · rw [e3] at ev
                simpa [verText] using ev
            · cases h
        · cases h
    · cases h

/-! ### Pieces of the round trip -/

theorem suffix_noslash {suf : Str} (h : IsSuffix suf) : 47 ∉ suf := by
  rcases h with rfl | ⟨a, rfl, _, hal⟩
  · simp
  · intro hm
    rcases List.mem_cons.mp hm with h | h
    · cases h
    · have := List.all_eq_true.mp hal 47 h
      simp [isLower] at this

theorem verText45_noslash {d1 d2 d3 suf : Str} (h : VerParts d1 d2 d3 suf) : 47 ∉ verText 45 d1 d2 d3 suf := by
  unfold verText
  simp only [List.mem_append, List.mem_cons, not_or]
  exact ⟨⟨⟨digits_no (by decide) h.h1.2, by decide, digits_no (by decide) h.h2.2⟩, by decide, digits_no (by decide) h.h3.2⟩, suffix_noslash h.hs⟩

theorem dropWhile_uv {d1 d2 d3 suf : Str} (h : VerParts d1 d2 d3 suf) :
    (95 :: 118 :: verText 45 d1 d2 d3 suf).dropWhile (fun c => c = 95 || c = 118) = verText 45 d1 d2 d3 suf := by
  obtain ⟨hne, hal⟩ := h.h1
  cases d1 with
  | nil => exact absurd rfl hne
  | cons x xs =>
    simp only [List.all_cons, Bool.and_eq_true] at hal
    have hx : x ≠ 95 ∧ x ≠ 118 := by
      have := hal.1
      simp only [isDigit, Bool.and_eq_true, decide_eq_true_eq] at this
      omega
    simp [verText, List.dropWhile, hx.1, hx.2]

theorem extTail_cases (ext : Option Str) : extTail ext = [] ∨ ∃ e, extTail ext = 46 :: e := by
  cases ext with
  | none => exact Or.inl rfl
  | some e => exact Or.inr ⟨e, rfl⟩

end PB.Updater
