import PB.Model.QueryBytes
/-
Helper lemmas for the byte-level tokenizer / escaper of database/query (C11).
-/
namespace PB.Query.B
open PB.Query

/-! ### The decoder -/

theorem decode1_ascii (b : Nat) (rest : BStr) (h : b < 0x80) : decode1 (b :: rest) = (b, 1) := by
  simp [decode1, h]

/-- The first `k` bytes, if they exist and are all ≥ 0x80 (what the decoder can consume after a lead byte). -/
def hiPrefix : Nat → BStr → Option BStr
  | 0, _ => some []
  | _ + 1, [] => none
  | k + 1, b :: rest => if 0x80 ≤ b then (hiPrefix k rest).map (b :: ·) else none

/-- Number of bytes a lead byte asks for after itself. -/
def need (b0 : Nat) : Nat :=
  if b0 < 0xC2 then 0 else if b0 < 0xE0 then 1 else if b0 < 0xF0 then 2 else if b0 < 0xF5 then 3 else 0

/-- The decoder's answer on a lead byte ≥ 0x80 as a function of the `need b0` high bytes after it (if there are). -/
def decodeSeq (b0 : Nat) : Option BStr → Nat × Nat
  | some [b1] =>
    if b1 < lo2 b0 ∨ hi2 b0 < b1 then (runeError, 1) else ((b0 % 32) * 64 + b1 % 64, 2)
  | some [b1, b2] =>
    if b1 < lo2 b0 ∨ hi2 b0 < b1 ∨ isCont b2 = false then (runeError, 1)
    else ((b0 % 16) * 4096 + (b1 % 64) * 64 + b2 % 64, 3)
  | some [b1, b2, b3] =>
    if b1 < lo2 b0 ∨ hi2 b0 < b1 ∨ isCont b2 = false ∨ isCont b3 = false then (runeError, 1)
    else ((b0 % 8) * 262144 + (b1 % 64) * 4096 + (b2 % 64) * 64 + b3 % 64, 4)
  | _ => (runeError, 1)

theorem need_cases (b0 : Nat) :
    ((b0 < 0xC2 ∨ 0xF5 ≤ b0) ∧ need b0 = 0) ∨ (0xC2 ≤ b0 ∧ b0 < 0xE0 ∧ need b0 = 1) ∨
    (0xE0 ≤ b0 ∧ b0 < 0xF0 ∧ need b0 = 2) ∨ (0xF0 ≤ b0 ∧ b0 < 0xF5 ∧ need b0 = 3) := by
  unfold need; (repeat' split) <;> omega

/-- The decoder looks at the following bytes only through `hiPrefix (need b0)`: a byte < 0x80 (or the end of the
    input) at any of these positions makes the lead byte an invalid unit, whatever that byte is. -/
theorem decode1_eq (b0 : Nat) (rest : BStr) (h : 0x80 ≤ b0) :
    decode1 (b0 :: rest) = decodeSeq b0 (hiPrefix (need b0) rest) := by
  rcases need_cases b0 with ⟨h1, hn⟩ | ⟨h1, h2, hn⟩ | ⟨h1, h2, hn⟩ | ⟨h1, h2, hn⟩ <;> rw [hn] <;>
  rcases rest with _ | ⟨b1, _ | ⟨b2, _ | ⟨b3, r3⟩⟩⟩ <;>
  simp only [decode1, hiPrefix, decodeSeq, lo2, hi2, isCont] <;>
  grind

theorem hiPrefix_length : ∀ (k : Nat) (s p : BStr), hiPrefix k s = some p → p.length = k
  | 0, _, p, h => by simp [hiPrefix] at h; subst h; rfl
  | k + 1, [], _, h => by simp [hiPrefix] at h
  | k + 1, b :: rest, p, h => by
    simp only [hiPrefix] at h
    split at h
    · cases hp : hiPrefix k rest with
      | none => simp [hp] at h
      | some q => simp [hp] at h; subst h; simp [hiPrefix_length k rest q hp]
    · cases h

/-- Width of a unit that starts with a byte ≥ 0x80: 1 (invalid), or the whole sequence — and then the bytes
    after the lead byte are all ≥ 0x80. -/
theorem width_hi (b0 : Nat) (rest : BStr) (h : 0x80 ≤ b0) :
    (decode1 (b0 :: rest)).2 - 1 = 0 ∨
    ((decode1 (b0 :: rest)).2 - 1 = need b0 ∧ (hiPrefix (need b0) rest).isSome = true) := by
  rw [decode1_eq b0 rest h]
  cases hp : hiPrefix (need b0) rest with
  | none => left; simp [decodeSeq]
  | some p =>
    have hl := hiPrefix_length _ _ _ hp
    rcases p with _ | ⟨b1, _ | ⟨b2, _ | ⟨b3, _ | ⟨b4, r⟩⟩⟩⟩ <;> simp only [decodeSeq] <;>
      (try split) <;> simp_all <;> omega

/-- The rune seen for a unit that starts with a byte ≥ 0x80 is not ASCII (U+FFFD or a multi-byte rune). -/
theorem rune_hi (b0 : Nat) (rest : BStr) (h : 0x80 ≤ b0) : 0x80 ≤ (decode1 (b0 :: rest)).1 := by
  rw [decode1_eq b0 rest h]
  rcases need_cases b0 with ⟨h1, hn⟩ | ⟨h1, h2, hn⟩ | ⟨h1, h2, hn⟩ | ⟨h1, h2, hn⟩ <;> rw [hn] <;>
  rcases rest with _ | ⟨b1, _ | ⟨b2, _ | ⟨b3, r3⟩⟩⟩ <;>
  simp only [hiPrefix, decodeSeq, lo2, hi2, isCont, runeError] <;>
  grind


/-! ### Escaped text under the decoder -/

/-- An escaped body followed by `z`. -/
def E (t z : BStr) : BStr := escBodyB t ++ z

/-- What may follow an escaped body: nothing, or an ASCII byte (the closing quote). -/
def TailOK (z : BStr) : Prop := z = [] ∨ ∃ a y, z = a :: y ∧ a < 0x80

theorem E_nil (z : BStr) : E [] z = z := rfl

theorem E_cons_esc (b : Nat) (rest z : BStr) (h : b = 0x5c ∨ b = 0x22) :
    E (b :: rest) z = 0x5c :: b :: E rest z := by simp [E, escBodyB, h]

theorem E_cons_keep (b : Nat) (rest z : BStr) (h : ¬ (b = 0x5c ∨ b = 0x22)) :
    E (b :: rest) z = b :: E rest z := by simp [E, escBodyB, h]

/-- Escaping does not change what the decoder can consume after a lead byte: high bytes are copied, and where the
    original has a byte < 0x80 or ends, the escaped text has a byte < 0x80 or ends. -/
theorem hiPrefix_E (z : BStr) (hz : TailOK z) : ∀ (k : Nat) (rest : BStr), hiPrefix k (E rest z) = hiPrefix k rest
  | 0, _ => by simp [hiPrefix]
  | k + 1, [] => by
    rcases hz with hz | ⟨a, y, hz, ha⟩
    · subst hz; simp [E_nil, hiPrefix]
    · subst hz
      have : ¬ 0x80 ≤ a := by omega
      simp [E_nil, hiPrefix, this]
  | k + 1, b :: rest => by
    by_cases hb : b = 0x5c ∨ b = 0x22
    · rw [E_cons_esc b rest z hb]
      have : ¬ 0x80 ≤ b := by rcases hb with hb | hb <;> omega
      simp [hiPrefix, this]
    · rw [E_cons_keep b rest z hb]
      simp [hiPrefix, hiPrefix_E z hz k rest]

theorem take_drop_E (z : BStr) : ∀ (k : Nat) (rest : BStr), (hiPrefix k rest).isSome = true →
    (E rest z).take k = rest.take k ∧ (E rest z).drop k = E (rest.drop k) z
  | 0, _, _ => by simp
  | k + 1, [], h => by simp [hiPrefix] at h
  | k + 1, b :: rest, h => by
    simp only [hiPrefix] at h
    by_cases hb : 0x80 ≤ b
    · simp only [hb, if_true, Option.isSome_map] at h
      have hne : ¬ (b = 0x5c ∨ b = 0x22) := by omega
      rw [E_cons_keep b rest z hne]
      have := take_drop_E z k rest h
      simp [this.1, this.2]
    · simp [hb] at h

/-! ### `range text` -/

theorem units_nil : units [] = [] := by rw [units]

theorem units_cons (b : Nat) (rest : BStr) :
    units (b :: rest) =
      ⟨b :: rest.take ((decode1 (b :: rest)).2 - 1), (decode1 (b :: rest)).1⟩ ::
        units (rest.drop ((decode1 (b :: rest)).2 - 1)) := by
  rw [units]

theorem units_ascii (b : Nat) (rest : BStr) (h : b < 0x80) : units (b :: rest) = ⟨[b], b⟩ :: units rest := by
  rw [units_cons, decode1_ascii b rest h]; simp

/-- Every byte is visited exactly once: the units of a text, put together, are the text. -/
theorem flat_units (s : BStr) : flat (units s) = s := by
  induction hn : s.length using Nat.strongRecOn generalizing s with
  | ind n ih =>
    cases s with
    | nil => simp [units_nil, flat]
    | cons b rest =>
      rw [units_cons]
      simp only [flat]
      rw [ih _ _ _ rfl]
      · simp
      · subst hn; simp [List.length_drop]; omega

def bsU : U := ⟨[0x5c], 0x5c⟩

/-- `escBodyB` on the level of decode units. -/
def escU : List U → List U
  | [] => []
  | u :: rest => if u.r = 0x5c ∨ u.r = 0x22 then bsU :: u :: escU rest else u :: escU rest

/-- Escaping commutes with decoding: the units of an escaped text are the units of the text, each backslash and
    quote unit preceded by a backslash unit — no byte of the text is re-grouped by the inserted backslashes. -/
theorem units_E (z : BStr) (hz : TailOK z) (t : BStr) : units (E t z) = escU (units t) ++ units z := by
  induction hn : t.length using Nat.strongRecOn generalizing t with
  | ind n ih =>
    cases t with
    | nil => simp [E_nil, units_nil, escU]
    | cons b rest =>
      by_cases hlo : b < 0x80
      · have ihr := ih rest.length (by subst hn; simp) rest rfl
        rw [units_ascii b rest hlo]
        by_cases hb : b = 0x5c ∨ b = 0x22
        · rw [E_cons_esc b rest z hb, units_ascii _ _ (by omega), units_ascii b _ hlo, ihr]
          simp [escU, hb, bsU]
        · rw [E_cons_keep b rest z hb, units_ascii b _ hlo, ihr]
          simp [escU, hb]
      · have hhi : 0x80 ≤ b := by omega
        have hb : ¬ (b = 0x5c ∨ b = 0x22) := by omega
        rw [E_cons_keep b rest z hb, units_cons b (E rest z), units_cons b rest]
        have hd : decode1 (b :: E rest z) = decode1 (b :: rest) := by
          rw [decode1_eq b _ hhi, decode1_eq b _ hhi, hiPrefix_E z hz]
        rw [hd]
        have hr := rune_hi b rest hhi
        have hne : ¬ ((decode1 (b :: rest)).1 = 0x5c ∨ (decode1 (b :: rest)).1 = 0x22) := by omega
        have htd : (E rest z).take ((decode1 (b :: rest)).2 - 1) = rest.take ((decode1 (b :: rest)).2 - 1) ∧
            (E rest z).drop ((decode1 (b :: rest)).2 - 1) = E (rest.drop ((decode1 (b :: rest)).2 - 1)) z := by
          rcases width_hi b rest hhi with hw | ⟨hw, hs⟩
          · rw [hw]; simp
          · rw [hw]; exact take_drop_E z _ rest hs
        rw [htd.1, htd.2]
        rw [ih _ _ _ rfl]
        · simp [escU, hne]
        · subst hn; simp [List.length_drop]; omega

theorem flat_append (a b : List U) : flat (a ++ b) = flat a ++ flat b := by
  induction a with
  | nil => rfl
  | cons u r ih => simp [flat, ih]

theorem tailOK_nil : TailOK [] := Or.inl rfl
theorem tailOK_quote : TailOK [0x22] := Or.inr ⟨0x22, [], rfl, by decide⟩

theorem units_escBody (t : BStr) : units (escBodyB t) = escU (units t) := by
  have := units_E [] tailOK_nil t
  simpa [E, units_nil] using this

theorem flat_escU_units (t : BStr) : flat (escU (units t)) = escBodyB t := by
  rw [← units_escBody, flat_units]

/-! ### Unescaping -/

theorem unescU_cons_ne (u : U) (r : List U) (h : u.r ≠ 0x5c) : unescU (u :: r) = u.src ++ unescU r := by
  cases r <;> simp [unescU, h]

theorem unescU_bs_cons (u d : U) (r : List U) (h : u.r = 0x5c) : unescU (u :: d :: r) = d.src ++ unescU r := by
  simp [unescU, h]

theorem unescU_escU (us : List U) : unescU (escU us) = flat us := by
  induction us with
  | nil => simp [escU, unescU, flat]
  | cons u r ih =>
    by_cases h : u.r = 0x5c ∨ u.r = 0x22
    · simp only [escU, h, if_true]
      rw [unescU_bs_cons bsU u _ rfl, ih]; rfl
    · have h1 : u.r ≠ 0x5c := fun e => h (Or.inl e)
      simp only [escU, h, if_false]
      rw [unescU_cons_ne u _ h1, ih]; rfl

theorem trimQuoteB_escBody (t : BStr) : trimQuoteB (escBodyB t) = escBodyB t := by
  cases t with
  | nil => rfl
  | cons b r =>
    by_cases h : b = 0x5c ∨ b = 0x22
    · simp [escBodyB, h, trimQuoteB]
    · have h1 : b ≠ 0x5c := fun e => h (Or.inl e)
      have h2 : b ≠ 0x22 := fun e => h (Or.inr e)
      simp [escBodyB, trimQuoteB, h1, h2]

theorem prep_escBodyB (t : BStr) : prepTokenB (escBodyB t) = t := by
  rw [prepTokenB, trimQuoteB_escBody, units_escBody, unescU_escU, flat_units]


/-! ### Tokenizer steps -/

def qU : U := ⟨[0x22], 0x22⟩

theorem lexU_skip (m : ModeB) (u : U) (rest : List U) :
    lexU true m (u :: rest) = lexU false (m.push u) rest := by
  cases m <;> simp [lexU]
theorem lexU_quote_close (acc : BStr) (u : U) (rest : List U) (h : u.r = 0x22) :
    lexU false (.quote acc) (u :: rest) = (prepTokenB acc :: ·) <$> lexU false .idle rest := by
  simp [lexU, h]
theorem lexU_quote_char (acc : BStr) (u : U) (rest : List U) (h : u.r ≠ 0x22) :
    lexU false (.quote acc) (u :: rest) = lexU (decide (u.r = 0x5c)) (.quote (acc ++ u.src)) rest := by
  simp [lexU, h]
theorem lexU_idle_quote (u : U) (rest : List U) (h : u.r = 0x22) :
    lexU false .idle (u :: rest) = lexU false (.quote []) rest := by
  simp [lexU, h, isSepR]
theorem lexU_idle_char (u : U) (rest : List U) (h : isSepR u.r = false) (h2 : u.r ≠ 0x22) :
    lexU false .idle (u :: rest) = lexU (decide (u.r = 0x5c)) (.word u.src) rest := by
  simp [lexU, h, h2]
theorem lexU_word_char (acc : BStr) (u : U) (rest : List U) (h : isSepR u.r = false) (h2 : u.r ≠ 0x22) :
    lexU false (.word acc) (u :: rest) = lexU (decide (u.r = 0x5c)) (.word (acc ++ u.src)) rest := by
  simp [lexU, h, h2]

/-- Inside quotes the escaped body is consumed unit by unit up to the closing quote; the snippet is the source
    bytes in between. -/
theorem lexU_quote_scan (us : List U) (acc : BStr) (q : U) (hq : q.r = 0x22) (rest : List U) :
    lexU false (.quote acc) (escU us ++ q :: rest) =
      (prepTokenB (acc ++ flat (escU us)) :: ·) <$> lexU false .idle rest := by
  induction us generalizing acc with
  | nil => simp [escU, flat, lexU_quote_close acc q rest hq]
  | cons u r ih =>
    by_cases h : u.r = 0x5c ∨ u.r = 0x22
    · simp only [escU, h, if_true, List.cons_append]
      rw [lexU_quote_char acc bsU _ (by decide)]
      simp only [bsU, decide_true, lexU_skip, ModeB.push]
      rw [ih]; simp [flat]
    · have h1 : u.r ≠ 0x5c := fun e => h (Or.inl e)
      have h2 : u.r ≠ 0x22 := fun e => h (Or.inr e)
      simp only [escU, h, if_false, List.cons_append]
      rw [lexU_quote_char acc u _ h2]
      simp only [h1, decide_false]
      rw [ih]; simp [flat]

theorem sepR_special {r : Nat} (h : isSpecialB r = false) : isSepR r = false := by
  simp only [isSpecialB, Bool.or_eq_false_iff, decide_eq_false_iff_not] at h
  simp only [isSepR, Bool.or_eq_false_iff, decide_eq_false_iff_not]
  omega

theorem not_bs_special {r : Nat} (h : isSpecialB r = false) : r ≠ 0x5c := by
  simp only [isSpecialB, Bool.or_eq_false_iff, decide_eq_false_iff_not] at h
  omega

theorem not_quote_special {r : Nat} (h : isSpecialB r = false) : r ≠ 0x22 := by
  simp only [isSpecialB, Bool.or_eq_false_iff, decide_eq_false_iff_not] at h
  omega

theorem special_hi {r : Nat} (h : 0x80 ≤ r) : isSpecialB r = false := by
  simp only [isSpecialB, Bool.or_eq_false_iff, decide_eq_false_iff_not]
  omega

theorem lexU_word_scan (us : List U) (acc : BStr) (h : ∀ u ∈ us, isSpecialB u.r = false) :
    lexU false (.word acc) us = .ok [prepTokenB (acc ++ flat us)] := by
  induction us generalizing acc with
  | nil => simp [lexU, flat]
  | cons u r ih =>
    have hu := h u (by simp)
    rw [lexU_word_char acc u r (sepR_special hu) (not_quote_special hu)]
    simp only [not_bs_special hu, decide_false]
    rw [ih _ (fun v hv => h v (by simp [hv]))]
    simp [flat]

/-- The units of a text without special bytes see no special rune: an ASCII unit sees its byte, every other unit
    sees U+FFFD or a multi-byte rune. -/
theorem units_noSpecial (t : BStr) (h : t.any isSpecialB = false) : ∀ u ∈ units t, isSpecialB u.r = false := by
  induction hn : t.length using Nat.strongRecOn generalizing t with
  | ind n ih =>
    cases t with
    | nil => simp [units_nil]
    | cons b rest =>
      simp only [List.any_cons, Bool.or_eq_false_iff] at h
      intro u hu
      rw [units_cons] at hu
      rcases List.mem_cons.mp hu with hu | hu
      · subst hu
        by_cases hlo : b < 0x80
        · simpa [decode1_ascii b rest hlo] using h.1
        · exact special_hi (rune_hi b rest (by omega))
      · refine ih _ ?_ _ ?_ rfl u hu
        · subst hn; simp [List.length_drop]; omega
        · rw [List.any_eq_false] at h ⊢
          intro x hx
          exact h.2 x (List.mem_of_mem_drop hx)

theorem unescU_plain (us : List U) (h : ∀ u ∈ us, u.r ≠ 0x5c) : unescU us = flat us := by
  induction us with
  | nil => rfl
  | cons u r ih =>
    rw [unescU_cons_ne u r (h u (by simp)), ih (fun v hv => h v (by simp [hv]))]; rfl

theorem prepTokenB_plain (t : BStr) (h : t.any isSpecialB = false) : prepTokenB t = t := by
  have ht : trimQuoteB t = t := by
    cases t with
    | nil => rfl
    | cons b r =>
      simp only [List.any_cons, Bool.or_eq_false_iff] at h
      simp [trimQuoteB, not_quote_special h.1]
  rw [prepTokenB, ht, unescU_plain _ (fun u hu => not_bs_special (units_noSpecial t h u hu)), flat_units]

/-- A token written by `escapeString` is read back by the tokenizer as exactly its bytes. -/
theorem lex_escB (t : BStr) : lexBytes (escB t) = .ok [t] := by
  unfold lexBytes escB
  by_cases h : t = [] ∨ t.any isSpecialB = true
  · simp only [h, if_true]
    have hE : 0x22 :: escBodyB t ++ [0x22] = 0x22 :: E t [0x22] := by simp [E]
    rw [hE, units_ascii _ _ (by decide), units_E _ tailOK_quote, units_ascii _ _ (by decide), units_nil]
    rw [lexU_idle_quote _ _ rfl, lexU_quote_scan (units t) [] ⟨[0x22], 0x22⟩ rfl []]
    simp only [lexU, List.nil_append, flat_escU_units, prep_escBodyB]
    rfl
  · have hne : t ≠ [] := fun e => h (Or.inl e)
    have hs : t.any isSpecialB = false := by
      cases hx : t.any isSpecialB with
      | false => rfl
      | true => exact absurd (Or.inr hx) h
    simp only [h, if_false]
    have hall := units_noSpecial t hs
    cases hu : units t with
    | nil =>
      have := flat_units t
      rw [hu] at this
      exact absurd this.symm hne
    | cons u r =>
      rw [hu] at hall
      have h0 := hall u (by simp)
      rw [lexU_idle_char u r (sepR_special h0) (not_quote_special h0)]
      simp only [not_bs_special h0, decide_false]
      rw [lexU_word_scan r u.src (fun v hv => hall v (by simp [hv]))]
      have : u.src ++ flat r = t := by
        have := flat_units t
        rw [hu] at this
        exact this
      rw [this, prepTokenB_plain t hs]

end PB.Query.B
