import PB.Model.FsAtomic
import PB.Spec.FsCrash
/- Helper lemmas for C17 (checker soundness, leftovers, canonical sequence). -/
namespace PB.FsAtomic

theorem run_append (s : FS) (p q : List Call) : run s (p ++ q) = run (run s p) q := by
  simp [run, List.foldl_append]

theorem run_cons (s : FS) (c : Call) (t : List Call) : run s (c :: t) = run (step s c) t := rfl

/-- The checker state after processing `p` starting from `k`. -/
def chkRun (dest : Path) (old new : Obs) (k : Chk) (p : List Call) : Chk := p.foldl (chkStep dest old new) k

theorem chkRun_append (dest old new k) (p q : List Call) :
    chkRun dest old new k (p ++ q) = chkRun dest old new (chkRun dest old new k p) q := by
  simp [chkRun, List.foldl_append]

theorem chkRun_s (dest old new) (p : List Call) : ∀ k, (chkRun dest old new k p).s = run k.s p := by
  induction p with
  | nil => intro k; rfl
  | cons c t ih => intro k; simp only [chkRun, List.foldl_cons] at *; rw [ih]; rfl

theorem chkRun_ok (dest old new) (p : List Call) : ∀ k, (chkRun dest old new k p).ok = true → k.ok = true := by
  induction p with
  | nil => intro k h; exact h
  | cons c t ih =>
    intro k h
    simp only [chkRun, List.foldl_cons] at *
    have := ih _ h
    simp only [chkStep, Bool.and_eq_true] at this
    exact this.1.1.1

theorem chkRun_hist (dest old new) (p : List Call) : ∀ k i, i ∈ k.hist → i ∈ (chkRun dest old new k p).hist := by
  induction p with
  | nil => intro k i h; exact h
  | cons c t ih =>
    intro k i h
    simp only [chkRun, List.foldl_cons] at *
    apply ih
    simp only [chkStep, List.mem_append]
    exact Or.inr h

theorem chkRun_absent (dest old new) (p : List Call) : ∀ k, k.absent = true → (chkRun dest old new k p).absent = true := by
  induction p with
  | nil => intro k h; exact h
  | cons c t ih =>
    intro k h
    simp only [chkRun, List.foldl_cons] at *
    apply ih
    simp [chkStep, h]

/-- Bookkeeping invariant: the history contains what the destination names now. -/
def ChkWF (dest : Path) (k : Chk) : Prop :=
  (∀ i, lookup k.s.names dest = some i → i ∈ k.hist) ∧ (lookup k.s.names dest = none → k.absent = true)

/-- What `ok` means. -/
def ChkSound (dest : Path) (old new : Obs) (k : Chk) : Prop :=
  k.ok = true → (∀ i ∈ k.hist, goodIno old new k.s i = true) ∧ (k.absent = true → allowed old new none = true) ∧
    allowed old new (vview k.s dest) = true

theorem chkInit_wf (s0 dest old new) : ChkWF dest (chkInit s0 dest old new) := by
  constructor
  · intro i h
    have h' : lookup s0.names dest = some i := h
    simp [chkInit, h']
  · intro h
    have h' : lookup s0.names dest = none := h
    simp [chkInit, h']

theorem chkStep_wf (dest old new k c) : ChkWF dest (chkStep dest old new k c) := by
  constructor
  · intro i h
    have h' : lookup (step k.s c).names dest = some i := h
    simp [chkStep, h']
  · intro h
    have h' : lookup (step k.s c).names dest = none := h
    simp [chkStep, h']

theorem chkRun_wf (dest old new) (p : List Call) : ∀ k, ChkWF dest k → ChkWF dest (chkRun dest old new k p) := by
  induction p with
  | nil => intro k h; exact h
  | cons c t ih => intro k _; simp only [chkRun, List.foldl_cons]; exact ih _ (chkStep_wf dest old new k c)

theorem chkInit_sound (s0 dest old new) : ChkSound dest old new (chkInit s0 dest old new) := by
  intro h
  simp only [chkInit, Bool.and_eq_true, List.all_eq_true] at h
  refine ⟨fun i hi => h.1.1 i hi, fun ha => ?_, h.2⟩
  have := h.1.2
  simp only [chkInit] at ha
  simp [ha] at this
  exact this

theorem chkStep_sound (dest old new k c) : ChkSound dest old new (chkStep dest old new k c) := by
  intro h
  simp only [chkStep, Bool.and_eq_true, List.all_eq_true] at h
  refine ⟨fun i hi => h.1.1.2 i hi, fun ha => ?_, h.2⟩
  have := h.1.2
  simp only [chkStep] at ha
  simp [ha] at this
  exact this

theorem chkRun_sound (dest old new) (p : List Call) :
    ∀ k, ChkSound dest old new k → ChkSound dest old new (chkRun dest old new k p) := by
  induction p with
  | nil => intro k h; exact h
  | cons c t ih => intro k _; simp only [chkRun, List.foldl_cons]; exact ih _ (chkStep_sound dest old new k c)

theorem allowed_iff (old new o : Obs) : allowed old new o = true ↔ o = old ∨ o = new := by
  simp [allowed]

/-- The view of a non-directory inode has no subtree. -/
theorem view_nondir (inodes : List Inode) (names : List (Path × Nat)) (data : Nat → Content) (dest : Path)
    (i : Nat) (n : Inode) (h1 : lookup names dest = some i) (h2 : inodes[i]? = some n) (h3 : n.kind ≠ .dir) :
    view inodes names data dest = some (nodeOf n (data i), []) := by
  simp [view, h1, h2, h3]

end PB.FsAtomic
