import PB.Model.FsAtomic
import PB.Spec.FsCrash
/- Helper lemmas for C17 (checker soundness, leftovers, canonical sequence). -/
namespace PB.FsAtomic

theorem run_append (s : FS) (p q : List Call) : run s (p ++ q) = run (run s p) q := by
  simp [run, List.foldl_append]

theorem run_cons (s : FS) (c : Call) (t : List Call) : run s (c :: t) = run (step s c) t := rfl

/-- The checker state after processing `p` starting from `k`. -/
def chkRun (dest : Path) (old new : Obs) (k : Chk) (p : List Call) : Chk := p.foldl (chkStep dest old new) k

theorem chkRun_append (dest old new k) (p q : List Call) :
    chkRun dest old new k (p ++ q) = chkRun dest old new (chkRun dest old new k p) q := by
  simp [chkRun, List.foldl_append]

theorem chkRun_s (dest old new) (p : List Call) : ∀ k, (chkRun dest old new k p).s = run k.s p := by
  induction p with
  | nil => intro k; rfl
  | cons c t ih => intro k; simp only [chkRun, List.foldl_cons] at *; rw [ih]; rfl

theorem chkRun_ok (dest old new) (p : List Call) : ∀ k, (chkRun dest old new k p).ok = true → k.ok = true := by
  induction p with
  | nil => intro k h; exact h
  | cons c t ih =>
    intro k h
    simp only [chkRun, List.foldl_cons] at *
    have := ih _ h
    simp only [chkStep, Bool.and_eq_true] at this
    exact this.1.1.1

theorem mem_addHist_of_mem (o : Option Nat) (h : List Nat) (i : Nat) (hi : i ∈ h) : i ∈ addHist o h := by
  unfold addHist
  cases o with
  | none => exact hi
  | some j =>
    simp only []
    split
    · exact hi
    · exact List.mem_cons_of_mem _ hi

theorem mem_addHist_self (h : List Nat) (i : Nat) : i ∈ addHist (some i) h := by
  unfold addHist
  simp only []
  split
  · rename_i hc; simpa using hc
  · exact List.mem_cons_self

theorem chkRun_hist (dest old new) (p : List Call) : ∀ k i, i ∈ k.hist → i ∈ (chkRun dest old new k p).hist := by
  induction p with
  | nil => intro k i h; exact h
  | cons c t ih =>
    intro k i h
    simp only [chkRun, List.foldl_cons] at *
    apply ih
    simp only [chkStep]
    exact mem_addHist_of_mem _ _ _ h

theorem chkRun_absent (dest old new) (p : List Call) : ∀ k, k.absent = true → (chkRun dest old new k p).absent = true := by
  induction p with
  | nil => intro k h; exact h
  | cons c t ih =>
    intro k h
    simp only [chkRun, List.foldl_cons] at *
    apply ih
    simp [chkStep, h]

/-- Bookkeeping invariant: the history contains what the destination names now. -/
def ChkWF (dest : Path) (k : Chk) : Prop :=
  (∀ i, lookup k.s.names dest = some i → i ∈ k.hist) ∧ (lookup k.s.names dest = none → k.absent = true)

/-- What `ok` means. -/
def ChkSound (dest : Path) (old new : Obs) (k : Chk) : Prop :=
  k.ok = true → (∀ i ∈ k.hist, goodIno old new k.s i = true) ∧ (k.absent = true → allowed old new none = true) ∧
    allowed old new (vview k.s dest) = true

theorem chkInit_wf (s0 dest old new) : ChkWF dest (chkInit s0 dest old new) := by
  constructor
  · intro i h
    have h' : lookup s0.names dest = some i := h
    simp [chkInit, h']
  · intro h
    have h' : lookup s0.names dest = none := h
    simp [chkInit, h']

theorem chkStep_wf (dest old new k c) : ChkWF dest (chkStep dest old new k c) := by
  constructor
  · intro i h
    have h' : lookup (step k.s c).names dest = some i := h
    simp only [chkStep, h']
    exact mem_addHist_self _ _
  · intro h
    have h' : lookup (step k.s c).names dest = none := h
    simp [chkStep, h']

theorem chkRun_wf (dest old new) (p : List Call) : ∀ k, ChkWF dest k → ChkWF dest (chkRun dest old new k p) := by
  induction p with
  | nil => intro k h; exact h
  | cons c t ih => intro k _; simp only [chkRun, List.foldl_cons]; exact ih _ (chkStep_wf dest old new k c)

theorem chkInit_sound (s0 dest old new) : ChkSound dest old new (chkInit s0 dest old new) := by
  intro h
  simp only [chkInit, Bool.and_eq_true, List.all_eq_true] at h
  refine ⟨fun i hi => h.1.1 i hi, fun ha => ?_, h.2⟩
  have := h.1.2
  simp only [chkInit] at ha
  simp [ha] at this
  exact this

theorem chkStep_sound (dest old new k c) : ChkSound dest old new (chkStep dest old new k c) := by
  intro h
  simp only [chkStep, Bool.and_eq_true, List.all_eq_true] at h
  refine ⟨fun i hi => h.1.1.2 i hi, fun ha => ?_, h.2⟩
  have := h.1.2
  simp only [chkStep] at ha
  simp [ha] at this
  exact this

theorem chkRun_sound (dest old new) (p : List Call) :
    ∀ k, ChkSound dest old new k → ChkSound dest old new (chkRun dest old new k p) := by
  induction p with
  | nil => intro k h; exact h
  | cons c t ih => intro k _; simp only [chkRun, List.foldl_cons]; exact ih _ (chkStep_sound dest old new k c)

theorem allowed_iff (old new o : Obs) : allowed old new o = true ↔ o = old ∨ o = new := by
  simp [allowed]

/-- The view of a non-directory inode has no subtree. -/
theorem view_nondir (inodes : List Inode) (names : List (Path × Nat)) (data : Nat → Content) (dest : Path)
    (i : Nat) (n : Inode) (h1 : lookup names dest = some i) (h2 : inodes[i]? = some n) (h3 : n.kind ≠ .dir) :
    view inodes names data dest = some (nodeOf n (data i), []) := by
  simp [view, h1, h2, h3]

/-! ### The canonical publish sequence on the concrete world `baseFS` -/

/-- State while the temp file is being written: data `d` so far. -/
def midFS (old : Option (Content × Nat)) (fd perm : Nat) (d : Content) (cl : Bool) : FS :=
  match old with
  | none =>
    { inodes := [dirInode, dirInode, { kind := .file, mode := perm, data := d, target := "", clean := cl }],
      names := [(tmpF, 2), (["R", "dst"], 0), (["R", "tmp"], 1)], fds := [(fd, 2)] }
  | some (c, m) =>
    { inodes := [dirInode, dirInode, { kind := .file, mode := m, data := c, target := "", clean := true },
                 { kind := .file, mode := perm, data := d, target := "", clean := cl }],
      names := [(tmpF, 3), (["R", "dst", "f"], 2), (["R", "dst"], 0), (["R", "tmp"], 1)], fds := [(fd, 3)] }

def midChk (old : Option (Content × Nat)) (fd perm : Nat) (d : Content) (cl : Bool) : Chk :=
  { s := midFS old fd perm d cl, hist := match old with | none => [] | some _ => [2],
    absent := old.isNone, ok := true }

theorem mid_start (old fd perm) (new : Obs) :
    chkRun destF (baseOld old) new (chkInit (baseFS old) destF (baseOld old) new)
      [.openC tmpF true true false 0o600 (some fd), .fchmod fd perm] = midChk old fd perm [] false := by
  cases old with
  | none =>
    simp [chkRun, chkInit, chkStep, step, exec, baseFS, baseOld, midChk, midFS, destF, tmpF, lookup, List.lookup,
      parentErr, kindAt, inodeAt, dirInode, setInode, addHist, allowed, vview, view, goodIno, umasked, List.modify]
  | some cm =>
    obtain ⟨c, m⟩ := cm
    simp [chkRun, chkInit, chkStep, step, exec, baseFS, baseOld, midChk, midFS, destF, tmpF, lookup, List.lookup,
      parentErr, kindAt, inodeAt, dirInode, setInode, addHist, allowed, vview, view, goodIno, umasked, List.modify, nodeOf, vdata]

theorem mid_write (old fd perm) (new : Obs) (d : Content) (cl : Bool) (g : Seg) :
    chkStep destF (baseOld old) new (midChk old fd perm d cl) (.write fd g) = midChk old fd perm (app d g) false := by
  cases old with
  | none =>
    simp [chkStep, step, exec, baseOld, midChk, midFS, destF, tmpF, lookup, List.lookup,
      inodeAt, dirInode, setInode, addHist, allowed, vview, view, List.modify]
  | some cm =>
    obtain ⟨c, m⟩ := cm
    simp [chkStep, step, exec, baseOld, midChk, midFS, destF, tmpF, lookup, List.lookup,
      inodeAt, dirInode, setInode, addHist, allowed, vview, view, goodIno, List.modify, nodeOf, vdata]

theorem mid_writes (old fd perm) (new : Obs) (chunks : List Seg) : ∀ (d : Content) (cl : Bool), chunks ≠ [] ∨ cl = false →
    chkRun destF (baseOld old) new (midChk old fd perm d cl) (chunks.map (.write fd)) =
      midChk old fd perm (chunks.foldl app d) false := by
  induction chunks with
  | nil => intro d cl h; cases h with | inl h => exact absurd rfl h | inr h => subst h; rfl
  | cons g t ih =>
    intro d cl _
    simp only [List.map_cons, chkRun, List.foldl_cons, mid_write]
    exact ih (app d g) false (Or.inr rfl)

theorem mid_finish (old fd perm) (d : Content) :
    (chkRun destF (baseOld old) (some (.file d, [])) (midChk old fd perm d false)
      [.fsync fd, .close fd, .rename tmpF destF]).ok = true := by
  cases old with
  | none =>
    simp [chkRun, chkStep, step, exec, baseOld, midChk, midFS, destF, tmpF, lookup, List.lookup,
      parentErr, kindAt, inodeAt, dirInode, setInode, addHist, allowed, vview, view, goodIno, List.modify, nodeOf, vdata,
      below, unbind, moveNames, hasChild]
  | some cm =>
    obtain ⟨c, m⟩ := cm
    simp [chkRun, chkStep, step, exec, baseOld, midChk, midFS, destF, tmpF, lookup, List.lookup,
      parentErr, kindAt, inodeAt, dirInode, setInode, addHist, allowed, vview, view, goodIno, List.modify, nodeOf, vdata,
      below, unbind, moveNames, hasChild]

theorem mid_finish_nosync (old fd perm) (d : Content) :
    (chkRun destF (baseOld old) (some (.file d, [])) (midChk old fd perm d false)
      [.close fd, .rename tmpF destF]).ok = false := by
  cases old with
  | none =>
    simp [chkRun, chkStep, step, exec, baseOld, midChk, midFS, destF, tmpF, lookup, List.lookup,
      parentErr, kindAt, inodeAt, dirInode, setInode, addHist, allowed, vview, view, goodIno, List.modify, nodeOf, vdata,
      below, unbind, moveNames, hasChild]
  | some cm =>
    obtain ⟨c, m⟩ := cm
    simp [chkRun, chkStep, step, exec, baseOld, midChk, midFS, destF, tmpF, lookup, List.lookup,
      parentErr, kindAt, inodeAt, dirInode, setInode, addHist, allowed, vview, view, goodIno, List.modify, nodeOf, vdata,
      below, unbind, moveNames, hasChild]

/-- The volatile state after the sequence without fsync: the destination names the new, never-synced inode. -/
def endNoSyncFS (old : Option (Content × Nat)) (perm : Nat) (d : Content) : FS :=
  match old with
  | none =>
    { inodes := [dirInode, dirInode, { kind := .file, mode := perm, data := d, target := "", clean := false }],
      names := [(destF, 2), (["R", "dst"], 0), (["R", "tmp"], 1)], fds := [] }
  | some (c, m) =>
    { inodes := [dirInode, dirInode, { kind := .file, mode := m, data := c, target := "", clean := true },
                 { kind := .file, mode := perm, data := d, target := "", clean := false }],
      names := [(destF, 3), (["R", "dst"], 0), (["R", "tmp"], 1)], fds := [] }

theorem run_mid_nosync (old fd perm) (d : Content) :
    run (midFS old fd perm d false) [.close fd, .rename tmpF destF] = endNoSyncFS old perm d := by
  cases old with
  | none =>
    simp [run, step, exec, midFS, endNoSyncFS, destF, tmpF, lookup, List.lookup,
      parentErr, kindAt, inodeAt, dirInode, below, unbind, moveNames, hasChild]
  | some cm =>
    obtain ⟨c, m⟩ := cm
    simp [run, step, exec, midFS, endNoSyncFS, destF, tmpF, lookup, List.lookup,
      parentErr, kindAt, inodeAt, dirInode, below, unbind, moveNames, hasChild]

/-! ### Names created by a call -/

theorem mem_unbind {ns : List (Path × Nat)} {p : Path} {e : Path × Nat} (h : e ∈ unbind ns p) : e ∈ ns := by
  unfold unbind at h
  exact (List.mem_filter.1 h).1

theorem setInode_names (s : FS) (i : Nat) (f : Inode → Inode) : (setInode s i f).names = s.names := rfl

theorem mem_moveNames {ns : List (Path × Nat)} {src dst x : Path} {i : Nat} (h : (x, i) ∈ moveNames ns src dst) :
    (x, i) ∈ ns ∨ ∃ y j, (y, j) ∈ ns ∧ src.isPrefixOf y = true ∧ x = dst ++ y.drop src.length := by
  unfold moveNames at h
  obtain ⟨e, he, heq⟩ := List.mem_map.1 h
  by_cases hp : src.isPrefixOf e.1 = true
  · simp only [hp, if_true, Prod.mk.injEq] at heq
    right; exact ⟨e.1, e.2, he, hp, heq.1.symm⟩
  · simp only [hp] at heq
    left; rw [← heq]; exact he

theorem names_step (s : FS) (c : Call) (x : Path) (i : Nat) (h : (x, i) ∈ (step s c).names) :
    (∃ j, (x, j) ∈ s.names) ∨ (created c = some x ∧ ∀ a b, c ≠ .rename a b) ∨
    (∃ src dst, c = .rename src dst ∧ ∃ y j, (y, j) ∈ s.names ∧ src.isPrefixOf y = true ∧ x = dst ++ y.drop src.length) := by
  cases c with
  | rename src dst =>
    simp only [step, exec] at h
    repeat' split at h
    all_goals (try (left; exact ⟨i, h⟩))
    all_goals (
      simp only at h
      rcases mem_moveNames h with h' | ⟨y, j, hy, hp, hx⟩
      · left; exact ⟨i, mem_unbind h'⟩
      · right; right; exact ⟨src, dst, rfl, y, j, mem_unbind hy, hp, hx⟩)
  | _ =>
    simp only [step, exec] at h
    repeat' split at h
    all_goals (try (left; exact ⟨i, h⟩))
    all_goals (try (left; exact ⟨i, mem_unbind h⟩))
    all_goals (try (
      simp only [List.mem_cons, Prod.mk.injEq] at h
      rcases h with ⟨rfl, _⟩ | h
      · right; left; simp_all [created]
      · left; exact ⟨i, h⟩))

/-- A path that may exist after the operation although it did not exist before. -/
def okPath (dest : Path) (tmp : Path → Bool) (x : Path) : Prop :=
  dest.isPrefixOf x = true ∨ x.isPrefixOf dest = true ∨ tmp x = true

theorem isPrefixOf_append {a b : Path} (r : Path) (h : a.isPrefixOf b = true) : a.isPrefixOf (b ++ r) = true := by
  rw [List.isPrefixOf_iff_prefix] at *
  exact h.trans (List.prefix_append b r)

theorem onlyTemp_cons (dest : Path) (tmp : Path → Bool) (c : Call) (t : List Call) :
    onlyTemp dest tmp (c :: t) = true ↔ onlyTemp dest tmp [c] = true ∧ onlyTemp dest tmp t = true := by
  simp [onlyTemp]

theorem step_ok (dest : Path) (tmp : Path → Bool) (hmono : ∀ p r, tmp p = true → tmp (p ++ r) = true)
    (init : List (Path × Nat)) (s : FS) (c : Call) (hc : onlyTemp dest tmp [c] = true)
    (hs : ∀ x i, (x, i) ∈ s.names → (∃ j, (x, j) ∈ init) ∨ okPath dest tmp x) :
    ∀ x i, (x, i) ∈ (step s c).names → (∃ j, (x, j) ∈ init) ∨ okPath dest tmp x := by
  intro x i hx
  rcases names_step s c x i hx with ⟨j, hj⟩ | ⟨hcr, hnr⟩ | ⟨src, dst, rfl, y, j, _, _, rfl⟩
  · exact hs x j hj
  · right
    simp only [onlyTemp, List.all_cons, List.all_nil, Bool.and_true] at hc
    cases c with
    | rename a b => exact absurd rfl (hnr a b)
    | _ =>
      simp only [hcr, Bool.or_eq_true] at hc
      try (rcases hc with (h | h) | h <;> simp [okPath, h])
      try (simp [created] at hcr)
  · right
    simp only [onlyTemp, List.all_cons, List.all_nil, Bool.and_true, created, Bool.or_eq_true] at hc
    rcases hc with h | h
    · left; exact isPrefixOf_append _ h
    · right; right; exact hmono _ _ h

theorem run_ok (dest : Path) (tmp : Path → Bool) (hmono : ∀ p r, tmp p = true → tmp (p ++ r) = true)
    (init : List (Path × Nat)) (t : List Call) :
    ∀ s, onlyTemp dest tmp t = true →
      (∀ x i, (x, i) ∈ s.names → (∃ j, (x, j) ∈ init) ∨ okPath dest tmp x) →
      ∀ p q, t = p ++ q → ∀ x i, (x, i) ∈ (run s p).names → (∃ j, (x, j) ∈ init) ∨ okPath dest tmp x := by
  induction t with
  | nil =>
    intro s _ hs p q hp
    have : p = [] := by
      cases p with
      | nil => rfl
      | cons a b => exact absurd hp (by simp)
    subst this; exact hs
  | cons c t ih =>
    intro s ht hs p q hp
    cases p with
    | nil => exact hs
    | cons c' p' =>
      simp only [List.cons_append, List.cons.injEq] at hp
      obtain ⟨hcc, hp'⟩ := hp
      subst hcc
      rw [onlyTemp_cons] at ht
      rw [run_cons]
      exact ih (step s c) ht.2 (step_ok dest tmp hmono init s c ht.1 hs) p' q hp'

theorem below_append {d p : Path} (r : Path) (h : below d p = true) : below d (p ++ r) = true := by
  simp only [below, Bool.and_eq_true, decide_eq_true_eq] at *
  refine ⟨isPrefixOf_append r h.1, ?_⟩
  simp only [List.length_append]; omega

end PB.FsAtomic
