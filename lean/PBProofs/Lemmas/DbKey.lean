import PB.Model.GoStr
/- Lemmas about the string-list semantics (`PB.GoStr`) used by the C02 statements about record.ParseKey. -/
namespace PB.GoStr

/-- The first colon of `db ++ ':' :: key` is the one after `db` when `db` has none. -/
theorem cut_colon_append (db key : Str) (h : ':' ∉ db) : cut [':'] (db ++ ':' :: key) = some (db, key) := by
  induction db with
  | nil => simp [cut, List.isPrefixOf]
  | cons c db ih =>
    have hc : c ≠ ':' := fun hh => h (by simp [hh])
    have hdb : ':' ∉ db := fun hh => h (by simp [hh])
    have hne : (':' == c) = false := by simp [Ne.symm hc]
    simp [cut, List.isPrefixOf, hne, ih hdb]

theorem cut_colon_none (k : Str) (h : ':' ∉ k) : cut [':'] k = none := by
  induction k with
  | nil => simp [cut]
  | cons c k ih =>
    have hc : c ≠ ':' := fun hh => h (by simp [hh])
    have hk : ':' ∉ k := fun hh => h (by simp [hh])
    have hne : (':' == c) = false := by simp [Ne.symm hc]
    simp [cut, List.isPrefixOf, hne, ih hk]

end PB.GoStr

namespace PB.GoStr

theorem splitK_ne_nil (sep : Str) (k : Nat) (s : Str) : splitK sep k s ≠ [] := by
  cases k with
  | zero => simp [splitK]
  | succ k =>
    unfold splitK
    split <;> simp

theorem join_cons (a : Str) (l : List Str) (sep : Str) (h : l ≠ []) : join (a :: l) sep = a ++ sep ++ join l sep := by
  cases l with
  | nil => exact absurd rfl h
  | cons b rest => simp [join]

theorem cut_spec (sep s a b : Str) (h : cut sep s = some (a, b)) : s = a ++ sep ++ b := by
  induction s generalizing a with
  | nil => simp [cut] at h
  | cons c cs ih =>
    unfold cut at h
    by_cases hp : sep.isPrefixOf (c :: cs) = true
    · simp [hp] at h
      obtain ⟨ha, hb⟩ := h
      subst ha; subst hb
      have := List.prefix_iff_eq_append.mp (List.isPrefixOf_iff_prefix.mp hp)
      simpa using this.symm
    · simp [hp] at h
      obtain ⟨a1, h1, h2⟩ := h
      subst h2
      have := ih a1 h1
      simp [this]

/-- Splitting and joining with the same separator gives the string back, however many cuts are made. -/
theorem join_splitK (sep : Str) (k : Nat) (s : Str) : join (splitK sep k s) sep = s := by
  induction k generalizing s with
  | zero => simp [splitK, join]
  | succ k ih =>
    unfold splitK
    cases hc : cut sep s with
    | none => simp [join]
    | some p =>
      obtain ⟨a, b⟩ := p
      simp only []
      rw [join_cons _ _ _ (splitK_ne_nil sep k b), ih b]
      exact (cut_spec sep s a b hc).symm

theorem splitK_colon_append (k : Nat) (db key : Str) (h : ':' ∉ db) :
    splitK [':'] (k + 1) (db ++ ':' :: key) = db :: splitK [':'] k key := by
  simp [splitK, cut_colon_append db key h]

theorem splitK_colon_none (k : Nat) (s : Str) (h : ':' ∉ s) : splitK [':'] k s = [s] := by
  cases k <;> simp [splitK, cut_colon_none s h]

theorem length_colon_append (db key : Str) : (db ++ ':' :: key).length = (db.length + key.length) + 1 := by
  simp; omega

end PB.GoStr
