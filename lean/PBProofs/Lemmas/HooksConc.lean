import PB.Model.HooksConc
/- Helper lemmas for the interleaving model of hook runners and `RegisteredHook.Cancel` (C14): the safety invariant. -/
namespace PB.HooksConc
open PB.SubsConc (upd)
open PB.Subs (Phase)

def inLoop : RPc → Bool
  | .running _ | .calling _ _ => true
  | _ => false

/-- The hooks a runner is calling or may still call. -/
def pendOf : RPc → List Nat
  | .running r => r
  | .calling h r => h :: r
  | _ => []

/-- The locking is the one the theorems are about: the read lock is held during the calls, `Cancel` is exclusive. -/
def LockCfg.Sound (cfg : LockCfg) : Prop := (∀ ph, cfg.callsUnderLock ph = true) ∧ cfg.cancelExclusive = true

theorem LockCfg.code_sound : LockCfg.code.Sound :=
  ⟨fun ph => by cases ph <;> rfl, rfl⟩

/-- The safety invariant of the lock protocol. -/
structure Inv (st : HSt) : Prop where
  wlRd : st.wl = true → st.rd = []
  rdIff : ∀ g, g ∈ st.rd ↔ inLoop (st.rpc g) = true
  rdNodup : st.rd.Nodup
  /-- what a runner is calling or still has to call is registered (nobody can change the list while it holds the read lock) -/
  pendHooks : ∀ g h, h ∈ pendOf (st.rpc g) → h ∈ st.hooks
  hooksMade : ∀ h, h ∈ st.hooks → st.made h = true
  hooksNodup : st.hooks.Nodup
  csWl : ∀ x, (st.xpc x).inCS = true → st.wl = true
  csUnique : ∀ x y, (st.xpc x).inCS = true → (st.xpc y).inCS = true → x = y
  removedOut : ∀ x, (st.xpc x = .removed ∨ st.xpc x = .done) → st.xtarget x ∉ st.hooks
  enteredMade : ∀ x, st.xpc x ≠ .idle → st.made (st.xtarget x) = true
  retOut : ∀ h, st.cancelReturned h = true → h ∉ st.hooks ∧ st.made h = true
  doneRet : ∀ x, st.xpc x = .done → st.cancelReturned (st.xtarget x) = true
  noLate : st.late = []

theorem inv_init : Inv {} := by
  constructor <;> simp [inLoop, pendOf, XPc.inCS]

theorem upd_apply {α : Type} (f : Nat → α) (i j : Nat) (x : α) : upd f i x j = if j = i then x else f j := rfl

theorem inCS_cases {p : XPc} : p.inCS = true ↔ p = .locked ∨ p = .removed := by
  cases p <;> simp [XPc.inCS]

theorem no_runner {st : HSt} (h : Inv st) (hrd : st.rd = []) (g : Nat) : pendOf (st.rpc g) = [] := by
  have := h.rdIff g
  rw [hrd] at this
  cases hg : st.rpc g with
  | running l => rw [hg] at this; simp [inLoop] at this
  | calling c l => rw [hg] at this; simp [inLoop] at this
  | _ => rfl

/-- A runner moving inside its loop: its pending list shrinks to a sublist, nothing else that the invariant talks
    about changes. -/
theorem inv_advance {st st' : HSt} {g : Nat} {p : RPc} (h : Inv st)
    (hin : inLoop (st.rpc g) = true) (hin' : inLoop p = true) (hsub : ∀ x, x ∈ pendOf p → x ∈ pendOf (st.rpc g))
    (e1 : st'.wl = st.wl) (e2 : st'.rd = st.rd) (e3 : st'.rpc = upd st.rpc g p) (e4 : st'.hooks = st.hooks)
    (e5 : st'.made = st.made) (e6 : st'.xpc = st.xpc) (e7 : st'.xtarget = st.xtarget)
    (e8 : st'.cancelReturned = st.cancelReturned) (e9 : st'.late = []) : Inv st' := by
  constructor
  · rw [e1, e2]; exact h.wlRd
  · rw [e2, e3]
    intro x
    by_cases hx : x = g
    · subst hx; simp only [upd_apply, if_true, hin']; rw [h.rdIff x, hin]; simp
    · simp only [upd_apply, hx, if_false]; exact h.rdIff x
  · rw [e2]; exact h.rdNodup
  · rw [e3, e4]
    intro x j hj
    by_cases hx : x = g
    · subst hx
      simp only [upd_apply, if_true] at hj
      exact h.pendHooks x j (hsub j hj)
    · simp only [upd_apply, hx, if_false] at hj; exact h.pendHooks x j hj
  · rw [e4, e5]; exact h.hooksMade
  · rw [e4]; exact h.hooksNodup
  · rw [e6, e1]; exact h.csWl
  · rw [e6]; exact h.csUnique
  · rw [e6, e7, e4]; exact h.removedOut
  · rw [e6, e5, e7]; exact h.enteredMade
  · rw [e8, e4, e5]; exact h.retOut
  · rw [e6, e8, e7]; exact h.doneRet
  · exact e9

theorem inv_reg {cfg : LockCfg} {phaseOf : Nat → Phase} {applies : Nat → Nat → Bool} {st st' : HSt} {k : Nat} (h : Inv st)
    (hs : step cfg phaseOf applies st (.reg k) = some st') : Inv st' := by
  simp only [step] at hs
  by_cases hc : (st.wl || !st.rd.isEmpty || st.made k) = true
  · rw [if_pos hc] at hs; simp at hs
  · rw [if_neg hc] at hs
    simp only [Option.some.injEq] at hs
    subst hs
    simp only [Bool.or_eq_true, not_or, Bool.not_eq_true, Bool.not_eq_eq_eq_not, Bool.not_true] at hc
    obtain ⟨⟨hwl, hrd⟩, hmade⟩ := hc
    have hrd' : st.rd = [] := by simpa using hrd
    have hnin : k ∉ st.hooks := fun hm => by have := h.hooksMade k hm; rw [hmade] at this; simp at this
    exact {
      wlRd := h.wlRd, rdIff := h.rdIff, rdNodup := h.rdNodup, csWl := h.csWl, csUnique := h.csUnique,
      doneRet := h.doneRet, noLate := h.noLate,
      pendHooks := by
        intro g j hj
        rw [no_runner h hrd' g] at hj
        simp at hj
      hooksMade := by
        intro j hj
        simp only [List.mem_append, List.mem_singleton] at hj
        rcases hj with hj | rfl
        · have hne : j ≠ k := fun e => hnin (e ▸ hj)
          simp only [upd_apply, hne, if_false]
          exact h.hooksMade j hj
        · simp [upd_apply]
      hooksNodup := by
        rw [List.nodup_append]
        exact ⟨h.hooksNodup, by simp, by intro a ha b hb; simp at hb; subst hb; exact fun e => hnin (e ▸ ha)⟩
      removedOut := by
        intro x hx
        have hne : st.xtarget x ≠ k := fun e => by
          have := h.enteredMade x (by rcases hx with hx | hx <;> rw [hx] <;> simp)
          rw [e, hmade] at this; simp at this
        simp only [List.mem_append, List.mem_singleton, not_or]
        exact ⟨h.removedOut x hx, hne⟩
      enteredMade := by
        intro x hx
        have := h.enteredMade x hx
        by_cases hji : st.xtarget x = k
        · simp [upd_apply, hji]
        · simp only [upd_apply, hji, if_false]; exact this
      retOut := by
        intro j hj
        obtain ⟨a, b⟩ := h.retOut j hj
        have hne : j ≠ k := fun e => by rw [e, hmade] at b; simp at b
        refine ⟨?_, by simp only [upd_apply, hne, if_false]; exact b⟩
        simp only [List.mem_append, List.mem_singleton, not_or]
        exact ⟨a, hne⟩ }

theorem inv_rLock {cfg : LockCfg} {phaseOf : Nat → Phase} {applies : Nat → Nat → Bool} {st st' : HSt} {g : Nat} (h : Inv st)
    (hs : step cfg phaseOf applies st (.rLock g) = some st') : Inv st' := by
  simp only [step] at hs
  cases hg : st.rpc g with
  | idle =>
    rw [hg] at hs
    by_cases hwl : st.wl = true
    · simp [hwl] at hs
    · rw [if_neg hwl] at hs
      simp only [Option.some.injEq] at hs
      subst hs
      have hnot : g ∉ st.rd := by rw [h.rdIff, hg]; simp [inLoop]
      exact {
        hooksMade := h.hooksMade, hooksNodup := h.hooksNodup, csWl := h.csWl, csUnique := h.csUnique,
        removedOut := h.removedOut, enteredMade := h.enteredMade, retOut := h.retOut, doneRet := h.doneRet, noLate := h.noLate,
        wlRd := fun hh => absurd hh hwl
        rdNodup := List.nodup_cons.mpr ⟨hnot, h.rdNodup⟩
        rdIff := by
          intro x
          by_cases hx : x = g
          · subst hx; simp [inLoop, upd_apply]
          · simp only [upd_apply, hx, if_false, List.mem_cons, false_or]; exact h.rdIff x
        pendHooks := by
          intro x j hj
          by_cases hx : x = g
          · subst hx; simpa [upd_apply, pendOf] using hj
          · simp only [upd_apply, hx, if_false] at hj; exact h.pendHooks x j hj }
  | running r => rw [hg] at hs; simp at hs
  | calling c r => rw [hg] at hs; simp at hs
  | done => rw [hg] at hs; simp at hs

theorem inv_rSkip {cfg : LockCfg} {phaseOf : Nat → Phase} {applies : Nat → Nat → Bool} {st st' : HSt} {g : Nat} (h : Inv st)
    (hs : step cfg phaseOf applies st (.rSkip g) = some st') : Inv st' := by
  simp only [step] at hs
  cases hg : st.rpc g with
  | running l =>
    rw [hg] at hs
    cases l with
    | nil => simp at hs
    | cons k rem =>
      simp only [] at hs
      by_cases ha : applies g k = true
      · simp [ha] at hs
      · rw [if_neg ha] at hs
        simp only [Option.some.injEq] at hs
        subst hs
        exact inv_advance h (by rw [hg]; rfl) (p := .running rem) rfl
          (by intro x hx; rw [hg]; simp [pendOf] at hx ⊢; exact Or.inr hx) rfl rfl rfl rfl rfl rfl rfl rfl h.noLate
  | idle => rw [hg] at hs; simp at hs
  | calling c r => rw [hg] at hs; simp at hs
  | done => rw [hg] at hs; simp at hs

theorem inv_rCallBegin {cfg : LockCfg} {phaseOf : Nat → Phase} {applies : Nat → Nat → Bool} {st st' : HSt} {g : Nat} (h : Inv st)
    (hs : step cfg phaseOf applies st (.rCallBegin g) = some st') : Inv st' := by
  simp only [step] at hs
  cases hg : st.rpc g with
  | running l =>
    rw [hg] at hs
    cases l with
    | nil => simp at hs
    | cons k rem =>
      simp only [] at hs
      by_cases ha : applies g k = true
      · rw [if_pos ha] at hs
        simp only [Option.some.injEq] at hs
        subst hs
        -- the hook about to be called is registered, hence no Cancel of it has returned
        have hk : k ∈ st.hooks := h.pendHooks g k (by rw [hg]; simp [pendOf])
        have hnr : st.cancelReturned k = false := by
          cases hr : st.cancelReturned k with
          | false => rfl
          | true => exact absurd hk (h.retOut k hr).1
        exact inv_advance h (by rw [hg]; rfl) (p := .calling k rem) rfl
          (by intro x hx; rw [hg]; simpa [pendOf] using hx) rfl rfl rfl rfl rfl rfl rfl rfl
          (by simp [hnr, h.noLate])
      · simp [ha] at hs
  | idle => rw [hg] at hs; simp at hs
  | calling c r => rw [hg] at hs; simp at hs
  | done => rw [hg] at hs; simp at hs

theorem inv_rCallEnd {cfg : LockCfg} {phaseOf : Nat → Phase} {applies : Nat → Nat → Bool} {st st' : HSt} {g : Nat} {v : Bool}
    (h : Inv st) (hs : step cfg phaseOf applies st (.rCallEnd g v) = some st') : Inv st' := by
  simp only [step] at hs
  cases hg : st.rpc g with
  | calling k rem =>
    rw [hg] at hs
    simp only [] at hs
    by_cases hv : v = true
    · rw [if_pos hv] at hs
      simp only [Option.some.injEq] at hs
      subst hs
      exact inv_advance h (by rw [hg]; rfl) (p := .running []) rfl
        (by intro x hx; simp [pendOf] at hx) rfl rfl rfl rfl rfl rfl rfl rfl h.noLate
    · rw [if_neg hv] at hs
      simp only [Option.some.injEq] at hs
      subst hs
      exact inv_advance h (by rw [hg]; rfl) (p := .running rem) rfl
        (by intro x hx; rw [hg]; simp [pendOf] at hx ⊢; exact Or.inr hx) rfl rfl rfl rfl rfl rfl rfl rfl h.noLate
  | idle => rw [hg] at hs; simp at hs
  | running r => rw [hg] at hs; simp at hs
  | done => rw [hg] at hs; simp at hs

/-- Where the read lock is held during the calls, `rRelease` is never enabled. -/
theorem rRelease_disabled {cfg : LockCfg} (hc : cfg.Sound) {phaseOf : Nat → Phase} {applies : Nat → Nat → Bool} {st : HSt} {g : Nat} :
    step cfg phaseOf applies st (.rRelease g) = none := by
  simp only [step]
  cases st.rpc g <;> simp [hc.1]

theorem inv_rUnlock {cfg : LockCfg} {phaseOf : Nat → Phase} {applies : Nat → Nat → Bool} {st st' : HSt} {g : Nat} (h : Inv st)
    (hs : step cfg phaseOf applies st (.rUnlock g) = some st') : Inv st' := by
  simp only [step] at hs
  cases hg : st.rpc g with
  | running l =>
    rw [hg] at hs
    cases l with
    | cons k rem => simp at hs
    | nil =>
      simp only [Option.some.injEq] at hs
      subst hs
      have hin : g ∈ st.rd := by rw [h.rdIff, hg]; simp [inLoop]
      exact {
        hooksMade := h.hooksMade, hooksNodup := h.hooksNodup, csWl := h.csWl, csUnique := h.csUnique,
        removedOut := h.removedOut, enteredMade := h.enteredMade, retOut := h.retOut, doneRet := h.doneRet, noLate := h.noLate,
        wlRd := by
          intro hh
          have := h.wlRd hh
          rw [this] at hin
          simp at hin
        rdNodup := h.rdNodup.erase g
        rdIff := by
          intro x
          by_cases hx : x = g
          · subst hx
            simp [inLoop, upd_apply, h.rdNodup.mem_erase_iff]
          · simp only [upd_apply, hx, if_false]
            rw [← h.rdIff x]
            simp [h.rdNodup.mem_erase_iff, hx]
        pendHooks := by
          intro x j hj
          by_cases hx : x = g
          · subst hx; simp [upd_apply, pendOf] at hj
          · simp only [upd_apply, hx, if_false] at hj; exact h.pendHooks x j hj }
  | idle => rw [hg] at hs; simp at hs
  | calling c r => rw [hg] at hs; simp at hs
  | done => rw [hg] at hs; simp at hs

/-- A cancel thread changing its own pc outside of what touches locks and lists. -/
theorem inv_xframe {st st' : HSt} {x : Nat} {p : XPc} (h : Inv st)
    (e1 : st'.wl = st.wl) (e2 : st'.rd = st.rd) (e3 : st'.rpc = st.rpc) (e4 : st'.hooks = st.hooks)
    (e5 : st'.made = st.made) (e6 : st'.xpc = upd st.xpc x p) (e8 : st'.cancelReturned = st.cancelReturned)
    (e9 : st'.late = st.late)
    (csWl : ∀ y, (st'.xpc y).inCS = true → st'.wl = true)
    (csUnique : ∀ y z, (st'.xpc y).inCS = true → (st'.xpc z).inCS = true → y = z)
    (removedOut : ∀ y, (st'.xpc y = .removed ∨ st'.xpc y = .done) → st'.xtarget y ∉ st'.hooks)
    (enteredMade : ∀ y, st'.xpc y ≠ .idle → st'.made (st'.xtarget y) = true)
    (doneRet : ∀ y, st'.xpc y = .done → st'.cancelReturned (st'.xtarget y) = true) : Inv st' := by
  constructor
  · rw [e1, e2]; exact h.wlRd
  · rw [e2, e3]; exact h.rdIff
  · rw [e2]; exact h.rdNodup
  · rw [e3, e4]; exact h.pendHooks
  · rw [e4, e5]; exact h.hooksMade
  · rw [e4]; exact h.hooksNodup
  · exact csWl
  · exact csUnique
  · exact removedOut
  · exact enteredMade
  · rw [e8, e4, e5]; exact h.retOut
  · exact doneRet
  · rw [e9]; exact h.noLate

theorem inv_xEnter {cfg : LockCfg} {phaseOf : Nat → Phase} {applies : Nat → Nat → Bool} {st st' : HSt} {x k : Nat} (h : Inv st)
    (hs : step cfg phaseOf applies st (.xEnter x k) = some st') : Inv st' := by
  simp only [step] at hs
  cases hx : st.xpc x with
  | idle =>
    rw [hx] at hs
    by_cases hm : st.made k = true
    · rw [if_pos hm] at hs
      simp only [Option.some.injEq] at hs
      subst hs
      refine inv_xframe (x := x) (p := .entered) h rfl rfl rfl rfl rfl rfl rfl rfl ?_ ?_ ?_ ?_ ?_
      · intro y hy
        by_cases hyx : y = x
        · subst hyx; simp [upd_apply, XPc.inCS] at hy
        · simp only [upd_apply, hyx, if_false] at hy; exact h.csWl y hy
      · intro y z hy hz
        by_cases hyx : y = x
        · subst hyx; simp [upd_apply, XPc.inCS] at hy
        · by_cases hzx : z = x
          · subst hzx; simp [upd_apply, XPc.inCS] at hz
          · simp only [upd_apply, hyx, if_false] at hy; simp only [upd_apply, hzx, if_false] at hz
            exact h.csUnique y z hy hz
      · intro y hy
        by_cases hyx : y = x
        · subst hyx; simp [upd_apply] at hy
        · simp only [upd_apply, hyx, if_false] at hy ⊢; exact h.removedOut y hy
      · intro y hy
        by_cases hyx : y = x
        · subst hyx; simp [upd_apply, hm]
        · simp only [upd_apply, hyx, if_false] at hy ⊢; exact h.enteredMade y hy
      · intro y hy
        by_cases hyx : y = x
        · subst hyx; simp [upd_apply] at hy
        · simp only [upd_apply, hyx, if_false] at hy ⊢; exact h.doneRet y hy
    · rw [if_neg hm] at hs; simp at hs
  | entered => rw [hx] at hs; simp at hs
  | locked => rw [hx] at hs; simp at hs
  | removed => rw [hx] at hs; simp at hs
  | done => rw [hx] at hs; simp at hs

theorem inv_xLock {cfg : LockCfg} (hcfg : cfg.Sound) {phaseOf : Nat → Phase} {applies : Nat → Nat → Bool} {st st' : HSt} {x : Nat}
    (h : Inv st) (hs : step cfg phaseOf applies st (.xLock x) = some st') : Inv st' := by
  simp only [step] at hs
  cases hx : st.xpc x with
  | entered =>
    rw [hx] at hs
    simp only [hcfg.2, if_true] at hs
    by_cases hc : (st.wl || !st.rd.isEmpty) = true
    · rw [if_pos hc] at hs; simp at hs
    · rw [if_neg hc] at hs
      simp only [Option.some.injEq] at hs
      subst hs
      simp only [Bool.or_eq_true, not_or, Bool.not_eq_true, Bool.not_eq_eq_eq_not, Bool.not_true] at hc
      obtain ⟨hwl, hrd⟩ := hc
      have hrd' : st.rd = [] := by simpa using hrd
      have nocs : ∀ y, (st.xpc y).inCS = true → False := fun y hy => by
        have := h.csWl y hy; rw [hwl] at this; simp at this
      exact {
        rdIff := h.rdIff, rdNodup := h.rdNodup, pendHooks := h.pendHooks, hooksMade := h.hooksMade,
        hooksNodup := h.hooksNodup, retOut := h.retOut, noLate := h.noLate,
        wlRd := fun _ => hrd'
        csWl := fun _ _ => rfl
        csUnique := by
          intro y z hy hz
          by_cases hyx : y = x
          · by_cases hzx : z = x
            · rw [hyx, hzx]
            · simp only [upd_apply, hzx, if_false] at hz; exact (nocs z hz).elim
          · simp only [upd_apply, hyx, if_false] at hy; exact (nocs y hy).elim
        removedOut := by
          intro y hy
          by_cases hyx : y = x
          · subst hyx; simp [upd_apply] at hy
          · simp only [upd_apply, hyx, if_false] at hy; exact h.removedOut y hy
        enteredMade := by
          intro y hy
          by_cases hyx : y = x
          · subst hyx; exact h.enteredMade y (by rw [hx]; simp)
          · simp only [upd_apply, hyx, if_false] at hy; exact h.enteredMade y hy
        doneRet := by
          intro y hy
          by_cases hyx : y = x
          · subst hyx; simp [upd_apply] at hy
          · simp only [upd_apply, hyx, if_false] at hy; exact h.doneRet y hy }
  | idle => rw [hx] at hs; simp at hs
  | locked => rw [hx] at hs; simp at hs
  | removed => rw [hx] at hs; simp at hs
  | done => rw [hx] at hs; simp at hs

theorem inv_xRemove {cfg : LockCfg} {phaseOf : Nat → Phase} {applies : Nat → Nat → Bool} {st st' : HSt} {x : Nat}
    (h : Inv st) (hs : step cfg phaseOf applies st (.xRemove x) = some st') : Inv st' := by
  simp only [step] at hs
  cases hx : st.xpc x with
  | locked =>
    rw [hx] at hs
    simp only [Option.some.injEq] at hs
    subst hs
    have hwl : st.wl = true := h.csWl x (by rw [hx]; rfl)
    have hrd : st.rd = [] := h.wlRd hwl
    have hsub : ∀ j, j ∈ st.hooks.erase (st.xtarget x) → j ∈ st.hooks := fun j hj => List.mem_of_mem_erase hj
    exact {
      wlRd := h.wlRd, rdIff := h.rdIff, rdNodup := h.rdNodup,
      pendHooks := by
        intro g j hj
        rw [no_runner h hrd g] at hj
        simp at hj
      hooksMade := fun j hj => h.hooksMade j (hsub j hj)
      hooksNodup := h.hooksNodup.erase _
      noLate := h.noLate
      csWl := by
        intro y hy
        by_cases hyx : y = x
        · exact hwl
        · simp only [upd_apply, hyx, if_false] at hy; exact h.csWl y hy
      csUnique := by
        intro y z hy hz
        have hxcs : (st.xpc x).inCS = true := by rw [hx]; rfl
        by_cases hyx : y = x
        · by_cases hzx : z = x
          · rw [hyx, hzx]
          · simp only [upd_apply, hzx, if_false] at hz; rw [hyx]; exact h.csUnique x z hxcs hz
        · simp only [upd_apply, hyx, if_false] at hy
          exact absurd (h.csUnique y x hy hxcs) hyx
      removedOut := by
        intro y hy
        by_cases hyx : y = x
        · subst hyx
          exact fun hm => (h.hooksNodup.mem_erase_iff.mp hm).1 rfl
        · simp only [upd_apply, hyx, if_false] at hy
          exact fun hm => h.removedOut y hy (hsub _ hm)
      enteredMade := by
        intro y hy
        by_cases hyx : y = x
        · subst hyx; exact h.enteredMade y (by rw [hx]; simp)
        · simp only [upd_apply, hyx, if_false] at hy; exact h.enteredMade y hy
      retOut := fun j hj => ⟨fun hm => (h.retOut j hj).1 (hsub j hm), (h.retOut j hj).2⟩
      doneRet := by
        intro y hy
        by_cases hyx : y = x
        · subst hyx; simp [upd_apply] at hy
        · simp only [upd_apply, hyx, if_false] at hy; exact h.doneRet y hy }
  | idle => rw [hx] at hs; simp at hs
  | entered => rw [hx] at hs; simp at hs
  | removed => rw [hx] at hs; simp at hs
  | done => rw [hx] at hs; simp at hs

theorem inv_xUnlock {cfg : LockCfg} {phaseOf : Nat → Phase} {applies : Nat → Nat → Bool} {st st' : HSt} {x : Nat}
    (h : Inv st) (hs : step cfg phaseOf applies st (.xUnlock x) = some st') : Inv st' := by
  simp only [step] at hs
  cases hx : st.xpc x with
  | removed =>
    rw [hx] at hs
    simp only [Option.some.injEq] at hs
    subst hs
    have hxcs : (st.xpc x).inCS = true := by rw [hx]; rfl
    have hwl : st.wl = true := h.csWl x hxcs
    have hout : st.xtarget x ∉ st.hooks := h.removedOut x (Or.inl hx)
    have hmade : st.made (st.xtarget x) = true := h.enteredMade x (by rw [hx]; simp)
    exact {
      rdIff := h.rdIff, rdNodup := h.rdNodup, pendHooks := h.pendHooks, hooksMade := h.hooksMade,
      hooksNodup := h.hooksNodup, noLate := h.noLate,
      wlRd := fun _ => h.wlRd hwl
      csWl := by
        intro y hy
        by_cases hyx : y = x
        · subst hyx; simp [upd_apply, XPc.inCS] at hy
        · simp only [upd_apply, hyx, if_false] at hy
          exact absurd (h.csUnique y x hy hxcs) hyx
      csUnique := by
        intro y z hy hz
        by_cases hyx : y = x
        · subst hyx; simp [upd_apply, XPc.inCS] at hy
        · simp only [upd_apply, hyx, if_false] at hy
          exact absurd (h.csUnique y x hy hxcs) hyx
      removedOut := by
        intro y hy
        by_cases hyx : y = x
        · subst hyx; exact hout
        · simp only [upd_apply, hyx, if_false] at hy; exact h.removedOut y hy
      enteredMade := by
        intro y hy
        by_cases hyx : y = x
        · subst hyx; exact hmade
        · simp only [upd_apply, hyx, if_false] at hy; exact h.enteredMade y hy
      retOut := by
        intro j hj
        by_cases hjt : j = st.xtarget x
        · subst hjt; exact ⟨hout, hmade⟩
        · simp only [upd_apply, hjt, if_false] at hj; exact h.retOut j hj
      doneRet := by
        intro y hy
        by_cases hyx : y = x
        · subst hyx; simp [upd_apply]
        · simp only [upd_apply, hyx, if_false] at hy
          by_cases hjt : st.xtarget y = st.xtarget x
          · simp [upd_apply, hjt]
          · simp only [upd_apply, hjt, if_false]; exact h.doneRet y hy }
  | idle => rw [hx] at hs; simp at hs
  | entered => rw [hx] at hs; simp at hs
  | locked => rw [hx] at hs; simp at hs
  | done => rw [hx] at hs; simp at hs

theorem inv_step {cfg : LockCfg} (hcfg : cfg.Sound) {phaseOf : Nat → Phase} {applies : Nat → Nat → Bool} {st st' : HSt} (a : Act)
    (h : Inv st) (hs : step cfg phaseOf applies st a = some st') : Inv st' := by
  cases a with
  | reg k => exact inv_reg h hs
  | rLock g => exact inv_rLock h hs
  | rSkip g => exact inv_rSkip h hs
  | rCallBegin g => exact inv_rCallBegin h hs
  | rCallEnd g v => exact inv_rCallEnd h hs
  | rRelease g => rw [rRelease_disabled hcfg] at hs; simp at hs
  | rUnlock g => exact inv_rUnlock h hs
  | xEnter x k => exact inv_xEnter h hs
  | xLock x => exact inv_xLock hcfg h hs
  | xRemove x => exact inv_xRemove h hs
  | xUnlock x => exact inv_xUnlock h hs

theorem inv_reach {cfg : LockCfg} (hcfg : cfg.Sound) {phaseOf : Nat → Phase} {applies : Nat → Nat → Bool} {st : HSt}
    (h : Reach cfg phaseOf applies st) : Inv st := by
  induction h with
  | init => exact inv_init
  | step a _ hs ih => exact inv_step hcfg a ih hs

theorem reach_runActs {cfg : LockCfg} {phaseOf : Nat → Phase} {applies : Nat → Nat → Bool} :
    ∀ (acts : List Act) (st st' : HSt), Reach cfg phaseOf applies st → runActs cfg phaseOf applies acts st = some st' →
      Reach cfg phaseOf applies st' := by
  intro acts
  induction acts with
  | nil => intro st st' h e; simp [runActs] at e; subst e; exact h
  | cons a as ih =>
    intro st st' h e
    simp only [runActs] at e
    cases hs : step cfg phaseOf applies st a with
    | none => rw [hs] at e; simp at e
    | some s1 => rw [hs] at e; exact ih s1 st' (Reach.step a h hs) e

/-- The ghost list of call begins grows only by `rCallBegin`, by one entry for the head of the runner's list. -/
theorem step_calls {cfg : LockCfg} {phaseOf : Nat → Phase} {applies : Nat → Nat → Bool} {st st' : HSt} {a : Act}
    (hs : step cfg phaseOf applies st a = some st') :
    st'.calls = st.calls ∨ ∃ g k rem, a = .rCallBegin g ∧ st.rpc g = .running (k :: rem) ∧ st'.calls = st.calls ++ [(g, k)] := by
  cases a with
  | rCallBegin g =>
    simp only [step] at hs
    cases hg : st.rpc g with
    | running l =>
      rw [hg] at hs
      cases l with
      | nil => simp at hs
      | cons k rem =>
        simp only [] at hs
        by_cases ha : applies g k = true
        · rw [if_pos ha] at hs
          simp only [Option.some.injEq] at hs
          subst hs
          exact Or.inr ⟨g, k, rem, rfl, hg, rfl⟩
        · simp [ha] at hs
    | idle => rw [hg] at hs; simp at hs
    | calling c r => rw [hg] at hs; simp at hs
    | done => rw [hg] at hs; simp at hs
  | reg k => left; simp only [step] at hs; split at hs <;> simp at hs; subst hs; rfl
  | rLock g => left; simp only [step] at hs; (repeat' split at hs) <;> simp at hs <;> subst hs <;> rfl
  | rSkip g => left; simp only [step] at hs; (repeat' split at hs) <;> simp at hs <;> subst hs <;> rfl
  | rCallEnd g v => left; simp only [step] at hs; (repeat' split at hs) <;> simp at hs <;> subst hs <;> rfl
  | rRelease g => left; simp only [step] at hs; (repeat' split at hs) <;> simp at hs <;> subst hs <;> rfl
  | rUnlock g => left; simp only [step] at hs; (repeat' split at hs) <;> simp at hs <;> subst hs <;> rfl
  | xEnter x k => left; simp only [step] at hs; (repeat' split at hs) <;> simp at hs <;> subst hs <;> rfl
  | xLock x => left; simp only [step] at hs; (repeat' split at hs) <;> simp at hs <;> subst hs <;> rfl
  | xRemove x => left; simp only [step] at hs; (repeat' split at hs) <;> simp at hs <;> subst hs <;> rfl
  | xUnlock x => left; simp only [step] at hs; (repeat' split at hs) <;> simp at hs <;> subst hs <;> rfl

end PB.HooksConc

/-! ## Which hooks a runner calls -/
namespace PB.HooksConc
open PB.SubsConc (upd)
open PB.Subs (Phase)

theorem callsOf_append (calls : List (Nat × Nat)) (x k g : Nat) :
    callsOf (calls ++ [(x, k)]) g = if x = g then callsOf calls g ++ [k] else callsOf calls g := by
  unfold callsOf
  by_cases h : x = g
  · simp [List.filter_append, h]
  · simp [List.filter_append, h]

/-- What runner `g` has called so far, relative to the list it iterates over (`snap g`): the applicable hooks of the
    part of the list it has passed — all of them, unless a veto ended the loop. -/
def LogOk (applies : Nat → Nat → Bool) (st : HSt) (g : Nat) : Prop :=
  match st.rpc g with
  | .idle => callsOf st.calls g = [] ∧ st.vetoed g = false
  | .running rem =>
    if st.vetoed g then rem = [] ∧ callsOf st.calls g <+: (st.snap g).filter (applies g)
    else ∃ pre, st.snap g = pre ++ rem ∧ callsOf st.calls g = pre.filter (applies g)
  | .calling k rem =>
    st.vetoed g = false ∧ applies g k = true ∧
      ∃ pre, st.snap g = pre ++ k :: rem ∧ callsOf st.calls g = (pre ++ [k]).filter (applies g)
  | .done =>
    if st.vetoed g then callsOf st.calls g <+: (st.snap g).filter (applies g)
    else callsOf st.calls g = (st.snap g).filter (applies g)

structure DInv (applies : Nat → Nat → Bool) (st : HSt) : Prop where
  xReq : ∀ x, st.xpc x ≠ .idle → st.cancelReq (st.xtarget x) = true
  liveIn : ∀ k, st.made k = true → st.cancelReq k = false → k ∈ st.hooks
  snapLive : ∀ g k, st.rpc g ≠ .idle → st.madeAtLock g k = true → st.cancelReq k = false → k ∈ st.snap g
  logSnap : ∀ g, LogOk applies st g
  snapNodup : ∀ g, (st.snap g).Nodup

theorem dinv_init (applies : Nat → Nat → Bool) : DInv applies {} := by
  constructor <;> simp [LogOk, callsOf]

/-- `LogOk` only looks at the runner's own pc, the calls, its snapshot and its veto flag. -/
theorem logOk_frame {applies : Nat → Nat → Bool} {st st' : HSt} {g : Nat} (h : LogOk applies st g)
    (e1 : st'.rpc g = st.rpc g) (e2 : callsOf st'.calls g = callsOf st.calls g) (e3 : st'.snap g = st.snap g)
    (e4 : st'.vetoed g = st.vetoed g) : LogOk applies st' g := by
  unfold LogOk at *
  rw [e1, e2, e3, e4]
  exact h

/-- A step of anything but runner `g` itself leaves `LogOk … g` alone. -/
theorem logOk_other {cfg : LockCfg} {phaseOf : Nat → Phase} {applies : Nat → Nat → Bool} {st st' : HSt} {a : Act} {g : Nat}
    (hs : step cfg phaseOf applies st a = some st') (h : LogOk applies st g)
    (hne : ∀ g', (a = .rLock g' ∨ a = .rSkip g' ∨ a = .rCallBegin g' ∨ (∃ v, a = .rCallEnd g' v) ∨ a = .rRelease g' ∨ a = .rUnlock g') → g' ≠ g) :
    LogOk applies st' g := by
  cases a with
  | reg k =>
    simp only [step] at hs; split at hs <;> simp at hs; subst hs
    exact logOk_frame h rfl rfl rfl rfl
  | rLock g' =>
    have hg := hne g' (Or.inl rfl)
    simp only [step] at hs
    (repeat' split at hs) <;> simp at hs <;> subst hs <;>
      exact logOk_frame h (by simp [upd_apply, Ne.symm hg]) rfl (by simp [upd_apply, Ne.symm hg]) rfl
  | rSkip g' =>
    have hg := hne g' (Or.inr (Or.inl rfl))
    simp only [step] at hs
    (repeat' split at hs) <;> simp at hs <;> subst hs <;>
      exact logOk_frame h (by simp [upd_apply, Ne.symm hg]) rfl rfl rfl
  | rCallBegin g' =>
    have hg := hne g' (Or.inr (Or.inr (Or.inl rfl)))
    simp only [step] at hs
    (repeat' split at hs) <;> simp at hs <;> subst hs <;>
      exact logOk_frame h (by simp [upd_apply, Ne.symm hg]) (by simp [callsOf_append, hg]) rfl rfl
  | rCallEnd g' v =>
    have hg := hne g' (Or.inr (Or.inr (Or.inr (Or.inl ⟨v, rfl⟩))))
    simp only [step] at hs
    (repeat' split at hs) <;> simp at hs <;> subst hs <;>
      exact logOk_frame h (by simp [upd_apply, Ne.symm hg]) rfl rfl (by simp [upd_apply, Ne.symm hg])
  | rRelease g' =>
    have hg := hne g' (Or.inr (Or.inr (Or.inr (Or.inr (Or.inl rfl)))))
    simp only [step] at hs
    (repeat' split at hs) <;> simp at hs <;> subst hs <;>
      exact logOk_frame h (by simp [upd_apply, Ne.symm hg]) rfl rfl rfl
  | rUnlock g' =>
    have hg := hne g' (Or.inr (Or.inr (Or.inr (Or.inr (Or.inr rfl)))))
    simp only [step] at hs
    (repeat' split at hs) <;> simp at hs <;> subst hs <;>
      exact logOk_frame h (by simp [upd_apply, Ne.symm hg]) rfl rfl rfl
  | xEnter x k =>
    simp only [step] at hs
    (repeat' split at hs) <;> simp at hs <;> subst hs <;> exact logOk_frame h rfl rfl rfl rfl
  | xLock x =>
    simp only [step] at hs
    (repeat' split at hs) <;> simp at hs <;> subst hs <;> exact logOk_frame h rfl rfl rfl rfl
  | xRemove x =>
    simp only [step] at hs
    (repeat' split at hs) <;> simp at hs <;> subst hs <;> exact logOk_frame h rfl rfl rfl rfl
  | xUnlock x =>
    simp only [step] at hs
    (repeat' split at hs) <;> simp at hs <;> subst hs <;> exact logOk_frame h rfl rfl rfl rfl

/-- The runner's own steps. -/
theorem logOk_self {cfg : LockCfg} {phaseOf : Nat → Phase} {applies : Nat → Nat → Bool} {st st' : HSt} {a : Act} {g : Nat}
    (hs : step cfg phaseOf applies st a = some st') (h : LogOk applies st g)
    (ha : a = .rLock g ∨ a = .rSkip g ∨ a = .rCallBegin g ∨ (∃ v, a = .rCallEnd g v) ∨ a = .rRelease g ∨ a = .rUnlock g) :
    LogOk applies st' g := by
  rcases ha with rfl | rfl | rfl | ⟨v, rfl⟩ | rfl | rfl
  · -- rLock
    simp only [step] at hs
    cases hg : st.rpc g with
    | idle =>
      rw [hg] at hs
      by_cases hwl : st.wl = true
      · simp [hwl] at hs
      · rw [if_neg hwl] at hs
        simp only [Option.some.injEq] at hs
        subst hs
        unfold LogOk at h ⊢
        rw [hg] at h
        simp only [upd_apply, if_true, h.2, Bool.false_eq_true, if_false]
        exact ⟨[], by simp, by simp [h.1]⟩
    | running r => rw [hg] at hs; simp at hs
    | calling c r => rw [hg] at hs; simp at hs
    | done => rw [hg] at hs; simp at hs
  · -- rSkip
    simp only [step] at hs
    cases hg : st.rpc g with
    | running l =>
      rw [hg] at hs
      cases l with
      | nil => simp at hs
      | cons k rem =>
        simp only [] at hs
        by_cases hap : applies g k = true
        · simp [hap] at hs
        · rw [if_neg hap] at hs
          simp only [Option.some.injEq] at hs
          subst hs
          unfold LogOk at h ⊢
          rw [hg] at h
          simp only [upd_apply, if_true]
          by_cases hv : st.vetoed g = true
          · simp [hv] at h
          · simp only [hv, Bool.false_eq_true, if_false] at h ⊢
            obtain ⟨pre, h1, h2⟩ := h
            exact ⟨pre ++ [k], by simp [h1], by simp [List.filter_append, hap, h2]⟩
    | idle => rw [hg] at hs; simp at hs
    | calling c r => rw [hg] at hs; simp at hs
    | done => rw [hg] at hs; simp at hs
  · -- rCallBegin
    simp only [step] at hs
    cases hg : st.rpc g with
    | running l =>
      rw [hg] at hs
      cases l with
      | nil => simp at hs
      | cons k rem =>
        simp only [] at hs
        by_cases hap : applies g k = true
        · rw [if_pos hap] at hs
          simp only [Option.some.injEq] at hs
          subst hs
          unfold LogOk at h ⊢
          rw [hg] at h
          simp only [upd_apply, if_true]
          by_cases hv : st.vetoed g = true
          · simp [hv] at h
          · simp only [hv, Bool.false_eq_true, if_false] at h
            obtain ⟨pre, h1, h2⟩ := h
            refine ⟨by simpa using hv, hap, pre, h1, ?_⟩
            simp [callsOf_append, List.filter_append, hap, h2]
        · simp [hap] at hs
    | idle => rw [hg] at hs; simp at hs
    | calling c r => rw [hg] at hs; simp at hs
    | done => rw [hg] at hs; simp at hs
  · -- rCallEnd
    simp only [step] at hs
    cases hg : st.rpc g with
    | calling k rem =>
      rw [hg] at hs
      simp only [] at hs
      unfold LogOk at h
      rw [hg] at h
      obtain ⟨hv0, hap, pre, h1, h2⟩ := h
      by_cases hv : v = true
      · rw [if_pos hv] at hs
        simp only [Option.some.injEq] at hs
        subst hs
        unfold LogOk
        simp only [upd_apply, if_true]
        refine ⟨trivial, ?_⟩
        rw [h2, h1]
        have : pre ++ k :: rem = (pre ++ [k]) ++ rem := by simp
        rw [this, List.filter_append (pre ++ [k]) rem]
        exact List.prefix_append _ _
      · rw [if_neg hv] at hs
        simp only [Option.some.injEq] at hs
        subst hs
        unfold LogOk
        simp only [upd_apply, if_true, hv0, Bool.false_eq_true, if_false]
        exact ⟨pre ++ [k], by simp [h1], h2⟩
    | idle => rw [hg] at hs; simp at hs
    | running r => rw [hg] at hs; simp at hs
    | done => rw [hg] at hs; simp at hs
  · -- rRelease
    simp only [step] at hs
    cases hg : st.rpc g with
    | running l =>
      rw [hg] at hs
      simp only [] at hs
      split at hs
      · simp only [Option.some.injEq] at hs
        subst hs
        refine logOk_frame h ?_ rfl rfl rfl
        simp [upd_apply, hg]
      · simp at hs
    | idle => rw [hg] at hs; simp at hs
    | calling c r => rw [hg] at hs; simp at hs
    | done => rw [hg] at hs; simp at hs
  · -- rUnlock
    simp only [step] at hs
    cases hg : st.rpc g with
    | running l =>
      rw [hg] at hs
      cases l with
      | cons k rem => simp at hs
      | nil =>
        simp only [Option.some.injEq] at hs
        subst hs
        unfold LogOk at h ⊢
        rw [hg] at h
        simp only [upd_apply, if_true]
        by_cases hv : st.vetoed g = true
        · simp only [hv, if_true] at h ⊢
          exact h.2
        · simp only [hv, Bool.false_eq_true, if_false] at h ⊢
          obtain ⟨pre, h1, h2⟩ := h
          rw [h2, h1]; simp
    | idle => rw [hg] at hs; simp at hs
    | calling c r => rw [hg] at hs; simp at hs
    | done => rw [hg] at hs; simp at hs

theorem logOk_step {cfg : LockCfg} {phaseOf : Nat → Phase} {applies : Nat → Nat → Bool} {st st' : HSt} {a : Act} (g : Nat)
    (hs : step cfg phaseOf applies st a = some st') (h : LogOk applies st g) : LogOk applies st' g := by
  by_cases ha : a = .rLock g ∨ a = .rSkip g ∨ a = .rCallBegin g ∨ (∃ v, a = .rCallEnd g v) ∨ a = .rRelease g ∨ a = .rUnlock g
  · exact logOk_self hs h ha
  · refine logOk_other hs h ?_
    intro g' hg' e
    subst e
    exact ha hg'

theorem snapLive_upd {applies : Nat → Nat → Bool} {st : HSt} (h : DInv applies st) {g : Nat} (hg : st.rpc g ≠ .idle) (p : RPc) :
    ∀ x j, upd st.rpc g p x ≠ .idle → st.madeAtLock x j = true → st.cancelReq j = false → j ∈ st.snap x := by
  intro x j hx hm hr
  by_cases hxg : x = g
  · subst hxg; exact h.snapLive x j hg hm hr
  · simp only [upd_apply, hxg, if_false] at hx; exact h.snapLive x j hx hm hr

/-- The fields of a step that `DInv` needs, action by action. -/
theorem dinv_step {cfg : LockCfg} (hcfg : cfg.Sound) {phaseOf : Nat → Phase} {applies : Nat → Nat → Bool} {st st' : HSt} (a : Act)
    (hi : Inv st) (h : DInv applies st) (hs : step cfg phaseOf applies st a = some st') : DInv applies st' := by
  have hlog : ∀ g, LogOk applies st' g := fun g => logOk_step g hs (h.logSnap g)
  cases a with
  | reg k =>
    simp only [step] at hs
    by_cases hc : (st.wl || !st.rd.isEmpty || st.made k) = true
    · rw [if_pos hc] at hs; simp at hs
    · rw [if_neg hc] at hs
      simp only [Option.some.injEq] at hs
      subst hs
      simp only [Bool.or_eq_true, not_or, Bool.not_eq_true, Bool.not_eq_eq_eq_not, Bool.not_true] at hc
      exact {
        xReq := h.xReq, snapLive := h.snapLive, logSnap := hlog, snapNodup := h.snapNodup,
        liveIn := by
          intro j hj hr
          by_cases hjk : j = k
          · simp [hjk]
          · simp only [upd_apply, hjk, if_false] at hj
            simp [h.liveIn j hj hr] }
  | rLock g =>
    have hs0 := hs
    simp only [step] at hs
    cases hg : st.rpc g with
    | idle =>
      rw [hg] at hs
      by_cases hwl : st.wl = true
      · simp [hwl] at hs
      · rw [if_neg hwl] at hs
        simp only [Option.some.injEq] at hs
        subst hs
        exact {
          xReq := h.xReq, liveIn := h.liveIn, logSnap := hlog,
          snapLive := by
            intro x k hx hm hr
            by_cases hxg : x = g
            · subst hxg
              simp only [upd_apply, if_true] at hm ⊢
              exact h.liveIn k hm hr
            · simp only [upd_apply, hxg, if_false] at hx hm ⊢
              exact h.snapLive x k hx hm hr
          snapNodup := by
            intro x
            by_cases hxg : x = g
            · subst hxg; simp only [upd_apply, if_true]; exact hi.hooksNodup
            · simp only [upd_apply, hxg, if_false]; exact h.snapNodup x }
    | running r => rw [hg] at hs; simp at hs
    | calling c r => rw [hg] at hs; simp at hs
    | done => rw [hg] at hs; simp at hs
  | rSkip g =>
    simp only [step] at hs
    cases hg : st.rpc g with
    | running l =>
      rw [hg] at hs
      cases l with
      | nil => simp at hs
      | cons k rem =>
        simp only [] at hs
        split at hs
        · simp at hs
        · simp only [Option.some.injEq] at hs
          subst hs
          exact { xReq := h.xReq, liveIn := h.liveIn, logSnap := hlog, snapNodup := h.snapNodup,
                  snapLive := snapLive_upd h (by rw [hg]; simp) _ }
    | idle => rw [hg] at hs; simp at hs
    | calling c r => rw [hg] at hs; simp at hs
    | done => rw [hg] at hs; simp at hs
  | rCallBegin g =>
    simp only [step] at hs
    cases hg : st.rpc g with
    | running l =>
      rw [hg] at hs
      cases l with
      | nil => simp at hs
      | cons k rem =>
        simp only [] at hs
        split at hs
        · simp only [Option.some.injEq] at hs
          subst hs
          exact { xReq := h.xReq, liveIn := h.liveIn, logSnap := hlog, snapNodup := h.snapNodup,
                  snapLive := snapLive_upd h (by rw [hg]; simp) _ }
        · simp at hs
    | idle => rw [hg] at hs; simp at hs
    | calling c r => rw [hg] at hs; simp at hs
    | done => rw [hg] at hs; simp at hs
  | rCallEnd g v =>
    simp only [step] at hs
    cases hg : st.rpc g with
    | calling k rem =>
      rw [hg] at hs
      simp only [] at hs
      have hsl : ∀ (p : RPc) (x j : Nat), upd st.rpc g p x ≠ .idle → st.madeAtLock x j = true → st.cancelReq j = false →
          j ∈ st.snap x := by
        intro p x j hx hm hr
        by_cases hxg : x = g
        · subst hxg; exact h.snapLive x j (by rw [hg]; simp) hm hr
        · simp only [upd_apply, hxg, if_false] at hx; exact h.snapLive x j hx hm hr
      by_cases hv : v = true
      · rw [if_pos hv] at hs
        simp only [Option.some.injEq] at hs
        subst hs
        exact { xReq := h.xReq, liveIn := h.liveIn, logSnap := hlog, snapNodup := h.snapNodup, snapLive := hsl _ }
      · rw [if_neg hv] at hs
        simp only [Option.some.injEq] at hs
        subst hs
        exact { xReq := h.xReq, liveIn := h.liveIn, logSnap := hlog, snapNodup := h.snapNodup, snapLive := hsl _ }
    | idle => rw [hg] at hs; simp at hs
    | running r => rw [hg] at hs; simp at hs
    | done => rw [hg] at hs; simp at hs
  | rRelease g => rw [rRelease_disabled hcfg] at hs; simp at hs
  | rUnlock g =>
    simp only [step] at hs
    cases hg : st.rpc g with
    | running l =>
      rw [hg] at hs
      cases l with
      | cons k rem => simp at hs
      | nil =>
        simp only [Option.some.injEq] at hs
        subst hs
        exact { xReq := h.xReq, liveIn := h.liveIn, logSnap := hlog, snapNodup := h.snapNodup,
                snapLive := by
                  intro x j hx hm hr
                  by_cases hxg : x = g
                  · subst hxg; exact h.snapLive x j (by rw [hg]; simp) hm hr
                  · simp only [upd_apply, hxg, if_false] at hx; exact h.snapLive x j hx hm hr }
    | idle => rw [hg] at hs; simp at hs
    | calling c r => rw [hg] at hs; simp at hs
    | done => rw [hg] at hs; simp at hs
  | xEnter x k =>
    simp only [step] at hs
    cases hx : st.xpc x with
    | idle =>
      rw [hx] at hs
      by_cases hm : st.made k = true
      · rw [if_pos hm] at hs
        simp only [Option.some.injEq] at hs
        subst hs
        exact {
          logSnap := hlog, snapNodup := h.snapNodup,
          xReq := by
            intro y hy
            by_cases hyx : y = x
            · subst hyx; simp [upd_apply]
            · simp only [upd_apply, hyx, if_false] at hy ⊢
              have := h.xReq y hy
              by_cases ht : st.xtarget y = k
              · simp [ht]
              · simp only [ht, if_false]; exact this
          liveIn := by
            intro j hj hr
            by_cases hjk : j = k
            · subst hjk; simp [upd_apply] at hr
            · simp only [upd_apply, hjk, if_false] at hr; exact h.liveIn j hj hr
          snapLive := by
            intro g j hg hmm hr
            by_cases hjk : j = k
            · subst hjk; simp [upd_apply] at hr
            · simp only [upd_apply, hjk, if_false] at hr; exact h.snapLive g j hg hmm hr }
      · rw [if_neg hm] at hs; simp at hs
    | entered => rw [hx] at hs; simp at hs
    | locked => rw [hx] at hs; simp at hs
    | removed => rw [hx] at hs; simp at hs
    | done => rw [hx] at hs; simp at hs
  | xLock x =>
    simp only [step] at hs
    cases hx : st.xpc x with
    | entered =>
      rw [hx] at hs
      simp only [hcfg.2, if_true] at hs
      split at hs
      · simp at hs
      · simp only [Option.some.injEq] at hs
        subst hs
        exact { liveIn := h.liveIn, snapLive := h.snapLive, logSnap := hlog, snapNodup := h.snapNodup,
                xReq := by
                  intro y hy
                  by_cases hyx : y = x
                  · subst hyx; exact h.xReq y (by rw [hx]; simp)
                  · simp only [upd_apply, hyx, if_false] at hy; exact h.xReq y hy }
    | idle => rw [hx] at hs; simp at hs
    | locked => rw [hx] at hs; simp at hs
    | removed => rw [hx] at hs; simp at hs
    | done => rw [hx] at hs; simp at hs
  | xRemove x =>
    simp only [step] at hs
    cases hx : st.xpc x with
    | locked =>
      rw [hx] at hs
      simp only [Option.some.injEq] at hs
      subst hs
      have hreq : st.cancelReq (st.xtarget x) = true := h.xReq x (by rw [hx]; simp)
      exact { snapLive := h.snapLive, logSnap := hlog, snapNodup := h.snapNodup,
              xReq := by
                intro y hy
                by_cases hyx : y = x
                · subst hyx; exact hreq
                · simp only [upd_apply, hyx, if_false] at hy; exact h.xReq y hy
              liveIn := by
                intro j hj hr
                have hne : j ≠ st.xtarget x := fun e => by rw [e, hreq] at hr; simp at hr
                exact (List.mem_erase_of_ne hne).mpr (h.liveIn j hj hr) }
    | idle => rw [hx] at hs; simp at hs
    | entered => rw [hx] at hs; simp at hs
    | removed => rw [hx] at hs; simp at hs
    | done => rw [hx] at hs; simp at hs
  | xUnlock x =>
    simp only [step] at hs
    cases hx : st.xpc x with
    | removed =>
      rw [hx] at hs
      simp only [Option.some.injEq] at hs
      subst hs
      exact { liveIn := h.liveIn, snapLive := h.snapLive, logSnap := hlog, snapNodup := h.snapNodup,
              xReq := by
                intro y hy
                by_cases hyx : y = x
                · subst hyx; exact h.xReq y (by rw [hx]; simp)
                · simp only [upd_apply, hyx, if_false] at hy; exact h.xReq y hy }
    | idle => rw [hx] at hs; simp at hs
    | entered => rw [hx] at hs; simp at hs
    | locked => rw [hx] at hs; simp at hs
    | done => rw [hx] at hs; simp at hs

theorem dinv_reach {cfg : LockCfg} (hcfg : cfg.Sound) {phaseOf : Nat → Phase} {applies : Nat → Nat → Bool} {st : HSt}
    (h : Reach cfg phaseOf applies st) : DInv applies st := by
  induction h with
  | init => exact dinv_init applies
  | step a hr hs ih => exact dinv_step hcfg a (inv_reach hcfg hr) ih hs

end PB.HooksConc
