import PB.Model.Api
/-
Helper lemmas for C12 (model: PB.Model.Api). The property theorems are in PBProofs/C12.lean.
-/
namespace PB.Api
open PB PB.Gen.Api

theorem Token.eta (t : Token) : (⟨t.read, t.write⟩ : Token) = t := by cases t; rfl

/-! ### judge / authorize / authenticateRequest -/

theorem judge_ok {ca : CheckAuth} {t? : Option Token} {req : Int} {rm : Bool} {t : Token}
    (h : (judge ca t? req rm).out = .ok t) :
    t = t?.getD anon ∧ validPerm (t.perm rm) ∧ req ≤ t.perm rm := by
  unfold judge at h
  simp only [] at h
  split at h
  · simp at h
  split at h
  · split at h <;> simp at h
  simp at h
  rw [Token.eta] at h
  subst h
  refine ⟨rfl, ?_, ?_⟩
  · unfold validPerm; omega
  · omega

theorem judge_err {ca : CheckAuth} {t? : Option Token} {req : Int} {rm : Bool} {n : Nat}
    (h : (judge ca t? req rm).out = .error n) : n = 500 ∨ n = 401 ∨ n = 403 := by
  unfold judge at h
  simp only [] at h
  split at h
  · simp at h; omega
  split at h
  · split at h <;> simp at h <;> omega
  simp at h

theorem judge_frame (ca : CheckAuth) (t? : Option Token) (req : Int) (rm : Bool) :
    (judge ca t? req rm).st = ca.st ∧ (judge ca t? req rm).authCalled = ca.authCalled ∧
    (judge ca t? req rm).newSession = ca.newSession := by
  unfold judge
  simp only []
  split
  · simp
  split
  · split <;> simp
  simp

/-- If the token is valid for the class and sufficient, `judge` lets the request pass with a copy. -/
theorem judge_pass (ca : CheckAuth) (t? : Option Token) (req : Int) (rm : Bool)
    (hv : validPerm ((t?.getD anon).perm rm)) (hs : req ≤ (t?.getD anon).perm rm) :
    (judge ca t? req rm).out = .ok (t?.getD anon) := by
  unfold validPerm at hv
  unfold judge
  simp only []
  rw [if_neg (by omega), if_neg (by omega), Token.eta]

theorem checkAuth_handled_code {st : St} {r : Req} {ar : Bool} {n : Nat}
    (h : (checkAuth st r ar).out = .handled n) : n = 500 ∨ n = 403 := by
  unfold checkAuth at h
  split at h
  · simp at h
  split at h
  · simp at h
  split at h
  · simp at h
  split at h
  · simp at h
  split at h
  · simp at h
  split at h
  · simp at h; omega
  · split at h
    · simp at h; omega
    · simp at h
  · simp at h
  · simp at h

theorem authorize_ok {st : St} {r : Req} {req : Int} {rm : Bool} {t : Token}
    (h : (authorize st r req rm).out = .ok t) :
    validPerm req ∧ ∃ t?, (checkAuth st r (decide (req > permitAnyone))).out = .token t? ∧
      t = t?.getD anon ∧ validPerm (t.perm rm) ∧ req ≤ t.perm rm := by
  unfold authorize at h
  split at h
  · simp at h
  rename_i hv
  simp only [] at h
  split at h
  · simp at h
  rename_i t? hca
  exact ⟨by unfold validPerm; omega, t?, hca, judge_ok h⟩

theorem authorize_err {st : St} {r : Req} {req : Int} {rm : Bool} {n : Nat}
    (h : (authorize st r req rm).out = .error n) : n = 500 ∨ n = 401 ∨ n = 403 := by
  unfold authorize at h
  split at h
  · simp at h; omega
  simp only [] at h
  split at h
  · rename_i code hca
    simp at h
    subst h
    rcases checkAuth_handled_code hca with h | h <;> omega
  · exact judge_err h

theorem authorize_frame (st : St) (r : Req) (req : Int) (rm : Bool) :
    ((authorize st r req rm).st = st ∧ (authorize st r req rm).authCalled = false ∧
      (authorize st r req rm).newSession = none) ∨
    ((authorize st r req rm).st = (checkAuth st r (decide (req > permitAnyone))).st ∧
      (authorize st r req rm).authCalled = (checkAuth st r (decide (req > permitAnyone))).authCalled ∧
      (authorize st r req rm).newSession = (checkAuth st r (decide (req > permitAnyone))).newSession) := by
  unfold authorize
  split
  · left; simp
  right
  simp only []
  split
  · simp
  · exact judge_frame _ _ _ _

/-- The permission compared against: the declared one, with `Dynamic` read as `PermitAnyone`. -/
def effRequired (required : Int) : Int := if required = dynamic then permitAnyone else required

theorem authenticateRequest_ok {st : St} {r : Req} {h : Option Handler} {rm : Bool} {t : Token}
    (hok : (authenticateRequest st r h rm).out = .ok t) :
    (requiredPermission h rm = permitAnyone ∧ t = anon ∧ authenticateRequest st r h rm = { st, out := .ok anon }) ∨
    (requiredPermission h rm ≠ permitAnyone ∧ requiredPermission h rm ≠ notFound ∧
      requiredPermission h rm ≠ notSupported ∧
      authenticateRequest st r h rm = authorize st r (effRequired (requiredPermission h rm)) rm) := by
  unfold authenticateRequest at hok ⊢
  simp only [] at hok ⊢
  split at hok
  · simp at hok
  rename_i h1
  split at hok
  · simp at hok
  rename_i h2
  split at hok
  · rename_i h3
    left
    simp at hok
    subst hok
    have e1 : permitAnyone ≠ notFound := by decide
    have e2 : permitAnyone ≠ notSupported := by decide
    simp [h3, e1, e2]
  · rename_i h3
    right
    simp [h1, h2, h3, effRequired]

theorem authenticateRequest_err {st : St} {r : Req} {h : Option Handler} {rm : Bool} {n : Nat}
    (he : (authenticateRequest st r h rm).out = .error n) :
    n = 401 ∨ n = 403 ∨ n = 404 ∨ n = 405 ∨ n = 500 := by
  unfold authenticateRequest at he
  simp only [] at he
  split at he
  · simp at he; omega
  split at he
  · simp at he; omega
  split at he
  · simp at he
  · rcases authorize_err he with h | h | h <;> omega

theorem authenticateRequest_frame (st : St) (r : Req) (h : Option Handler) (rm : Bool) :
    ((authenticateRequest st r h rm).st = st ∧ (authenticateRequest st r h rm).authCalled = false ∧
      (authenticateRequest st r h rm).newSession = none) ∨
    (∃ ar, (authenticateRequest st r h rm).st = (checkAuth st r ar).st ∧
      (authenticateRequest st r h rm).authCalled = (checkAuth st r ar).authCalled ∧
      (authenticateRequest st r h rm).newSession = (checkAuth st r ar).newSession) := by
  unfold authenticateRequest
  simp only []
  split
  · left; simp
  split
  · left; simp
  split
  · left; simp
  · rcases authorize_frame st r (if requiredPermission h rm = dynamic then permitAnyone else requiredPermission h rm) rm with h | h
    · left; exact h
    · right; exact ⟨_, h⟩

/-! ### serve / handle -/

theorem serve_invoke {st : St} {r : Req} {h : Option Handler} {rm : Bool} {t : Token}
    (hi : (serve st r h rm).2.out = .invoke t) :
    ∃ hd, h = some hd ∧ hd.moduleReady = true ∧ (authenticateRequest st r h rm).out = .ok t ∧
      (isPreflight r && h.isSome) = false ∧
      (serve st r h rm).1 = (authenticateRequest st r h rm).st ∧
      (serve st r h rm).2.authCalled = (authenticateRequest st r h rm).authCalled ∧
      (serve st r h rm).2.newSession = (authenticateRequest st r h rm).newSession := by
  unfold serve at hi ⊢
  simp only [] at hi ⊢
  split at hi
  · simp at hi
  rename_i hp
  simp only [hp]
  split at hi
  · simp at hi
  rename_i tok hok
  simp only [hok]
  split at hi
  · simp at hi
  rename_i hd
  split at hi
  · simp at hi
  rename_i hr
  simp at hi
  subst hi
  simp_all

theorem handle_invoke {st : St} {r : Req} {t : Token} (hi : (handle st r).2.out = .invoke t) :
    originRefused st r = false ∧ r.pathDirty = false ∧
    ∃ h rm, r.route = .matched h ∧ effectiveMethod r.method r.acrm = some rm ∧
      handle st r = serve st r h rm := by
  unfold handle at hi ⊢
  simp only [] at hi ⊢
  split at hi
  · simp at hi
  rename_i ho
  split at hi
  · simp at hi
  rename_i hd
  simp only [ho, hd]
  split at hi
  · simp at hi
  · simp at hi
  rename_i h hroute
  split at hi
  · simp at hi
  rename_i rm hm
  simp_all

/-- Every answer of `serve` that is not an invocation. -/
theorem serve_status {st : St} {r : Req} {h : Option Handler} {rm : Bool} {n : Nat}
    (hs : (serve st r h rm).2.out = .status n) :
    (n = 200 ∧ isPreflight r = true ∧ h.isSome = true) ∨
    ((authenticateRequest st r h rm).out = .error n) ∨
    (n = 404 ∧ h = none ∧ ∃ t, (authenticateRequest st r h rm).out = .ok t) ∨
    (n = 503 ∧ ∃ hd t, h = some hd ∧ hd.moduleReady = false ∧ (authenticateRequest st r h rm).out = .ok t) := by
  unfold serve at hs
  simp only [] at hs
  by_cases hp : (isPreflight r && h.isSome) = true
  · rw [if_pos hp] at hs
    simp at hs
    simp at hp
    left; exact ⟨hs.symm, hp.1, hp.2⟩
  rw [if_neg hp] at hs
  cases ha : (authenticateRequest st r h rm).out with
  | error code =>
    rw [ha] at hs
    simp at hs
    subst hs
    right; left; rfl
  | ok tok =>
    rw [ha] at hs
    cases h with
    | none =>
      simp at hs
      right; right; left; exact ⟨hs.symm, rfl, tok, rfl⟩
    | some hd =>
      simp only [] at hs
      by_cases hr : (!hd.moduleReady) = true
      · rw [if_pos hr] at hs
        simp at hs
        simp at hr
        right; right; right; exact ⟨hs.symm, hd, tok, rfl, hr, rfl⟩
      · rw [if_neg hr] at hs
        simp at hs

/-- The state after `serve` is the state after `authenticateRequest`, or unchanged. -/
theorem serve_frame (st : St) (r : Req) (h : Option Handler) (rm : Bool) :
    ((serve st r h rm).1 = st ∧ (serve st r h rm).2.authCalled = false ∧ (serve st r h rm).2.newSession = none) ∨
    ((serve st r h rm).1 = (authenticateRequest st r h rm).st ∧
      (serve st r h rm).2.authCalled = (authenticateRequest st r h rm).authCalled ∧
      (serve st r h rm).2.newSession = (authenticateRequest st r h rm).newSession) := by
  unfold serve
  simp only []
  split
  · left; simp
  right
  split
  · simp
  split
  · simp
  split <;> simp

theorem handle_frame (st : St) (r : Req) :
    ((handle st r).1 = st ∧ (handle st r).2.authCalled = false ∧ (handle st r).2.newSession = none) ∨
    (originRefused st r = false ∧ ∃ ar, (handle st r).1 = (checkAuth st r ar).st ∧
      (handle st r).2.authCalled = (checkAuth st r ar).authCalled ∧
      (handle st r).2.newSession = (checkAuth st r ar).newSession) := by
  unfold handle
  simp only []
  by_cases ho : originRefused st r = true
  · rw [if_pos ho]; left; simp
  rw [if_neg ho]
  by_cases hd : r.pathDirty = true
  · rw [if_pos hd]; left; simp
  rw [if_neg hd]
  cases r.route with
  | methodMismatch => left; simp
  | noMatch => left; simp
  | matched h =>
    simp only []
    cases effectiveMethod r.method r.acrm with
    | none => left; simp
    | some rm =>
      simp only []
      rcases serve_frame st r h rm with hs | hs
      · left; exact hs
      · rcases authenticateRequest_frame st r h rm with ha | ⟨ar, ha⟩
        · left; exact ⟨hs.1.trans ha.1, hs.2.1.trans ha.2.1, hs.2.2.trans ha.2.2⟩
        · right
          exact ⟨by simpa using ho, ar, hs.1.trans ha.1, hs.2.1.trans ha.2.1, hs.2.2.trans ha.2.2⟩

/-! ### checkAuth: frame -/

theorem sessionExpired_iff (now : Nat) (s : Session) : sessionExpired now s = true ↔ now > s.validUntil := by
  simp [sessionExpired, sessionExpiredStrict]

theorem findSession_id {ss : List Session} {id : Nat} {s : Session} (h : findSession ss id = some s) : s.id = id := by
  unfold findSession at h
  have := List.find?_some h
  simpa using this

/-- `checkSessionCookie` with the regenerated statement sequence unfolded: unknown or expired ⇒ nothing
    (state untouched), otherwise the session is refreshed to now + TTL and its token returned. -/
theorem checkSessionCookie_eq (st : St) (r : Req) :
    checkSessionCookie st r =
      match r.cookie with
      | none => (st, none)
      | some id =>
        match findSession st.sessions id with
        | none => (st, none)
        | some s =>
          if st.now > s.validUntil then (st, none)
          else ({ st with sessions := refreshSession st.sessions id (st.now + sessionTTL) }, some s.tok) := by
  unfold checkSessionCookie
  cases hc : r.cookie with
  | none => rfl
  | some id =>
    simp only []
    cases hs : findSession st.sessions id with
    | none => rfl
    | some s =>
      have hid := findSession_id hs
      simp only [checkSessionCookieSteps, runCookieSteps, hid]
      by_cases hexp : st.now > s.validUntil
      · rw [(sessionExpired_iff st.now s).mpr hexp]
        simp [hexp]
      · have : sessionExpired st.now s = false := by
          cases hse : sessionExpired st.now s with
          | false => rfl
          | true => exact absurd ((sessionExpired_iff st.now s).mp hse) hexp
        rw [this]
        simp [hexp]

theorem checkSessionCookie_none {st st' : St} {r : Req} (h : checkSessionCookie st r = (st', none)) : st' = st := by
  rw [checkSessionCookie_eq] at h
  split at h
  · simp at h; exact h.symm
  split at h
  · simp at h; exact h.symm
  split at h
  · simp at h; exact h.symm
  · simp at h

theorem checkSessionCookie_some {st st' : St} {r : Req} {t : Token} (h : checkSessionCookie st r = (st', some t)) :
    ∃ id s, r.cookie = some id ∧ findSession st.sessions id = some s ∧ ¬ st.now > s.validUntil ∧ t = s.tok ∧
      st' = { st with sessions := refreshSession st.sessions id (st.now + sessionTTL) } := by
  rw [checkSessionCookie_eq] at h
  split at h
  · simp at h
  rename_i id hid
  split at h
  · simp at h
  rename_i s hs
  split at h
  · simp at h
  rename_i hexp
  simp at h
  exact ⟨id, s, hid, hs, hexp, h.2.symm, h.1.symm⟩

/-- What `checkAuth` can do to the state: nothing, refresh the presented live session, or create a
    session for the token the authenticator returned. -/
theorem checkAuth_st (st : St) (r : Req) (ar : Bool) :
    ((checkAuth st r ar).st = st ∧ (checkAuth st r ar).newSession = none) ∨
    (∃ id s, r.cookie = some id ∧ findSession st.sessions id = some s ∧ ¬ st.now > s.validUntil ∧
      (checkAuth st r ar).st = { st with sessions := refreshSession st.sessions id (st.now + sessionTTL) } ∧
      (checkAuth st r ar).newSession = none) ∨
    (∃ t, r.auth = .token t ∧ st.authSet = true ∧ (checkAuth st r ar).st = createSession st t ∧
      (checkAuth st r ar).newSession = some st.nextId ∧ (checkAuth st r ar).authCalled = true) := by
  unfold checkAuth
  split
  · left; simp
  split
  · left; simp
  split
  · left; simp
  split
  · rename_i st' t hc
    obtain ⟨id, s, h1, h2, h3, _, h5⟩ := checkSessionCookie_some hc
    right; left
    exact ⟨id, s, h1, h2, h3, by simp [h5], by simp⟩
  rename_i st' hc
  have := checkSessionCookie_none hc
  subst this
  split
  · left; simp
  rename_i hset
  split
  · left; simp
  · split <;> (left; simp)
  · left; simp
  · rename_i t ht
    right; right
    exact ⟨t, ht, by simpa using hset, by simp, by simp, by simp⟩

/-! ### API keys -/

theorem lookup_filter_ne (keys : List (Bytes × KeyToken)) (k k' : Bytes) :
    (keys.filter (fun p => p.1 != k)).lookup k' = if k' = k then none else keys.lookup k' := by
  induction keys with
  | nil => simp [List.lookup]
  | cons p rest ih =>
    obtain ⟨pk, pv⟩ := p
    by_cases hpk : pk = k
    · subst hpk
      have e : List.filter (fun p : Bytes × KeyToken => p.1 != pk) ((pk, pv) :: rest) =
          List.filter (fun p => p.1 != pk) rest := by simp
      rw [e, ih]
      by_cases hk : k' = pk
      · simp [hk]
      · have e2 : (k' == pk) = false := by simpa using hk
        simp [hk, List.lookup, e2]
    · have e : List.filter (fun p : Bytes × KeyToken => p.1 != k) ((pk, pv) :: rest) =
          (pk, pv) :: List.filter (fun p => p.1 != k) rest := by simp [hpk]
      rw [e]
      by_cases hk : k' = pk
      · subst hk
        simp [List.lookup, hpk]
      · have e2 : (k' == pk) = false := by simpa using hk
        simp only [List.lookup, e2]
        exact ih

theorem lookup_insertKey (keys : List (Bytes × KeyToken)) (k k' : Bytes) (v : KeyToken) :
    (insertKey keys k v).lookup k' = if k' = k then some v else keys.lookup k' := by
  unfold insertKey
  by_cases hk : k' = k
  · subst hk; simp [List.lookup]
  · have : (k' == k) = false := by simpa using hk
    simp only [List.lookup, this, lookup_filter_ne, hk, if_false]

/-- Invariant of the import loop: every key in the map and every entry kept as valid is the parse of an
    entry of `L`. -/
def ImportOK (now : Nat) (L : List KeyEntry) (acc : Import) : Prop :=
  (∀ k kt, acc.keys.lookup k = some kt → ∃ e ∈ L, parseKey now e = .ok k kt) ∧ (∀ e ∈ acc.valid, e ∈ L)

theorem importStep_ok {now : Nat} {L : List KeyEntry} {acc : Import} {e : KeyEntry}
    (h : ImportOK now L acc) (he : e ∈ L) : ImportOK now L (importStep now acc e) := by
  unfold importStep
  split
  · exact h
  · exact ⟨h.1, h.2⟩
  · rename_i p kt hp
    refine ⟨?_, ?_⟩
    · intro k kt' hl
      simp only [lookup_insertKey] at hl
      by_cases hk : k = p
      · subst hk
        simp at hl
        subst hl
        exact ⟨e, he, hp⟩
      · simp [hk] at hl
        exact h.1 k kt' hl
    · intro e' he'
      simp at he'
      rcases he' with rfl | he'
      · exact he
      · exact h.2 e' he'

theorem foldl_importStep_ok {now : Nat} {L : List KeyEntry} (cfg : List KeyEntry) (acc : Import)
    (h : ImportOK now L acc) (hsub : ∀ e ∈ cfg, e ∈ L) : ImportOK now L (cfg.foldl (importStep now) acc) := by
  induction cfg generalizing acc with
  | nil => exact h
  | cons e rest ih =>
    simp only [List.foldl]
    exact ih _ (importStep_ok h (hsub e (by simp))) (fun e' he' => hsub e' (by simp [he']))

theorem importKeys_ok (now : Nat) (cfg : List KeyEntry) : ImportOK now cfg (importKeys now cfg) := by
  unfold importKeys
  exact foldl_importStep_ok cfg {} ⟨by simp [List.lookup], by simp⟩ (fun _ h => h)

/-- Every key in `apiKeys` is the parse (at some instant) of an entry of the current option value. -/
def KeysInv (st : St) : Prop :=
  ∀ k kt, st.keys.lookup k = some kt → ∃ e ∈ st.cfg, ∃ n, parseKey n e = .ok k kt

theorem updateAPIKeys_inv (st : St) : KeysInv (updateAPIKeys st) := by
  unfold updateAPIKeys
  simp only []
  split
  · intro k kt hl
    obtain ⟨e, he, hp⟩ := (importKeys_ok st.now (importKeys st.now st.cfg).valid.reverse).1 k kt hl
    exact ⟨e, he, st.now, hp⟩
  · intro k kt hl
    obtain ⟨e, he, hp⟩ := (importKeys_ok st.now st.cfg).1 k kt hl
    exact ⟨e, he, st.now, hp⟩

theorem updateAPIKeys_cfg_subset (st : St) : ∀ e ∈ (updateAPIKeys st).cfg, e ∈ st.cfg := by
  unfold updateAPIKeys
  simp only []
  split
  · intro e he
    simp at he
    exact (importKeys_ok st.now st.cfg).2 e he
  · intro e he; exact he

theorem updateAPIKeys_frame (st : St) :
    (updateAPIKeys st).sessions = st.sessions ∧ (updateAPIKeys st).nextId = st.nextId ∧
    (updateAPIKeys st).now = st.now ∧ (updateAPIKeys st).dev = st.dev ∧ (updateAPIKeys st).authSet = st.authSet := by
  unfold updateAPIKeys
  simp only []
  split <;> simp

/-! ### Import: the last entry for a key wins -/

/-- The entry is imported (not skipped, not expired) at instant `now`. -/
def importsOk (now : Nat) (e : KeyEntry) : Bool :=
  match parseKey now e with
  | .ok _ _ => true
  | _ => false

theorem foldl_importStep_keep {now : Nat} (post : List KeyEntry) (acc : Import) (k : Bytes) (kt : KeyToken)
    (hacc : acc.keys.lookup k = some kt)
    (hpost : ∀ e ∈ post, ∀ kt', parseKey now e ≠ .ok k kt') :
    (post.foldl (importStep now) acc).keys.lookup k = some kt := by
  induction post generalizing acc with
  | nil => exact hacc
  | cons e rest ih =>
    simp only [List.foldl]
    apply ih
    · unfold importStep
      split
      · exact hacc
      · exact hacc
      · rename_i p kt' hp
        simp only [lookup_insertKey]
        by_cases hk : k = p
        · subst hk
          exact absurd hp (hpost e (by simp) kt')
        · simp [hk, hacc]
    · intro e' he' kt'
      exact hpost e' (by simp [he']) kt'

theorem foldl_importStep_last_wins {now : Nat} (pre post : List KeyEntry) (e : KeyEntry) (acc : Import)
    (k : Bytes) (kt : KeyToken) (he : parseKey now e = .ok k kt)
    (hpost : ∀ e' ∈ post, ∀ kt', parseKey now e' ≠ .ok k kt') :
    ((pre ++ e :: post).foldl (importStep now) acc).keys.lookup k = some kt := by
  rw [List.foldl_append, List.foldl_cons]
  apply foldl_importStep_keep post _ k kt _ hpost
  unfold importStep
  simp only [he, lookup_insertKey, if_true]

theorem foldl_importStep_valid {now : Nat} (cfg : List KeyEntry) (acc : Import) :
    (cfg.foldl (importStep now) acc).valid = (cfg.filter (importsOk now)).reverse ++ acc.valid := by
  induction cfg generalizing acc with
  | nil => simp
  | cons e rest ih =>
    simp only [List.foldl]
    rw [ih]
    unfold importStep importsOk
    split <;> rename_i hp <;> simp [hp]

theorem importKeys_valid (now : Nat) (cfg : List KeyEntry) :
    (importKeys now cfg).valid.reverse = cfg.filter (importsOk now) := by
  unfold importKeys
  rw [foldl_importStep_valid]
  simp

/-- After `updateAPIKeys` the last entry of the option that imports a key `k` determines its token. -/
theorem updateAPIKeys_last_wins (st : St) (pre post : List KeyEntry) (e : KeyEntry) (k : Bytes) (kt : KeyToken)
    (hcfg : st.cfg = pre ++ e :: post) (he : parseKey st.now e = .ok k kt)
    (hpost : ∀ e' ∈ post, ∀ kt', parseKey st.now e' ≠ .ok k kt') :
    (updateAPIKeys st).keys.lookup k = some kt := by
  unfold updateAPIKeys
  simp only []
  split
  · simp only [importKeys_valid, hcfg, List.filter_append]
    have hok : importsOk st.now e = true := by simp [importsOk, he]
    rw [List.filter_cons_of_pos hok]
    unfold importKeys
    exact foldl_importStep_last_wins _ _ e {} k kt he
      (fun e' he' kt' => hpost e' (List.mem_filter.mp he').1 kt')
  · rw [hcfg]
    unfold importKeys
    exact foldl_importStep_last_wins pre post e {} k kt he hpost

theorem toLowerGo_nil : toLowerGo [] = [] := by simp [toLowerGo]

/-- `parseAPIPermission` only ever yields Anyone, User or Admin. -/
theorem parseAPIPermission_range {s : Bytes} {p : Int} (h : parseAPIPermission s = some p) :
    p = permitAnyone ∨ p = permitUser ∨ p = permitAdmin := by
  unfold parseAPIPermission permNames at h
  simp only [List.lookup] at h
  repeat' split at h
  all_goals simp_all

theorem parseKey_ok {now : Nat} {e : KeyEntry} {k : Bytes} {kt : KeyToken} (h : parseKey now e = .ok k kt) :
    e.parseOk = true ∧ e.path = k ∧ k ≠ [] ∧ parseAPIPermission e.read = some kt.tok.read ∧
    parseAPIPermission e.write = some kt.tok.write ∧
    ((e.expires = .absent ∧ kt.validUntil = none) ∨ (∃ t, e.expires = .at t ∧ kt.validUntil = some t ∧ ¬ now > t)) := by
  unfold parseKey at h
  split at h
  · simp at h
  rename_i hp
  split at h
  · simp at h
  rename_i hpath
  split at h
  · simp at h
  rename_i rp hr
  split at h
  · simp at h
  rename_i wp hw
  split at h
  · rename_i hx
    simp at h
    obtain ⟨h1, h2⟩ := h
    subst h2
    exact ⟨by simpa using hp, h1, by rw [← h1]; exact hpath, hr, hw, Or.inl ⟨hx, rfl⟩⟩
  · simp at h
  · rename_i t hx
    split at h
    · simp at h
    rename_i hnow
    simp at h
    obtain ⟨h1, h2⟩ := h
    subst h2
    exact ⟨by simpa using hp, h1, by rw [← h1]; exact hpath, hr, hw, Or.inr ⟨t, hx, rfl, hnow⟩⟩

theorem checkAPIKey_some {st : St} {r : Req} {t : Token} (h : checkAPIKey st r = some t) :
    ∃ k kt, presentedKey r = some k ∧ st.keys.lookup k = some kt ∧ kt.tok = t ∧
      ∀ u, kt.validUntil = some u → ¬ st.now > u := by
  unfold checkAPIKey at h
  split at h
  · simp at h
  rename_i k hk
  split at h
  · simp at h
  rename_i kt hl
  split at h
  · rename_i hv
    simp at h
    exact ⟨k, kt, hk, hl, h, by simp [hv]⟩
  · rename_i u hv
    split at h
    · simp at h
    rename_i hnow
    simp at h
    exact ⟨k, kt, hk, hl, h, by intro u' hu'; rw [hv] at hu'; simp at hu'; subst hu'; exact hnow⟩

/-! ### request frame: keys, config, clock, switches are not touched by requests -/

theorem createSession_frame (st : St) (t : Token) :
    (createSession st t).keys = st.keys ∧ (createSession st t).cfg = st.cfg ∧ (createSession st t).now = st.now ∧
    (createSession st t).dev = st.dev ∧ (createSession st t).authSet = st.authSet := by
  simp [createSession]

theorem checkAuth_frame (st : St) (r : Req) (ar : Bool) :
    (checkAuth st r ar).st.keys = st.keys ∧ (checkAuth st r ar).st.cfg = st.cfg ∧ (checkAuth st r ar).st.now = st.now ∧
    (checkAuth st r ar).st.dev = st.dev ∧ (checkAuth st r ar).st.authSet = st.authSet := by
  rcases checkAuth_st st r ar with h | ⟨id, s, _, _, _, h, _⟩ | ⟨t, _, _, h, _⟩
  · rw [h.1]; simp
  · rw [h]; simp
  · rw [h]; exact createSession_frame st t

theorem handle_state_frame (st : St) (r : Req) :
    (handle st r).1.keys = st.keys ∧ (handle st r).1.cfg = st.cfg ∧ (handle st r).1.now = st.now ∧
    (handle st r).1.dev = st.dev ∧ (handle st r).1.authSet = st.authSet := by
  rcases handle_frame st r with h | ⟨_, ar, h, _⟩
  · rw [h.1]; simp
  · rw [h]; exact checkAuth_frame st r ar

/-! ### Sessions -/

/-- Invariant on sessions: the token satisfies `P`, the id has been handed out, the expiry is at most
    one TTL ahead of the clock. -/
def SessInv (P : Token → Prop) (st : St) : Prop :=
  ∀ s ∈ st.sessions, P s.tok ∧ s.id < st.nextId ∧ s.validUntil ≤ st.now + sessionTTL

theorem mem_refreshSession {ss : List Session} {id vu : Nat} {s : Session} (h : s ∈ refreshSession ss id vu) :
    ∃ s0 ∈ ss, s.tok = s0.tok ∧ s.id = s0.id ∧ (s.validUntil = s0.validUntil ∨ s.validUntil = vu) := by
  unfold refreshSession at h
  simp at h
  obtain ⟨s0, hs0, heq⟩ := h
  refine ⟨s0, hs0, ?_⟩
  split at heq
  · subst heq; simp
  · subst heq; simp

theorem SessInv_checkAuth {P : Token → Prop} {st : St} (r : Req) (ar : Bool) (h : SessInv P st)
    (hP : ∀ t, r.auth = .token t → P t) : SessInv P (checkAuth st r ar).st := by
  rcases checkAuth_st st r ar with hs | ⟨id, s0, _, _, _, hs, _⟩ | ⟨t, ht, _, hs, _⟩
  · rw [hs.1]; exact h
  · rw [hs]
    intro s hs'
    obtain ⟨s1, hs1, e1, e2, e3⟩ := mem_refreshSession hs'
    obtain ⟨p1, p2, p3⟩ := h s1 hs1
    refine ⟨by rw [e1]; exact p1, by rw [e2]; exact p2, ?_⟩
    rcases e3 with e3 | e3
    · rw [e3]; exact p3
    · rw [e3]; exact Nat.le_refl _
  · rw [hs]
    intro s hs'
    simp [createSession] at hs'
    rcases hs' with rfl | hs'
    · exact ⟨hP t ht, by simp [createSession], by simp [createSession]⟩
    · obtain ⟨p1, p2, p3⟩ := h s hs'
      exact ⟨p1, by simp [createSession]; omega, by simpa [createSession] using p3⟩

theorem SessInv_handle {P : Token → Prop} {st : St} (r : Req) (h : SessInv P st)
    (hP : ∀ t, r.auth = .token t → P t) : SessInv P (handle st r).1 := by
  rcases handle_frame st r with hs | ⟨_, ar, hs, _⟩
  · rw [hs.1]; exact h
  · rw [hs]; exact SessInv_checkAuth r ar h hP

theorem SessInv_step {P : Token → Prop} {st : St} (e : Event) (h : SessInv P st)
    (hP : ∀ r, e = .request r → ∀ t, r.auth = .token t → P t) : SessInv P (step st e) := by
  cases e with
  | setKeys cfg =>
    intro s hs
    simp only [step] at hs ⊢
    obtain ⟨f1, f2, f3, _, _⟩ := updateAPIKeys_frame { st with cfg := cfg }
    rw [f1] at hs; rw [f2, f3]
    exact h s hs
  | configChange =>
    intro s hs
    simp only [step] at hs ⊢
    obtain ⟨f1, f2, f3, _, _⟩ := updateAPIKeys_frame st
    rw [f1] at hs; rw [f2, f3]
    exact h s hs
  | setDev b =>
    intro s hs
    simp only [step] at hs ⊢
    obtain ⟨f1, f2, f3, _, _⟩ := updateAPIKeys_frame { st with dev := b }
    rw [f1] at hs; rw [f2, f3]
    exact h s hs
  | setAuthSet b => exact h
  | advance d =>
    intro s hs
    obtain ⟨p1, p2, p3⟩ := h s hs
    exact ⟨p1, p2, by simp only [step]; omega⟩
  | clean =>
    intro s hs
    simp only [step, cleanSessions, List.mem_filter] at hs
    exact h s hs.1
  | logout id =>
    intro s hs
    simp only [step, deleteSession, List.mem_filter] at hs
    exact h s hs.1
  | request r => exact SessInv_handle r h (hP r rfl)

theorem SessInv_run {P : Token → Prop} (h : List Event) (st : St) (hst : SessInv P st)
    (hP : ∀ r, Event.request r ∈ h → ∀ t, r.auth = .token t → P t) : SessInv P (run st h) := by
  induction h generalizing st with
  | nil => exact hst
  | cons e rest ih =>
    simp only [run, List.foldl]
    apply ih
    · exact SessInv_step e hst (fun r he t ht => hP r (by simp [he]) t ht)
    · intro r hr t ht
      exact hP r (by simp [hr]) t ht

/-! ### Keys along histories -/

theorem KeysInv_step {st : St} (e : Event) (h : KeysInv st) : KeysInv (step st e) := by
  cases e with
  | setKeys cfg => exact updateAPIKeys_inv _
  | configChange => exact updateAPIKeys_inv _
  | setDev b => exact updateAPIKeys_inv _
  | setAuthSet b => exact h
  | advance d => exact h
  | clean => exact h
  | logout id => exact h
  | request r =>
    obtain ⟨f1, f2, _⟩ := handle_state_frame st r
    intro k kt hl
    simp only [step] at hl ⊢
    rw [f1] at hl; rw [f2]
    exact h k kt hl

theorem KeysInv_run (h : List Event) (st : St) (hst : KeysInv st) : KeysInv (run st h) := by
  induction h generalizing st with
  | nil => exact hst
  | cons e rest ih =>
    simp only [run, List.foldl]
    exact ih _ (KeysInv_step e hst)

def Event.isSetKeys : Event → Bool
  | .setKeys _ => true
  | _ => false

theorem cfg_step_subset {st : St} (e : Event) (he : e.isSetKeys = false) : ∀ x ∈ (step st e).cfg, x ∈ st.cfg := by
  cases e with
  | setKeys cfg => simp [Event.isSetKeys] at he
  | configChange => exact updateAPIKeys_cfg_subset st
  | setDev b => exact updateAPIKeys_cfg_subset { st with dev := b }
  | setAuthSet b => intro x hx; exact hx
  | advance d => intro x hx; exact hx
  | clean => intro x hx; exact hx
  | logout id => intro x hx; exact hx
  | request r =>
    intro x hx
    simp only [step] at hx
    rw [(handle_state_frame st r).2.1] at hx
    exact hx

theorem cfg_run_subset (h : List Event) (st : St) (hh : ∀ e ∈ h, e.isSetKeys = false) :
    ∀ x ∈ (run st h).cfg, x ∈ st.cfg := by
  induction h generalizing st with
  | nil => intro x hx; exact hx
  | cons e rest ih =>
    intro x hx
    simp only [run, List.foldl] at hx
    have := ih (step st e) (fun e' he' => hh e' (by simp [he'])) x hx
    exact cfg_step_subset e (hh e (by simp)) x this

/-! ### Finality of expiry and reset: a dead session stays dead -/

theorem SessionDead_checkAuth {st : St} {id : Nat} (r : Req) (ar : Bool) (h : SessionDead st id) :
    SessionDead (checkAuth st r ar).st id := by
  rcases checkAuth_st st r ar with hs | ⟨id', s0, _, hf, hlive, hs, _⟩ | ⟨t, _, _, hs, _⟩
  · rw [hs.1]; exact h
  · rw [hs]
    refine ⟨h.1, ?_⟩
    intro s hs' hid
    simp only [refreshSession, List.mem_map] at hs'
    obtain ⟨a, ha, heq⟩ := hs'
    by_cases e : a.id = id'
    · -- the refreshed session is the one that was found live under id'; it cannot be the dead one
      exfalso
      have e' : (a.id == id') = true := by simpa using e
      rw [if_pos e'] at heq
      have hsid : s.id = a.id := by rw [← heq]
      have hid' : id' = id := by rw [← e, ← hsid, hid]
      have hmem : s0 ∈ st.sessions := by
        unfold findSession at hf
        exact List.mem_of_find?_eq_some hf
      have h0 : s0.id = id := by rw [findSession_id hf, hid']
      exact hlive (h.2 s0 hmem h0)
    · have e' : (a.id == id') = false := by simpa using e
      rw [if_neg (by simp [e'])] at heq
      subst heq
      exact h.2 a ha hid
  · rw [hs]
    obtain ⟨h1, h2⟩ := h
    refine ⟨by simp [createSession]; omega, ?_⟩
    intro s hs' hid
    simp [createSession] at hs' ⊢
    rcases hs' with rfl | hs'
    · simp at hid; omega
    · exact h2 s hs' hid

theorem SessionDead_handle {st : St} {id : Nat} (r : Req) (h : SessionDead st id) : SessionDead (handle st r).1 id := by
  rcases handle_frame st r with hs | ⟨_, ar, hs, _⟩
  · rw [hs.1]; exact h
  · rw [hs]; exact SessionDead_checkAuth r ar h

theorem SessionDead_updateAPIKeys {st : St} {id : Nat} (h : SessionDead st id) : SessionDead (updateAPIKeys st) id := by
  obtain ⟨f1, f2, f3, _, _⟩ := updateAPIKeys_frame st
  unfold SessionDead
  rw [f1, f2, f3]
  exact h

theorem SessionDead_step {st : St} {id : Nat} (e : Event) (h : SessionDead st id) : SessionDead (step st e) id := by
  cases e with
  | setKeys cfg => exact SessionDead_updateAPIKeys (st := { st with cfg := cfg }) h
  | configChange => exact SessionDead_updateAPIKeys h
  | setDev b => exact SessionDead_updateAPIKeys (st := { st with dev := b }) h
  | setAuthSet b => exact h
  | advance d =>
    refine ⟨h.1, ?_⟩
    intro s hs hid
    have := h.2 s hs hid
    simp only [step]
    omega
  | clean =>
    refine ⟨h.1, ?_⟩
    intro s hs hid
    simp only [step, cleanSessions, List.mem_filter] at hs
    exact h.2 s hs.1 hid
  | logout id' =>
    refine ⟨h.1, ?_⟩
    intro s hs hid
    simp only [step, deleteSession, List.mem_filter] at hs
    exact h.2 s hs.1 hid
  | request r => exact SessionDead_handle r h

theorem SessionDead_run {id : Nat} (h : List Event) (st : St) (hst : SessionDead st id) : SessionDead (run st h) id := by
  induction h generalizing st with
  | nil => exact hst
  | cons e rest ih =>
    simp only [run, List.foldl]
    exact ih _ (SessionDead_step e hst)

/-- The cookie of a dead session is treated like an unknown one: nothing is granted, nothing is refreshed. -/
theorem SessionDead_cookie {st : St} {id : Nat} (h : SessionDead st id) (r : Req) (hc : r.cookie = some id) :
    checkSessionCookie st r = (st, none) := by
  rw [checkSessionCookie_eq]
  simp only [hc]
  cases hf : findSession st.sessions id with
  | none => rfl
  | some s =>
    have hmem : s ∈ st.sessions := by
      unfold findSession at hf
      exact List.mem_of_find?_eq_some hf
    simp [h.2 s hmem (findSession_id hf)]

theorem findSession_none {ss : List Session} {id : Nat} (h : findSession ss id = none) : ∀ s ∈ ss, s.id ≠ id := by
  unfold findSession at h
  rw [List.find?_eq_none] at h
  intro s hs
  simpa using h s hs

/-- Session ids are handed out once: pairwise distinct and below `nextId`. -/
def DistinctIds (st : St) : Prop :=
  st.sessions.Pairwise (fun a b => a.id ≠ b.id) ∧ ∀ s ∈ st.sessions, s.id < st.nextId

theorem pairwise_ids_unique {ss : List Session} (h : ss.Pairwise (fun a b => a.id ≠ b.id)) :
    ∀ a ∈ ss, ∀ b ∈ ss, a.id = b.id → a = b := by
  induction ss with
  | nil => intro a ha; simp at ha
  | cons x rest ih =>
    rw [List.pairwise_cons] at h
    intro a ha b hb hab
    simp only [List.mem_cons] at ha hb
    rcases ha with rfl | ha <;> rcases hb with rfl | hb
    · rfl
    · exact absurd hab (h.1 b hb)
    · exact absurd hab.symm (h.1 a ha)
    · exact ih h.2 a ha b hb hab

theorem DistinctIds_checkAuth {st : St} (r : Req) (ar : Bool) (h : DistinctIds st) : DistinctIds (checkAuth st r ar).st := by
  rcases checkAuth_st st r ar with hs | ⟨id', s0, _, _, _, hs, _⟩ | ⟨t, _, _, hs, _⟩
  · rw [hs.1]; exact h
  · rw [hs]
    constructor
    · simp only [refreshSession]
      rw [List.pairwise_map]
      refine h.1.imp ?_
      intro a b hab
      by_cases ea : (a.id == id') = true <;> by_cases eb : (b.id == id') = true <;> simp [ea, eb, hab]
    · intro s hs'
      obtain ⟨s1, hs1, _, e2, _⟩ := mem_refreshSession hs'
      simp only
      rw [e2]
      exact h.2 s1 hs1
  · rw [hs]
    constructor
    · simp only [createSession]
      rw [List.pairwise_cons]
      refine ⟨?_, h.1⟩
      intro b hb
      have := h.2 b hb
      simp only
      omega
    · intro s hs'
      simp [createSession] at hs' ⊢
      rcases hs' with rfl | hs'
      · simp
      · have := h.2 s hs'; omega

theorem DistinctIds_step {st : St} (e : Event) (h : DistinctIds st) : DistinctIds (step st e) := by
  cases e with
  | setKeys cfg =>
    obtain ⟨f1, f2, _⟩ := updateAPIKeys_frame { st with cfg := cfg }
    unfold DistinctIds; simp only [step]; rw [f1, f2]; exact h
  | configChange =>
    obtain ⟨f1, f2, _⟩ := updateAPIKeys_frame st
    unfold DistinctIds; simp only [step]; rw [f1, f2]; exact h
  | setDev b =>
    obtain ⟨f1, f2, _⟩ := updateAPIKeys_frame { st with dev := b }
    unfold DistinctIds; simp only [step]; rw [f1, f2]; exact h
  | setAuthSet b => exact h
  | advance d => exact h
  | clean =>
    constructor
    · simp only [step, cleanSessions]; exact h.1.filter _
    · intro s hs
      simp only [step, cleanSessions, List.mem_filter] at hs
      exact h.2 s hs.1
  | logout id =>
    constructor
    · simp only [step, deleteSession]; exact h.1.filter _
    · intro s hs
      simp only [step, deleteSession, List.mem_filter] at hs
      exact h.2 s hs.1
  | request r =>
    simp only [step]
    rcases handle_frame st r with hs | ⟨_, ar, hs, _⟩
    · rw [hs.1]; exact h
    · rw [hs]; exact DistinctIds_checkAuth r ar h

theorem DistinctIds_run (h : List Event) (st : St) (hst : DistinctIds st) : DistinctIds (run st h) := by
  induction h generalizing st with
  | nil => exact hst
  | cons e rest ih =>
    simp only [run, List.foldl]
    exact ih _ (DistinctIds_step e hst)

theorem DistinctIds_init : DistinctIds St.init := by
  constructor
  · simp [St.init]
  · intro s hs; simp [St.init] at hs

theorem run_append (st : St) (h h' : List Event) : run st (h ++ h') = run (run st h) h' := by
  simp [run, List.foldl_append]

end PB.Api
