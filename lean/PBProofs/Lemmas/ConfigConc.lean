import PB.Model.ConfigConc
/-
Invariant of the interleaving model of the flag / value hand-over (helper lemmas for C04).
-/
namespace PB.ConfigConc

structure Inv (s : CSt) : Prop where
  old_invalid : ∀ f, f < s.sh.cur → s.sh.valid f = false
  committed_le : s.sh.committed ≤ s.sh.ver
  setters_le : ∀ v ∈ s.sh.setters, v ≤ s.sh.ver
  locked_ok : ∀ v, s.sh.locked = some v → v ≤ s.sh.ver ∧ s.sh.valid s.sh.cur = false
  cflag_le : s.g.cflag ≤ s.sh.cur
  cached_fresh : (s.g.pc = 0 ∨ s.g.pc = 1 ∨ s.g.pc = 4) → s.sh.valid s.g.cflag = true → s.sh.committed ≤ s.g.cval
  ready_fresh : s.g.pc = 4 → s.g.need ≤ s.g.cval
  need_le : (s.g.pc = 1 ∨ s.g.pc = 2 ∨ s.g.pc = 3 ∨ s.g.pc = 4) → s.g.need ≤ s.sh.committed
  waiting_le : ∀ n ∈ s.g.waiting, n ≤ s.sh.committed
  done_fresh : ∀ d ∈ s.g.done, d.1 ≤ d.2
  cval_le : s.g.cval ≤ s.sh.ver
  done_real : ∀ d ∈ s.g.done, d.2 ≤ s.sh.ver

theorem inv_init : Inv {} := by
  refine ⟨?_, ?_, ?_, ?_, ?_, ?_, ?_, ?_, ?_, ?_, ?_, ?_⟩ <;> simp

theorem inv_write (s s' : CSt) (h : Inv s) (hs : step s .write = some s') : Inv s' := by
  simp only [step] at hs
  cases hs
  obtain ⟨h1, h2, h3, h4, h5, h6, h7, h8, h9, h10, h11, h12⟩ := h
  refine ⟨h1, ?_, ?_, ?_, h5, h6, h7, h8, h9, h10, ?_, ?_⟩
  · exact Nat.le_succ_of_le h2
  · intro v hv; simp at hv; rcases hv with rfl | hv
    · exact Nat.le_refl _
    · exact Nat.le_succ_of_le (h3 v hv)
  · intro v hv; exact ⟨Nat.le_succ_of_le (h4 v hv).1, (h4 v hv).2⟩
  · exact Nat.le_succ_of_le h11
  · intro d hd; exact Nat.le_succ_of_le (h12 d hd)


theorem inv_rewrite (s s' : CSt) (v : Nat) (h : Inv s) (hs : step s (.rewrite v) = some s') : Inv s' := by
  simp only [step] at hs
  split at hs
  · cases hs
    obtain ⟨h1, h2, h3, h4, h5, h6, h7, h8, h9, h10, h11, h12⟩ := h
    refine ⟨h1, ?_, ?_, ?_, h5, h6, h7, h8, h9, h10, ?_, ?_⟩
    · exact Nat.le_succ_of_le h2
    · intro w hw; simp at hw; rcases hw with rfl | hw
      · exact Nat.le_refl _
      · exact Nat.le_succ_of_le (h3 w (List.mem_of_mem_erase hw))
    · intro w hw; exact ⟨Nat.le_succ_of_le (h4 w hw).1, (h4 w hw).2⟩
    · exact Nat.le_succ_of_le h11
    · intro d hd; exact Nat.le_succ_of_le (h12 d hd)
  · cases hs

theorem inv_invalidate (s s' : CSt) (v : Nat) (h : Inv s) (hs : step s (.invalidate v) = some s') : Inv s' := by
  simp only [step] at hs
  split at hs
  · rename_i hg
    cases hs
    obtain ⟨h1, h2, h3, h4, h5, h6, h7, h8, h9, h10, h11, h12⟩ := h
    refine ⟨?_, h2, ?_, ?_, h5, ?_, h7, h8, h9, h10, h11, h12⟩
    · intro f hf; simp only [upd]; split
      · rfl
      · exact h1 f hf
    · intro w hw; exact h3 w (List.mem_of_mem_erase hw)
    · intro w hw; simp at hw; subst hw
      exact ⟨h3 _ hg.1, by simp [upd]⟩
    · intro hpc hv
      simp only [upd] at hv
      split at hv
      · cases hv
      · exact h6 hpc hv
  · cases hs

theorem inv_install (s s' : CSt) (h : Inv s) (hs : step s .install = some s') : Inv s' := by
  simp only [step] at hs
  split at hs
  · rename_i v hl
    cases hs
    obtain ⟨h1, h2, h3, h4, h5, h6, h7, h8, h9, h10, h11, h12⟩ := h
    have hv := h4 v hl
    refine ⟨?_, ?_, h3, ?_, ?_, ?_, h7, ?_, ?_, h10, h11, h12⟩
    · intro f hf
      have hf' : f < s.sh.cur + 1 := hf
      simp only [upd]
      split
      · omega
      · by_cases hfc : f = s.sh.cur
        · subst hfc; exact hv.2
        · exact h1 f (by omega)
    · exact Nat.max_le.mpr ⟨h2, hv.1⟩
    · intro w hw; cases hw
    · exact Nat.le_succ_of_le h5
    · intro hpc hval
      exfalso
      simp only [upd] at hval
      split at hval
      · omega
      · by_cases hfc : s.g.cflag = s.sh.cur
        · rw [hfc, hv.2] at hval; cases hval
        · rw [h1 _ (by omega)] at hval; cases hval
    · intro hpc; exact Nat.le_trans (h8 hpc) (Nat.le_max_left _ _)
    · intro n hn; exact Nat.le_trans (h9 n hn) (Nat.le_max_left _ _)
  · cases hs

theorem inv_getter (s s' : CSt) (a : Act) (h : Inv s) (hs : step s a = some s')
    (ha : a = .createFlag ∨ a = .createValue ∨ a = .begin ∨ (∃ n, a = .acquire n) ∨ a = .checkValid ∨ a = .checkStale ∨
      a = .fetchFlag ∨ a = .fetchValue ∨ a = .ret) : Inv s' := by
  obtain ⟨h1, h2, h3, h4, h5, h6, h7, h8, h9, h10, h11, h12⟩ := h
  rcases ha with rfl | rfl | rfl | ⟨n, rfl⟩ | rfl | rfl | rfl | rfl | rfl <;> simp only [step] at hs <;> split at hs <;>
    (try cases hs) <;> rename_i hg
  · -- createFlag
    exact ⟨h1, h2, h3, h4, Nat.le_refl _, by simp, by simp, by simp, h9, h10, h11, h12⟩
  · -- createValue
    refine ⟨h1, h2, h3, h4, h5, ?_, by simp, by simp, h9, h10, Nat.le_refl _, h12⟩
    intro _ _; exact h2
  · -- begin
    refine ⟨h1, h2, h3, h4, h5, h6, h7, h8, ?_, h10, h11, h12⟩
    intro n hn; simp at hn; rcases hn with rfl | hn
    · exact Nat.le_refl _
    · exact h9 n hn
  · -- acquire
    refine ⟨h1, h2, h3, h4, h5, ?_, by simp, ?_, ?_, h10, h11, h12⟩
    · intro _ hv; exact h6 (Or.inl hg.1) hv
    · intro _; exact h9 n hg.2
    · intro m hm; exact h9 m (List.mem_of_mem_erase hm)
  · -- checkValid
    refine ⟨h1, h2, h3, h4, h5, ?_, ?_, ?_, h9, h10, h11, h12⟩
    · intro _ hv; exact h6 (Or.inr (Or.inl hg.1)) hv
    · intro _; exact Nat.le_trans (h8 (Or.inl hg.1)) (h6 (Or.inr (Or.inl hg.1)) hg.2)
    · intro _; exact h8 (Or.inl hg.1)
  · -- checkStale
    refine ⟨h1, h2, h3, h4, h5, by simp, by simp, ?_, h9, h10, h11, h12⟩
    intro _; exact h8 (Or.inl hg.1)
  · -- fetchFlag
    refine ⟨h1, h2, h3, h4, Nat.le_refl _, by simp, by simp, ?_, h9, h10, h11, h12⟩
    intro _; exact h8 (Or.inr (Or.inl hg.1))
  · -- fetchValue
    refine ⟨h1, h2, h3, h4, h5, ?_, ?_, ?_, h9, h10, Nat.le_refl _, h12⟩
    · intro _ _; exact h2
    · intro _; exact Nat.le_trans (h8 (Or.inr (Or.inr (Or.inl hg)))) h2
    · intro _; exact h8 (Or.inr (Or.inr (Or.inl hg)))
  · -- ret
    refine ⟨h1, h2, h3, h4, h5, ?_, by simp, by simp, h9, ?_, h11, ?_⟩
    · intro _ hv; exact h6 (Or.inr (Or.inr hg)) hv
    · intro d hd; simp at hd; rcases hd with rfl | hd
      · exact h7 hg
      · exact h10 d hd
    · intro d hd; simp at hd; rcases hd with rfl | hd
      · exact h11
      · exact h12 d hd

theorem inv_step (s s' : CSt) (a : Act) (h : Inv s) (hs : step s a = some s') : Inv s' := by
  cases a with
  | write => exact inv_write s s' h hs
  | rewrite v => exact inv_rewrite s s' v h hs
  | invalidate v => exact inv_invalidate s s' v h hs
  | install => exact inv_install s s' h hs
  | createFlag => exact inv_getter s s' _ h hs (Or.inl rfl)
  | createValue => exact inv_getter s s' _ h hs (Or.inr (Or.inl rfl))
  | begin => exact inv_getter s s' _ h hs (Or.inr (Or.inr (Or.inl rfl)))
  | acquire n => exact inv_getter s s' _ h hs (Or.inr (Or.inr (Or.inr (Or.inl ⟨n, rfl⟩))))
  | checkValid => exact inv_getter s s' _ h hs (Or.inr (Or.inr (Or.inr (Or.inr (Or.inl rfl)))))
  | checkStale => exact inv_getter s s' _ h hs (Or.inr (Or.inr (Or.inr (Or.inr (Or.inr (Or.inl rfl))))))
  | fetchFlag => exact inv_getter s s' _ h hs (Or.inr (Or.inr (Or.inr (Or.inr (Or.inr (Or.inr (Or.inl rfl)))))))
  | fetchValue => exact inv_getter s s' _ h hs (Or.inr (Or.inr (Or.inr (Or.inr (Or.inr (Or.inr (Or.inr (Or.inl rfl))))))))
  | ret => exact inv_getter s s' _ h hs (Or.inr (Or.inr (Or.inr (Or.inr (Or.inr (Or.inr (Or.inr (Or.inr rfl))))))))

theorem inv_reachable (s : CSt) (h : Reachable s) : Inv s := by
  induction h with
  | init => exact inv_init
  | step a _ hs ih => exact inv_step _ _ a ih hs

end PB.ConfigConc
