import PB.Model.Container
import PB.Spec.ByteQueue
import PBProofs.Lemmas.Varint
import PBProofs.Lemmas.Base64
/- Refinement lemmas: container (compartments + offset) ⟶ byte queue. -/
namespace PB.Container
open PB PB.Varint

/-- Abstraction function: the bytes held, in order. -/
def abs (c : C) : Bytes := (c.comps.drop c.offset).flatten

theorem bytes_eq_abs (c : C) : c.bytes = abs c := rfl

/-- Representation invariant: the offset is within the compartment list and all consumed slots are empty
    (needed because `checkOffset` moves the offset *backwards*). -/
def Inv (c : C) : Prop := c.offset ≤ c.comps.length ∧ ∀ b ∈ c.comps.take c.offset, b = []

theorem inv_new (ds : List Bytes) : Inv (new ds) := by simp [Inv, new]
theorem abs_new (ds : List Bytes) : abs (new ds) = ds.flatten := by simp [abs, new]

theorem flatten_eq_nil_of_all_nil : ∀ (l : List Bytes), (∀ b ∈ l, b = []) → l.flatten = [] := by
  intro l h
  induction l with
  | nil => rfl
  | cons a l ih =>
    simp only [List.flatten_cons]
    rw [h a (by simp), ih (fun b hb => h b (by simp [hb]))]; rfl

theorem length_eq (c : C) : length c = (abs c).length := by
  simp [length, abs, List.length_flatten]

theorem holdsData_eq (c : C) : holdsData c = decide ((abs c).length > 0) := by
  unfold holdsData abs
  generalize c.comps.drop c.offset = l
  induction l with
  | nil => simp
  | cons b l ih =>
    simp only [List.any_cons, ih, List.flatten_cons, List.length_append]
    by_cases h1 : b.length > 0 <;> by_cases h2 : l.flatten.length > 0 <;> simp [h1] <;> omega

theorem gather_eq : ∀ (bs : List Bytes) (cap : Nat), gather cap bs = bs.flatten.take cap := by
  intro bs
  induction bs with
  | nil => intro cap; simp [gather]
  | cons b rest ih =>
    intro cap
    simp only [gather, List.flatten_cons]
    by_cases h : cap ≤ b.length
    · simp [h, List.take_append_of_le_length h]
    · simp only [h, if_false, ih]
      rw [List.take_append]
      have : List.take cap b = b := List.take_of_length_le (by omega)
      rw [this]

theorem peek_eq (c : C) (n : Int) : peek c n = PB.ByteQueue.peek (abs c) n := by
  unfold peek PB.ByteQueue.peek
  by_cases hn : n ≤ 0
  · simp [hn]
  · simp only [hn, if_false]
    have hlen := length_eq c
    unfold abs at *
    generalize c.comps.drop c.offset = rest at *
    cases rest with
    | nil => simp [gather]
    | cons first rest =>
      by_cases hf : first.length ≥ n.toNat
      · simp [hf, List.take_append_of_le_length hf]
      · simp only [hf, if_false, gather_eq, hlen]
        exact List.take_eq_take_min.symm

/-- What the `skip` loop does to the live suffix. -/
theorem skipRest_spec : ∀ (bs : List Bytes) (n : Nat),
    (skipRest n bs).2 ≤ (skipRest n bs).1.length ∧
    (∀ b ∈ (skipRest n bs).1.take (skipRest n bs).2, b = []) ∧
    ((skipRest n bs).1.drop (skipRest n bs).2).flatten = bs.flatten.drop n := by
  intro bs
  induction bs with
  | nil => intro n; simp [skipRest]
  | cons b rest ih =>
    intro n
    simp only [skipRest]
    by_cases h : b.length ≤ n
    · by_cases h0 : n - b.length = 0
      · have : n = b.length := by omega
        subst this
        simp [h0]
      · simp only [h, h0, if_true, if_false]
        obtain ⟨h1, h2, h3⟩ := ih (n - b.length)
        refine ⟨by simp; omega, ?_, ?_⟩
        · intro x hx
          simp only [List.take_succ_cons, List.mem_cons] at hx
          rcases hx with rfl | hx
          · rfl
          · exact h2 x hx
        · simp only [List.drop_succ_cons, h3, List.flatten_cons]
          rw [List.drop_append]
          have : List.drop n b = [] := List.drop_of_length_le h
          simp [this]
    · simp only [h, if_false]
      have hlt : n < b.length := by omega
      simp [List.drop_append_of_le_length (Nat.le_of_lt hlt)]

theorem checkOffset_inv (c : C) (h : Inv c) : Inv (checkOffset c) ∧ abs (checkOffset c) = abs c := by
  unfold checkOffset
  by_cases hc : c.offset ≥ c.comps.length
  · simp only [hc, if_true]
    obtain ⟨h1, h2⟩ := h
    have hall : ∀ b ∈ c.comps, b = [] := by
      intro b hb
      apply h2
      rw [List.take_of_length_le (by omega)]; exact hb
    constructor
    · refine ⟨by simp; omega, ?_⟩
      intro b hb
      exact hall b (List.mem_of_mem_take hb)
    · simp only [abs]
      rw [flatten_eq_nil_of_all_nil _ (fun b hb => hall b (List.mem_of_mem_drop hb)),
          flatten_eq_nil_of_all_nil _ (fun b hb => hall b (List.mem_of_mem_drop hb))]
  · simp [hc, h]

/-- Replacing the live suffix by `r` of which the first `k` slots are consumed (empty). -/
theorem suffix_update (c : C) (h : Inv c) (r : List Bytes) (k : Nat) (hk : k ≤ r.length)
    (hnil : ∀ b ∈ r.take k, b = []) :
    Inv ⟨c.comps.take c.offset ++ r, c.offset + k⟩ ∧
    abs ⟨c.comps.take c.offset ++ r, c.offset + k⟩ = (r.drop k).flatten := by
  obtain ⟨h1, h2⟩ := h
  have hl : (c.comps.take c.offset).length = c.offset := by simp; omega
  constructor
  · refine ⟨by simp; omega, ?_⟩
    intro b hb
    simp only at hb
    rw [List.take_append, hl] at hb
    have e1 : List.take (c.offset + k) (List.take c.offset c.comps) = List.take c.offset c.comps :=
      List.take_of_length_le (by omega)
    have e2 : c.offset + k - c.offset = k := by omega
    rw [e1, e2] at hb
    rcases List.mem_append.mp hb with hb | hb
    · exact h2 b hb
    · exact hnil b hb
  · simp only [abs]
    rw [List.drop_append, hl]
    have e1 : List.drop (c.offset + k) (List.take c.offset c.comps) = [] := List.drop_of_length_le (by omega)
    have e2 : c.offset + k - c.offset = k := by omega
    rw [e1, e2]; rfl

theorem skip_spec (c : C) (h : Inv c) (n : Nat) : Inv (skip c n) ∧ abs (skip c n) = (abs c).drop n := by
  unfold skip
  obtain ⟨h1, h2, h3⟩ := skipRest_spec (c.comps.drop c.offset) n
  obtain ⟨hi, ha⟩ := suffix_update c h _ _ h1 h2
  obtain ⟨hi', ha'⟩ := checkOffset_inv _ hi
  exact ⟨hi', by rw [ha', ha, h3]; rfl⟩
end PB.Container

namespace PB.Container
open PB PB.Varint

theorem append_spec (c : C) (h : Inv c) (d : Bytes) :
    Inv (append c d) ∧ abs (append c d) = PB.ByteQueue.append (abs c) d := by
  obtain ⟨h1, h2⟩ := h
  constructor
  · refine ⟨by simp [append]; omega, ?_⟩
    intro b hb
    simp only [append] at hb
    rw [List.take_append_of_le_length h1] at hb
    exact h2 b hb
  · simp only [abs, append, PB.ByteQueue.append]
    rw [List.drop_append_of_le_length h1]; simp

theorem appendContainer_spec (c d : C) (h : Inv c) (hd : Inv d) :
    Inv (appendContainer c d) ∧ abs (appendContainer c d) = abs c ++ abs d := by
  obtain ⟨h1, h2⟩ := h
  obtain ⟨d1, d2⟩ := hd
  constructor
  · refine ⟨by simp [appendContainer]; omega, ?_⟩
    intro b hb
    simp only [appendContainer] at hb
    rw [List.take_append_of_le_length h1] at hb
    exact h2 b hb
  · simp only [abs, appendContainer]
    rw [List.drop_append_of_le_length h1, List.flatten_append]
    congr 1
    have : d.comps = d.comps.take d.offset ++ d.comps.drop d.offset := (List.take_append_drop _ _).symm
    conv => lhs; rw [this, List.flatten_append, flatten_eq_nil_of_all_nil _ d2]
    rfl

theorem renew_spec (c : C) (_h : Inv c) : Inv (renew c) ∧ abs (renew c) = abs c ∧ 1 ≤ (renew c).offset := by
  refine ⟨⟨by simp [renew], ?_⟩, ?_, by simp [renew]⟩
  · intro b hb
    simp [renew] at hb
    exact hb
  · simp [abs, renew]

theorem mem_take_mono {α : Type} (l : List α) (a b : Nat) (h : a ≤ b) (x : α) (hx : x ∈ l.take a) :
    x ∈ l.take b := by
  have : l.take a = (l.take b).take a := by rw [List.take_take]; congr 1; omega
  rw [this] at hx
  exact List.mem_of_mem_take hx

theorem prepend_spec (c : C) (h : Inv c) (d : Bytes) :
    Inv (prepend c d) ∧ abs (prepend c d) = PB.ByteQueue.prepend (abs c) d := by
  have key : ∀ c' : C, Inv c' → 1 ≤ c'.offset →
      Inv ⟨c'.comps.set (c'.offset - 1) d, c'.offset - 1⟩ ∧
      abs ⟨c'.comps.set (c'.offset - 1) d, c'.offset - 1⟩ = d ++ abs c' := by
    intro c' ⟨h1, h2⟩ ho
    have hlt : c'.offset - 1 < c'.comps.length := by omega
    constructor
    · refine ⟨by simp; omega, ?_⟩
      intro b hb
      simp only at hb
      rw [List.take_set_of_le (Nat.le_refl _)] at hb
      exact h2 b (mem_take_mono _ _ _ (by omega) b hb)
    · simp only [abs]
      rw [List.set_eq_take_append_cons_drop]
      simp only [hlt, if_true]
      have hl : (List.take (c'.offset - 1) c'.comps).length = c'.offset - 1 := by simp; omega
      rw [List.drop_append_of_le_length (by omega), List.drop_of_length_le (by omega)]
      have : c'.offset - 1 + 1 = c'.offset := by omega
      simp [this]
  unfold prepend PB.ByteQueue.prepend
  by_cases ho : c.offset < 1
  · simp only [ho, if_true]
    obtain ⟨ri, ra, ro⟩ := renew_spec c h
    obtain ⟨k1, k2⟩ := key (renew c) ri ro
    exact ⟨k1, by rw [k2, ra]⟩
  · simp only [ho, if_false]
    exact key c h (by omega)

theorem get_eq (c : C) (n : Int) :
    get c n = if n ≤ 0 then (skip c 0, .ok [])
      else if n.toNat > (abs c).length then (c, .error .notEnough)
      else (skip c n.toNat, .ok ((abs c).take n.toNat)) := by
  unfold get
  rw [peek_eq]
  unfold PB.ByteQueue.peek
  by_cases hn : n ≤ 0
  · simp [hn]
  · by_cases hbig : n.toNat > (abs c).length
    · have : ((min n.toNat (abs c).length : Nat) : Int) < n := by omega
      simp [hn, hbig, this]
    · have hm : min n.toNat (abs c).length = n.toNat := by omega
      simp [hn, hbig, hm]; omega

theorem get_spec (c : C) (h : Inv c) (n : Int) :
    Inv (get c n).1 ∧ abs (get c n).1 = (PB.ByteQueue.get (abs c) n).1 ∧
    (match (get c n).2 with | .ok b => some b | .error _ => none) = (PB.ByteQueue.get (abs c) n).2 := by
  rw [get_eq]
  unfold PB.ByteQueue.get
  by_cases hn : n ≤ 0
  · obtain ⟨a, b⟩ := skip_spec c h 0
    simp [hn, a, b]
  · by_cases hbig : n.toNat > (abs c).length
    · simp [hn, hbig, h]
    · obtain ⟨a, b⟩ := skip_spec c h n.toNat
      simp [hn, hbig, a, b]

theorem getMax_eq (c : C) (n : Int) :
    getMax c n = if n ≤ 0 then (skip c 0, []) else (skip c (min n.toNat (abs c).length), (abs c).take n.toNat) := by
  unfold getMax
  rw [peek_eq]
  unfold PB.ByteQueue.peek
  by_cases hn : n ≤ 0 <;> simp [hn]

theorem getMax_spec (c : C) (h : Inv c) (n : Int) :
    Inv (getMax c n).1 ∧ abs (getMax c n).1 = (PB.ByteQueue.getMax (abs c) n).1 ∧
    (getMax c n).2 = (PB.ByteQueue.getMax (abs c) n).2 := by
  rw [getMax_eq]
  unfold PB.ByteQueue.getMax
  by_cases hn : n ≤ 0
  · obtain ⟨a, b⟩ := skip_spec c h 0
    simp [hn, a, b]
  · obtain ⟨a, b⟩ := skip_spec c h (min n.toNat (abs c).length)
    simp only [hn, if_false]
    refine ⟨a, ?_, trivial⟩
    rw [b]
    by_cases hbig : n.toNat ≤ (abs c).length
    · have hm : min n.toNat (abs c).length = n.toNat := by omega
      rw [hm]
    · have hm : min n.toNat (abs c).length = (abs c).length := by omega
      rw [hm, List.drop_of_length_le (Nat.le_refl _), List.drop_of_length_le (by omega)]

theorem getAll_spec (c : C) (h : Inv c) :
    Inv (getAll c).1 ∧ abs (getAll c).1 = [] ∧ (getAll c).2 = abs c := by
  have e : getAll c = (skip c (abs c).length, abs c) := by
    unfold getAll
    rw [peek_eq, length_eq]
    unfold PB.ByteQueue.peek
    by_cases hz : (abs c).length = 0
    · have : abs c = [] := List.eq_nil_of_length_eq_zero hz
      simp [this]
    · have hne : abs c ≠ [] := fun hh => hz (by rw [hh]; rfl)
      simp [hne]
  rw [e]
  obtain ⟨a, b⟩ := skip_spec c h (abs c).length
  exact ⟨a, by rw [b]; simp, rfl⟩

theorem pcLoop_spec : ∀ (bs : List Bytes) (n : Nat),
    (pcLoop n bs).1.flatten = bs.flatten.take n ∧ (pcLoop n bs).2 = n - bs.flatten.length := by
  intro bs
  induction bs with
  | nil => intro n; simp [pcLoop]
  | cons b rest ih =>
    intro n
    simp only [pcLoop]
    by_cases h : n ≥ b.length
    · simp only [h, if_true, List.flatten_cons]
      obtain ⟨i1, i2⟩ := ih (n - b.length)
      refine ⟨?_, by rw [i2]; simp; omega⟩
      rw [i1, List.take_append, List.take_of_length_le h]
    · simp only [h, if_false, List.flatten_cons]
      obtain ⟨i1, i2⟩ := ih 0
      refine ⟨?_, by rw [i2]; simp; omega⟩
      rw [i1, List.take_append_of_le_length (by omega)]; simp

theorem peekContainer_some (c : C) (n : Int) (h0 : 0 ≤ n) (hle : n.toNat ≤ (abs c).length) :
    ∃ nc, peekContainer c n = some nc ∧ Inv nc ∧ abs nc = (abs c).take n.toNat := by
  unfold peekContainer
  have hneg : ¬ n < 0 := by omega
  by_cases hz : n = 0
  · subst hz; exact ⟨⟨[], 0⟩, by simp, by simp [Inv], by simp [abs]⟩
  · obtain ⟨p1, p2⟩ := pcLoop_spec (c.comps.drop c.offset) n.toNat
    have hr : ¬ (pcLoop n.toNat (c.comps.drop c.offset)).2 > 0 := by rw [p2]; unfold abs at hle; omega
    refine ⟨⟨(pcLoop n.toNat (c.comps.drop c.offset)).1, 0⟩, by simp [hneg, hz, hr], by simp [Inv], ?_⟩
    simp only [abs, List.drop_zero]
    exact p1

theorem peekContainer_none (c : C) (n : Int) (h : ¬ (0 ≤ n ∧ n.toNat ≤ (abs c).length)) :
    peekContainer c n = none := by
  unfold peekContainer
  by_cases hneg : n < 0
  · simp [hneg]
  · have hz : ¬ n = 0 := by intro hz; subst hz; simp at h
    obtain ⟨p1, p2⟩ := pcLoop_spec (c.comps.drop c.offset) n.toNat
    have hr : (pcLoop n.toNat (c.comps.drop c.offset)).2 > 0 := by rw [p2]; unfold abs at h; omega
    simp [hneg, hz, hr]

theorem getAsContainer_ok (c : C) (h : Inv c) (n : Int) (h0 : 0 ≤ n) (hle : n.toNat ≤ (abs c).length) :
    ∃ nc, getAsContainer c n = (skip c n.toNat, .ok nc) ∧ Inv nc ∧ abs nc = (abs c).take n.toNat := by
  obtain ⟨nc, e, i, a⟩ := peekContainer_some c n h0 hle
  exact ⟨nc, by simp [getAsContainer, e], i, a⟩

theorem getAsContainer_err (c : C) (n : Int) (h : ¬ (0 ≤ n ∧ n.toNat ≤ (abs c).length)) :
    getAsContainer c n = (c, .error .notEnough) := by
  simp [getAsContainer, peekContainer_none c n h]

/-- The loop of `WriteToSlice`. -/
theorem wtsLoop_spec : ∀ (bs : List Bytes) (cap : Nat),
    (wtsLoop cap bs).2.1 ≤ (wtsLoop cap bs).1.length ∧ (∀ b ∈ (wtsLoop cap bs).1.take (wtsLoop cap bs).2.1, b = []) ∧
    ((wtsLoop cap bs).1.drop (wtsLoop cap bs).2.1).flatten = bs.flatten.drop cap ∧
    (wtsLoop cap bs).2.2.1 = bs.flatten.take cap ∧
    (wtsLoop cap bs).2.2.2 = decide (bs.flatten.length ≤ cap) := by
  intro bs
  induction bs with
  | nil => intro cap; simp [wtsLoop]
  | cons b rest ih =>
    intro cap
    simp only [wtsLoop]
    by_cases h : cap < b.length
    · simp only [h, if_true, List.flatten_cons]
      refine ⟨by simp, by simp, ?_, ?_, ?_⟩
      · simp [List.drop_append_of_le_length (Nat.le_of_lt h)]
      · rw [List.take_append_of_le_length (Nat.le_of_lt h)]
      · simp; omega
    · simp only [h, if_false, List.flatten_cons]
      obtain ⟨i1, i2, i3, i4, i5⟩ := ih (cap - b.length)
      have hb : b.length ≤ cap := by omega
      refine ⟨by simp; omega, ?_, ?_, ?_, ?_⟩
      · intro x hx
        simp only [List.take_succ_cons, List.mem_cons] at hx
        rcases hx with rfl | hx
        · rfl
        · exact i2 x hx
      · simp only [List.drop_succ_cons]
        rw [i3, List.drop_append, List.drop_of_length_le hb]; simp
      · rw [i4, List.take_append, List.take_of_length_le hb]
      · rw [i5]; simp; omega

theorem writeToSlice_spec (c : C) (h : Inv c) (cap : Nat) :
    Inv (writeToSlice c cap).1 ∧ abs (writeToSlice c cap).1 = (PB.ByteQueue.writeToSlice (abs c) cap).1 ∧
    (writeToSlice c cap).2 = (PB.ByteQueue.writeToSlice (abs c) cap).2 := by
  unfold writeToSlice PB.ByteQueue.writeToSlice
  obtain ⟨w1, w2, w3, w4, w5⟩ := wtsLoop_spec (c.comps.drop c.offset) cap
  obtain ⟨hi, ha⟩ := suffix_update c h _ _ w1 w2
  obtain ⟨hi', ha'⟩ := checkOffset_inv _ hi
  refine ⟨hi', ?_, ?_⟩
  · simp only; rw [ha', ha, w3]; rfl
  · exact Prod.ext w4 w5

theorem compileData_spec (c : C) (h : Inv c) :
    Inv (compileData c).1 ∧ abs (compileData c).1 = abs c ∧ (compileData c).2 = abs c := by
  unfold compileData
  by_cases hl : c.comps.length = 1
  · have hl' : ¬ c.comps.length ≠ 1 := by omega
    rw [if_neg hl']
    refine ⟨h, rfl, ?_⟩
    obtain ⟨h1, h2⟩ := h
    match hc : c.comps, hl with
    | [x], _ =>
      simp only [abs, hc, List.headD_cons]
      rw [hc] at h1 h2
      by_cases ho : c.offset = 0
      · simp [ho]
      · have : c.offset = 1 := by simp at h1; omega
        rw [this] at h2 ⊢
        simp at h2
        simp [h2]
  · have hl' : c.comps.length ≠ 1 := hl
    rw [if_pos hl']
    exact ⟨by simp [Inv], by simp [abs], rfl⟩

theorem getNextN_spec (unpack : Bytes → Except PB.Varint.Err (Nat × Nat)) (k : Int) (c : C) (h : Inv c) :
    Inv (getNextN unpack k c).1 ∧ abs (getNextN unpack k c).1 = (PB.ByteQueue.getNextN unpack k (abs c)).1 ∧
    (match (getNextN unpack k c).2 with | .ok v => Except.ok v | .error (.varint e) => .error e | .error _ => .error .nodata)
      = (PB.ByteQueue.getNextN unpack k (abs c)).2 := by
  unfold getNextN PB.ByteQueue.getNextN
  rw [peek_eq]
  cases unpack (PB.ByteQueue.peek (abs c) k) with
  | error e => exact ⟨h, rfl, rfl⟩
  | ok p =>
    obtain ⟨num, n⟩ := p
    obtain ⟨a, b⟩ := skip_spec c h n
    exact ⟨a, b, rfl⟩

open PB.ByteQueue (Op Out)

/-- Observable pair of a concrete step: abstract queue and output. -/
def R (r : C × Out) : PB.ByteQueue.Q × Out := (abs r.1, r.2)

theorem getNextN64_eq (c : C) :
    getNextN64 c = match unpack64 (PB.ByteQueue.peek (abs c) 10) with
      | .error e => (c, .error (.varint e))
      | .ok (num, n) => (skip c n, .ok num) := by
  unfold getNextN64 getNextN
  rw [peek_eq]
  cases unpack64 (PB.ByteQueue.peek (abs c) 10) with
  | error e => rfl
  | ok p => rfl

theorem getNextBlock_spec (c : C) (h : Inv c) :
    Inv (getNextBlock c).1 ∧ R (outBytes (getNextBlock c)) = PB.ByteQueue.outBlock (PB.ByteQueue.getNextBlock (abs c)) := by
  unfold getNextBlock PB.ByteQueue.getNextBlock PB.ByteQueue.getNextN
  rw [getNextN64_eq]
  cases hU : unpack64 (PB.ByteQueue.peek (abs c) 10) with
  | error e => exact ⟨h, rfl⟩
  | ok p =>
    obtain ⟨sz, n⟩ := p
    obtain ⟨si, sa⟩ := skip_spec c h n
    simp only [length_eq, sa]
    by_cases hb : sz > ((abs c).drop n).length
    · simp only [hb, if_true]
      exact ⟨si, by simp [R, outBytes, PB.ByteQueue.outBlock, sa, Err.str]⟩
    · simp only [hb, if_false]
      rw [get_eq, sa]
      by_cases hz : sz = 0
      · subst hz
        obtain ⟨zi, za⟩ := skip_spec (skip c n) si 0
        simp only [Int.natCast_zero, Int.le_refl, if_true]
        exact ⟨zi, by simp [R, outBytes, PB.ByteQueue.outBlock, za, sa]⟩
      · have h1 : ¬ ((sz : Int) ≤ 0) := by omega
        have h2 : ¬ ((sz : Int).toNat > ((abs c).drop n).length) := by simpa using hb
        obtain ⟨zi, za⟩ := skip_spec (skip c n) si sz
        simp only [h1, if_false, Int.toNat_natCast, hb]
        exact ⟨zi, by simp [R, outBytes, PB.ByteQueue.outBlock, za, sa]⟩

theorem getNextN_step (unpack : Bytes → Except PB.Varint.Err (Nat × Nat)) (k : Int) (c : C) (h : Inv c) :
    Inv (outNum (getNextN unpack k c)).1 ∧ R (outNum (getNextN unpack k c)) = PB.ByteQueue.outNum (PB.ByteQueue.getNextN unpack k (abs c)) := by
  unfold getNextN PB.ByteQueue.getNextN
  rw [peek_eq]
  cases unpack (PB.ByteQueue.peek (abs c) k) with
  | error e => exact ⟨h, by simp [R, outNum, PB.ByteQueue.outNum, Err.str]⟩
  | ok p =>
    obtain ⟨num, n⟩ := p
    obtain ⟨a, b⟩ := skip_spec c h n
    exact ⟨a, by simp [R, outNum, PB.ByteQueue.outNum, b]⟩

theorem getNextBlockAsContainer_spec (c : C) (h : Inv c) :
    Inv (getNextBlockAsContainer c).1 ∧
    R (outCont (getNextBlockAsContainer c)) = PB.ByteQueue.outBlock (PB.ByteQueue.getNextBlock (abs c)) := by
  unfold getNextBlockAsContainer PB.ByteQueue.getNextBlock PB.ByteQueue.getNextN
  rw [getNextN64_eq]
  cases hU : unpack64 (PB.ByteQueue.peek (abs c) 10) with
  | error e => exact ⟨h, rfl⟩
  | ok p =>
    obtain ⟨sz, n⟩ := p
    obtain ⟨si, sa⟩ := skip_spec c h n
    simp only [length_eq, sa]
    by_cases hb : sz > ((abs c).drop n).length
    · simp only [hb, if_true]
      exact ⟨si, by simp [R, outCont, PB.ByteQueue.outBlock, sa, Err.str]⟩
    · simp only [hb, if_false]
      have hle : (sz : Int).toNat ≤ (abs (skip c n)).length := by rw [sa]; simpa using hb
      obtain ⟨nc, e, i, a⟩ := getAsContainer_ok (skip c n) si (sz : Int) (by omega) hle
      obtain ⟨zi, za⟩ := skip_spec (skip c n) si sz
      rw [e]
      simp only [Int.toNat_natCast] at a ⊢
      exact ⟨zi, by simp [R, outCont, PB.ByteQueue.outBlock, za, sa, bytes_eq_abs, a]⟩

theorem wtaLoop_spec : ∀ (bs : List Bytes) (budget : Nat),
    wtaLoop budget bs = (bs.flatten.take budget, decide (bs.flatten.length ≤ budget)) := by
  intro bs
  induction bs with
  | nil => intro budget; simp [wtaLoop]
  | cons b rest ih =>
    intro budget
    simp only [wtaLoop, List.flatten_cons, List.length_append]
    generalize hL : rest.flatten.length = L at *
    by_cases h : budget < b.length
    · have h2 : ¬ (b.length + L ≤ budget) := by omega
      rw [if_pos h, List.take_append_of_le_length (Nat.le_of_lt h), decide_eq_false h2]
    · have h3 : b.length ≤ budget := by omega
      rw [if_neg h, ih, List.take_append, List.take_of_length_le h3]
      have : decide (L ≤ budget - b.length) = decide (b.length + L ≤ budget) := by
        by_cases hh : L ≤ budget - b.length
        · rw [decide_eq_true hh, decide_eq_true (by omega)]
        · rw [decide_eq_false hh, decide_eq_false (by omega)]
      simp only [this]

theorem step_refines (c : C) (h : Inv c) (op : Op) :
    Inv (step c op).1 ∧ R (step c op) = PB.ByteQueue.step (abs c) op := by
  cases op with
  | append d => obtain ⟨a, b⟩ := append_spec c h d; exact ⟨a, by simp [R, step, PB.ByteQueue.step, b, PB.ByteQueue.append]⟩
  | prepend d => obtain ⟨a, b⟩ := prepend_spec c h d; exact ⟨a, by simp [R, step, PB.ByteQueue.step, b, PB.ByteQueue.prepend]⟩
  | appendNumber n => obtain ⟨a, b⟩ := append_spec c h (pack64 n); exact ⟨a, by simp [R, step, PB.ByteQueue.step, appendNumber, b, PB.ByteQueue.append]⟩
  | prependNumber n => obtain ⟨a, b⟩ := prepend_spec c h (pack64 n); exact ⟨a, by simp [R, step, PB.ByteQueue.step, prependNumber, b, PB.ByteQueue.prepend]⟩
  | appendInt i => obtain ⟨a, b⟩ := append_spec c h (pack64 (ofInt64 i)); exact ⟨a, by simp [R, step, PB.ByteQueue.step, appendInt, b, PB.ByteQueue.append]⟩
  | prependInt i => obtain ⟨a, b⟩ := prepend_spec c h (pack64 (ofInt64 i)); exact ⟨a, by simp [R, step, PB.ByteQueue.step, prependInt, b, PB.ByteQueue.prepend]⟩
  | appendAsBlock d =>
    obtain ⟨a, b⟩ := append_spec c h (pack64 d.length)
    obtain ⟨a', b'⟩ := append_spec _ a d
    exact ⟨a', by simp [R, step, PB.ByteQueue.step, appendAsBlock, appendNumber, b, b', PB.ByteQueue.append]⟩
  | prependAsBlock d =>
    obtain ⟨a, b⟩ := prepend_spec c h d
    obtain ⟨a', b'⟩ := prepend_spec _ a (pack64 d.length)
    exact ⟨a', by simp [R, step, PB.ByteQueue.step, prependAsBlock, prependNumber, b, b', PB.ByteQueue.prepend]⟩
  | appendContainer ds =>
    obtain ⟨a, b⟩ := appendContainer_spec c (new ds) h (inv_new ds)
    exact ⟨a, by simp [R, step, PB.ByteQueue.step, b, abs_new]⟩
  | appendContainerAsBlock ds =>
    have hl : length (new ds) = ds.flatten.length := by rw [length_eq, abs_new]
    obtain ⟨a, b⟩ := append_spec c h (pack64 (length (new ds)))
    obtain ⟨a', b'⟩ := appendContainer_spec _ (new ds) a (inv_new ds)
    refine ⟨a', ?_⟩
    show (abs (appendContainer (append c (pack64 (length (new ds)))) (new ds)), Out.unit) = _
    rw [b', b, abs_new, hl]
    simp [PB.ByteQueue.step, PB.ByteQueue.append]
  | prependLength =>
    obtain ⟨a, b⟩ := prepend_spec c h (pack64 (length c))
    refine ⟨a, ?_⟩
    show (abs (prepend c (pack64 (length c))), Out.unit) = _
    rw [b, length_eq]
    simp [PB.ByteQueue.step, PB.ByteQueue.prepend]
  | replace d => exact ⟨by simp [step, replace, Inv], by simp [R, step, PB.ByteQueue.step, replace, abs]⟩
  | compileData => obtain ⟨a, b, o⟩ := compileData_spec c h; exact ⟨a, by simp [R, step, PB.ByteQueue.step, b, o]⟩
  | get n =>
    obtain ⟨a, b, o⟩ := get_spec c h n
    refine ⟨by simpa [step, outBytes] using (by
      cases hg : get c n with
      | mk c' r => cases r <;> simp [hg] at a ⊢ <;> exact a), ?_⟩
    cases hg : get c n with
    | mk c' r =>
      rw [hg] at b o
      cases hs : PB.ByteQueue.get (abs c) n with
      | mk q' r' =>
        rw [hs] at b o
        simp only at b o
        cases r with
        | ok bs => simp only at o; subst o; simp [R, step, PB.ByteQueue.step, hg, hs, outBytes, PB.ByteQueue.outGet, b]
        | error e =>
          simp only at o; subst o
          have : e = .notEnough := by
            rw [get_eq] at hg
            by_cases h1 : n ≤ 0
            · simp [h1] at hg
            · by_cases h2 : n.toNat > (abs c).length
              · simp [h1, h2] at hg; exact hg.2.symm
              · simp [h1, h2] at hg
          subst this
          simp [R, step, PB.ByteQueue.step, hg, hs, outBytes, PB.ByteQueue.outGet, b, Err.str]
  | getAll => obtain ⟨a, b, o⟩ := getAll_spec c h; exact ⟨a, by simp [R, step, PB.ByteQueue.step, b, o]⟩
  | getAsContainer n =>
    by_cases hc : 0 ≤ n ∧ n.toNat ≤ (abs c).length
    · obtain ⟨nc, e, i, a⟩ := getAsContainer_ok c h n hc.1 hc.2
      obtain ⟨si, sa⟩ := skip_spec c h n.toNat
      exact ⟨by simpa [step, e, outCont] using si, by simp [R, step, PB.ByteQueue.step, e, outCont, hc, sa, bytes_eq_abs, a]⟩
    · have e := getAsContainer_err c n hc
      exact ⟨by simpa [step, e, outCont] using h, by simp [R, step, PB.ByteQueue.step, e, outCont, hc, Err.str]; omega⟩
  | getMax n => obtain ⟨a, b, o⟩ := getMax_spec c h n; exact ⟨a, by simp [R, step, PB.ByteQueue.step, b, o]⟩
  | writeToSlice cap => obtain ⟨a, b, o⟩ := writeToSlice_spec c h cap; exact ⟨a, by simp [R, step, PB.ByteQueue.step, b, o]⟩
  | peek n => exact ⟨h, by simp [R, step, PB.ByteQueue.step, peek_eq]⟩
  | peekContainer n =>
    by_cases hc : 0 ≤ n ∧ n.toNat ≤ (abs c).length
    · obtain ⟨nc, e, i, a⟩ := peekContainer_some c n hc.1 hc.2
      exact ⟨by simpa [step, e] using h, by simp [R, step, PB.ByteQueue.step, e, hc, bytes_eq_abs, a]⟩
    · have e := peekContainer_none c n hc
      exact ⟨by simpa [step, e] using h, by simp [R, step, PB.ByteQueue.step, e, hc]; omega⟩
  | getNextBlock => obtain ⟨a, b⟩ := getNextBlock_spec c h; exact ⟨by simpa [step, outBytes] using (by
      cases hg : getNextBlock c with
      | mk c' r => cases r <;> simp [hg] at a ⊢ <;> exact a), by simpa [step, PB.ByteQueue.step] using b⟩
  | getNextBlockAsContainer => obtain ⟨a, b⟩ := getNextBlockAsContainer_spec c h; exact ⟨by simpa [step, outCont] using (by
      cases hg : getNextBlockAsContainer c with
      | mk c' r => cases r <;> simp [hg] at a ⊢ <;> exact a), by simpa [step, PB.ByteQueue.step] using b⟩
  | getNextN8 => exact getNextN_step unpack8 2 c h
  | getNextN16 => exact getNextN_step unpack16 3 c h
  | getNextN32 => exact getNextN_step unpack32 5 c h
  | getNextN64 => exact getNextN_step unpack64 10 c h
  | holdsData => exact ⟨h, by simp [R, step, PB.ByteQueue.step, holdsData_eq]⟩
  | length => exact ⟨h, by simp [R, step, PB.ByteQueue.step, length_eq]⟩
  | marshalJSON =>
    obtain ⟨a, b, o⟩ := compileData_spec c h
    exact ⟨a, by simp [R, step, PB.ByteQueue.step, marshalJSON, b, o]⟩
  | unmarshalJSON d =>
    cases d with
    | none => exact ⟨h, by simp [R, step, PB.ByteQueue.step, unmarshalJSON, Err.str]⟩
    | some raw => exact ⟨by simp [step, unmarshalJSON, Inv], by simp [R, step, PB.ByteQueue.step, unmarshalJSON, abs]⟩
  | writeAllTo budget =>
    exact ⟨h, by simp [R, step, PB.ByteQueue.step, writeAllTo, wtaLoop_spec, abs]⟩

/-! ### Worlds of containers -/

open PB.ByteQueue (WOp)

/-- Every container of the world satisfies the representation invariant. -/
def WInv (w : List C) : Prop := ∀ c ∈ w, Inv c

theorem winv_set (w : List C) (i : Nat) (c : C) (h : WInv w) (hc : Inv c) : WInv (w.set i c) := by
  intro x hx
  rcases List.mem_or_eq_of_mem_set hx with h1 | h1
  · exact h x h1
  · subst h1; exact hc

theorem appendContainerAsBlock_spec (c d : C) (h : Inv c) (hd : Inv d) :
    Inv (appendContainerAsBlock c d) ∧
    abs (appendContainerAsBlock c d) = abs c ++ pack64 (abs d).length ++ abs d := by
  obtain ⟨a, b⟩ := append_spec c h (pack64 (length d))
  obtain ⟨a', b'⟩ := appendContainer_spec _ d a hd
  refine ⟨a', ?_⟩
  show abs (appendContainer (append c (pack64 (length d))) d) = _
  rw [b', b, length_eq]
  rfl

theorem wstep_refines (w : List C) (h : WInv w) (op : WOp) :
    WInv (wstep w op).1 ∧ (wstep w op).1.map abs = (PB.ByteQueue.wstep (w.map abs) op).1 ∧
    (wstep w op).2 = (PB.ByteQueue.wstep (w.map abs) op).2 := by
  cases op with
  | newc ds =>
    refine ⟨?_, by simp [wstep, PB.ByteQueue.wstep, abs_new], rfl⟩
    intro x hx
    simp only [wstep, List.mem_append, List.mem_singleton] at hx
    rcases hx with h1 | h1
    · exact h x h1
    · subst h1; exact inv_new ds
  | on i op =>
    simp only [wstep, PB.ByteQueue.wstep, List.getElem?_map]
    cases hi : w[i]? with
    | none => exact ⟨h, rfl, rfl⟩
    | some c =>
      have hc : Inv c := h c (List.mem_of_getElem? hi)
      obtain ⟨a, b⟩ := step_refines c hc op
      have b1 := congrArg Prod.fst b
      have b2 := congrArg Prod.snd b
      simp only [R] at b1 b2
      simp only [Option.map_some]
      exact ⟨winv_set w i _ h a, by rw [List.map_set, b1], b2⟩
  | appendFrom i j =>
    simp only [wstep, PB.ByteQueue.wstep, List.getElem?_map]
    cases hi : w[i]? with
    | none => exact ⟨h, rfl, rfl⟩
    | some c =>
      cases hj : w[j]? with
      | none => exact ⟨h, rfl, rfl⟩
      | some d =>
        obtain ⟨a, b⟩ := appendContainer_spec c d (h c (List.mem_of_getElem? hi)) (h d (List.mem_of_getElem? hj))
        simp only [Option.map_some]
        exact ⟨winv_set w i _ h a, by rw [List.map_set, b], trivial⟩
  | appendFromAsBlock i j =>
    simp only [wstep, PB.ByteQueue.wstep, List.getElem?_map]
    cases hi : w[i]? with
    | none => exact ⟨h, rfl, rfl⟩
    | some c =>
      cases hj : w[j]? with
      | none => exact ⟨h, rfl, rfl⟩
      | some d =>
        obtain ⟨a, b⟩ := appendContainerAsBlock_spec c d (h c (List.mem_of_getElem? hi)) (h d (List.mem_of_getElem? hj))
        simp only [Option.map_some]
        exact ⟨winv_set w i _ h a, by rw [List.map_set, b], trivial⟩

end PB.Container
