import PB.Model.Managed
/-
Helper lemmas for C06: sums over item lists, per-step facts of the item programs, and the invariant
of the interleaving semantics.
-/
namespace PB.Managed

theorem recovered_ne_nil (v : PCls) : recovered v ≠ .nil := by
  cases v <;> simp [recovered]

/-! ### the decision of the service-worker loop, evaluated on the regenerated case list -/

theorem svcDecide_nil : svcDecide .nil = .finished := by decide
theorem svcDecide_err : svcDecide .err = .backoff := by decide
theorem svcDecide_canceled : svcDecide .canceled = .finished := by decide
theorem svcDecide_restart : svcDecide .restart = .restartNow := by decide

/-- A panic error matches none of the sentinels, whatever the panic value is: back-off restart. -/
theorem svcDecide_panicErr (rp : Report) : svcDecide (.panicErr rp) = .backoff := by
  have h : panicErrOpaque = true := by decide
  simp [svcDecide, PB.Gen.Managed.svcSwitch, svcDecideIn, svcCond, svcActOf, Ret.is, Ret.isNil, h]

theorem panicErr_is_no_sentinel (rp : Report) (s : Sentinel) : (Ret.panicErr rp).is s = false := by
  have h : panicErrOpaque = true := by decide
  simp [Ret.is, h]

/-! ### sums -/

theorem sumBy_append (f : Item → Int) (l₁ l₂ : List Item) :
    sumBy f (l₁ ++ l₂) = sumBy f l₁ + sumBy f l₂ := by
  induction l₁ with
  | nil => simp [sumBy]
  | cons a l ih => simp [sumBy, ih]; omega

theorem sumBy_set (f : Item → Int) : ∀ (l : List Item) (i : Nat) (a b : Item),
    l[i]? = some a → sumBy f (l.set i b) = sumBy f l - f a + f b := by
  intro l
  induction l with
  | nil => intro i a b h; simp at h
  | cons x l ih =>
    intro i a b h
    cases i with
    | zero => simp at h; subst h; simp [sumBy]; omega
    | succ i => simp at h; simp [sumBy, ih i a b h]; omega

theorem sumNat_append (f : Item → Nat) (l₁ l₂ : List Item) :
    sumNat f (l₁ ++ l₂) = sumNat f l₁ + sumNat f l₂ := by
  induction l₁ with
  | nil => simp [sumNat]
  | cons a l ih => simp [sumNat, ih]; omega

theorem sumNat_set (f : Item → Nat) : ∀ (l : List Item) (i : Nat) (a b : Item),
    l[i]? = some a → sumNat f (l.set i b) + f a = sumNat f l + f b := by
  intro l
  induction l with
  | nil => intro i a b h; simp at h
  | cons x l ih =>
    intro i a b h
    cases i with
    | zero => simp at h; subst h; simp [sumNat]; omega
    | succ i => simp at h; have := ih i a b h; simp [sumNat]; omega

theorem sumBy_nonneg (f : Item → Int) (hf : ∀ a, 0 ≤ f a) (l : List Item) : 0 ≤ sumBy f l := by
  induction l with
  | nil => simp [sumBy]
  | cons a l ih => have := hf a; simp [sumBy]; omega

theorem sumBy_le (f g : Item → Int) (h : ∀ a, f a ≤ g a) (l : List Item) : sumBy f l ≤ sumBy g l := by
  induction l with
  | nil => simp [sumBy]
  | cons a l ih => have := h a; simp [sumBy]; omega

theorem le_sumBy (f : Item → Int) (hf : ∀ a, 0 ≤ f a) : ∀ (l : List Item) (i : Nat) (a : Item),
    l[i]? = some a → f a ≤ sumBy f l := by
  intro l
  induction l with
  | nil => intro i a h; simp at h
  | cons x l ih =>
    intro i a h
    cases i with
    | zero => simp at h; subst h; have := sumBy_nonneg f hf l; simp [sumBy]; omega
    | succ i => simp at h; have := ih i a h; have := hf x; simp [sumBy]; omega

theorem sumBy_all_zero (f : Item → Int) (l : List Item) (h : ∀ a ∈ l, f a = 0) : sumBy f l = 0 := by
  induction l with
  | nil => simp [sumBy]
  | cons a l ih =>
    have h1 := h a (by simp)
    have h2 := ih (fun b hb => h b (by simp [hb]))
    simp [sumBy, h1, h2]

/-! ### static facts about contributions -/

theorem cw_nonneg (it : Item) : 0 ≤ it.cw := by unfold Item.cw; split <;> (try split) <;> omega
theorem ct_nonneg (it : Item) : 0 ≤ it.ct := by unfold Item.ct; split <;> (try split) <;> omega
theorem cm_nonneg (it : Item) : 0 ≤ it.cm := by unfold Item.cm; split <;> (try split) <;> omega
theorem cg_nonneg (it : Item) : 0 ≤ it.cg := by unfold Item.cg; split <;> (try split) <;> omega
theorem cc_nonneg (it : Item) : 0 ≤ it.cc := by unfold Item.cc; split <;> (try split) <;> omega
theorem cc_le_one (it : Item) : it.cc ≤ 1 := by unfold Item.cc; split <;> (try split) <;> omega
theorem pendingCheck_nonneg (it : Item) : 0 ≤ it.pendingCheck := by
  unfold Item.pendingCheck; split <;> (try split) <;> omega

theorem cw_le_pending (it : Item) : it.cw ≤ it.pendingCheck := by
  unfold Item.cw Item.pendingCheck; cases it.kind <;> simp <;> (repeat' split) <;> omega
theorem ct_le_pending (it : Item) : it.ct ≤ it.pendingCheck := by
  unfold Item.ct Item.pendingCheck; cases it.kind <;> simp <;> (repeat' split) <;> omega
theorem cm_le_pending (it : Item) : it.cm ≤ it.pendingCheck := by
  unfold Item.cm Item.pendingCheck; cases it.kind <;> simp <;> (repeat' split) <;> omega
theorem cc_le_pending (it : Item) : it.cc ≤ it.pendingCheck := by
  unfold Item.cc Item.pendingCheck; cases it.kind <;> simp <;> (repeat' split) <;> omega

/-- A finished item contributes nothing — whatever its function did. -/
theorem done_contrib (it : Item) (h : it.done = true) :
    it.cw = 0 ∧ it.ct = 0 ∧ it.cm = 0 ∧ it.cg = 0 ∧ it.cc = 0 ∧ it.pendingCheck = 0 := by
  unfold Item.done at h
  unfold Item.cw Item.ct Item.cm Item.cg Item.cc Item.pendingCheck
  cases hk : it.kind <;> simp [hk] at h ⊢ <;> omega

/-! ### the user function returning -/

@[simp] theorem take_kind (it : Item) : it.take.kind = it.kind := by unfold Item.take; split <;> rfl
@[simp] theorem take_pc (it : Item) : it.take.pc = it.pc := by unfold Item.take; split <;> rfl
@[simp] theorem take_reps (it : Item) : it.take.reps = it.reps := by unfold Item.take; split <;> rfl
@[simp] theorem take_ret (it : Item) : it.take.ret = it.ret := by unfold Item.take; split <;> rfl
@[simp] theorem take_cret (it : Item) : it.take.cret = it.cret := by unfold Item.take; split <;> rfl
@[simp] theorem take_http (it : Item) : it.take.http = it.http := by unfold Item.take; split <;> rfl
@[simp] theorem take_detail (it : Item) : it.take.detail = it.detail := by unfold Item.take; split <;> rfl
@[simp] theorem take_executing (it : Item) : it.take.executing = it.executing := by unfold Item.take; split <;> rfl
@[simp] theorem take_canceled (it : Item) : it.take.canceled = it.canceled := by unfold Item.take; split <;> rfl
@[simp] theorem take_hasFn (it : Item) : it.take.hasFn = it.hasFn := by unfold Item.take; split <;> rfl
@[simp] theorem take_failCnt (it : Item) : it.take.failCnt = it.failCnt := by unfold Item.take; split <;> rfl
@[simp] theorem take_runs (it : Item) : it.take.runs = it.runs + 1 := by unfold Item.take; split <;> rfl

theorem take_pans (it : Item) : it.take.pans = it.pans + (if it.take.cur.isPanic then 1 else 0) := by
  unfold Item.take; split <;> simp [Outcome.isPanic]

/-! ### one step of an item program -/

/-- Unfold the programs and split every branch of a step hypothesis `h : itemStep … = some (it', e)`. -/
macro "item_cases" h:ident : tactic => `(tactic| (
  unfold itemStep workerStep svcStep taskStep mtStep ctrlStep stopStep at $h:ident
  repeat' split at $h:ident
  all_goals (first | (cases $h:ident; done) | skip)))

theorem itemStep_kind {env : Env} {it it' : Item} {ch : Bool} {e : Eff}
    (h : itemStep env it ch = some (it', e)) : it'.kind = it.kind := by
  item_cases h
  all_goals (cases h; simp_all)

theorem itemStep_cw {env : Env} {it it' : Item} {ch : Bool} {e : Eff}
    (h : itemStep env it ch = some (it', e)) : it'.cw = it.cw + e.dw := by
  item_cases h
  all_goals (cases h; simp_all [Item.cw])

theorem itemStep_ct {env : Env} {it it' : Item} {ch : Bool} {e : Eff}
    (h : itemStep env it ch = some (it', e)) : it'.ct = it.ct + e.dt := by
  item_cases h
  all_goals (cases h; simp_all [Item.ct])

theorem itemStep_cm {env : Env} {it it' : Item} {ch : Bool} {e : Eff}
    (h : itemStep env it ch = some (it', e)) : it'.cm = it.cm + e.dm := by
  item_cases h
  all_goals (cases h; simp_all [Item.cm])

theorem itemStep_cg {env : Env} {it it' : Item} {ch : Bool} {e : Eff}
    (h : itemStep env it ch = some (it', e)) : it'.cg = it.cg + e.dg := by
  item_cases h
  all_goals (cases h; simp_all [Item.cg])

theorem itemStep_cc {env : Env} {it it' : Item} {ch : Bool} {e : Eff}
    (h : itemStep env it ch = some (it', e)) :
    (e.setC = none → it'.cc = it.cc) ∧
    (e.setC = some true → it'.cc = 1 ∧ (it.cc = 1 ∨ env.ctrlFree = true)) ∧
    (e.setC = some false → it'.cc = 0 ∧ (it.cc = 1 ∨ env.ctrlFree = true)) := by
  item_cases h
  all_goals (cases h; simp_all [Item.cc])

theorem itemStep_pending {env : Env} {it it' : Item} {ch : Bool} {e : Eff}
    (h : itemStep env it ch = some (it', e)) :
    (e.check = true → it.pendingCheck = 1 ∧ it'.pendingCheck = 0 ∧ it'.cw = 0 ∧ it'.ct = 0 ∧ it'.cm = 0 ∧ it'.cc = 0) ∧
    (e.check = false → it.pendingCheck ≤ it'.pendingCheck) ∧
    ((e.setStop = true ∨ e.clrCompleted = true) → it'.pendingCheck = 1) := by
  item_cases h
  all_goals (cases h; simp_all [Item.pendingCheck, Item.cw, Item.ct, Item.cm, Item.cc])

theorem itemStep_reps {env : Env} {it it' : Item} {ch : Bool} {e : Eff}
    (h : itemStep env it ch = some (it', e)) :
    it'.reps = it.reps + (if e.rep.isSome then 1 else 0) := by
  item_cases h
  all_goals (cases h; simp_all)

theorem panicReport_props (t : TType) (v : PCls) :
    (panicReport t v).sev = .panic ∧ (panicReport t v).stack = true ∧ (panicReport t v).val ≠ .nil ∧
    (panicReport t v).val = recovered v ∧ (panicReport t v).typ = t := by
  simp [panicReport, recovered_ne_nil]

theorem recoverRet_some {t : TType} {o : Outcome} {r : Ret} {rp : Report}
    (h : recoverRet t o = (r, some rp)) : ∃ v, o = .panic v ∧ rp = panicReport t v ∧ r = .panicErr rp := by
  cases o <;> simp [recoverRet, recovered_ne_nil] at h
  case panic v => obtain ⟨rfl, rfl⟩ := h; exact ⟨v, rfl, rfl, rfl⟩

theorem recoverRet_none {t : TType} {o : Outcome} {r : Ret}
    (h : recoverRet t o = (r, none)) : o.isPanic = false ∧ (∀ rp, r ≠ .panicErr rp) := by
  cases o <;> simp [recoverRet, recovered_ne_nil] at h <;> simp [Outcome.isPanic, ← h]

theorem recoverRet_panic (t : TType) (v : PCls) :
    recoverRet t (.panic v) = (.panicErr (panicReport t v), some (panicReport t v)) := by
  simp [recoverRet, recovered_ne_nil]

theorem recoverCtrl_some {o : Outcome} {r : CtrlRet} {rp : Report}
    (h : recoverCtrl o = (r, some rp)) : ∃ v, o = .panic v ∧ rp = panicReport .ctrl v ∧ r = .panicMsg := by
  cases o <;> simp [recoverCtrl, recovered_ne_nil] at h
  case panic v => obtain ⟨rfl, rfl⟩ := h; exact ⟨v, rfl, rfl, rfl⟩

theorem recoverCtrl_none {o : Outcome} {r : CtrlRet}
    (h : recoverCtrl o = (r, none)) : o.isPanic = false ∧ r ≠ .panicMsg := by
  cases o <;> simp [recoverCtrl, recovered_ne_nil] at h <;> simp [Outcome.isPanic, ← h]

theorem recoverCtrl_panic (v : PCls) : recoverCtrl (.panic v) = (.panicMsg, some (panicReport .ctrl v)) := by
  simp [recoverCtrl, recovered_ne_nil]

/-- Everything an item program reports is a panic report with a value and a stack trace. -/
theorem itemStep_rep_panic {env : Env} {it it' : Item} {ch : Bool} {e : Eff}
    (h : itemStep env it ch = some (it', e)) (r : Report) (hr : e.rep = some r) :
    r.sev = .panic ∧ r.stack = true ∧ r.val ≠ .nil := by
  item_cases h
  all_goals (cases h; simp at hr)
  all_goals (subst hr)
  all_goals (first
    | (obtain ⟨v, _, rfl, _⟩ := recoverRet_some ‹recoverRet _ _ = (_, some _)›; simp [panicReport, recovered_ne_nil]; done)
    | (obtain ⟨v, _, rfl, _⟩ := recoverCtrl_some ‹recoverCtrl _ = (_, some _)›; simp [panicReport, recovered_ne_nil]; done)
    | (simp [panicReport, recovered_ne_nil]; done))

/-! ### item-local invariant: what an item has recorded agrees with what its function did -/

/-- Last pc of the program of each kind. -/
def Item.pcMax (it : Item) : Nat :=
  match it.kind with
  | .runWorker | .startWorker | .hook | .api _ _ => 5
  | .svc => 7
  | .task => 8
  | .mt _ => 7
  | .ctrl => 6
  | .stop => 9

structure Item.Local (it : Item) : Prop where
  /-- every panic of the function has been reported, or is about to be by the pending recover block -/
  bal : it.reps + it.pendingReport = it.pans
  /-- RunWorker's return value is what runWorker's recover block made of the last outcome -/
  retW : (it.kind = .runWorker ∨ it.kind = .startWorker ∨ it.kind = .hook) → 3 ≤ it.pc →
    it.ret = some (recoverRet .worker it.cur).1
  retM : ∀ b, it.kind = .mt b → 4 ≤ it.pc → it.ret = some (recoverRet .microtask it.cur).1
  api : ∀ aw dev, it.kind = .api aw dev → 3 ≤ it.pc → it.ret = some .nil ∧ it.http = httpStatus aw it.cur ∧
    (it.cur.isPanic = true → it.detail = dev)
  exec : it.kind = .task → (it.executing = true ↔ 1 ≤ it.pc ∧ it.pc ≤ 6)
  cretC : it.kind = .ctrl → it.hasFn = true → 3 ≤ it.pc → it.cret = some (recoverCtrl it.cur).1
  cretS : it.kind = .stop → it.hasFn = true → 6 ≤ it.pc → it.cret = some (recoverCtrl it.cur).1
  /-- the program counter stays within the program -/
  bound : it.pc ≤ it.pcMax

theorem fresh_local (it : Item) (h : it.fresh = true) : it.Local := by
  simp [Item.fresh] at h
  obtain ⟨⟨⟨⟨⟨⟨h1, h2⟩, h3⟩, h4⟩, h5⟩, h6⟩, h7⟩ := h
  constructor <;> simp_all [Item.pendingReport, Item.pcMax]
  · split <;> simp <;> split <;> simp

theorem isPanic_false_of_ne {o : Outcome} (h : ∀ v, ¬ o = .panic v) : o.isPanic = false := by
  cases o <;> simp_all [Outcome.isPanic]

/-- Like `item_cases`, but first distinguishes the outcome of the current run, so that the recover
    blocks are evaluated. -/
macro "item_cases_cur" h:ident it:ident : tactic => `(tactic| (
  unfold itemStep workerStep svcStep taskStep mtStep ctrlStep stopStep at $h:ident
  cases hc : Item.cur $it:ident
  all_goals (simp only [hc, recoverRet, recoverCtrl, recovered_ne_nil, ne_eq, not_false_eq_true, if_true, reduceIte] at $h:ident)
  all_goals (repeat' split at $h:ident)
  all_goals (first | (cases $h:ident; done) | skip)))

theorem itemStep_bal {env : Env} {it it' : Item} {ch : Bool} {e : Eff}
    (h : itemStep env it ch = some (it', e)) (bal : it.reps + it.pendingReport = it.pans) :
    it'.reps + it'.pendingReport = it'.pans := by
  item_cases_cur h it
  all_goals (cases h)
  all_goals (simp_all [Item.pendingReport, take_pans, Outcome.isPanic])
  all_goals (first | rfl | omega | trace_state)

theorem itemStep_retW {env : Env} {it it' : Item} {ch : Bool} {e : Eff}
    (h : itemStep env it ch = some (it', e))
    (hl : (it.kind = .runWorker ∨ it.kind = .startWorker ∨ it.kind = .hook) → 3 ≤ it.pc →
      it.ret = some (recoverRet .worker it.cur).1) :
    (it'.kind = .runWorker ∨ it'.kind = .startWorker ∨ it'.kind = .hook) → 3 ≤ it'.pc →
      it'.ret = some (recoverRet .worker it'.cur).1 := by
  item_cases_cur h it
  all_goals (cases h)
  all_goals (simp_all [recoverRet, recovered_ne_nil])

theorem itemStep_retM {env : Env} {it it' : Item} {ch : Bool} {e : Eff}
    (h : itemStep env it ch = some (it', e))
    (hl : ∀ b, it.kind = .mt b → 4 ≤ it.pc → it.ret = some (recoverRet .microtask it.cur).1) :
    ∀ b, it'.kind = .mt b → 4 ≤ it'.pc → it'.ret = some (recoverRet .microtask it'.cur).1 := by
  item_cases_cur h it
  all_goals (cases h)
  all_goals (simp_all [recoverRet, recovered_ne_nil])

theorem itemStep_api {env : Env} {it it' : Item} {ch : Bool} {e : Eff}
    (h : itemStep env it ch = some (it', e))
    (hl : ∀ aw dev, it.kind = .api aw dev → 3 ≤ it.pc → it.ret = some .nil ∧ it.http = httpStatus aw it.cur ∧
      (it.cur.isPanic = true → it.detail = dev)) :
    ∀ aw dev, it'.kind = .api aw dev → 3 ≤ it'.pc → it'.ret = some .nil ∧ it'.http = httpStatus aw it'.cur ∧
      (it'.cur.isPanic = true → it'.detail = dev) := by
  item_cases_cur h it
  all_goals (cases h)
  all_goals (simp_all [httpStatus, Outcome.isPanic])

theorem itemStep_exec {env : Env} {it it' : Item} {ch : Bool} {e : Eff}
    (h : itemStep env it ch = some (it', e))
    (hl : it.kind = .task → (it.executing = true ↔ 1 ≤ it.pc ∧ it.pc ≤ 6)) :
    it'.kind = .task → (it'.executing = true ↔ 1 ≤ it'.pc ∧ it'.pc ≤ 6) := by
  item_cases h
  all_goals (cases h)
  all_goals (simp_all)

theorem itemStep_cretC {env : Env} {it it' : Item} {ch : Bool} {e : Eff}
    (h : itemStep env it ch = some (it', e))
    (hl : it.kind = .ctrl → it.hasFn = true → 3 ≤ it.pc → it.cret = some (recoverCtrl it.cur).1) :
    it'.kind = .ctrl → it'.hasFn = true → 3 ≤ it'.pc → it'.cret = some (recoverCtrl it'.cur).1 := by
  item_cases_cur h it
  all_goals (cases h)
  all_goals (simp_all [recoverCtrl, recovered_ne_nil])

theorem itemStep_cretS {env : Env} {it it' : Item} {ch : Bool} {e : Eff}
    (h : itemStep env it ch = some (it', e))
    (hl : it.kind = .stop → it.hasFn = true → 6 ≤ it.pc → it.cret = some (recoverCtrl it.cur).1) :
    it'.kind = .stop → it'.hasFn = true → 6 ≤ it'.pc → it'.cret = some (recoverCtrl it'.cur).1 := by
  item_cases_cur h it
  all_goals (cases h)
  all_goals (simp_all [recoverCtrl, recovered_ne_nil])

theorem itemStep_bound {env : Env} {it it' : Item} {ch : Bool} {e : Eff}
    (h : itemStep env it ch = some (it', e)) : it'.pc ≤ it'.pcMax := by
  item_cases h
  all_goals (cases h; simp_all [Item.pcMax])

theorem itemStep_local {env : Env} {it it' : Item} {ch : Bool} {e : Eff}
    (h : itemStep env it ch = some (it', e)) (hl : it.Local) : it'.Local :=
  ⟨itemStep_bal h hl.bal, itemStep_retW h hl.retW, itemStep_retM h hl.retM, itemStep_api h hl.api,
   itemStep_exec h hl.exec, itemStep_cretC h hl.cretC, itemStep_cretS h hl.cretS, itemStep_bound h⟩

/-- Nothing in an item program waits for anything but the user function — except a control routine for the
    module's control slot (pc 0) : an unfinished item can take its next step (timer choice in the back-off select). -/
theorem itemStep_enabled (env : Env) (it : Item) (hb : it.pc ≤ it.pcMax) (hd : it.done = false)
    (hc : (it.kind = .ctrl ∨ it.kind = .stop) → it.pc = 0 → env.ctrlFree = true) :
    ∃ it' e, itemStep env it false = some (it', e) := by
  unfold Item.pcMax at hb
  unfold Item.done at hd
  unfold itemStep workerStep svcStep taskStep mtStep ctrlStep stopStep
  cases hk : it.kind <;> simp only [hk] at hb hd hc ⊢
  all_goals (
    have hpc : it.pc = 0 ∨ it.pc = 1 ∨ it.pc = 2 ∨ it.pc = 3 ∨ it.pc = 4 ∨ it.pc = 5 ∨ it.pc = 6 ∨ it.pc = 7 ∨ it.pc = 8 := by
      simp at hd; omega
    rcases hpc with h | h | h | h | h | h | h | h | h <;> simp [h] at hd hc ⊢)
  all_goals (first | done | (repeat' split) <;> simp_all)

theorem itemStep_check_only {env : Env} {it it' : Item} {ch : Bool} {e : Eff}
    (h : itemStep env it ch = some (it', e)) (hc : e.check = true) :
    e.setStop = false ∧ e.clrCompleted = false ∧ e.setCtx = false ∧ e.setC = none ∧ e.rep = none ∧
    e.dw = 0 ∧ e.dt = 0 ∧ e.dm = 0 ∧ e.dg = 0 := by
  item_cases h
  all_goals (cases h; simp_all)

theorem itemStep_flags {env : Env} {it it' : Item} {ch : Bool} {e : Eff}
    (h : itemStep env it ch = some (it', e)) (hk : it.kind ≠ .stop) :
    e.setStop = false ∧ e.clrCompleted = false ∧ e.setCtx = false := by
  item_cases h
  all_goals (cases h; simp_all)

theorem itemStep_svc {env : Env} {it it' : Item} {ch : Bool} {e : Eff}
    (h : itemStep env it ch = some (it', e)) (hk : it.kind = .svc)
    (hp : 5 ≤ it.pc → env.stopFlag = true ∨ env.ctxDone = true ∨ it.cur.restarts = false) :
    5 ≤ it'.pc → env.stopFlag = true ∨ env.ctxDone = true ∨ it'.cur.restarts = false := by
  item_cases_cur h it
  all_goals (cases h)
  all_goals (simp_all [Outcome.restarts, recoverRet, recovered_ne_nil])

/-! ### the shared state -/

@[simp] theorem report_w (s : St) (r : Report) : (s.report r).w = s.w := by unfold St.report; (repeat' split) <;> rfl
@[simp] theorem report_t (s : St) (r : Report) : (s.report r).t = s.t := by unfold St.report; (repeat' split) <;> rfl
@[simp] theorem report_m (s : St) (r : Report) : (s.report r).m = s.m := by unfold St.report; (repeat' split) <;> rfl
@[simp] theorem report_g (s : St) (r : Report) : (s.report r).g = s.g := by unfold St.report; (repeat' split) <;> rfl
@[simp] theorem report_c (s : St) (r : Report) : (s.report r).c = s.c := by unfold St.report; (repeat' split) <;> rfl
@[simp] theorem report_items (s : St) (r : Report) : (s.report r).items = s.items := by unfold St.report; (repeat' split) <;> rfl
@[simp] theorem report_stopFlag (s : St) (r : Report) : (s.report r).stopFlag = s.stopFlag := by unfold St.report; (repeat' split) <;> rfl
@[simp] theorem report_ctxDone (s : St) (r : Report) : (s.report r).ctxDone = s.ctxDone := by unfold St.report; (repeat' split) <;> rfl
@[simp] theorem report_stopCompleted (s : St) (r : Report) : (s.report r).stopCompleted = s.stopCompleted := by
  unfold St.report; (repeat' split) <;> rfl
@[simp] theorem report_chanSet (s : St) (r : Report) : (s.report r).chanSet = s.chanSet := by
  unfold St.report; (repeat' split) <;> rfl
@[simp] theorem report_cap (s : St) (r : Report) : (s.report r).cap = s.cap := by unfold St.report; (repeat' split) <;> rfl
@[simp] theorem report_last (s : St) (r : Report) : (s.report r).last = some r := by unfold St.report; (repeat' split) <;> rfl

theorem report_count (s : St) (r : Report) :
    (s.report r).feed.length + (s.report r).dropped = s.feed.length + s.dropped + 1 := by
  unfold St.report; (repeat' split) <;> simp <;> omega

/-- The state of the reporting channel: the consumer has received a prefix of what was delivered, the rest fits
    into the buffer, consumers are parked only at an empty buffer, and a report is lost only without a channel
    or after at least `cap` reports were delivered. -/
def St.ChanInv (s : St) : Prop :=
  s.taken ≤ s.feed.length ∧ s.feed.length ≤ s.taken + s.cap ∧ (0 < s.waiting → s.taken = s.feed.length) ∧
  (s.dropped = 0 ∨ s.chanSet = false ∨ s.cap ≤ s.feed.length)

theorem report_cap_inv (s : St) (r : Report) (h : s.ChanInv) : (s.report r).ChanInv := by
  obtain ⟨h1, h2, h3, h4⟩ := h
  unfold St.report
  cases hc : s.chanSet
  · simp only [Bool.not_false, if_true]
    exact ⟨h1, h2, h3, Or.inr (Or.inl (by simp))⟩
  · simp only [hc, Bool.not_true, Bool.false_eq_true, if_false] at h4 ⊢
    have h4' : s.dropped = 0 ∨ s.cap ≤ s.feed.length := by
      rcases h4 with h | h | h
      · exact Or.inl h
      · cases h
      · exact Or.inr h
    by_cases hw : 0 < s.waiting
    · have := h3 hw
      simp only [hw, if_true]
      refine ⟨by simp; omega, by simp; omega, by simp; omega, ?_⟩
      rcases h4' with h | h
      · exact Or.inl h
      · exact Or.inr (Or.inr (by simp; omega))
    · simp only [hw, if_false]
      by_cases hr : s.feed.length < s.taken + s.cap
      · simp only [hr, if_true]
        refine ⟨by simp; omega, by simp; omega, by simp; omega, ?_⟩
        rcases h4' with h | h
        · exact Or.inl h
        · exact Or.inr (Or.inr (by simp; omega))
      · simp only [hr, if_false]
        exact ⟨h1, h2, h3, Or.inr (Or.inr (by simp; omega))⟩
theorem report_feed_mem (s : St) (r x : Report) (h : x ∈ (s.report r).feed) : x ∈ s.feed ∨ x = r := by
  unfold St.report at h; (repeat' split at h) <;> simp at h <;> simp [h]

/-- With room (or a parked consumer) the report is delivered: it is appended to the feed, nothing is dropped. -/
theorem report_delivered (s : St) (r : Report) (h : s.canSend = true) :
    (s.report r).feed = s.feed ++ [r] ∧ (s.report r).dropped = s.dropped := by
  unfold St.canSend at h
  unfold St.report
  (repeat' split) <;> simp_all

/-- Without room the report is dropped: the feed is unchanged; only `lastReportedError` keeps it. -/
theorem report_dropped (s : St) (r : Report) (h : s.canSend = false) :
    (s.report r).feed = s.feed ∧ (s.report r).dropped = s.dropped + 1 ∧ (s.report r).last = some r := by
  unfold St.canSend at h
  unfold St.report
  (repeat' split) <;> simp_all

/-- The send in `Report()` is the non-blocking one (regenerated from the source): reporting never blocks. -/
theorem reportBlocks_false (s : St) : s.reportBlocks = false := by
  have h : reportSendBlocking = false := by decide
  simp [St.reportBlocks, h]

@[simp] theorem check_w (s : St) : s.check.w = s.w := by unfold St.check; split <;> (try split) <;> rfl
@[simp] theorem check_t (s : St) : s.check.t = s.t := by unfold St.check; split <;> (try split) <;> rfl
@[simp] theorem check_m (s : St) : s.check.m = s.m := by unfold St.check; split <;> (try split) <;> rfl
@[simp] theorem check_g (s : St) : s.check.g = s.g := by unfold St.check; split <;> (try split) <;> rfl
@[simp] theorem check_c (s : St) : s.check.c = s.c := by unfold St.check; split <;> (try split) <;> rfl
@[simp] theorem check_items (s : St) : s.check.items = s.items := by unfold St.check; split <;> (try split) <;> rfl
@[simp] theorem check_stopFlag (s : St) : s.check.stopFlag = s.stopFlag := by unfold St.check; split <;> (try split) <;> rfl
@[simp] theorem check_ctxDone (s : St) : s.check.ctxDone = s.ctxDone := by unfold St.check; split <;> (try split) <;> rfl
@[simp] theorem check_feed (s : St) : s.check.feed = s.feed := by unfold St.check; split <;> (try split) <;> rfl
@[simp] theorem check_dropped (s : St) : s.check.dropped = s.dropped := by unfold St.check; split <;> (try split) <;> rfl
@[simp] theorem check_chanSet (s : St) : s.check.chanSet = s.chanSet := by unfold St.check; split <;> (try split) <;> rfl
@[simp] theorem check_cap (s : St) : s.check.cap = s.cap := by unfold St.check; split <;> (try split) <;> rfl
@[simp] theorem check_last (s : St) : s.check.last = s.last := by unfold St.check; split <;> (try split) <;> rfl

/-- `checkIfStopComplete` closes `stopComplete` exactly when nothing is accounted as running. -/
theorem check_stopCompleted (s : St) :
    s.check.stopCompleted = (s.stopCompleted || (s.stopFlag && !s.c && s.w == 0 && s.t == 0 && s.m == 0)) := by
  unfold St.check; split <;> (try split) <;> simp_all

end PB.Managed
