import PB.Model.Modules
import PB.Spec.Modules
set_option linter.unusedSimpArgs false
set_option linter.unusedVariables false
/-!
`buildEnabledTree` computes exactly the transitive dependencies of the enabled modules.
-/
namespace PB.Modules
open PB.Modules.Spec

section
variable (n : Nat) (deps : Nat → List Nat) (en : Nat → Bool)

theorem mkFn_round (l : List Bool) (d : Nat) :
    mkFn (closeRound n deps en l) d = true ↔
      d < n ∧ (mkFn l d = true ∨ ∃ r, r < n ∧ (en r = true ∨ mkFn l r = true) ∧ d ∈ deps r) := by
  unfold mkFn closeRound
  by_cases hd : d < n
  · simp [List.getD_eq_getElem?_getD, List.getElem?_map, List.getElem?_range hd, hd]
  · simp [List.getD_eq_getElem?_getD, hd]

theorem closeIter_succ (k : Nat) (l : List Bool) :
    closeIter n deps en (k + 1) l = closeRound n deps en (closeIter n deps en k l) := by
  induction k generalizing l with
  | zero => simp [closeIter]
  | succ k ih => rw [closeIter, ih]; rfl

end

theorem transDep_tail {deps : Nat → List Nat} {a r d : Nat} (h : TransDep deps a r) (hd : d ∈ deps r) :
    TransDep deps a d := by
  induction h with
  | direct h0 => exact TransDep.step h0 (TransDep.direct hd)
  | step h0 _ ih => exact TransDep.step h0 (ih hd)


/-- Strict growth of a count when a predicate is strictly enlarged on a list. -/
theorem countP_lt_of_strict {α : Type} (p q : α → Bool) (xs : List α)
    (hpq : ∀ x ∈ xs, p x = true → q x = true) (hx : ∃ x ∈ xs, q x = true ∧ p x = false) :
    xs.countP p < xs.countP q := by
  induction xs with
  | nil => obtain ⟨x, hx, _⟩ := hx; cases hx
  | cons y ys ih =>
    have hle : ys.countP p ≤ ys.countP q :=
      List.countP_mono_left (fun x hx hp => hpq x (List.mem_cons_of_mem _ hx) hp)
    obtain ⟨x, hxm, hq, hp⟩ := hx
    rcases List.mem_cons.mp hxm with rfl | hxm
    · simp [List.countP_cons, hq, hp]; omega
    · have := ih (fun x hx hp => hpq x (List.mem_cons_of_mem _ hx) hp) ⟨x, hxm, hq, hp⟩
      have hy := hpq y (List.mem_cons_self)
      simp only [List.countP_cons]
      cases hpy : p y
      · simp; cases q y <;> simp <;> omega
      · simp [hy hpy]; omega

section
variable (n : Nat) (deps : Nat → List Nat) (en : Nat → Bool)

def marked (l : List Bool) : Nat := (List.range n).countP (mkFn l)

def Stable (l : List Bool) : Prop := ∀ d, mkFn (closeRound n deps en l) d = true → mkFn l d = true

theorem round_mono (l : List Bool) (d : Nat) (hd : d < n) (h : mkFn l d = true) :
    mkFn (closeRound n deps en l) d = true := (mkFn_round n deps en l d).mpr ⟨hd, Or.inl h⟩

theorem marked_le (l : List Bool) : marked n l ≤ n := by
  unfold marked; have := List.countP_le_length (p := mkFn l) (l := List.range n); simpa using this

theorem marked_grow (l : List Bool) (h : ¬ Stable n deps en l) :
    marked n l < marked n (closeRound n deps en l) := by
  unfold Stable at h
  have : ∃ d, mkFn (closeRound n deps en l) d = true ∧ mkFn l d = false := by
    apply Classical.byContradiction
    intro hc; apply h; intro d hd
    cases hm : mkFn l d
    · exact absurd ⟨d, hd, hm⟩ hc
    · rfl
  obtain ⟨d, hd, hm⟩ := this
  have hdn : d < n := ((mkFn_round n deps en l d).mp hd).1
  apply countP_lt_of_strict
  · intro x hx hp; exact round_mono n deps en l x (List.mem_range.mp hx) hp
  · exact ⟨d, List.mem_range.mpr hdn, hd, hm⟩

theorem stable_round (l : List Bool) (hl : ∀ d, mkFn l d = true → d < n) (h : Stable n deps en l) :
    Stable n deps en (closeRound n deps en l) := by
  intro d hd
  rw [mkFn_round] at hd
  obtain ⟨hdn, hd⟩ := hd
  rcases hd with hd | ⟨r, hr, hen, hdr⟩
  · exact hd
  · rw [mkFn_round]
    refine ⟨hdn, Or.inr ⟨r, hr, ?_, hdr⟩⟩
    rcases hen with hen | hen
    · exact Or.inl hen
    · exact Or.inr (h r hen)

theorem iter_bound (l : List Bool) (d : Nat) (k : Nat) (hl : ∀ d, mkFn l d = true → d < n)
    (h : mkFn (closeIter n deps en k l) d = true) : d < n := by
  induction k generalizing l with
  | zero => exact hl d h
  | succ k ih =>
    rw [closeIter_succ] at h
    exact ((mkFn_round n deps en _ d).mp h).1

theorem stable_or_marked (l : List Bool) (hl : ∀ d, mkFn l d = true → d < n) (k : Nat) :
    Stable n deps en (closeIter n deps en k l) ∨ k ≤ marked n (closeIter n deps en k l) := by
  induction k with
  | zero => right; omega
  | succ k ih =>
    rw [closeIter_succ]
    rcases ih with ih | ih
    · left; exact stable_round n deps en _ (fun d hd => iter_bound n deps en l d k hl hd) ih
    · by_cases hs : Stable n deps en (closeIter n deps en k l)
      · left; exact stable_round n deps en _ (fun d hd => iter_bound n deps en l d k hl hd) hs
      · right; have := marked_grow n deps en _ hs; omega

theorem stable_final (l : List Bool) (hl : ∀ d, mkFn l d = true → d < n) :
    Stable n deps en (closeIter n deps en n l) := by
  rcases stable_or_marked n deps en l hl n with h | h
  · exact h
  · -- every module is marked
    intro d hd
    have hdn : d < n := ((mkFn_round n deps en _ d).mp hd).1
    have hle := marked_le n (closeIter n deps en n l)
    have heq : marked n (closeIter n deps en n l) = (List.range n).length := by simp; omega
    unfold marked at heq
    have := (List.countP_eq_length.mp heq) d (List.mem_range.mpr hdn)
    exact this

end


theorem mkFn_allFalse (n d : Nat) : mkFn ((List.range n).map (fun _ => false)) d = false := by
  unfold mkFn
  by_cases hd : d < n
  · simp [List.getD_eq_getElem?_getD, List.getElem?_map, List.getElem?_range hd]
  · simp [List.getD_eq_getElem?_getD, hd]

theorem iter_sound (n : Nat) (deps : Nat → List Nat) (en : Nat → Bool) (k : Nat) (l : List Bool)
    (hl : ∀ d, mkFn l d = true → ∃ e, e < n ∧ en e = true ∧ TransDep deps e d) (d : Nat)
    (h : mkFn (closeIter n deps en k l) d = true) : ∃ e, e < n ∧ en e = true ∧ TransDep deps e d := by
  induction k generalizing d with
  | zero => exact hl d h
  | succ k ih =>
    rw [closeIter_succ, mkFn_round] at h
    obtain ⟨_, h⟩ := h
    rcases h with h | ⟨r, hr, hen, hdr⟩
    · exact ih d h
    · rcases hen with hen | hen
      · exact ⟨r, hr, hen, TransDep.direct hdr⟩
      · obtain ⟨e, he, hee, ht⟩ := ih r hen
        exact ⟨e, he, hee, transDep_tail ht hdr⟩

/-- `buildEnabledTree` marks exactly the transitive dependencies of the enabled modules. -/
theorem closure_spec (n : Nat) (deps : Nat → List Nat) (en : Nat → Bool)
    (hreg : ∀ m, m < n → ∀ d ∈ deps m, d < n) (m : Nat) :
    mkFn (closeIter n deps en n ((List.range n).map (fun _ => false))) m = true ↔
      ∃ e, e < n ∧ en e = true ∧ TransDep deps e m := by
  constructor
  · intro h
    exact iter_sound n deps en n _ (fun d hd => by simp [mkFn_allFalse] at hd) m h
  · rintro ⟨e, he, hen, ht⟩
    have hst := stable_final n deps en ((List.range n).map (fun _ => false)) (fun d hd => by simp [mkFn_allFalse] at hd)
    -- closed under dependencies of enabled or marked modules
    have key : ∀ a x, TransDep deps a x → a < n →
        (en a = true ∨ mkFn (closeIter n deps en n ((List.range n).map (fun _ => false))) a = true) →
        mkFn (closeIter n deps en n ((List.range n).map (fun _ => false))) x = true := by
      intro a x hax
      induction hax with
      | direct hd =>
        intro ha hm
        exact hst _ ((mkFn_round n deps en _ _).mpr ⟨hreg _ ha _ hd, Or.inr ⟨_, ha, hm, hd⟩⟩)
      | step hd _ ih =>
        intro ha hm
        have hdn := hreg _ ha _ hd
        exact ih hdn (Or.inr (hst _ ((mkFn_round n deps en _ _).mpr ⟨hdn, Or.inr ⟨_, ha, hm, hd⟩⟩)))
    exact key e m ht he (Or.inl hen)

end PB.Modules
