import PBProofs.Lemmas.Query
namespace PB.Query
/- Helper lemmas for C11, part 2: operand round trips and `Query.Print` as a sentence of the grammar. -/

theorem digitVal_digitChar (d : Nat) (h : d < 10) : isDigit (digitChar d) = true ∧ digitVal (digitChar d) = d := by
  have : d = 0 ∨ d = 1 ∨ d = 2 ∨ d = 3 ∨ d = 4 ∨ d = 5 ∨ d = 6 ∨ d = 7 ∨ d = 8 ∨ d = 9 := by omega
  rcases this with rfl | rfl | rfl | rfl | rfl | rfl | rfl | rfl | rfl | rfl <;> decide

theorem parseNatAux_append (a : Nat) (xs ys : List Char) :
    parseNatAux a (xs ++ ys) = (parseNatAux a xs).bind fun b => parseNatAux b ys := by
  induction xs generalizing a with
  | nil => simp [parseNatAux]
  | cons c r ih =>
    simp only [List.cons_append, parseNatAux]
    by_cases hd : isDigit c = true
    · simp [hd, ih]
    · simp [hd]

theorem showNatAux_acc : ∀ (f n : Nat) (acc : List Char), showNatAux f n acc = showNatAux f n [] ++ acc
  | 0, _, acc => by simp [showNatAux]
  | f + 1, n, acc => by
    simp only [showNatAux]
    by_cases h : n < 10
    · simp [h]
    · simp only [h, if_false]
      rw [showNatAux_acc f (n / 10) (digitChar (n % 10) :: acc), showNatAux_acc f (n / 10) [digitChar (n % 10)]]
      simp

theorem parse_showNatAux : ∀ (f n : Nat), n < f → parseNatAux 0 (showNatAux f n []) = some n
  | 0, _, h => by omega
  | f + 1, n, h => by
    simp only [showNatAux]
    by_cases h10 : n < 10
    · have := digitVal_digitChar n h10
      simp [h10, parseNatAux, this.1, this.2]
    · simp only [h10, if_false]
      rw [showNatAux_acc, parseNatAux_append, parse_showNatAux f (n / 10) (by omega)]
      have := digitVal_digitChar (n % 10) (by omega)
      simp [parseNatAux, this.1, this.2]
      omega

theorem showNatAux_ne_nil (f n : Nat) : showNatAux (f + 1) n [] ≠ [] := by
  simp only [showNatAux]
  by_cases h10 : n < 10
  · simp [h10]
  · simp only [h10, if_false]; rw [showNatAux_acc]; simp

theorem parseNat_showNat (n : Nat) : parseNat (showNat n) = some n := by
  simp only [parseNat, showNat, showNatAux_ne_nil, if_false]
  exact parse_showNatAux (n + 1) n (by omega)


theorem showNat_first_digit (n : Nat) : ∃ c r, showNat n = c :: r ∧ isDigit c = true := by
  have hp := parseNat_showNat n
  simp only [parseNat] at hp
  cases hs : showNat n with
  | nil => simp [hs] at hp
  | cons c r =>
    refine ⟨c, r, rfl, ?_⟩
    simp only [hs, parseNatAux] at hp
    by_cases hd : isDigit c = true
    · exact hd
    · simp [hd] at hp

theorem parseInt_showInt (i : Int) (h1 : -(2 ^ 63 : Int) ≤ i) (h2 : i < 2 ^ 63) : parseInt (showInt i) = some i := by
  simp only [showInt]
  by_cases hneg : i < 0
  · simp only [hneg, if_true, parseInt]
    have h3 : i.natAbs ≤ 2 ^ 63 := by omega
    simp [parseNat_showNat, h3]
    omega
  · simp only [hneg, if_false]
    obtain ⟨c, r, hs, hd⟩ := showNat_first_digit i.natAbs
    have hp := parseNat_showNat i.natAbs
    have hc1 : c ≠ '+' := by intro e; subst e; revert hd; decide
    have hc2 : c ≠ '-' := by intro e; subst e; revert hd; decide
    rw [hs] at hp ⊢
    simp only [parseInt, hc1, hc2, if_false, hp]
    have h3 : i.natAbs < 2 ^ 63 := by omega
    simp [h3]
    omega

theorem parseUint31_showNat (n : Nat) (h : n < 2 ^ 31) : parseUint31 (showNat n) = some n := by
  simp [parseUint31, parseNat_showNat, h]

theorem showNat_kwOK (n : Nat) : kwOK (showNat n) = true := parseNat_kwOK (parseNat_showNat n)

theorem showInt_kwOK (i : Int) : kwOK (showInt i) = true := by
  simp only [showInt]
  by_cases hneg : i < 0
  · have := showNat_kwOK i.natAbs
    simp only [kwOK, Bool.and_eq_true, Bool.not_eq_true', List.isEmpty_eq_false_iff] at this
    simp [hneg, kwOK, this.2, isSpecial]
  · simp [hneg, showNat_kwOK]

/-! ### `In` lists -/

theorem splitComma_noComma (t : Tok) (h : noComma t = true) : splitComma t = [t] := by
  induction t with
  | nil => rfl
  | cons c r ih =>
    simp only [noComma, List.all_cons, Bool.and_eq_true, bne_iff_ne, ne_eq] at h
    have hr : noComma r = true := h.2
    simp [splitComma, h.1, ih hr]

theorem splitComma_append (t r : Tok) (h : noComma t = true) :
    splitComma (t ++ ',' :: r) = t :: splitComma r := by
  induction t with
  | nil => simp [splitComma]
  | cons c r' ih =>
    simp only [noComma, List.all_cons, Bool.and_eq_true, bne_iff_ne, ne_eq] at h
    have hr : noComma r' = true := h.2
    simp [splitComma, h.1, ih hr]

theorem splitComma_joinComma : ∀ (l : List Tok), l ≠ [] → l.all noComma = true → splitComma (joinComma l) = l
  | [], h, _ => absurd rfl h
  | [t], _, h => by
    simp only [List.all_cons, List.all_nil, Bool.and_true] at h
    simp [joinComma, splitComma_noComma t h]
  | t :: t' :: r, _, h => by
    simp only [List.all_cons, Bool.and_eq_true] at h
    have ih := splitComma_joinComma (t' :: r) (by simp) (by simp [h.2.1, h.2.2])
    simp only [joinComma]
    rw [splitComma_append t _ h.1, ih]

/-! ### Words as `escapeString` writes them -/

def wordOf (t : Tok) : Word := if t = [] ∨ t.any isSpecial then ⟨.quoted, t⟩ else ⟨.raw, t⟩

theorem wordOf_text (t : Tok) : (wordOf t).text = t := by
  simp only [wordOf]; split <;> rfl

theorem wordOf_render (t : Tok) : (wordOf t).render = esc t := by
  simp only [wordOf, esc]; split <;> simp [Word.render]

theorem wordOf_wf (t : Tok) : (wordOf t).wf = true := by
  unfold wordOf
  split
  · rfl
  · rename_i h
    simp only [not_or, Bool.not_eq_true] at h
    simp [Word.wf, h.1, h.2]

def rawWord (t : Tok) : Word := ⟨.raw, t⟩

theorem rawWord_wf (t : Tok) (h : kwOK t = true) : (rawWord t).wf = true := by
  simpa [rawWord, Word.wf, kwOK] using h


/-! ### Operator tables (regenerated) -/

theorem lookup_mem {α β} [BEq α] [LawfulBEq α] (a : α) (b : β) : ∀ (l : List (α × β)), l.lookup a = some b → (a, b) ∈ l
  | [], h => by simp [List.lookup] at h
  | (k, v) :: r, h => by
    simp only [List.lookup] at h
    by_cases hk : a == k
    · simp only [hk] at h
      have : a = k := by simpa using hk
      cases h; subst this; simp
    · simp only [hk] at h
      exact List.mem_cons_of_mem _ (lookup_mem a b r h)

theorem table_names : ∀ p ∈ PB.Gen.Query.whereTable, (kindOfCtor p.2).isSome = true →
    lookupOp (opName p.1) = some p.1 ∧ (decide (kindOfCtor p.2 = some Kind.exists) = decide (p.1 = opExists)) := by decide

theorem kindOf_spec {op : Nat} {k : Kind} (h : kindOf op = some k) :
    lookupOp (opName op) = some op ∧ (k = .exists ↔ op = opExists) := by
  simp only [kindOf] at h
  cases hl : PB.Gen.Query.whereTable.lookup op with
  | none => simp [hl] at h
  | some ctor =>
    simp only [hl, Option.bind_some] at h
    have hm := lookup_mem op ctor _ hl
    have := table_names (op, ctor) hm (by simp [h])
    refine ⟨this.1, ?_⟩
    have h2 := this.2
    simp only [h] at h2
    constructor
    · intro e; subst e; simpa using h2
    · intro e; simp only [e, decide_true, decide_eq_true_eq] at h2; cases h2; rfl

/-! ### A printed condition is a sentence of the grammar -/

def negCode (neg : Bool) (key : Tok) : Nat :=
  if neg then (if key = [] ∨ key.any isSpecial then 2 else 1) else 0

def valWord : Val → Option Word
  | .int i => some (rawWord (showInt i))
  | .float t => some (rawWord t)
  | .bool b => some (rawWord (if b then ['t','r','u','e'] else ['f','a','l','s','e']))
  | .str s => some (wordOf s)
  | .strs l => some (wordOf (joinComma l))
  | .regex t => some (wordOf t)
  | .none => none

mutual
/-- The sentence `Condition.string()` writes (`neg`: under a `Not`). -/
def toSN (neg : Bool) : Cond → SCond
  | .leaf key op v => .clause [' '] (wordOf key) (opName op) (negCode neg key) (valWord v)
  | .bad _ => .clause [' '] (rawWord []) [] 0 none
  | .and cs => .group false [' '] [] [' '] neg (toSL cs)
  | .or cs => .group true [' '] [] [' '] neg (toSL cs)
  | .not c => toSN true c
def toSL : List Cond → List SCond
  | [] => []
  | c :: cs => toSN false c :: toSL cs
end

theorem toSL_length (cs : List Cond) : (toSL cs).length = cs.length := by
  induction cs with
  | nil => rfl
  | cons c r ih => simp [toSL, ih]

def argOf (v : Val) : Arg := match valWord v with | none => .nil | some w => .str w.text

theorem parseBool_true : parseBool ['t','r','u','e'] = some true := by decide
theorem parseBool_false : parseBool ['f','a','l','s','e'] = some false := by decide

theorem mkWhere_typed (O : Oracle) (key : Tok) (op : Nat) (v : Val) (h : typedLeaf O op v = true) :
    mkWhere O key op (argOf v) = .leaf key op v := by
  unfold typedLeaf at h
  cases hk : kindOf op with
  | none => simp [hk] at h
  | some k =>
    cases k <;> cases v <;> simp [hk] at h <;> simp only [mkWhere, hk, argOf, valWord, rawWord, wordOf_text]
    · rename_i i
      simp only [int64, Bool.and_eq_true, decide_eq_true_eq] at h
      simp [parseInt_showInt i h.1 h.2]
    · simp [h.1]
    · rename_i l
      have hne : l ≠ [] := by intro e; subst e; simp at h
      rw [splitComma_joinComma l hne (by simpa using h.2)]
      have : ¬ l.length < 2 := by omega
      simp [this]
    · simp [h]
    · rename_i b
      cases b <;> simp [parseBool_true, parseBool_false]

theorem valWord_wf (O : Oracle) (op : Nat) (v : Val) (h : typedLeaf O op v = true) :
    match valWord v with | none => True | some w => w.wf = true := by
  cases v with
  | int i => exact rawWord_wf _ (showInt_kwOK i)
  | float t =>
    unfold typedLeaf at h
    cases hk : kindOf op with
    | none => simp [hk] at h
    | some k => cases k <;> simp [hk] at h; exact rawWord_wf _ h.2
  | bool b => cases b <;> exact rawWord_wf _ (by decide)
  | str s => exact wordOf_wf s
  | strs l => exact wordOf_wf _
  | regex t => exact wordOf_wf t
  | none => trivial

theorem valWord_none_iff (O : Oracle) (op : Nat) (v : Val) (h : typedLeaf O op v = true) :
    (valWord v = none ↔ op = opExists) := by
  unfold typedLeaf at h
  cases hk : kindOf op with
  | none => simp [hk] at h
  | some k =>
    have hs := (kindOf_spec hk).2
    cases k <;> cases v <;> simp [hk] at h <;> simp [valWord] <;> first | (exact hs.1 rfl) | (intro e; have := hs.2 e; cases this)

end PB.Query
