import PBProofs.Lemmas.Query
namespace PB.Query
/- Helper lemmas for C11, part 2: operand round trips and `Query.Print` as a sentence of the grammar. -/

theorem digitVal_digitChar (d : Nat) (h : d < 10) : isDigit (digitChar d) = true ∧ digitVal (digitChar d) = d := by
  have : d = 0 ∨ d = 1 ∨ d = 2 ∨ d = 3 ∨ d = 4 ∨ d = 5 ∨ d = 6 ∨ d = 7 ∨ d = 8 ∨ d = 9 := by omega
  rcases this with rfl | rfl | rfl | rfl | rfl | rfl | rfl | rfl | rfl | rfl <;> decide

theorem parseNatAux_append (a : Nat) (xs ys : List Char) :
    parseNatAux a (xs ++ ys) = (parseNatAux a xs).bind fun b => parseNatAux b ys := by
  induction xs generalizing a with
  | nil => simp [parseNatAux]
  | cons c r ih =>
    simp only [List.cons_append, parseNatAux]
    by_cases hd : isDigit c = true
    · simp [hd, ih]
    · simp [hd]

theorem showNatAux_acc : ∀ (f n : Nat) (acc : List Char), showNatAux f n acc = showNatAux f n [] ++ acc
  | 0, _, acc => by simp [showNatAux]
  | f + 1, n, acc => by
    simp only [showNatAux]
    by_cases h : n < 10
    · simp [h]
    · simp only [h, if_false]
      rw [showNatAux_acc f (n / 10) (digitChar (n % 10) :: acc), showNatAux_acc f (n / 10) [digitChar (n % 10)]]
      simp

theorem parse_showNatAux : ∀ (f n : Nat), n < f → parseNatAux 0 (showNatAux f n []) = some n
  | 0, _, h => by omega
  | f + 1, n, h => by
    simp only [showNatAux]
    by_cases h10 : n < 10
    · have := digitVal_digitChar n h10
      simp [h10, parseNatAux, this.1, this.2]
    · simp only [h10, if_false]
      rw [showNatAux_acc, parseNatAux_append, parse_showNatAux f (n / 10) (by omega)]
      have := digitVal_digitChar (n % 10) (by omega)
      simp [parseNatAux, this.1, this.2]
      omega

theorem showNatAux_ne_nil (f n : Nat) : showNatAux (f + 1) n [] ≠ [] := by
  simp only [showNatAux]
  by_cases h10 : n < 10
  · simp [h10]
  · simp only [h10, if_false]; rw [showNatAux_acc]; simp

theorem parseNat_showNat (n : Nat) : parseNat (showNat n) = some n := by
  simp only [parseNat, showNat, showNatAux_ne_nil, if_false]
  exact parse_showNatAux (n + 1) n (by omega)


theorem showNat_first_digit (n : Nat) : ∃ c r, showNat n = c :: r ∧ isDigit c = true := by
  have hp := parseNat_showNat n
  simp only [parseNat] at hp
  cases hs : showNat n with
  | nil => simp [hs] at hp
  | cons c r =>
    refine ⟨c, r, rfl, ?_⟩
    simp only [hs, parseNatAux] at hp
    by_cases hd : isDigit c = true
    · exact hd
    · simp [hd] at hp

theorem parseInt_showInt (i : Int) (h1 : -(2 ^ 63 : Int) ≤ i) (h2 : i < 2 ^ 63) : parseInt (showInt i) = some i := by
  simp only [showInt]
  by_cases hneg : i < 0
  · simp only [hneg, if_true, parseInt]
    have h3 : i.natAbs ≤ 2 ^ 63 := by omega
    simp [parseNat_showNat, h3]
    omega
  · simp only [hneg, if_false]
    obtain ⟨c, r, hs, hd⟩ := showNat_first_digit i.natAbs
    have hp := parseNat_showNat i.natAbs
    have hc1 : c ≠ '+' := by intro e; subst e; revert hd; decide
    have hc2 : c ≠ '-' := by intro e; subst e; revert hd; decide
    rw [hs] at hp ⊢
    simp only [parseInt, hc1, hc2, if_false, hp]
    have h3 : i.natAbs < 2 ^ 63 := by omega
    simp [h3]
    omega

theorem parseUint31_showNat (n : Nat) (h : n < 2 ^ 31) : parseUint31 (showNat n) = some n := by
  simp [parseUint31, parseNat_showNat, h]

theorem showNat_kwOK (n : Nat) : kwOK (showNat n) = true := parseNat_kwOK (parseNat_showNat n)

theorem showInt_kwOK (i : Int) : kwOK (showInt i) = true := by
  simp only [showInt]
  by_cases hneg : i < 0
  · have := showNat_kwOK i.natAbs
    simp only [kwOK, Bool.and_eq_true, Bool.not_eq_true', List.isEmpty_eq_false_iff] at this
    simp [hneg, kwOK, this.2, isSpecial]
  · simp [hneg, showNat_kwOK]

/-! ### `In` lists -/

theorem splitComma_noComma (t : Tok) (h : noComma t = true) : splitComma t = [t] := by
  induction t with
  | nil => rfl
  | cons c r ih =>
    simp only [noComma, List.all_cons, Bool.and_eq_true, bne_iff_ne, ne_eq] at h
    have hr : noComma r = true := h.2
    simp [splitComma, h.1, ih hr]

theorem splitComma_append (t r : Tok) (h : noComma t = true) :
    splitComma (t ++ ',' :: r) = t :: splitComma r := by
  induction t with
  | nil => simp [splitComma]
  | cons c r' ih =>
    simp only [noComma, List.all_cons, Bool.and_eq_true, bne_iff_ne, ne_eq] at h
    have hr : noComma r' = true := h.2
    simp [splitComma, h.1, ih hr]

theorem splitComma_joinComma : ∀ (l : List Tok), l ≠ [] → l.all noComma = true → splitComma (joinComma l) = l
  | [], h, _ => absurd rfl h
  | [t], _, h => by
    simp only [List.all_cons, List.all_nil, Bool.and_true] at h
    simp [joinComma, splitComma_noComma t h]
  | t :: t' :: r, _, h => by
    simp only [List.all_cons, Bool.and_eq_true] at h
    have ih := splitComma_joinComma (t' :: r) (by simp) (by simp [h.2.1, h.2.2])
    simp only [joinComma]
    rw [splitComma_append t _ h.1, ih]

/-! ### Words as `escapeString` writes them -/

def wordOf (t : Tok) : Word := if t = [] ∨ t.any isSpecial then ⟨.quoted, t⟩ else ⟨.raw, t⟩

theorem wordOf_text (t : Tok) : (wordOf t).text = t := by
  simp only [wordOf]; split <;> rfl

theorem wordOf_render (t : Tok) : (wordOf t).render = esc t := by
  simp only [wordOf, esc]; split <;> simp [Word.render]

theorem wordOf_wf (t : Tok) : (wordOf t).wf = true := by
  unfold wordOf
  split
  · rfl
  · rename_i h
    simp only [not_or, Bool.not_eq_true] at h
    simp [Word.wf, h.1, h.2]

def rawWord (t : Tok) : Word := ⟨.raw, t⟩

theorem rawWord_wf (t : Tok) (h : kwOK t = true) : (rawWord t).wf = true := by
  simpa [rawWord, Word.wf, kwOK] using h


/-! ### Operator tables (regenerated) -/

theorem lookup_mem {α β} [BEq α] [LawfulBEq α] (a : α) (b : β) : ∀ (l : List (α × β)), l.lookup a = some b → (a, b) ∈ l
  | [], h => by simp [List.lookup] at h
  | (k, v) :: r, h => by
    simp only [List.lookup] at h
    by_cases hk : a == k
    · simp only [hk] at h
      have : a = k := by simpa using hk
      cases h; subst this; simp
    · simp only [hk] at h
      exact List.mem_cons_of_mem _ (lookup_mem a b r h)

theorem table_names : ∀ p ∈ PB.Gen.Query.whereTable, (kindOfCtor p.2).isSome = true →
    lookupOp (opName p.1) = some p.1 ∧ (decide (kindOfCtor p.2 = some Kind.exists) = decide (p.1 = opExists)) := by decide

theorem kindOf_spec {op : Nat} {k : Kind} (h : kindOf op = some k) :
    lookupOp (opName op) = some op ∧ (k = .exists ↔ op = opExists) := by
  simp only [kindOf] at h
  cases hl : PB.Gen.Query.whereTable.lookup op with
  | none => simp [hl] at h
  | some ctor =>
    simp only [hl, Option.bind_some] at h
    have hm := lookup_mem op ctor _ hl
    have := table_names (op, ctor) hm (by simp [h])
    refine ⟨this.1, ?_⟩
    have h2 := this.2
    simp only [h] at h2
    constructor
    · intro e; subst e; simpa using h2
    · intro e; simp only [e, decide_true, decide_eq_true_eq] at h2; cases h2; rfl

/-! ### A printed condition is a sentence of the grammar -/

def negCode (neg : Bool) (key : Tok) : Nat :=
  if neg then (if key = [] ∨ key.any isSpecial then 2 else 1) else 0

def valWord : Val → Option Word
  | .int i => some (rawWord (showInt i))
  | .float t => some (rawWord t)
  | .bool b => some (rawWord (if b then ['t','r','u','e'] else ['f','a','l','s','e']))
  | .str s => some (wordOf s)
  | .strs l => some (wordOf (joinComma l))
  | .regex t => some (wordOf t)
  | .none => none

mutual
/-- The sentence `Condition.string()` writes (`neg`: under a `Not`). -/
def toSN (neg : Bool) : Cond → SCond
  | .leaf key op v => .clause [' '] (wordOf key) (opName op) (negCode neg key) (valWord v)
  | .bad _ => .clause [' '] (rawWord []) [] 0 none
  | .and cs => .group false [' '] [] [' '] neg (toSL cs)
  | .or cs => .group true [' '] [] [' '] neg (toSL cs)
  | .not c => toSN true c
def toSL : List Cond → List SCond
  | [] => []
  | c :: cs => toSN false c :: toSL cs
end

theorem toSL_length (cs : List Cond) : (toSL cs).length = cs.length := by
  induction cs with
  | nil => rfl
  | cons c r ih => simp [toSL, ih]

def argOf (v : Val) : Arg := match valWord v with | none => .nil | some w => .str w.text

theorem parseBool_true : parseBool ['t','r','u','e'] = some true := by decide
theorem parseBool_false : parseBool ['f','a','l','s','e'] = some false := by decide

theorem mkWhere_typed (O : Oracle) (key : Tok) (op : Nat) (v : Val) (h : typedLeaf O op v = true) :
    mkWhere O key op (argOf v) = .leaf key op v := by
  unfold typedLeaf at h
  cases hk : kindOf op with
  | none => simp [hk] at h
  | some k =>
    cases k <;> cases v <;> simp [hk] at h <;> simp only [mkWhere, hk, argOf, valWord, rawWord, wordOf_text]
    · rename_i i
      simp only [int64, Bool.and_eq_true, decide_eq_true_eq] at h
      simp [parseInt_showInt i h.1 h.2]
    · simp [h.1]
    · rename_i l
      have hne : l ≠ [] := by intro e; subst e; simp at h
      rw [splitComma_joinComma l hne (by simpa using h.2)]
      have : ¬ l.length < 2 := by omega
      simp [this]
    · simp [h]
    · rename_i b
      cases b <;> simp [parseBool_true, parseBool_false]

theorem valWord_wf (O : Oracle) (op : Nat) (v : Val) (h : typedLeaf O op v = true) :
    match valWord v with | none => True | some w => w.wf = true := by
  cases v with
  | int i => exact rawWord_wf _ (showInt_kwOK i)
  | float t =>
    unfold typedLeaf at h
    cases hk : kindOf op with
    | none => simp [hk] at h
    | some k => cases k <;> simp [hk] at h; exact rawWord_wf _ h.2
  | bool b => cases b <;> exact rawWord_wf _ (by decide)
  | str s => exact wordOf_wf s
  | strs l => exact wordOf_wf _
  | regex t => exact wordOf_wf t
  | none => trivial

theorem valWord_none_iff (O : Oracle) (op : Nat) (v : Val) (h : typedLeaf O op v = true) :
    (valWord v = none ↔ op = opExists) := by
  unfold typedLeaf at h
  cases hk : kindOf op with
  | none => simp [hk] at h
  | some k =>
    have hs := (kindOf_spec hk).2
    cases k <;> cases v <;> simp [hk] at h <;> simp [valWord] <;> first | (exact hs.1 rfl) | (intro e; have := hs.2 e; cases this)


theorem negCode_le (neg : Bool) (key : Tok) : negCode neg key ≤ 2 := by
  unfold negCode; split <;> (try split) <;> omega

theorem leaf_toS_wf (O : Oracle) (neg : Bool) (key : Tok) (op : Nat) (v : Val)
    (hk : isStructural key = false) (ht : typedLeaf O op v = true) : (toSN neg (.leaf key op v)).wf = true := by
  have hkind : ∃ k, kindOf op = some k := by
    unfold typedLeaf at ht
    cases hk : kindOf op with
    | none => simp [hk] at ht
    | some k => exact ⟨k, rfl⟩
  obtain ⟨k, hkk⟩ := hkind
  have hl := (kindOf_spec hkk).1
  have hv := valWord_wf O op v ht
  have hn := valWord_none_iff O op v ht
  simp only [toSN, SCond.wf, wordOf_wf, wordOf_text, hk, hl, negCode_le, Bool.and_eq_true, decide_eq_true_eq]
  refine ⟨⟨⟨⟨by decide, trivial⟩, by simp⟩, trivial⟩, ?_⟩
  cases hvw : valWord v with
  | none => simpa using hn.1 hvw
  | some w =>
    simp only [hvw] at hv
    have : op ≠ opExists := fun e => by rw [hn.2 e] at hvw; cases hvw
    simp [this, hv]

mutual
theorem toSN_wf (O : Oracle) (neg : Bool) : (c : Cond) → Cond.wfN O neg c = true → (toSN neg c).wf = true
  | .leaf key op v, h => by
    simp only [Cond.wfN, Bool.and_eq_true, Bool.not_eq_true'] at h
    exact leaf_toS_wf O neg key op v h.1 h.2
  | .bad _, h => by simp [Cond.wfN] at h
  | .and cs, h => by
    simp only [Cond.wfN, Bool.and_eq_true, decide_eq_true_eq] at h
    have := toSL_wf O cs h.2
    simp only [toSN, SCond.wf, this, toSL_length, Bool.and_eq_true, decide_eq_true_eq]
    exact ⟨⟨⟨⟨by decide, by decide⟩, by decide⟩, trivial⟩, h.1⟩
  | .or cs, h => by
    simp only [Cond.wfN, Bool.and_eq_true, decide_eq_true_eq] at h
    have := toSL_wf O cs h.2
    simp only [toSN, SCond.wf, this, toSL_length, Bool.and_eq_true, decide_eq_true_eq]
    exact ⟨⟨⟨⟨by decide, by decide⟩, by decide⟩, trivial⟩, h.1⟩
  | .not c, h => by
    simp only [Cond.wfN, Bool.and_eq_true, Bool.not_eq_true'] at h
    simpa [toSN] using toSN_wf O true c h.2
theorem toSL_wf (O : Oracle) : (cs : List Cond) → wfL O cs = true → kidsWf (toSL cs) = true
  | [], _ => rfl
  | c :: cs, h => by
    simp only [wfL, Bool.and_eq_true] at h
    simp [toSL, kidsWf, toSN_wf O false c h.1, toSL_wf O cs h.2]
end

theorem negCode_zero (neg : Bool) (key : Tok) : (negCode neg key = 0) ↔ neg = false := by
  unfold negCode; cases neg <;> simp <;> split <;> omega

mutual
theorem toSN_cond (O : Oracle) (neg : Bool) : (c : Cond) → Cond.wfN O neg c = true →
    (toSN neg c).cond O = if neg then .not c else c
  | .leaf key op v, h => by
    simp only [Cond.wfN, Bool.and_eq_true, Bool.not_eq_true'] at h
    have ht := h.2
    have hkind : ∃ k, kindOf op = some k := by
      unfold typedLeaf at ht
      cases hk : kindOf op with
      | none => simp [hk] at ht
      | some k => exact ⟨k, rfl⟩
    obtain ⟨k, hkk⟩ := hkind
    have hl := (kindOf_spec hkk).1
    have hm := mkWhere_typed O key op v ht
    simp only [argOf] at hm
    simp only [toSN, SCond.cond, hl, wordOf_text, negCode_zero]
    cases hvw : valWord v <;> simp only [hvw] at hm <;> cases neg <;> simp [hm]
  | .bad _, h => by simp [Cond.wfN] at h
  | .and cs, h => by
    simp only [Cond.wfN, Bool.and_eq_true, decide_eq_true_eq] at h
    simp only [toSN, SCond.cond, toSL_cond O cs h.2, Bool.false_eq_true, if_false]
  | .or cs, h => by
    simp only [Cond.wfN, Bool.and_eq_true, decide_eq_true_eq] at h
    simp only [toSN, SCond.cond, toSL_cond O cs h.2, if_true]
  | .not c, h => by
    simp only [Cond.wfN, Bool.and_eq_true, Bool.not_eq_true'] at h
    have := toSN_cond O true c h.2
    simp only [h.1, toSN, this, if_true, Bool.false_eq_true, if_false]
theorem toSL_cond (O : Oracle) : (cs : List Cond) → wfL O cs = true → condList O (toSL cs) = cs
  | [], _ => rfl
  | c :: cs, h => by
    simp only [wfL, Bool.and_eq_true] at h
    have := toSN_cond O false c h.1
    simp only [Bool.false_eq_true, if_false] at this
    simp [toSL, condList, this, toSL_cond O cs h.2]
end


/-! ### `Condition.string()` writes that sentence -/

theorem valStr_eq (v : Val) : valStr v = match valWord v with | none => [] | some w => ' ' :: w.render := by
  cases v <;> simp only [valStr, valWord, wordOf_render] <;> rfl

theorem notStr_quote (rest : List Char) : notStr ('"' :: rest) = kwNot ++ ' ' :: '"' :: rest := by
  simp [notStr, kwNot]

theorem notStr_paren (rest : List Char) : notStr ('(' :: rest) = kwNot ++ ' ' :: '(' :: rest := by
  simp [notStr, kwNot]

theorem takeWhile_nospace (key rest : List Char) (h : key.any isSpecial = false) :
    (key ++ ' ' :: rest).takeWhile (· ≠ ' ') = key ∧ (key ++ ' ' :: rest).dropWhile (· ≠ ' ') = ' ' :: rest := by
  induction key with
  | nil => simp
  | cons c r ih =>
    simp only [List.any_cons, Bool.or_eq_false_iff] at h
    have hc : c ≠ ' ' := by intro e; subst e; simp [isSpecial] at h
    have e1 : (decide (c ≠ ' ')) = true := by simp [hc]
    have := ih h.2
    rw [List.cons_append, List.takeWhile_cons, List.dropWhile_cons]
    simp only [e1, if_true]
    exact ⟨by rw [this.1], this.2⟩

theorem notStr_raw (key rest : List Char) (h1 : key ≠ []) (h2 : key.any isSpecial = false) :
    notStr (key ++ ' ' :: rest) = key ++ [' ','n','o','t'] ++ ' ' :: rest := by
  have ht := takeWhile_nospace key rest h2
  cases key with
  | nil => exact absurd rfl h1
  | cons c r =>
    simp only [List.any_cons, Bool.or_eq_false_iff] at h2
    have hc1 : c ≠ '(' := by intro e; subst e; simp [isSpecial] at h2
    have hc2 : c ≠ '"' := by intro e; subst e; simp [isSpecial] at h2
    simp only [notStr, List.cons_append, List.head?_cons, Option.some.injEq, hc1, hc2, or_self, if_false]
    simp only [List.cons_append] at ht
    rw [ht.1, ht.2]
    simp

theorem leaf_render (neg : Bool) (key : Tok) (op : Nat) (v : Val) :
    (toSN neg (.leaf key op v)).render =
      if neg then notStr (condStr (.leaf key op v)) else condStr (.leaf key op v) := by
  simp only [toSN, SCond.render, condStr, wordOf_render, valStr_eq]
  generalize valWord v = vw
  have key_lemma : ∀ (X : List Char),
      ((if negCode neg key = 2 then kwNot ++ [' '] else []) ++ esc key ++
        (if negCode neg key = 1 then [' '] ++ kwNot else [])) ++ [' '] ++ opName op ++ X =
      if neg then notStr (esc key ++ ' ' :: opName op ++ X) else esc key ++ ' ' :: opName op ++ X := by
    intro X
    cases neg with
    | false => simp [negCode]
    | true =>
      by_cases hq : key = [] ∨ key.any isSpecial = true
      · have he : esc key = '"' :: (escBody key ++ ['"']) := by unfold esc; rw [if_pos hq]; rfl
        simp only [negCode, if_true, hq, he, List.cons_append, notStr_quote]
        simp [kwNot, List.append_assoc]
      · have he : esc key = key := by unfold esc; rw [if_neg hq]
        have hq2 := hq
        simp only [not_or, Bool.not_eq_true] at hq2
        simp only [negCode, if_true, he, hq, if_false, List.append_assoc, List.cons_append]
        rw [notStr_raw key (opName op ++ X) hq2.1 hq2.2]
        simp [kwNot, List.append_assoc]
  cases vw with
  | none => simpa using key_lemma []
  | some w => simpa using key_lemma (' ' :: w.render)

theorem renderMembers_cons2 (sep : List Char) (c c' : SCond) (cs : List SCond) :
    renderMembers sep (c :: c' :: cs) = c.render ++ sep ++ renderMembers sep (c' :: cs) := by
  simp [renderMembers]

theorem joinStr_cons2 (sep : List Char) (c c' : Cond) (cs : List Cond) :
    joinStr sep (c :: c' :: cs) = condStr c ++ sep ++ joinStr sep (c' :: cs) := by
  simp [joinStr]

mutual
theorem toSN_render (O : Oracle) (neg : Bool) : (c : Cond) → Cond.wfN O neg c = true →
    (toSN neg c).render = if neg then notStr (condStr c) else condStr c
  | .leaf key op v, _ => leaf_render neg key op v
  | .bad _, h => by simp [Cond.wfN] at h
  | .and cs, h => by
    simp only [Cond.wfN, Bool.and_eq_true, decide_eq_true_eq] at h
    have := toSL_render O [' ','a','n','d',' '] cs h.2
    have hsep : [' '] ++ connective false ++ [' '] = [' ','a','n','d',' '] := rfl
    simp only [toSN, SCond.render, hsep, this, condStr]
    cases neg <;> simp [notStr_paren, kwNot]
  | .or cs, h => by
    simp only [Cond.wfN, Bool.and_eq_true, decide_eq_true_eq] at h
    have := toSL_render O [' ','o','r',' '] cs h.2
    have hsep : [' '] ++ connective true ++ [' '] = [' ','o','r',' '] := rfl
    simp only [toSN, SCond.render, hsep, this, condStr]
    cases neg <;> simp [notStr_paren, kwNot]
  | .not c, h => by
    simp only [Cond.wfN, Bool.and_eq_true, Bool.not_eq_true'] at h
    have := toSN_render O true c h.2
    simp only [h.1, toSN, this, if_true, Bool.false_eq_true, if_false, condStr]
theorem toSL_render (O : Oracle) (sep : List Char) : (cs : List Cond) → wfL O cs = true →
    renderMembers sep (toSL cs) = joinStr sep cs
  | [], _ => rfl
  | [c], h => by
    simp only [wfL, Bool.and_eq_true] at h
    have := toSN_render O false c h.1
    simp only [Bool.false_eq_true, if_false] at this
    simp [toSL, renderMembers, joinStr, this]
  | c :: c' :: cs, h => by
    simp only [wfL, Bool.and_eq_true] at h
    have h1 := toSN_render O false c h.1
    simp only [Bool.false_eq_true, if_false] at h1
    have h2 := toSL_render O sep (c' :: cs) (by simp [wfL, h.2.1, h.2.2])
    have e : toSL (c :: c' :: cs) = toSN false c :: toSN false c' :: toSL cs := by simp [toSL]
    have e' : toSL (c' :: cs) = toSN false c' :: toSL cs := by simp [toSL]
    rw [e, renderMembers_cons2, joinStr_cons2, h1, ← e', h2]
end


/-! ### `Query.Print` writes a sentence -/

def Query.sentence (q : Query) : Sentence :=
  { gap := [' ']
    pfx := wordOf (q.dbName ++ ':' :: q.dbKeyPrefix)
    where_ := q.where_.map (toSN false)
    orderby := if q.orderBy ≠ [] then some (wordOf q.orderBy) else none
    limit := if q.limit > 0 then some (showInt q.limit) else none
    offset := if q.offset > 0 then some (showInt q.offset) else none
    strip := true }

theorem notStr_head (x : List Char) : notStr x ≠ [] ∧ (notStr x).head? ≠ some '(' := by
  unfold notStr
  split
  · simp
  · rename_i h
    cases x with
    | nil => simp
    | cons c r =>
      simp only [List.head?_cons, Option.some.injEq, not_or] at h
      by_cases hc : c = ' '
      · subst hc; simp
      · have e1 : (decide (c ≠ ' ')) = true := by simp [hc]
        rw [List.takeWhile_cons]
        simp only [e1, if_true, List.cons_append, List.head?_cons, Option.some.injEq, ne_eq, reduceCtorEq,
          not_false_eq_true, true_and]
        exact h.1

theorem esc_head (key X : List Char) : esc key ++ X ≠ [] ∧ (esc key ++ X).head? ≠ some '(' := by
  unfold esc
  split
  · simp
  · rename_i h
    simp only [not_or, Bool.not_eq_true] at h
    cases key with
    | nil => exact absurd rfl h.1
    | cons c r =>
      simp only [List.any_cons, Bool.or_eq_false_iff] at h
      have : c ≠ '(' := by intro e; subst e; simp [isSpecial] at h
      simp [this]

def bodyOf (strip : Bool) : SCond → List Char
  | .group isOr g p ng false kids =>
    if strip then renderMembers (g ++ connective isOr ++ g) kids else (SCond.group isOr g p ng false kids).render
  | c => c.render

theorem renderWhere_eq (s : Sentence) :
    s.renderWhere = match s.where_ with | none => [] | some c => s.gap ++ kwWhere ++ s.gap ++ bodyOf s.strip c := by
  unfold Sentence.renderWhere
  cases s.where_ with
  | none => rfl
  | some c =>
    cases c with
    | clause g k o n v => rfl
    | group isOr g p ng neg kids => cases neg <;> rfl

theorem printWhere_eq (O : Oracle) (c : Cond) (h : c.wf O = true) :
    printWhere (some c) = [' '] ++ kwWhere ++ [' '] ++ bodyOf true (toSN false c) := by
  have hr := toSN_render O false c h
  simp only [Bool.false_eq_true, if_false] at hr
  have plain : ∀ (c' : SCond), c'.render = condStr c → bodyOf true c' = c'.render →
      condStr c ≠ [] ∧ (condStr c).head? ≠ some '(' →
      printWhere (some c) = [' '] ++ kwWhere ++ [' '] ++ bodyOf true c' := by
    intro c' h1 h2 h3
    simp only [printWhere, h3.1, h3.2, if_false, h2, h1]
    rfl
  cases c with
  | leaf key op v =>
    refine plain _ hr rfl ?_
    simp only [condStr, List.append_assoc]
    exact esc_head key _
  | bad e => simp [Cond.wf, Cond.wfN] at h
  | not c0 =>
    have hh : condStr (.not c0) ≠ [] ∧ (condStr (.not c0)).head? ≠ some '(' := by
      simp only [condStr]; exact notStr_head _
    simp only [Cond.wf, Cond.wfN, Bool.and_eq_true, Bool.not_eq_true'] at h
    cases c0 with
    | leaf key op v => exact plain _ hr rfl hh
    | bad e => simp [Cond.wfN] at h
    | not c1 => simp [Cond.wfN] at h
    | and cs => exact plain _ hr rfl hh
    | or cs => exact plain _ hr rfl hh
  | and cs =>
    simp only [Cond.wf, Cond.wfN, Bool.and_eq_true, decide_eq_true_eq] at h
    have := toSL_render O [' ','a','n','d',' '] cs h.2
    have hsep : [' '] ++ connective false ++ [' '] = [' ','a','n','d',' '] := rfl
    simp only [toSN, bodyOf, if_true, hsep, this, printWhere, condStr]
    simp [List.dropLast_concat, kwWhere]
  | or cs =>
    simp only [Cond.wf, Cond.wfN, Bool.and_eq_true, decide_eq_true_eq] at h
    have := toSL_render O [' ','o','r',' '] cs h.2
    have hsep : [' '] ++ connective true ++ [' '] = [' ','o','r',' '] := rfl
    simp only [toSN, bodyOf, if_true, hsep, this, printWhere, condStr]
    simp [List.dropLast_concat, kwWhere]

theorem print_eq_render (O : Oracle) (q : Query) (h : q.wf O = true) : q.print = q.sentence.render := by
  simp only [Query.wf, Bool.and_eq_true, decide_eq_true_eq] at h
  obtain ⟨⟨⟨_, hw⟩, _⟩, _⟩ := h
  obtain ⟨db, pk, w, ob, lim, off⟩ := q
  simp only at hw
  have hwhere : printWhere w = (Query.sentence ⟨db, pk, w, ob, lim, off⟩).renderWhere := by
    rw [renderWhere_eq]
    cases w with
    | none => rfl
    | some c =>
      simp only [Query.sentence, Option.map_some]
      exact printWhere_eq O c hw
  simp only [Query.print, hwhere, Sentence.render]
  simp only [Query.sentence, wordOf_render]
  by_cases h1 : ob ≠ [] <;> by_cases h2 : lim > 0 <;> by_cases h3 : off > 0 <;>
    simp [h1, h2, h3, wordOf_render, kwOrderby, kwLimit, kwOffset, kwQuery, List.append_assoc]

theorem parseKey_split (db pk : List Char) (h : db.all (fun c => c != ':') = true) :
    parseKey (db ++ ':' :: pk) = (db, pk) := by
  induction db with
  | nil => simp [parseKey]
  | cons c r ih =>
    simp only [List.all_cons, Bool.and_eq_true, bne_iff_ne, ne_eq] at h
    simp [parseKey, h.1, ih h.2]

theorem limit_text (l : Int) (h : l < 2 ^ 31) (hp : l > 0) : parseUint31 (showInt l) = some l.natAbs := by
  have hn : ¬ l < 0 := by omega
  have : l.natAbs < 2 ^ 31 := by omega
  simp only [showInt, hn, if_false, parseUint31_showNat _ this]

theorem limit_val (l : Int) (h : l < 2 ^ 31) (hp : l > 0) : (((parseUint31 (showInt l)).getD 0 : Nat) : Int) = l := by
  rw [limit_text l h hp]
  exact Int.natAbs_of_nonneg (by omega)

theorem sentence_query (O : Oracle) (q : Query) (h : q.wf O = true) : q.sentence.query O = q.norm := by
  simp only [Query.wf, Bool.and_eq_true, decide_eq_true_eq] at h
  obtain ⟨⟨⟨hdb, hw⟩, hl⟩, ho⟩ := h
  obtain ⟨db, pk, w, ob, lim, off⟩ := q
  simp only at hdb hw hl ho
  have hwh : (w.map (toSN false)).map (·.cond O) = w := by
    cases w with
    | none => rfl
    | some c =>
      have := toSN_cond O false c hw
      simp only [Bool.false_eq_true, if_false] at this
      simp [this]
  simp only [Sentence.query, Query.sentence, Query.new, wordOf_text, parseKey_split db pk hdb, hwh, Query.norm]
  by_cases hb : ob = [] <;> by_cases h1 : lim > 0 <;> by_cases h2 : off > 0 <;>
    simp [hb, h1, h2, wordOf_text] <;>
    (first
      | exact ⟨limit_val lim hl h1, limit_val off ho h2⟩
      | exact limit_val lim hl h1
      | exact limit_val off ho h2)

theorem sentence_wf (O : Oracle) (q : Query) (h : q.wf O = true) : q.sentence.wf = true := by
  simp only [Query.wf, Bool.and_eq_true, decide_eq_true_eq] at h
  obtain ⟨⟨⟨_, hw⟩, hl⟩, ho⟩ := h
  obtain ⟨db, pk, w, ob, lim, off⟩ := q
  simp only at hw hl ho
  have hg : gapOK [' '] = true := by decide
  have hwh : (match w.map (toSN false) with | none => true | some c => c.wf) = true := by
    cases w with
    | none => rfl
    | some c => simpa using toSN_wf O false c hw
  simp only [Sentence.wf, Query.sentence, wordOf_wf, hg, Bool.true_and, Bool.and_eq_true]
  refine ⟨⟨⟨?_, ?_⟩, ?_⟩, ?_⟩
  · cases w with
    | none => rfl
    | some c => simpa using toSN_wf O false c hw
  · by_cases hb : ob = []
    · simp [hb]
    · simp [hb, wordOf_wf]
  · by_cases h1 : lim > 0
    · simp [h1, limit_text lim hl h1]
    · simp [h1]
  · by_cases h2 : off > 0
    · simp [h2, limit_text off ho h2]
    · simp [h2]

mutual
theorem wf_firstBad (O : Oracle) (neg : Bool) : (c : Cond) → Cond.wfN O neg c = true → firstBad c = none
  | .leaf _ _ _, _ => rfl
  | .bad _, h => by simp [Cond.wfN] at h
  | .and cs, h => by
    simp only [Cond.wfN, Bool.and_eq_true] at h
    simpa [firstBad] using wfL_firstBad O cs h.2
  | .or cs, h => by
    simp only [Cond.wfN, Bool.and_eq_true] at h
    simpa [firstBad] using wfL_firstBad O cs h.2
  | .not c, h => by
    simp only [Cond.wfN, Bool.and_eq_true] at h
    simpa [firstBad] using wf_firstBad O true c h.2
theorem wfL_firstBad (O : Oracle) : (cs : List Cond) → wfL O cs = true → firstBadL cs = none
  | [], _ => rfl
  | c :: cs, h => by
    simp only [wfL, Bool.and_eq_true] at h
    simp [firstBadL, wf_firstBad O false c h.1, wfL_firstBad O cs h.2]
end

end PB.Query
