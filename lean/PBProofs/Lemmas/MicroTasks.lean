import PB.Model.MicroTasks
/-! Helper lemmas for C15: the inductive invariant of the microtask scheduler model, one lemma per action. -/
namespace PB.MicroTasks
open PB.Gen.MicroTasks

/-! ### the regenerated constants, as the model's merged actions assume them -/

theorem addG_sched (s : St) : addG s dSched = { s with cI := s.cI + 1 } := rfl
theorem addG_sdsched (s : St) : addG s dShutdownSched = { s with cI := s.cI + 1 } := rfl
theorem addG_high (s : St) : addG s dHighRun = { s with cI := s.cI + 1 } := rfl
theorem addG_tmo (s : St) : addG s dTimeoutMedium = { s with cI := s.cI + 1 } := rfl
theorem addG_conclude (s : St) : addG s dConclude = { s with cD := s.cD + 1 } := rfl
theorem addM_run (s : St) : addM s dModRun = { s with mI := s.mI + 1 } := rfl
theorem addM_conclude (s : St) : addM s dModConclude = { s with mD := s.mD + 1 } := rfl
theorem tmoEnq_counts : timeoutEnqueueCounts = true := rfl
theorem tmoWait_counts_not : timeoutWaitCounts = false := rfl

theorem space_iff (s : St) : space s = true ↔ s.cI < s.cD + s.lim := by
  unfold space schedSpace St.cnt
  constructor
  · intro h
    have := of_decide_eq_true h
    omega
  · intro h
    apply decide_eq_true
    omega

theorem space_false_iff (s : St) : space s = false ↔ s.cD + s.lim ≤ s.cI := by
  have := space_iff s
  cases h : space s <;> simp [h] at this ⊢ <;> omega

/-! ### the invariant -/

def Inv (s : St) : Prop :=
  s.shut ≤ 1 ∧ s.fin ≤ 1 ∧ s.hk ≤ 2 ∧ s.spc ≤ 8 ∧ s.pend ≤ 1 ∧
  (s.hk = 0 → s.spc ≠ 3 ∧ s.spc ≠ 7) ∧
  (s.hk ≠ 0 → s.spc = 3 ∨ s.spc = 7) ∧
  (s.pend = 1 → s.spc = 4 ∨ s.spc = 8 ∨ s.hk = 2) ∧
  (s.spc = 4 ∨ s.spc = 8 ∨ s.hk = 2 → s.pend = 1) ∧
  (s.shut = 0 → s.spc < 6) ∧
  -- accounting: every admitted, not yet decremented task is counted or has exactly one increment owed
  s.cI + s.sM + s.sL + s.pend = s.cD + s.c + s.r + s.d1 + s.d2 + s.hc + s.hr + s.hd1 + s.hd2 ∧
  s.mI = s.mD + s.r + s.d1 + s.hr + s.hd1 ∧
  -- before any timer of a clearance wait fires there are no stale requests and nobody counted itself
  (s.tmo = 0 → s.tz = 0 → s.sM = 0 ∧ s.sL = 0 ∧ s.te = 0 ∧ s.hk ≠ 2) ∧
  -- the limit, strengthened along the scheduler's program counter
  (s.tmo = 0 → s.tz = 0 → s.spc < 6 → s.c + s.r + s.d1 + s.d2 ≤ s.lim) ∧
  (s.tmo = 0 → s.tz = 0 → s.spc = 2 ∨ s.spc = 3 → s.c + s.r + s.d1 + s.d2 + 1 ≤ s.lim) ∧
  -- no lost wake-up: a scheduler that waits without a token has either seen a full house that is still
  -- full, or a finishing task is about to offer the token
  (s.spc = 5 → s.fin = 0 → s.cD + s.lim ≤ s.cI ∨ 0 < s.d3)

theorem inv_init (lim : Nat) : Inv (init lim) := by
  unfold Inv init; simp

syntax "inv_tac" : tactic
set_option hygiene false in
macro_rules
  | `(tactic| inv_tac) => `(tactic|
      (unfold Inv at *
       simp only [step, addG_sched, addG_sdsched, addG_high, addG_tmo, addG_conclude, addM_run, addM_conclude,
         tmoEnq_counts, tmoWait_counts_not, Bool.not_false, and_true] at hs
       (repeat' split at hs) <;> cases hs <;> (try simp only [space_iff, space_false_iff, Bool.not_eq_true] at *) <;>
         (try dsimp only) <;> grind (splits := 40)))

variable {s s' : St}

theorem inv_submit (p : Prio) (h : Inv s) (hs : step s (.submit p) = some s') : Inv s' := by
  cases p <;> inv_tac
theorem inv_flag (h : Inv s) (hs : step s .flag = some s') : Inv s' := by inv_tac
theorem inv_read (h : Inv s) (hs : step s .read = some s') : Inv s' := by inv_tac
theorem inv_pickOther (h : Inv s) (hs : step s .pickOther = some s') : Inv s' := by inv_tac
theorem inv_take (p : Prio) (b : Bool) (h : Inv s) (hs : step s (.take p b) = some s') : Inv s' := by
  cases p <;> cases b <;> inv_tac
theorem inv_close (h : Inv s) (hs : step s .close = some s') : Inv s' := by inv_tac
theorem inv_count (h : Inv s) (hs : step s .count = some s') : Inv s' := by inv_tac
theorem inv_wakeToken (h : Inv s) (hs : step s .wakeToken = some s') : Inv s' := by inv_tac
theorem inv_wakeTick (h : Inv s) (hs : step s .wakeTick = some s') : Inv s' := by inv_tac
theorem inv_shutdown (h : Inv s) (hs : step s .shutdown = some s') : Inv s' := by inv_tac
theorem inv_tmoEnq (p : Prio) (z : Bool) (h : Inv s) (hs : step s (.tmoEnq p z) = some s') : Inv s' := by
  cases p <;> cases z <;> inv_tac
theorem inv_tmoInc (h : Inv s) (hs : step s .tmoInc = some s') : Inv s' := by inv_tac
theorem inv_tmoWait (p : Prio) (z : Bool) (h : Inv s) (hs : step s (.tmoWait p z) = some s') : Inv s' := by
  cases p <;> cases z <;> inv_tac
theorem inv_tmoHeld (z : Bool) (h : Inv s) (hs : step s (.tmoHeld z) = some s') : Inv s' := by
  cases z <;> inv_tac
theorem inv_tmoLate (z : Bool) (h : Inv s) (hs : step s (.tmoLate z) = some s') : Inv s' := by
  cases z <;> inv_tac
theorem inv_callNil (h : Inv s) (hs : step s .callNil = some s') : Inv s' := by inv_tac
theorem inv_hcall (h : Inv s) (hs : step s .hcall = some s') : Inv s' := by inv_tac
theorem inv_hinc (h : Inv s) (hs : step s .hinc = some s') : Inv s' := by inv_tac
theorem inv_begin (b : Bool) (h : Inv s) (hs : step s (.begin b) = some s') : Inv s' := by
  cases b <;> inv_tac
theorem inv_fnRet (b : Bool) (o : Nat) (h : Inv s) (hs : step s (.fnRet b o) = some s') : Inv s' := by
  cases b <;> inv_tac
theorem inv_modDec (b : Bool) (h : Inv s) (hs : step s (.modDec b) = some s') : Inv s' := by
  cases b <;> inv_tac
theorem inv_dec (b : Bool) (h : Inv s) (hs : step s (.dec b) = some s') : Inv s' := by
  cases b <;> inv_tac
theorem inv_tokSend (h : Inv s) (hs : step s .tokSend = some s') : Inv s' := by inv_tac
theorem inv_tokDrop (h : Inv s) (hs : step s .tokDrop = some s') : Inv s' := by inv_tac
theorem inv_ret (h : Inv s) (hs : step s .ret = some s') : Inv s' := by inv_tac
theorem inv_doneAgain (h : Inv s) (hs : step s .doneAgain = some s') : Inv s' := by inv_tac
theorem inv_stopCheck (h : Inv s) (hs : step s .stopCheck = some s') : Inv s' := by inv_tac

theorem inv_step (a : Act) (h : Inv s) (hs : step s a = some s') : Inv s' := by
  cases a with
  | submit p => exact inv_submit p h hs
  | flag => exact inv_flag h hs
  | read => exact inv_read h hs
  | pickOther => exact inv_pickOther h hs
  | take p b => exact inv_take p b h hs
  | close => exact inv_close h hs
  | count => exact inv_count h hs
  | wakeToken => exact inv_wakeToken h hs
  | wakeTick => exact inv_wakeTick h hs
  | shutdown => exact inv_shutdown h hs
  | tmoEnq p z => exact inv_tmoEnq p z h hs
  | tmoInc => exact inv_tmoInc h hs
  | tmoWait p z => exact inv_tmoWait p z h hs
  | tmoHeld z => exact inv_tmoHeld z h hs
  | tmoLate z => exact inv_tmoLate z h hs
  | callNil => exact inv_callNil h hs
  | hcall => exact inv_hcall h hs
  | hinc => exact inv_hinc h hs
  | «begin» b => exact inv_begin b h hs
  | fnRet b o => exact inv_fnRet b o h hs
  | modDec b => exact inv_modDec b h hs
  | dec b => exact inv_dec b h hs
  | tokSend => exact inv_tokSend h hs
  | tokDrop => exact inv_tokDrop h hs
  | ret => exact inv_ret h hs
  | doneAgain => exact inv_doneAgain h hs
  | stopCheck => exact inv_stopCheck h hs

theorem inv_run (as : List Act) : ∀ {s s' : St}, Inv s → run s as = some s' → Inv s' := by
  induction as with
  | nil => intro s s' h hr; simp [run] at hr; subst hr; exact h
  | cons a as ih =>
    intro s s' h hr
    simp only [run] at hr
    split at hr
    · rename_i s1 hs1
      exact ih (inv_step a h hs1) hr
    · cases hr

end PB.MicroTasks

namespace PB.MicroTasks
open PB.Gen.MicroTasks

/-! ### the individually followed task -/

def DInv (d : DSt) : Prop :=
  d.pc ≤ 11 ∧ d.req ≤ 5 ∧ d.flag ≤ 1 ∧
  -- fn is invoked when the task starts running, never again
  (d.var ≠ 2 → (d.pc < 5 ∨ d.pc = 11 → d.execs = 0) ∧ (5 ≤ d.pc ∧ d.pc ≤ 10 → d.execs = 1)) ∧
  (d.var = 2 → d.execs = 0) ∧
  -- result handed to the caller
  (d.pc = 10 → d.var = 0 → d.res = d.out + 2) ∧
  (d.pc = 11 → d.res = 1 ∧ d.nilm = 1) ∧
  (d.pc ≠ 0 → d.pc ≠ 11 → d.nilm = 0) ∧
  (d.pc < 10 → d.res = 0) ∧
  -- the per-module counter: +1 at begin, −1 at conclude
  (d.pc < 5 ∨ d.pc = 11 → d.mI = 0) ∧ (5 ≤ d.pc ∧ d.pc ≤ 10 → d.mI = 1) ∧
  (d.pc < 7 ∨ d.pc = 11 → d.mD = 0) ∧ (7 ≤ d.pc ∧ d.pc ≤ 10 → d.mD = 1) ∧
  -- the global counter: −1 at conclude
  (d.pc < 8 ∨ d.pc = 11 → d.gD = 0) ∧ (8 ≤ d.pc ∧ d.pc ≤ 10 → d.gD = 1) ∧
  -- the global counter: +1 either by the task itself (high priority, enqueue timeout) or by the scheduler
  (d.cls = 2 → d.req = 0 ∧ (d.pc < 4 ∨ d.pc = 11 → d.gI = 0) ∧ (4 ≤ d.pc ∧ d.pc ≤ 10 → d.gI = 1)) ∧
  (d.cls ≠ 2 → d.pc ≠ 1 ∧
     (d.req = 0 → (d.pc = 0 ∨ d.pc = 11) ∧ d.gI = 0) ∧
     (d.req = 1 ∨ d.req = 2 ∨ d.req = 3 → d.gI = 0) ∧
     (d.req = 4 → d.gI = 1) ∧
     (d.req = 5 → (d.pc = 3 → d.gI = 0) ∧ (d.pc ≠ 3 → d.gI = 1 ∧ 4 ≤ d.pc)) ∧
     (d.req ≠ 0 → 2 ≤ d.pc ∧ d.pc ≤ 10) ∧
     (d.pc = 2 → d.req = 1 ∨ d.req = 2) ∧
     (d.pc = 3 → d.req = 5) ∧
     (d.req = 3 ∨ d.req = 4 → 4 ≤ d.pc)) ∧
  -- the done closure
  (d.var = 2 → (d.flag = 1 → 6 ≤ d.pc ∧ d.pc ≤ 10) ∧ (6 ≤ d.pc ∧ d.pc ≤ 10 → d.flag = 1)) ∧
  (d.var ≠ 2 → d.flag = 0) ∧
  (d.flag = 0 → d.dones = 0) ∧ (d.flag = 1 → 1 ≤ d.dones) ∧
  -- the stop check of the conclusion: after the module decrement, before the global one
  d.chk ≤ 1 ∧ (d.pc < 7 ∨ d.pc = 11 → d.chk = 0) ∧ (8 ≤ d.pc ∧ d.pc ≤ 10 → d.chk = 1) ∧
  -- no timer of the task's clearance wait fires before the documented max delay, except for Signal*(0) calls
  (¬(d.zd = 1 ∧ d.var = 2) → d.ez = 0)

theorem dinv_new (cls var nilm zd : Nat) : DInv (DSt.new cls var nilm zd) := by
  unfold DInv DSt.new; simp

/-- regenerated: `concludeMicroTask` runs the stop check unconditionally between its two decrements -/
theorem concludeChecksStop_true : concludeChecksStop = true := rfl

/-- regenerated: each of the four timers of `get{Medium,Low}PriorityClearance` (enqueue phase, wait phase) is armed
    with the function's `maxDelay` parameter -/
theorem armed_param (ph : Phase) (p : Prio) : armed ph p = Arm.param := by
  cases ph <;> cases p <;> rfl

/-- regenerated: the function's error reaches the caller of the blocking variants unchanged -/
theorem retVal_eq (out : Nat) : retVal out = out + 2 := rfl

theorem zN_true : zN true = 1 := rfl
theorem zN_false : zN false = 0 := rfl

syntax "dinv_tac" : tactic
set_option hygiene false in
macro_rules
  | `(tactic| dinv_tac) => `(tactic|
      (unfold DInv at *
       simp only [dstep, prioCls, if_true, if_false, Bool.false_eq_true, concludeChecksStop_true, true_implies,
         DSt.zOk, DSt.early, armed_param, retVal_eq, ne_eq, not_true_eq_false, or_false, zN_true, zN_false] at hs
       (repeat' split at hs) <;> (try cases hs) <;> (try dsimp only) <;> grind (splits := 90)))

variable {d d' : DSt}

theorem dinv_other (a : Act) (h : DInv d) (hs : dstep d a false = some d') : DInv d' := by
  cases a <;> dinv_tac

theorem dinv_callNil (h : DInv d) (hs : dstep d .callNil true = some d') : DInv d' := by dinv_tac
theorem dinv_submit (p : Prio) (h : DInv d) (hs : dstep d (.submit p) true = some d') : DInv d' := by
  cases p <;> dinv_tac
theorem dinv_hcall (h : DInv d) (hs : dstep d .hcall true = some d') : DInv d' := by dinv_tac
theorem dinv_hinc (h : DInv d) (hs : dstep d .hinc true = some d') : DInv d' := by dinv_tac
theorem dinv_take (p : Prio) (b : Bool) (h : DInv d) (hs : dstep d (.take p b) true = some d') : DInv d' := by
  cases p <;> cases b <;> dinv_tac
theorem dinv_tmoEnq (p : Prio) (z : Bool) (h : DInv d) (hs : dstep d (.tmoEnq p z) true = some d') : DInv d' := by
  cases p <;> cases z <;> dinv_tac
theorem dinv_tmoInc (h : DInv d) (hs : dstep d .tmoInc true = some d') : DInv d' := by dinv_tac
theorem dinv_tmoWait (p : Prio) (z : Bool) (h : DInv d) (hs : dstep d (.tmoWait p z) true = some d') : DInv d' := by
  cases p <;> cases z <;> dinv_tac
theorem dinv_tmoHeld (z : Bool) (h : DInv d) (hs : dstep d (.tmoHeld z) true = some d') : DInv d' := by
  cases z <;> dinv_tac
theorem dinv_tmoLate (z : Bool) (h : DInv d) (hs : dstep d (.tmoLate z) true = some d') : DInv d' := by
  cases z <;> dinv_tac
theorem dinv_begin (b : Bool) (h : DInv d) (hs : dstep d (.begin b) true = some d') : DInv d' := by
  cases b <;> dinv_tac
theorem dinv_fnRet (b : Bool) (o : Nat) (h : DInv d) (hs : dstep d (.fnRet b o) true = some d') : DInv d' := by
  cases b <;> dinv_tac
theorem dinv_modDec (b : Bool) (h : DInv d) (hs : dstep d (.modDec b) true = some d') : DInv d' := by
  cases b <;> dinv_tac
theorem dinv_dec (b : Bool) (h : DInv d) (hs : dstep d (.dec b) true = some d') : DInv d' := by
  cases b <;> dinv_tac
theorem dinv_tokSend (h : DInv d) (hs : dstep d .tokSend true = some d') : DInv d' := by dinv_tac
theorem dinv_tokDrop (h : DInv d) (hs : dstep d .tokDrop true = some d') : DInv d' := by dinv_tac
theorem dinv_ret (h : DInv d) (hs : dstep d .ret true = some d') : DInv d' := by dinv_tac
theorem dinv_doneAgain (h : DInv d) (hs : dstep d .doneAgain true = some d') : DInv d' := by dinv_tac
theorem dinv_stopCheck (h : DInv d) (hs : dstep d .stopCheck true = some d') : DInv d' := by dinv_tac

theorem dinv_me_none (a : Act) (hs : dstep d a true = some d')
    (h1 : a = .flag ∨ a = .read ∨ a = .pickOther ∨ a = .close ∨ a = .count ∨ a = .wakeToken ∨ a = .wakeTick ∨ a = .shutdown) :
    False := by
  rcases h1 with h | h | h | h | h | h | h | h <;> subst h <;> simp [dstep] at hs

theorem dinv_step (a : Act) (me : Bool) (h : DInv d) (hs : dstep d a me = some d') : DInv d' := by
  cases me with
  | false => exact dinv_other a h hs
  | true =>
    cases a with
    | submit p => exact dinv_submit p h hs
    | flag => exact (dinv_me_none _ hs (by simp)).elim
    | read => exact (dinv_me_none _ hs (by simp)).elim
    | pickOther => exact (dinv_me_none _ hs (by simp)).elim
    | take p b => exact dinv_take p b h hs
    | close => exact (dinv_me_none _ hs (by simp)).elim
    | count => exact (dinv_me_none _ hs (by simp)).elim
    | wakeToken => exact (dinv_me_none _ hs (by simp)).elim
    | wakeTick => exact (dinv_me_none _ hs (by simp)).elim
    | shutdown => exact (dinv_me_none _ hs (by simp)).elim
    | tmoEnq p z => exact dinv_tmoEnq p z h hs
    | tmoInc => exact dinv_tmoInc h hs
    | tmoWait p z => exact dinv_tmoWait p z h hs
    | tmoHeld z => exact dinv_tmoHeld z h hs
    | tmoLate z => exact dinv_tmoLate z h hs
    | callNil => exact dinv_callNil h hs
    | hcall => exact dinv_hcall h hs
    | hinc => exact dinv_hinc h hs
    | «begin» b => exact dinv_begin b h hs
    | fnRet b o => exact dinv_fnRet b o h hs
    | modDec b => exact dinv_modDec b h hs
    | dec b => exact dinv_dec b h hs
    | tokSend => exact dinv_tokSend h hs
    | tokDrop => exact dinv_tokDrop h hs
    | ret => exact dinv_ret h hs
    | doneAgain => exact dinv_doneAgain h hs
    | stopCheck => exact dinv_stopCheck h hs

/-- An action of somebody else leaves the followed task alone, except the scheduler's `close` / `count` on the
    task's own request. (This is why the acceptor only has to apply `dstep … false` to the task whose request
    the scheduler holds: for every task of a trace the events form a run of `fstep`.) -/
theorem dstep_other_id (d : DSt) (a : Act) (h1 : ¬(a = .close ∧ d.req = 2)) (h2 : ¬(a = .count ∧ d.req = 3)) :
    dstep d a false = some d := by
  cases a <;> simp_all [dstep]

theorem fstep_some {f f' : FSt} {a : Act} {me : Bool} (h : fstep f a me = some f') :
    step f.g a = some f'.g ∧ dstep f.d a me = some f'.d := by
  unfold fstep at h
  split at h
  · rename_i g' d' hg hd
    cases h
    exact ⟨hg, hd⟩
  · cases h

theorem finv_run (tr : List (Act × Bool)) : ∀ {f f' : FSt}, Inv f.g → DInv f.d → frun f tr = some f' →
    Inv f'.g ∧ DInv f'.d := by
  induction tr with
  | nil => intro f f' h1 h2 hr; simp [frun] at hr; subst hr; exact ⟨h1, h2⟩
  | cons x tr ih =>
    intro f f' h1 h2 hr
    obtain ⟨a, me⟩ := x
    simp only [frun] at hr
    split at hr
    · rename_i f1 hf1
      have := fstep_some hf1
      exact ih (inv_step a h1 this.1) (dinv_step a me h2 this.2) hr
    · cases hr

/-! ### the individually followed module -/

theorem addK_run (m : MSt) : addK m dModRun = { m with kI := m.kI + 1 } := rfl
theorem addK_conclude (m : MSt) : addK m dModConclude = { m with kD := m.kD + 1 } := rfl

theorem stopCheckMicro_iff (c : Int) : stopCheckMicro c = true ↔ c = 0 := by
  unfold stopCheckMicro
  exact decide_eq_true_iff

def MInv (m : MSt) : Prop :=
  m.kI = m.kD + m.run ∧ m.flag ≤ 1 ∧ m.done ≤ 1 ∧ m.st ≤ 2 ∧ m.sp ≤ 3 ∧
  (m.st = 2 ↔ m.sp ≠ 0) ∧ (2 ≤ m.sp → m.flag = 1) ∧ (m.st = 1 → m.flag = 0)

theorem minv_init : MInv MSt.init := by
  unfold MInv MSt.init; simp

theorem minv_step {m m' : MSt} (a : MAct) (h : MInv m) (hs : mstep m a = some m') : MInv m' := by
  unfold MInv at *
  cases a <;>
    simp only [mstep, addK_run, addK_conclude] at hs <;>
    (repeat' split at hs) <;> (try cases hs) <;> (try dsimp only) <;> grind

theorem minv_run (as : List MAct) : ∀ {m m' : MSt}, MInv m → mrun m as = some m' → MInv m' := by
  induction as with
  | nil => intro m m' h hr; simp [mrun] at hr; subst hr; exact h
  | cons a as ih =>
    intro m m' h hr
    simp only [mrun] at hr
    split at hr
    · rename_i m1 hm1
      exact ih (minv_step a h hm1) hr
    · cases hr

/-! ### the task followed together with its module -/

/-- a step of the product is a step of the task's own automaton (or leaves it alone): the module never acts on it -/
theorem tstep_f {t t' : TSt} {a : TAct} (h : tstep t a = some t') :
    t'.f = t.f ∨ ∃ b me, fstep t.f b me = some t'.f := by
  cases a with
  | mod a =>
    simp only [tstep] at h
    split at h
    · cases h; exact Or.inl rfl
    · cases h
  | task b me =>
    right
    refine ⟨b, me, ?_⟩
    simp only [tstep] at h
    split at h
    · cases h
    · rename_i f' hf
      rw [hf]
      (repeat' split at h) <;> cases h <;> rfl

theorem tinv_run (tr : List TAct) : ∀ {t t' : TSt}, Inv t.f.g → DInv t.f.d → trun t tr = some t' →
    Inv t'.f.g ∧ DInv t'.f.d := by
  induction tr with
  | nil => intro t t' h1 h2 hr; simp [trun] at hr; subst hr; exact ⟨h1, h2⟩
  | cons a tr ih =>
    intro t t' h1 h2 hr
    simp only [trun] at hr
    split at hr
    · rename_i t1 ht1
      rcases tstep_f ht1 with he | ⟨b, me, hf⟩
      · exact ih (he ▸ h1) (he ▸ h2) hr
      · have := fstep_some hf
        exact ih (inv_step b h1 this.1) (dinv_step b me h2 this.2) hr
    · cases hr

end PB.MicroTasks
