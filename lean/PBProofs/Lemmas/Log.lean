import PB.Model.Log
import PB.Spec.Log
/-
Helper lemmas for C20 (PB.Model.Log): the invariant of the producer/writer protocol and its
preservation by every action.
-/
namespace PB.Log

/-! ### Pure facts -/

theorem equal_eq {a b : Line} (h : a.equal b = true) : a = b := by
  unfold Line.equal at h
  cases a with | mk am al as at_ =>
  cases b with | mk bm bl bs bt =>
  simp only at h
  split at h
  · cases h
  · split at h
    · cases h
    · split at h
      · cases h
      · split at h
        · cases h
        · cases at_ <;> cases bt <;> simp_all

theorem equal_self_of_plain (a : Line) (h : a.trace = none) : a.equal a = true := by
  unfold Line.equal; simp [h]

theorem expand_append (a b : List Write) : expand (a ++ b) = expand a ++ expand b := by
  induction a with
  | nil => rfl
  | cons x xs ih => cases x; simp [expand, ih]

theorem expand_single (l : Line) (d : Nat) : expand [(l, d)] = List.replicate (d + 1) l := by
  simp [expand]

theorem proj_append (p : Nat) (a b : List Owned) : proj p (a ++ b) = proj p a ++ proj p b := by
  simp [proj]

theorem proj_single_self (p : Nat) (l : Line) : proj p [(p, l)] = [l] := by simp [proj]

theorem proj_single_other {p q : Nat} (l : Line) (h : q ≠ p) : proj p [(q, l)] = [] := by
  simp [proj, h]

/-! ### The writeLoop merges, never loses -/

/-- Generalised merge/expand law for a writeLoop that starts in any state of the loop. -/
theorem drainBatch_expand (ls : List Line) : ∀ (cur : Option Line) (dups : Nat), (cur = none → dups = 0) →
    let r := drainBatch { pc := .drain, cur := cur, dups := dups } ls
    expand r.2 ++ r.1.pending = ({ pc := .drain, cur := cur, dups := dups } : Writer).pending ++ ls ∧
    r.1.pc = .drain ∧ (r.1.cur = none → r.1.dups = 0) := by
  induction ls with
  | nil => intro cur dups hz; simp [drainBatch, expand]; exact hz
  | cons l ls ih =>
    intro cur dups hz
    cases cur with
    | none =>
      have hd : dups = 0 := hz rfl
      subst hd
      have := ih (some l) 0 (by simp)
      simp only [drainBatch, wstep, if_true] at this ⊢
      obtain ⟨a, b, c⟩ := this
      refine ⟨?_, b, c⟩
      simp [expand] at a ⊢
      rw [a]; simp [Writer.pending]
    | some c =>
      by_cases he : l.equal c = true
      · have hlc := equal_eq he
        have := ih (some c) (dups + 1) (by simp)
        simp only [drainBatch, wstep, if_true, he] at this ⊢
        obtain ⟨a, b, c'⟩ := this
        refine ⟨?_, b, c'⟩
        simp [expand] at a ⊢
        rw [a]; subst hlc; simp only [Writer.pending]; rw [List.replicate_succ' (n := dups + 1)]; simp
      · have := ih (some l) 0 (by simp)
        simp only [drainBatch, wstep, if_true, he] at this ⊢
        obtain ⟨a, b, c'⟩ := this
        refine ⟨?_, b, c'⟩
        simp [expand_append, expand] at a ⊢
        rw [a]; simp [Writer.pending]

/-! ### The protocol invariant

* `d1 d2 p1 cp`: data — what was dequeued plus what is buffered is what was enqueued; the adapter output,
  expanded, plus what the writer still holds is what was dequeued; per goroutine, what it enqueued plus
  what it still holds is what it logged (in program order); the buffer respects its capacity.
* `f1`–`f5`: the wake-up handshake — `logsWaitingFlag` is set exactly while one wake-up is in flight
  (a producer about to send the token, the token in the channel, or the writer about to clear the flag).
* `nl`: no lost wake-up. `wc wz`: the writer holds a line only inside the writeLoop.
* `sh es sd`: shutdown bookkeeping.
-/
structure Inv (s : St) : Prop where
  d1 : s.deq ++ s.buf = s.enq
  d2 : expand s.out ++ s.w.pending = s.deq.map (·.2)
  p1 : ∀ p, proj p s.enq ++ (s.prods p).pending = s.logged p
  cp : s.buf.length ≤ s.cap
  f1 : s.flag = false → s.token = false ∧ s.w.pc ≠ .gotToken ∧ ∀ p, s.prods p ≠ .won
  f2 : s.token = true → s.w.pc ≠ .gotToken ∧ ∀ p, s.prods p ≠ .won
  f3 : s.w.pc = .gotToken → ∀ p, s.prods p ≠ .won
  f4 : ∀ p q, s.prods p = .won → s.prods q = .won → p = q
  f5 : s.flag = true → s.token = true ∨ s.w.pc = .gotToken ∨ ∃ p, s.prods p = .won
  nl : (s.w.pc = .waitLogs ∨ s.w.pc = .backoff) → s.buf ≠ [] → s.flag = true ∨ ∃ p, s.prods p = .sent
  wc : s.w.pc ≠ .drain → s.w.cur = none
  wz : s.w.cur = none → s.w.dups = 0
  sh : (s.w.pc = .fin ∨ s.w.pc = .done) → s.shut = true
  es : s.shut = true → s.enqAtShut ≤ s.enq.length
  sd : s.w.pc = .done → s.enqAtShut ≤ s.deq.length

theorem inv_init (cap paced lv) : Inv (St.init cap paced lv) := by
  constructor <;> simp [St.init, Writer.init, Writer.pending, expand, proj, PState.pending]


macro "inv_open" hs:ident : tactic => `(tactic| (
  simp only [step, St.accept, St.push] at $hs:ident
  (repeat' split at $hs:ident) <;> (try cases $hs:ident) <;> (try simp only [])))


theorem proj_single (p q : Nat) (l : Line) : proj p [(q, l)] = if q = p then [l] else [] := by
  by_cases h : q = p <;> simp [proj, h]

theorem inv_p_call {s s' : St} {pid l pkg pass} (hi : Inv s) (hs : step s (.p pid (.call l pkg pass)) = some s') : Inv s' := by
  inv_open hs
  all_goals (obtain ⟨d1,d2,p1,cp,f1,f2,f3,f4,f5,nl,wc,wz,sh,es,sd⟩ := hi; constructor <;> (try simp only [upd]))
  all_goals grind [PState.pending, Writer.pending, expand_append, proj_append, expand_single, equal_eq, List.replicate_succ', proj_single]

theorem inv_p_filter {s s' : St} {pid pass} (hi : Inv s) (hs : step s (.p pid (.filter pass)) = some s') : Inv s' := by
  inv_open hs
  all_goals (obtain ⟨d1,d2,p1,cp,f1,f2,f3,f4,f5,nl,wc,wz,sh,es,sd⟩ := hi; constructor <;> (try simp only [upd]))
  all_goals grind [PState.pending, Writer.pending, expand_append, proj_append, expand_single, equal_eq, List.replicate_succ', proj_single]

theorem inv_p_submit {s s' : St} {pid l} (hi : Inv s) (hs : step s (.p pid (.submit l)) = some s') : Inv s' := by
  inv_open hs
  all_goals (obtain ⟨d1,d2,p1,cp,f1,f2,f3,f4,f5,nl,wc,wz,sh,es,sd⟩ := hi; constructor <;> (try simp only [upd]))
  all_goals grind [PState.pending, Writer.pending, expand_append, proj_append, expand_single, equal_eq, List.replicate_succ', proj_single]

theorem inv_p_enq {s s' : St} {pid} (hi : Inv s) (hs : step s (.p pid .enq) = some s') : Inv s' := by
  inv_open hs
  all_goals (obtain ⟨d1,d2,p1,cp,f1,f2,f3,f4,f5,nl,wc,wz,sh,es,sd⟩ := hi; constructor <;> (try simp only [upd]))
  all_goals grind [PState.pending, Writer.pending, expand_append, proj_append, expand_single, equal_eq, List.replicate_succ', proj_single]

theorem inv_p_full {s s' : St} {pid} (hi : Inv s) (hs : step s (.p pid .full) = some s') : Inv s' := by
  inv_open hs
  all_goals (obtain ⟨d1,d2,p1,cp,f1,f2,f3,f4,f5,nl,wc,wz,sh,es,sd⟩ := hi; constructor <;> (try simp only [upd]))
  all_goals grind [PState.pending, Writer.pending, expand_append, proj_append, expand_single, equal_eq, List.replicate_succ', proj_single]

theorem inv_p_enqB {s s' : St} {pid} (hi : Inv s) (hs : step s (.p pid .enqB) = some s') : Inv s' := by
  inv_open hs
  all_goals (obtain ⟨d1,d2,p1,cp,f1,f2,f3,f4,f5,nl,wc,wz,sh,es,sd⟩ := hi; constructor <;> (try simp only [upd]))
  all_goals grind [PState.pending, Writer.pending, expand_append, proj_append, expand_single, equal_eq, List.replicate_succ', proj_single]

theorem inv_p_flag {s s' : St} {pid won} (hi : Inv s) (hs : step s (.p pid (.flag won)) = some s') : Inv s' := by
  inv_open hs
  all_goals (obtain ⟨d1,d2,p1,cp,f1,f2,f3,f4,f5,nl,wc,wz,sh,es,sd⟩ := hi; constructor <;> (try simp only [upd]))
  all_goals grind [PState.pending, Writer.pending, expand_append, proj_append, expand_single, equal_eq, List.replicate_succ', proj_single]

theorem inv_p_tok {s s' : St} {pid} (hi : Inv s) (hs : step s (.p pid .tok) = some s') : Inv s' := by
  inv_open hs
  all_goals (obtain ⟨d1,d2,p1,cp,f1,f2,f3,f4,f5,nl,wc,wz,sh,es,sd⟩ := hi; constructor <;> (try simp only [upd]))
  all_goals grind [PState.pending, Writer.pending, expand_append, proj_append, expand_single, equal_eq, List.replicate_succ', proj_single]

theorem inv_p_tokFull {s s' : St} {pid} (hi : Inv s) (hs : step s (.p pid .tokFull) = some s') : Inv s' := by
  inv_open hs
  all_goals (obtain ⟨d1,d2,p1,cp,f1,f2,f3,f4,f5,nl,wc,wz,sh,es,sd⟩ := hi; constructor <;> (try simp only [upd]))
  all_goals grind [PState.pending, Writer.pending, expand_append, proj_append, expand_single, equal_eq, List.replicate_succ', proj_single]

theorem inv_w_token {s s' : St} (hi : Inv s) (hs : step s (.w .token) = some s') : Inv s' := by
  inv_open hs
  all_goals (obtain ⟨d1,d2,p1,cp,f1,f2,f3,f4,f5,nl,wc,wz,sh,es,sd⟩ := hi; constructor <;> (try simp only [upd]))
  all_goals grind [PState.pending, Writer.pending, expand_append, proj_append, expand_single, equal_eq, List.replicate_succ', proj_single]

theorem inv_w_unset {s s' : St} (hi : Inv s) (hs : step s (.w .unset) = some s') : Inv s' := by
  inv_open hs
  all_goals (obtain ⟨d1,d2,p1,cp,f1,f2,f3,f4,f5,nl,wc,wz,sh,es,sd⟩ := hi; constructor <;> (try simp only [upd]))
  all_goals grind [PState.pending, Writer.pending, expand_append, proj_append, expand_single, equal_eq, List.replicate_succ', proj_single]

theorem inv_wforce {s s' : St} {pid} (hi : Inv s) (hs : step s (.wforce pid) = some s') : Inv s' := by
  inv_open hs
  all_goals (obtain ⟨d1,d2,p1,cp,f1,f2,f3,f4,f5,nl,wc,wz,sh,es,sd⟩ := hi; constructor <;> (try simp only [upd]))
  all_goals grind [PState.pending, Writer.pending, expand_append, proj_append, expand_single, equal_eq, List.replicate_succ', proj_single]

theorem inv_w_slot {s s' : St} (hi : Inv s) (hs : step s (.w .slot) = some s') : Inv s' := by
  inv_open hs
  all_goals (obtain ⟨d1,d2,p1,cp,f1,f2,f3,f4,f5,nl,wc,wz,sh,es,sd⟩ := hi; constructor <;> (try simp only [upd]))
  all_goals grind [PState.pending, Writer.pending, expand_append, proj_append, expand_single, equal_eq, List.replicate_succ', proj_single]

theorem inv_trigger {s s' : St} (hi : Inv s) (hs : step s .trigger = some s') : Inv s' := by
  inv_open hs
  all_goals (obtain ⟨d1,d2,p1,cp,f1,f2,f3,f4,f5,nl,wc,wz,sh,es,sd⟩ := hi; constructor <;> (try simp only [upd]))
  all_goals grind [PState.pending, Writer.pending, expand_append, proj_append, expand_single, equal_eq, List.replicate_succ', proj_single]

theorem inv_w_shut {s s' : St} (hi : Inv s) (hs : step s (.w .shut) = some s') : Inv s' := by
  inv_open hs
  all_goals (obtain ⟨d1,d2,p1,cp,f1,f2,f3,f4,f5,nl,wc,wz,sh,es,sd⟩ := hi; constructor <;> (try simp only [upd]))
  all_goals grind [PState.pending, Writer.pending, expand_append, proj_append, expand_single, equal_eq, List.replicate_succ', proj_single]

theorem inv_w_deq {s s' : St} {l} (hi : Inv s) (hs : step s (.w (.deq l)) = some s') : Inv s' := by
  inv_open hs
  all_goals (obtain ⟨d1,d2,p1,cp,f1,f2,f3,f4,f5,nl,wc,wz,sh,es,sd⟩ := hi; constructor <;> (try simp only [upd]))
  all_goals grind [PState.pending, Writer.pending, expand_append, proj_append, expand_single, equal_eq, List.replicate_succ', proj_single]

theorem inv_w_empty {s s' : St} (hi : Inv s) (hs : step s (.w .empty) = some s') : Inv s' := by
  inv_open hs
  all_goals (obtain ⟨d1,d2,p1,cp,f1,f2,f3,f4,f5,nl,wc,wz,sh,es,sd⟩ := hi; constructor <;> (try simp only [upd]))
  all_goals grind [PState.pending, Writer.pending, expand_append, proj_append, expand_single, equal_eq, List.replicate_succ', proj_single]

theorem inv_w_timer {s s' : St} (hi : Inv s) (hs : step s (.w .timer) = some s') : Inv s' := by
  inv_open hs
  all_goals (obtain ⟨d1,d2,p1,cp,f1,f2,f3,f4,f5,nl,wc,wz,sh,es,sd⟩ := hi; constructor <;> (try simp only [upd]))
  all_goals grind [PState.pending, Writer.pending, expand_append, proj_append, expand_single, equal_eq, List.replicate_succ', proj_single]

theorem inv_w_fdeq {s s' : St} {l} (hi : Inv s) (hs : step s (.w (.fdeq l)) = some s') : Inv s' := by
  inv_open hs
  all_goals (obtain ⟨d1,d2,p1,cp,f1,f2,f3,f4,f5,nl,wc,wz,sh,es,sd⟩ := hi; constructor <;> (try simp only [upd]))
  all_goals grind [PState.pending, Writer.pending, expand_append, proj_append, expand_single, equal_eq, List.replicate_succ', proj_single]

theorem inv_w_ftimeout {s s' : St} (hi : Inv s) (hs : step s (.w .ftimeout) = some s') : Inv s' := by
  inv_open hs
  all_goals (obtain ⟨d1,d2,p1,cp,f1,f2,f3,f4,f5,nl,wc,wz,sh,es,sd⟩ := hi; constructor <;> (try simp only [upd]))
  all_goals grind [PState.pending, Writer.pending, expand_append, proj_append, expand_single, equal_eq, List.replicate_succ', proj_single]

theorem inv_setLevel {s s' : St} {g} (hi : Inv s) (hs : step s (.setLevel g) = some s') : Inv s' := by
  inv_open hs
  all_goals (obtain ⟨d1,d2,p1,cp,f1,f2,f3,f4,f5,nl,wc,wz,sh,es,sd⟩ := hi; constructor <;> (try simp only [upd]))
  all_goals grind [PState.pending, Writer.pending, expand_append, proj_append, expand_single, equal_eq, List.replicate_succ', proj_single]

theorem inv_setPkgs {s s' : St} {m} (hi : Inv s) (hs : step s (.setPkgs m) = some s') : Inv s' := by
  inv_open hs
  all_goals (obtain ⟨d1,d2,p1,cp,f1,f2,f3,f4,f5,nl,wc,wz,sh,es,sd⟩ := hi; constructor <;> (try simp only [upd]))
  all_goals grind [PState.pending, Writer.pending, expand_append, proj_append, expand_single, equal_eq, List.replicate_succ', proj_single]

theorem inv_unsetPkgs {s s' : St} (hi : Inv s) (hs : step s .unsetPkgs = some s') : Inv s' := by
  inv_open hs
  all_goals (obtain ⟨d1,d2,p1,cp,f1,f2,f3,f4,f5,nl,wc,wz,sh,es,sd⟩ := hi; constructor <;> (try simp only [upd]))
  all_goals grind [PState.pending, Writer.pending, expand_append, proj_append, expand_single, equal_eq, List.replicate_succ', proj_single]

theorem inv_shutdown {s s' : St} (hi : Inv s) (hs : step s .shutdown = some s') : Inv s' := by
  inv_open hs
  all_goals (obtain ⟨d1,d2,p1,cp,f1,f2,f3,f4,f5,nl,wc,wz,sh,es,sd⟩ := hi; constructor <;> (try simp only [upd]))
  all_goals grind [PState.pending, Writer.pending, expand_append, proj_append, expand_single, equal_eq, List.replicate_succ', proj_single]


theorem inv_step {s s' : St} {a : Act} (hi : Inv s) (hs : step s a = some s') : Inv s' := by
  cases a with
  | p pid e =>
    cases e with
    | call l pkg pass => exact inv_p_call hi hs
    | filter pass => exact inv_p_filter hi hs
    | submit l => exact inv_p_submit hi hs
    | enq => exact inv_p_enq hi hs
    | full => exact inv_p_full hi hs
    | forced => simp [step] at hs
    | enqB => exact inv_p_enqB hi hs
    | flag won => exact inv_p_flag hi hs
    | tok => exact inv_p_tok hi hs
    | tokFull => exact inv_p_tokFull hi hs
  | w e =>
    cases e with
    | token => exact inv_w_token hi hs
    | unset => exact inv_w_unset hi hs
    | force => simp [step] at hs
    | slot => exact inv_w_slot hi hs
    | shut => exact inv_w_shut hi hs
    | deq l => exact inv_w_deq hi hs
    | empty => exact inv_w_empty hi hs
    | timer => exact inv_w_timer hi hs
    | fdeq l => exact inv_w_fdeq hi hs
    | ftimeout => exact inv_w_ftimeout hi hs
  | wforce pid => exact inv_wforce hi hs
  | trigger => exact inv_trigger hi hs
  | setLevel g => exact inv_setLevel hi hs
  | setPkgs m => exact inv_setPkgs hi hs
  | unsetPkgs => exact inv_unsetPkgs hi hs
  | shutdown => exact inv_shutdown hi hs

theorem inv_reachable {s : St} (h : Reachable s) : Inv s := by
  induction h with
  | init cap paced lv => exact inv_init cap paced lv
  | step _ hs ih => exact inv_step ih hs

/-! ### The run checker against its specification -/

theorem takeItem_prefix (item : Nat) (got : List Got) :
    got = takeItem item got ++ got.drop (takeItem item got).length ∧ ∀ g ∈ takeItem item got, g.item = item := by
  induction got with
  | nil => simp [takeItem]
  | cons g gs ih =>
    unfold takeItem
    by_cases h : g.item = item
    · simp only [h, if_true]
      refine ⟨by simpa using ih.1, ?_⟩
      intro x hx
      rcases List.mem_cons.mp hx with rfl | hx
      · exact h
      · exact ih.2 x hx
    · simp [h]

theorem checkProd_sound (gid : Nat) (es : List Item) : ∀ got, checkProd gid es got = .pass → Conforms es got := by
  induction es with
  | nil =>
    intro got h
    cases got with
    | nil => exact .nil
    | cons g gs => simp [checkProd] at h
  | cons e es ih =>
    intro got h
    unfold checkProd at h
    simp only [] at h
    split at h
    · cases h
    · rename_i hform
      split at h
      · cases h
      · rename_i hlo
        split at h
        · cases h
        · rename_i hhi
          have hp := takeItem_prefix e.item got
          rw [hp.1]
          refine .cons ?_ (by omega) (by omega) (ih _ h)
          intro g hg
          refine ⟨hp.2 g hg, ?_⟩
          simp only [Classical.not_not, List.all_eq_true] at hform
          exact hform g hg

theorem takeItem_block (item : Nat) (blk rest : List Got) (hb : ∀ g ∈ blk, g.item = item)
    (hr : ∀ g r, rest = g :: r → g.item ≠ item) : takeItem item (blk ++ rest) = blk := by
  induction blk with
  | nil =>
    cases rest with
    | nil => rfl
    | cons g r => simp [takeItem, hr g r rfl]
  | cons b bs ih =>
    simp only [List.cons_append, takeItem, hb b (List.mem_cons_self), if_true]
    rw [ih (fun g hg => hb g (List.mem_cons_of_mem _ hg))]

theorem conforms_head {es : List Item} {got : List Got} (h : Conforms es got) :
    ∀ g r, got = g :: r → g.item ∈ es.map (·.item) := by
  induction h with
  | nil => intro g r h; cases h
  | @cons e es blk rest hb _ _ _ ih =>
    intro g r hg
    cases blk with
    | nil =>
      simp only [List.nil_append] at hg
      exact List.mem_cons_of_mem _ (ih g r hg)
    | cons b bs =>
      simp only [List.cons_append, List.cons.injEq] at hg
      have := (hb b List.mem_cons_self).1
      rw [← hg.1, this]; simp

theorem checkProd_complete (gid : Nat) {es : List Item} {got : List Got} (h : Conforms es got)
    (hd : (es.map (·.item)).Nodup) : checkProd gid es got = .pass := by
  induction h with
  | nil => rfl
  | @cons e es blk rest hb hlo hhi hc ih =>
    simp only [List.map_cons, List.nodup_cons] at hd
    have ht : takeItem e.item (blk ++ rest) = blk :=
      takeItem_block e.item blk rest (fun g hg => (hb g hg).1) (by
        intro g r hg heq
        have := conforms_head hc g r hg
        rw [heq] at this
        exact hd.1 this)
    unfold checkProd
    simp only [ht]
    have hall : blk.all e.formOk = true := by
      rw [List.all_eq_true]; intro g hg; exact (hb g hg).2
    simp only [hall, not_true_eq_false, if_false]
    rw [if_neg (by omega), if_neg (by omega)]
    simpa using ih hd.2

theorem checkProds_sound (outs : List OutW) (exps : Nat → List Item) :
    ∀ n gid, checkProds outs exps gid n = .pass → ∀ g, gid ≤ g → g < gid + n → Conforms (exps g) (expandOut g outs) := by
  intro n
  induction n with
  | zero => intro gid _ g h1 h2; omega
  | succ n ih =>
    intro gid h g h1 h2
    unfold checkProds at h
    cases hp : checkProd gid (exps gid) (expandOut gid outs) with
    | pass =>
      rw [hp] at h
      by_cases hg : g = gid
      · subst hg; exact checkProd_sound _ _ _ hp
      · exact ih (gid + 1) h g (by omega) (by omega)
    | fail c a b => rw [hp] at h; cases h

theorem checkRun_sound (np : Nat) (exps : Nat → List Item) (outs : List OutW) (h : checkRun np exps outs = .pass) :
    (∀ o ∈ outs, o.gid < np) ∧ (∀ o ∈ outs, o.entries.isSome → o.dups = 0) ∧
      ∀ g, g < np → Conforms (exps g) (expandOut g outs) := by
  unfold checkRun at h
  split at h
  · cases h
  · rename_i hnone
    split at h
    · cases h
    · rename_i hnone2
      refine ⟨?_, ?_, fun g hg => checkProds_sound outs exps np 0 h g (by omega) (by omega)⟩
      · intro o ho
        have := List.find?_eq_none.mp hnone o ho
        simpa using this
      · intro o ho hs
        have := List.find?_eq_none.mp hnone2 o ho
        simp [OutW.mergedTracer, hs] at this
        exact this

/-! ### Liveness: the writer alone can drain the buffer -/

theorem reachable_run {s : St} (h : Reachable s) : ∀ {as s'}, run s as = some s' → Reachable s' := by
  intro as
  induction as generalizing s with
  | nil => intro s' hr; simp [run] at hr; subst hr; exact h
  | cons a as ih =>
    intro s' hr
    simp only [run] at hr
    split at hr
    · cases hr
    · rename_i s1 hs1
      exact ih (Reachable.step h hs1) hr

/-- Writer moves touch neither the producers nor the enqueue history nor the configuration. -/
theorem w_frame {s s' : St} {e : WEv} (hs : step s (.w e) = some s') :
    s'.enq = s.enq ∧ s'.prods = s.prods ∧ s'.paced = s.paced := by
  cases e <;> simp only [step] at hs <;> (repeat' split at hs) <;> (try cases hs) <;> simp_all

/-- From here the writer alone (no producer step, no shutdown needed) can empty the buffer. -/
def CanDrain (s : St) : Prop :=
  ∃ as s', (∀ a ∈ as, ∃ e, a = Act.w e) ∧ run s as = some s' ∧ s'.buf = [] ∧ s'.w.cur = none ∧ s'.enq = s.enq

theorem canDrain_now {s : St} (hb : s.buf = []) (hc : s.w.cur = none) : CanDrain s :=
  ⟨[], s, by simp, rfl, hb, hc, rfl⟩

theorem canDrain_step {s s1 : St} {e : WEv} (hs : step s (.w e) = some s1) (h : CanDrain s1) : CanDrain s := by
  obtain ⟨as, s', hw, hr, hb, hc, he⟩ := h
  refine ⟨.w e :: as, s', ?_, ?_, hb, hc, ?_⟩
  · intro a ha
    rcases List.mem_cons.mp ha with rfl | ha
    · exact ⟨e, rfl⟩
    · exact hw a ha
  · simp [run, hs, hr]
  · rw [he, (w_frame hs).1]

theorem canDrain_drain : ∀ (n : Nat) (s : St), s.buf.length = n → s.w.pc = .drain → CanDrain s := by
  intro n
  induction n with
  | zero =>
    intro s hn hp
    have hb : s.buf = [] := List.length_eq_zero_iff.mp hn
    cases hc : s.w.cur with
    | none =>
      have hs : step s (.w .empty) = some { s with w := { pc := .backoff, cur := none, dups := 0 } } := by
        simp [step, hb, hp, hc]
      exact canDrain_step hs (canDrain_now hb rfl)
    | some c =>
      have hs : step s (.w .empty) = some { s with w := { pc := .backoff, cur := none, dups := 0 }, out := s.out ++ [(c, s.w.dups)] } := by
        simp [step, hb, hp, hc]
      exact canDrain_step hs (canDrain_now hb rfl)
  | succ n ih =>
    intro s hn hp
    match hbuf : s.buf with
    | [] => simp [hbuf] at hn
    | (o, x) :: rest =>
      have hlen : rest.length = n := by simp [hbuf] at hn; exact hn
      have : ∃ s1, step s (.w (.deq x)) = some s1 ∧ s1.buf = rest ∧ s1.w.pc = .drain := by
        simp only [step, hbuf, hp, and_self, if_true]
        cases hc : s.w.cur with
        | none => exact ⟨_, rfl, rfl, rfl⟩
        | some c =>
          by_cases he : x.equal c = true
          · simp only [he, if_true]; exact ⟨_, rfl, rfl, rfl⟩
          · simp only [he]; exact ⟨_, rfl, rfl, rfl⟩
      obtain ⟨s1, hs1, hb1, hp1⟩ := this
      exact canDrain_step hs1 (ih s1 (by rw [hb1]; exact hlen) hp1)

theorem canDrain_fin : ∀ (n : Nat) (s : St), s.buf.length = n → s.w.pc = .fin → s.w.cur = none → CanDrain s := by
  intro n
  induction n with
  | zero =>
    intro s hn _ hc
    exact canDrain_now (List.length_eq_zero_iff.mp hn) hc
  | succ n ih =>
    intro s hn hp hc
    match hbuf : s.buf with
    | [] => simp [hbuf] at hn
    | (o, x) :: rest =>
      have hlen : rest.length = n := by simp [hbuf] at hn; exact hn
      have hs : step s (.w (.fdeq x)) = some { s with buf := rest, deq := s.deq ++ [(o, x)], out := s.out ++ [(x, 0)] } := by
        simp [step, hbuf, hp]
      exact canDrain_step hs (ih _ (by simpa using hlen) (by simpa using hp) (by simpa using hc))

theorem canDrain_slot {s : St} (hp : s.paced = false) (hw : s.w.pc = .waitSlot) : CanDrain s := by
  have hs : step s (.w .slot) = some { s with w := { s.w with pc := .drain } } := by simp [step, hp, hw]
  exact canDrain_step hs (canDrain_drain _ _ rfl rfl)

theorem canDrain_got {s : St} (hp : s.paced = false) (hw : s.w.pc = .gotToken) : CanDrain s := by
  have hs : step s (.w .unset) = some { s with flag := false, w := { s.w with pc := .waitSlot } } := by
    simp [step, hw]
  exact canDrain_step hs (canDrain_slot (by simpa using hp) rfl)

theorem canDrain_waitLogs {s : St} (h : Reachable s) (hp : s.paced = false) (hq : ∀ p, s.prods p = .idle)
    (hw : s.w.pc = .waitLogs) : CanDrain s := by
  have hi := inv_reachable h
  by_cases hb : s.buf = []
  · exact canDrain_now hb (hi.wc (by rw [hw]; simp))
  · have ht : s.token = true := by
      rcases hi.nl (Or.inl hw) hb with hf | ⟨p, hps⟩
      · rcases hi.f5 hf with ht | hg | ⟨p, hpw⟩
        · exact ht
        · rw [hw] at hg; cases hg
        · rw [hq p] at hpw; cases hpw
      · rw [hq p] at hps; cases hps
    have hs : step s (.w .token) = some { s with token := false, w := { s.w with pc := .gotToken } } := by
      simp [step, ht, hw]
    exact canDrain_step hs (canDrain_got (by simpa using hp) rfl)

/-- Delivery does not depend on Shutdown: in every reachable state of a free-running logger in which no
    goroutine is inside a log call and the writer has not exited, the writer's own steps lead to a state
    where the buffer is empty, the writer holds nothing, and (hence) everything enqueued has been handed
    to the adapter. -/
theorem canDrain_of_reachable {s : St} (h : Reachable s) (hp : s.paced = false) (hq : ∀ p, s.prods p = .idle)
    (hd : s.w.pc ≠ .done) : CanDrain s := by
  have hi := inv_reachable h
  cases hw : s.w.pc with
  | waitLogs => exact canDrain_waitLogs h hp hq hw
  | gotToken => exact canDrain_got hp hw
  | waitSlot => exact canDrain_slot hp hw
  | drain => exact canDrain_drain _ _ rfl hw
  | backoff =>
    by_cases hb : s.buf = []
    · exact canDrain_now hb (hi.wc (by rw [hw]; simp))
    · have hs : step s (.w .timer) = some { s with w := { s.w with pc := .waitLogs } } := by simp [step, hw]
      exact canDrain_step hs (canDrain_waitLogs (Reachable.step h hs) (by simpa using hp) (by simpa using hq) rfl)
  | fin => exact canDrain_fin _ _ rfl hw (hi.wc (by rw [hw]; simp))
  | done => exact absurd hw hd


end PB.Log
