import PB.Model.Log
/-
Helper lemmas for C20 (PB.Model.Log): the invariant of the producer/writer protocol and its
preservation by every action.
-/
namespace PB.Log

/-! ### Pure facts -/

theorem equal_eq {a b : Line} (h : a.equal b = true) : a = b := by
  unfold Line.equal at h
  cases a with | mk am al as at_ =>
  cases b with | mk bm bl bs bt =>
  simp only at h
  split at h
  · cases h
  · split at h
    · cases h
    · split at h
      · cases h
      · split at h
        · cases h
        · cases at_ <;> cases bt <;> simp_all

theorem equal_self_of_plain (a : Line) (h : a.trace = none) : a.equal a = true := by
  unfold Line.equal; simp [h]

theorem expand_append (a b : List Write) : expand (a ++ b) = expand a ++ expand b := by
  induction a with
  | nil => rfl
  | cons x xs ih => cases x; simp [expand, ih]

theorem expand_single (l : Line) (d : Nat) : expand [(l, d)] = List.replicate (d + 1) l := by
  simp [expand]

theorem proj_append (p : Nat) (a b : List Owned) : proj p (a ++ b) = proj p a ++ proj p b := by
  simp [proj]

theorem proj_single_self (p : Nat) (l : Line) : proj p [(p, l)] = [l] := by simp [proj]

theorem proj_single_other {p q : Nat} (l : Line) (h : q ≠ p) : proj p [(q, l)] = [] := by
  simp [proj, h]

/-! ### The writeLoop merges, never loses -/

/-- Generalised merge/expand law for a writeLoop that starts in any state of the loop. -/
theorem drainBatch_expand (ls : List Line) : ∀ (cur : Option Line) (dups : Nat), (cur = none → dups = 0) →
    let r := drainBatch { pc := .drain, cur := cur, dups := dups } ls
    expand r.2 ++ r.1.pending = ({ pc := .drain, cur := cur, dups := dups } : Writer).pending ++ ls ∧
    r.1.pc = .drain ∧ (r.1.cur = none → r.1.dups = 0) := by
  induction ls with
  | nil => intro cur dups hz; simp [drainBatch, expand]; exact hz
  | cons l ls ih =>
    intro cur dups hz
    cases cur with
    | none =>
      have hd : dups = 0 := hz rfl
      subst hd
      have := ih (some l) 0 (by simp)
      simp only [drainBatch, wstep, if_true] at this ⊢
      obtain ⟨a, b, c⟩ := this
      refine ⟨?_, b, c⟩
      simp [expand] at a ⊢
      rw [a]; simp [Writer.pending]
    | some c =>
      by_cases he : l.equal c = true
      · have hlc := equal_eq he
        have := ih (some c) (dups + 1) (by simp)
        simp only [drainBatch, wstep, if_true, he] at this ⊢
        obtain ⟨a, b, c'⟩ := this
        refine ⟨?_, b, c'⟩
        simp [expand] at a ⊢
        rw [a]; subst hlc; simp only [Writer.pending]; rw [List.replicate_succ' (n := dups + 1)]; simp
      · have := ih (some l) 0 (by simp)
        simp only [drainBatch, wstep, if_true, he] at this ⊢
        obtain ⟨a, b, c'⟩ := this
        refine ⟨?_, b, c'⟩
        simp [expand_append, expand] at a ⊢
        rw [a]; simp [Writer.pending]

/-! ### The protocol invariant

* `d1 d2 p1 cp`: data — what was dequeued plus what is buffered is what was enqueued; the adapter output,
  expanded, plus what the writer still holds is what was dequeued; per goroutine, what it enqueued plus
  what it still holds is what it logged (in program order); the buffer respects its capacity.
* `f1`–`f5`: the wake-up handshake — `logsWaitingFlag` is set exactly while one wake-up is in flight
  (a producer about to send the token, the token in the channel, or the writer about to clear the flag).
* `nl`: no lost wake-up. `wc wz`: the writer holds a line only inside the writeLoop.
* `sh es sd`: shutdown bookkeeping.
-/
structure Inv (s : St) : Prop where
  d1 : s.deq ++ s.buf = s.enq
  d2 : expand s.out ++ s.w.pending = s.deq.map (·.2)
  p1 : ∀ p, proj p s.enq ++ (s.prods p).pending = s.logged p
  cp : s.buf.length ≤ s.cap
  f1 : s.flag = false → s.token = false ∧ s.w.pc ≠ .gotToken ∧ ∀ p, s.prods p ≠ .won
  f2 : s.token = true → s.w.pc ≠ .gotToken ∧ ∀ p, s.prods p ≠ .won
  f3 : s.w.pc = .gotToken → ∀ p, s.prods p ≠ .won
  f4 : ∀ p q, s.prods p = .won → s.prods q = .won → p = q
  f5 : s.flag = true → s.token = true ∨ s.w.pc = .gotToken ∨ ∃ p, s.prods p = .won
  nl : (s.w.pc = .waitLogs ∨ s.w.pc = .backoff) → s.buf ≠ [] → s.flag = true ∨ ∃ p, s.prods p = .sent
  wc : s.w.pc ≠ .drain → s.w.cur = none
  wz : s.w.cur = none → s.w.dups = 0
  sh : (s.w.pc = .fin ∨ s.w.pc = .done) → s.shut = true
  es : s.shut = true → s.enqAtShut ≤ s.enq.length
  sd : s.w.pc = .done → s.enqAtShut ≤ s.deq.length

theorem inv_init (cap paced lv) : Inv (St.init cap paced lv) := by
  constructor <;> simp [St.init, Writer.init, Writer.pending, expand, proj, PState.pending]


macro "inv_open" hs:ident : tactic => `(tactic| (
  simp only [step, St.accept, St.push] at $hs:ident
  (repeat' split at $hs:ident) <;> (try cases $hs:ident) <;> (try simp only [])))


theorem proj_single (p q : Nat) (l : Line) : proj p [(q, l)] = if q = p then [l] else [] := by
  by_cases h : q = p <;> simp [proj, h]

theorem inv_p_call {s s' : St} {pid l pkg pass} (hi : Inv s) (hs : step s (.p pid (.call l pkg pass)) = some s') : Inv s' := by
  inv_open hs
  all_goals (obtain ⟨d1,d2,p1,cp,f1,f2,f3,f4,f5,nl,wc,wz,sh,es,sd⟩ := hi; constructor <;> (try simp only [upd]))
  all_goals grind [PState.pending, Writer.pending, expand_append, proj_append, expand_single, equal_eq, List.replicate_succ', proj_single]

theorem inv_p_filter {s s' : St} {pid pass} (hi : Inv s) (hs : step s (.p pid (.filter pass)) = some s') : Inv s' := by
  inv_open hs
  all_goals (obtain ⟨d1,d2,p1,cp,f1,f2,f3,f4,f5,nl,wc,wz,sh,es,sd⟩ := hi; constructor <;> (try simp only [upd]))
  all_goals grind [PState.pending, Writer.pending, expand_append, proj_append, expand_single, equal_eq, List.replicate_succ', proj_single]

theorem inv_p_submit {s s' : St} {pid l} (hi : Inv s) (hs : step s (.p pid (.submit l)) = some s') : Inv s' := by
  inv_open hs
  all_goals (obtain ⟨d1,d2,p1,cp,f1,f2,f3,f4,f5,nl,wc,wz,sh,es,sd⟩ := hi; constructor <;> (try simp only [upd]))
  all_goals grind [PState.pending, Writer.pending, expand_append, proj_append, expand_single, equal_eq, List.replicate_succ', proj_single]

theorem inv_p_enq {s s' : St} {pid} (hi : Inv s) (hs : step s (.p pid .enq) = some s') : Inv s' := by
  inv_open hs
  all_goals (obtain ⟨d1,d2,p1,cp,f1,f2,f3,f4,f5,nl,wc,wz,sh,es,sd⟩ := hi; constructor <;> (try simp only [upd]))
  all_goals grind [PState.pending, Writer.pending, expand_append, proj_append, expand_single, equal_eq, List.replicate_succ', proj_single]

theorem inv_p_full {s s' : St} {pid} (hi : Inv s) (hs : step s (.p pid .full) = some s') : Inv s' := by
  inv_open hs
  all_goals (obtain ⟨d1,d2,p1,cp,f1,f2,f3,f4,f5,nl,wc,wz,sh,es,sd⟩ := hi; constructor <;> (try simp only [upd]))
  all_goals grind [PState.pending, Writer.pending, expand_append, proj_append, expand_single, equal_eq, List.replicate_succ', proj_single]

theorem inv_p_enqB {s s' : St} {pid} (hi : Inv s) (hs : step s (.p pid .enqB) = some s') : Inv s' := by
  inv_open hs
  all_goals (obtain ⟨d1,d2,p1,cp,f1,f2,f3,f4,f5,nl,wc,wz,sh,es,sd⟩ := hi; constructor <;> (try simp only [upd]))
  all_goals grind [PState.pending, Writer.pending, expand_append, proj_append, expand_single, equal_eq, List.replicate_succ', proj_single]

theorem inv_p_flag {s s' : St} {pid won} (hi : Inv s) (hs : step s (.p pid (.flag won)) = some s') : Inv s' := by
  inv_open hs
  all_goals (obtain ⟨d1,d2,p1,cp,f1,f2,f3,f4,f5,nl,wc,wz,sh,es,sd⟩ := hi; constructor <;> (try simp only [upd]))
  all_goals grind [PState.pending, Writer.pending, expand_append, proj_append, expand_single, equal_eq, List.replicate_succ', proj_single]

theorem inv_p_tok {s s' : St} {pid} (hi : Inv s) (hs : step s (.p pid .tok) = some s') : Inv s' := by
  inv_open hs
  all_goals (obtain ⟨d1,d2,p1,cp,f1,f2,f3,f4,f5,nl,wc,wz,sh,es,sd⟩ := hi; constructor <;> (try simp only [upd]))
  all_goals grind [PState.pending, Writer.pending, expand_append, proj_append, expand_single, equal_eq, List.replicate_succ', proj_single]

theorem inv_p_tokFull {s s' : St} {pid} (hi : Inv s) (hs : step s (.p pid .tokFull) = some s') : Inv s' := by
  inv_open hs
  all_goals (obtain ⟨d1,d2,p1,cp,f1,f2,f3,f4,f5,nl,wc,wz,sh,es,sd⟩ := hi; constructor <;> (try simp only [upd]))
  all_goals grind [PState.pending, Writer.pending, expand_append, proj_append, expand_single, equal_eq, List.replicate_succ', proj_single]

theorem inv_w_token {s s' : St} (hi : Inv s) (hs : step s (.w .token) = some s') : Inv s' := by
  inv_open hs
  all_goals (obtain ⟨d1,d2,p1,cp,f1,f2,f3,f4,f5,nl,wc,wz,sh,es,sd⟩ := hi; constructor <;> (try simp only [upd]))
  all_goals grind [PState.pending, Writer.pending, expand_append, proj_append, expand_single, equal_eq, List.replicate_succ', proj_single]

theorem inv_w_unset {s s' : St} (hi : Inv s) (hs : step s (.w .unset) = some s') : Inv s' := by
  inv_open hs
  all_goals (obtain ⟨d1,d2,p1,cp,f1,f2,f3,f4,f5,nl,wc,wz,sh,es,sd⟩ := hi; constructor <;> (try simp only [upd]))
  all_goals grind [PState.pending, Writer.pending, expand_append, proj_append, expand_single, equal_eq, List.replicate_succ', proj_single]

theorem inv_wforce {s s' : St} {pid} (hi : Inv s) (hs : step s (.wforce pid) = some s') : Inv s' := by
  inv_open hs
  all_goals (obtain ⟨d1,d2,p1,cp,f1,f2,f3,f4,f5,nl,wc,wz,sh,es,sd⟩ := hi; constructor <;> (try simp only [upd]))
  all_goals grind [PState.pending, Writer.pending, expand_append, proj_append, expand_single, equal_eq, List.replicate_succ', proj_single]

theorem inv_w_slot {s s' : St} (hi : Inv s) (hs : step s (.w .slot) = some s') : Inv s' := by
  inv_open hs
  all_goals (obtain ⟨d1,d2,p1,cp,f1,f2,f3,f4,f5,nl,wc,wz,sh,es,sd⟩ := hi; constructor <;> (try simp only [upd]))
  all_goals grind [PState.pending, Writer.pending, expand_append, proj_append, expand_single, equal_eq, List.replicate_succ', proj_single]

theorem inv_trigger {s s' : St} (hi : Inv s) (hs : step s .trigger = some s') : Inv s' := by
  inv_open hs
  all_goals (obtain ⟨d1,d2,p1,cp,f1,f2,f3,f4,f5,nl,wc,wz,sh,es,sd⟩ := hi; constructor <;> (try simp only [upd]))
  all_goals grind [PState.pending, Writer.pending, expand_append, proj_append, expand_single, equal_eq, List.replicate_succ', proj_single]

theorem inv_w_shut {s s' : St} (hi : Inv s) (hs : step s (.w .shut) = some s') : Inv s' := by
  inv_open hs
  all_goals (obtain ⟨d1,d2,p1,cp,f1,f2,f3,f4,f5,nl,wc,wz,sh,es,sd⟩ := hi; constructor <;> (try simp only [upd]))
  all_goals grind [PState.pending, Writer.pending, expand_append, proj_append, expand_single, equal_eq, List.replicate_succ', proj_single]

theorem inv_w_deq {s s' : St} {l} (hi : Inv s) (hs : step s (.w (.deq l)) = some s') : Inv s' := by
  inv_open hs
  all_goals (obtain ⟨d1,d2,p1,cp,f1,f2,f3,f4,f5,nl,wc,wz,sh,es,sd⟩ := hi; constructor <;> (try simp only [upd]))
  all_goals grind [PState.pending, Writer.pending, expand_append, proj_append, expand_single, equal_eq, List.replicate_succ', proj_single]

theorem inv_w_empty {s s' : St} (hi : Inv s) (hs : step s (.w .empty) = some s') : Inv s' := by
  inv_open hs
  all_goals (obtain ⟨d1,d2,p1,cp,f1,f2,f3,f4,f5,nl,wc,wz,sh,es,sd⟩ := hi; constructor <;> (try simp only [upd]))
  all_goals grind [PState.pending, Writer.pending, expand_append, proj_append, expand_single, equal_eq, List.replicate_succ', proj_single]

theorem inv_w_timer {s s' : St} (hi : Inv s) (hs : step s (.w .timer) = some s') : Inv s' := by
  inv_open hs
  all_goals (obtain ⟨d1,d2,p1,cp,f1,f2,f3,f4,f5,nl,wc,wz,sh,es,sd⟩ := hi; constructor <;> (try simp only [upd]))
  all_goals grind [PState.pending, Writer.pending, expand_append, proj_append, expand_single, equal_eq, List.replicate_succ', proj_single]

theorem inv_w_fdeq {s s' : St} {l} (hi : Inv s) (hs : step s (.w (.fdeq l)) = some s') : Inv s' := by
  inv_open hs
  all_goals (obtain ⟨d1,d2,p1,cp,f1,f2,f3,f4,f5,nl,wc,wz,sh,es,sd⟩ := hi; constructor <;> (try simp only [upd]))
  all_goals grind [PState.pending, Writer.pending, expand_append, proj_append, expand_single, equal_eq, List.replicate_succ', proj_single]

theorem inv_w_ftimeout {s s' : St} (hi : Inv s) (hs : step s (.w .ftimeout) = some s') : Inv s' := by
  inv_open hs
  all_goals (obtain ⟨d1,d2,p1,cp,f1,f2,f3,f4,f5,nl,wc,wz,sh,es,sd⟩ := hi; constructor <;> (try simp only [upd]))
  all_goals grind [PState.pending, Writer.pending, expand_append, proj_append, expand_single, equal_eq, List.replicate_succ', proj_single]

theorem inv_setLevel {s s' : St} {g} (hi : Inv s) (hs : step s (.setLevel g) = some s') : Inv s' := by
  inv_open hs
  all_goals (obtain ⟨d1,d2,p1,cp,f1,f2,f3,f4,f5,nl,wc,wz,sh,es,sd⟩ := hi; constructor <;> (try simp only [upd]))
  all_goals grind [PState.pending, Writer.pending, expand_append, proj_append, expand_single, equal_eq, List.replicate_succ', proj_single]

theorem inv_setPkgs {s s' : St} {m} (hi : Inv s) (hs : step s (.setPkgs m) = some s') : Inv s' := by
  inv_open hs
  all_goals (obtain ⟨d1,d2,p1,cp,f1,f2,f3,f4,f5,nl,wc,wz,sh,es,sd⟩ := hi; constructor <;> (try simp only [upd]))
  all_goals grind [PState.pending, Writer.pending, expand_append, proj_append, expand_single, equal_eq, List.replicate_succ', proj_single]

theorem inv_unsetPkgs {s s' : St} (hi : Inv s) (hs : step s .unsetPkgs = some s') : Inv s' := by
  inv_open hs
  all_goals (obtain ⟨d1,d2,p1,cp,f1,f2,f3,f4,f5,nl,wc,wz,sh,es,sd⟩ := hi; constructor <;> (try simp only [upd]))
  all_goals grind [PState.pending, Writer.pending, expand_append, proj_append, expand_single, equal_eq, List.replicate_succ', proj_single]

theorem inv_shutdown {s s' : St} (hi : Inv s) (hs : step s .shutdown = some s') : Inv s' := by
  inv_open hs
  all_goals (obtain ⟨d1,d2,p1,cp,f1,f2,f3,f4,f5,nl,wc,wz,sh,es,sd⟩ := hi; constructor <;> (try simp only [upd]))
  all_goals grind [PState.pending, Writer.pending, expand_append, proj_append, expand_single, equal_eq, List.replicate_succ', proj_single]


theorem inv_step {s s' : St} {a : Act} (hi : Inv s) (hs : step s a = some s') : Inv s' := by
  cases a with
  | p pid e =>
    cases e with
    | call l pkg pass => exact inv_p_call hi hs
    | filter pass => exact inv_p_filter hi hs
    | submit l => exact inv_p_submit hi hs
    | enq => exact inv_p_enq hi hs
    | full => exact inv_p_full hi hs
    | forced => simp [step] at hs
    | enqB => exact inv_p_enqB hi hs
    | flag won => exact inv_p_flag hi hs
    | tok => exact inv_p_tok hi hs
    | tokFull => exact inv_p_tokFull hi hs
  | w e =>
    cases e with
    | token => exact inv_w_token hi hs
    | unset => exact inv_w_unset hi hs
    | force => simp [step] at hs
    | slot => exact inv_w_slot hi hs
    | shut => exact inv_w_shut hi hs
    | deq l => exact inv_w_deq hi hs
    | empty => exact inv_w_empty hi hs
    | timer => exact inv_w_timer hi hs
    | fdeq l => exact inv_w_fdeq hi hs
    | ftimeout => exact inv_w_ftimeout hi hs
  | wforce pid => exact inv_wforce hi hs
  | trigger => exact inv_trigger hi hs
  | setLevel g => exact inv_setLevel hi hs
  | setPkgs m => exact inv_setPkgs hi hs
  | unsetPkgs => exact inv_unsetPkgs hi hs
  | shutdown => exact inv_shutdown hi hs

theorem inv_reachable {s : St} (h : Reachable s) : Inv s := by
  induction h with
  | init cap paced lv => exact inv_init cap paced lv
  | step _ hs ih => exact inv_step ih hs

end PB.Log
